#!/usr/bin/env python3
"""Regenerates MANIFEST.json from the table below (kept next to the checks so that it never goes stale)."""
import json, os
V = os.path.dirname(os.path.abspath(__file__))
CLAIMED = {
 'C10': dict(technique='Lean 4 theorems about an executable model of the field classes + differential correspondence (13 class streams, exhaustive small primes) + exact oracle',
             text='Every Z_p operation of the model (add/sub with the wrap-around branch, double-and-add multiply for every modulus < 2^32, signed conversion, fused operations, inverse table, rejection of composites) is proved equal to exact modular arithmetic in Lean (no bound on operands); the model is tied to the 13 real classes on every run by running the same histories through harness/hC10.cpp and gvdriver C10, exhaustively for small primes. The multi-field partial inverse is only checked by correspondence + exact oracle (CRT idempotents proved).',
             note='Lean kernel, Mathlib number theory, axioms propext/Classical.choice/Quot.sound; hand-written model tied by differential testing; GMP trusted; static classes only for the instantiated parameters', ref='§5 C10'),
 'C01': dict(technique='Lean 4 refinement theorems (Forest model vs abstract complex, lifted over histories) + differential correspondence on 8 option sets + independent Python abstract-complex oracle',
             text='The Forest model of the simplex tree is proved in Lean to refine the abstract complex for every history of insertions (raw and with subfaces, including the short-cut), maximal-simplex removals and both prunes (reachable_refines), with star / cofaces of every codimension, traversal and lazy-dimension theorems; gvdriver ST runs that model and harness/hST.cpp runs the same histories on the real Simplex_tree under eight option sets, comparing the whole observable state after the operations; a Python abstract complex predicts every line independently.',
             note='Lean kernel + axioms propext/Classical.choice/Quot.sound; model tied by differential testing (small universe, preconditions respected); batch/graph/clear/boundary/count/equality readers are word-level functions of the model (correspondence + oracle only); memory layout of option sets not modelled', ref='§5 C01'),
 'C03': dict(technique='Lean 4 theorems (strict total comparator, uniqueness of the sorted order, mfnd = least monotone function, prune = sublevel) + differential correspondence incl. TBB builds + Python cone-filtration oracle',
             text='The comparator is proved a strict total order putting faces first, two sorted permutations are proved equal (so any sort/schedule gives one order), the model order is proved a sorted permutation, make_filtration_non_decreasing is proved to yield the least monotone function above the input and pruning the sublevel complex; gvdriver ST and the real tree (5 option sets, with and without GUDHI_USE_TBB at several thread counts, complexes large enough for parallel_sort to split) are compared on the filtration sequence, flags and values; the extended filtration is compared against the model and a closed-form Python spec.',
             note='Lean kernel + standard axioms; sort routines trusted to return a sorted permutation; floating point outside the model (inputs exact in double); extended-filtration closed form not a Lean theorem (partial)', ref='§5 C03'),
 'C14': dict(technique='Lean 4 proof of the 1D state machine against the rank invariant (run_spec) + executable cubical/reduction specification for the rectangle + differential correspondence (exhaustive weak orders) + Python elder-rule oracle',
             text='The goto state machine of the 1D routine is modelled label by label in Lean and proved for every finite sequence to emit exactly the bars of the H0 rank invariant (run_spec, surgery lemmas); gvdriver C14 runs that model against the real routine in four call forms in emission order, exhaustively over every weak order up to length 6/7. The rectangle routine is compared, for every weak order of small grids and random grids, with the executable specification (lower-star cubical complex reduced by the proved reference reduction); there is no Lean model of fill_and_pair yet (partial).',
             note='Lean kernel + standard axioms; integer-valued inputs; 2D part is spec-level (cert_unique backs the reference reduction), no branch-level model of the rectangle routine', ref='§5 C14'),
 'C13': dict(technique='Lean 4 theorems (dd = 0 on counter vectors, enumeration = boundary, index/counter bijection) + executable position-level model incl. periodic wrap + differential correspondence + independent Python geometric spec',
             text='The cubical boundary on counter vectors is proved to square to zero in every dimension and the C++ enumeration with alternating signs is proved to be that boundary; the flat-index/counter maps are proved inverse. gvdriver C13 runs a position-level model (both classes, periodic wrap, coboundary, lower-star values under both conventions, filtration order) against the real classes for every small shape and random shapes, the harness evaluates dd = 0 on the real output (enumeration signs and incidence function), persistence over Z2/Z3/Zp is compared with the reference reduction, and a Python geometric specification checks every cell independently.',
             note='Lean kernel + standard axioms; position-level model tied to the counter-level theorems by correspondence (partial); integer values with +-infinity tokens', ref='§5 C13'),
 'C02': dict(technique='Lean 4 theorems (uniqueness of the pairing, reference reduction is a certificate over every Z_p, dense persistent cohomology = reference pairs) + executable CAM model + differential correspondence + independent Python reduction',
             text='cert_unique, reduceAllP_cert and drun_final prove for any field and any boundary matrix that the reference reduction and the dense cohomology algorithm compute the same, unique pairing; gvdriver C02 runs the compressed-annotation-matrix model and the reference reduction (and compares them on every input) against Persistent_cohomology on simplex trees (two option sets), Hasse complexes and cubical complexes over Z_p, and the multi-field engine prime by prime, including min_interval_length, persistence_dim_max, Betti and persistent Betti numbers; a Python reduction is a second independent oracle.',
             note='Lean kernel + Mathlib linear algebra, standard axioms; CAM model ⊑ dense algorithm not yet proved (partial, compared on every input); multi-field projection is an executable spec', ref='§5 C02'),
 'C05': dict(technique='Lean 4 theorems (cert_unique, reference reduction is a certificate over Z2 and every Z_p, chain-basis invariants) + differential correspondence of every matrix instantiation against the reference barcode + identities evaluated on the real columns + Python reduction oracle',
             text='The pairing of a reduced factorisation is proved unique, the executable reference reduction is proved to be such a factorisation for every prime, and the chain-basis insertion step is proved to preserve the compatible-basis invariants whose certificate gives the same barcode. Each compiled instantiation (covering array over column type x R / RU / chain x indexing x row access x removable x container x Z2/Zp; all that compile in the thorough tier) is driven through insertion / remove_last histories with default and custom identifiers and compared after the operations with gvdriver PM; the harness evaluates R reduced, B = R*U resp. R = B*V, pivots and the chain identities on the real columns.',
             note='Lean kernel + Mathlib; no Lean model of the individual C++ matrix classes (partial): the compared object is the reference barcode of the current filtration; known finding: removal with custom identifiers in boundary-type matrices', ref='§5 C05'),
 'C06': dict(technique='Lean 4 theorems for every leaf of the RU vine swap at matrix level + cert_unique; differential correspondence after every swap / removal / later insertion against the reference barcode of the current filtration (= fresh build); truthfulness of the returned flag; identities on the real columns',
             text='Fact3.addTo/conj/zeroEntry, reduced_conjSwap_gen and the leaf theorems vine_swap_only, vine_transpose, vine_NN_lt/gt, vine_NP, vine_PP_collision prove that each RU handler maps a reduced factorisation to a reduced factorisation of the exchanged filtration, whose barcode is by cert_unique that of a fresh build. RU and chain instantiations (container, position and identifier indexing, map/vector containers, several column types) are driven through random walks of admissible swaps interleaved with insertions, remove_last and remove_maximal_cell and compared after every step with gvdriver PM; the harness checks the returned value against the old and new barcodes and re-evaluates the identities.',
             note='C++ handlers and the chain flavour are not modelled leaf by leaf (partial); two known findings (chain insertion after swaps; identifier-indexed RU default identifiers after removals) are replayed as witnesses', ref='§5 C06'),
 'C08': dict(technique='Lean 4 theorems (rep_is_cycle, rep_youngest, rep_dies, chain_cert) + correspondence of the number of cycles with the reference barcode + every returned cycle checked against the real boundaries in the harness',
             text='From any certificate the columns of V at zero columns of R are proved to be cycles with youngest cell the birth, becoming boundaries exactly at the paired column; the chain flavour has the same through chain_cert. For RU (with and without vine updates, Z2 and Zp) and chain instantiations, after insertions, swaps and removals, update_representative_cycles is called (repeatedly) and every returned cycle is checked on the real boundary data: zero boundary, homogeneous dimension, youngest cell = birth, one cycle per bar.',
             note='basis clause not proved (partial); Zp cycles come without coefficients (support-level checks only); known finding: chain representative cycles assume identifier = position', ref='§5 C08'),
}
ALL = ['C%02d' % i for i in range(1, 21)]
checks = []
for pid in ALL:
    if pid not in CLAIMED: continue
    c = CLAIMED[pid]
    checks.append({
        'property_id': pid,
        'quick_cmd': 'python3 check.py %s --tier quick' % pid,
        'thorough_cmd': 'python3 check.py %s --tier thorough' % pid,
        'evidence_file': 'evidence/%s.json' % pid,
        'replay_cmd_template': 'python3 check.py %s --replay {path}' % pid,
        'engine': 'lean4-proof+correspondence',
        'level_claimed': {'category': 'proof', 'text': c['text'], 'design_ref': c['ref']},
        'level_note': c['note'],
        'technique': c['technique'],
    })
m = {
 'version': 1,
 'setup_cmd': 'cd lean && lake build GudhiVerif gvdriver',
 'hooks': {'guard': 'GUDHI_VERIF_HOOKS', 'enable': 'harnesses are compiled with -DGUDHI_VERIF_HOOKS against the headers in /repo/src/*/include (header-only library); see vlib.build_harness',
           'baseline_off_cmd': 'cmake --build /repo/_build -j16 && ctest --test-dir /repo/_build -j8 --timeout 900',
           'source_commits': [], 'add_only': True},
 'engines': [{'name': 'lean4-proof+correspondence', 'path': 'check.py', 'serves_properties': sorted(CLAIMED),
              'kind_free_text': 'Lean 4 theorems about hand-written executable models (lake project lean/), audited for axioms on every run; models tied to /repo by running the same generated histories through a C++ harness over the real headers and the compiled Lean driver (gvdriver) and diffing; exact oracles decide whether a divergence is a failing input'}],
 'checks': checks,
 'not_applicable': [{'property_id': p, 'reason': 'check not built yet in this round (model and proofs exist under lean/GudhiVerif, see DESIGN.md §8); not claimed until its correspondence harness runs clean'} for p in ALL if p not in CLAIMED],
 'notes': 'One entry point: python3 check.py <Cxx> --tier quick|thorough (env VERIF_SEED). Evidence is rewritten by every run. known_findings.json lists recorded findings and fixed defects.',
}
json.dump(m, open(os.path.join(V, 'MANIFEST.json'), 'w'), indent=1)
print('claimed', len(checks), 'not_applicable', len(m['not_applicable']))
