"""Shared generator / stream table for the persistence-matrix properties C05, C06, C08 (harness/hPM.cpp, gvdriver PM)."""
import itertools, os
import vlib
from props import pyph

# name -> (defines, capabilities)
def cfg(flav, colt, idx='CONTAINER', vine=0, rep=0, rmcol=0, rows=0, intr=1, rmrows=0, mapc=0, z2=1, pair=1):
    d = ['FLAV=%d' % flav, 'COLT=%s' % colt, 'IDX=%s' % idx, 'VINE=%d' % vine, 'REP=%d' % rep, 'RMCOL=%d' % rmcol, 'ROWS=%d' % rows,
         'INTRROWS=%d' % intr, 'RMROWS=%d' % rmrows, 'MAPC=%d' % mapc, 'Z2ONLY=%d' % z2] + ([] if pair else ['PAIR=0'])
    caps = dict(flav=flav, vine=bool(vine), rep=bool(rep), rm=bool(rmcol) and (flav != 2 or mapc or not vine), rmmax=bool(vine and rmcol and (flav != 2 or mapc)), zp=not z2,
                barcode_on_demand=(flav == 0), idid=(idx == 'IDENTIFIER' and flav != 2), mapc=bool(mapc), rows=bool(rows), pair=bool(pair))
    name = '%s_%s_%s%s%s%s%s%s%s' % (['R', 'RU', 'chain'][flav], colt.lower(), idx.lower()[:3], '_vine' if vine else '', '_rep' if rep else '', '_rm' if rmcol else '',
                                      ('_rows' + ('i' if intr else 's') + ('r' if rmrows else '')) if rows else '', '_map' if mapc else '', ('' if z2 else '_zp') + ('' if pair else '_nobar'))
    return name, d, caps

QUICK = [
    cfg(0, 'INTRUSIVE_SET'), cfg(0, 'HEAP', z2=0), cfg(0, 'VECTOR', idx='IDENTIFIER', rmcol=1),
    cfg(1, 'LIST', rep=1, rows=1, intr=0), cfg(1, 'SET', rep=1, z2=0, rmcol=1), cfg(1, 'NAIVE_VECTOR', idx='POSITION', rep=1, rows=1, rmrows=1, rmcol=1),
    cfg(2, 'INTRUSIVE_LIST'), cfg(2, 'UNORDERED_SET', idx='POSITION', z2=0), cfg(2, 'SMALL_VECTOR', idx='IDENTIFIER', rmcol=1, mapc=1, rows=1),
    cfg(1, 'INTRUSIVE_SET', vine=1, rmcol=1, rep=1), cfg(1, 'VECTOR', idx='IDENTIFIER', vine=1, rmcol=1, mapc=1), cfg(1, 'HEAP', vine=1),
    cfg(2, 'INTRUSIVE_LIST', idx='POSITION', vine=1, rmcol=1, mapc=1, rows=1, rep=1), cfg(2, 'SET', vine=1, rmcol=1, mapc=1), cfg(2, 'LIST', idx='IDENTIFIER', vine=1, rmcol=1, mapc=1),
    cfg(2, 'INTRUSIVE_SET', rep=1), cfg(1, 'UNORDERED_SET', rep=1), cfg(1, 'SMALL_VECTOR', vine=1, rmcol=0, rep=1),
    cfg(1, 'VECTOR', rep=1, rmcol=1),      # lazily erasing columns in R and U with removals (release build: see C05.run)
    cfg(1, 'LIST', vine=1, pair=0), cfg(1, 'NAIVE_VECTOR', idx='POSITION', vine=1, rmcol=1, pair=0),      # vine updates without stored barcode: the pairing is read off R
    cfg(2, 'LIST', z2=0, rmcol=1, mapc=1), cfg(2, 'INTRUSIVE_SET', idx='POSITION', z2=0, rmcol=1, mapc=1, rep=1),      # chain matrices over Z_p with removals followed by insertions
]
COLS = ['LIST', 'SET', 'HEAP', 'VECTOR', 'NAIVE_VECTOR', 'SMALL_VECTOR', 'UNORDERED_SET', 'INTRUSIVE_LIST', 'INTRUSIVE_SET']


def thorough_cfgs():
    out = list(QUICK)
    seen = {c[0] for c in out}
    for colt in COLS:
        for flav in (0, 1, 2):
            for idx in ('CONTAINER', 'POSITION', 'IDENTIFIER'):
                for z2 in (1, 0):
                    c = cfg(flav, colt, idx=idx, z2=z2, rep=1 if flav else 0, rmcol=1, mapc=1 if flav == 2 else 0)
                    if c[0] not in seen: out.append(c); seen.add(c[0])
                if flav:
                    c = cfg(flav, colt, idx=idx, vine=1, rmcol=1, mapc=1, rep=1)
                    if c[0] not in seen: out.append(c); seen.add(c[0])
        if colt != 'HEAP':
            for flav in (1, 2):
                for intr in (0, 1):
                    c = cfg(flav, colt, rows=1, intr=intr, rmrows=1, rmcol=1, mapc=1, rep=1)
                    if c[0] not in seen: out.append(c); seen.add(c[0])
    return out


def build(ctx, cfgs, sanitize=False, release=False):
    """release: -O2 -DNDEBUG (GUDHI_CHECK, GUDHI_CHECK_code and assert compiled out), the way the library is normally used"""
    src = os.path.join(vlib.VERIF, 'harness', 'hPM.cpp')
    specs = [dict(name='hPM_' + n + ('_san' if sanitize else '') + ('_rel' if release else ''), src=src, defines=list(d) + (['NDEBUG'] if release else []), sanitize=sanitize,
                  opt='-O2' if release else '-O1') for n, d, c in cfgs]
    exes, errs = vlib.build_many(ctx, specs)
    return exes, errs


# ------------------------------------------------------------------------------------------------ complexes
def random_simplicial(rng, maxv=6, maxdim=3):
    nv = rng.randrange(2, maxv + 1); S = set()
    for _ in range(rng.randrange(1, 5)):
        s = tuple(sorted(rng.sample(range(nv), rng.randrange(1, min(nv, maxdim + 1) + 1))))
        for k in range(1, len(s) + 1):
            for f in itertools.combinations(s, k): S.add(f)
    cells = {s: (len(s) - 1, [(s[:i] + s[i + 1:], 1 if i % 2 == 0 else -1) for i in range(len(s))] if len(s) > 1 else []) for s in S}
    return cells


def random_cubical(rng):
    """cells of a small 2D grid as a general (non-simplicial) cell complex: name -> (dim, [(face, sign)])"""
    w, h = rng.randrange(1, 4), rng.randrange(1, 3)
    cells = {}
    for x in range(2 * w + 1):
        for y in range(2 * h + 1):
            d = (x % 2) + (y % 2); b = []
            if x % 2: b += [((x - 1, y), -1), ((x + 1, y), 1)]
            if y % 2:
                sg = -1 if x % 2 else 1
                b += [((x, y - 1), -sg), ((x, y + 1), sg)]
            cells[(x, y)] = (d, b)
    # random subcomplex closed under faces
    keep = set()
    for c in cells:
        if rng.random() < 0.7:
            stack = [c]
            while stack:
                q = stack.pop()
                if q in keep: continue
                keep.add(q); stack += [f for f, _ in cells[q][1]]
    return {c: cells[c] for c in keep}


def random_cw(rng):
    """a small CW complex with cells whose boundary is empty in positive dimension (loops, spheres, torus-like 2-cells) or a
    multiple of a loop (degree-2 attachment: torsion over odd characteristic, empty boundary over Z2)"""
    cells = {}; nv = rng.randrange(1, 4)
    for i in range(nv): cells[('v', i)] = (0, [])
    loops = []
    for i in range(rng.randrange(1, 4)):
        if nv >= 2 and rng.random() < 0.5:
            u, v = rng.sample(range(nv), 2); cells[('e', i)] = (1, [(('v', u), -1), (('v', v), 1)])
        else:
            cells[('l', i)] = (1, []); loops.append(('l', i))
    for i in range(rng.randrange(0, 3)):
        r = rng.random()
        if r < 0.4 or not loops: cells[('f', i)] = (2, [])
        elif r < 0.7: cells[('f', i)] = (2, [(rng.choice(loops), rng.choice([2, -2, 1, -1]))])
        else: cells[('f', i)] = (2, [(l, rng.choice([1, -1])) for l in rng.sample(loops, min(len(loops), 2))])
    if rng.random() < 0.3: cells[('s', 0)] = (3, [])
    return cells


def linear_extension(rng, cells):
    remaining = set(cells); placed = []; done = set()
    while remaining:
        avail = [c for c in remaining if all(f in done for f, _ in cells[c][1])]
        c = rng.choice(sorted(avail, key=str)); placed.append(c); done.add(c); remaining.discard(c)
    return placed


class Sim:
    """python mirror of the current filtration (ids in order, boundaries) used to pick admissible operations and as oracle"""
    def __init__(self, p): self.p = p; self.order = []; self.bd = {}; self.dim = {}

    def ins(self, cid, d, b): self.order.append(cid); self.bd[cid] = dict(b); self.dim[cid] = d

    def maximal_positions(self):
        used = set()
        for c in self.order: used |= set(self.bd[c])
        return [i for i, c in enumerate(self.order) if c not in used]

    def admissible_swaps(self):
        return [i for i in range(len(self.order) - 1) if self.order[i] not in self.bd[self.order[i + 1]]]

    def bars(self):
        pos = {c: i for i, c in enumerate(self.order)}
        cols = [{pos[f]: c % self.p for f, c in self.bd[cid].items() if c % self.p} for cid in self.order]
        pairs, ess = pyph.reduce_pairs(cols, self.p)
        out = [(self.dim[self.order[b]], b, d) for b, d in pairs] + [(self.dim[self.order[b]], b, None) for b in ess]
        return sorted(out, key=lambda t: (t[0], t[1]))

    def bars_line(self):
        return ('bars ' + ' '.join('%d:%d:%s' % (d, b, 'inf' if e is None else e) for d, b, e in self.bars())).rstrip()


def gen_case(rng, caps, p=2, want_vine=False, want_rep=False, custom_ids=False, observe_every=0.5, ident=True, insert_after_swap=None, plain_ids=False, dup_p=0.0):
    # chain matrices order later insertions by identifier, which is wrong once swaps have happened (known finding D31):
    # by default such histories are not generated for the chain flavour
    if insert_after_swap is None: insert_after_swap = caps.get('flav') != 2
    removed_middle = False      # identifier-indexed boundary matrices hand out a colliding default identifier after such a removal (known finding)
    swapped = False
    order = []
    while not order:        # (an empty complex is possible, rarely)
        r0 = rng.random()
        cells = random_cw(rng) if r0 < 0.12 else random_cubical(rng) if r0 < 0.35 else random_simplicial(rng)
        order = linear_extension(rng, cells)
    if len(order) > 26: order = order[:26]
    ids = {}; nxt = 0
    sim = Sim(p); lines = ['new %d' % p, 'ids %s' % ('custom' if custom_ids else 'default')]
    on_demand = caps.get('barcode_on_demand')   # R-only boundary matrix: the barcode is computed once, on request, when the matrix is complete

    def obs():
        if on_demand: return
        lines.append('bars')
        if ident: lines.append('ident')
        if want_rep and caps['rep'] and p == 2: lines.append('cycles')

    def insert(c):
        nonlocal nxt
        ids[c] = nxt; nxt += 1 + (rng.randrange(0, 3) if custom_ids else 0)
        d, b = cells[c]
        bb = {ids[f]: s % p for f, s in b}
        sim.ins(ids[c], d, bb)
        lines.append('ins %d %d %s' % (ids[c], d, ' '.join('%d:%d' % (r, cf) for r, cf in sorted(bb.items()) if cf)))
    pending = list(order)
    # (R-only matrices with removable columns: insertions and removals of the last cell alternate before the one and only barcode request)
    k0 = rng.randrange(1, len(pending) + 1) if (caps['rm'] or caps['vine']) and (not on_demand or rng.random() < 0.6) else len(pending)
    for c in pending[:k0]: insert(c)
    pending = pending[k0:]
    if rng.random() < observe_every: obs()
    steps = rng.randrange(0, 14) if not on_demand else (rng.randrange(0, 12) if caps['rm'] else 0)
    removed = []
    if dup_p and rng.random() < 2 * dup_p: lines.append('dup %d' % rng.randrange(5))
    just_removed = False
    for _ in range(steps):
        if rng.random() < dup_p: lines.append('dup %d' % rng.randrange(5))
        r = rng.random()
        if just_removed and rng.random() < 0.6: r = 0.95       # a removal is often followed by an insertion at the freed position ...
        just_removed = False
        if caps['vine'] and want_vine and r < 0.55:
            sw = sim.admissible_swaps()
            if not sw: continue
            i = rng.choice(sw[-2:]) if rng.random() < 0.4 else rng.choice(sw); lines.append('swap %d' % i); sim.order[i], sim.order[i + 1] = sim.order[i + 1], sim.order[i]; swapped = True
        elif caps['rm'] and r < 0.75 and sim.order and ((not custom_ids and not plain_ids) or on_demand or (custom_ids and caps['flav'] == 1 and not caps['mapc'] and not caps['rows'])):
            # (custom identifiers + remove_last: part of a known finding for matrices with row swaps or removable rows; the R-only flavour has neither)
            cid = sim.order[-1]
            if cid in [x for c in sim.order for x in sim.bd[c]]: continue
            lines.append('rmlast'); sim.order.pop(); removed.append((cid, sim.dim.pop(cid), sim.bd.pop(cid))); just_removed = True
        elif caps['rmmax'] and want_vine and r < 0.85 and not custom_ids and not plain_ids:
            mp = sim.maximal_positions()
            if not mp: continue
            i = rng.choice(mp); cid = sim.order[i]; lines.append('rmmax %d' % i); sim.order.pop(i); removed.append((cid, sim.dim.pop(cid), sim.bd.pop(cid))); swapped = swapped or i < len(sim.order); removed_middle = removed_middle or i < len(sim.order)
        elif pending and (insert_after_swap or not swapped) and not ((removed_middle or swapped) and caps.get('idid')):
            c = pending.pop(0)
            if all(f in ids and ids[f] in sim.bd or not True for f, _ in cells[c][1]) and all(ids.get(f) in sim.dim for f, _ in cells[c][1]): insert(c)
        elif removed and (not custom_ids or on_demand or (caps['flav'] == 1 and not caps['mapc'] and not caps['rows'])) and (insert_after_swap or not swapped) and not ((removed_middle or swapped) and caps.get('idid')):
            cid, d, b = removed.pop()
            if all(f in sim.dim for f in b):
                if on_demand and custom_ids and cid not in sim.dim and cid > max(list(sim.dim) + [-1]) and rng.random() < 0.6: nid = cid; nxt = max(nxt, cid + 1)      # the freed identifier is used again, possibly at another position (identifiers stay strictly increasing along the filtration, as documented)
                else: nid = nxt; nxt += 1 + (rng.randrange(0, 3) if custom_ids else 0)
                sim.ins(nid, d, b)
                lines.append('ins %d %d %s' % (nid, d, ' '.join('%d:%d' % (r2, cf) for r2, cf in sorted(b.items()) if cf)))
        if rng.random() < observe_every: obs()
    if on_demand:
        lines.append('bars'); lines.append('ident')
    else:
        obs()
        if lines[-1] not in ('bars', 'ident', 'cycles'): lines.append('bars')
    return lines


def simulate(case):
    sim = None; out = []
    for l in case:
        t = l.split(); o = t[0]
        if o == 'new': sim = Sim(int(t[1])); out.append('new')
        elif o == 'ins':
            b = {}
            for e in t[3:]:
                r, c = e.split(':'); c = int(c) % sim.p
                if c: b[int(r)] = c
            sim.ins(int(t[1]), int(t[2]), b); out.append('ins')
        elif o == 'ids': out.append('ids')
        elif o == 'dup': out.append('dup')
        elif o == 'bars': out.append(sim.bars_line())
        elif o == 'ident': out.append('ident 1')
        elif o == 'rmlast':
            cid = sim.order.pop(); sim.bd.pop(cid); sim.dim.pop(cid); out.append('rmlast')
        elif o == 'swap':
            i = int(t[1]); sim.order[i], sim.order[i + 1] = sim.order[i + 1], sim.order[i]; out.append('swap ok')
        elif o == 'rmmax':
            i = int(t[1]); cid = sim.order.pop(i); sim.bd.pop(cid); sim.dim.pop(cid); out.append('rmmax')
        elif o == 'cycles': out.append('cycles ok %d' % len(sim.bars()))
        else: out.append(None)
    return out


def oracle(case, impl):
    exp = simulate(case)
    if len(exp) != len(impl): return 'the matrix printed %d lines, %d expected' % (len(impl), len(exp))
    for k, (e, g) in enumerate(zip(exp, impl)):
        if e is not None and e.rstrip() != g.rstrip():
            return 'after %r: matrix says %r, independent reduction of the current filtration says %r' % (case[k] if k < len(case) else '?', g[:200], e[:200])
    return None


def valid(case):
    """preconditions: faces present at insertion, swaps admissible, removed cells maximal"""
    try:
        sim = None
        for l in case:
            t = l.split(); o = t[0]
            if o == 'new': sim = Sim(int(t[1]))
            elif sim is None: return False
            elif o == 'ins':
                b = {int(e.split(':')[0]): int(e.split(':')[1]) for e in t[3:]}
                if any(f not in sim.dim for f in b) or int(t[1]) in sim.dim: return False
                if sim.order and int(t[1]) <= max(sim.order): return False
                sim.ins(int(t[1]), int(t[2]), b)
            elif o == 'swap':
                i = int(t[1])
                if i not in sim.admissible_swaps(): return False
                sim.order[i], sim.order[i + 1] = sim.order[i + 1], sim.order[i]
            elif o == 'rmlast':
                if not sim.order or (len(sim.order) - 1) not in sim.maximal_positions(): return False
                cid = sim.order.pop(); sim.bd.pop(cid); sim.dim.pop(cid)
            elif o == 'rmmax':
                i = int(t[1])
                if i not in sim.maximal_positions(): return False
                cid = sim.order.pop(i); sim.bd.pop(cid); sim.dim.pop(cid)
        return True
    except Exception:
        return False
