"""C18 — persistence landscapes equal their definition and form a normed vector space."""
import os, re
from fractions import Fraction as Fr
import vlib

MODULE = 'GudhiVerif.Properties.C18'
THEOREMS = ['C18.sortDesc_perm', 'C18.sortDesc_sorted', 'C18.sortDesc_congr', 'C18.lam_nonneg', 'C18.lam_antitone', 'C18.lam_perm', 'C18.lam_kth_largest', 'C18.lam_zero_beyond',
            'C18.tent_linear_on_half_cells', 'C18.tent_le_half_length', 'C18.zipPad_eq_zipWith', 'C18.zipPad_sub_self', 'C18.distInf_symm', 'C18.supAbs_triangle',
            'C18.inner_symm', 'C18.inner_add_left', 'C18.inner_scale_left', 'C18.inner_self_nonneg']
PARTIAL = ['C18_construct_partial: the characteristic-point sweep of Persistence_landscape and the heap-based grid construction are not modelled; the compared object is the definition (k-th largest tent) sampled on quarter points, '
           'where every function involved is linear between samples for integer diagrams',
           'C18_integral_partial: integrals are the exact cell formulas of the sampled piecewise-linear functions (symmetry, bilinearity, positivity of the inner product and the sup-distance laws are theorems; '
           'the L1 triangle inequality and the identification of the cell formulas with Lebesgue integrals are not)']
ASSUMPTIONS = ['diagrams with integer end points in [0,10]; evaluation at quarter points; scalars in {-2,-1,0,2,3}; averages of 2 or 4 landscapes (all arithmetic exact in double)',
               'grid form: grid-aligned diagrams (grid step 1 or 2, end points on the grid, grid covering the diagram); between grid points the gridded form is the linear interpolation of the landscape at the grid points '
               '(equal to the landscape itself when every interval midpoint is a grid point); L1/L2 grid distances only for pairs whose difference does not change sign inside a grid cell (documented limitation of the class)']

LO, HI = -4, 48     # quarter units
SC = [-2, -1, 0, 2, 3]


# ------------------------------------------------------------------------------------------------ independent Python specification
def tent(b, d, t): return max(Fr(0), min(t - b, d - t))


def lam(diag, k, t):
    v = sorted((tent(b, d, t) for b, d in diag), reverse=True)
    return v[k] if k < len(v) else Fr(0)


class Obj:
    """levels sampled at every 1/8 unit on [-1, 12] (real units)"""
    xs = [Fr(i, 8) for i in range(-8, 12 * 8 + 1)]

    def __init__(self, levels): self.lv = levels          # list of lists of Fractions

    @staticmethod
    def exact(diag): return Obj([[lam(diag, k, x) for x in Obj.xs] for k in range(len(diag))])

    @staticmethod
    def grid(diag, g0, g1, n):
        dx = Fr(g1 - g0, n)
        def ev(k, x):
            if x < g0 or x > g1: return Fr(0)
            i = int((x - g0) / dx); a = g0 + i * dx
            if a == x: return lam(diag, k, a)
            ya, yb = lam(diag, k, a), lam(diag, k, a + dx)
            return ya + (yb - ya) * (x - a) / dx
        return Obj([[ev(k, x) for x in Obj.xs] for k in range(len(diag))])

    def level(self, k): return self.lv[k] if k < len(self.lv) else [Fr(0)] * len(Obj.xs)

    def op(self, other, f):
        n = max(len(self.lv), len(other.lv))
        return Obj([[f(a, b) for a, b in zip(self.level(k), other.level(k))] for k in range(n)])

    def map(self, f): return Obj([[f(a) for a in l] for l in self.lv])

    def integral(self): return sum((sum((a + b) / 2 * Fr(1, 8) for a, b in zip(l, l[1:])) for l in self.lv), Fr(0))

    def integral_abs(self):
        tot = Fr(0)
        for l in self.lv:
            for a, b in zip(l, l[1:]):
                if a * b < 0: tot += (a * a + b * b) / (2 * (abs(a) + abs(b))) * Fr(1, 8)
                else: tot += (abs(a) + abs(b)) / 2 * Fr(1, 8)
        return tot

    def inner(self, other):
        tot = Fr(0)
        for k in range(min(len(self.lv), len(other.lv))):
            f, g = self.lv[k], other.lv[k]
            for i in range(len(f) - 1):
                tot += (2 * f[i] * g[i] + f[i] * g[i + 1] + f[i + 1] * g[i] + 2 * f[i + 1] * g[i + 1]) / 6 * Fr(1, 8)
        return tot

    def sup(self): return max([abs(a) for l in self.lv for a in l], default=Fr(0))


def q_index_check():
    # quarter point q (quarter units) is x = q/4 real units = index (q/4 + 1) * 8 = 2q + 8 in Obj.xs
    assert Obj.xs[2 * LO + 8] == Fr(LO, 4)


def fmt(x): return '%.6f' % float(x)


def simulate(case):
    E, G = {}, {}
    out = []; wlo, whi = LO, HI
    for line in case:
        t = line.split(); o = t[0]
        g = o.startswith('g') and o != 'gdiag'
        S = G if o.startswith('g') else E
        name = o[1:] if (o.startswith('g') and o != 'gdiag') else o
        def diag_at(i):
            n = int(t[i]); return [(Fr(int(t[i + 1 + 2 * j])), Fr(int(t[i + 2 + 2 * j]))) for j in range(n)]
        if o == 'window': wlo, whi = int(t[1]), int(t[2]); out.append('window')
        elif o == 'diag': E[t[1]] = Obj.exact(diag_at(2)); out.append('diag')
        elif o == 'gdiag': G[t[1]] = Obj.grid(diag_at(5), int(t[2]), int(t[3]), int(t[4])); out.append('gdiag')
        elif o == 'gdiagl': ob_ = Obj.grid(diag_at(6), int(t[2]), int(t[3]), int(t[4])); G[t[1]] = Obj(ob_.lv[:int(t[5])]); out.append('gdiagl')
        elif name == 'eval':
            ob = S.get(t[1], Obj([]))
            for k in range(int(t[2])):
                l = ob.level(k)
                out.append('lev %d: %s' % (k, ' '.join(str(int(l[2 * q + 8] * 64)) for q in range(wlo, whi + 1))))
        elif name == 'add': S[t[1]] = S[t[2]].op(S[t[3]], lambda a, b: a + b); out.append(o)
        elif name == 'sub': S[t[1]] = S[t[2]].op(S[t[3]], lambda a, b: a - b); out.append(o)
        elif name == 'scale': c = int(t[3]); S[t[1]] = S[t[2]].map(lambda a: c * a); out.append(o)
        elif name == 'abs': S[t[1]] = S[t[2]].map(abs); out.append(o)
        elif name == 'avg':
            srcs = t[2:]; acc = S[srcs[0]]
            for s_ in srcs[1:]: acc = acc.op(S[s_], lambda a, b: a + b)
            n = len(srcs); S[t[1]] = acc.map(lambda a: a / n); out.append(o)
        elif name == 'int': out.append('%s %s' % (o, fmt(S[t[1]].integral())))
        elif name == 'dist':
            d = S[t[1]].op(S[t[2]], lambda a, b: a - b); p = int(t[3])
            out.append('%s %s' % (o, fmt(d.sup() if p == 0 else d.integral_abs() if p == 1 else d.inner(d))))
        elif name == 'ip': out.append('%s %s' % (o, fmt(S[t[1]].inner(S[t[2]]))))
        else: out.append(None)
    return out


NUM = re.compile(r'^-?\d+/\d+$|^-?\d+\.\d+$')


def canon(lines):
    out = []
    for l in lines:
        t = l.split()
        if len(t) == 2 and t[0] in ('int', 'dist', 'ip', 'gint', 'gdist', 'gip') and NUM.match(t[1]):
            v = Fr(t[1]) if '/' in t[1] else Fr(t[1])
            out.append(('%s %s' % (t[0], fmt(v + 0))).replace('-0.000000', '0.000000'))
        else: out.append(l)
    return out


def oracle(case, impl):
    exp = simulate(case); impl = canon(impl)
    if len(exp) != len(impl): return 'the library printed %d lines, the definition predicts %d' % (len(impl), len(exp))
    for k, (e, g) in enumerate(zip(exp, impl)):
        if e is not None and e.replace('-0.000000', '0.000000') != g: return 'line %d: library %r, definition %r' % (k, g[:200], e[:200])
    return None


# ------------------------------------------------------------------------------------------------ generator
def rand_diag(rng, lo=0, hi=10, step=1):
    n = rng.randrange(1, 6); d = []
    pts = list(range(lo, hi + 1, step))
    for _ in range(n):
        r = rng.random()
        if d and r < 0.2: d.append(rng.choice(d))                                    # repeated interval
        elif d and r < 0.35: b, e = rng.choice(d); d.append((e, rng.choice([p for p in pts if p > e] or [e + step])) if e < hi else (b, e))   # touching
        elif d and r < 0.5:
            b, e = rng.choice(d); inner = [p for p in pts if b <= p <= e]
            if len(inner) >= 2: x, y = sorted(rng.sample(inner, 2)); d.append((x, y))   # nested
            else: d.append((b, e))
        else:
            x, y = sorted(rng.sample(pts, 2)); d.append((x, y))
    d = [(b, e) for b, e in d if e <= hi]
    return d or [(lo, lo + step)]


def dline(d): return '%d %s' % (len(d), ' '.join('%d %d' % p for p in d))


def gen_exact(rng):
    lines = ['window %d %d' % (LO, HI)]
    nd = rng.randrange(2, 5); sizes = {}
    for i in range(nd):
        d = rand_diag(rng); lines.append('diag %d %s' % (i, dline(d))); sizes[i] = len(d)
        if rng.random() < 0.7: lines.append('eval %d %d' % (i, len(d) + 1))
    live = dict(sizes); absd = set()
    for _ in range(rng.randrange(3, 10)):
        x = rng.random(); ok = [k for k in live if k not in absd]
        if x < 0.25:
            a, b = rng.choice(ok), rng.choice(ok); c = rng.randrange(6); o = rng.choice(['add', 'sub'])
            lines.append('%s %d %d %d' % (o, c, a, b)); live[c] = max(live[a], live[b]); absd.discard(c)
            lines.append('eval %d %d' % (c, live[c] + 1))
        elif x < 0.4:
            a = rng.choice(ok); c = rng.randrange(6)
            lines.append('scale %d %d %d %d' % (c, a, rng.choice(SC), rng.randrange(2))); live[c] = live[a]; absd.discard(c)
            lines.append('eval %d %d' % (c, live[c]))
        elif x < 0.5:
            a = rng.choice(ok); c = rng.randrange(6)
            if c in ok and len(ok) == 1: continue
            lines.append('abs %d %d' % (c, a)); live[c] = live[a]; absd.add(c)
            lines.append('eval %d %d' % (c, live[c]))
        elif x < 0.58:
            n = rng.choice([2, 4, 3, 5, 6, 7]); srcs = [rng.choice(ok) for _ in range(n)]; c = rng.randrange(6)
            # other counts than powers of two: one landscape n times, or two landscapes three times each (the mean is then exact: a, resp. (a+b)/2)
            if n in (3, 5, 7): srcs = [srcs[0]] * n
            elif n == 6: srcs = [srcs[0], srcs[1]] * 3; rng.shuffle(srcs)
            if c in ok and len(ok) == 1: continue
            lines.append('avg %d %s' % (c, ' '.join(map(str, srcs)))); live[c] = max(live[s] for s in srcs); absd.add(c)   # an average is not combined further (keeps the samples on the 1/64 lattice)
            lines.append('eval %d %d' % (c, live[c]))
        elif x < 0.68: lines.append('int %d' % rng.choice(ok))
        elif x < 0.9: lines.append('dist %d %d %d' % (rng.choice(ok), rng.choice(ok), rng.choice([0, 1, 2])))
        else: lines.append('ip %d %d' % (rng.choice(ok), rng.choice(ok)))
    return lines


def sign_change_inside_cell(a, b, g0, g1, n):
    d = a.op(b, lambda x, y: x - y); dx = Fr(g1 - g0, n)
    for l in d.lv:
        for i in range(n):
            xa, xb = g0 + i * dx, g0 + (i + 1) * dx
            ya, yb = l[int(xa * 8) + 8], l[int(xb * 8) + 8]
            if ya * yb < 0: return True
    return False


def grid_ok(d, g0, g1, n):
    """keep the intervals whose end points have an even sum in grid steps and are at least two steps apart: for the others the
    stored grid values are one step too low after the middle (known finding C18-grid-odd-sum-interval, asserted by the unit test)"""
    num = lambda x: (x - g0) * n        # index * (g1 - g0)
    span = g1 - g0
    keep = [(b, e) for b, e in d if num(b) % span == 0 and num(e) % span == 0 and ((num(b) + num(e)) // span) % 2 == 0 and (num(e) - num(b)) // span >= 2]
    return keep or [(g0, g0 + 2 * span // n if 2 * span % n == 0 else g1)]


def plateau_in_difference(a, b, g0, g1, n):
    """does |a - b| have two equal non-zero values at adjacent grid points (known finding C18-grid-power-integral-plateau)"""
    d = a.op(b, lambda x, y: x - y); dx = Fr(g1 - g0, n)
    for l in d.lv:
        for i in range(n):
            ya, yb = l[int((g0 + i * dx) * 8) + 8], l[int((g0 + (i + 1) * dx) * 8) + 8]
            if abs(ya) == abs(yb) and ya != 0: return True
    return False


def gen_grid(rng):
    step = rng.choice([1, 1, 2, 0]); hi = rng.choice([4, 6, 8, 10])     # 0 stands for a grid step of 1/2 (values that are not integers)
    if step == 2 and hi % 2: hi += 1
    g0, g1, n = 0, hi, (hi // step if step else 2 * hi)
    step = step or 1
    lines = ['window %d %d' % (LO, HI)]
    nd = rng.randrange(2, 4); objs = {}; sizes = {}; tainted = set()
    for i in range(nd):
        d = grid_ok(rand_diag(rng, 0, hi, step), g0, g1, n); lines.append('gdiag %d %d %d %d %s' % (i, g0, g1, n, dline(d)))
        objs[i] = Obj.grid([(Fr(b), Fr(e)) for b, e in d], g0, g1, n); sizes[i] = len(d)
        lines.append('geval %d %d' % (i, len(d) + 1))
        if rng.random() < 0.5:
            # the constructor with a bounded number of levels, on a richer diagram (several intervals over the same grid points, in random order):
            # the levels it keeps must be the first ones
            d2 = list(d) + grid_ok(rand_diag(rng, 0, hi, step), g0, g1, n) + grid_ok(rand_diag(rng, 0, hi, step), g0, g1, n); rng.shuffle(d2)
            if len(d2) >= 3:
                nl_ = rng.randrange(2, min(len(d2), 4)); j_ = rng.randrange(3, 6)
                full_ = Obj.grid([(Fr(b), Fr(e)) for b, e in d2], g0, g1, n)
                lines.append('gdiagl %d %d %d %d %d %s' % (j_, g0, g1, n, nl_, dline(d2))); objs[j_] = Obj(full_.lv[:nl_]); sizes[j_] = nl_; tainted.discard(j_)
                lines.append('geval %d %d' % (j_, nl_))
    for _ in range(rng.randrange(2, 8)):
        x = rng.random(); ok = list(objs)
        if x < 0.3:
            a, b = rng.choice(ok), rng.choice(ok); c = rng.randrange(6); o = rng.choice(['gadd', 'gsub'])
            lines.append('%s %d %d %d' % (o, c, a, b)); objs[c] = objs[a].op(objs[b], (lambda p, q: p + q) if o == 'gadd' else (lambda p, q: p - q)); sizes[c] = max(sizes[a], sizes[b])
            (tainted.add if (a in tainted or b in tainted) else tainted.discard)(c)
            lines.append('geval %d %d' % (c, sizes[c] + 1))
        elif x < 0.45:
            a = rng.choice(ok); c = rng.randrange(6); k = rng.choice(SC)
            lines.append('gscale %d %d %d %d' % (c, a, k, rng.randrange(2))); objs[c] = objs[a].map(lambda p: k * p); sizes[c] = sizes[a]
            (tainted.add if a in tainted else tainted.discard)(c)
            lines.append('geval %d %d' % (c, sizes[c]))
        elif x < 0.53:
            clean_ = [o_ for o_ in ok if o_ not in tainted]        # an average (or anything computed from one) is not averaged again: keeps the samples on the 1/64 lattice
            if not clean_: continue
            n_ = rng.choice([2, 4, 3, 5, 6]); srcs = [rng.choice(clean_) for _ in range(n_)]; c = rng.randrange(6)
            if n_ in (3, 5): srcs = [srcs[0]] * n_
            elif n_ == 6: srcs = [srcs[0], srcs[1]] * 3; rng.shuffle(srcs)
            acc = objs[srcs[0]]
            for s_ in srcs[1:]: acc = acc.op(objs[s_], lambda p, q: p + q)
            lines.append('gavg %d %s' % (c, ' '.join(map(str, srcs)))); objs[c] = acc.map(lambda p: p / n_); sizes[c] = max(sizes[s_] for s_ in srcs); tainted.add(c)
            lines.append('geval %d %d' % (c, sizes[c] + 1))
        elif x < 0.6: lines.append('gint %d' % rng.choice(ok))
        elif x < 0.85:
            a, b = rng.choice(ok), rng.choice(ok); p = rng.choice([0, 1, 2])
            if p and sign_change_inside_cell(objs[a], objs[b], g0, g1, n): p = 0
            if p == 2 and plateau_in_difference(objs[a], objs[b], g0, g1, n): p = 1
            lines.append('gdist %d %d %d' % (a, b, p))
        else: lines.append('gip %d %d' % (rng.choice(ok), rng.choice(ok)))
    # sup distance against a negatively scaled landscape, in both argument orders (extra levels of either argument count with their absolute value)
    ok = [o_ for o_ in objs if o_ not in tainted]
    if len(ok) >= 2 and rng.random() < 0.6:
        a, b = rng.sample(ok, 2); c = [q for q in range(6) if q not in (a, b)][0]
        lines.append('gscale %d %d -1 0' % (c, b)); objs[c] = objs[b].map(lambda p: -p); sizes[c] = sizes[b]; tainted.discard(c)
        lines += ['gdist %d %d 0' % (a, c), 'gdist %d %d 0' % (c, a)]
    return lines


def exhaustive_small():
    """every diagram of at most 2 intervals with end points in {0,1,2,3}: exact form and grid form on [0,3]/3 and [0,4]/2-aligned variants"""
    import itertools
    iv = [(b, e) for b in range(4) for e in range(b + 1, 4)]
    cases = []
    for n in (1, 2):
        for d in itertools.combinations_with_replacement(iv, n):
            c = ['window -4 20', 'diag 0 %s' % dline(list(d)), 'eval 0 %d' % (n + 1), 'int 0']
            if all((b + e) % 2 == 0 for b, e in d): c += ['gdiag 0 0 3 3 %s' % dline(list(d)), 'geval 0 %d' % (n + 1), 'gint 0']
            cases.append(c)
    return cases


def run(ctx):
    q_index_check()
    ctx.rule = ('exact form: 2-4 diagrams of 1-5 intervals with integer end points in [0,10] (repeated, touching and nested intervals forced with probability 0.5), every level evaluated at every quarter point of [-1,12]; '
                '3-9 operations among sum, difference, scalar multiple (both operand orders), abs, average of 2 or 4, integral, L1 / L2 / sup distance, inner product, each result evaluated; '
                'grid form: grid-aligned diagrams on grids of step 1 or 2, evaluation at and between grid points, sums, differences, multiples, integral, distances, inner product; '
                'exhaustive: all diagrams of <= 2 intervals over {0..3}; non-trivial = at least two intervals overlapping in some diagram; distinct by text')
    vlib.lean_stage(ctx, MODULE, THEOREMS)
    exe, err = vlib.build_harness(ctx, 'hC18', os.path.join(vlib.VERIF, 'harness', 'hC18.cpp'))
    if exe is None:
        ctx.violation('harness-build', 'harness does not compile against /repo: ' + err[-1500:], found_input=False); return
    drv = [vlib.driver_path(), 'C18']
    thorough = ctx.tier == 'thorough'
    n = 1500 if thorough else 150
    def nontriv(c):
        for l in c:
            t = l.split()
            if t[0] in ('diag', 'gdiag'):
                i = 2 if t[0] == 'diag' else 5
                k = int(t[i]); iv = [(int(t[i + 1 + 2 * j]), int(t[i + 2 + 2 * j])) for j in range(k)]
                if any(a[0] < b[1] and b[0] < a[1] for x, a in enumerate(iv) for b in iv[x + 1:]): return True
        return False
    vlib.correspondence(ctx, 'exact_form', [exe], drv, [gen_exact(ctx.rng) for _ in range(n)], nontrivial=nontriv, keep_prefix=1, canon=canon, oracle=oracle)
    vlib.correspondence(ctx, 'grid_form', [exe], drv, [gen_grid(ctx.rng) for _ in range(n)], nontrivial=nontriv, keep_prefix=1, canon=canon, oracle=oracle)
    vlib.correspondence(ctx, 'exhaustive_small', [exe], drv, exhaustive_small(), nontrivial=nontriv, keep_prefix=1, canon=canon, oracle=oracle)
    vlib.run_known_witnesses(ctx, {'grid_form': [exe]}, drv, oracle, canon=canon)
    if thorough:
        sexe, err = vlib.build_harness(ctx, 'hC18_san', os.path.join(vlib.VERIF, 'harness', 'hC18.cpp'), sanitize=True)
        if sexe:
            vlib.correspondence(ctx, 'asan_ubsan', [sexe], drv, [gen_exact(ctx.rng) for _ in range(300)] + [gen_grid(ctx.rng) for _ in range(300)], nontrivial=nontriv, keep_prefix=1, canon=canon, oracle=oracle)
    ctx.extra['partial'] = PARTIAL


def replay_cmds(ctx, rp):
    exe, err = vlib.build_harness(ctx, 'hC18', os.path.join(vlib.VERIF, 'harness', 'hC18.cpp'))
    return ([exe], [vlib.driver_path(), 'C18']) if exe else None
