"""C15 — copies, moves and serialisation round-trip to equal, independent objects."""
import os
import vlib
from props import stref, C01, C09, pmgen

MODULE = 'GudhiVerif.Properties.C15'
THEOREMS = ['SerProto.ser_counts', 'SerProto.deser_ser', 'BytesProto.fromBytes_toBytes', 'BytesProto.readAll_writeAll', 'BytesProto.readAll_truncated',
            'C15.serB_length', 'C15.readV_toBytes', 'C15.deserFuel_serB', 'C15.deserialize_serB', 'C15.desKidsB_append_mono', 'C15.deserFuel_append', 'C15.deserFuel_fuel_mono',
            'C15.deserialize_truncated', 'C15.deserialize_extended', 'C15.demoOk', 'C15.demo_fits']
PARTIAL = ['C15_independence_partial: independence of copy and source is vacuous in the model (values are immutable); it is checked by correspondence only: after every copy / move / assignment / swap '
           'the objects are driven through different suffixes and destroyed, each compared with its own model, under ASan+UBSan (thorough: TSan with independent objects on several threads)',
           'C15_text_partial: the text round trip is specified as the identity and compared, not proved',
           'C15_matrix_partial: matrix copies / moves / swaps are identity steps of the reference model compared through the C05 / C09 harnesses']
ASSUMPTIONS = ['integer filtration values (exactly representable in float and double), non-negative vertex labels', 'little-endian machine (the byte layout of serialize is documented as not portable)']

WIDTHS = {0: (4, 8), 1: (4, 8), 2: (4, 4), 3: (4, 0), 4: (4, 8), 5: (4, 8), 6: (2, 4), 7: (4, 8)}
PAIR = ['copy', 'cassign', 'mctor', 'massign', 'swap']


def gen_case(rng, k, maxlen=16):
    contig = k in C01.CONTIG; zero = k in C01.ZERO
    U = rng.choice([3, 4, 4, 5])
    m = stref.Multi(); m.wv, m.wf = WIDTHS[k]
    lines = ['univ %d' % U, 'widths %d %d' % WIDTHS[k]]
    def sel(j):
        if m.cur != j: lines.append('sel %d' % j); m.cur = j
    def mutate(j, n):
        sel(j)
        for _ in range(n):
            r = m.r
            if contig and not any(len(s) == 1 for s in r.c):
                line = 'batch 0 ' + ' '.join(map(str, range(U))); r.batch(0, list(range(U)))
            else:
                line = C01.gen_mut(rng, r, U, contig, zero)
                if line is None: continue
                if contig and not stref.contiguous(r): return None
            lines.append(line)
    mutate(0, rng.randrange(2, 6))
    for _ in range(rng.randrange(2, maxlen // 2)):
        x = rng.random()
        if x < 0.45:
            o = rng.choice(PAIR); a = rng.randrange(3); b = rng.randrange(3)
            if o in ('mctor', 'massign', 'copy') and a == b: b = (a + 1) % 3
            if rng.random() < 0.5: sel(a); lines.append('order')      # the source has its filtration-order cache populated when it is copied / moved
            lines.append('%s %d %d' % (o, a, b)); m.slot_op(o, [a, b])
            # both objects live on independently
            for j in rng.sample([a, b], 2):
                if rng.random() < 0.7: mutate(j, rng.randrange(1, 3))
            if rng.random() < 0.3:
                d = rng.choice([a, b]); lines.append('destroy %d' % d); m.slot_op('destroy', [d])
            for j in sorted({a, b}):
                sel(j); lines.append('obs' if rng.random() < 0.5 else 'cplx')
                if rng.random() < 0.6: lines.append('order')             # each object walks its own filtration order
        elif x < 0.6:
            sel(rng.randrange(3)); lines.append('ser')
        elif x < 0.8:
            sel(rng.randrange(3)); c = rng.choice([j for j in range(3) if j != m.cur])
            n = m.wv * (2 * len(m.r.c) + 1) + m.wf * len(m.r.c)
            y = rng.random()
            if y < 0.35: pos, kk = 0, 0
            elif y < 0.8: pos, kk = 0, rng.choice([1, 1, 2, 3, 4, 7, 8, n, max(n - 1, 1), rng.randrange(1, n + 1)])
            else: pos, kk = 1, rng.randrange(1, 9)
            lines.append('deser %d %d %d' % (c, pos, kk)); m.slot_op('deser', [c, pos, kk])
            if rng.random() < 0.5: mutate(c, 1)
            sel(c); lines.append('obs')
        elif x < 0.9:
            sel(rng.randrange(3)); c = rng.choice([j for j in range(3) if j != m.cur])
            if m.r.c and m.wf and rng.random() < 0.4:
                # a value that needs more than the 6 significant digits of the default stream precision (on a maximal simplex: stays monotone)
                tops = [t_ for t_ in sorted(m.r.c) if not any(set(t_) < set(u_) for u_ in m.r.c)]
                t_ = rng.choice(tops); big_ = rng.choice([1234567, 7654321, 1000001])
                lines.append('assign %d %s' % (big_, ' '.join(map(str, t_)))); m.r.assign(big_, list(t_))
            lines.append('text %d' % c); m.slot_op('text', [c]); lines.append('eq %d %d' % (m.cur, c))
            sel(c); lines.append('obs')
        else:
            mutate(rng.randrange(3), rng.randrange(1, 4)); lines.append('cplx')
    for j in range(3): sel(j); lines.append('cplx')
    lines.append('eq %d %d' % (rng.randrange(3), rng.randrange(3)))
    return lines


def all_perturbations(rng, k):
    """one tree, every length perturbation of its buffer: -len .. +8"""
    U = 4; m = stref.Multi(); m.wv, m.wf = WIDTHS[k]
    lines = ['univ %d' % U, 'widths %d %d' % WIDTHS[k]]
    if k in C01.CONTIG: lines.append('batch 0 0 1 2 3'); m.r.batch(0, [0, 1, 2, 3])
    for _ in range(rng.randrange(1, 4)):
        s = sorted(rng.sample(range(U), rng.randrange(1, 4))); f = 0 if k in C01.ZERO else rng.randrange(0, 4)
        lines.append('insf %d %s' % (f, ' '.join(map(str, s)))); m.r.insf(f, s)
    n = m.wv * (2 * len(m.r.c) + 1) + m.wf * len(m.r.c)
    lines.append('ser')
    for kk in range(n, 0, -1): lines += ['deser 1 0 %d' % kk]
    lines += ['deser 1 0 0', 'sel 1', 'obs', 'sel 0']
    for kk in range(1, 9): lines += ['deser 2 1 %d' % kk]
    return lines


def nontriv(c):
    return sum(1 for l in c if l.split()[0] in PAIR + ['deser', 'text']) >= 2 and any(l.startswith('cplx ') and len(l) > 6 for l in stref.simulate(c) if l)


def run(ctx):
    ctx.rule = ('three objects per history: a random prefix on object 0, then 2-8 blocks chosen among {copy-construct, copy-assign (incl. self), move-construct, move-assign, swap (incl. self)} between random objects followed by '
                'different random mutations of both objects, optional destruction of one of them and observation of both; serialize (bytes compared); deserialize of a buffer cut by k or extended by k bytes into another object '
                '(heap buffer of exactly that size); text round trip; all 8 option sets; plus for each option set one tree with every length perturbation -len..+8; '
                'non-trivial = at least two copy/move/serialisation operations and a non-empty object; distinct by history text')
    vlib.lean_stage(ctx, MODULE, THEOREMS)
    thorough = ctx.tier == 'thorough'
    specs = C01.specs() + [dict(name='hST%d_san' % k, src=os.path.join(vlib.VERIF, 'harness', 'hST.cpp'), defines=['OPTN=%d' % k], sanitize=True) for k in ((0, 1, 2, 3, 4, 5, 6, 7) if thorough else (1, 5))]
    exes, errs = vlib.build_many(ctx, specs)
    if errs:
        ctx.violation('harness-build', 'harness does not compile against /repo: ' + str(errs)[-1500:], found_input=False); return
    drv = [vlib.driver_path(), 'ST']
    n = 600 if thorough else 60
    for k, name in C01.OPTS.items():
        contig = k in C01.CONTIG
        cases = [c for c in (gen_case(ctx.rng, k, 30 if thorough else 16) for _ in range(n)) if c]
        cases += [all_perturbations(ctx.rng, k) for _ in range(6 if thorough else 1)]
        vlib.correspondence(ctx, name, [exes['hST%d' % k]], drv, cases, nontrivial=nontriv, keep_prefix=2, oracle=stref.oracle, valid=stref.valid_contig if contig else stref.valid)
    for k in ((0, 1, 2, 3, 4, 5, 6, 7) if thorough else (1, 5)):
        name = C01.OPTS[k]; contig = k in C01.CONTIG
        cases = [c for c in (gen_case(ctx.rng, k, 30 if thorough else 16) for _ in range(n // 2)) if c] + [all_perturbations(ctx.rng, k)]
        vlib.correspondence(ctx, name + '_asan_ubsan', [exes['hST%d_san' % k]], drv, cases, nontrivial=nontriv, keep_prefix=2, oracle=stref.oracle, valid=stref.valid_contig if contig else stref.valid)
    matrices(ctx, thorough)
    threads(ctx, thorough)
    ctx.extra['partial'] = PARTIAL


def threads(ctx, thorough):
    """independent objects on several threads (TSan build): every thread must reproduce its sequential twin, and no data race may be reported"""
    exe, err = vlib.build_harness(ctx, 'hC15thr_tsan', os.path.join(vlib.VERIF, 'harness', 'hC15thr.cpp'), cxx='clang++-14', extra=['-g', '-fsanitize=thread', '-pthread'])
    if exe is None:
        ctx.violation('harness-build', 'thread harness does not compile against /repo: ' + err[-1200:], found_input=False); return
    cases = [['thr %d %d' % (ctx.rng.choice([2, 4, 8]), ctx.rng.randrange(1000))] for _ in range(12 if thorough else 3)]
    vlib.correspondence(ctx, 'threads_tsan', [exe], [vlib.driver_path(), 'ST'], cases, nontrivial=lambda c: True, keep_prefix=1)


def insert_dups(rng, case, keep, p=0.25):
    out = []
    for i, l in enumerate(case):
        if i >= keep and rng.random() < p: out.append('dup %d' % rng.randrange(5))
        out.append(l)
    return out


def matrices(ctx, thorough):
    """copy-construct / copy-assign / move-construct / move-assign / swap of whole matrices inside the C05 and C09 histories: the model ignores them,
    the harness continues with the new object after mutating (copies) and destroying the source"""
    pm = pmgen.thorough_cfgs() if thorough else pmgen.QUICK[::3] + [c for c in pmgen.QUICK if '_ide_' in c[0] and c[2]['flav'] == 2]    # + identifier-indexed chain matrices (overlay holding a pointer into the matrix)
    bm = C09.thorough_cfgs() if thorough else C09.quick_cfgs()[::3]
    nsan = 6 if thorough else 2
    exes, errs = pmgen.build(ctx, pm)
    sexes, serrs = pmgen.build(ctx, pm[:nsan], sanitize=True)
    src = os.path.join(vlib.VERIF, 'harness', 'hC09.cpp')
    bexes, berrs = vlib.build_many(ctx, [dict(name='hC09_' + n, src=src, defines=d) for n, d, c in bm] + [dict(name='hC09_' + n + '_san', src=src, defines=d, sanitize=True) for n, d, c in bm[:nsan]])
    n = 300 if thorough else 60
    for name, d, caps in pm:
        for san in (False, True):
            exe = (sexes.get('hPM_' + name + '_san') if san else exes.get('hPM_' + name))
            if exe is None: continue
            cases = [pmgen.gen_case(ctx.rng, caps, p=2 if not caps['zp'] else ctx.rng.choice([2, 3, 5]), want_vine=bool(k % 2), want_rep=False, dup_p=0.25) for k in range(n // 2 if san else n)]
            vlib.correspondence(ctx, 'pm_' + name + ('_asan_ubsan' if san else ''), [exe], [vlib.driver_path(), 'PM'], cases, nontrivial=lambda c: sum(1 for l in c if l.startswith('dup')) >= 2, keep_prefix=2, oracle=pmgen.oracle, valid=pmgen.valid)
    for name, d, caps in bm:
        for san in (False, True):
            exe = bexes.get('hC09_' + name + ('_san' if san else ''))
            if exe is None: continue
            cases = [insert_dups(ctx.rng, C09.gen_case(ctx.rng, caps), 2) for _ in range(n // 2 if san else n)]
            vlib.correspondence(ctx, 'bm_' + name + ('_asan_ubsan' if san else ''), [exe], [vlib.driver_path(), 'C09'], cases, nontrivial=lambda c: sum(1 for l in c if l.startswith('dup')) >= 2, keep_prefix=1, oracle=C09.oracle)


def replay_cmds(ctx, rp):
    st = rp.get('stream', 'default')
    if st == 'threads_tsan':
        exe, err = vlib.build_harness(ctx, 'hC15thr_tsan', os.path.join(vlib.VERIF, 'harness', 'hC15thr.cpp'), cxx='clang++-14', extra=['-g', '-fsanitize=thread', '-pthread'])
        return ([exe], [vlib.driver_path(), 'ST']) if exe else None
    if st.startswith('pm_') or st.startswith('bm_'):
        san = st.endswith('_asan_ubsan'); name = st[3:].replace('_asan_ubsan', '')
        if st.startswith('pm_'):
            for n, d, caps in pmgen.thorough_cfgs():
                if n == name:
                    exes, errs = pmgen.build(ctx, [(n, d, caps)], sanitize=san)
                    e = exes.get('hPM_' + n + ('_san' if san else ''))
                    return ([e], [vlib.driver_path(), 'PM']) if e else None
        for n, d, caps in C09.thorough_cfgs():
            if n == name:
                exe, err = vlib.build_harness(ctx, 'hC09_' + n + ('_san' if san else ''), os.path.join(vlib.VERIF, 'harness', 'hC09.cpp'), defines=d, sanitize=san)
                return ([exe], [vlib.driver_path(), 'C09']) if exe else None
        return None
    san = st.endswith('_asan_ubsan'); name = st.replace('_asan_ubsan', '')
    k = [a for a, b in C01.OPTS.items() if b == name][0]
    exe, err = vlib.build_harness(ctx, 'hST%d%s' % (k, '_san' if san else ''), os.path.join(vlib.VERIF, 'harness', 'hST.cpp'), defines=['OPTN=%d' % k], sanitize=san)
    if exe is None: return None
    return [exe], [vlib.driver_path(), 'ST']
