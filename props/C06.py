"""C06 — vineyard swaps and cell removals leave the matrix as if rebuilt from scratch."""
import vlib
from props import pmgen, C05

C05.THEOREMS_BY['C06'] = ['cert_unique', 'Fact3.conj', 'Fact3.addTo', 'Fact3.zeroEntry', 'isLow_swap', 'isLow_conjSwap', 'reduced_conjSwap', 'reduced_conjSwap_gen', 'reduced_fix',
                          'vine_swap_only', 'vine_transpose', 'vine_NN_lt', 'vine_NN_gt', 'vine_NP', 'vine_PP_collision', 'addSwapAdd', 'low_is_positive',
                          'InPlace.reduceAll_cert', 'BridgeP.reduceAllP_cert']
C05.PARTIAL_BY['C06'] = ['C06_tie_partial: every leaf of RU_vine_swap is proved at matrix level (the result is a reduced factorisation of the exchanged filtration, hence by cert_unique the barcode of a fresh build), '
                         'but the C++ handlers are not modelled individually and the chain flavour has no leaf theorems; each instantiation is compared after every swap / removal / later insertion with the '
                         'reference barcode of the current filtration (= a fresh build), its identities are evaluated on the real columns, and the returned flag is checked for truthfulness']
ASSUMPTIONS = C05.ASSUMPTIONS + ['swaps are only requested for consecutive cells that are not face and coface; removed cells are maximal']
MODULE = 'GudhiVerif.Properties.C06'


def run(ctx): C05.run(ctx, vine=True, pid='C06')


replay_cmds = C05.replay_cmds
