"""Independent reference persistence (plain column reduction over Z_p on dict columns) used by the Python oracles."""
import itertools


def reduce_pairs(cols, p=2):
    """cols[j] = dict row -> coefficient (mod p, non-zero); returns (pairs [(birth, death)], essential [birth])"""
    R = [dict((r, c % p) for r, c in col.items() if c % p) for col in cols]
    owner = {}
    for j in range(len(R)):
        col = R[j]
        while col:
            i = max(col)
            k = owner.get(i)
            if k is None: break
            piv = R[k][i]
            coef = (-col[i] * pow(piv, p - 2, p)) % p if p > 2 else 1
            for r, c in R[k].items():
                v = (col.get(r, 0) + coef * c) % p
                if v: col[r] = v
                else: col.pop(r, None)
        if col: owner[max(col)] = j
    pairs = sorted((i, j) for i, j in owner.items())
    paired = set(owner) | set(owner.values())
    ess = [j for j in range(len(R)) if not R[j] and j not in paired]
    return pairs, ess


def simplicial_boundary(order, p=2):
    """order: list of sorted vertex tuples in filtration order -> signed boundary columns"""
    idx = {s: i for i, s in enumerate(order)}
    cols = []
    for s in order:
        col = {}
        if len(s) > 1:
            for i in range(len(s)):
                f = s[:i] + s[i + 1:]
                col[idx[f]] = (1 if i % 2 == 0 else -1) % p
        cols.append(col)
    return cols


def filtration_order(cplx):
    """cplx: dict sorted tuple -> value; the simplex-tree order (value, reverse-lex on decreasing vertices)"""
    return sorted(cplx, key=lambda s: (cplx[s], tuple(reversed(s))))


def bars_simplicial(cplx, p=2, drop_zero=True):
    """sorted list of (dim, birth value, death value or None)"""
    order = filtration_order(cplx)
    pairs, ess = reduce_pairs(simplicial_boundary(order, p), p)
    out = []
    for b, d in pairs:
        if drop_zero and cplx[order[b]] == cplx[order[d]]: continue
        out.append((len(order[b]) - 1, cplx[order[b]], cplx[order[d]]))
    for b in ess: out.append((len(order[b]) - 1, cplx[order[b]], None))
    return sorted(out, key=lambda t: (t[0], t[1], float('inf') if t[2] is None else t[2]))


def flag_complex(n, edges, vertex_vals=None, maxdim=None):
    """clique complex of a weighted graph: edges dict (u,v)->w with u<v; returns dict simplex -> value"""
    adj = {v: set() for v in range(n)}
    for (u, v) in edges: adj[u].add(v); adj[v].add(u)
    vv = vertex_vals or {v: 0 for v in range(n)}
    cplx = {(v,): vv[v] for v in range(n)}
    cur = [(v,) for v in range(n)]
    k = 1
    while cur and (maxdim is None or k <= maxdim):
        nxt = []
        for s in cur:
            for w in range(s[-1] + 1, n):
                if all(w in adj[u] for u in s):
                    t = s + (w,)
                    val = max([cplx[s]] + [edges[(u, w)] for u in s] + [vv[w]])
                    cplx[t] = val; nxt.append(t)
        cur = nxt; k += 1
    return cplx


def show_bars(bars):
    return ' '.join('%d:%d:%s' % (d, b, 'inf' if e is None else str(e)) for d, b, e in bars)
