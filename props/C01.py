"""C01 — simplex tree equals the abstract complex defined by its operation history."""
import os, itertools
import vlib
from props import stref

MODULE = 'GudhiVerif.Properties.C01'
THEOREMS = ['TrieProto.find_insert', 'TrieProto.sorted_insert', 'TrieProto.insF_spec', 'TrieProto.valid_sublist',
            'TrieProto.find_removeLeaf', 'TrieProto.find_prune', 'TrieProto.survives_sublevel', 'TrieProto.find_pruneDim',
            'TrieProto.sorted_insF', 'TrieProto.sorted_removeLeaf', 'TrieProto.sorted_prune', 'TrieProto.sorted_pruneDim',
            'TrieProto.valid_insF', 'TrieProto.valid_prune', 'TrieProto.valid_pruneDim', 'TrieProto.valid_removeLeaf',
            'TrieProto.run_insF', 'TrieProto.step_refines', 'TrieProto.reachable_refines',
            'CofProto.mem_star', 'CofProto.self_mem_star', 'CofProto.mem_cofK', 'Mfnd3Proto.mem_walk_iff',
            'TrieProto.maxLen_removeLeaf', 'TrieProto.dinv_removeMaxFixed', 'TrieProto.dimensionQ_exact', 'TrieProto.d2_witness',
            'C01.batch_step_existing', 'C01.dimOf_nil', 'C01.dimOf_nonneg']
PARTIAL = ['C01_partial: batch/graph insertion, clear, boundary, counts and equality are word-level functions of the model tied to the code by '
           'correspondence + Python oracle, not separate theorems; intrusive label lists / memory layout of the option sets not modelled']
ASSUMPTIONS = ['vertex labels 0..5, values 0..4 (small universe so that collisions, ties and re-insertions happen)',
               'histories respect the documented preconditions (face-closed, monotone values, removal of maximal simplices only, contiguous labels for contiguous_vertices option sets)']

OPTS = {0: 'default', 1: 'full_featured', 2: 'fast_persistence', 3: 'minimal', 4: 'fast_cofaces', 5: 'stable_handles', 6: 'low_int16_float', 7: 'contiguous_stable_linked'}
CONTIG = {2, 7}
ZERO = {3}


def gen_mut(rng, r, U, contig=False, zero=False):
    """one applicable mutating operation on the abstract complex r (applied to r); None if the draw is not applicable"""
    val = (lambda: 0) if zero else (lambda: rng.randrange(0, 5))
    x = rng.random()
    line = None
    if x < 0.40:
        k = rng.choice([1, 2, 2, 3, 3, 4]) if U >= 4 else rng.choice([1, 2, 3])
        s = sorted(rng.sample(range(U), min(k, U)))
        f = val()
        line = 'insf %d %s' % (f, ' '.join(map(str, s))); r.insf(f, s)
    elif x < 0.55:
        # single simplex whose facets are all present, value not below them
        cands = []
        for k in (1, 2, 3):
            for s in itertools.combinations(range(U), k):
                if all(s[:i] + s[i + 1:] in r.c for i in range(len(s))) or k == 1:
                    cands.append(s)
        if not cands: return None
        s = rng.choice(cands)
        lo = max([r.c[s[:i] + s[i + 1:]] for i in range(len(s))], default=0) if len(s) > 1 else 0
        hi = min([v for t, v in r.c.items() if set(s) < set(t)], default=4)
        if lo > hi: return None
        f = 0 if zero else rng.randrange(lo, hi + 1)
        line = 'ins %d %s' % (f, ' '.join(map(str, s))); r.ins(f, s)
    elif x < 0.60:
        vs = sorted(rng.sample(range(U), rng.randrange(1, U + 1)))
        if contig: vs = list(range(U))
        f = 0 if (zero or contig) else val()
        # keep monotone: a new vertex must not get a value above its (absent) cofaces - new vertices have none
        line = 'batch %d %s' % (f, ' '.join(map(str, vs))); r.batch(f, vs)
    elif x < 0.78:
        mx = [s for s in r.maximal() if not (contig and len(s) == 1)]
        if not mx: return None
        s = rng.choice(mx)
        line = 'rmmax ' + ' '.join(map(str, s)); r.rmmax(s)
    elif x < 0.87:
        f = rng.randrange(0, 5)
        line = 'prunef %d' % f; r.prunef(f)
    elif x < 0.95:
        d = rng.choice([0, 1, 1, 2, 3])
        line = 'pruned %d' % d; r.pruned(d)
    else:
        if contig: return None
        line = 'clear'; r.clear()
    return line


def gen_case(rng, contig=False, zero=False, maxlen=14, obs_p=0.6):
    U = rng.choice([3, 4, 4, 5, 5, 6])
    r = stref.Ref()
    lines = ['univ %d' % U]
    if contig:
        l = 'batch 0 ' + ' '.join(map(str, range(U))); lines.append(l); r.batch(0, list(range(U)))
    n = rng.randrange(3, maxlen)
    for _ in range(n):
        line = gen_mut(rng, r, U, contig, zero)
        if line is None: continue
        lines.append(line)
        if rng.random() < obs_p: lines.append('obs')
    if lines[-1] != 'obs': lines.append('obs')
    return lines


def exhaustive_cases(maxlen):
    """every history of length <= maxlen over vertices {0,1,2}, values {0,1}, from a small op alphabet (observed after each step)"""
    alphabet = []
    for k in (1, 2, 3):
        for s in itertools.combinations(range(3), k):
            for f in (0, 1): alphabet.append(('insf', f, s))
    alphabet += [('prunef', 0, ()), ('pruned', 0, ()), ('pruned', 1, ()), ('rmtop', 0, ())]
    cases = []
    def rec(prefix, ref, lines):
        if lines: cases.append(['univ 3'] + lines)
        if len(prefix) == maxlen: return
        for a in alphabet:
            r2 = ref.copy(); l2 = list(lines)
            if a[0] == 'insf': l2.append('insf %d %s' % (a[1], ' '.join(map(str, a[2])))); r2.insf(a[1], a[2])
            elif a[0] == 'prunef': l2.append('prunef 0'); r2.prunef(0)
            elif a[0] == 'pruned': l2.append('pruned %d' % a[1]); r2.pruned(a[1])
            else:
                mx = sorted(r2.maximal())
                if not mx: continue
                s = mx[-1]; l2.append('rmmax ' + ' '.join(map(str, s))); r2.rmmax(s)
            l2.append('obs')
            rec(prefix + [a], r2, l2)
    rec([], stref.Ref(), [])
    # keep only complete histories (prefixes are covered by the intermediate observations)
    return [c for c in cases if sum(1 for l in c if l != 'obs' and not l.startswith('univ')) == maxlen]


def specs(sanitize=False):
    src = os.path.join(vlib.VERIF, 'harness', 'hST.cpp')
    return [dict(name='hST%d%s' % (k, '_san' if sanitize else ''), src=src, defines=['OPTN=%d' % k], sanitize=sanitize) for k in OPTS]


def run(ctx):
    ctx.rule = ('state-dependent generator over a Python abstract complex: insert with subfaces (40%), single simplex with all facets present (15%), batch vertices, '
                'removal of a currently maximal simplex (18%), prune by value / dimension, clear; 3-14 operations on <= 6 vertices, values 0-4 with ties; the whole observable state '
                '(complex with values, counts, dimension, vertices, 1-skeleton, per simplex boundary+opposite vertices, star, cofaces 1 and 2, find of every non-member, == with a rebuilt tree) '
                'is printed after 60% of the operations; non-trivial = at least 3 mutating operations and a non-empty final complex; distinct by history text')
    vlib.lean_stage(ctx, MODULE, THEOREMS)
    exes, errs = vlib.build_many(ctx, specs())
    if errs:
        ctx.violation('harness-build', 'harness does not compile against /repo: ' + str(errs)[-1500:], found_input=False)
        return
    drv = [vlib.driver_path(), 'ST']
    thorough = ctx.tier == 'thorough'
    n = 1500 if thorough else 150
    nontriv = lambda c: sum(1 for l in c if l.split()[0] in ('insf', 'ins', 'rmmax', 'prunef', 'pruned', 'batch')) >= 3 and not ([l for l in stref.simulate(c) if l and l.startswith('n ')] or ['n 0 '])[-1].startswith('n 0 ')
    for k, name in OPTS.items():
        cases = [gen_case(ctx.rng, contig=k in CONTIG, zero=k in ZERO, maxlen=30 if thorough else 14) for _ in range(n)]
        vlib.correspondence(ctx, name, [exes['hST%d' % k]], drv, cases, nontrivial=nontriv, keep_prefix=2 if k in CONTIG else 1, oracle=stref.oracle, valid=stref.valid_contig if k in CONTIG else stref.valid)
    ex = exhaustive_cases(3 if thorough else 2)
    for k in (0, 1):
        vlib.correspondence(ctx, OPTS[k] + '_exhaustive_len%d' % (3 if thorough else 2), [exes['hST%d' % k]], drv, ex, keep_prefix=1, oracle=stref.oracle, valid=stref.valid)
    # release builds (-O2 -DNDEBUG: GUDHI_CHECK and assert compiled out) of three option sets
    src_ = os.path.join(vlib.VERIF, 'harness', 'hST.cpp')
    rk = [0, 1, 5] if not thorough else list(OPTS)
    rexes, rerrs = vlib.build_many(ctx, [dict(name='hST%d_rel' % k, src=src_, defines=['OPTN=%d' % k, 'NDEBUG'], opt='-O2') for k in rk])
    for k in rk:
        e = rexes.get('hST%d_rel' % k)
        if not e: ctx.notes.append('release build failed for ' + OPTS[k]); continue
        cases = [gen_case(ctx.rng, contig=k in CONTIG, zero=k in ZERO, maxlen=30 if thorough else 14) for _ in range(n)]
        vlib.correspondence(ctx, OPTS[k] + '_release', [e], drv, cases, nontrivial=nontriv, keep_prefix=2 if k in CONTIG else 1, oracle=stref.oracle, valid=stref.valid_contig if k in CONTIG else stref.valid)
    if thorough:
        sexes, errs = vlib.build_many(ctx, specs(True))
        for k, name in OPTS.items():
            e = sexes.get('hST%d_san' % k)
            if not e: ctx.notes.append('sanitizer build failed for ' + name); continue
            cases = [gen_case(ctx.rng, contig=k in CONTIG, zero=k in ZERO, maxlen=20) for _ in range(300)]
            vlib.correspondence(ctx, name + '_asan_ubsan', [e], drv, cases, nontrivial=nontriv, keep_prefix=2 if k in CONTIG else 1, oracle=stref.oracle, valid=stref.valid_contig if k in CONTIG else stref.valid)
    ctx.extra['partial'] = PARTIAL


def replay_cmds(ctx, rp):
    stream = rp.get('stream', 'default'); rel = stream.endswith('_release')
    name = stream.split('_exhaustive')[0].split('_asan')[0].replace('_release', '')
    k = [a for a, b in OPTS.items() if b == name][0]
    exe, err = vlib.build_harness(ctx, 'hST%d' % k + ('_rel' if rel else ''), os.path.join(vlib.VERIF, 'harness', 'hST.cpp'), defines=['OPTN=%d' % k] + (['NDEBUG'] if rel else []), opt='-O2' if rel else '-O1')
    if exe is None: return None
    return [exe], [vlib.driver_path(), 'ST']
