"""C07 — zigzag persistence outputs the interval decomposition of the zigzag module."""
import os, itertools
import vlib
from props import pyph

MODULE = 'GudhiVerif.Properties.C07'
THEOREMS = ['cert_unique', 'chain_cert', 'chain_creator', 'chain_destroyer', 'chain_final', 'C07.complexes_length', 'C07.intervalsDim_wellformed', 'C07.intervals_wellformed']
PARTIAL = ['C07_algorithm_partial: the reflection / transposition algorithm of Zigzag_persistence is not modelled; the compared object is the definition-level specification run by gvdriver C07: for every index pair the number of '
           'intervals containing it is the rank of lim -> colim of the homology zigzag over Z2 (Gaussian elimination), multiplicities by inclusion-exclusion; for insertion-only sequences chain_cert / cert_unique prove that the '
           'chain-matrix engine returns the ordinary barcode, and the oracle checks it against an ordinary reduction',
           'C07_spec_partial: that the rank formula is the interval decomposition is the classical theorem on zigzag (type A quiver) modules, not proved in Lean']
ASSUMPTIONS = ['simplicial cells on at most 6 vertices, every intermediate set of cells is a complex (a cell enters after its facets, leaves only when maximal)', 'coefficients Z2 (the only field of the zigzag engine)',
               'monotone (non-decreasing or non-increasing) integer filtration values with ties for the filtered front-ends; value pairs compared as (min, max)']

# ---- independent rank-based oracle (validated in the design round against 3 000 zigzags)
import sys
# independent oracle for zigzag persistence over Z2: interval multiplicities from ranks of lim -> colim
def rank_rows(rows):
    rows=[r for r in rows if r]; piv=[]
    for r in rows:
        for p in piv:
            if r & (p & -p) : pass
        x=r
        for p in piv:
            hb=1<<(p.bit_length()-1)
            if x & hb: x^=p
        if x: piv.append(x); piv.sort(reverse=True)
    return len(piv)
def echelon(rows):
    piv=[]
    for r in rows:
        x=r
        for p in piv:
            hb=1<<(p.bit_length()-1)
            if x & hb: x^=p
        if x: piv.append(x); piv.sort(reverse=True)
    return piv
def reduce_vec(x,piv):
    for p in piv:
        hb=1<<(p.bit_length()-1)
        if x & hb: x^=p
    return x
def nullspace(cols, nrows):
    # cols: list of column vectors (ints over nrows bits); returns basis of {c : sum c_i col_i = 0} as ints over len(cols) bits
    n=len(cols); aug=[(cols[i], 1<<i) for i in range(n)]; piv=[]; null=[]
    for v,t in aug:
        for pv,pt in piv:
            hb=1<<(pv.bit_length()-1)
            if v & hb: v^=pv; t^=pt
        if v: piv.append((v,t)); piv.sort(key=lambda a:-a[0])
        else: null.append(t)
    return null
def homology(K, p, index):
    # K: set of simplices (tuples); returns (Bbasis, Hbasis) as chains in C_p (bitsets over index of p-simplices)
    ps=[s for s in K if len(s)==p+1]; qs=[s for s in K if len(s)==p+2]
    def bd(s):
        v=0
        if len(s)>1:
            for i in range(len(s)): v^=1<<index[s[:i]+s[i+1:]]
        return v
    B=echelon([bd(q) for q in qs])
    # cycles: nullspace of boundary on p-simplices
    if p==0: Z=[1<<index[s] for s in ps]
    else:
        cols=[bd(s) for s in ps]; ns=nullspace(cols,0); Z=[]
        for t in ns:
            z=0
            for i,s in enumerate(ps):
                if t>>i &1: z^=1<<index[s]
            Z.append(z)
    H=[]; cur=list(B)
    for z in Z:
        x=reduce_vec(z,cur)
        if x: H.append(z); cur.append(x); cur.sort(reverse=True)
    return B,H
def coords(z,B,H):
    # express z = b + sum c_i H_i ; return c as int
    basis=[(b,0) for b in B]+[(h,1<<i) for i,h in enumerate(H)]
    piv=[]
    for v,t in basis:
        for pv,pt in piv:
            hb=1<<(pv.bit_length()-1)
            if v & hb: v^=pv; t^=pt
        assert v
        piv.append((v,t)); piv.sort(key=lambda a:-a[0])
    c=0; x=z
    for pv,pt in piv:
        hb=1<<(pv.bit_length()-1)
        if x & hb: x^=pv; c^=pt
    assert x==0
    return c
def solve(seq):
    n=len(seq); Ks=[]; cur=set()
    for op,s in seq:
        if op=='+': cur.add(s)
        elif op=='-': cur.remove(s)
        Ks.append(set(cur))
    allsimp=sorted(set(s for op,s in seq if s is not None)); res=[]
    if not allsimp: return []
    maxdim=max(len(s) for s in allsimp)-1
    for p in range(maxdim+1):
        index={s:i for i,s in enumerate(allsimp)}
        if not any(len(s)==p+1 for s in allsimp): continue
        for s in allsimp:
            if len(s)==p+2:
                pass
        idx_all=dict(index)
        HB=[homology(K,p,idx_all) for K in Ks]
        dims=[len(h[1]) for h in HB]
        # maps between consecutive: forward if seq[j+1] is '+', else backward. maps[j] = (src,tgt,matrix cols as coords)
        maps=[]
        for j in range(n-1):
            if seq[j+1][0]!='-': src,tgt=j,j+1
            else: src,tgt=j+1,j
            M=[coords(h,HB[tgt][0],HB[tgt][1]) for h in HB[src][1]]
            maps.append((src,tgt,M))
        def r(s,t):
            if s<0 or t>=n or s>t: return 0
            off={}; tot=0
            for j in range(s,t+1): off[j]=tot; tot+=dims[j]
            if tot==0: return 0
            # relations: for each arrow j->j' with matrix M: e_{src,i} + M(e_i) in tgt
            rel=[]
            for j in range(s,t):
                src,tgt,M=maps[j]
                for i in range(dims[src]):
                    rel.append((1<<(off[src]+i)) ^ (M[i]<<off[tgt]))
            # lim: vectors x in direct sum with M x_src = x_tgt for every arrow: nullspace of constraints.
            # constraints as columns per coordinate: coordinate (j,i) contributes to constraint rows
            ncons=0; consoff={}
            for j in range(s,t):
                src,tgt,M=maps[j]; consoff[j]=ncons; ncons+=dims[tgt]
            cols=[0]*tot
            for j in range(s,t):
                src,tgt,M=maps[j]
                for i in range(dims[src]): cols[off[src]+i]^= (M[i]<<consoff[j])
                for i in range(dims[tgt]): cols[off[tgt]+i]^= (1<<(consoff[j]+i))
            ns=nullspace(cols,ncons)
            # image of x in colim: component s only
            mask=((1<<dims[s])-1)<<off[s]
            R=echelon(rel)
            imgs=[reduce_vec(x & mask,R) for x in ns]
            return len(echelon(imgs))
        for s in range(n):
            for t in range(s,n):
                m=r(s,t)-r(s-1,t)-r(s,t+1)+r(s-1,t+1)
                assert m>=0,(s,t,m)
                for _ in range(m):
                    # complexes s..t (0-based index j = complex after op j) -> gudhi birth = arrow s, death = arrow t+1 (inf if t==n-1)
                    res.append((p,s,-1 if t==n-1 else t+1))
    res.sort()
    return res


def parse(case):
    seq = []; vals = []; dimmax = -1
    for l in case:
        t = l.split()
        if t[0] == 'opts': dimmax = int(t[1]); seq = []; vals = []
        elif t[0] == 'ins': seq.append(('+', tuple(sorted(int(x) for x in t[2:])))); vals.append(int(t[1]))
        elif t[0] == 'rm': seq.append(('-', tuple(sorted(int(x) for x in t[2:])))); vals.append(int(t[1]))
        elif t[0] == 'idle': seq.append(('=', None)); vals.append(None)
    return seq, vals, dimmax


def fmt(bars):
    key = lambda b: (b[0], b[1], 0 if b[2] is not None else 1, b[2] or 0)
    return ' '.join('%d:%d:%s' % (d, b, 'inf' if e is None else str(e)) for d, b, e in sorted(bars, key=key))


def expected(seq, vals, dimmax):
    res = [(p, b, None if d < 0 else d) for p, b, d in solve(seq)]
    def value_at(i):
        v = 0
        for k in range(i + 1):
            if vals[k] is not None: v = vals[k]
        return v
    fv = []
    for p, b, d in res:
        fb = value_at(b)
        if d is None: fv.append((p, fb, None))
        else:
            fd = value_at(d)
            if fb != fd: fv.append((p, min(fb, fd), max(fb, fd)))
    kept = [x for x in fv if dimmax == -1 or x[0] < dimmax]
    return ['idx ' + fmt(res), 'fstore ' + fmt(kept), 'fstream ' + fmt(fv)]


def oracle(case, impl):
    k = 0; prefix = []
    for l in case:
        prefix.append(l)
        if l == 'bars':
            seq, vals, dimmax = parse(prefix)
            exp = expected(seq, vals, dimmax)
            for j in range(3):
                if k + j >= len(impl) or impl[k + j].rstrip() != exp[j].rstrip():
                    return 'after %d arrows: engine %r, rank-based decomposition %r' % (len(seq), impl[k + j][:200] if k + j < len(impl) else None, exp[j][:200])
            if seq and all(o == '+' for o, _ in seq):
                order = [s for _, s in seq]
                pairs, ess = pyph.reduce_pairs(pyph.simplicial_boundary(order, 2), 2)
                ordinary = sorted([(len(order[b]) - 1, b, d) for b, d in pairs] + [(len(order[b]) - 1, b, None) for b in ess], key=lambda b: (b[0], b[1]))
                got = sorted([(int(x.split(':')[0]), int(x.split(':')[1]), None if x.split(':')[2] == 'inf' else int(x.split(':')[2])) for x in impl[k].split()[1:]], key=lambda b: (b[0], b[1]))
                if got != ordinary: return 'insertion-only sequence: engine %s, ordinary persistence %s' % (got[:10], ordinary[:10])
            k += 3
        else: k += 1
    return None


def gen_case(rng, maxlen=22, maxv=5):
    nv = rng.randrange(2, maxv + 1); L = rng.randrange(1, maxlen + 1)
    cur = set(); lines = []
    if rng.random() < 0.25: lines.append('opts %d' % rng.choice([0, 1, 2]))
    dimmax = int(lines[0].split()[1]) if lines else -1
    mode = rng.choice(['up', 'up', 'down', 'const']); f = rng.randrange(0, 5) if mode != 'down' else rng.randrange(10, 20)
    insert_only = rng.random() < 0.15
    for step in range(L):
        if mode == 'up': f += rng.choice([0, 0, 1, 2])
        elif mode == 'down': f -= rng.choice([0, 0, 1, 2])
        if rng.random() < 0.08: lines.append('idle'); continue
        cands = []
        for k in range(1, min(nv, 4) + 1):
            for s in itertools.combinations(range(nv), k):
                if s not in cur and (k == 1 or all((s[:i] + s[i + 1:]) in cur for i in range(k))): cands.append(s)
        maximal = [s for s in cur if not any(set(s) < set(t) for t in cur)]
        if cands and (insert_only or not maximal or rng.random() < 0.62):
            s = rng.choice(cands)
            if dimmax != -1 and len(s) - 1 > dimmax: continue        # the storing front-end ignores such cells; keep the three engines on the same history
            verts = list(s); rng.shuffle(verts)
            lines.append('ins %d %s' % (f, ' '.join(map(str, verts)))); cur.add(s)
        elif maximal:
            s = rng.choice(sorted(maximal)); lines.append('rm %d %s' % (f, ' '.join(map(str, s)))); cur.remove(s)
        if rng.random() < 0.15: lines.append('bars')
    lines.append('bars')
    return lines


def gen_graph_zigzag(rng, maxlen=26, maxv=7):
    """all vertices first, then edges come and go: many classes are born by removals and merged again by single cells
    (the surjective diamond with three or more unpaired chains, several of them with stolen births)"""
    nv = rng.randrange(4, maxv + 1); lines = []; f = 0
    for v in rng.sample(range(nv), nv): lines.append('ins %d %d' % (f, v)); f += rng.choice([0, 1])
    edges = set()
    for _ in range(rng.randrange(8, maxlen)):
        f += rng.choice([0, 0, 1])
        if edges and rng.random() < 0.45:
            e = rng.choice(sorted(edges)); edges.remove(e); lines.append('rm %d %d %d' % (f, e[0], e[1]))
        else:
            cands = [e for e in itertools.combinations(range(nv), 2) if e not in edges]
            if not cands: continue
            e = rng.choice(cands); edges.add(e); lines.append('ins %d %d %d' % (f, e[0], e[1]))
        if rng.random() < 0.1: lines.append('idle')
        if rng.random() < 0.03: lines.append('bars')
    lines.append('bars')
    return lines


def valid(case):
    cur = set()
    for l in case:
        t = l.split()
        if t[0] == 'opts' and l != case[0]: return False
        if t[0] == 'ins':
            s = tuple(sorted(int(x) for x in t[2:]))
            if s in cur or len(set(s)) != len(s) or (len(s) > 1 and any((s[:i] + s[i + 1:]) not in cur for i in range(len(s)))): return False
            cur.add(s)
        elif t[0] == 'rm':
            s = tuple(sorted(int(x) for x in t[2:]))
            if s not in cur or any(set(s) < set(u) for u in cur): return False
            cur.remove(s)
    vals = [int(l.split()[1]) for l in case if l.split()[0] in ('ins', 'rm')]
    mono = all(a <= b for a, b in zip(vals, vals[1:])) or all(a >= b for a, b in zip(vals, vals[1:]))
    return mono and bool(case) and case[-1] == 'bars'


COLS = ['INTRUSIVE_LIST', 'INTRUSIVE_SET', 'LIST', 'SET', 'NAIVE_VECTOR', 'VECTOR', 'UNORDERED_SET', 'SMALL_VECTOR']


def run(ctx):
    thorough = ctx.tier == 'thorough'
    ctx.rule = ('random simplicial zigzags on 2-5 vertices (6 in the thorough tier), 1-22 arrows (40 thorough): insertion of a cell whose facets are present (62%), removal of a maximal cell, identity arrows (8%), 15% insertion-only sequences; '
                'filtration values non-decreasing / non-increasing / constant with ties; ignoreCyclesAboveDim in a quarter of the cases; intervals printed after random prefixes and at the end, for the plain engine by arrow number and for both filtered front-ends by value; '
                'plus graph zigzags (4-7 vertices first, then 8-26 edge insertions / removals: classes born by removals and merged by single cells); one stream per internal column type; non-trivial = at least one removal and at least 6 arrows; distinct by text')
    vlib.lean_stage(ctx, MODULE, THEOREMS)
    src = os.path.join(vlib.VERIF, 'harness', 'hC07.cpp')
    cols = COLS if thorough else COLS[:4]
    specs = [dict(name='hC07_' + c, src=src, defines=['COLT=' + c]) for c in cols]
    if thorough: specs.append(dict(name='hC07_san', src=src, sanitize=True))
    exes, errs = vlib.build_many(ctx, specs)
    if not exes.get('hC07_INTRUSIVE_LIST'):
        ctx.violation('harness-build', 'harness does not compile against /repo: ' + str(errs)[-1500:], found_input=False); return
    drv = [vlib.driver_path(), 'C07']
    n = 240 if thorough else 120
    nt = lambda c: any(l.startswith('rm') for l in c) and sum(1 for l in c if l.split()[0] in ('ins', 'rm')) >= 6
    for c in cols:
        exe = exes.get('hC07_' + c)
        if not exe: ctx.notes.append('column type %s does not compile: %s' % (c, errs.get('hC07_' + c, '')[-200:])); continue
        cases = [gen_case(ctx.rng, 40 if thorough else 22, 6 if thorough and i % 4 == 0 else 5) for i in range(n if c == cols[0] else n // 2)]
        cases += [gen_graph_zigzag(ctx.rng, 40 if thorough else 26) for _ in range(n // 2 if c == cols[0] else n // 8)]
        vlib.correspondence(ctx, c.lower(), [exe], drv, cases, nontrivial=nt, keep_prefix=0, oracle=oracle, valid=valid)
    if thorough and exes.get('hC07_san'):
        vlib.correspondence(ctx, 'asan_ubsan', [exes['hC07_san']], drv, [gen_case(ctx.rng, 30) for _ in range(300)], nontrivial=nt, keep_prefix=0, oracle=oracle, valid=valid)
    ctx.extra['instantiations_that_do_not_compile'] = {k: v[-200:] for k, v in errs.items()}
    ctx.extra['partial'] = PARTIAL


def replay_cmds(ctx, rp):
    c = rp.get('stream', 'intrusive_list').upper()
    if c not in COLS: c = 'INTRUSIVE_LIST'
    exe, err = vlib.build_harness(ctx, 'hC07_' + c, os.path.join(vlib.VERIF, 'harness', 'hC07.cpp'), defines=['COLT=' + c])
    return ([exe], [vlib.driver_path(), 'C07']) if exe else None
