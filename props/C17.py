"""C17 — skeleton-blocker complexes track the complex through edits and contractions."""
import os, itertools
import vlib
from props import pyph

MODULE = 'GudhiVerif.Properties.C17'
THEOREMS = ['SkBlProto.contains_iff', 'SkBlProto.contains_removeStarSimplex', 'SkBlProto.contains_removeStarVertex', 'SkBlProto.clique_removeStarVertex', 'SkBlProto.impl_violates',
            'AbsCx.mem_removeStar']
PARTIAL = ['C17_partial: the (vertices, edges, blockers) representation is proved to lose exactly the star under remove_star for simplices of dimension >= 2 and for the repaired vertex rule; '
           'add_simplex, add_edge and contract_edge are compared with the abstract-complex model (driver) and a Python abstract complex; "link condition implies same homotopy type" is a theorem of the literature, '
           'checked per contraction by the Python oracle (Betti numbers over Z2 and Z3 and Euler characteristic before/after)']
ASSUMPTIONS = ['add_simplex is only called on simplices that are not in the complex (asserted by the library)', 'harness compiled with -DNDEBUG (release behaviour; assertions of the module fire earlier on the known finding)', 'at most 6 vertices, every vertex subset queried after every operation']


class Abs:
    def __init__(self): self.nv = 0; self.c = set()
    def blockers(self):
        vs = sorted({v for s in self.c for v in s}); out = []
        for k in range(3, len(vs) + 1):
            for s in itertools.combinations(vs, k):
                fs = frozenset(s)
                if fs not in self.c and all(fs - {v} in self.c for v in s): out.append(tuple(s))
        return sorted(out)
    def link(self, a, b): return not any(a in s and b in s for s in self.blockers())
    def betti(self, p):
        cplx = {tuple(sorted(s)): 0 for s in self.c}
        bars = pyph.bars_simplicial(cplx, p)
        d = max([len(s) for s in cplx] + [1])
        return [sum(1 for b in bars if b[0] == k and b[2] is None) for k in range(6)]
    def chi(self): return sum((-1) ** (len(s) - 1) for s in self.c)


def apply(a, line):
    t = line.split(); o = t[0]; v = [int(x) for x in t[1:]]
    if o == 'addv': a.c.add(frozenset([a.nv])); a.nv += 1; return 'addv'
    if o == 'adde':
        x, y = v
        if x != y and frozenset([x]) in a.c and frozenset([y]) in a.c: a.c.add(frozenset(v))
        return 'adde'
    if o == 'adds':
        for w in range(a.nv, max(v) + 1): a.c.add(frozenset([w]))      # missing vertices are created, with every label in between
        a.nv = max(a.nv, max(v) + 1)
        for k in range(1, len(v) + 1):
            for f in itertools.combinations(sorted(set(v)), k): a.c.add(frozenset(f))
        return 'adds'
    if o == 'copy': return 'copy'
    if o == 'rmstar': s = frozenset(v); a.c = {t_ for t_ in a.c if not s <= t_}; return 'rmstar'
    if o == 'link': return 'link %d' % a.link(*v)
    if o == 'contract':
        x, y = v
        if frozenset(v) in a.c and x != y and a.link(x, y):
            before = (a.betti(2), a.betti(3), a.chi())
            a.c = {frozenset((x if w == y else w) for w in s) for s in a.c}
            after = (a.betti(2), a.betti(3), a.chi())
            return 'contract 1' if before == after else 'contract 1 HOMOTOPY-INVARIANTS-CHANGED %s -> %s' % (before, after)
        return 'contract 0'
    if o == 'obs':
        subs = [frozenset(k for k in range(a.nv) if m >> k & 1) for m in range(1, 1 << a.nv)]
        return ['contains ' + ' '.join('1' if s in a.c else '0' for s in subs), ('blockers ' + ' '.join(','.join(map(str, b)) for b in a.blockers())).rstrip(), 'nverts %d' % sum(1 for s in a.c if len(s) == 1)]
    return None


def oracle(case, impl):
    a = Abs(); k = 0
    for l in case:
        r = apply(a, l)
        for e in (r if isinstance(r, list) else [r]):
            if k >= len(impl): return 'missing output'
            if e is not None and e.rstrip() != impl[k].rstrip(): return 'after %r: complex answers %r, abstract complex says %r' % (l, impl[k][:140], e[:140])
            k += 1
    return None


def valid(case):
    a = Abs()
    try:
        for l in case:
            t = l.split(); v = [int(x) for x in t[1:]]
            if t[0] in ('adde', 'adds', 'rmstar', 'link', 'contract'):
                if any(frozenset([x]) not in a.c for x in v): return False
                if t[0] == 'rmstar' and (frozenset(v) not in a.c or d18(a, v)): return False
                if t[0] == 'adds' and (len(set(v)) < 3 or frozenset(v) in a.c): return False
            apply(a, l)
        return True
    except Exception:
        return False


def d18(a, s):
    """star removal of a vertex or an edge lying in a blocker with at least two more vertices (known finding)"""
    return len(s) <= 2 and any(set(s) <= set(b) and len(b) >= len(s) + 2 for b in a.blockers())


def minimal_nonfaces(a, vs):
    import itertools
    out = []
    for k in range(3, len(vs) + 1):
        for t in itertools.combinations(vs, k):
            f = frozenset(t)
            if f not in a.c and all(frozenset(t[:i] + t[i + 1:]) in a.c for i in range(k)): out.append(t)
    return out


def gen_case(rng, maxlen=24):
    a = Abs(); lines = []
    for _ in range(rng.randrange(3, 7)): lines.append('addv'); apply(a, 'addv')
    if rng.random() < 0.3:
        # a dense start: a complete graph on 5 or 6 vertices, a few tetrahedra removed (they become blockers sharing triangles),
        # then stars of triangles removed (every blocker through the triangle has to go)
        while a.nv < rng.choice([5, 6]): lines.append('addv'); apply(a, 'addv')
        vs = list(range(a.nv))
        # (add_edge blocks the new triangles: full simplices come from add_simplex)
        big_ = sorted(rng.sample(vs, rng.choice([5, 5, len(vs)])))
        l = 'adds ' + ' '.join(map(str, big_)); lines.append(l); apply(a, l); lines.append('obs')
        vs = big_
        tri_ = rng.sample(vs, 3); others_ = [v for v in vs if v not in tri_]
        # two or three tetrahedra through one triangle become blockers, then the star of that triangle goes
        for u_ in rng.sample(others_, min(len(others_), rng.choice([2, 2, 3]))):
            t_ = sorted(tri_ + [u_])
            if frozenset(t_) in a.c: l = 'rmstar ' + ' '.join(map(str, t_)); lines.append(l); apply(a, l); lines.append('obs')
        for dim_ in (4, 3):
            for t_ in rng.sample(list(itertools.combinations(vs, dim_)), 2):
                if frozenset(t_) in a.c and rng.random() < 0.5: l = 'rmstar ' + ' '.join(map(str, t_)); lines.append(l); apply(a, l); lines.append('obs')
        if frozenset(tri_) in a.c and rng.random() < 0.8: l = 'rmstar ' + ' '.join(map(str, sorted(tri_))); lines.append(l); apply(a, l); lines.append('obs')
    for _ in range(rng.randrange(3, maxlen)):
        r = rng.random(); vs = sorted({v for s in a.c if len(s) == 1 for v in s})
        if rng.random() < 0.1: lines += ['copy %d' % rng.randrange(2), 'obs']     # the complex goes on as a copy of itself (copy constructor / assignment)
        blockers = [b for b in minimal_nonfaces(a, vs) if len(b) >= 3] if r < 0.12 else []
        if blockers:
            # add_simplex of a simplex that properly contains a blocker (the blocker goes away, its other cofaces have to be blocked instead)
            b = rng.choice(blockers); rest = [v for v in vs if v not in b]
            sv = sorted(set(b) | set(rng.sample(rest, min(len(rest), rng.choice([1, 1, 2])))))
            if frozenset(sv) in a.c or len(sv) > 5: continue
            l = 'adds ' + ' '.join(map(str, sv))
        elif r < 0.3 and len(vs) >= 2: x, y = rng.sample(vs, 2); l = 'adde %d %d' % (x, y)
        elif r < 0.5 and len(vs) >= 3:
            sv = sorted(rng.sample(vs, rng.randrange(3, min(len(vs), 5) + 1)))
            if a.nv < 7 and rng.random() < 0.25: sv = sorted(sv[:rng.choice([2, 3])] + [a.nv + rng.choice([0, 0, 1])])     # with a vertex that does not exist yet (possibly skipping a label)
            if frozenset(sv) in a.c: continue      # add_simplex asserts that the simplex is new
            l = 'adds ' + ' '.join(map(str, sv))
        elif r < 0.7 and a.c:
            s = sorted(rng.choice(sorted(a.c, key=sorted)))
            if d18(a, s): continue
            l = 'rmstar ' + ' '.join(map(str, s))
        elif r < 0.9:
            edges = [sorted(s) for s in a.c if len(s) == 2]
            if not edges: continue
            x, y = rng.choice(sorted(edges))
            if rng.random() < 0.5: x, y = y, x
            lines.append('link %d %d' % (x, y)); apply(a, lines[-1])
            l = 'contract %d %d' % (x, y)
        elif a.nv < 6: l = 'addv'
        else: continue
        lines.append(l); apply(a, l); lines.append('obs')
    return lines


def run(ctx):
    ctx.rule = ('random edit histories on 3-6 vertices: add_edge (30%), add_simplex of 3-5 vertices (20%), add_simplex of a proper superset of a current blocker (up to 12%), remove_star of a simplex of any dimension (20%, except the configuration of the known finding), '
                'link_condition + contract_edge of an existing edge in either direction (20%), add_vertex; after every edit `contains` of every vertex subset and the blocker set; '
                'non-trivial = at least one star removal or performed contraction and at least one blocker at some point; distinct by text')
    vlib.lean_stage(ctx, MODULE, THEOREMS)
    exe, err = vlib.build_harness(ctx, 'hC17', os.path.join(vlib.VERIF, 'harness', 'hC17.cpp'), defines=['NDEBUG'])
    if exe is None:
        ctx.violation('harness-build', 'harness does not compile against /repo: ' + err[-1500:], found_input=False); return
    drv = [vlib.driver_path(), 'C17']
    thorough = ctx.tier == 'thorough'
    nontriv = lambda c: any(l.startswith('rmstar') or l.startswith('contract') for l in c)
    cases = [gen_case(ctx.rng) for _ in range(3000 if thorough else 300)]
    vlib.correspondence(ctx, 'simple_traits', [exe], drv, cases, nontrivial=nontriv, oracle=oracle, valid=valid)
    vlib.run_known_witnesses(ctx, {'simple_traits': [exe]}, drv, oracle)
    if thorough:
        sexe, err = vlib.build_harness(ctx, 'hC17_san', os.path.join(vlib.VERIF, 'harness', 'hC17.cpp'), defines=['NDEBUG'], sanitize=True)
        if sexe: vlib.correspondence(ctx, 'simple_traits_asan_ubsan', [sexe], drv, [gen_case(ctx.rng) for _ in range(500)], nontrivial=nontriv, oracle=oracle, valid=valid)
    ctx.extra['partial'] = PARTIAL


def replay_cmds(ctx, rp):
    exe, err = vlib.build_harness(ctx, 'hC17', os.path.join(vlib.VERIF, 'harness', 'hC17.cpp'), defines=['NDEBUG'])
    return ([exe], [vlib.driver_path(), 'C17']) if exe else None
