"""C05 — every persistence-matrix flavour computes the same, correct barcode."""
import vlib
from props import pmgen

MODULE = 'GudhiVerif.Properties.C05'
THEOREMS = ['cert_unique', 'Fact3.colop', 'InPlace.reduceAll_cert', 'InPlace.any_cert_agrees_with_reference', 'BridgeP.reduceAllP_cert',
            'BridgeP.any_cert_agrees_with_referenceP', 'BridgeP.toMatP_colop', 'BridgeP.reduceAt_fact3', 'chain_cert', 'cycle_pivot_not_in_H',
            'chain_creator', 'chain_destroyer', 'chain_final', 'AxpyProto.coeff_axpy', 'ReducePProto.canon_axpy', 'ReducePProto.low_axpy_lt']
PARTIAL = ['C05_model_partial: there is no Lean model of the individual matrix classes (Boundary_matrix / RU_matrix / Chain_matrix and their overlays); the executable object compared with each '
           'instantiation is the reference reduction of the current filtration (proved a certificate, unique pairing), and the harness evaluates the defining identities on the real columns']
ASSUMPTIONS = ['cells are inserted in a valid filtration order with increasing identifiers', 'identity checks use default identifiers (rows = positions); custom identifiers are covered at barcode level']


RELEASE_STREAMS = True


def run(ctx, vine=False, rep=False, pid='C05'):
    thorough = ctx.tier == 'thorough'
    ctx.rule = ('random filtered simplicial complexes (<= 6 vertices, dim <= 3, random linear extension of the face order) and sub-complexes of small 2D cubical grids as general cell complexes, '
                'Z2 and Z3/Z5/Z7 with signed boundaries, default and custom increasing identifiers, interleaved remove_last / re-insertion' + (', admissible vine swaps and removals of maximal cells' if vine else '') +
                '; after the operations: barcode in positions, the defining identities evaluated on the real columns' + (', representative cycles checked against the real boundaries' if rep else '') +
                '; one stream per matrix instantiation (covering array over column type x flavour x indexing x row access x removable x container); non-trivial = at least 6 cells and one finite bar')
    vlib.lean_stage(ctx, MODULE.replace('C05', pid), THEOREMS_BY[pid])
    cfgs = pmgen.thorough_cfgs() if thorough else pmgen.QUICK
    if vine: cfgs = [c for c in cfgs if c[2]['vine']]
    elif rep: cfgs = [c for c in cfgs if c[2]['rep']]
    elif not thorough: cfgs = [c for c in cfgs if not c[2]['vine']] + [c for c in cfgs if c[2]['vine']][:2]
    exes, errs = pmgen.build(ctx, cfgs)
    drv = [vlib.driver_path(), 'PM']
    n = 400 if thorough else 120
    skipped = []
    live = {}
    for name, d, caps in cfgs:
        exe = exes.get('hPM_' + name)
        if exe is None:
            skipped.append(name); continue
        live[name] = [exe]
        cases = []
        chain_zp_rm = caps['flav'] == 2 and caps['zp'] and caps['rm']       # removals followed by insertions on Z_p chains: rescaled columns (three times the cases, odd primes)
        ru_plain_rm = vine and caps['flav'] == 1 and caps['rm'] and not caps['mapc'] and not caps['rows']     # own identifiers + removal + re-insertion + swaps: five times the cases
        for k in range(3 * n if chain_zp_rm else 5 * n if ru_plain_rm else n):
            p = 2 if not caps['zp'] else ctx.rng.choice([3, 3, 5, 7] if chain_zp_rm else [2, 3, 3, 5, 7])
            # chain flavour: representative cycles assume identifiers = positions (known finding of C08), so those streams keep default identifiers and no swaps
            chain_rep = rep and caps['flav'] == 2
            cases.append(pmgen.gen_case(ctx.rng, caps, p=p, want_vine=vine and not chain_rep, want_rep=rep, custom_ids=((k % 5 == 4) or bool(caps.get('barcode_on_demand') and k % 2 == 1) or bool(caps['flav'] == 1 and caps['rm'] and not caps['mapc'] and not caps['rows'] and k % 2 == 1)) and not chain_rep, plain_ids=chain_rep))
        nontriv = lambda c: sum(1 for l in c if l.startswith('ins')) >= 6 and any(':' in l and 'inf' not in l.split()[-1] for l in pmgen.simulate(c) if l and l.startswith('bars'))
        vlib.correspondence(ctx, name, [exe], drv, cases, nontrivial=nontriv, keep_prefix=2, oracle=pmgen.oracle, valid=pmgen.valid)
    # release builds (-O2 -DNDEBUG): the checks inside GUDHI_CHECK / assert are compiled out, nothing the property relies on may live there
    rel = [c for c in cfgs if 'COLT=VECTOR' in c[1]] + [c for c in cfgs if 'COLT=VECTOR' not in c[1]][::4]
    if not thorough: rel = rel[:4]
    if not RELEASE_STREAMS: rel = []
    rexes, rerrs = pmgen.build(ctx, rel, release=True)
    for name, d, caps in rel:
        exe = rexes.get('hPM_' + name + '_rel')
        if exe is None: continue
        chain_rep = rep and caps['flav'] == 2
        cases = [pmgen.gen_case(ctx.rng, caps, p=2 if not caps['zp'] else ctx.rng.choice([2, 3, 5]), want_vine=vine and not chain_rep, want_rep=rep, plain_ids=chain_rep) for _ in range(2 * n if 'COLT=VECTOR' in d else n)]
        vlib.correspondence(ctx, name + '_release', [exe], drv, cases, keep_prefix=2, oracle=pmgen.oracle, valid=pmgen.valid)
    vlib.run_known_witnesses(ctx, live, drv, pmgen.oracle)
    ctx.extra['instantiations_that_do_not_compile'] = {k: v[-200:] for k, v in errs.items()}
    if not exes or all(v is None for v in exes.values()):
        ctx.violation('harness-build', 'no matrix instantiation compiles against /repo: ' + str(errs)[-1200:], found_input=False)
    if thorough:
        san = [c for c in cfgs][:6]
        sexes, serrs = pmgen.build(ctx, san, sanitize=True)
        for name, d, caps in san:
            exe = sexes.get('hPM_' + name + '_san')
            if exe is None: continue
            chain_rep = rep and caps['flav'] == 2        # same restriction as the main streams (known finding of C08)
            cases = [pmgen.gen_case(ctx.rng, caps, p=2 if not caps['zp'] else 3, want_vine=vine and not chain_rep, want_rep=rep, plain_ids=chain_rep) for _ in range(150)]
            vlib.correspondence(ctx, name + '_asan_ubsan', [exe], drv, cases, keep_prefix=2, oracle=pmgen.oracle, valid=pmgen.valid)
    ctx.extra['partial'] = PARTIAL_BY[pid]


THEOREMS_BY = {'C05': THEOREMS}
PARTIAL_BY = {'C05': PARTIAL}


def replay_cmds(ctx, rp):
    stream = rp.get('stream', ''); rel = stream.endswith('_release')
    name = stream.replace('_asan_ubsan', '').replace('_release', '')
    for n, d, caps in pmgen.thorough_cfgs():
        if n == name:
            exes, errs = pmgen.build(ctx, [(n, d, caps)], release=rel)
            e = exes.get('hPM_' + n + ('_rel' if rel else ''))
            return ([e], [vlib.driver_path(), 'PM']) if e else None
    return None
