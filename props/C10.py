"""C10 — coefficient fields implement exact modular arithmetic."""
import os, math
import vlib

MODULE = 'GudhiVerif.Properties.C10'
THEOREMS = ['C10.zp_add', 'C10.zp_sub', 'C10.zp_mul', 'C10.zp_conv', 'C10.zp_convu', 'C10.zp_mad', 'C10.zp_aam',
            'C10.zp_init_prime', 'C10.zp_init_rejects', 'C10.zpInit_small', 'C10.zp_inv', 'C10.zp_eq',
            'C10.multi_idem_one', 'C10.multi_idem_zero', 'C10.d24_witness',
            'ZpProto.mulLoop_spec', 'Zp2Proto.sub_add_cancel', 'GetValueProto.impl_violates',
            'MultiField.sqMul_spec', 'MultiField.isPrime_iff', 'MultiField.mfInit_wf', 'MultiField.mfPid_spec', 'MultiField.mfPinv_spec',
            'Egcd.egcdLoop_spec', 'Egcd.egcdLoop_bound', 'Egcd.egcdInv_spec', 'MultiField.coprime_div_gcd', 'MultiField.mfPinv_correct', 'Egcd.egcdLoop_terminates', 'Egcd.egcdInv_isSome', 'MultiField.mfPinv_total']
PARTIAL = ['C10_multi_partial: partial identity and partial inverse of the multi-field classes are theorems for every field accepted by mfInit (mfPid_spec, mfPinv_correct, with the extended-Euclid loop proved: egcdInv_spec); '
           'the fuel of the model of that loop is proved sufficient for moduli below 2^99 (mfPinv_total); for larger moduli of the GMP classes the result is compared with the code and decided by the exact oracle of props/C10.py']
ASSUMPTIONS = ['GMP (mpz_gcd, mpz_invert, mpz_powm_ui, mpz_nextprime) behaves as documented',
               'static classes are exercised for the instantiated template parameters only (Zp: 2,3,5,7,13,31,251,32749,65521; ranges [2,3],[2,5],[3,11],[5,13],[2,23],[7,7])']

SMALL_PRIMES = [2, 3, 5, 7, 11, 13, 17, 19, 23, 29, 31, 37, 41, 43, 47, 53, 59, 61]
MID_PRIMES = [251, 257, 1499]
BIG_PRIMES = [32749, 46337, 46349, 65521]
STATIC_ZP = [2, 3, 5, 7, 13, 31, 251, 32749, 65521]
STATIC_RANGES = [(2, 3), (2, 5), (3, 11), (5, 13), (2, 23), (7, 7)]
ALL_OPS = ['conv', 'convu', 'add', 'sub', 'mul', 'mad', 'aam', 'inv', 'eq', 'pinv', 'pid']
STREAMS = {  # name -> (family, ops, constraint)
    'zp_ops': ('zp', ALL_OPS, {}),
    'zp_shared': ('zp', ALL_OPS, {}),
    'zp_static': ('zp', ALL_OPS, {'chars': STATIC_ZP}),
    'z2_ops': ('zp', ALL_OPS, {'chars': [2]}),
    'z2_elem': ('zp', ALL_OPS, {'chars': [2]}),
    'coh_zp': ('zp', ['add', 'mul', 'mad', 'negmul', 'inv', 'pinv', 'pid'], {'reduced': True, 'maxp': 46337}),
    'ms_ops': ('multi', ALL_OPS, {'maxP': 2 ** 32 - 1, 'nonneg': True}),
    'ms_shared': ('multi', ALL_OPS, {'maxP': 2 ** 32 - 1, 'nonneg': True}),
    'ms_static': ('multi', ALL_OPS, {'ranges': STATIC_RANGES, 'nonneg': True}),
    'mg_ops': ('multi', ALL_OPS, {}),
    'mg_shared': ('multi', ALL_OPS, {}),
    'mg_static': ('multi', ALL_OPS, {'ranges': STATIC_RANGES}),
    'coh_multi': ('multi', ['add', 'mul', 'mad', 'negmul', 'inv', 'pinv', 'pid'], {'reduced': True}),
}


def is_prime(n):
    if n < 2: return False
    d = 2
    while d * d <= n:
        if n % d == 0: return False
        d += 1
    return True


def primes_in(lo, hi):
    return [q for q in range(max(lo, 2), hi + 1) if is_prime(q)]


def operand(rng, m, reduced, wide=2 ** 32):
    r = rng.random()
    if r < 0.15: return 0
    if r < 0.3: return 1 % m if reduced else 1
    if r < 0.5: return m - 1
    if r < 0.8 or reduced: return rng.randrange(m)
    return rng.choice([m, m + 1, 2 * m - 1, 2 ** 31 - 1, 2 ** 31, 2 ** 31 + 1, wide - 1, rng.randrange(wide)]) % wide


def corner_case(stream, p):
    """operands next to p for the largest characteristics: every fused and binary operation where the 32-bit intermediate is largest"""
    fam, ops, con = STREAMS[stream]
    lines = ['zp %d' % p]
    for o in ops:
        if o in ('add', 'sub', 'mul', 'negmul'): lines += ['%s %d %d' % (o, p - 1, p - 1), '%s %d %d' % (o, p - 1, p - 2), '%s %d %d' % (o, p // 2 + 1, p - 1)]
        if o in ('mad', 'aam'): lines += ['%s %d %d %d' % (o, p - 1, p - 1, p - 1), '%s %d %d %d' % (o, p - 2, p - 1, p - 3), '%s %d %d %d' % (o, p // 2, p - 1, p - 2), '%s %d %d %d' % (o, p - 1, 1, p - 1)]
        if o == 'inv': lines += ['inv %d' % (p - 1), 'inv 2']
    return lines


def gen_case(rng, stream, tier, big=False):
    """one or (30%) two initialisations of the same object, each followed by operations: re-initialising with another
    characteristic must leave no trace of the previous one"""
    lines = gen_segment(rng, stream, tier, big)
    if not big and rng.random() < 0.3 and len(lines) > 2: lines += gen_segment(rng, stream, tier, False)
    return lines


def gen_segment(rng, stream, tier, big=False):
    fam, ops, con = STREAMS[stream]
    lines = []
    if fam == 'zp':
        if 'chars' in con:
            p = rng.choice(con['chars'])
            if not big and p > 2000: p = rng.choice([c for c in con['chars'] if c < 2000])
        else:
            r = rng.random()
            if big: p = rng.choice([q for q in BIG_PRIMES if q <= con.get('maxp', 10 ** 9)])
            elif r < 0.12: p = rng.choice([0, 1, 4, 6, 9, 15, 21, 25, 49, 91, 121, 169, 1001, rng.randrange(4, 1400)])
            elif r < 0.8: p = rng.choice(SMALL_PRIMES)
            else: p = rng.choice(MID_PRIMES)
        lines.append('zp %d' % p)
        if not is_prime(p):
            lines.append('add 1 1')
            return lines
        m = p
    else:
        if 'ranges' in con: lo, hi = rng.choice(con['ranges'])
        else:
            r = rng.random()
            if r < 0.1: lo, hi = rng.choice([(8, 10), (4, 4), (1, 1), (24, 28), (0, 1), (6, 5)])
            elif r < 0.75: lo = rng.choice([2, 2, 3, 5, 7]); hi = lo + rng.randrange(0, 12)
            else: lo = rng.choice([2, 3, 11, 13]); hi = lo + rng.randrange(5, 22)
            while 'maxP' in con and math.prod(primes_in(lo, hi) or [1]) > con['maxP'] // 2: hi -= 1   # products below 2^31 (int conversions in _get_inverse)
            if hi < lo: lo, hi = 2, 5
        lines.append('multi %d %d' % (lo, hi))
        ps = primes_in(lo, hi)
        if not ps or hi < 2 or lo > hi:
            lines.append('add 1 1')
            return lines
        m = math.prod(ps)
    n_ops = rng.randrange(6, 24)
    reduced = con.get('reduced', False)
    wide = 2 ** 32 if (fam == 'zp' or 'maxP' in con or con.get('nonneg')) else 2 ** 70
    for _ in range(n_ops):
        o = rng.choice(ops)
        # value semantics of the operator objects (copy / move / assignment / swap against an object of another field,
        # both argument positions): the field stays the one it was initialised for; a no-op for the other classes
        if stream.endswith('_ops') and rng.random() < 0.12: lines.append('xfer %d' % rng.randrange(6))
        if o == 'conv':
            if fam == 'multi' and con.get('nonneg'):
                z = rng.choice([0, 1, m - 1, m, m + 1, 2 * m + 3, rng.randrange(2 ** 31)])
            else:
                z = rng.choice([0, -1, 1, -m, -m - 1, -2 * m - 1, -3 * m + 1, m, m + 1, -2 ** 31, 2 ** 31 - 1, -(2 ** 31) + 1,
                                rng.randrange(-2 ** 31, 2 ** 31), rng.randrange(-3 * m, 3 * m + 1)])
                z = max(-2 ** 31, min(2 ** 31 - 1, z)) if fam == 'zp' else z
            lines.append('conv %d' % z)
        elif o == 'convu':
            lines.append('convu %d' % operand(rng, m, False, min(wide, 2 ** 32)))
        elif o in ('add', 'sub', 'mul', 'eq', 'negmul'):
            lines.append('%s %d %d' % (o, operand(rng, m, reduced, wide), operand(rng, m, reduced, wide)))
        elif o == 'mad':
            # e*m + a in machine arithmetic: claimed on reduced operands only
            lines.append('mad %d %d %d' % (operand(rng, m, True), operand(rng, m, True), operand(rng, m, True)))
        elif o == 'aam':
            lines.append('aam %d %d %d' % (operand(rng, m, True), operand(rng, m, True), operand(rng, m, True)))
        elif o == 'inv':
            x = operand(rng, m, True)
            if fam == 'zp' and x % m == 0: x = 1 % m if m > 1 else 0
            if fam == 'zp' and m == 1: continue
            lines.append('inv %d' % x)
        elif o == 'pinv':
            x = operand(rng, m, True)
            if fam == 'zp':
                if x % m == 0: x = 1
                lines.append('pinv %d %d' % (x, rng.choice([m, 1, 6, 30])))
            else:
                sub = [q for q in ps if rng.random() < 0.6]
                lines.append('pinv %d %d' % (x, math.prod(sub) if sub else rng.choice([1, m])))
        elif o == 'pid':
            if fam == 'zp': lines.append('pid %d' % rng.choice([m, 0, 1]))
            else:
                sub = [q for q in ps if rng.random() < 0.5]
                lines.append('pid %d' % (math.prod(sub) if sub and rng.random() < 0.9 else rng.choice([0, m])))
    return lines


def oracle(case, impl):
    """exact arithmetic, independent of the Lean model: None if every line of the real code's answer is the residue"""
    fam, m, ps = None, None, []
    k = 0
    for line in case:
        t = line.split()
        if k >= len(impl): return 'missing output line %d' % k
        got = impl[k]; k += 1
        if t[0] == 'zp':
            p = int(t[1]); ok = is_prime(p)
            if (got == 'ok') != ok: return 'characteristic %d: %s' % (p, got)
            fam, m, ps = ('zp', p, [p]) if ok else (None, None, [])
            continue
        if t[0] == 'multi':
            lo, hi = int(t[1]), int(t[2]); ps = primes_in(lo, hi) if (hi >= 2 and lo <= hi) else []
            if ps:
                m = math.prod(ps); fam = 'multi'
                if got != 'ok %d' % m: return 'range [%d,%d]: %s' % (lo, hi, got)
            else:
                fam = None
                if got != 'invalid_argument': return 'range [%d,%d] without prime accepted: %s' % (lo, hi, got)
            continue
        if fam is None:
            if got != 'no-field': return 'operation on refused field answered %s' % got
            continue
        a = [int(x) for x in t[1:]]
        o = t[0]
        exp = None
        if o == 'xfer':
            if got != 'ok': return '%s -> %s' % (line, got)
            continue
        if o in ('conv', 'convu'): exp = a[0] % m
        elif o == 'add': exp = (a[0] + a[1]) % m
        elif o == 'sub': exp = (a[0] - a[1]) % m
        elif o == 'mul': exp = (a[0] * a[1]) % m
        elif o == 'mad': exp = (a[0] * a[1] + a[2]) % m
        elif o == 'aam': exp = ((a[0] + a[1]) * a[2]) % m
        elif o == 'negmul': exp = (-a[0] * a[1]) % m
        elif o == 'eq': exp = 1 if (a[0] - a[1]) % m == 0 else 0
        if exp is not None:
            if got != str(exp): return '%s -> %s, exact residue is %d (modulus %d)' % (line, got, exp, m)
            continue
        if o == 'pid':
            Q = a[0]
            try: v = int(got)
            except ValueError: return '%s -> %s' % (line, got)
            if not (0 <= v < m) and m > 1: return '%s -> %d not reduced' % (line, v)
            for q in ps:
                want = 1 if (fam == 'zp' or Q % q == 0) else 0
                if v % q != want % q: return '%s -> %d, residue modulo %d should be %d' % (line, v, q, want)
            continue
        if o in ('inv', 'pinv'):
            x = a[0]; Q = a[1] if o == 'pinv' else m
            try: vals = [int(z) for z in got.split()]
            except ValueError: return '%s -> %s' % (line, got)
            v = vals[0]
            if fam == 'zp':
                if (v * x) % m != 1 % m: return '%s -> %d, not the inverse modulo %d' % (line, v, m)
                if o == 'pinv' and vals[1] != Q: return '%s -> second component %d' % (line, vals[1])
                continue
            T = math.prod([q for q in ps if Q % q == 0 and x % q != 0])
            if o == 'pinv' and vals[1] != T: return '%s -> T = %d, expected %d' % (line, vals[1], T)
            if not (0 <= v < m): return '%s -> %d not reduced' % (line, v)
            for q in ps:
                if T % q == 0:
                    if (v * x) % q != 1 % q: return '%s -> %d is not the inverse modulo %d' % (line, v, q)
                elif v % q != 0: return '%s -> %d should vanish modulo %d' % (line, v, q)
            continue
        return 'unknown op ' + line
    return None


def harness(ctx, sanitize=False):
    name = 'hC10_san' if sanitize else 'hC10'
    p, err = vlib.build_harness(ctx, name, os.path.join(vlib.VERIF, 'harness', 'hC10.cpp'), libs=['-lgmpxx', '-lgmp'], sanitize=sanitize)
    return p, err


def exhaustive_cases(primes):
    cases = []
    for p in primes:
        c = ['zp %d' % p]
        for z in range(-3 * p, 3 * p + 1): c.append('conv %d' % z)
        for a in range(p):
            for b in range(p):
                c += ['add %d %d' % (a, b), 'sub %d %d' % (a, b), 'mul %d %d' % (a, b), 'eq %d %d' % (a, b)]
        for a in range(p):
            for b in range(p):
                for d in (range(p) if p <= 13 else (0, 1, p - 1)):
                    c += ['mad %d %d %d' % (a, b, d), 'aam %d %d %d' % (a, b, d)]
        for a in range(1, p): c.append('inv %d' % a)
        cases.append(c)
    return cases


def exhaustive_multi(ranges):
    """every operand pair (zero divisors included) of the product rings Z_6, Z_30 (, Z_105): the multi-field classes"""
    cases = []
    for lo, hi in ranges:
        q = math.prod(primes_in(lo, hi)); c = ['multi %d %d' % (lo, hi)]
        for a in range(q):
            for b in range(q):
                c += ['add %d %d' % (a, b), 'sub %d %d' % (a, b), 'mul %d %d' % (a, b), 'eq %d %d' % (a, b)]
                if q <= 30: c += ['mad %d %d %d' % (a, b, d) for d in (0, 1, q - 1)] + ['aam %d %d %d' % (a, b, d) for d in (0, 1, q - 1)]
        cases.append(c)
    return cases


def run(ctx):
    ctx.rule = ('cases = (characteristic or prime range) followed by 6-24 operations with boundary-directed operands (0, 1, m-1, m, m+1, 2^31+-1, 2^32-1, negative '
                'ints down to INT_MIN), composite / degenerate characteristics in 12% of the cases; the same file goes to the real class (one stream per class) and to '
                'gvdriver C10; non-trivial = accepted field and at least 4 arithmetic operations; distinct by the text of the history. '
                'Plus an exhaustive stream (all operands) for small primes, an exhaustive stream over the product rings Z_6 and Z_30 (all operand pairs, zero divisors included) for the six multi-field classes, and a rejection stream (every n up to a bound).')
    vlib.lean_stage(ctx, MODULE, THEOREMS)
    exe, err = harness(ctx)
    if exe is None:
        ctx.violation('harness-build', 'harness does not compile against /repo: ' + err[-1500:], found_input=False)
        return
    drv = [vlib.driver_path(), 'C10']
    thorough = ctx.tier == 'thorough'
    n = 400 if thorough else 60
    nontriv = lambda c: len(c) >= 5 and c[1] != 'add 1 1'
    for s in STREAMS:
        cases = [gen_case(ctx.rng, s, ctx.tier) for _ in range(n)]
        nbig = (6 if thorough else 1) if s in ('zp_ops', 'zp_shared', 'zp_static', 'coh_zp') else 0
        cases += [gen_case(ctx.rng, s, ctx.tier, big=True) for _ in range(nbig)]
        if s in ('zp_ops', 'zp_shared'): cases += [corner_case(s, q) for q in ((46349, 65521) if not thorough else (32749, 46337, 46349, 65521))]
        if s == 'zp_static': cases += [corner_case(s, q) for q in (32749, 65521)]
        if s == 'coh_zp': cases += [corner_case(s, 46337)]
        vlib.correspondence(ctx, s, [exe, s], drv, cases, nontrivial=nontriv, keep_prefix=1, oracle=oracle)
    # exhaustive small primes (all operand pairs / triples) for the three run-time and static Z_p classes
    ex = exhaustive_cases([2, 3, 5, 7, 13] + ([31] if thorough else []))
    for s in ('zp_ops', 'zp_shared', 'zp_static'):
        vlib.correspondence(ctx, s + '_exhaustive', [exe, s], drv, ex, keep_prefix=1, oracle=oracle, shrink=True)
    exq = exhaustive_cases([11, 17, 19, 23] + ([29, 37, 41, 43, 47, 53, 59, 61] if thorough else []))
    vlib.correspondence(ctx, 'zp_ops_exhaustive2', [exe, 'zp_ops'], drv, exq, keep_prefix=1, oracle=oracle)
    exm = exhaustive_multi([(2, 3), (2, 5)])
    for s in ('ms_ops', 'ms_shared', 'ms_static', 'mg_ops', 'mg_shared', 'mg_static'):
        vlib.correspondence(ctx, s + '_exhaustive', [exe, s], drv, exm + (exhaustive_multi([(3, 7)]) if thorough and 'static' not in s else []), keep_prefix=1, oracle=oracle, shrink=True)
    # rejection of every characteristic that is not a prime > 1
    bound = 1000 if thorough else 300
    rej = [['zp %d' % k, 'add 1 1'] for k in range(0, bound)]
    for s in ('zp_ops', 'zp_shared', 'coh_zp'):
        vlib.correspondence(ctx, s + '_reject', [exe, s], drv, rej, keep_prefix=0, oracle=oracle, shrink=False)
    rejm = [['multi %d %d' % (lo, hi), 'add 1 1'] for lo in range(0, 32) for hi in range(max(0, lo - 1), min(lo + 8, 34))]
    for s in ('ms_ops', 'ms_shared', 'mg_ops', 'mg_shared'):
        vlib.correspondence(ctx, s + '_ranges', [exe, s], drv, rejm, keep_prefix=0, oracle=oracle, shrink=False)
    if thorough:
        sexe, err = harness(ctx, sanitize=True)
        if sexe is None:
            ctx.notes.append('sanitizer build failed: ' + err[-300:])
        else:
            for s in STREAMS:
                cases = [gen_case(ctx.rng, s, ctx.tier) for _ in range(150)]
                vlib.correspondence(ctx, s + '_asan_ubsan', [sexe, s], drv, cases, nontrivial=nontriv, keep_prefix=1, oracle=oracle)
    ctx.extra['partial'] = PARTIAL


def replay_cmds(ctx, rp):
    exe, err = harness(ctx)
    if exe is None: return None
    s = rp.get('stream', 'zp_ops').split('_exhaustive')[0].split('_reject')[0].split('_ranges')[0].split('_asan')[0]
    return [exe, s], [vlib.driver_path(), 'C10']
