"""C19 — the sparse Rips filtration stays within its approximation guarantee."""
import os, itertools
from fractions import Fraction as Fr
import vlib
from props import pyph

MODULE = 'GudhiVerif.Properties.C19'
THEOREMS = ['edgeAlpha_ge', 'edgeAlpha_alive', 'C19.alphaRaw_ge_dist', 'C19.edgeAlpha_ge_dist', 'C19.edgeAlpha_le_maxi', 'C19.keptGo_le', 'C19.kept_le', 'C19.sparseGraph_vertices', 'C19.sparseGraph_edges_ge']
PARTIAL = ['C19_interleaving_partial: the multiplicative interleaving of the sparse and the full Rips filtrations (Sheehy; Cavanna, Jahanseir, Sheehy) is not proved in Lean; on every explored input both diagrams are computed and an exact '
           'bottleneck matching with cost bound 1/(1-eps) on ratios is searched (rational arithmetic, no logarithm evaluated)',
           'C19_greedy_partial: the farthest-point subsampler is not modelled; what it returned (read through the guarded hook) is checked to be a greedy permutation by the model on every run, and the theorems quantify over every greedy order',
           'C19_blocker_partial: the largest blocked-free subcomplex is the executable specification shared with C04 (compared with the code), not a theorem']
ASSUMPTIONS = ['distinct points on the integer grid [0,15]^2 (uniform in [0,7]^2, 2-3 clusters far apart, or 7-11 points on an unevenly sampled ring) with the L-infinity or L1 metric (exact distances, triangle inequality holds)',
               'exact model comparison for eps in {1/8, 1/4, 1/2, 1, 2} (every product and quotient is exact in double); eps in {1/3, 3/4, 9/10} judged by the property oracle only',
               'diagrams compared in dimensions below dim_max']

EXACT_EPS = [(1, 8), (1, 4), (1, 2), (1, 2), (1, 1), (2, 1)]
OTHER_EPS = [(1, 3), (3, 4), (9, 10)]


def dist(p, q, l1): return abs(p[0] - q[0]) + abs(p[1] - q[1]) if l1 else max(abs(p[0] - q[0]), abs(p[1] - q[1]))


def parse_cplx(line):
    out = {}
    for tok in line.split()[1:]:
        w, f = tok.split(':')
        out[tuple(int(x) for x in w.split(','))] = f
    return out


def ratio_ok(x, y, a, b):
    """|log x - log y| <= log(1/(1-eps)), eps = a/b, exact"""
    if x == y: return True
    if x is None or y is None: return False
    if x <= 0 or y <= 0: return False
    lo, hi = min(x, y), max(x, y)
    return hi * (b - a) <= lo * b


def diag_ok(bar, a, b):
    """distance of a bar to the diagonal (half its log-length) <= bound:  d/b <= (1/(1-eps))^2"""
    bt, dt = bar
    if dt is None: return False
    if bt <= 0: return False
    return dt * (b - a) * (b - a) <= bt * b * b


def bottleneck_within(A, B, a, b):
    """is there a matching of A and B (bars (birth, death|None)) where matched bars have birth and death ratios <= 1/(1-eps) and unmatched bars are that close to the diagonal"""
    n, m = len(A), len(B)
    # left nodes: A bars (0..n-1) then diagonal copies of B (n..n+m-1); right nodes: B bars (0..m-1) then diagonal copies of A (m..m+n-1)
    adj = [[] for _ in range(n + m)]
    for i, x in enumerate(A):
        for j, y in enumerate(B):
            if ratio_ok(x[0], y[0], a, b) and ratio_ok(x[1], y[1], a, b): adj[i].append(j)
        if diag_ok(x, a, b): adj[i].append(m + i)
    for j, y in enumerate(B):
        if diag_ok(y, a, b): adj[n + j].append(j)
        adj[n + j] += [m + i for i in range(n)]            # diagonal to diagonal is free
    match = {}
    def aug(u, seen):
        for v in adj[u]:
            if v in seen: continue
            seen.add(v)
            if v not in match or aug(match[v], seen): match[v] = u; return True
        return False
    return all(aug(u, set()) for u in range(n + m))


def bars_of(cplx, p=2):
    """dict simplex -> Fraction value; bars per dimension as (birth, death|None), zero-length dropped"""
    order = sorted(cplx, key=lambda s: (cplx[s], len(s), s))
    pairs, ess = pyph.reduce_pairs(pyph.simplicial_boundary(order, p), p)
    out = {}
    for bi, di in pairs:
        if cplx[order[bi]] != cplx[order[di]]: out.setdefault(len(order[bi]) - 1, []).append((cplx[order[bi]], cplx[order[di]]))
    for bi in ess: out.setdefault(len(order[bi]) - 1, []).append((cplx[order[bi]], None))
    return out


def state_of(case):
    st = dict(pts=[], l1=False, eps=(1, 2), mini=None, maxi=None, dim=2)
    for l in case:
        t = l.split()
        if t[0] == 'pts': st['pts'] = [(int(t[i]), int(t[i + 1])) for i in range(2, len(t) - 1, 2)]
        elif t[0] == 'metric': st['l1'] = t[1] == 'l1'
        elif t[0] == 'eps': st['eps'] = (int(t[1]), int(t[2]))
        elif t[0] == 'bounds': st['mini'] = None if t[1] == 'ninf' else int(t[1]); st['maxi'] = None if t[2] == 'inf' else int(t[2])
        elif t[0] == 'dim': st['dim'] = int(t[1])
    return st


def oracle(case, impl):
    st = state_of(case); k = 0
    for l in case:
        o = l.split()[0]
        if o == 'given' and (k >= len(impl) or impl[k] != 'given ok=1'):
            return 'the subsampler did not reproduce the probed order (%r)' % (impl[k] if k < len(impl) else None)
        if o == 'sparse':
            if k >= len(impl) or not impl[k].startswith('cplx'): return 'no complex printed: %r' % (impl[k] if k < len(impl) else None)
            r = check_complex(st, impl[k])
            if r: return r
        k += 1
    return None
oracle.raw = True


def check_complex(st, line):
    pts, l1 = st['pts'], st['l1']; a, b = st['eps']; dim = st['dim']; n = len(pts)
    raw = parse_cplx(line)
    cplx = {}
    for s, f in raw.items():
        if f.startswith('x'): cplx[s] = Fr(f[1:])
        elif f in ('inf', 'ninf'): return 'simplex %s has an infinite value' % (s,)
        else: cplx[s] = Fr(int(f))
    bounded = st['mini'] is not None or st['maxi'] is not None
    # valid filtered complex
    for s, f in cplx.items():
        for i in range(len(s)):
            if len(s) > 1:
                t = s[:i] + s[i + 1:]
                if t not in cplx: return 'face %s of %s is missing' % (t, s)
                if cplx[t] > f: return 'face %s has a larger value than %s' % (t, s)
        if len(s) > dim + 1: return 'simplex %s exceeds dim_max %d' % (s, dim)
    if a >= b or a <= 0: return None
    # filtered subcomplex of Rips: every simplex appears no earlier than its diameter
    for s, f in cplx.items():
        diam = max([dist(pts[u], pts[v], l1) for u, v in itertools.combinations(s, 2)], default=0)
        if f < diam: return 'simplex %s has value %s below its Rips value %d' % (s, f, diam)
    if bounded: return None
    if set((v,) for v in range(n)) - set(cplx): return 'a point is not a vertex of the sparse complex'
    full = sum(1 for k in range(1, dim + 2) for _ in itertools.combinations(range(n), k))
    if getattr(oracle, 'stats', None) is not None: oracle.stats['sparser_than_rips' if len(cplx) < full else 'same_as_rips'] += 1
    # approximation guarantee
    rips = {}
    for k in range(1, dim + 2):
        for s in itertools.combinations(range(n), k):
            rips[s] = Fr(max([dist(pts[u], pts[v], l1) for u, v in itertools.combinations(s, 2)], default=0))
    A, B = bars_of(cplx), bars_of(rips)
    for d in range(dim):
        if not bottleneck_within(A.get(d, []), B.get(d, []), a, b):
            return 'dimension %d: diagrams of the sparse (%s) and the full Rips filtration (%s) are not within log(1/(1-%d/%d))' % (
                d, sorted(A.get(d, []), key=str)[:8], sorted(B.get(d, []), key=str)[:8], a, b)
    return None


def canon_oracle_only(lines): return ['cplx' if l.startswith('cplx') else l for l in lines]


def gen_prefix(rng, eps_choices, maxn=9):
    n = rng.randrange(2, maxn + 1); pts = set()
    ring = rng.random() < 0.25
    if ring:
        # unevenly sampled ring (a 1-cycle that only long edges towards early points can fill): the delayed-edge branch matters here
        import math
        n = rng.randrange(7, 12); R = rng.choice([5, 6, 7])
        angles = sorted(rng.random() * 2 * math.pi for _ in range(3 * n))
        for a in angles:
            if len(pts) >= n: break
            pts.add((int(round(7 + R * math.cos(a))), int(round(7 + R * math.sin(a)))))
        n = len(pts)
    elif rng.random() < 0.6:
        # clusters far apart: late points have small insertion radii, so the sparsification actually removes edges
        cs = [(rng.randrange(16), rng.randrange(16)) for _ in range(rng.choice([2, 2, 3]))]
        while len(pts) < n:
            c = rng.choice(cs); pts.add((min(15, max(0, c[0] + rng.randrange(-1, 2))), min(15, max(0, c[1] + rng.randrange(-1, 2)))))
            if len(pts) < n and rng.random() < 0.15: pts.add((rng.randrange(16), rng.randrange(16)))
    else:
        while len(pts) < n: pts.add((rng.randrange(8), rng.randrange(8)))
    pts = list(pts); rng.shuffle(pts)
    a, b = rng.choice(eps_choices)
    if ring: a, b = max(eps_choices, key=lambda e: (e[0] / e[1] if e[0] < e[1] else 0))       # the largest eps below 1 of this stream
    lines = ['pts %d %s' % (n, ' '.join('%d %d' % p for p in pts)), 'metric %s' % rng.choice(['linf', 'l1']), 'eps %d %d' % (a, b)]
    if rng.random() < 0.25 and not ring: lines.append('bounds %s %s' % (rng.choice(['ninf', '1', '2', '3']), rng.choice(['inf', '4', '6', '9'])))
    lines.append('dim %d' % (2 if ring else rng.choice([1, 2, 2, 3])))
    lines.append('start %d' % rng.randrange(n))
    return lines


def two_stage(ctx, exe, prefixes, tag):
    """stage A: read the farthest-point order chosen from the forced start; stage B: histories that carry it"""
    res, _, crashes = vlib.run_cases(ctx, [exe], [p + ['probe'] for p in prefixes], 'probe_' + tag)
    cases = []
    for i, p in enumerate(prefixes):
        out = res.get(i) or []
        pl = [l for l in out if l.startswith('probe ')]
        if not pl:
            cases.append(p + ['sparse']); continue
        t = pl[0].split(); n = int(t[1])
        cases.append(p + ['given %d %s' % (n, ' '.join(t[2:2 + 2 * n])), 'sparse'])
    return cases


def run(ctx):
    thorough = ctx.tier == 'thorough'
    ctx.rule = ('2-8 distinct points of the integer grid [0,7]^2 in random order, L-infinity or L1 metric, eps in {1/8,1/4,1/2,1,2} (exact model comparison) and {1/3,3/4,9/10} (oracle only), dim_max 1-3, '
                'finite mini/maxi in a quarter of the cases, every starting point of the subsampler (forced through the guarded hook, random choice per case; all starting points for <= 5 points in the thorough tier); '
                'non-trivial = at least 4 points; distinct by text')
    vlib.lean_stage(ctx, MODULE, THEOREMS)
    src = os.path.join(vlib.VERIF, 'harness', 'hC19.cpp')
    exe, err = vlib.build_harness(ctx, 'hC19', src)
    if exe is None:
        ctx.violation('harness-build', 'harness does not compile against /repo: ' + err[-1500:], found_input=False); return
    drv = [vlib.driver_path(), 'C19']
    n = 1200 if thorough else 150
    nt = lambda c: int(c[0].split()[1]) >= 4
    stats = {'sparser_than_rips': 0, 'same_as_rips': 0}
    oracle.stats = stats
    cases = two_stage(ctx, exe, [gen_prefix(ctx.rng, EXACT_EPS) for _ in range(n)], 'exact')
    vlib.correspondence(ctx, 'exact_eps', [exe], drv, cases, nontrivial=nt, shrink=False, oracle=oracle)
    cases = two_stage(ctx, exe, [gen_prefix(ctx.rng, OTHER_EPS) for _ in range(n // 2)], 'other')
    vlib.correspondence(ctx, 'oracle_only_eps', [exe], drv, cases, nontrivial=nt, shrink=False, canon=canon_oracle_only, oracle=oracle)
    if thorough:
        pre = []
        for _ in range(60):
            p = gen_prefix(ctx.rng, EXACT_EPS, 5); k = int(p[0].split()[1])
            for s in range(k): pre.append(p[:-1] + ['start %d' % s])
        vlib.correspondence(ctx, 'every_start', [exe], drv, two_stage(ctx, exe, pre, 'starts'), nontrivial=nt, shrink=False, oracle=oracle)
        sexe, err = vlib.build_harness(ctx, 'hC19_san', src, sanitize=True)
        if sexe:
            vlib.correspondence(ctx, 'asan_ubsan', [sexe], drv, two_stage(ctx, sexe, [gen_prefix(ctx.rng, EXACT_EPS) for _ in range(200)], 'san'), nontrivial=nt, shrink=False, oracle=oracle)
    ctx.extra['partial'] = PARTIAL
    ctx.extra['input_distribution'] = stats
    ctx.log('sparser than Rips in %d complexes, equal in %d' % (stats['sparser_than_rips'], stats['same_as_rips']))


def replay_cmds(ctx, rp):
    exe, err = vlib.build_harness(ctx, 'hC19', os.path.join(vlib.VERIF, 'harness', 'hC19.cpp'))
    return ([exe], [vlib.driver_path(), 'C19']) if exe else None
