"""C04 — flag (clique) expansions build exactly the clique complex, by every route."""
import os, itertools
import vlib
from props import pyph

MODULE = 'GudhiVerif.Properties.C04b'
THEOREMS = ['ExpandProto.mem_labels_inter', 'ExpandProto.inc_inter', 'ExpandProto.expand_words', 'ExpandProto.valOf_inter', 'ExpandProto.expand_values',
            'ExpandProto.cliqueVal_rec', 'ExpandProto.expand_values_clique',
            'C04b.mem_subsetsOf', 'C04b.mem_withBlockers', 'C04b.withBlockers_unblocked', 'C04b.withBlockers_face_closed', 'C04b.withBlockers_largest']
PARTIAL = ['C04_routes_partial: the recursive expansion model (intersection of sibling lists, depth bound) is proved to create exactly the cliques with at most d+1 vertices, each with the maximum of its vertex and edge values; '
           'the blocker route is specified by withBlockers, proved (withBlockers_largest) to be the largest face-closed blocked-free subfamily of the clique complex; the incremental edge insertion (with the reported added simplices) and the Rips builders are executable specifications in the driver, compared with the code and with a Python clique enumeration']
ASSUMPTIONS = ['integer weights; vertex values not above the values of their edges (a valid filtered graph)', 'blocker predicates are deterministic functions of the vertex set']


def W(s): return ','.join(map(str, s))


def cliques(vs, es, d, blocked=None):
    """dict simplex -> value of the clique complex up to dimension d (None = unbounded), avoiding blocked simplices"""
    adj = {v: {} for v in vs}
    for (a, b), w in es.items(): adj[a][b] = w; adj[b][a] = w
    out = {}
    order = sorted(vs)
    def rec(s, val, cand):
        out[s] = val
        if d is not None and len(s) >= d + 1: return
        for i, w in enumerate(cand):
            if all(w in adj[u] for u in s):
                t = s + (w,)
                rec(t, max([val, vs[w]] + [adj[u][w] for u in s]), cand[i + 1:])
    for i, v in enumerate(order): rec((v,), vs[v], order[i + 1:])
    if blocked:   # largest subcomplex without blocked simplices: no face of size >= 3 is blocked
        out = {s: f for s, f in out.items() if not any(blocked(t) for k in range(3, len(s) + 1) for t in itertools.combinations(s, k))}
    return out


def gen_graph(rng):
    labels = sorted(rng.sample(range(9), rng.randrange(2, 8)))
    vs = {v: rng.choice([0, 0, 0, 1]) for v in labels}
    es = {}
    p = rng.choice([0.3, 0.6, 0.9])
    for a, b in itertools.combinations(labels, 2):
        if rng.random() < p: es[(a, b)] = max(vs[a], vs[b]) + rng.randrange(0, 4)
    return vs, es


def blocked_fn(rule, arg):
    if rule == 'parity': return lambda t: sum(t) % 2 == 1
    if rule == 'size': return lambda t: len(t) == arg
    if rule == 'has': return lambda t: arg in t
    if rule == 'mask': return lambda t: sum(1 << x for x in t) == arg
    return lambda t: False


def gen_case(rng, incremental):
    vs, es = gen_graph(rng)
    lines = ['gv %d %d' % kv for kv in sorted(vs.items())] + ['ge %d %d %d' % (a, b, w) for (a, b), w in sorted(es.items(), key=lambda x: rng.random())]
    for _ in range(rng.randrange(1, 4)): lines.append('expand %d' % rng.choice([0, 1, 2, 2, 3, 4, 5]))
    for _ in range(rng.randrange(1, 3)):
        rule = rng.choice(['none', 'parity', 'size', 'has', 'mask', 'mask']); arg = rng.choice([3, 4]) if rule == 'size' else rng.choice(sorted(vs))
        if rule == 'mask':
            # block exactly one clique of the graph with at least 3 vertices (a facet in the middle of a larger clique when there is one)
            cl = [t for t in cliques(vs, es, None) if len(t) >= 3]
            big = [t for t in cl if len(t) >= 4]
            if big and rng.random() < 0.7:
                t = rng.choice(big); i = rng.randrange(len(t)); t = t[:i] + t[i + 1:]
            elif cl: t = rng.choice(cl)
            else: t = tuple(sorted(vs))[:3]
            arg = sum(1 << x for x in t)
        lines.append('expandb %d %s %d' % (rng.choice([0, 1, 2, 3, 4, 5]), rule, arg))
    if incremental:
        d = rng.choice([-1, 1, 2, 3, 3])
        in_order = rng.random() < 0.5
        elist = sorted(es.items(), key=(lambda x: (x[1], x[0])) if in_order else (lambda x: rng.random()))
        # vertices: all first (half of the cases), or each one at a random moment before its first edge / at the very end when isolated
        late = rng.random() < 0.5; done = set(); seq = []
        first = [v for v, f in sorted(vs.items(), key=lambda x: rng.random()) if not late or rng.random() < 0.3]
        for v in first: seq.append((v, v, vs[v])); done.add(v)
        for (a, b), w in elist:
            for x in sorted((a, b), key=lambda x: rng.random()):
                if x not in done: seq.append((x, x, vs[x])); done.add(x)
            seq.append(((a, b) if rng.random() < 0.5 else (b, a)) + (w,))
        for v in sorted(vs, key=lambda x: rng.random()):
            if v not in done: seq.append((v, v, vs[v])); done.add(v)
        for u, v, w in seq: lines.append('edge %d %d %d %d' % (u, v, w, d))
        if [w for _, _, w in seq] != sorted(w for _, _, w in seq): lines.append('mfnd')
        lines += ['cplx', 'inceq %d' % d]
    if rng.random() < 0.5:
        n = rng.randrange(2, 7); dm = [rng.randrange(1, 6) for _ in range(n * (n - 1) // 2)]
        lines.append('ripsm %d %d %d %s' % (n, rng.randrange(0, 7), rng.randrange(0, 4), ' '.join(map(str, dm))))
    if rng.random() < 0.4:
        pts = [rng.randrange(0, 10) for _ in range(rng.randrange(2, 7))]
        lines.append('ripsp %d %d %s' % (rng.randrange(0, 6), rng.randrange(1, 4), ' '.join(map(str, pts))))
    return lines


def show(c): return ('cplx ' + ' '.join('%s:%d' % (W(s), c[s]) for s in sorted(c))).rstrip()


def oracle(case, impl):
    vs, es = {}, {}; ivs, ies = {}, {}; inc = {}; k = 0
    for l in case:
        t = l.split(); o = t[0]
        if o == 'gv': vs[int(t[1])] = int(t[2]); continue
        if o == 'ge': a, b = sorted((int(t[1]), int(t[2]))); es[(a, b)] = int(t[3]); continue
        if k >= len(impl): return 'missing output'
        got = impl[k].rstrip(); k += 1
        if o == 'expand': exp = show(cliques(vs, es, max(int(t[1]), 1)))
        elif o == 'expandb': exp = show(cliques(vs, es, max(int(t[1]), 1), blocked_fn(t[2], int(t[3]))))
        elif o == 'edge':
            u, v, f, d = int(t[1]), int(t[2]), int(t[3]), int(t[4]); d = None if d < 0 else d
            if u == v:
                new = [] if (u,) in inc else [(u,)]; ivs[u] = f
            else:
                a, b = sorted((u, v)); ies[(a, b)] = f
                allc = cliques({x: 0 for x in ivs}, ies, d)
                new = sorted(s for s in allc if a in s and b in s and s not in inc)
            for s in new: inc[s] = f
            exp = ('added ' + ' '.join(W(s) for s in sorted(new))).rstrip()
        elif o == 'mfnd':
            for s in sorted(inc, key=len):
                if len(s) > 1: inc[s] = max([inc[s]] + [inc[s[:i] + s[i + 1:]] for i in range(len(s))])
            exp = 'mfnd'
        elif o == 'cplx':
            # the incremental route must give the one-shot clique complex of the inserted graph
            dd = [int(x.split()[4]) for x in case if x.startswith('edge')]
            want = cliques(ivs, ies, None if dd[0] < 0 else dd[0])
            if inc != want: return 'python bookkeeping of the incremental route differs from the clique complex (generator bug)'
            exp = show(want)
        elif o == 'inceq':
            exp = 'inceq dim=%d eq=1' % max([len(x) - 1 for x in inc] + [-1])
        elif o == 'ripsm':
            n, thr, dim = int(t[1]), int(t[2]), int(t[3]); ds = [int(x) for x in t[4:]]; e2 = {}; idx = 0
            for i in range(n):
                for j in range(i):
                    if ds[idx] <= thr: e2[(j, i)] = ds[idx]
                    idx += 1
            exp = show(cliques({v: 0 for v in range(n)}, e2, max(dim, 1)))
        elif o == 'ripsp':
            thr, dim = int(t[1]), int(t[2]); pts = [int(x) for x in t[3:]]
            e2 = {(j, i): abs(pts[i] - pts[j]) for i in range(len(pts)) for j in range(i) if abs(pts[i] - pts[j]) <= thr}
            exp = show(cliques({v: 0 for v in range(len(pts))}, e2, max(dim, 1)))
        else: continue
        if got != exp: return '%s: simplex tree gives %r, the clique complex is %r' % (l[:60], got[:200], exp[:200])
    return None


def run(ctx):
    ctx.rule = ('random weighted graphs (2-7 vertices with non-contiguous labels out of 0..8, isolated vertices, edge density 0.3/0.6/0.9, weights with ties): one-shot expansion for d in 0..5, '
                'blocker-driven expansion with the rules none / vertex-sum parity / size k / contains v, incremental insertion of the vertices and edges (in filtration order, or in random order followed by '
                'make_filtration_non_decreasing) with the reported added simplices, Rips from distance matrices and from points on a line; non-trivial = the graph has a triangle; distinct by text')
    vlib.lean_stage(ctx, MODULE, THEOREMS)
    src = os.path.join(vlib.VERIF, 'harness', 'hC04.cpp')
    exes, errs = vlib.build_many(ctx, [dict(name='hC04_full', src=src, defines=['OPTN=1']), dict(name='hC04_default', src=src, defines=['OPTN=0']), dict(name='hC04_int', src=src, defines=['OPTN=2'])])
    if errs:
        ctx.violation('harness-build', 'harness does not compile against /repo: ' + str(errs)[-1500:], found_input=False); return
    drv = [vlib.driver_path(), 'C04']
    thorough = ctx.tier == 'thorough'
    n = 2000 if thorough else 250
    def nontriv(c):
        es = set()
        for l in c:
            t = l.split()
            if t[0] == 'ge': es.add(tuple(sorted((int(t[1]), int(t[2])))))
        vs = {v for e in es for v in e}
        return any((a, b) in es and (a, c_) in es and (b, c_) in es for a, b, c_ in itertools.combinations(sorted(vs), 3))
    vlib.correspondence(ctx, 'full_featured', [exes['hC04_full']], drv, [gen_case(ctx.rng, True) for _ in range(n)], nontrivial=nontriv, oracle=oracle, shrink=False)
    vlib.correspondence(ctx, 'default', [exes['hC04_default']], drv, [gen_case(ctx.rng, False) for _ in range(n)], nontrivial=nontriv, oracle=oracle, shrink=False)
    # an integral Filtration_value (the value helpers have a separate branch for types without NaN); the Rips builders need floating point values
    if exes.get('hC04_int'):
        vlib.correspondence(ctx, 'full_featured_int_values', [exes['hC04_int']], drv, [[l for l in gen_case(ctx.rng, True) if not l.startswith('rips')] for _ in range(n)], nontrivial=nontriv, oracle=oracle, shrink=False)
    # exhaustive: all graphs on 4 vertices with weights in {1,2}, every edge order of up to 4 edges (thorough: 5 vertices sampled)
    ex = []
    pairs = list(itertools.combinations(range(4), 2))
    for mask in range(1, 1 << len(pairs)):
        chosen = [p for i, p in enumerate(pairs) if mask >> i & 1]
        for ws in itertools.product((1, 2), repeat=len(chosen)):
            if len(chosen) > (4 if not thorough else 6) and any(w != ws[0] for w in ws): continue      # dense graphs: constant weights only in the quick tier
            c = ['gv %d 0' % v for v in range(4)] + ['ge %d %d %d' % (a, b, w) for (a, b), w in zip(chosen, ws)] + ['expand 3', 'expandb 3 none 0', 'expandb 3 parity 0']
            if len(chosen) >= 5: c += ['expandb 3 mask %d' % m for m in (7, 11, 13, 14)]           # block exactly one triangle of {0,1,2,3}
            for v in range(4): c.append('edge %d %d 0 3' % (v, v))
            for (a, b), w in sorted(zip(chosen, ws), key=lambda x: x[1]): c.append('edge %d %d %d 3' % (a, b, w))
            c += ['cplx', 'inceq 3']; ex.append(c)
    vlib.correspondence(ctx, 'full_featured_all_graphs_on_4_vertices', [exes['hC04_full']], drv, ex, nontrivial=nontriv, oracle=oracle, shrink=False)
    ctx.extra['partial'] = PARTIAL


def replay_cmds(ctx, rp):
    k = 0 if rp.get('stream', '') == 'default' else 2 if 'int_values' in rp.get('stream', '') else 1
    exe, err = vlib.build_harness(ctx, 'hC04_%d' % k, os.path.join(vlib.VERIF, 'harness', 'hC04.cpp'), defines=['OPTN=%d' % k])
    return ([exe], [vlib.driver_path(), 'C04']) if exe else None
