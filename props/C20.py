"""C20 — Coxeter / Freudenthal triangulations: consistent face lattice and exact point location."""
import os, itertools
from fractions import Fraction as Fr
import vlib

MODULE = 'GudhiVerif.Properties.C20c'
THEOREMS = ['PermProto.shift_apply', 'PermProto.shift_ne', 'PermProto.verts_distinct', 'PermProto.verts_length', 'PermProto.verts_getD', 'PermProto.face_spec', 'PermProto.shift_perm',
            'C20.mem_choose', 'C20.choose_length', 'C20.faces_are_vertex_subsets', 'C20.vertsL_length', 'C20.cofaces_sound', 'C20.orderedPartitions_shape',
            'C20b.locate_v', 'C20b.locate_parts', 'C20b.levels_spec', 'C20b.index_in_unique_part', 'C20b.own_level_mem', 'C20b.parts_nonempty', 'C20b.last_part_contains_d',
            'C20c.mem_bits', 'C20c.vertex_minus_base_is_bits', 'C20c.orderedPartitions_valid', 'C20c.cofaces_complete', 'C20c.mem_assignments', 'C20c.blocks_mem_orderedPartitions']
PARTIAL = ['C20_coface_partial: the coface specification (exhaustive search) is proved sound and complete (cofaces_sound, cofaces_complete, blocks_mem_orderedPartitions: every representation with d in the last part whose vertices contain the simplex is listed); '
           'the C++ iterator chain (ordered set partitions x integer combinations) is tied to it by correspondence only',
           'C20_locate_partial: exact location is an executable specification (floor, fractional parts grouped), compared with the code and with an independent barycentric-coordinate oracle; Eigen\'s QR solve for transformed triangulations is trusted up to the documented tolerance']
ASSUMPTIONS = ['ambient dimensions 1-4; query points with dyadic lattice coordinates (denominators 1,2,4,8) so that the plain Freudenthal case is exact in double',
               'transformed triangulations: integer unimodular matrices / the Coxeter root matrix; the located simplex is compared after dropping vertices of barycentric weight <= 1e-9 (documented tolerance), weights must be >= -1e-7']


# ------------------------------------------------------------------------------------------------ independent Python specification
def verts(v, parts):
    d = len(v); out = []; cur = list(v)
    for p in parts:
        out.append(tuple(cur))
        for i in p:
            if i == d: cur = [x - 1 for x in cur]
            else: cur[i] += 1
    return out


def show_v(v): return ','.join(map(str, v))
def show_s(s): return ';'.join(show_v(v) for v in s)


def ordered_partitions(d, m):
    """ordered partitions of {0..d} into m+1 non-empty parts, d in the last part"""
    res = []
    for a in itertools.product(range(m + 1), repeat=d):
        full = list(a) + [m]
        parts = [[i for i in range(d + 1) if full[i] == b] for b in range(m + 1)]
        if all(parts): res.append(parts)
    return res


def cofaces(v, parts, m):
    d = len(v); vs = set(verts(v, parts)); res = []
    for b in itertools.product((0, 1), repeat=d):
        v2 = [x - y for x, y in zip(v, b)]
        for ps in ordered_partitions(d, m):
            tv = verts(v2, ps)
            if vs <= set(tv): res.append(sorted(tv))
    return res


def locate(nums, den):
    d = len(nums)
    v = [n // den for n in nums]; z = [n % den for n in nums] + [0]
    levels = sorted(set(z), reverse=True)
    parts = [[i for i in range(d + 1) if z[i] == l] for l in levels]
    return v, parts


def bary_ok(nums, den, v, parts):
    """the point is a convex combination of the vertices with all weights > 0 (exact)"""
    vs = verts(v, parts); x = [Fr(n, den) for n in nums]; k = len(vs) - 1
    # weights from the chain structure: t_p = common value of (x - v0) on part p, w_i = t_{i-1} - t_i
    t = []
    for p in parts[:-1]:
        vals = {x[j] - vs[0][j] for j in p}
        if len(vals) != 1: return False
        t.append(vals.pop())
    for j in parts[-1]:
        if j < len(nums) and x[j] != vs[0][j]: return False
    t.append(Fr(0))
    w = [1 - t[0]] + [t[i - 1] - t[i] for i in range(1, k + 1)]
    if any(wi <= 0 for wi in w) or sum(w) != 1: return False
    return all(sum(w[i] * vs[i][j] for i in range(k + 1)) == x[j] for j in range(len(nums)))


def simulate(case):
    out = []; cur = None
    for line in case:
        t = line.split(); o = t[0]
        if o == 'tri': out.append('tri')
        elif o == 'simp':
            d = int(t[1]); v = [int(x) for x in t[2:2 + d]]; k = 2 + d; np_ = int(t[k]); k += 1; parts = []
            for _ in range(np_):
                sz = int(t[k]); parts.append([int(x) for x in t[k + 1:k + 1 + sz]]); k += 1 + sz
            cur = (v, parts); out.append('simp dim=%d' % (len(parts) - 1))
        elif o == 'verts':
            vs = verts(*cur); out.append('verts %s distinct=%d' % (show_s(vs), len(set(vs)) == len(vs)))
        elif o == 'faces':
            k = int(t[1]); vs = verts(*cur)
            sets = sorted(show_s(sorted(c)) for c in itertools.combinations(vs, k + 1))
            out.append(('faces %d n=%d isface=1 %s' % (k, len(sets), ' '.join(sets))).rstrip())
        elif o == 'cofaces':
            m = int(t[1]); sets = sorted(show_s(c) for c in cofaces(cur[0], cur[1], m))
            out.append(('cofaces %d n=%d ok=1 %s' % (m, len(sets), ' '.join(sets))).rstrip())
        elif o in ('locate', 'locatev'):
            den = int(t[1]); nums = [int(x) for x in t[2:]]
            v, parts = locate(nums, den); cur = (v, parts)
            ok = bary_ok(nums, den, v, parts)
            vs = show_s(sorted(verts(v, parts)))
            if o == 'locate': out.append('locate v=%s parts=%s verts=%s weights-ok=%d' % (show_v(v), '|'.join(','.join(map(str, p)) for p in parts), vs, ok))
            else: out.append('locate verts=%s weights-ok=%d' % (vs, ok))
        else: out.append(None)
    return out


def oracle(case, impl):
    exp = simulate(case)
    if len(exp) != len(impl): return 'the library printed %d lines, the specification predicts %d' % (len(impl), len(exp))
    for k, (e, g) in enumerate(zip(exp, impl)):
        if e is not None and e.rstrip() != g.rstrip(): return 'line %d (%s): library %r, specification %r' % (k, case[k][:60], g[:220], e[:220])
    return None


# ------------------------------------------------------------------------------------------------ generators
def simp_line(v, parts):
    return 'simp %d %s %d %s' % (len(v), ' '.join(map(str, v)), len(parts), ' '.join('%d %s' % (len(p), ' '.join(map(str, p))) for p in parts))


def all_ordered_partitions(d):
    return [ps for m in range(d + 1) for ps in ordered_partitions(d, m)]


def lattice_ops(v, parts, d, coface_dims=None):
    k = len(parts) - 1
    lines = [simp_line(v, parts), 'verts'] + ['faces %d' % l for l in range(k + 1)]
    lines += ['cofaces %d' % m for m in (coface_dims if coface_dims is not None else range(k, d + 1))]
    return lines


def around_vertex(d, chunk=12):
    cases = []; cur = ['tri %d 0' % d]
    for i, ps in enumerate(all_ordered_partitions(d)):
        cur += lattice_ops([0] * d, ps, d)
        if (i + 1) % chunk == 0: cases.append(cur); cur = ['tri %d 0' % d]
    if len(cur) > 1: cases.append(cur)
    return cases


def gen_random_lattice(rng):
    d = rng.choice([1, 2, 2, 3, 3, 4]); lines = ['tri %d 0' % d]
    for _ in range(rng.randrange(1, 4)):
        m = rng.randrange(0, d + 1); ps = rng.choice(ordered_partitions(d, m))
        ps = [rng.sample(p, len(p)) for p in ps]          # order inside a part is free
        v = [rng.randrange(-3, 4) for _ in range(d)]
        dims = list(range(m, d + 1)) if d <= 3 else rng.sample(range(m, d + 1), min(2, d + 1 - m))
        lines += lattice_ops(v, ps, d, dims)
    return lines


def rand_point(rng, d):
    den = rng.choice([1, 2, 4, 8]); nums = []
    base = rng.randrange(0, den)
    for _ in range(d):
        r = rng.random()
        if r < 0.3: f = 0                       # on a lattice hyperplane
        elif r < 0.55: f = base                 # equal fractional parts (lower-dimensional face)
        else: f = rng.randrange(0, den)
        nums.append(rng.randrange(-3, 4) * den + f)
    return den, nums


def gen_locate(rng):
    d = rng.choice([1, 2, 3, 3, 4]); lines = ['tri %d 0' % d]
    for _ in range(rng.randrange(3, 9)):
        den, nums = rand_point(rng, d)
        lines.append('locate %d %s' % (den, ' '.join(map(str, nums))))
        k = len(locate(nums, den)[1]) - 1          # face_range / coface_range are documented for 0 <= dim(face) <= k <= dim(coface) <= d
        if rng.random() < 0.5: lines += ['verts', 'faces %d' % rng.randrange(0, k + 1)]
        if rng.random() < 0.3 and d <= 3: lines.append('cofaces %d' % rng.randrange(k, d + 1))
    return lines


def unimodular(rng, d):
    m = [[1 if i == j else 0 for j in range(d)] for i in range(d)]
    for _ in range(rng.randrange(0, 6)):
        i, j = rng.randrange(d), rng.randrange(d)
        if i != j:
            c = rng.choice([-2, -1, 1, 2]); m[i] = [a + c * b for a, b in zip(m[i], m[j])]
    if rng.random() < 0.3 and d > 1:
        i, j = rng.sample(range(d), 2); m[i], m[j] = m[j], m[i]
    return m


def gen_locate_affine(rng, kind):
    d = rng.choice([1, 2, 3, 3, 4]); scale = rng.choice(['1', '2', '0.5', '4'])
    if kind == 1:
        m = unimodular(rng, d); off = [rng.randrange(-3, 4) for _ in range(d)]
        sub = rng.choice([1, 1, 3, 4, 4, 5])        # 1: constructor with matrix and offset; 3/5: plain triangulation + change_matrix / change_offset in both orders; 4: change_offset only
        if sub == 4: m = [[1 if i == j else 0 for j in range(d)] for i in range(d)]
        lines = ['tri %d %d %s %s %s' % (d, sub, scale, ' '.join(str(x) for row in m for x in row), ' '.join(map(str, off)))]
    else:
        lines = ['tri %d 2 %s' % (d, scale)]
    for _ in range(rng.randrange(3, 9)):
        den, nums = rand_point(rng, d)
        lines.append('locatev %d %s' % (den, ' '.join(map(str, nums))))
    return lines


def run(ctx):
    thorough = ctx.tier == 'thorough'
    ctx.rule = ('exhaustive: every ordered partition of {0..d} with base vertex 0 for d <= 3 (d = 4 in the thorough tier): vertices, faces of every dimension (count, vertex subsets, is_face_of), cofaces of every dimension '
                '(dimension, validity, the simplex listed among their faces, is_face_of in both directions, complete and duplicate-free list against the exhaustive specification); random simplices with random base vertices and part orders in d <= 4; '
                'point location: dyadic points (denominators 1,2,4,8) with forced integer and equal fractional coordinates (faces of every dimension), plain Freudenthal compared exactly, '
                'integer unimodular matrices with offsets and scales {0.5,1,2,4} and the Coxeter root matrix compared after dropping weights <= 1e-9; non-trivial = a simplex of dimension >= 1 or a point on a proper face')
    vlib.lean_stage(ctx, MODULE, THEOREMS)
    exe, err = vlib.build_harness(ctx, 'hC20', os.path.join(vlib.VERIF, 'harness', 'hC20.cpp'))
    if exe is None:
        ctx.violation('harness-build', 'harness does not compile against /repo: ' + err[-1500:], found_input=False); return
    drv = [vlib.driver_path(), 'C20']
    nt = lambda c: True
    for d in ((1, 2, 3, 4) if thorough else (1, 2, 3)):
        vlib.correspondence(ctx, 'around_vertex_d%d' % d, [exe], drv, around_vertex(d), nontrivial=nt, keep_prefix=1, oracle=oracle)
    n = 600 if thorough else 60
    vlib.correspondence(ctx, 'random_simplices', [exe], drv, [gen_random_lattice(ctx.rng) for _ in range(n)], nontrivial=nt, keep_prefix=1, oracle=oracle)
    vlib.correspondence(ctx, 'locate_freudenthal', [exe], drv, [gen_locate(ctx.rng) for _ in range(n * 3)], nontrivial=nt, keep_prefix=1, oracle=oracle)
    vlib.correspondence(ctx, 'locate_affine_integer', [exe], drv, [gen_locate_affine(ctx.rng, 1) for _ in range(n * 2)], nontrivial=nt, keep_prefix=1, oracle=oracle)
    vlib.correspondence(ctx, 'locate_coxeter', [exe], drv, [gen_locate_affine(ctx.rng, 2) for _ in range(n * 2)], nontrivial=nt, keep_prefix=1, oracle=oracle)
    if thorough:
        sexe, err = vlib.build_harness(ctx, 'hC20_san', os.path.join(vlib.VERIF, 'harness', 'hC20.cpp'), sanitize=True)
        if sexe:
            vlib.correspondence(ctx, 'asan_ubsan', [sexe], drv, [gen_random_lattice(ctx.rng) for _ in range(100)] + [gen_locate(ctx.rng) for _ in range(200)], nontrivial=nt, keep_prefix=1, oracle=oracle)
    ctx.extra['partial'] = PARTIAL


def replay_cmds(ctx, rp):
    exe, err = vlib.build_harness(ctx, 'hC20', os.path.join(vlib.VERIF, 'harness', 'hC20.cpp'))
    return ([exe], [vlib.driver_path(), 'C20']) if exe else None
