"""C11 — Ripser computes the persistence of the Rips filtration, for every input form."""
import os, itertools
import vlib
from props import pyph

MODULE = 'GudhiVerif.Properties.C11b'
THEOREMS = ['cert_unique', 'BridgeP.reduceAllP_cert', 'BridgeP.any_cert_agrees_with_referenceP', 'CnsProto.binom_mono', 'CnsProto.getMax_spec', 'CnsProto.encode_lt', 'CnsProto.decode_encode',
            'ExpandProto.expand_words', 'ExpandProto.expand_values_clique', 'C11b.lowerRow_eq', 'C11b.lower_layout', 'C11b.upperRow1_eq', 'C11b.upper_layout']
PARTIAL = ['C11_engine_partial: the Ripser engine (implicit coboundary matrix, apparent / emergent pairs, clearing, union-find pass) is not modelled; the compared object is the specification of the property itself: '
           'the Rips flag filtration (proved to be the clique complex with maximal edge values) reduced by the reference reduction (proved to return the unique pairing) over Z_p',
           'C11_enclosing_partial: that the barcode does not change beyond the enclosing radius is not a Lean theorem; the model always uses the untruncated filtration, so the shortcut taken by ripser_auto is compared on every dense input without threshold']
ASSUMPTIONS = ['integer dissimilarities 1..6 with ties on 2-8 points (9 in the thorough tier); Euclidean inputs: integer points, values compared squared (order-isomorphic)',
               'value-level comparison: the multiset of (dimension, birth, death) with zero-length intervals dropped']

FORMS = ['full', 'lower', 'upper', 'sparse']
ENC = ['auto', 'auto', 'b64', 'b128', 'cns']


def gen_case(rng, maxn=8):
    n = rng.randrange(2, maxn + 1); lines = []
    eucl = rng.random() < 0.2
    if eucl:
        dd = rng.choice([1, 2, 2, 3]); pts = set()
        while len(pts) < n: pts.add(tuple(rng.randrange(12 if dd == 1 else 5) for _ in range(dd)))
        pts = list(pts)
        D = [[sum((a - b) ** 2 for a, b in zip(pts[i], pts[j])) for j in range(n)] for i in range(n)]
    else:
        vmax = rng.choice([2, 3, 6, 6, 9]); D = [[0] * n for _ in range(n)]
        for i in range(n):
            for j in range(i): D[i][j] = D[j][i] = rng.randrange(1, vmax + 1)
    lines.append('mat %d %s' % (n, ' '.join(str(D[i][j]) for i in range(n) for j in range(i))))
    if eucl: lines.append('pts %d %d %s' % (n, len(pts[0]), ' '.join(str(x) for p in pts for x in p)))
    vals = sorted({D[i][j] for i in range(n) for j in range(i)})
    for _ in range(rng.randrange(2, 6)):
        thr = rng.choice(['inf', 'inf', str(vals[0] - 1), str(rng.choice(vals)), str(vals[-1]), str(rng.choice(vals))])
        dim = rng.randrange(0, max(1, n - 1)) if rng.random() < 0.85 else n       # beyond n-2: clamped by the library
        p = rng.choice([2, 2, 3, 5, 7])
        form = 'eucl' if eucl and rng.random() < 0.6 else rng.choice(FORMS)
        enc = 'auto' if form == 'eucl' else rng.choice(ENC)
        lines.append('run %s %d %s %d %s' % (form, dim, thr, p, enc))
    return lines


def gen_boundary(rng):
    """sizes on the boundaries of the encoding dispatcher (bits per vertex x (dim_max + 2) close to 64 or 128, with and without room for the
    coefficient): many points, few short edges (a sparse graph under a small threshold), so that the complex stays small"""
    n, dim = rng.choice([(rng.randrange(17, 33), 10), (rng.randrange(17, 33), 11), (16, 14), (rng.randrange(9, 17), 14), (rng.randrange(129, 141), 6), (rng.randrange(129, 141), 14),
                         (rng.randrange(33, 65), 8), (rng.randrange(33, 65), 9), (rng.randrange(5, 9), 20)])
    D = [[0] * n for _ in range(n)]
    for i in range(n):
        for j in range(i): D[i][j] = D[j][i] = 50 + rng.randrange(3)
    short = set()
    verts = rng.sample(range(n), min(n, rng.randrange(4, 8)))
    for _ in range(rng.randrange(4, 12)):
        a, b = rng.sample(verts, 2); short.add((min(a, b), max(a, b)))
    for a, b in short: D[a][b] = D[b][a] = rng.randrange(1, 5)
    lines = ['mat %d %s' % (n, ' '.join(str(D[i][j]) for i in range(n) for j in range(i)))]
    for _ in range(rng.randrange(2, 5)):
        p = rng.choice([2, 3, 3, 5, 7, 19, 23, 31])
        lines.append('run %s %d %d %d auto' % (rng.choice(FORMS), rng.choice([dim, dim, dim - 1, dim + 1]), rng.choice([4, 4, 3, 2]), p))
    return lines


def oracle(case, impl):
    D = None; n = 0; k = 0
    for l in case:
        t = l.split()
        if t[0] == 'mat':
            n = int(t[1]); vals = [int(x) for x in t[2:]]; D = {}; q = 0
            for i in range(n):
                for j in range(i): D[(j, i)] = vals[q]; q += 1
        elif t[0] == 'run':
            dim = min(int(t[2]), n - 2); thr = None if t[3] == 'inf' else int(t[3]); p = int(t[4])
            edges = {e: v for e, v in D.items() if thr is None or v <= thr}
            cplx = pyph.flag_complex(n, edges, maxdim=dim + 1)
            bars = [b for b in pyph.bars_simplicial(cplx, p) if b[0] <= dim]
            exp = ('bars ' + pyph.show_bars(bars)).rstrip()
            if k >= len(impl) or impl[k].rstrip() != exp: return '%s: Ripser %r, Rips flag filtration + reduction %r' % (l, impl[k] if k < len(impl) else None, exp)
        k += 1
    return None


def valid(case): return case and case[0].startswith('mat') and all(l.split()[0] in ('run', 'pts') for l in case[1:]) and (not any(l.startswith('run eucl') for l in case) or (len(case) > 1 and case[1].startswith('pts')))


def run(ctx):
    thorough = ctx.tier == 'thorough'
    ctx.rule = ('random symmetric integer dissimilarities on 2-8 points (values 1..2/3/6/9, many ties) or squared Euclidean distances of integer points in dimension 1-3; 2-5 runs per matrix over the forms '
                '{full, lower, upper, sparse, Euclidean points}, thresholds {none, below the minimum, a random value, the maximum}, dim_max 0..n-2 (and beyond, clamped), moduli {2,3,5,7}, encodings {dispatcher, bitfield-64, bitfield-128, combinatorial number system}; '
                'non-trivial = a bar of dimension >= 1; distinct by text')
    vlib.lean_stage(ctx, MODULE, THEOREMS)
    src = os.path.join(vlib.VERIF, 'harness', 'hC11.cpp')
    specs = [dict(name='hC11', src=src), dict(name='hC11_hash', src=src, defines=['GUDHI_RIPSER_USE_HASHMAP_FOR_SPARSE_DIST_MAT'])]
    if thorough: specs.append(dict(name='hC11_san', src=src, sanitize=True))
    exes, errs = vlib.build_many(ctx, specs)
    if not exes.get('hC11'):
        ctx.violation('harness-build', 'harness does not compile against /repo: ' + str(errs)[-1500:], found_input=False); return
    drv = [vlib.driver_path(), 'C11']
    n = 1500 if thorough else 200
    nt = lambda c: any(' 1:' in l or ' 2:' in l for l in (x for x in simulate_bars(c)))
    for name, stream in (('hC11', 'default_build'), ('hC11_hash', 'sparse_hashmap_build'), ('hC11_san', 'asan_ubsan')):
        if not exes.get(name): continue
        cases = [gen_case(ctx.rng, 9 if thorough and i % 4 == 0 else 8) for i in range(n if name == 'hC11' else n // 3)]
        vlib.correspondence(ctx, stream, [exes[name]], drv, cases, nontrivial=nt, keep_prefix=1, oracle=oracle, valid=valid, timeout=240)
    # the encoding dispatcher at its size boundaries (many points, sparse graph)
    cases = [gen_boundary(ctx.rng) for _ in range(60 if thorough else 16)]
    vlib.correspondence(ctx, 'dispatcher_boundaries', [exes['hC11']], drv, cases, nontrivial=nt, keep_prefix=1, oracle=oracle, valid=valid, timeout=240)
    ctx.extra['partial'] = PARTIAL


def simulate_bars(case):
    out = []
    try:
        D = None; n = 0
        for l in case:
            t = l.split()
            if t[0] == 'mat':
                n = int(t[1]); vals = [int(x) for x in t[2:]]; D = {}; q = 0
                for i in range(n):
                    for j in range(i): D[(j, i)] = vals[q]; q += 1
            elif t[0] == 'run':
                dim = min(int(t[2]), n - 2); thr = None if t[3] == 'inf' else int(t[3])
                edges = {e: v for e, v in D.items() if thr is None or v <= thr}
                out.append(' ' + pyph.show_bars([b for b in pyph.bars_simplicial(pyph.flag_complex(n, edges, maxdim=dim + 1), 2) if b[0] <= dim]))
    except Exception:
        pass
    return out


def replay_cmds(ctx, rp):
    defs = ['GUDHI_RIPSER_USE_HASHMAP_FOR_SPARSE_DIST_MAT'] if 'hashmap' in rp.get('stream', '') else []
    exe, err = vlib.build_harness(ctx, 'hC11' + ('_hash' if defs else ''), os.path.join(vlib.VERIF, 'harness', 'hC11.cpp'), defines=defs)
    return ([exe], [vlib.driver_path(), 'C11']) if exe else None
