"""C14 — the specialised 1D and 2D persistence routines agree with generic persistence."""
import os, itertools
import vlib

MODULE = 'GudhiVerif.Properties.C14'
THEOREMS = ['C14.line_spec', 'C14.line_total', 'LineProto.run_spec', 'LineProto.down_spec', 'LineProto.up_spec', 'LineProto.step_spec',
            'LineProto.drain_spec', 'LineProto.fold_spec', 'BetaProto.ctx_R1_up', 'BetaProto.ctx_R1_down', 'BetaProto.ctx_R2', 'BetaProto.ctx_R2_mirror', 'BetaProto.ctx_R0_start', 'BetaProto.ctx_R2_start', 'BetaProto.ctx_R0_end', 'BetaProto.ctx_R2_end',
            'ReducePProto.reduceAt_wf', 'ReducePProto.low_axpy_lt']
PARTIAL = ['C14_rect_partial: no Lean model of fill_and_pair/primal/dual; the rectangle routine is compared with the executable specification '
           '(lower-star cubical complex + reference reduction), so every divergence is a failing input of the property']
ASSUMPTIONS = ['integer-valued inputs (exact in double/float)', 'the reference reduction of the cubical complex is the "generic persistence" of the property (cert_unique)']


def weak_orders(n):
    """all surjections {0..n-1} -> {0..k-1} for k <= n (every weak order of n cells, as value patterns)"""
    res = []
    for vals in itertools.product(range(n), repeat=n):
        k = max(vals) + 1
        if set(vals) == set(range(k)): res.append(vals)
    return res


def h0_line(v):
    """independent oracle: elder rule on the path graph; multiset of non-zero-length bars and the minimum"""
    n = len(v); order = sorted(range(n), key=lambda i: (v[i], i)); parent = {}; birth = {}
    def find(x):
        while parent[x] != x: parent[x] = parent[parent[x]]; x = parent[x]
        return x
    bars = []
    for i in order:
        parent[i] = i; birth[i] = v[i]
        for j in (i - 1, i + 1):
            if j in parent:
                a, b = find(i), find(j)
                if a == b: continue
                if birth[a] > birth[b]: a, b = b, a      # a older
                if birth[b] != v[i]: bars.append((birth[b], v[i]))
                parent[b] = a
    return sorted(bars), min(v)


def oracle(case, impl):
    k = 0
    for line in case:
        t = line.split(); o = t[0]
        if o.startswith('line'):
            v = [int(x) for x in t[1:]]
            if k + 1 >= len(impl): return 'missing output'
            sign = -1 if o == 'linegt' else 1
            bars, mn = h0_line([sign * x for x in v])
            got = sorted(tuple(sign * int(z) for z in p.split(':')) for p in impl[k + 1].split()[1:])
            if impl[k] != 'min %d' % (sign * mn): return '%s: %s, the global extremum is %d' % (line[:60], impl[k], sign * mn)
            if got != bars: return '%s: bars %s, H0 of the sublevel filtration is %s' % (line[:60], got, bars)
            k += 2
        elif o.startswith('rect'):
            k += 3
        else: k += 1
    return None


def gen_line(rng, maxlen=40, vals=10):
    n = rng.randrange(1, maxlen + 1); m = rng.choice([2, 3, 5, vals])
    return ' '.join(str(rng.randrange(m)) for _ in range(n))


def run(ctx):
    ctx.rule = ('1D: every weak order of sequences up to length 6 (7 in thorough) + random sequences (length <= 40, 2-10 distinct values, so ties everywhere) under 4 call forms '
                '(double/<, double/>, indices with a value comparator, float); 2D: every weak order of the cells of 2x2 (and 2x3, 3x2 grids in thorough; a random third of them in quick), random grids up to 7x7 (12x12 thorough), both output modes; '
                'non-trivial = at least 3 distinct values; distinct by input text')
    vlib.lean_stage(ctx, MODULE, THEOREMS)
    exe, err = vlib.build_harness(ctx, 'hC14', os.path.join(vlib.VERIF, 'harness', 'hC14.cpp'))
    if exe is None:
        ctx.violation('harness-build', 'harness does not compile against /repo: ' + err[-1500:], found_input=False); return
    drv = [vlib.driver_path(), 'C14']
    thorough = ctx.tier == 'thorough'
    rng = ctx.rng
    nontriv = lambda c: len(set(c[0].split()[1:])) >= 3
    # 1D exhaustive
    ex = []
    for n in range(1, (7 if thorough else 6) + 1):
        for w in weak_orders(n): ex.append(['line ' + ' '.join(map(str, w))])
    vlib.correspondence(ctx, 'line_exhaustive_weak_orders', [exe], drv, ex, nontrivial=nontriv, oracle=oracle, shrink=False)
    for form in ('linegt', 'lineidx', 'linefloat'):
        sub = ex if thorough else [c for c in ex if rng.random() < 0.25]
        vlib.correspondence(ctx, form + '_weak_orders', [exe], drv, [[form + c[0][4:]] for c in sub], nontrivial=nontriv, oracle=oracle, shrink=False)
    n = 3000 if thorough else 400
    for form in ('line', 'linegt', 'lineidx', 'linefloat'):
        cases = [[form + ' ' + gen_line(rng)] for _ in range(n)]
        if form == 'line': cases.append(['line ' + gen_line(rng, 20000, 50)] if True else [])
        vlib.correspondence(ctx, form + '_random', [exe], drv, cases, nontrivial=nontriv, oracle=oracle, shrink=False)
    # 2D
    ex2 = [['rect 2 2 ' + ' '.join(map(str, w))] for w in weak_orders(4)]
    w6 = weak_orders(6)
    for (r, c) in ((2, 3), (3, 2)):
        sub = w6 if thorough else [w for w in w6 if rng.random() < 0.15]
        ex2 += [['rect %d %d ' % (r, c) + ' '.join(map(str, w))] for w in sub]
    vlib.correspondence(ctx, 'rect_weak_orders', [exe], drv, ex2, nontrivial=nontriv, shrink=False)
    vlib.correspondence(ctx, 'rectidx_weak_orders', [exe], drv, [['rectidx' + c[0][4:]] for c in ex2 if thorough or rng.random() < 0.3], nontrivial=nontriv, shrink=False)
    cases = []
    for _ in range(1500 if thorough else 250):
        mx = 12 if thorough and rng.random() < 0.1 else 7
        r, c = rng.randrange(2, mx + 1), rng.randrange(2, mx + 1); m = rng.choice([2, 3, 4, 6, 10, 50])
        cases.append(['%s %d %d ' % (rng.choice(['rect', 'rectidx']), r, c) + ' '.join(str(rng.randrange(m)) for _ in range(r * c))])
    vlib.correspondence(ctx, 'rect_random', [exe], drv, cases, nontrivial=nontriv, shrink=False)
    if thorough:
        sexe, err = vlib.build_harness(ctx, 'hC14_san', os.path.join(vlib.VERIF, 'harness', 'hC14.cpp'), sanitize=True)
        if sexe:
            cases = [[rng.choice(['line', 'linegt', 'lineidx']) + ' ' + gen_line(rng)] for _ in range(500)]
            for _ in range(300):
                r, c = rng.randrange(2, 7), rng.randrange(2, 7)
                cases.append(['%s %d %d ' % (rng.choice(['rect', 'rectidx']), r, c) + ' '.join(str(rng.randrange(4)) for _ in range(r * c))])
            vlib.correspondence(ctx, 'asan_ubsan', [sexe], drv, cases, nontrivial=nontriv, oracle=oracle, shrink=False)
    ctx.extra['partial'] = PARTIAL


def replay_cmds(ctx, rp):
    exe, err = vlib.build_harness(ctx, 'hC14', os.path.join(vlib.VERIF, 'harness', 'hC14.cpp'))
    return ([exe], [vlib.driver_path(), 'C14']) if exe else None
