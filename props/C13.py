"""C13 — cubical complexes are valid filtered cell complexes with correct incidences."""
import os, itertools
import vlib

MODULE = 'GudhiVerif.Properties.C13'
THEOREMS = ['CubicalProto.bd_bd', 'CubicalProto.enum_eq_bd', 'CubicalProto.coef_bd_cons', 'CounterProto.pos_counter', 'CounterProto.counter_pos',
            'CounterProto.counterRev_length', 'CounterProto.low_lt', 'CubBridge.boundary_eq_enum', 'CubBridge.enc_valid', 'CubBridge.enc_inj',
            'CubBridge.boundary_in_range', 'CubBridge.boundary_dim', 'CubBridge.coef_cellBB', 'CubBridge.flat_bd_bd', 'CubBridge.boundary_psi', 'CubBridge.boundary_true_swap',
            'CubBridge.flat_bd_bd_all', 'CubBridge.boundary_coboundary', 'CubBridge.valueTop_mono', 'CubBridge.valueVert_mono', 'CubBridge.order_perm', 'CubBridge.order_nondecreasing',
            'CubBridge.order_faces_first_top', 'CubBridge.order_faces_first_vert', 'CubBridge.psi_dim', 'CubBridge.boundary_face_all', 'CubBridge.boundary_coboundary_all',
            'CubBridge.face_digits_gen', 'CubBridge.valueTop_mono_gen', 'CubBridge.valueVert_mono_gen', 'CubBridge.order_faces_first_gen', 'CubBridge.order_faces_first_top_gen', 'CubBridge.order_faces_first_vert_gen']
PARTIAL = ['C13_partial: for the position-level executable model dd = 0, boundary/coboundary duality, lower-star values and the total / non-decreasing / faces-first order are all proved, for every shape, every subset of periodic directions and both classes; outside Lean remain the geometric reading of the model (checked by the independent Python geometric specification and by the '
           'correspondence) and the persistence clause, compared with the reference reduction over Z2 and Z3']
ASSUMPTIONS = ['integer values, +-1000000 stands for +-infinity', 'periodic sides have length >= 3 (as the property states)']


def gen_case(rng, maxdim=3, maxside=4, bars=True):
    d = rng.randrange(1, maxdim + 1)
    per_class = rng.random() < 0.5
    mask = [1 if (per_class and rng.random() < 0.6) else 0 for _ in range(d)]
    top = rng.random() < 0.55
    if top: sizes = [rng.randrange(3, maxside + 1) if m else rng.randrange(1, maxside + 1) for m in mask]
    else: sizes = [rng.randrange(3, maxside + 1) if m else rng.randrange(2, maxside + 2) for m in mask]
    n = 1
    for s in sizes: n *= s
    m = rng.choice([2, 3, 5, 9])
    vals = [rng.randrange(m) for _ in range(n)]
    if rng.random() < 0.25:
        for _ in range(rng.randrange(1, 3)): vals[rng.randrange(n)] = rng.choice([1000000, -1000000])
    lines = ['cub %s %s %d %s %s %s' % ('top' if top else 'vtx', 'per' if per_class else 'plain', d, ' '.join(map(str, sizes)), ' '.join(map(str, mask)), ' '.join(map(str, vals)))]
    lines += ['cells', 'dd0', 'order']
    if bars: lines += ['bars 2', 'bars 3'] + (['bars %d' % rng.choice([5, 7, 11])] if rng.random() < 0.3 else [])
    return lines


def exhaustive(maxside, thorough):
    """every shape with <= 3 directions and side <= maxside, every periodic mask, both conventions (one value pattern each)"""
    cases = []
    import random
    r = random.Random(7)
    for d in (1, 2, 3):
        for sizes in itertools.product(range(1, maxside + 1), repeat=d):
            for mask in itertools.product((0, 1), repeat=d):
                if any(m and s < 3 for m, s in zip(mask, sizes)): continue
                for top in (True, False):
                    if not top and any(s < 2 and not m for s, m in zip(sizes, mask)): continue
                    n = 1
                    for s in sizes: n *= s
                    if n > (64 if thorough else 27): continue
                    vals = [r.randrange(3) for _ in range(n)]
                    cls = 'per' if any(mask) or r.random() < 0.3 else 'plain'
                    cases.append(['cub %s %s %d %s %s %s' % ('top' if top else 'vtx', cls, d, ' '.join(map(str, sizes)), ' '.join(map(str, mask)), ' '.join(map(str, vals))),
                                  'cells', 'dd0', 'order', 'bars 2', 'bars 3'])
    return cases


def tori():
    cases = []
    for sizes, mask in (([3, 3], [1, 1]), ([4, 3], [1, 1]), ([3, 3, 3], [1, 1, 1]), ([3, 3], [1, 0]), ([3], [1]), ([3, 4, 3], [1, 0, 1])):
        n = 1
        for s in sizes: n *= s
        cases.append(['cub top per %d %s %s %s' % (len(sizes), ' '.join(map(str, sizes)), ' '.join(map(str, mask)), ' '.join(['0'] * n)), 'dd0', 'bars 2', 'bars 3'])
    return cases


def spec_cells(t):
    """independent Python specification of the cubical complex of a `cub` line: dict pos -> (dim, value, faces, cofaces)"""
    top = t[1] == 'top'; d = int(t[3]); given = [int(x) for x in t[4:4 + d]]; mask = [int(x) for x in t[4 + d:4 + 2 * d]]; vals = [int(x) for x in t[4 + 2 * d:]]
    sizes = given if top else [g - (0 if m else 1) for g, m in zip(given, mask)]
    radix = [2 * s if m else 2 * s + 1 for s, m in zip(sizes, mask)]
    mult = [1] * d
    for i in range(1, d): mult[i] = mult[i - 1] * radix[i - 1]
    total = 1
    for r in radix: total *= r
    def digits(pos): return [(pos // mult[i]) % radix[i] for i in range(d)]
    def posof(c): return sum(c[i] * mult[i] for i in range(d))
    nv = [s if m else s + 1 for s, m in zip(sizes, mask)]
    cells = {}
    for pos in range(total):
        c = digits(pos); faces = set(); cof = set()
        for i in range(d):
            if c[i] % 2 == 1:
                for e in (c[i] - 1, (c[i] + 1) % radix[i] if mask[i] else c[i] + 1):
                    f = list(c); f[i] = e; faces.add(posof(f))
            else:
                for e in (c[i] - 1, c[i] + 1):
                    if mask[i]: e %= radix[i]
                    if 0 <= e < radix[i]:
                        f = list(c); f[i] = e; cof.add(posof(f))
        # value
        if top:
            opts = []
            for i in range(d):
                if c[i] % 2 == 1: opts.append([c[i]])
                else:
                    o = [e % radix[i] if mask[i] else e for e in (c[i] - 1, c[i] + 1)]
                    opts.append([e for e in o if 0 <= e < radix[i]])
            best = None
            for tc in itertools.product(*opts):
                idx = 0; m = 1
                for i in range(d): idx += (tc[i] // 2) * m; m *= sizes[i]
                v = vals[idx]; best = v if best is None else min(best, v)
        else:
            opts = []
            for i in range(d):
                if c[i] % 2 == 0: opts.append([c[i]])
                else: opts.append([c[i] - 1, (c[i] + 1) % radix[i] if mask[i] else c[i] + 1])
            best = None
            for tc in itertools.product(*opts):
                idx = 0; m = 1
                for i in range(d): idx += (tc[i] // 2) * m; m *= nv[i]
                v = vals[idx]; best = v if best is None else max(best, v)
        cells[pos] = (sum(1 for x in c if x % 2), best, faces, cof)
    return cells


def oracle(case, impl):
    spec = spec_cells(case[0].split())
    for line in impl:
        if line.startswith('c '):
            m = __import__('re').match(r'c (\d+) d=(\d+) v=(-?\d+) bd=\[([\d ]*)\] cbd=\[([\d ]*)\]', line)
            if not m: return 'unparsable cell line ' + line
            pos = int(m.group(1)); dim, val, faces, cof = spec[pos]
            if int(m.group(2)) != dim: return 'cell %d: dimension %s, %d odd coordinates' % (pos, m.group(2), dim)
            if int(m.group(3)) != val: return 'cell %d: value %s, the lower-star rule gives %d' % (pos, m.group(3), val)
            if set(map(int, m.group(4).split())) != faces: return 'cell %d: boundary %s, geometric faces %s' % (pos, m.group(4), sorted(faces))
            if set(map(int, m.group(5).split())) != cof: return 'cell %d: coboundary %s, geometric cofaces %s' % (pos, m.group(5), sorted(cof))
        if line.startswith('order'):
            o = [int(x) for x in line.split()[1:]]
            if o != sorted(spec, key=lambda q: (spec[q][1], spec[q][0], q)): return 'filtration order is not (value, dimension, position)'
    # known Betti numbers of the constant periodic grids of tori(): product of circles / intervals
    t = case[0].split()
    if t[2] == 'per' and set(t[4 + 2 * int(t[3]):]) == {'0'} and t[1] == 'top':
        d = int(t[3]); mask = [int(x) for x in t[4 + d:4 + 2 * d]]; k = sum(mask)
        from math import comb
        for line in impl:
            if line.startswith('bars'):
                got = [0] * (d + 1)
                for b in line.split()[1:]:
                    dim, bb, dd = b.split(':')
                    if dd == 'inf': got[int(dim)] += 1
                want = [comb(k, i) for i in range(d + 1)]
                if got != want: return 'Betti numbers %s, a product of %d circles has %s' % (got, k, want)
    for line in impl:
        if line.startswith('dd0') and line != 'dd0 1 1': return 'boundary of boundary is not zero on the real output: ' + line
    return None


def run(ctx):
    ctx.rule = ('random shapes (1-3 directions, sides 1-4, periodic sides 3-4, every periodic mask, both input conventions, plain and periodic class), values with ties and +-infinity; '
                'after construction: every cell (dimension, value, sorted boundary and coboundary), dd = 0 on the real output with enumeration signs and with compute_incidence_between_cells, '
                'the filtration order as a sequence, persistence over Z2, Z3 (sometimes Z5/7/11) against the reference reduction; plus all small shapes exhaustively and constant tori with known Betti numbers; '
                'non-trivial = at least 2 directions or a periodic direction, and at least 2 distinct values')
    vlib.lean_stage(ctx, MODULE, THEOREMS)
    exe, err = vlib.build_harness(ctx, 'hC13', os.path.join(vlib.VERIF, 'harness', 'hC13.cpp'))
    if exe is None:
        ctx.violation('harness-build', 'harness does not compile against /repo: ' + err[-1500:], found_input=False); return
    drv = [vlib.driver_path(), 'C13']
    thorough = ctx.tier == 'thorough'
    nontriv = lambda c: (int(c[0].split()[3]) >= 2 or ' per ' in c[0]) and len(set(c[0].split()[4 + 2 * int(c[0].split()[3]):])) >= 2
    cases = [gen_case(ctx.rng, 3, 4) for _ in range(1200 if thorough else 150)]
    vlib.correspondence(ctx, 'random_shapes', [exe], drv, cases, nontrivial=nontriv, keep_prefix=1, oracle=oracle)
    vlib.correspondence(ctx, 'all_small_shapes', [exe], drv, exhaustive(4 if thorough else 3, thorough), nontrivial=nontriv, keep_prefix=1, oracle=oracle)
    vlib.correspondence(ctx, 'tori', [exe], drv, tori(), nontrivial=lambda c: True, keep_prefix=1, oracle=oracle)
    if thorough:
        cases = [gen_case(ctx.rng, 4, 3) for _ in range(150)]
        vlib.correspondence(ctx, 'random_shapes_4d', [exe], drv, cases, nontrivial=nontriv, keep_prefix=1, oracle=oracle)
        sexe, err = vlib.build_harness(ctx, 'hC13_san', os.path.join(vlib.VERIF, 'harness', 'hC13.cpp'), sanitize=True)
        if sexe:
            cases = [gen_case(ctx.rng, 3, 4) for _ in range(300)]
            vlib.correspondence(ctx, 'asan_ubsan', [sexe], drv, cases, nontrivial=nontriv, keep_prefix=1, oracle=oracle)
    ctx.extra['partial'] = PARTIAL


def replay_cmds(ctx, rp):
    exe, err = vlib.build_harness(ctx, 'hC13', os.path.join(vlib.VERIF, 'harness', 'hC13.cpp'))
    return ([exe], [vlib.driver_path(), 'C13']) if exe else None
