"""C09 — general matrices behave as dense matrices, whatever the column representation."""
import os
import vlib

MODULE = 'GudhiVerif.Properties.C09'
THEOREMS = ['AxpyProto.coeff_axpy', 'ReducePProto.sorted_axpy', 'ReducePProto.canon_axpy', 'MtaProto.coeff_mta', 'MtaProto.coeff_merge', 'MtaProto.coeff_scale', 'MtaProto.sorted_scale',
            'ColProto.mem_xorMerge', 'HeapProto.popPivot_spec', 'HeapProto.coeff_append', 'HeapPProto.popPivot_spec', 'HeapPProto.takeRun_spec',
            'C09.zero_entry_coeff', 'C09.swap_rows_coeff']
PARTIAL = ['C09_families_partial: the ordered-merge arithmetic (add, multiply-source-and-add, multiply-target-and-add) and the heap pivot are proved equal to coefficient-wise arithmetic mod p; '
           'the lazy vector column, the unordered set, row access, the lazily applied row permutation and the column compression are covered by the dense model of the driver and the correspondence only']
ASSUMPTIONS = ['row indices queried through get_row have appeared in some column (rows beyond are not materialised by the library)',
               'compressed matrices: operations whose target is a zero column or shares its class with the source are excluded from the random streams (known finding)']
COLS = ['LIST', 'SET', 'HEAP', 'VECTOR', 'NAIVE_VECTOR', 'SMALL_VECTOR', 'UNORDERED_SET', 'INTRUSIVE_LIST', 'INTRUSIVE_SET']


def cfg(colt, z2=1, rows=0, intr=1, rmrows=0, rmcol=0, mapc=0, swaps=0, comp=0):
    d = ['COLT=%s' % colt, 'Z2ONLY=%d' % z2, 'ROWS=%d' % rows, 'INTRROWS=%d' % intr, 'RMROWS=%d' % rmrows, 'RMCOL=%d' % rmcol, 'MAPC=%d' % mapc, 'SWAPS=%d' % swaps, 'COMP=%d' % comp]
    name = '%s%s%s%s%s%s%s' % (colt.lower(), '' if z2 else '_zp', ('_rows' + ('i' if intr else 's') + ('r' if rmrows else '')) if rows else '', '_rm' if rmcol else '', '_map' if mapc else '', '_swaps' if swaps else '', '_comp' if comp else '')
    return name, d, dict(z2=bool(z2), rows=bool(rows), rm=bool(rmcol) and not comp, swaps=bool(swaps), comp=bool(comp), lazyrows=(colt == 'VECTOR' and bool(rows)), setrows=(bool(rows) and not intr), mapc=bool(mapc))


def quick_cfgs():
    out = [cfg(c, z2=i % 2) for i, c in enumerate(COLS)] + [cfg(c, z2=(i + 1) % 2) for i, c in enumerate(COLS)]
    out += [cfg('INTRUSIVE_LIST', z2=0, rows=1, intr=1, rmrows=1, rmcol=1), cfg('SET', z2=1, rows=1, intr=0, rmcol=1, mapc=1), cfg('VECTOR', z2=0, swaps=1, rows=1, intr=0),
            cfg('NAIVE_VECTOR', z2=1, swaps=1, mapc=1, rmcol=1), cfg('VECTOR', z2=1, swaps=1), cfg('VECTOR', z2=0, swaps=1, mapc=1), cfg('HEAP', z2=0, swaps=1), cfg('UNORDERED_SET', z2=1, swaps=1), cfg('INTRUSIVE_SET', z2=0, swaps=1), cfg('LIST', z2=0, comp=1, rows=1, rmrows=1), cfg('INTRUSIVE_LIST', z2=1, comp=1), cfg('UNORDERED_SET', z2=0, comp=1)]
    # the column order (operator<) of every column type is only used by the compressed matrix: one Z_p compressed instantiation per type
    out += [cfg(c, z2=0, comp=1) for c in COLS if c not in ('HEAP', 'UNORDERED_SET')] + [cfg('SET', z2=1, comp=1), cfg('VECTOR', z2=1, comp=1)]
    # rows stored as sets keep copies of the entries (coefficients included): Z_p, one per merge-based column type
    out += [cfg('LIST', z2=0, rows=1, intr=0), cfg('SET', z2=0, rows=1, intr=0), cfg('INTRUSIVE_LIST', z2=0, rows=1, intr=0, rmrows=1), cfg('INTRUSIVE_SET', z2=0, rows=1, intr=0, rmrows=1), cfg('NAIVE_VECTOR', z2=0, rows=1, intr=0)]
    return out


def thorough_cfgs():
    out = quick_cfgs(); seen = {c[0] for c in out}
    for c in COLS:
        for z2 in (0, 1):
            for extra in (dict(swaps=1), dict(swaps=1, mapc=1, rmcol=1), dict(rmcol=1, mapc=1), dict(comp=1)) + ((dict(rows=1, intr=1), dict(rows=1, intr=0, rmrows=1), dict(rows=1, intr=1, swaps=1, rmcol=1)) if c != 'HEAP' else ()):
                if c == 'HEAP' and extra.get('comp'): continue
                x = cfg(c, z2=z2, **extra)
                if x[0] not in seen: out.append(x); seen.add(x[0])
    return out


class Dense:
    def __init__(self, p, comp): self.p = p; self.comp = comp; self.cols = []; self.cls = []

    def classes(self):
        return self.cls


def gen_case(rng, caps):
    p = 2 if caps['z2'] else rng.choice([3, 5, 5, 7])
    R = rng.randrange(3, 6)
    lines = ['field %d %d' % (p, 1 if caps['comp'] else 0)]
    dense = []          # python dense reference, used to avoid the excluded compressed operations
    cls = []            # class representative per column (compression)
    def ins():
        col = {r: rng.randrange(1, p) for r in range(R) if rng.random() < 0.5}
        if rng.random() < 0.15: col = {}
        if dense and rng.random() < 0.25: col = dict(dense[rng.randrange(len(dense))])     # duplicate column (classes of the compressed variant)
        elif dense and p > 2 and rng.random() < 0.3:
            # same support as an existing column, other coefficients (a multiple, or one coefficient changed): never the same class
            col = dict(dense[rng.randrange(len(dense))])
            if col:
                if rng.random() < 0.5: c = rng.randrange(2, p); col = {r: v * c % p for r, v in col.items()}
                else: r = rng.choice(sorted(col)); col[r] = (col[r] + rng.randrange(1, p - 1)) % p or 1
        dense.append(col); lines.append(('inscol ' + ' '.join('%d:%d' % kv for kv in sorted(col.items()))).rstrip())
    for _ in range(rng.randrange(2, 5)): ins()
    lines.append('obs %d' % R)
    if rng.random() < 0.2 and not caps.get('rm'): lines.append('dup 5')      # the same matrix rebuilt through the constructor taking all columns (rows beyond the number of columns included)
    def same_class(a, b): return caps['comp'] and dense[a] == dense[b] and dense[a]
    def apply(t, newcol):
        old = dense[t]
        for j in range(len(dense)):
            if j == t or (caps['comp'] and old and dense[j] == old): dense[j] = dict(newcol)
    for _ in range(rng.randrange(3, 16)):
        n = len(dense); o = rng.random()
        s, t = rng.randrange(n), rng.randrange(n)
        c = rng.choice([0, 1, 1, 2, p - 1, rng.randrange(p)]) % p
        if o < 0.62:
            op = rng.choice(['add', 'mta', 'msa'])
            if s == t and caps['comp']: continue   # compressed matrices: a column of the target's class as source is part of a known finding
            if caps['comp'] and (not dense[t] or same_class(s, t)): continue   # known finding: null / shared representative
            if op == 'add': new = {r: (dense[t].get(r, 0) + dense[s].get(r, 0)) % p for r in range(R)}; lines.append('add %d %d' % (s, t))
            elif op == 'mta': new = {r: (dense[t].get(r, 0) * c + dense[s].get(r, 0)) % p for r in range(R)}; lines.append('mta %d %d %d' % (s, c, t))
            else: new = {r: (dense[t].get(r, 0) + c * dense[s].get(r, 0)) % p for r in range(R)}; lines.append('msa %d %d %d' % (c, s, t))
            apply(t, {r: v for r, v in new.items() if v})
        elif o < 0.74 and not caps['comp'] and not caps.get('lazyrows'):   # lazily erased entries stay in the rows (known finding)
            r = rng.randrange(R); lines.append('zeroent %d %d' % (t, r)); dense[t].pop(r, None)
        elif o < 0.8 and not caps['comp']:
            lines.append('zerocol %d' % t); dense[t] = {}
        elif o < 0.9 and caps['swaps']:
            if rng.random() < 0.5:
                a, b = rng.sample(range(R), 2)
                if rng.random() < 0.1: b = a                      # a row swapped with itself is the identity
                lines.append('swaprow %d %d' % (a, b))
                for col in dense:
                    va, vb = col.pop(a, None), col.pop(b, None)
                    if va is not None: col[b] = va
                    if vb is not None: col[a] = vb
            elif s != t and not caps['rows']:   # with row access a column swap leaves stale column indices behind (known finding)
                lines.append('swapcol %d %d' % (s, t)); dense[s], dense[t] = dense[t], dense[s]
            else: continue
        elif o < 0.95 and caps['rm'] and n > 1:
            lines.append('rmlast'); dense.pop()
        elif n < 5: ins()
        else: continue
        if rng.random() < 0.6: lines.append('obs %d' % R)
        if caps['rows'] and not caps['comp'] and rng.random() < 0.4:
            used = max([max(col) for col in dense if col] + [0]) + 1
            if any(dense): lines.append('rows %d' % used)
    lines.append('obs %d' % R)
    return lines


def exhaustive(caps, p):
    """all operation sequences of length <= 3 from a small alphabet on a fixed 3x3 matrix"""
    import itertools
    base = ['field %d %d' % (p, 1 if caps['comp'] else 0), 'inscol 0:1 1:1', 'inscol 1:1 2:%d' % (p - 1), 'inscol 0:1']
    alpha = []
    for s in range(3):
        for t in range(3):
            if s != t:
                alpha += ['add %d %d' % (s, t), 'mta %d %d %d' % (s, p - 1, t), 'msa %d %d %d' % (p - 1, s, t), 'mta %d 0 %d' % (s, t)]
    if not caps['comp']: alpha += ['zeroent 0 1', 'zeroent 1 0', 'zerocol 2', 'zerocol 0']
    if caps['swaps']: alpha += ['swaprow 0 2', 'swapcol 0 1']
    cases = []
    for k in (1, 2, 3):
        for seq in itertools.product(alpha, repeat=k):
            c = list(base)
            for op in seq: c += [op, 'obs 3']
            cases.append(c)
    return cases


def oracle(case, impl):
    """dense python matrix: every printed column must read back exactly"""
    p = 2; comp = False; dense = []; k = 0
    def apply(t, new):
        old = dense[t]
        for j in range(len(dense)):
            if j == t or (comp and old and dense[j] == old): dense[j] = dict(new)
    for line in case:
        t = line.split(); o = t[0]
        if o == 'field': p = int(t[1]); comp = t[2] == '1'; dense = []; k += 1
        elif o == 'inscol': dense.append({int(e.split(':')[0]): int(e.split(':')[1]) % p for e in t[1:] if int(e.split(':')[1]) % p}); k += 1
        elif o == 'add': s_, t_ = int(t[1]), int(t[2]); apply(t_, {r: v for r, v in ((r, (dense[t_].get(r, 0) + dense[s_].get(r, 0)) % p) for r in set(dense[t_]) | set(dense[s_])) if v}); k += 1
        elif o == 'mta': s_, c, t_ = int(t[1]), int(t[2]) % p, int(t[3]); apply(t_, {r: v for r, v in ((r, (dense[t_].get(r, 0) * c + dense[s_].get(r, 0)) % p) for r in set(dense[t_]) | set(dense[s_])) if v}); k += 1
        elif o == 'msa': c, s_, t_ = int(t[1]) % p, int(t[2]), int(t[3]); apply(t_, {r: v for r, v in ((r, (dense[t_].get(r, 0) + c * dense[s_].get(r, 0)) % p) for r in set(dense[t_]) | set(dense[s_])) if v}); k += 1
        elif o == 'zeroent': dense[int(t[1])].pop(int(t[2]), None); k += 1
        elif o == 'zerocol': dense[int(t[1])] = {}; k += 1
        elif o == 'rmlast': dense.pop(); k += 1
        elif o == 'swapcol': a, b = int(t[1]), int(t[2]); dense[a], dense[b] = dense[b], dense[a]; k += 1
        elif o == 'swaprow':
            a, b = int(t[1]), int(t[2])
            for col in dense:
                va, vb = col.pop(a, None), col.pop(b, None)
                if va is not None: col[b] = va
                if vb is not None: col[a] = vb
            k += 1
        elif o == 'obs':
            n = int(t[1])
            for j, col in enumerate(dense):
                exp = 'col %d [%s] zero=%d ze=%s' % (j, ' '.join('%d:%d' % kv for kv in sorted(col.items())), 0 if col else 1, ' '.join('0' if r in col else '1' for r in range(n)))
                if k >= len(impl) or impl[k].rstrip() != exp.rstrip(): return 'after %s: column reads %r, dense matrix says %r' % (case[max(0, case.index(line) - 1)], impl[k] if k < len(impl) else None, exp)
                k += 1
        elif o == 'rows':
            n = int(t[1])
            for r in range(n):
                exp = 'row %d [%s]' % (r, ' '.join('%d:%d' % (j, col[r]) for j, col in enumerate(dense) if r in col))
                if k >= len(impl) or impl[k].rstrip() != exp.rstrip(): return 'row access: %r, dense matrix says %r' % (impl[k] if k < len(impl) else None, exp)
                k += 1
        else: k += 1
    return None


def run(ctx):
    thorough = ctx.tier == 'thorough'
    ctx.rule = ('random operation sequences (3-15 operations after 2-4 inserted columns, 3-5 rows): add, multiply-target-and-add, multiply-source-and-add with coefficients 0, 1, 2, p-1, random; zero_entry (also of zero entries), '
                'zero_column, row/column swaps, remove_last, later insertions (duplicates and empty columns); after 60% of the operations the full content of every column, is_zero_column, is_zero_entry of every position, '
                'and the rows when row access is on; one stream per instantiation (9 column types x Z2/Zp + row access / removable / map container / swaps / compression variants); exhaustive sequences of length <= 3 on a fixed 3x3 matrix; '
                'non-trivial = at least 4 arithmetic operations; distinct by text')
    vlib.lean_stage(ctx, MODULE, THEOREMS)
    cfgs = thorough_cfgs() if thorough else quick_cfgs()
    src = os.path.join(vlib.VERIF, 'harness', 'hC09.cpp')
    exes, errs = vlib.build_many(ctx, [dict(name='hC09_' + n, src=src, defines=d) for n, d, c in cfgs])
    drv = [vlib.driver_path(), 'C09']
    n = 500 if thorough else 100
    nontriv = lambda c: sum(1 for l in c if l.split()[0] in ('add', 'mta', 'msa')) >= 4
    live = {}
    for name, d, caps in cfgs:
        exe = exes.get('hC09_' + name)
        if exe is None: continue
        live[name] = [exe]
        cases = [gen_case(ctx.rng, caps) for _ in range(n)]
        vlib.correspondence(ctx, name, [exe], drv, cases, nontrivial=nontriv, keep_prefix=1, oracle=oracle)
    for name, d, caps in cfgs:
        if name in ('heap_zp', 'vector', 'unordered_set_zp', 'intrusive_set_zp_swaps') and name in live:
            vlib.correspondence(ctx, name + '_exhaustive_len3', live[name], drv, exhaustive(caps, 2 if caps['z2'] else 3), keep_prefix=4, oracle=oracle)
    # release builds (-O2 -DNDEBUG) of the lazily erasing and lazily normalising columns, and of two others: nothing the property relies on may live inside GUDHI_CHECK
    rel = [c for c in cfgs if c[0].startswith('vector') or c[0].startswith('heap')][: (12 if thorough else 4)] + [c for c in cfgs if c[0].startswith(('set', 'intrusive_list'))][:2]
    rexes, rerrs = vlib.build_many(ctx, [dict(name='hC09_' + n_ + '_rel', src=src, defines=list(d) + ['NDEBUG'], opt='-O2') for n_, d, c in rel])
    for name, d, caps in rel:
        e = rexes.get('hC09_' + name + '_rel')
        if e: vlib.correspondence(ctx, name + '_release', [e], drv, [gen_case(ctx.rng, caps) for _ in range(n)], keep_prefix=1, oracle=oracle)
    vlib.run_known_witnesses(ctx, live, drv, oracle)
    ctx.extra['instantiations_that_do_not_compile'] = {k: v[-200:] for k, v in errs.items()}
    if not live: ctx.violation('harness-build', 'no instantiation compiles: ' + str(errs)[-1000:], found_input=False)
    if thorough:
        san = cfgs[:9]
        sexes, serrs = vlib.build_many(ctx, [dict(name='hC09_' + n + '_san', src=src, defines=d, sanitize=True) for n, d, c in san])
        for name, d, caps in san:
            e = sexes.get('hC09_' + name + '_san')
            if e: vlib.correspondence(ctx, name + '_asan_ubsan', [e], drv, [gen_case(ctx.rng, caps) for _ in range(200)], keep_prefix=1, oracle=oracle)
    ctx.extra['partial'] = PARTIAL


def replay_cmds(ctx, rp):
    stream = rp.get('stream', ''); rel = stream.endswith('_release')
    name = stream.replace('_asan_ubsan', '').replace('_exhaustive_len3', '').replace('_release', '')
    for n, d, caps in thorough_cfgs():
        if n == name:
            exe, err = vlib.build_harness(ctx, 'hC09_' + n + ('_rel' if rel else ''), os.path.join(vlib.VERIF, 'harness', 'hC09.cpp'), defines=list(d) + (['NDEBUG'] if rel else []), opt='-O2' if rel else '-O1')
            return ([exe], [vlib.driver_path(), 'C09']) if exe else None
    return None
