"""Abstract filtered complex (dict: sorted vertex tuple -> value) = the specification side of the simplex-tree
properties, in Python: used by the generators to pick applicable operations and as the independent oracle that
re-simulates a history and predicts every observation line the real tree must print."""
import itertools


def faces(s):
    for k in range(1, len(s) + 1):
        for c in itertools.combinations(s, k):
            yield c


def W(s): return ','.join(str(v) for v in s)


class Ref:
    def __init__(self): self.c = {}

    def copy(self):
        r = Ref(); r.c = dict(self.c); return r

    # ---- mutators, each returns the line the harness/driver prints
    def ins(self, f, s):
        s = tuple(sorted(set(s)))
        old = self.c.get(s)
        new = old is None
        nonnull = new or f < old
        # insert_simplex_raw also creates missing prefixes with value f
        for k in range(1, len(s)):
            self.c.setdefault(s[:k], f)
        if new or f < old: self.c[s] = f
        return 'ins new=%d h=%d' % (new, nonnull)

    def insf(self, f, s):
        s = tuple(sorted(set(s)))
        old = self.c.get(s)
        new = old is None
        nonnull = new or f < old
        for t in faces(s):
            o = self.c.get(t)
            if o is None or f < o: self.c[t] = f
        return 'insf new=%d h=%d' % (new, nonnull)

    def batch(self, f, vs):
        for v in sorted(set(vs)): self.c.setdefault((v,), f)
        return 'batch'

    def rmmax(self, s):
        del self.c[tuple(sorted(s))]; return 'rmmax'

    def prunef(self, f):
        n = len(self.c)
        self.c = {s: v for s, v in self.c.items() if not v > f}
        return 'prunef %d' % (len(self.c) != n)

    def pruned(self, d):
        n = len(self.c)
        self.c = {s: v for s, v in self.c.items() if len(s) - 1 <= d}
        return 'pruned %d' % (len(self.c) != n)

    def clear(self):
        self.c = {}; return 'clear'

    def assign(self, f, s):
        self.c[tuple(sorted(s))] = f; return 'assign'

    def mfnd(self):
        changed = False
        for s in sorted(self.c, key=len):
            m = self.c[s]
            for i in range(len(s)):
                if len(s) > 1: m = max(m, self.c[s[:i] + s[i + 1:]])
            if m != self.c[s]: self.c[s] = m; changed = True
        return 'mfnd %d' % changed

    def extend(self):
        """cone filtration of the vertex function, values in units of 1/D (spec, not the algorithm)"""
        vv = {s[0]: f for s, f in self.c.items() if len(s) == 1}
        m, M = min(vv.values()), max(vv.values())
        D = (M - m) or 1
        c = max(vv) + 1
        new, dec = {}, {}
        for s in self.c:
            up = max(vv[v] for v in s); dn = min(vv[v] for v in s)
            new[s] = -2 * D + ((up - m) if M != m else 0); dec[s] = '%d/0' % up
            new[s + (c,)] = 2 * D - ((dn - m) if M != m else 0); dec[s + (c,)] = '%d/1' % dn
        new[(c,)] = -3 * D; dec[(c,)] = 'nan/2'
        self.c = new
        return ['extend %d %d' % (m, M), 'decode ' + ' '.join('%s:%s' % (W(s), dec[s]) for s in sorted(dec))]

    # ---- queries
    def is_maximal(self, s):
        ss = set(s)
        return not any(len(t) > len(s) and ss <= set(t) for t in self.c)

    def maximal(self): return [s for s in self.c if self.is_maximal(s)]

    def closed(self): return all(t in self.c for s in self.c for t in faces(s))

    def monotone(self): return all(self.c[t] <= self.c[s] for s in self.c for t in faces(s))

    def dim(self): return max([len(s) for s in self.c], default=0) - 1

    def cplx_line(self):
        return ('cplx ' + ' '.join('%s:%d' % (W(s), self.c[s]) for s in sorted(self.c))).rstrip()

    def order_line(self):
        # (value, reverse lexicographic on the decreasing vertex sequences; a proper prefix first)
        return ('order ' + ' '.join('%s:%d' % (W(s), self.c[s]) for s in sorted(self.c, key=lambda s: (self.c[s], tuple(reversed(s)))))).rstrip()

    def obs_lines(self):
        out = [self.cplx_line()]
        d = self.dim()
        by = [sum(1 for s in self.c if len(s) == k + 1) for k in range(d + 1)]
        out.append(('n %d dim %d bydim %s' % (len(self.c), d, ' '.join(map(str, by)))).rstrip())
        out.append(('verts ' + ' '.join(str(s[0]) for s in sorted(self.c) if len(s) == 1)).rstrip())
        out.append(('skel1 ' + ' '.join(W(s) for s in sorted(self.c) if len(s) <= 2)).rstrip())
        out.append(('skel2 ' + ' '.join(W(s) for s in sorted(self.c) if len(s) <= 3)).rstrip())
        for s in sorted(self.c):
            ss = set(s)
            bd = []
            if len(s) > 1:
                for i in range(len(s)):
                    t = s[:i] + s[i + 1:]
                    bd.append('%s:%d/%d' % (W(t), self.c.get(t, -999), s[i]))
            star = [t for t in sorted(self.c) if ss <= set(t)]
            c1 = [t for t in star if len(t) == len(s) + 1]
            c2 = [t for t in star if len(t) == len(s) + 2]
            out.append('s %s f=%d d=%d bd=[%s] star=[%s] cof1=[%s] cof2=[%s]' % (
                W(s), self.c[s], len(s) - 1, ' '.join(bd), ' '.join(map(W, star)), ' '.join(map(W, c1)), ' '.join(map(W, c2))))
        out += ['nonmem 0', 'eq 1']
        return out


class Multi:
    """three independent objects (C15); the single-tree operations act on the selected one"""
    def __init__(self): self.rs = [Ref(), Ref(), Ref()]; self.cur = 0; self.wv = 4; self.wf = 8

    @property
    def r(self): return self.rs[self.cur]

    def ser_bytes(self, r):
        import struct
        vfmt = {2: '<h', 4: '<i', 8: '<q'}[self.wv]; ffmt = {0: None, 4: '<f', 8: '<d'}[self.wf]
        kids = {}
        for s_ in r.c: kids.setdefault(s_[:-1], []).append(s_)
        def rec(prefix):
            ch = sorted(kids.get(prefix, []))
            out = struct.pack(vfmt, len(ch))
            for c in ch:
                out += struct.pack(vfmt, c[-1])
                if ffmt: out += struct.pack(ffmt, float(r.c[c]))
            for c in ch:
                out += rec(c) if c in kids else struct.pack(vfmt, 0)
            return out
        return rec(())

    def slot_op(self, o, a):
        """returns the expected line(s) for a multi-object operation, or None if `o` is not one"""
        rs = self.rs
        if o == 'sel': self.cur = a[0]; return ['sel']
        if o == 'widths': self.wv, self.wf = a; return ['widths']
        if o in ('copy', 'cassign'): rs[a[1]] = rs[a[0]].copy(); return [o]
        if o in ('mctor', 'massign'):
            x = rs[a[0]].copy(); rs[a[0]] = Ref(); rs[a[1]] = x; return [o + ' src-empty=1']
        if o == 'swap': rs[a[0]], rs[a[1]] = rs[a[1]], rs[a[0]]; return ['swap']
        if o == 'destroy': rs[a[0]] = Ref(); return ['destroy']
        if o == 'eq': return ['eq %d' % (rs[a[0]].c == rs[a[1]].c)]
        if o == 'ser':
            bts = self.ser_bytes(self.r); n = len(self.r.c)
            assert len(bts) == self.wv * (2 * n + 1) + self.wf * n
            return ['ser %d %s' % (len(bts), bts.hex())]
        if o == 'deser':
            if a[2] == 0: rs[a[0]] = self.r.copy(); return ['deser ok']
            rs[a[0]] = Ref(); return ['deser invalid_argument']
        if o == 'text': rs[a[0]] = self.r.copy(); return ['text']
        if o == 'thr': return ['thr agree=1']
        return None


def simulate(case):
    """expected output lines of a history (None for lines the oracle does not predict)"""
    m = Multi(); out = []
    for line in case:
        t = line.split(); o = t[0]
        a = [int(x) for x in t[1:]]
        r = m.r
        so = m.slot_op(o, a)
        if so is not None: out += so
        elif o == 'univ': out.append('univ')
        elif o == 'ins': out.append(r.ins(a[0], a[1:]))
        elif o == 'insf': out.append(r.insf(a[0], a[1:]))
        elif o == 'batch': out.append(r.batch(a[0], a[1:]))
        elif o == 'rmmax': out.append(r.rmmax(a))
        elif o == 'prunef': out.append(r.prunef(a[0]))
        elif o == 'pruned': out.append(r.pruned(a[0]))
        elif o == 'clear': out.append(r.clear())
        elif o == 'assign': out.append(r.assign(a[0], a[1:]))
        elif o == 'mfnd': out.append(r.mfnd())
        elif o == 'extend': out += r.extend()
        elif o == 'obs': out += r.obs_lines()
        elif o == 'cplx': out.append(r.cplx_line())
        elif o == 'dim': out.append('dim %d' % r.dim())
        elif o == 'order': out.append(r.order_line())
        elif o == 'orderinf':
            kept = [x for x in r.order_line().split()[1:] if int(x.rsplit(':', 1)[1]) < a[0]]
            out.append('orderinf ' + ' '.join(kept) if kept else 'orderinf none')
        elif o == 'find':
            v = r.c.get(tuple(sorted(a))); out.append('find none' if v is None else 'find %d' % v)
        elif o == 'star':
            ss = set(a); out.append(('star ' + ' '.join(W(t) for t in sorted(r.c) if ss <= set(t))).rstrip())
        else: out.append(None)
    return out


def oracle(case, impl):
    exp = simulate(case)
    if len(exp) != len(impl):
        return 'the real tree printed %d lines, the abstract complex predicts %d' % (len(impl), len(exp))
    for k, (e, g) in enumerate(zip(exp, impl)):
        if e is not None and e.rstrip() != g.rstrip():
            return 'line %d: real tree %r, abstract complex %r' % (k, g[:160], e[:160])
    return None


def contiguous(r):
    vs = sorted(s[0] for s in r.c if len(s) == 1)
    return vs == list(range(len(vs)))


def valid_contig(case): return valid(case, True)


def valid(case, contig=False):
    """does the history respect the documented preconditions (used when shrinking a failing history)"""
    m = Multi()
    try:
        for line in case:
            t = line.split(); o = t[0]; a = [int(x) for x in t[1:]]
            if o in ('sel', 'copy', 'cassign', 'mctor', 'massign', 'swap', 'destroy', 'eq', 'deser', 'text') and any(not 0 <= x <= 2 for x in (a[:2] if o in ('copy', 'cassign', 'mctor', 'massign', 'swap', 'eq') else a[:1])): return False
            if o in ('mctor', 'massign') and a[0] == a[1]: return False
            if m.slot_op(o, a) is not None: continue
            r = m.r
            if o == 'rmmax':
                s = tuple(sorted(a))
                if s not in r.c or not r.is_maximal(s): return False
            if o == 'ins':
                s = tuple(sorted(set(a[1:])))
                if any(s[:i] + s[i + 1:] not in r.c for i in range(len(s))) and len(s) > 1: return False
            if o in ('assign', 'star') and tuple(sorted(a[1:] if o == 'assign' else a)) not in r.c: return False
            simulate_one(r, line)
            if contig and not all(contiguous(x) for x in m.rs): return False
        return True
    except Exception:
        return False


def simulate_one(r, line):
    t = line.split(); o = t[0]; a = [int(x) for x in t[1:]]
    if o == 'ins': r.ins(a[0], a[1:])
    elif o == 'insf': r.insf(a[0], a[1:])
    elif o == 'batch': r.batch(a[0], a[1:])
    elif o == 'rmmax': r.rmmax(a)
    elif o == 'prunef': r.prunef(a[0])
    elif o == 'pruned': r.pruned(a[0])
    elif o == 'clear': r.clear()
    elif o == 'assign': r.assign(a[0], a[1:])
    elif o == 'mfnd': r.mfnd()
    elif o == 'extend': r.extend()
