"""C08 — representative cycles really represent their bars."""
import vlib
from props import pmgen, C05

C05.THEOREMS_BY['C08'] = ['rep_is_cycle', 'rep_youngest', 'rep_dies', 'low_mulVec_upper', 'cert_unique', 'chain_cert', 'chain_final', 'cycle_pivot_not_in_H',
                          'InPlace.reduceAll_cert', 'BridgeP.reduceAllP_cert']
C05.PARTIAL_BY['C08'] = ['C08_basis_partial: "the representatives alive at an index form a basis" is not proved (rep_is_cycle / rep_youngest / rep_dies give cycle, youngest cell and death); '
                         'the reader of the stored Z2 factor (back substitution) is not modelled — the harness checks every returned cycle against the real boundaries: zero boundary, '
                         'homogeneous dimension, youngest cell = birth, one cycle per bar; over Zp the cycles are returned without coefficients, so only support-level clauses are checked']
ASSUMPTIONS = C05.ASSUMPTIONS
MODULE = 'GudhiVerif.Properties.C08'


def run(ctx): C05.run(ctx, rep=True, pid='C08')


replay_cmds = C05.replay_cmds
