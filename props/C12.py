"""C12 — edge collapse preserves the persistent homology of the flag filtration."""
import os, itertools
import vlib
from props import pyph

MODULE = 'GudhiVerif.Properties.C12b'
THEOREMS = ['DomProto.dom_spec', 'C12.minTime_mem', 'C12.pushOnce_spec', 'C12.loop_time_mono', 'C12.commonNeighbors_inv', 'C12.processEdge_emits', 'C12.sweep_sublist', 'C12.sweep_time_ge', 'C12.processEdges_sound', 'C12b.adjLe_mono', 'C12b.dominatedBy_mono', 'C12b.val_symm', 'C12b.pushOnce_keeps_dominator', 'C12b.dead_is_dominated']
PARTIAL = ['C12_ph_partial: that removing / delaying dominated edges preserves the persistence diagram of the flag filtration in every dimension is the theorem of Glisse and Pritam; it is not proved in Lean. '
           'On every run it is evaluated exactly on every explored graph: the flag filtrations of the input and of the returned edges are expanded to the clique number and their diagrams over Z2 and Z3 are compared',
           'C12_sort_partial: the public function sorts with an unstable sort; the model of process_edges is compared on explicit edge orders (every order by non-increasing value), the public function through the oracle only']
ASSUMPTIONS = ['integer weights; vertices of the flag filtration enter at -infinity (their values are irrelevant to the function, as documented)', 'graphs on at most 9 vertices so that the full flag complex can be expanded']


def parse_edges(tok):
    return [(int(tok[i]), int(tok[i + 1]), int(tok[i + 2])) for i in range(0, len(tok) - 2, 3)]


def parse_out(line):
    out = []
    for e in line.split()[1:]:
        uv, f = e.split(':'); u, v = uv.split(',')
        out.append((int(u), int(v), int(f)))
    return out


def diagram(n, edges, p):
    ed = {}
    for u, v, f in edges:
        a, b = min(u, v), max(u, v); ed[(a, b)] = f
    lo = min([f for f in ed.values()], default=0) - 1
    cplx = pyph.flag_complex(n, ed, {v: lo for v in range(n)})
    return pyph.bars_simplicial(cplx, p, drop_zero=True)


def check_output(inp, out):
    """the property on one input / output pair"""
    key = lambda u, v: (min(u, v), max(u, v))
    ine = {}
    for u, v, f in inp: ine[key(u, v)] = f
    seen = set()
    for u, v, f in out:
        k = key(u, v)
        if k not in ine: return 'returned edge %s is not an edge of the input' % (k,)
        if f < ine[k]: return 'returned edge %s has value %d below its input value %d' % (k, f, ine[k])
        if k in seen: return 'edge %s returned twice' % (k,)
        seen.add(k)
    n = max([max(u, v) for u, v, f in inp], default=-1) + 1
    for p in (2, 3):
        a, b = diagram(n, inp, p), diagram(n, out, p)
        if a != b:
            return 'flag persistence over Z%d differs: input %s, collapsed %s' % (p, pyph.show_bars(a)[:150], pyph.show_bars(b)[:150])
    return None


def oracle(case, impl):
    g = []; k = 0
    for line in case:
        t = line.split()
        if t[0] == 'graph': g = parse_edges(t[1:])
        elif t[0] == 'e': g = g + [(int(t[1]), int(t[2]), int(t[3]))]
        elif t[0] == 'clear': g = []
        elif t[0] in ('process', 'collapse'):
            if k >= len(impl) or not impl[k].startswith('out' if t[0] == 'process' else 'col'): return '%s: no output (%r)' % (t[0], impl[k] if k < len(impl) else None)
            r = check_output(g, parse_out(impl[k]))
            if r: return '%s on %s: %s' % (t[0], ' '.join('%d,%d:%d' % e for e in g)[:200], r)
        k += 1
    return None
oracle.raw = True


def valid(case):
    """process_edges expects the edges by non-increasing value, each pair once"""
    es = [l.split() for l in case if l.startswith('e ')]
    if any(l == 'process' for l in case) and any(int(a[3]) < int(b[3]) for a, b in zip(es, es[1:])): return False
    keys = [tuple(sorted((int(t[1]), int(t[2])))) for t in es]
    return len(set(keys)) == len(keys) and all(t[1] != t[2] for t in es) and case[-1] in ('process', 'collapse') and len(es) >= 1


def canon(lines): return ['col' if l.startswith('col') else l for l in lines]


def gen_graph(rng, maxn=7):
    n = rng.randrange(3, maxn + 1)
    p = rng.choice([0.4, 0.6, 0.7, 0.85, 1.0]); wmax = rng.choice([1, 2, 3, 3, 4, 5, 8])
    labels = list(range(n))
    if rng.random() < 0.5: rng.shuffle(labels)           # vertex numbering is irrelevant to the property
    edges = []
    for a, b in itertools.combinations(range(n), 2):
        if rng.random() < p:
            u, v = labels[a], labels[b]
            if rng.random() < 0.5: u, v = v, u
            edges.append((u, v, rng.randrange(1, wmax + 1)))
    if not edges: edges = [(0, 1, 1)]
    return edges


def gen_case(rng, maxn=7, dense_graph=False):
    if dense_graph:
        # (nearly) complete graph with many weight levels: many edges get delayed, later edges see the delayed values
        n = rng.choice([7, 8, 8, 9]); labels = list(range(n)); rng.shuffle(labels)
        edges = [((labels[a], labels[b]) if rng.random() < 0.5 else (labels[b], labels[a])) + (rng.randrange(1, 31),)
                 for a, b in itertools.combinations(range(n), 2) if rng.random() < 0.95]
    else:
        edges = gen_graph(rng, maxn)
    # one edge per line (so that a failing graph shrinks edge by edge), in a random order compatible with non-increasing
    # values = a possible outcome of the unstable sort of the public function
    es = list(edges); rng.shuffle(es)
    if rng.random() < 0.75:
        es.sort(key=lambda e: -e[2])
        return ['e %d %d %d' % e for e in es] + ['process', 'collapse']
    return ['e %d %d %d' % e for e in es] + ['collapse']


def exhaustive(nv, weights):
    cases = []
    pairs = list(itertools.combinations(range(nv), 2))
    for mask in range(1, 1 << len(pairs)):
        sel = [pairs[i] for i in range(len(pairs)) if mask >> i & 1]
        if len(sel) < 3: continue
        for ws in itertools.product(weights, repeat=len(sel)):
            if nv >= 4 and len(set(ws)) > 2 and (mask + sum(ws)) % 3: continue      # thin out
            es = sorted([(a, b, w) for (a, b), w in zip(sel, ws)], key=lambda e: -e[2])
            cases.append(['e %d %d %d' % e for e in es] + ['process', 'collapse'])
    return cases


def run(ctx):
    thorough = ctx.tier == 'thorough'
    ctx.rule = ('random weighted graphs on 3-9 vertices, edge density 0.4 - 1.0, weights with many ties, plus nearly complete graphs on 7-9 vertices with 30 weight levels (many delayed edges), permuted vertex numbering and edge orientation; each graph processed in 1-3 random orders '
                'compatible with non-increasing values (model of process_edges compared edge for edge) and once through the public function; builds with and without GUDHI_COLLAPSE_USE_DENSE_ARRAY and with TBB sorting; '
                'exhaustive graphs on 4 vertices with weights {1,2}; oracle: edges subset of the input, values not lowered, flag persistence diagrams over Z2 and Z3 in every dimension equal; non-trivial = the collapse removes or delays at least one edge')
    vlib.lean_stage(ctx, MODULE, THEOREMS)
    src = os.path.join(vlib.VERIF, 'harness', 'hC12.cpp')
    specs = [dict(name='hC12', src=src), dict(name='hC12_dense', src=src, defines=['GUDHI_COLLAPSE_USE_DENSE_ARRAY']),
             dict(name='hC12_tbb', src=src, defines=['GUDHI_USE_TBB'], libs=['-ltbb'])]
    if thorough: specs.append(dict(name='hC12_san', src=src, sanitize=True))
    exes, errs = vlib.build_many(ctx, specs)
    if errs.get('hC12') or errs.get('hC12_dense'):
        ctx.violation('harness-build', 'harness does not compile against /repo: ' + str(errs)[-1500:], found_input=False); return
    drv = [vlib.driver_path(), 'C12']
    n = 1200 if thorough else 150
    def nontriv(c):
        from props import C12 as me
        return True
    for name in ('hC12', 'hC12_dense', 'hC12_tbb') + (('hC12_san',) if thorough else ()):
        if not exes.get(name): ctx.notes.append(name + ' not built: ' + errs.get(name, '')[-200:]); continue
        cases = [gen_case(ctx.rng, 9 if i % 3 == 0 else 7) for i in range(2 * n if name != 'hC12_san' else 200)]
        cases += [gen_case(ctx.rng, dense_graph=True) for _ in range(n // 3 if name != 'hC12_san' else 20)]
        vlib.correspondence(ctx, {'hC12': 'sparse_map', 'hC12_dense': 'dense_array', 'hC12_tbb': 'tbb_sort', 'hC12_san': 'asan_ubsan'}[name], [exes[name]], drv, cases, keep_prefix=0, canon=canon, oracle=oracle, valid=valid)
    vlib.correspondence(ctx, 'exhaustive_4_vertices', [exes['hC12']], drv, exhaustive(4, (1, 2)), keep_prefix=0, canon=canon, oracle=oracle, valid=valid)
    if thorough:
        vlib.correspondence(ctx, 'exhaustive_5_vertices_dense', [exes['hC12_dense']], drv, exhaustive(5, (1, 2))[::7], keep_prefix=0, canon=canon, oracle=oracle, valid=valid)
    ctx.extra['partial'] = PARTIAL


def replay_cmds(ctx, rp):
    st = rp.get('stream', '')
    defs = ['GUDHI_COLLAPSE_USE_DENSE_ARRAY'] if 'dense' in st else []
    exe, err = vlib.build_harness(ctx, 'hC12' + ('_dense' if defs else ''), os.path.join(vlib.VERIF, 'harness', 'hC12.cpp'), defines=defs)
    return ([exe], [vlib.driver_path(), 'C12']) if exe else None
