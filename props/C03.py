"""C03 — filtration order and filtration-value maintenance are valid and deterministic."""
import os, itertools
import vlib
from props import stref
from props.C01 import gen_case as gen_c01

MODULE = 'GudhiVerif.Properties.C03'
THEOREMS = ['OrderProto.rlex_irrefl', 'OrderProto.rlex_trans', 'OrderProto.rlex_total', 'OrderProto.rlex_of_proper_face',
            'OrderProto.before_irrefl', 'OrderProto.before_trans', 'OrderProto.before_total', 'OrderProto.before_of_face', 'OrderProto.order_unique',
            'C03.leB_total', 'C03.leB_trans', 'C03.filtrationOrder_sorted', 'C03.filtrationOrder_perm', 'C03.filtrationOrder_eq',
            'MfndProto.facet_ord', 'MfndProto.final_eq', 'MfndProto.final_ge', 'MfndProto.final_mono', 'MfndProto.final_least', 'MfndProto.fold_spec',
            'Mfnd2Proto.walk_sorted', 'Mfnd2Proto.walk_nodup', 'Mfnd2Proto.walk_inc', 'Mfnd3Proto.find_setVal', 'Mfnd3Proto.mem_walk_iff',
            'Mfnd3Proto.fold_refines', 'Mfnd3Proto.mfnd_spec', 'Mfnd3Proto.sorted_setVal', 'TrieProto.find_prune', 'TrieProto.survives_sublevel', 'ExtDecode.decode_up', 'ExtDecode.decode_down', 'ExtDecode.decode_apex']
PARTIAL = ['C03_extend_partial: decoding is proved to invert the encoding of both parts (decode_up, decode_down, decode_apex); the closed form of the extended filtration after make_filtration_non_decreasing is the Python spec (checked on every input), not a Lean theorem; '
           'IEEE arithmetic and TBB internals outside the model (inputs chosen so that the double computations are exact)']
ASSUMPTIONS = ['std::sort / std::stable_sort / tbb::parallel_sort return a sorted permutation (order_unique shows that determines the result)',
               'extended filtration inputs have max-min of the vertex values a power of two, so 1/(max-min) and all products are exact in double/float']

OPTS = {0: 'default', 1: 'full_featured', 2: 'fast_persistence', 5: 'stable_handles', 6: 'low_int16_float'}
CONTIG = {2}


def fix_orderinf(lines):
    """initialize_filtration(true) with every simplex ignored falls back to the default initialisation (known finding): the random streams keep at least one simplex below K"""
    r = stref.Ref(); out = []
    for l in lines:
        t = l.split()
        if t[0] == 'orderinf':
            if r.c and min(r.c.values()) >= int(t[1]): l = 'orderinf %d' % (min(r.c.values()) + 1)
        else:
            try: stref.simulate_one(r, l)
            except Exception: pass
        out.append(l)
    return out


def add_order(case, rng, p=0.5):
    out = []
    for l in case:
        out.append(l)
        if l.split()[0] in ('insf', 'ins', 'rmmax', 'prunef', 'pruned', 'batch') and rng.random() < p:
            out.append('order')
            if rng.random() < 0.4: out.append('orderinf %d' % rng.randrange(0, 6))     # initialize_filtration(ignore_infinite_values = true), values >= K made infinite
    out.append('order'); out.append('orderinf %d' % rng.randrange(1, 5)); out.append('order')
    return fix_orderinf([l for l in out if l != 'obs'] + ['cplx'])


def gen_mfnd(rng, contig=False):
    U = rng.choice([3, 4, 5, 6])
    r = stref.Ref(); lines = ['univ %d' % U]
    if contig: lines.append('batch 0 ' + ' '.join(map(str, range(U)))); r.batch(0, list(range(U)))
    for _ in range(rng.randrange(1, 5)):
        s = sorted(rng.sample(range(U), rng.randrange(1, min(U, 4) + 1))); f = rng.randrange(0, 5)
        lines.append('insf %d %s' % (f, ' '.join(map(str, s)))); r.insf(f, s)
    for rounds in range(rng.randrange(1, 4)):
        for _ in range(rng.randrange(0, 6)):
            if not r.c: break
            s = rng.choice(sorted(r.c)); f = rng.randrange(0, 7)
            lines.append('assign %d %s' % (f, ' '.join(map(str, s)))); r.assign(f, s)
        if rng.random() < 0.5: lines.append('order')      # populate the order cache on the non-monotone values: mfnd has to drop it itself
        lines += ['mfnd', 'cplx', 'order', 'orderinf %d' % rng.randrange(1, 7), 'order']; r.mfnd()
        if rng.random() < 0.4:
            f = rng.randrange(0, 6)
            r2 = r.copy(); r2.prunef(f)
            if contig and not stref.contiguous(r2): continue
            lines += ['prunef %d' % f, 'cplx', 'order']; r.prunef(f)
    lines.append('mfnd')
    return fix_orderinf(lines)


def gen_extend(rng, contig=False):
    U = rng.choice([2, 3, 4, 5])
    D = rng.choice([0, 1, 2, 4, 8]); m = rng.randrange(0, 4)
    r = stref.Ref(); lines = ['univ %d' % (U + 1)]
    vals = [m + rng.randrange(0, D + 1) for _ in range(U)]
    if D > 0: vals[rng.randrange(U)] = m; vals[(rng.randrange(U - 1) + 1 + vals.index(m)) % U] = m + D
    for v in range(U):
        lines.append('ins %d %d' % (vals[v], v)); r.ins(vals[v], [v])
    for _ in range(rng.randrange(0, 5)):
        s = sorted(rng.sample(range(U), rng.randrange(2, min(U, 4) + 1)))
        f = max(vals[v] for v in s) + rng.randrange(0, 3)
        lines.append('insf %d %s' % (f, ' '.join(map(str, s)))); r.insf(f, s)
    lines += ['extend', 'cplx', 'order', 'orderinf %d' % rng.choice([-2 * max(D, 1), -max(D, 1), 0, max(D, 1), 2 * max(D, 1)]), 'order']
    return fix_orderinf(lines)


def gen_same_complex(rng, k=3):
    """k histories with different insertion orders that build the same filtered complex"""
    U = rng.choice([4, 5, 6]); r = stref.Ref()
    for _ in range(rng.randrange(2, 5)):
        s = sorted(rng.sample(range(U), rng.randrange(1, 5))); r.insf(rng.randrange(0, 4), s)
    simplices = sorted(r.c, key=lambda s: (len(s), s))
    cases = []
    for _ in range(k):
        # random linear extension of the face order
        remaining = list(simplices); rng.shuffle(remaining); done = set(); lines = ['univ %d' % U]
        while remaining:
            for s in remaining:
                if all(s[:i] + s[i + 1:] in done for i in range(len(s))) or len(s) == 1:
                    lines.append('ins %d %s' % (r.c[s], ' '.join(map(str, s)))); done.add(s); remaining.remove(s); break
        lines += ['order', 'cplx']
        cases.append(lines)
    return cases


def gen_big(rng):
    U = rng.choice([9, 10, 11]); lines = ['univ 3']
    for _ in range(rng.randrange(2, 5)):
        s = sorted(rng.sample(range(U), rng.randrange(6, U + 1)))
        lines.append('insf %d %s' % (rng.randrange(0, 3), ' '.join(map(str, s))))
    for _ in range(6):
        s = sorted(rng.sample(range(U), rng.randrange(1, 4)))
        lines.append('insf %d %s' % (rng.randrange(0, 3), ' '.join(map(str, s))))
    return lines + ['order']


def run(ctx):
    ctx.rule = ('five generators: (a) C01 histories with the filtration range printed as a sequence after the operations, (b) random value assignments followed by '
                'make_filtration_non_decreasing (flag, values, order) and pruning, (c) extended filtration of complexes whose vertex values span a power of two, '
                '(d) the same complex built by 3 different insertion orders, (e) complexes of 500-2000 simplices for the (TBB) sort; non-trivial = the final complex '
                'has at least 4 simplices and two equal values; distinct by history text')
    vlib.lean_stage(ctx, MODULE, THEOREMS)
    src = os.path.join(vlib.VERIF, 'harness', 'hST.cpp')
    specs = [dict(name='hST%d' % k, src=src, defines=['OPTN=%d' % k]) for k in OPTS]
    specs.append(dict(name='hST0_tbb', src=src, defines=['OPTN=0', 'GUDHI_USE_TBB'], libs=['-ltbb']))
    exes, errs = vlib.build_many(ctx, specs)
    if errs:
        ctx.violation('harness-build', 'harness does not compile against /repo: ' + str(errs)[-1500:], found_input=False)
        return
    drv = [vlib.driver_path(), 'ST']
    thorough = ctx.tier == 'thorough'
    n = 600 if thorough else 80

    def nontriv(c):
        ex = [l for l in stref.simulate(c) if l and l.startswith('cplx')]
        if not ex: return len(c) > 8
        items = ex[-1].split()[1:]
        vals = [i.split(':')[1] for i in items]
        return len(items) >= 4 and len(set(vals)) < len(vals)
    for k, name in OPTS.items():
        cg = k in CONTIG
        cases = [add_order(gen_c01(ctx.rng, contig=cg, maxlen=14, obs_p=0), ctx.rng) for _ in range(n)]
        cases += [gen_mfnd(ctx.rng, cg) for _ in range(n)]
        if not cg:
            cases += [gen_extend(ctx.rng) for _ in range(n)]
            for _ in range(n // 4): cases += gen_same_complex(ctx.rng)
        vlib.correspondence(ctx, name, [exes['hST%d' % k]], drv, cases, nontrivial=nontriv, keep_prefix=1, oracle=stref.oracle, valid=stref.valid_contig if cg else stref.valid)
    big = [gen_big(ctx.rng) for _ in range(40 if thorough else 6)]
    vlib.correspondence(ctx, 'default_big', [exes['hST0']], drv, big, nontrivial=nontriv, keep_prefix=1, oracle=stref.oracle, valid=stref.valid)
    for threads in ((1, 2, 8, 16) if thorough else (2, 16)):
        cases = big + [add_order(gen_c01(ctx.rng, maxlen=12, obs_p=0), ctx.rng) for _ in range(30)]
        vlib.correspondence(ctx, 'default_tbb_threads%d' % threads, ['env', 'TBB_NUM_THREADS=%d' % threads, exes['hST0_tbb'], str(threads)], drv, cases,
                            nontrivial=nontriv, keep_prefix=1, oracle=stref.oracle, valid=stref.valid)
    # the same statement for the cubical complexes (Bitmap_cubical_complex::initialize_filtration): the order is (value, dimension, position),
    # a function of the filtered complex alone - sequential and TBB builds, large grids so that the sort really permutes tied cells
    from props import C13
    csrc = os.path.join(vlib.VERIF, 'harness', 'hC13.cpp')
    cex, cerr = vlib.build_many(ctx, [dict(name='hC13', src=csrc), dict(name='hC13_tbb', src=csrc, defines=['GUDHI_USE_TBB'], libs=['-ltbb'])])
    cdrv = [vlib.driver_path(), 'C13']
    for nm in ('hC13', 'hC13_tbb'):
        if not cex.get(nm): ctx.notes.append('cubical harness did not build: ' + str(cerr.get(nm))[-300:]); continue
        ccases = [[l for l in C13.gen_case(ctx.rng, maxdim=3, maxside=5, bars=False) if l.split()[0] in ('cub', 'order')] for _ in range(n)]
        ccases += [[l for l in C13.gen_case(ctx.rng, maxdim=2, maxside=14, bars=False) if l.split()[0] in ('cub', 'order')] for _ in range(8)]
        vlib.correspondence(ctx, 'cubical_order' + ('_tbb' if nm.endswith('tbb') else ''), [cex[nm]], cdrv, ccases, keep_prefix=1, oracle=C13.oracle)
    vlib.run_known_witnesses(ctx, {OPTS[k]: [exes['hST%d' % k]] for k in OPTS}, drv, stref.oracle)
    ctx.extra['partial'] = PARTIAL


def replay_cmds(ctx, rp):
    name = rp.get('stream', 'default')
    if name.startswith('cubical_order'):
        tbb = name.endswith('_tbb')
        exe, err = vlib.build_harness(ctx, 'hC13_tbb' if tbb else 'hC13', os.path.join(vlib.VERIF, 'harness', 'hC13.cpp'), defines=['GUDHI_USE_TBB'] if tbb else [], libs=['-ltbb'] if tbb else [])
        return ([exe], [vlib.driver_path(), 'C13']) if exe else None
    if 'tbb' in name:
        exe, err = vlib.build_harness(ctx, 'hST0_tbb', os.path.join(vlib.VERIF, 'harness', 'hST.cpp'), defines=['OPTN=0', 'GUDHI_USE_TBB'], libs=['-ltbb'])
        return ([exe, name.split('threads')[-1]], [vlib.driver_path(), 'ST']) if exe else None
    k = ([a for a, b in OPTS.items() if b == name] or [0])[0]
    exe, err = vlib.build_harness(ctx, 'hST%d' % k, os.path.join(vlib.VERIF, 'harness', 'hST.cpp'), defines=['OPTN=%d' % k])
    return ([exe], [vlib.driver_path(), 'ST']) if exe else None
