#include <iostream>
#include <gudhi/Toplex_map.h>
#include <gudhi/Lazy_toplex_map.h>
#include <gudhi/Persistence_on_rectangle.h>
#include <gudhi/Persistence_on_a_line.h>
#include <vector>
int main(){ std::cout.setf(std::ios::unitbuf);
  { Gudhi::Toplex_map t; std::vector<int> abc={1,2,3}; t.insert_simplex(abc); std::vector<int> a={1}; t.remove_simplex(a);
    std::vector<int> bc={2,3}; std::cout<<"Toplex: insert 123, remove [1]: membership([2,3])="<<t.membership(bc)<<" (expected 1)\n";
    Gudhi::Toplex_map t2; t2.insert_simplex(abc); std::vector<int> ab={1,2}; t2.remove_simplex(ab);
    std::vector<int> ac={1,3}; std::cout<<"Toplex: insert 123, remove [1,2]: membership([1,3])="<<t2.membership(ac)<<" membership([2,3])="<<t2.membership(bc)<<" (expected 1 1)\n"; }
  { Gudhi::Lazy_toplex_map t; std::vector<int> abc={1,2,3}; t.insert_simplex(abc); std::vector<int> ab={1,2}; t.remove_simplex(ab);
    std::vector<int> ac={1,3}, bc={2,3}; std::cout<<"Lazy: insert 123, remove [1,2]: membership([1,3])="<<t.membership(ac)<<" membership([2,3])="<<t.membership(bc)<<" (expected 1 1)\n"; }
  { // rectangle 2x2: values
    std::vector<double> in = {1, 5, 7, 3};
    std::cout<<"rect 2x2 {1,5;7,3}:";
    auto gm = Gudhi::cubical_complex::persistence_on_rectangle_from_top_cells(in.data(), (unsigned)2, (unsigned)2,
       [](double b,double d){std::cout<<" H0("<<b<<","<<d<<")";}, [](double b,double d){std::cout<<" H1("<<b<<","<<d<<")";});
    std::cout<<" globalmin="<<gm<<" (expected: no finite intervals, min 1)\n";
    std::vector<double> in2 = {1, 9, 2,  9, 9, 9};  // 2 rows x 3 cols: two minima 1 and 2 separated by 9: H0 (2,9)
    std::cout<<"rect 2x3 {1,9,2;9,9,9}:";
    gm = Gudhi::cubical_complex::persistence_on_rectangle_from_top_cells(in2.data(), (unsigned)2, (unsigned)3,
       [](double b,double d){std::cout<<" H0("<<b<<","<<d<<")";}, [](double b,double d){std::cout<<" H1("<<b<<","<<d<<")";});
    std::cout<<" globalmin="<<gm<<" (expected H0(2,9), min 1)\n";
    std::vector<double> in3 = {5, 1,  9, 9,  2, 9};  // 3 rows x 2 cols
    std::cout<<"rect 3x2 {5,1;9,9;2,9}:";
    gm = Gudhi::cubical_complex::persistence_on_rectangle_from_top_cells(in3.data(), (unsigned)3, (unsigned)2,
       [](double b,double d){std::cout<<" H0("<<b<<","<<d<<")";}, [](double b,double d){std::cout<<" H1("<<b<<","<<d<<")";});
    std::cout<<" globalmin="<<gm<<" (expected H0(2,9), min 1)\n";
  }
}
