import random, itertools, sys
rnd=random.Random(int(sys.argv[1])); N=int(sys.argv[2])
def closure(tops):
    S=set()
    for t in tops:
        for k in range(1,len(t)+1):
            for f in itertools.combinations(t,k): S.add(f)
    return S
for _ in range(N):
    nv=rnd.randint(1,6); p=rnd.choice([3,5,7,11])
    tops=[tuple(sorted(rnd.sample(range(nv),rnd.randint(1,min(nv,4))))) for _ in range(rnd.randint(1,4))]
    S=list(closure(tops))
    # random linear extension: sort by (random key respecting faces) -> repeated pick of available
    placed=[];pl=set();rest=set(S)
    while rest:
        av=[s for s in rest if all(f in pl for f in itertools.combinations(s,len(s)-1) if len(s)>1)]
        s=rnd.choice(sorted(av)); placed.append(s); pl.add(s); rest.remove(s)
    idx={s:i for i,s in enumerate(placed)}
    cols=[]
    for s in placed:
        ent=[]
        if len(s)>1:
            for k in range(len(s)):
                f=s[:k]+s[k+1:]; c=1 if k%2==0 else p-1
                ent.append((idx[f],c))
        ent.sort()
        cols.append(" ".join(f"{r}:{c}" for r,c in ent))
    print(str(p)+"|"+"|".join(cols)+"|")
