// random differential run of the base matrix (general column operations) against a dense reference, per column type
#include <iostream>
#include <random>
#include <vector>
#include <map>
#include <string>
#include <sstream>
#include <gudhi/Matrix.h>
#include <gudhi/persistence_matrix_options.h>
using namespace Gudhi::persistence_matrix;
#ifndef Z2
struct Opt : Default_options<Column_types::COLT, false> { };
static const unsigned P = 5;
#else
struct Opt : Default_options<Column_types::COLT, true> { };
static const unsigned P = 2;
#endif
typedef Matrix<Opt> M;
int main(int argc,char**argv){ std::mt19937 g(atoi(argv[1])); int N=atoi(argv[2]); int L=atoi(argv[3]); const unsigned R=4;
  std::map<std::string,long> tally; long total=0, diverged=0; int shown=0;
  for(int it=0;it<N;it++){
    unsigned nc=2+g()%3; std::vector<std::vector<unsigned>> dense(nc,std::vector<unsigned>(R,0));
#ifndef Z2
    std::vector<std::vector<std::pair<unsigned,unsigned>>> cols(nc);
    for(unsigned c=0;c<nc;c++) for(unsigned r=0;r<R;r++) if(g()%2){ unsigned x=1+g()%(P-1); cols[c].push_back({r,x}); dense[c][r]=x; }
    M m(cols, P);
#else
    std::vector<std::vector<unsigned>> cols(nc);
    for(unsigned c=0;c<nc;c++) for(unsigned r=0;r<R;r++) if(g()%2){ cols[c].push_back(r); dense[c][r]=1; }
    M m(cols);
#endif
    std::ostringstream hist; hist<<"init"; for(unsigned c=0;c<nc;c++){ hist<<" ["; for(unsigned r=0;r<R;r++) hist<<dense[c][r]; hist<<"]"; }
    std::string lastop="init"; bool ok=true;
    for(int step=0; step<L && ok; step++){
      unsigned s=g()%nc, t=g()%nc, r=g()%R, c=g()%P; int op=g()%6; std::ostringstream o;
      if(op==0){ if(s==t) continue; o<<"add "<<s<<"->"<<t; m.add_to(s,t); for(unsigned k=0;k<R;k++) dense[t][k]=(dense[t][k]+dense[s][k])%P; lastop="add"; }
      else if(op==1){ if(s==t) continue; o<<"mta c="<<c<<" "<<s<<"->"<<t; m.multiply_target_and_add_to(s,c,t); for(unsigned k=0;k<R;k++) dense[t][k]=(dense[t][k]*c+dense[s][k])%P; lastop="multiply_target_and_add"; }
      else if(op==2){ if(s==t) continue; o<<"msa c="<<c<<" "<<s<<"->"<<t; m.multiply_source_and_add_to(c,s,t); for(unsigned k=0;k<R;k++) dense[t][k]=(dense[t][k]+c*dense[s][k])%P; lastop="multiply_source_and_add"; }
      else if(op==3){ o<<"zero_entry col"<<t<<" row"<<r; m.zero_entry(t,r); dense[t][r]=0; lastop= std::string("zero_entry")+ (dense[t][r]==0?"":""); }
      else if(op==4){ o<<"zero_column "<<t; m.zero_column(t); for(unsigned k=0;k<R;k++) dense[t][k]=0; lastop="zero_column"; }
      else { continue; }
      hist<<"; "<<o.str(); total++;
      // observe everything
      for(unsigned cc=0;cc<nc && ok;cc++){ auto v=m.get_column(cc).get_content(R); bool z=true; for(unsigned k=0;k<R;k++){ unsigned e=(unsigned)v[k]%P; if(e!=dense[cc][k]) ok=false; if(dense[cc][k]) z=false; if(m.is_zero_entry(cc,k)!=(dense[cc][k]==0)) ok=false; } if(m.is_zero_column(cc)!=z) ok=false; }
      if(!ok){ diverged++; tally[lastop]++; if(shown<6){ shown++; std::cout<<"DIVERGENCE: "<<hist.str()<<"\n"; } }
    } }
  std::cout<<"ops "<<total<<" histories "<<N<<" diverged "<<diverged<<" ; first diverging op:"; for(auto&kv:tally) std::cout<<" "<<kv.first<<"="<<kv.second; std::cout<<"\n"; }
