#include <iostream>
#include <vector>
#include <tuple>
#include <limits>
#include <gudhi/zigzag_persistence.h>
#include <gudhi/filtered_zigzag_persistence.h>
#include <gudhi/ripser.h>
#include <gudhi/Flag_complex_edge_collapser.h>
#include <gudhi/Bitmap_cubical_complex.h>
#include <gudhi/Bitmap_cubical_complex_periodic_boundary_conditions_base.h>
#include <gudhi/Persistent_cohomology.h>
#include <gudhi/Simplex_tree.h>
#include <gudhi/Sparse_rips_complex.h>
#include <gudhi/Freudenthal_triangulation.h>
#include <gudhi/Persistence_on_a_line.h>
int main(){ std::cout.setf(std::ios::unitbuf);
 { std::cout<<"-- zigzag\n"; using ZP=Gudhi::zigzag_persistence::Zigzag_persistence<>; ZP zp([](int d,int b,int de){std::cout<<" ["<<d<<"] "<<b<<"-"<<de<<"\n";});
   zp.insert_cell({},0); zp.insert_cell({},0); zp.insert_cell({0,1},1); zp.insert_cell({},0); zp.insert_cell({0,3},1); zp.insert_cell({1,3},1); zp.remove_cell(4); zp.remove_cell(2);
   zp.get_current_infinite_intervals([](int d,int b){std::cout<<" ["<<d<<"] "<<b<<"-inf\n";}); }
 { std::cout<<"-- filtered zigzag (storage)\n"; Gudhi::zigzag_persistence::Filtered_zigzag_persistence_with_storage<> fz;
   fz.insert_cell(10,{},0,0.5); fz.insert_cell(11,{},0,0.5); fz.insert_cell(12,{10,11},1,1.0); fz.remove_cell(12,2.0);
   for(auto& b: fz.get_persistence_diagram()) std::cout<<" ["<<b.dim<<"] "<<b.birth<<" "<<b.death<<"\n"; }
 { std::cout<<"-- ripser\n"; struct P{typedef int vertex_t; typedef double value_t;};
   std::vector<double> low={1, 2,1, 2,2,1}; // 4 points lower triangular: d10, d20,d21, d30,d31,d32
   Gudhi::ripser::Compressed_distance_matrix<P,Gudhi::ripser::LOWER_TRIANGULAR> dm(std::move(low));
   int curdim=-1; Gudhi::ripser::ripser_auto(std::move(dm), 2, std::numeric_limits<double>::infinity(), 2u, [&](int d){curdim=d;}, [&](double b,double d){std::cout<<" ["<<curdim<<"] "<<b<<" "<<d<<"\n";}); }
 { std::cout<<"-- edge collapse\n"; std::vector<std::tuple<int,int,double>> e={{0,1,1.},{1,2,1.},{0,2,2.},{2,3,1.},{0,3,3.}};
   auto r=Gudhi::collapse::flag_complex_collapse_edges(e); for(auto&t:r) std::cout<<" ("<<std::get<0>(t)<<","<<std::get<1>(t)<<":"<<std::get<2>(t)<<")"; std::cout<<"\n"; }
 { std::cout<<"-- cubical\n"; typedef Gudhi::cubical_complex::Bitmap_cubical_complex_base<double> B; typedef Gudhi::cubical_complex::Bitmap_cubical_complex<B> C;
   C c({2u,2u}, {1.,2.,3.,4.}, true); std::cout<<" cells="<<c.num_simplices()<<" dim="<<c.dimension()<<"\n";
   for(std::size_t i=0;i<c.num_simplices();++i){ std::cout<<"  cell "<<i<<" d="<<c.get_dimension_of_a_cell(i)<<" f="<<c.filtration(i)<<" bd:"; for(auto b: c.boundary_simplex_range(i)) std::cout<<" "<<b; std::cout<<" cbd:"; for(auto b: c.get_coboundary_of_a_cell(i)) std::cout<<" "<<b; std::cout<<"\n"; if(i>5)break;}
   Gudhi::persistent_cohomology::Persistent_cohomology<C,Gudhi::persistent_cohomology::Field_Zp> pc(c,true); pc.init_coefficients(3); pc.compute_persistent_cohomology(-1);
   for(auto&p: pc.get_persistent_pairs()) std::cout<<"  pair d="<<c.dimension(std::get<0>(p))<<" "<<c.filtration(std::get<0>(p))<<" "<<c.filtration(std::get<1>(p))<<"\n";
   typedef Gudhi::cubical_complex::Bitmap_cubical_complex_periodic_boundary_conditions_base<double> PB; typedef Gudhi::cubical_complex::Bitmap_cubical_complex<PB> PC;
   PC t({3u,3u}, std::vector<double>(9,1.), {true,true}); Gudhi::persistent_cohomology::Persistent_cohomology<PC,Gudhi::persistent_cohomology::Field_Zp> pt(t,true); pt.init_coefficients(2); pt.compute_persistent_cohomology(-1);
   auto bn=pt.betti_numbers(); std::cout<<" torus betti:"; for(auto b:bn) std::cout<<" "<<b; std::cout<<"\n"; }
 { std::cout<<"-- sparse rips\n"; std::vector<std::vector<double>> pts={{0,0},{1,0},{0,1},{3,3}};
   Gudhi::rips_complex::Sparse_rips_complex<double> sr(pts, [](auto&a,auto&b){return std::abs(a[0]-b[0])+std::abs(a[1]-b[1]);}, 0.5);
   Gudhi::Simplex_tree<> st; sr.create_complex(st,2); std::cout<<" simplices="<<st.num_simplices()<<"\n"; }
 { std::cout<<"-- freudenthal\n"; Gudhi::coxeter_triangulation::Freudenthal_triangulation<> ft(2); std::vector<double> q={0.25,0.75}; auto s=ft.locate_point(q);
   std::cout<<" located "<<s<<" dim="<<s.dimension()<<" verts:"; for(auto v: s.vertex_range()){ std::cout<<" ("; for(auto x:v) std::cout<<x<<","; std::cout<<")";} std::cout<<"\n";
   for(auto f: s.face_range(1)) std::cout<<"  face "<<f<<" isface="<<f.is_face_of(s)<<"\n"; for(auto v0: s.face_range(0)){ int c=0; for(auto cf: v0.coface_range(2)){(void)cf;++c;} std::cout<<"  vertex "<<v0<<" has "<<c<<" 2-cofaces\n"; break;} }
 { std::cout<<"-- line\n"; std::vector<double> f={3,1,4,1,5,9,2,6}; Gudhi::persistent_cohomology::compute_persistence_of_function_on_line(f,[](double b,double d){std::cout<<" ("<<b<<","<<d<<")";}); std::cout<<"\n"; }
}
