// random differential run of the simplex tree read side against a brute-force reference (map simplex -> value)
#include <iostream>
#include <random>
#include <vector>
#include <map>
#include <set>
#include <string>
#include <sstream>
#include <algorithm>
#include <gudhi/Simplex_tree.h>
typedef std::vector<int> S;
typedef Gudhi::Simplex_tree<Gudhi::OPT> ST;
static S verts(ST& st, ST::Simplex_handle sh){ S v(st.simplex_vertex_range(sh).begin(), st.simplex_vertex_range(sh).end()); std::sort(v.begin(),v.end()); return v; }
int main(int argc,char**argv){ std::mt19937 g(atoi(argv[1])); int N=atoi(argv[2]); int L=atoi(argv[3]);
  std::map<std::string,long> tally; long ops=0; int shown=0;
  for(int it=0;it<N;it++){ ST st; std::map<S,double> ref; int nv=2+g()%4; std::ostringstream hist; bool ok=true;
    for(int step=0;step<L&&ok;step++){ int op=g()%10; std::ostringstream o;
      if(op<5){ S s; for(int v=0;v<nv;v++) if(g()%2) s.push_back(v); if(s.empty()) s.push_back(g()%nv); double f=g()%4; o<<"insf "<<f<<" ["; for(int v:s) o<<v; o<<"]";
        st.insert_simplex_and_subfaces(s,f); for(unsigned m=1;m<(1u<<s.size());m++){ S t; for(size_t k=0;k<s.size();k++) if(m>>k&1) t.push_back(s[k]); auto it2=ref.find(t); if(it2==ref.end()) ref[t]=f; else it2->second=std::min(it2->second,f); } }
      else if(op<7){ std::vector<S> mx; for(auto&kv:ref){ bool m=true; for(auto&kw:ref) if(kw.first.size()>kv.first.size() && std::includes(kw.first.begin(),kw.first.end(),kv.first.begin(),kv.first.end())) m=false; if(m) mx.push_back(kv.first);} if(mx.empty()) continue; S s=mx[g()%mx.size()]; o<<"rmmax ["; for(int v:s) o<<v; o<<"]"; st.remove_maximal_simplex(st.find(s)); ref.erase(s); }
      else if(op<8){ double f=g()%4; o<<"prunef "<<f; st.prune_above_filtration(f); for(auto it2=ref.begin();it2!=ref.end();) if(it2->second>f) it2=ref.erase(it2); else ++it2; }
      else if(op<9){ int d=g()%3; o<<"pruned "<<d; st.prune_above_dimension(d); for(auto it2=ref.begin();it2!=ref.end();) if((int)it2->first.size()-1>d) it2=ref.erase(it2); else ++it2; }
      else continue;
      hist<<o.str()<<"; "; ops++;
      std::string bad;
      if(st.num_simplices()!=ref.size()) bad="num_simplices";
      int dim=-1; for(auto&kv:ref) dim=std::max(dim,(int)kv.first.size()-1);
      if(bad.empty() && st.upper_bound_dimension()<dim) bad="upper_bound_dimension";
      if(bad.empty() && st.dimension()!=dim && !(ref.empty())) bad="dimension";   /* D2 masked: empty complex */
      for(auto&kv:ref){ if(!bad.empty()) break; auto sh=st.find(kv.first); if(sh==st.null_simplex()){ bad="find"; break; } if(st.filtration(sh)!=kv.second){ bad="filtration"; break; }
        std::set<S> bd; for(auto b: st.boundary_simplex_range(sh)) bd.insert(verts(st,b)); std::set<S> bdr; if(kv.first.size()>1) for(size_t k=0;k<kv.first.size();k++){ S t=kv.first; t.erase(t.begin()+k); bdr.insert(t);} if(bd!=bdr){ bad="boundary"; break; }
        for(int cod=0;cod<=2;cod++){ std::set<S> cf; for(auto c: st.cofaces_simplex_range(sh,cod)) cf.insert(verts(st,c)); std::set<S> cfr; for(auto&kw:ref) if(std::includes(kw.first.begin(),kw.first.end(),kv.first.begin(),kv.first.end()) && (cod==0 || kw.first.size()==kv.first.size()+cod)) cfr.insert(kw.first); if(cf!=cfr){ if(cod==0 && kv.first.size()-1==(size_t)dim && cf.empty()) continue; /* D1 masked */ bad= cod==0? "star" : "cofaces"; break; } }
        if(!bad.empty()) break; }
      // non-members
      if(bad.empty()){ for(unsigned m=1;m<(1u<<nv);m++){ S t; for(int k=0;k<nv;k++) if(m>>k&1) t.push_back(k); if(!ref.count(t) && st.find(t)!=st.null_simplex()){ bad="find(non-member)"; break; } } }
      if(!bad.empty()){ ok=false; tally[bad]++; if(shown<5){ shown++; std::cout<<"DIVERGENCE ("<<bad<<"): "<<hist.str()<<"\n"; } }
    } }
  std::cout<<"ops "<<ops<<" histories "<<N<<" ; diverging observable:"; for(auto&kv:tally) std::cout<<" "<<kv.first<<"="<<kv.second; std::cout<<"\n"; }
