#include <iostream>
#include <sstream>
#include <vector>
#include <string>
#include <algorithm>
#include <gudhi/Matrix.h>
#include <gudhi/persistence_matrix_options.h>
#include <gudhi/Fields/Zp_field_operators.h>
using namespace Gudhi::persistence_matrix;
using Zp = Gudhi::persistence_fields::Zp_field_operators<>;
struct RU_o : Default_options<Column_types::COLT, false, Zp> { static const bool has_column_pairings=true; static const bool has_vine_update=VINE; };
struct Ch_o : Default_options<Column_types::COLT, false, Zp> { static const bool has_column_pairings=true; static const bool is_of_boundary_type=false; };
struct Bd_o : Default_options<Column_types::COLT, false, Zp> { static const bool has_column_pairings=true; };
typedef std::vector<std::pair<unsigned,unsigned>> Col;
template<class M> std::string bars(unsigned p, const std::vector<Col>& cols){
  M m(cols.size(), p); for(auto&c:cols) m.insert_boundary(c);
  std::vector<std::pair<long,long>> v; for(auto& b: m.get_current_barcode()) v.push_back({(long)b.birth, b.death==(decltype(b.death))-1? -1 : (long)b.death});
  std::sort(v.begin(),v.end()); std::ostringstream os; bool first=true; for(auto&p:v){ if(!first) os<<" "; first=false; os<<p.first<<":"; if(p.second<0) os<<"inf"; else os<<p.second; } return os.str(); }
int main(int argc,char**argv){ std::ios::sync_with_stdio(false); std::string which=argv[1]; std::string line;
  while(std::getline(std::cin,line)){ std::vector<Col> cols; std::istringstream is(line); std::string part; unsigned p=0; bool first=true;
    while(std::getline(is,part,'|')){ if(first){ p=std::stoul(part); first=false; continue; }
      std::istringstream ps(part); Col c; std::string tok; while(ps>>tok){ auto k=tok.find(':'); c.push_back({(unsigned)std::stoul(tok.substr(0,k)), (unsigned)std::stoul(tok.substr(k+1))}); } cols.push_back(c);}
    if(which=="ru") std::cout<<bars<Matrix<RU_o>>(p,cols)<<"\n"; else if(which=="chain") std::cout<<bars<Matrix<Ch_o>>(p,cols)<<"\n"; else std::cout<<bars<Matrix<Bd_o>>(p,cols)<<"\n"; }
}
