// sanity check of the C12 oracle path: flag persistence before and after flag_complex_collapse_edges
#include <iostream>
#include <random>
#include <vector>
#include <tuple>
#include <algorithm>
#include <gudhi/Flag_complex_edge_collapser.h>
#include <gudhi/Simplex_tree.h>
#include <gudhi/Persistent_cohomology.h>
typedef Gudhi::Simplex_tree<> ST;
typedef std::tuple<int,int,double> E;
std::vector<std::tuple<int,double,double>> diag(int nv, const std::vector<E>& edges, int dim, int p){
  ST st; for(int v=0;v<nv;v++) st.insert_simplex({v},0.);
  for(auto&e:edges) st.insert_simplex({std::get<0>(e),std::get<1>(e)},std::get<2>(e));
  st.expansion(dim);
  Gudhi::persistent_cohomology::Persistent_cohomology<ST,Gudhi::persistent_cohomology::Field_Zp> pc(st,true);
  pc.init_coefficients(p); pc.compute_persistent_cohomology(0);
  std::vector<std::tuple<int,double,double>> out;
  for(auto&pr: pc.get_persistent_pairs()){ double b=st.filtration(std::get<0>(pr)); double d= std::get<1>(pr)==st.null_simplex()? 1e9 : st.filtration(std::get<1>(pr)); if(b<d) out.push_back({st.dimension(std::get<0>(pr)),b,d}); }
  std::sort(out.begin(),out.end()); return out; }
int main(int argc,char**argv){ std::mt19937 g(atoi(argv[1])); int N=atoi(argv[2]); long bad=0, bars=0, removed=0, total=0;
  for(int it=0;it<N;it++){ int nv=3+g()%6; std::vector<E> edges; for(int i=0;i<nv;i++) for(int j=i+1;j<nv;j++) if(g()%10<7) edges.push_back({i,j,(double)(1+g()%5)});
    auto coll=Gudhi::collapse::flag_complex_collapse_edges(edges);
    total+=edges.size(); removed+=edges.size()-coll.size();
    for(int p: {2,3}){ auto a=diag(nv,edges,nv,p), b=diag(nv,coll,nv,p); bars+=a.size(); if(a!=b){ bad++; if(bad<4){ std::cout<<"MISMATCH p="<<p<<" nv="<<nv<<" edges:"; for(auto&e:edges) std::cout<<" "<<std::get<0>(e)<<"-"<<std::get<1>(e)<<":"<<std::get<2>(e); std::cout<<"\n"; } } }
    // structural clauses
    for(auto&e:coll){ bool found=false; for(auto&f:edges) if(std::minmax(std::get<0>(e),std::get<1>(e))==std::minmax(std::get<0>(f),std::get<1>(f))){ found=true; if(std::get<2>(e)<std::get<2>(f)) { std::cout<<"VALUE LOWERED\n"; bad++; } } if(!found){ std::cout<<"NEW EDGE\n"; bad++; } }
  }
  std::cout<<"graphs "<<N<<" edges "<<total<<" removed "<<removed<<" bars "<<bars<<" mismatches "<<bad<<"\n"; }
