// zigzag harness: one zigzag per line: ops separated by ';' : "i dim id..." or "r id"; prints sorted intervals dim:birth:death
#include <iostream>
#include <sstream>
#include <vector>
#include <string>
#include <algorithm>
#include <tuple>
#include <gudhi/zigzag_persistence.h>
int main(){ std::string line; while(std::getline(std::cin,line)){
  std::vector<std::tuple<int,int,int>> out;
  { Gudhi::zigzag_persistence::Zigzag_persistence<> zp([&](int d,int b,int de){ out.push_back({d,b,de}); });
    std::istringstream is(line); std::string op;
    while(std::getline(is,op,';')){ std::istringstream os(op); std::string k; os>>k; if(k=="i"){ int dim; os>>dim; std::vector<int> bd; int x; while(os>>x) bd.push_back(x); std::sort(bd.begin(),bd.end()); zp.insert_cell(bd,dim); } else if(k=="r"){ int id; os>>id; zp.remove_cell(id); } }
    zp.get_current_infinite_intervals([&](int d,int b){ out.push_back({d,b,-1}); }); }
  std::sort(out.begin(),out.end()); for(auto&t:out){ std::cout<<std::get<0>(t)<<":"<<std::get<1>(t)<<":"; if(std::get<2>(t)<0) std::cout<<"inf "; else std::cout<<std::get<2>(t)<<" "; } std::cout<<"\n"; } }
