#include <iostream>
#include <gudhi/Matrix.h>
#include <gudhi/persistence_matrix_options.h>
using namespace Gudhi::persistence_matrix;
struct RU_o : Default_options<Column_types::INTRUSIVE_LIST, true> { static const bool can_retrieve_representative_cycles = true; };
struct RUv_o : Default_options<Column_types::INTRUSIVE_LIST, true> { static const bool can_retrieve_representative_cycles = true; static const bool has_vine_update=true; static const bool has_column_pairings=true;};
struct Ch_o : Default_options<Column_types::INTRUSIVE_LIST, true> { static const bool can_retrieve_representative_cycles = true; static const bool is_of_boundary_type=false;};
template<class M> void run(const char*n){
  M mp({ {},{},{}, {0,2},{1,2},{0,1} });
  std::cout<<n<<"\n";
  for (auto c : mp.get_representative_cycles()){ for(auto i:c) std::cout<<i<<" "; std::cout<<"\n";}
}
int main(){ run<Matrix<RU_o>>("RU"); run<Matrix<RUv_o>>("RUvine"); run<Matrix<Ch_o>>("chain"); }
