// sanity check of the C11 oracle path: ripser_auto vs Rips flag filtration in the simplex tree + persistent cohomology
#include <iostream>
#include <random>
#include <vector>
#include <tuple>
#include <algorithm>
#include <limits>
#include <gudhi/ripser.h>
#include <gudhi/Simplex_tree.h>
#include <gudhi/Persistent_cohomology.h>
typedef Gudhi::Simplex_tree<> ST;
typedef std::vector<std::tuple<int,double,double>> Diag;
int main(int argc,char**argv){ std::mt19937 g(atoi(argv[1])); int N=atoi(argv[2]); long bad=0,bars=0; int shown=0; const double INF=std::numeric_limits<double>::infinity();
  for(int it=0;it<N;it++){ int n=2+g()%6; std::vector<std::vector<double>> D(n,std::vector<double>(n,0)); for(int i=0;i<n;i++) for(int j=0;j<i;j++) D[i][j]=D[j][i]=1+g()%6;
    int dim_max=g()%3; unsigned p=(g()%2)?2u:3u; double thr; int tm=g()%3; if(tm==0) thr=INF; else thr=1+g()%6;
    // ripser
    struct P{typedef int vertex_t; typedef double value_t;};
    std::vector<double> low; for(int i=0;i<n;i++) for(int j=0;j<i;j++) low.push_back(D[i][j]);
    Gudhi::ripser::Compressed_distance_matrix<P,Gudhi::ripser::LOWER_TRIANGULAR> dm(std::move(low));
    Diag a; int curdim=-1;
    Gudhi::ripser::ripser_auto(std::move(dm), dim_max, thr, p, [&](int d){curdim=d;}, [&](double b,double d){ if(b<d) a.push_back({curdim,b,d}); });
    std::sort(a.begin(),a.end());
    // oracle: Rips complex up to dim_max+1 with threshold
    ST st; for(int v=0;v<n;v++) st.insert_simplex({v},0.); for(int i=0;i<n;i++) for(int j=0;j<i;j++) if(D[i][j]<=thr) st.insert_simplex({j,i},D[i][j]);
    st.expansion(dim_max+1);
    Gudhi::persistent_cohomology::Persistent_cohomology<ST,Gudhi::persistent_cohomology::Field_Zp> pc(st,true); pc.init_coefficients(p); pc.compute_persistent_cohomology(0);
    Diag b; for(auto&pr:pc.get_persistent_pairs()){ int dm_=st.dimension(std::get<0>(pr)); if(dm_>dim_max) continue; double bb=st.filtration(std::get<0>(pr)); double dd= std::get<1>(pr)==st.null_simplex()?INF:st.filtration(std::get<1>(pr)); if(bb<dd) b.push_back({dm_,bb,dd}); }
    std::sort(b.begin(),b.end()); bars+=b.size();
    if(a!=b){ bad++; if(shown<4){ shown++; std::cout<<"MISMATCH n="<<n<<" dim_max="<<dim_max<<" p="<<p<<" thr="<<thr<<"\n ripser:"; for(auto&x:a) std::cout<<" "<<std::get<0>(x)<<":"<<std::get<1>(x)<<":"<<std::get<2>(x); std::cout<<"\n oracle:"; for(auto&x:b) std::cout<<" "<<std::get<0>(x)<<":"<<std::get<1>(x)<<":"<<std::get<2>(x); std::cout<<"\n D:"; for(int i=0;i<n;i++){ for(int j=0;j<i;j++) std::cout<<" "<<D[i][j]; std::cout<<" /"; } std::cout<<"\n"; } } }
  std::cout<<"inputs "<<N<<" bars "<<bars<<" mismatches "<<bad<<"\n"; }
