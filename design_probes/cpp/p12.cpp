#include <iostream>
#include <random>
#include <gudhi/Simplex_tree.h>
using namespace Gudhi;
typedef Simplex_tree<Simplex_tree_options_full_featured> ST;
typedef Simplex_tree<> STD;
template<class S> std::vector<std::pair<std::vector<int>,double>> dump(S& st){ std::vector<std::pair<std::vector<int>,double>> r; for(auto sh: st.complex_simplex_range()){ std::vector<int> v(st.simplex_vertex_range(sh).begin(), st.simplex_vertex_range(sh).end()); std::sort(v.begin(),v.end()); r.push_back({v,st.filtration(sh)});} std::sort(r.begin(),r.end()); return r;}
int main(){ std::cout.setf(std::ios::unitbuf);
  std::mt19937 rng(12345); int bad=0, badb=0, total=0;
  for(int it=0; it<3000; ++it){
    int n = 2 + rng()%6; int dmax = (int)(rng()%5) - 1; if(dmax==0) dmax=1;
    std::vector<std::tuple<int,int,double>> edges;
    for(int i=0;i<n;i++) for(int j=i+1;j<n;j++) if(rng()%3) edges.push_back({i,j,(double)(1+rng()%3)});
    // route A: one-shot expansion (vertices at 0)
    STD a; for(int i=0;i<n;i++) a.insert_simplex({i},0.); for(auto&e:edges) a.insert_simplex({std::get<0>(e),std::get<1>(e)},std::get<2>(e));
    int d = dmax<0? 10: dmax; a.expansion(d);
    // route B: incremental insert_edge_as_flag in filtration order
    ST b; std::vector<ST::Simplex_handle> added; for(int i=0;i<n;i++) b.insert_edge_as_flag(i,i,0.,dmax,added);
    auto es = edges; std::stable_sort(es.begin(),es.end(),[](auto&x,auto&y){return std::get<2>(x)<std::get<2>(y);});
    for(auto&e:es) b.insert_edge_as_flag(std::get<0>(e),std::get<1>(e),std::get<2>(e),dmax,added);
    // route C: blockers that never block
    STD c; for(int i=0;i<n;i++) c.insert_simplex({i},0.); for(auto&e:edges) c.insert_simplex({std::get<0>(e),std::get<1>(e)},std::get<2>(e));
    c.expansion_with_blockers(d,[](auto){return false;});
    auto da=dump(a), db=dump(b), dc=dump(c); total++;
    if(da!=db || a.dimension()!=b.dimension() || added.size()!=db.size()){ if(bad++<3){ std::cout<<"A vs B differ: n="<<n<<" dmax="<<dmax<<" |A|="<<da.size()<<" |B|="<<db.size()<<" dimA="<<a.dimension()<<" dimB="<<b.dimension()<<" added="<<added.size()<<" edges:"; for(auto&e:edges) std::cout<<" ("<<std::get<0>(e)<<","<<std::get<1>(e)<<":"<<std::get<2>(e)<<")"; std::cout<<"\n";}}
    if(da!=dc || a.dimension()!=c.dimension()){ if(badb++<3){ std::cout<<"A vs C differ: n="<<n<<" d="<<d<<" |A|="<<da.size()<<" |C|="<<dc.size()<<" dimA="<<a.dimension()<<" dimC="<<c.dimension()<<" edges:"; for(auto&e:edges) std::cout<<" ("<<std::get<0>(e)<<","<<std::get<1>(e)<<":"<<std::get<2>(e)<<")"; std::cout<<"\n";}}
  }
  std::cout<<"total="<<total<<" AvsB bad="<<bad<<" AvsC bad="<<badb<<"\n";
}
