// probe D26: RU vine_swap of two unpaired cells beyond the size of pivotToColumnIndex_ (vector container)
#include <iostream>
#include <gudhi/Matrix.h>
#include <gudhi/persistence_matrix_options.h>
using namespace Gudhi::persistence_matrix;
struct RU_o : Default_options<Column_types::INTRUSIVE_SET, true> { static const bool has_column_pairings=true; static const bool has_vine_update=true; };
int main(){ std::cout.setf(std::ios::unitbuf);
  { Matrix<RU_o> m; m.insert_boundary({}); m.insert_boundary({}); m.insert_boundary({0,1}); m.insert_boundary({}); m.insert_boundary({}); m.insert_boundary({});
    std::cout<<"v v e v v v: vine_swap(4) ...\n"; bool r=m.vine_swap(4); std::cout<<"returned "<<r<<"\n"; }
  { Matrix<RU_o> m; m.insert_boundary({}); m.insert_boundary({});
    std::cout<<"two vertices: vine_swap(0) ...\n"; bool r=m.vine_swap(0); std::cout<<"returned "<<r<<"\n"; }
}
