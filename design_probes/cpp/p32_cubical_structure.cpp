// cubical complexes (plain and periodic): boundary/coboundary converse, dd = 0 with the enumeration signs and with
// compute_incidence_between_cells, lower-star values, dimension consistency -- on the real classes
#include <iostream>
#include <random>
#include <vector>
#include <map>
#include <string>
#include <algorithm>
#include <gudhi/Bitmap_cubical_complex_base.h>
#include <gudhi/Bitmap_cubical_complex_periodic_boundary_conditions_base.h>
typedef Gudhi::cubical_complex::Bitmap_cubical_complex_base<double> B0;
typedef Gudhi::cubical_complex::Bitmap_cubical_complex_periodic_boundary_conditions_base<double> BP;
std::map<std::string,long> tally; long cellsChecked=0;
template<class C> void check(C& c, const std::string& tag, bool topcells){ std::size_t n=c.size();
  for(std::size_t x=0;x<n;x++){ cellsChecked++; auto bd=c.get_boundary_of_a_cell(x); auto cb=c.get_coboundary_of_a_cell(x); unsigned d=c.get_dimension_of_a_cell(x);
    for(auto f:bd){ if(c.get_dimension_of_a_cell(f)+1!=d) tally[tag+" face dimension"]++; auto cf=c.get_coboundary_of_a_cell(f); if(std::find(cf.begin(),cf.end(),x)==cf.end()) tally[tag+" face->coboundary converse"]++; }
    for(auto q:cb){ if(c.get_dimension_of_a_cell(q)!=d+1) tally[tag+" coface dimension"]++; auto bq=c.get_boundary_of_a_cell(q); if(std::find(bq.begin(),bq.end(),x)==bq.end()) tally[tag+" coface->boundary converse"]++; }
    if(bd.size()!=2*d) tally[tag+" boundary size != 2 dim"]++;
    // dd = 0 with alternating signs of the enumeration
    std::map<std::size_t,int> acc; int sgn=1; for(auto f:bd){ auto bf=c.get_boundary_of_a_cell(f); int s2=1; for(auto e:bf){ acc[e]+=sgn*s2; s2=-s2; } sgn=-sgn; }
    for(auto&kv:acc) if(kv.second!=0){ tally[tag+" dd != 0 (enumeration signs)"]++; break; }
    // dd = 0 with compute_incidence_between_cells
    std::map<std::size_t,int> acc2; bool thrown=false; try{ for(auto f:bd){ int i1=c.compute_incidence_between_cells(x,f); for(auto e:c.get_boundary_of_a_cell(f)) acc2[e]+=i1*c.compute_incidence_between_cells(f,e); } } catch(...){ thrown=true; }
    if(thrown) tally[tag+" incidence threw"]++; else for(auto&kv:acc2) if(kv.second!=0){ tally[tag+" dd != 0 (incidence)"]++; break; }
    // lower star
    if(topcells){ if(!cb.empty()){ double m=1e300; for(auto q:cb) m=std::min(m,c.get_cell_data(q)); if(c.get_cell_data(x)!=m) tally[tag+" lower star (top cells)"]++; } }
    else { if(!bd.empty()){ double m=-1e300; for(auto f:bd) m=std::max(m,c.get_cell_data(f)); if(c.get_cell_data(x)!=m) tally[tag+" lower star (vertices)"]++; } }
  } }
int main(int argc,char**argv){ std::mt19937 g(atoi(argv[1])); int N=atoi(argv[2]); long complexes=0;
  for(int it=0;it<N;it++){ int nd=1+g()%3; std::vector<unsigned> sizes(nd); std::vector<bool> per(nd); bool anyper=false; std::size_t tot=1; for(int i=0;i<nd;i++){ per[i]=g()%2; sizes[i]= per[i]? 3+g()%2 : 1+g()%4; anyper|=per[i]; tot*=sizes[i]; }
    bool top = true; // top-cell input (vertex input changes the meaning of sizes)
    std::vector<double> vals(tot); for(auto&v:vals) v=g()%4;
    { B0 c(sizes, vals, top); check(c,"plain",top); complexes++; }
    { BP c(sizes, vals, per, top); check(c, "periodic", top); complexes++; }
    { std::vector<unsigned> vs(nd); std::size_t t2=1; for(int i=0;i<nd;i++){ vs[i]=sizes[i]+1; t2*=vs[i]; } std::vector<double> vv(t2); for(auto&v:vv) v=g()%4; B0 c(vs, vv, false); check(c,"plain(vertices)",false); complexes++; }
  }
  std::cout<<"complexes "<<complexes<<" cells "<<cellsChecked<<" ; failures:"; for(auto&kv:tally) std::cout<<"\n  "<<kv.first<<" = "<<kv.second; std::cout<<"\n"; }
