#include <iostream>
#include <sstream>
#include <vector>
#include <gudhi/Persistence_landscape.h>
using namespace Gudhi::Persistence_representations;
// input line: n b1 d1 ... bn dn ; output: for level 0..n, x = 0,0.5,...,12 : value*4 as integer
int main(){ std::string line; while(std::getline(std::cin,line)){ std::istringstream is(line); int n; is>>n; std::vector<std::pair<double,double>> d(n); for(auto&p:d) is>>p.first>>p.second;
    Persistence_landscape l(d);
    for(int k=0;k<=n;k++){ for(int x=0;x<=48;x++){ double v=l.compute_value_at_a_given_point(k, x*0.25); std::cout<<(long)(v*4+0.5)<<" "; } std::cout<<"| "; } std::cout<<"\n"; } }
