// sparse Rips on the real code: every simplex is a Rips simplex with a value not smaller than its diameter; monotone filtration;
// for epsilon small the complex contains all vertices; compare number of simplices with the full Rips complex
#include <iostream>
#include <random>
#include <vector>
#include <map>
#include <cmath>
#include <algorithm>
#include <gudhi/Sparse_rips_complex.h>
#include <gudhi/Simplex_tree.h>
typedef Gudhi::Simplex_tree<> ST; typedef std::vector<double> Pt;
int main(int argc,char**argv){ std::mt19937 g(atoi(argv[1])); int N=atoi(argv[2]); std::map<std::string,long> tally; long simplices=0, ripsSimplices=0;
  for(int it=0;it<N;it++){ int n=2+g()%8; std::vector<Pt> pts; for(int i=0;i<n;i++){ Pt p={(double)(g()%8),(double)(g()%8)}; bool dup=false; for(auto&q:pts) if(q==p) dup=true; if(!dup) pts.push_back(p); } n=pts.size(); if(n<2) continue;
    auto dist=[](const Pt&a,const Pt&b){ return std::max(std::abs(a[0]-b[0]),std::abs(a[1]-b[1])); };
    double eps= (g()%3==0)?0.25:((g()%2)?0.5:0.125); int dim_max=1+g()%3;
    Gudhi::rips_complex::Sparse_rips_complex<double> sr(pts, dist, eps); ST st; sr.create_complex(st, dim_max);
    if((int)st.num_vertices()!=n) tally["not all points are vertices"]++;
    for(auto sh: st.complex_simplex_range()){ simplices++; std::vector<int> v(st.simplex_vertex_range(sh).begin(), st.simplex_vertex_range(sh).end()); double diam=0; for(size_t i=0;i<v.size();i++) for(size_t j=i+1;j<v.size();j++) diam=std::max(diam,dist(pts[v[i]],pts[v[j]]));
      if(st.filtration(sh)<diam) tally["value below the Rips value"]++;
      if(v.size()==1 && st.filtration(sh)!=0) tally["vertex value != 0"]++;
      for(auto b: st.boundary_simplex_range(sh)) if(st.filtration(b)>st.filtration(sh)) tally["filtration not monotone"]++; }
    // full Rips for size comparison
    unsigned long cnt=0; for(unsigned m=1;m<(1u<<n);m++) if(__builtin_popcount(m)<=dim_max+1) cnt++; ripsSimplices+=cnt; if(st.num_simplices()>cnt) tally["more simplices than the full Rips complex"]++;
  }
  std::cout<<"complexes "<<N<<" sparse simplices "<<simplices<<" (full Rips would have "<<ripsSimplices<<") ; failures:"; for(auto&kv:tally) std::cout<<"\n  "<<kv.first<<" = "<<kv.second; std::cout<<"\n"; }
