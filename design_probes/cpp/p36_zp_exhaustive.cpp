// exhaustive run of the run-time Z_p classes for small primes: operators class, shared element class, static element class
#include <iostream>
#include <map>
#include <string>
#include <vector>
#include <gudhi/Fields/Zp_field_operators.h>
#include <gudhi/Fields/Zp_field_shared.h>
#include <gudhi/Fields/Zp_field.h>
using namespace Gudhi::persistence_fields;
std::map<std::string,long> tally; long checks=0; std::map<std::string,std::string> first;
void rec(const std::string& k, const std::string& w){ tally[k]++; if(!first.count(k)) first[k]=w; }
static long md(long a,long p){ long r=a%p; return r<0?r+p:r; }
template<unsigned P> void static_class(){ typedef Zp_field_element<P> F; for(long a=-3*(long)P;a<=3*(long)P;a++){ F x((int)a); checks++; if((long)x.get_value()!=md(a,P)) rec("Zp_field_element(int) conversion", "p="+std::to_string(P)+" a="+std::to_string(a)+" -> "+std::to_string(x.get_value()));
    for(long b=0;b<(long)P;b++){ F y((unsigned)b); F xa((unsigned)md(a,P)); checks+=3; if((long)(xa+y).get_value()!=md(md(a,P)+b,P)) rec("Zp_field_element +",""); if((long)(xa-y).get_value()!=md(md(a,P)-b,P)) rec("Zp_field_element -",""); if((long)(xa*y).get_value()!=md(md(a,P)*b,P)) rec("Zp_field_element *","");
      if(b!=0 && a==1){ if((long)(y*y.get_inverse()).get_value()!=1) rec("Zp_field_element inverse",""); } } } }
int main(){ std::vector<unsigned> primes={2,3,5,7,11,13,17,19,23,29,31,37,41,43,47,53,59,61};
  for(unsigned p:primes){ Zp_field_operators<> f(p); Shared_Zp_field_element<>::initialize(p); typedef Shared_Zp_field_element<> S;
    for(long a=-3*(long)p;a<=3*(long)p;a++){ checks+=3; if((long)f.get_value((int)a)!=md(a,p)) rec("operators get_value(int)","p="+std::to_string(p)+" a="+std::to_string(a)+" -> "+std::to_string(f.get_value((int)a)));
      if(a>=0 && (long)f.get_value((unsigned)a)!=md(a,p)) rec("operators get_value(unsigned)","");
      S s((int)a); if((long)s.get_value()!=md(a,p)) rec("shared element(int) conversion","p="+std::to_string(p)+" a="+std::to_string(a)+" -> "+std::to_string(s.get_value())); }
    for(unsigned a=0;a<p;a++) for(unsigned b=0;b<p;b++){ checks+=8;
      if(f.add(a,b)!=(a+b)%p) rec("operators add",""); if(f.subtract(a,b)!=(a+p-b)%p) rec("operators subtract",""); if(f.multiply(a,b)!=(a*b)%p) rec("operators multiply","");
      if(f.are_equal(a,b)!=(a==b)) rec("operators are_equal","");
      S x(a), y(b); if((x+y).get_value()!=(a+b)%p) rec("shared +",""); if((x-y).get_value()!=(a+p-b)%p) rec("shared -",""); if((x*y).get_value()!=(a*b)%p) rec("shared *",""); if((x==y)!=(a==b)) rec("shared ==","");
      for(unsigned c=0;c<p;c++){ checks+=2; if(f.multiply_and_add(a,b,c)!=(a*b+c)%p) rec("operators multiply_and_add",""); if(f.add_and_multiply(a,b,c)!=((a+b)*c)%p) rec("operators add_and_multiply",""); } }
    for(unsigned a=1;a<p;a++){ checks+=2; if(f.multiply(a,f.get_inverse(a))!=1) rec("operators inverse",""); S x(a); if((x*x.get_inverse()).get_value()!=1) rec("shared inverse",""); }
  }
  // rejection of non-primes
  for(unsigned n=0;n<=200;n++){ bool prime=n>1; for(unsigned d=2;d*d<=n;d++) if(n%d==0) prime=false; bool thrown=false; try{ Zp_field_operators<> f; f.set_characteristic(n);} catch(const std::invalid_argument&){ thrown=true; } checks++; if(thrown==prime) rec("operators: characteristic acceptance","n="+std::to_string(n));
    thrown=false; try{ Shared_Zp_field_element<>::initialize(n);} catch(const std::invalid_argument&){ thrown=true; } checks++; if(thrown==prime) rec("shared: characteristic acceptance","n="+std::to_string(n)); }
  static_class<2>(); static_class<3>(); static_class<5>(); static_class<7>(); static_class<13>(); static_class<31>();
  std::cout<<"checks "<<checks<<" ; failures:"; for(auto&kv:tally) std::cout<<"\n  "<<kv.first<<" = "<<kv.second<<"   first: "<<first[kv.first]; std::cout<<"\n"; }
