// random differential run of the skeleton-blocker complex against the abstract complex (set of all simplices)
#include <iostream>
#include <random>
#include <vector>
#include <set>
#include <map>
#include <string>
#include <sstream>
#include <gudhi/Skeleton_blocker.h>
typedef Gudhi::skeleton_blocker::Skeleton_blocker_simple_traits Traits;
typedef Gudhi::skeleton_blocker::Skeleton_blocker_complex<Traits> Complex;
typedef Complex::Vertex_handle VH; typedef Complex::Simplex Simplex;
typedef std::set<unsigned> Ref;
static Simplex tos(unsigned m){ Simplex s; for(int k=0;k<8;k++) if(m>>k&1) s.add_vertex(VH(k)); return s; }
static int pc(unsigned m){ return __builtin_popcount(m); }
int main(int argc,char**argv){ std::mt19937 g(atoi(argv[1])); int N=atoi(argv[2]); int L=atoi(argv[3]);
  std::map<std::string,long> tally; long ops=0; int shown=0;
  for(int it=0;it<N;it++){ int nv=3+g()%3; Complex c; Ref ref; for(int v=0;v<nv;v++){ c.add_vertex(); ref.insert(1u<<v);} std::ostringstream hist; bool ok=true;
    for(int step=0;step<L&&ok;step++){ int op=g()%10; std::ostringstream o; bool d18=false;
      if(op<3){ unsigned a=g()%nv,b=g()%nv; if(a==b) continue; if(!ref.count(1u<<a)||!ref.count(1u<<b)) continue; unsigned m=(1u<<a)|(1u<<b); if(ref.count(m)) continue; o<<"add_edge "<<a<<b; c.add_edge(VH(a),VH(b)); ref.insert(m); }
      else if(op<6){ unsigned m=1+g()%((1u<<nv)-1); if(pc(m)<3||ref.count(m)) continue; bool vs=true; for(int k=0;k<nv;k++) if((m>>k&1)&&!ref.count(1u<<k)) vs=false; if(!vs) continue; o<<"add_simplex "<<m; c.add_simplex(tos(m)); for(unsigned s=1;s<(1u<<nv);s++) if((s&m)==s) ref.insert(s); }
      else if(op<9){ if(ref.empty()) continue; std::vector<unsigned> v(ref.begin(),ref.end()); unsigned m=v[g()%v.size()]; o<<"remove_star "<<m;
        if(pc(m)<=2){ // D18 applies when a blocker through m has at least two more vertices than m... record it
          for(unsigned s=1;s<(1u<<nv);s++) if((s&m)==m && pc(s)>=pc(m)+2 && pc(s)>=3){ bool blocker=!ref.count(s); if(blocker){ for(int k=0;k<nv;k++) if(s>>k&1){ unsigned f=s&~(1u<<k); if(f && !ref.count(f)) blocker=false; } } if(blocker) d18=true; } }
        c.remove_star(tos(m)); for(auto i=ref.begin();i!=ref.end();) if((*i&m)==m) i=ref.erase(i); else ++i; }
      else continue;
      hist<<o.str()<<"; "; ops++; std::string bad;
      for(unsigned s=1;s<(1u<<nv)&&bad.empty();s++){ bool mem=ref.count(s); if(c.contains(tos(s))!=mem) bad = d18? "contains (star removal of a vertex/edge inside a blocker: D18)" : "contains"; }
      if(bad.empty()){ // blockers = minimal non-faces with all proper faces present
        std::set<unsigned> br; for(unsigned s=1;s<(1u<<nv);s++) if(pc(s)>=3 && !ref.count(s)){ bool all=true; for(int k=0;k<nv;k++) if(s>>k&1){ unsigned f=s&~(1u<<k); if(!ref.count(f)) all=false; } if(all) br.insert(s); }
        std::set<unsigned> bc; for(auto b: c.const_blocker_range()){ unsigned m=0; for(auto v:*b) m|=1u<<v.vertex; bc.insert(m); }
        if(br!=bc) bad="blocker set"; }
      if(!bad.empty()){ ok=false; tally[bad]++; if(shown<5 && bad.find("D18")==std::string::npos){ shown++; std::cout<<"DIVERGENCE ("<<bad<<"): "<<hist.str()<<"\n"; } }
    } }
  std::cout<<"ops "<<ops<<" histories "<<N<<" ; diverging observable:"; for(auto&kv:tally) std::cout<<"\n  "<<kv.first<<" = "<<kv.second; std::cout<<"\n"; }
