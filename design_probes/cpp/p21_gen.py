import random, itertools, sys
rnd=random.Random(int(sys.argv[1])); N=int(sys.argv[2])
for _ in range(N):
    print("new")
    S=set()
    nv=rnd.randint(1,6)
    for _ in range(rnd.randint(1,4)):
        t=tuple(sorted(rnd.sample(range(nv),rnd.randint(1,min(nv,4)))))
        print("insf 0 "+" ".join(map(str,t)))
        for k in range(1,len(t)+1):
            for f in itertools.combinations(t,k): S.add(f)
    L=sorted(S)
    for rounds in range(rnd.randint(1,3)):
        for _ in range(rnd.randint(0,8)):
            w=rnd.choice(L); print("assign %d "%rnd.randint(0,5)+" ".join(map(str,w)))
        print("mfnd")
