// probe: Persistence_landscape_on_grid, grid-aligned interval whose end points have an odd sum in grid units
#include <iostream>
#include <vector>
#include <gudhi/Persistence_landscape_on_grid.h>
using namespace Gudhi::Persistence_representations;
int main(){
  std::cout.setf(std::ios::unitbuf);
  { std::vector<std::pair<double,double>> d={{0,3}};
    Persistence_landscape_on_grid l(d, 0, 3, 3);
    for(double x: {0.5,1.5,2.5}) std::cout<<"(0,3) on grid [0,3]/3: lambda_0("<<x<<") = "<<l.compute_value_at_a_given_point(0,x)<<" (expected "<<std::min(x,3-x)<<")\n"; }
  { std::vector<std::pair<double,double>> d={{0,4}};
    Persistence_landscape_on_grid l(d, 0, 4, 4);
    for(double x: {0.5,1.5,2.5,3.5}) std::cout<<"(0,4) on grid [0,4]/4: lambda_0("<<x<<") = "<<l.compute_value_at_a_given_point(0,x)<<" (expected "<<std::min(x,4-x)<<")\n"; }
  { std::vector<std::pair<double,double>> d={{1,6}};
    Persistence_landscape_on_grid l(d, 0, 8, 8);
    for(double x: {1.5,2.5,3.5,4.5,5.5}) std::cout<<"(1,6) on grid [0,8]/8: lambda_0("<<x<<") = "<<l.compute_value_at_a_given_point(0,x)<<" (expected "<<std::min(x-1,6-x)<<")\n"; }
}
