#include <cassert>
#include <iostream>
#include <sstream>
#include <vector>
#include <string>
#include <algorithm>
#include <gudhi/Simplex_tree.h>
#include <gudhi/Persistent_cohomology.h>
using namespace Gudhi;
int main(){ std::ios::sync_with_stdio(false); std::string line;
  while(std::getline(std::cin,line)){ auto sc=line.find(';'); int p=std::stoi(line.substr(0,sc)); std::string rest=line.substr(sc+1);
    Simplex_tree<> st; std::istringstream is(rest); std::string part;
    while(std::getline(is,part,'|')){ std::istringstream ps(part); std::vector<long> t; long x; while(ps>>x) t.push_back(x); if(t.empty()) continue; double f=(double)t.back(); t.pop_back(); std::vector<int> vs(t.begin(),t.end()); st.insert_simplex_and_subfaces(vs,f); }
    persistent_cohomology::Persistent_cohomology<Simplex_tree<>,persistent_cohomology::Field_Zp> pc(st,true); pc.init_coefficients(p); pc.compute_persistent_cohomology(-1);
    std::vector<std::string> out;
    for(auto& pr: pc.get_persistent_pairs()){ std::ostringstream os; os<<st.dimension(std::get<0>(pr))<<":"<<(long)st.filtration(std::get<0>(pr))<<":"; if(std::get<1>(pr)==st.null_simplex()) os<<"inf"; else os<<(long)st.filtration(std::get<1>(pr)); out.push_back(os.str()); }
    std::sort(out.begin(),out.end()); for(size_t i=0;i<out.size();++i){ if(i) std::cout<<" "; std::cout<<out[i]; } std::cout<<"\n"; }
}
