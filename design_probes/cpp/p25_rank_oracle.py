# independent oracle for zigzag persistence over Z2: interval multiplicities from ranks of lim -> colim
import sys, itertools
def rank_rows(rows):
    rows=[r for r in rows if r]; piv=[]
    for r in rows:
        for p in piv:
            if r & (p & -p) : pass
        x=r
        for p in piv:
            hb=1<<(p.bit_length()-1)
            if x & hb: x^=p
        if x: piv.append(x); piv.sort(reverse=True)
    return len(piv)
def echelon(rows):
    piv=[]
    for r in rows:
        x=r
        for p in piv:
            hb=1<<(p.bit_length()-1)
            if x & hb: x^=p
        if x: piv.append(x); piv.sort(reverse=True)
    return piv
def reduce_vec(x,piv):
    for p in piv:
        hb=1<<(p.bit_length()-1)
        if x & hb: x^=p
    return x
def nullspace(cols, nrows):
    # cols: list of column vectors (ints over nrows bits); returns basis of {c : sum c_i col_i = 0} as ints over len(cols) bits
    n=len(cols); aug=[(cols[i], 1<<i) for i in range(n)]; piv=[]; null=[]
    for v,t in aug:
        for pv,pt in piv:
            hb=1<<(pv.bit_length()-1)
            if v & hb: v^=pv; t^=pt
        if v: piv.append((v,t)); piv.sort(key=lambda a:-a[0])
        else: null.append(t)
    return null
def homology(K, p, index):
    # K: set of simplices (tuples); returns (Bbasis, Hbasis) as chains in C_p (bitsets over index of p-simplices)
    ps=[s for s in K if len(s)==p+1]; qs=[s for s in K if len(s)==p+2]
    def bd(s):
        v=0
        if len(s)>1:
            for i in range(len(s)): v^=1<<index[s[:i]+s[i+1:]]
        return v
    B=echelon([bd(q) for q in qs])
    # cycles: nullspace of boundary on p-simplices
    if p==0: Z=[1<<index[s] for s in ps]
    else:
        cols=[bd(s) for s in ps]; ns=nullspace(cols,0); Z=[]
        for t in ns:
            z=0
            for i,s in enumerate(ps):
                if t>>i &1: z^=1<<index[s]
            Z.append(z)
    H=[]; cur=list(B)
    for z in Z:
        x=reduce_vec(z,cur)
        if x: H.append(z); cur.append(x); cur.sort(reverse=True)
    return B,H
def coords(z,B,H):
    # express z = b + sum c_i H_i ; return c as int
    basis=[(b,0) for b in B]+[(h,1<<i) for i,h in enumerate(H)]
    piv=[]
    for v,t in basis:
        for pv,pt in piv:
            hb=1<<(pv.bit_length()-1)
            if v & hb: v^=pv; t^=pt
        assert v
        piv.append((v,t)); piv.sort(key=lambda a:-a[0])
    c=0; x=z
    for pv,pt in piv:
        hb=1<<(pv.bit_length()-1)
        if x & hb: x^=pv; c^=pt
    assert x==0
    return c
def solve(seq):
    n=len(seq); Ks=[]; cur=set()
    for op,s in seq:
        if op=='+': cur.add(s)
        else: cur.remove(s)
        Ks.append(set(cur))
    allsimp=sorted(set(s for op,s in seq)); res=[]
    maxdim=max(len(s) for s in allsimp)-1
    for p in range(maxdim+1):
        index={s:i for i,s in enumerate(allsimp)}
        if not any(len(s)==p+1 for s in allsimp): continue
        for s in allsimp:
            if len(s)==p+2:
                pass
        idx_all=dict(index)
        HB=[homology(K,p,idx_all) for K in Ks]
        dims=[len(h[1]) for h in HB]
        # maps between consecutive: forward if seq[j+1] is '+', else backward. maps[j] = (src,tgt,matrix cols as coords)
        maps=[]
        for j in range(n-1):
            if seq[j+1][0]=='+': src,tgt=j,j+1
            else: src,tgt=j+1,j
            M=[coords(h,HB[tgt][0],HB[tgt][1]) for h in HB[src][1]]
            maps.append((src,tgt,M))
        def r(s,t):
            if s<0 or t>=n or s>t: return 0
            off={}; tot=0
            for j in range(s,t+1): off[j]=tot; tot+=dims[j]
            if tot==0: return 0
            # relations: for each arrow j->j' with matrix M: e_{src,i} + M(e_i) in tgt
            rel=[]
            for j in range(s,t):
                src,tgt,M=maps[j]
                for i in range(dims[src]):
                    rel.append((1<<(off[src]+i)) ^ (M[i]<<off[tgt]))
            # lim: vectors x in direct sum with M x_src = x_tgt for every arrow: nullspace of constraints.
            # constraints as columns per coordinate: coordinate (j,i) contributes to constraint rows
            ncons=0; consoff={}
            for j in range(s,t):
                src,tgt,M=maps[j]; consoff[j]=ncons; ncons+=dims[tgt]
            cols=[0]*tot
            for j in range(s,t):
                src,tgt,M=maps[j]
                for i in range(dims[src]): cols[off[src]+i]^= (M[i]<<consoff[j])
                for i in range(dims[tgt]): cols[off[tgt]+i]^= (1<<(consoff[j]+i))
            ns=nullspace(cols,ncons)
            # image of x in colim: component s only
            mask=((1<<dims[s])-1)<<off[s]
            R=echelon(rel)
            imgs=[reduce_vec(x & mask,R) for x in ns]
            return len(echelon(imgs))
        for s in range(n):
            for t in range(s,n):
                m=r(s,t)-r(s-1,t)-r(s,t+1)+r(s-1,t+1)
                assert m>=0,(s,t,m)
                for _ in range(m):
                    # complexes s..t (0-based index j = complex after op j) -> gudhi birth = arrow s, death = arrow t+1 (inf if t==n-1)
                    res.append((p,s,-1 if t==n-1 else t+1))
    res.sort()
    return " ".join("%d:%d:%s"%(p,b,"inf" if d<0 else str(d)) for p,b,d in res)+" " if res else ""
for line in sys.stdin:
    ops,seq=line.rstrip("\n").split("\t")
    print(solve(eval(seq)))
