// representative cycles on the real matrices: every returned cycle must have zero boundary, one cycle per bar birth,
// its youngest cell = the birth (checked against an independent barcode)
#include <iostream>
#include <random>
#include <vector>
#include <set>
#include <map>
#include <algorithm>
#include <gudhi/Matrix.h>
#include <gudhi/persistence_matrix_options.h>
using namespace Gudhi::persistence_matrix;
struct RU_o : Default_options<Column_types::INTRUSIVE_SET, true> { static const bool can_retrieve_representative_cycles = true; static const bool has_column_pairings=true; };
struct RUv_o : Default_options<Column_types::INTRUSIVE_SET, true> { static const bool can_retrieve_representative_cycles = true; static const bool has_column_pairings=true; static const bool has_vine_update=true; };
struct Ch_o : Default_options<Column_types::INTRUSIVE_SET, true> { static const bool can_retrieve_representative_cycles = true; static const bool has_column_pairings=true; static const bool is_of_boundary_type=false; };
typedef std::vector<int> Simplex;
std::map<std::string,long> tally; long cyclesSeen=0;
template<class M> void run(const char* name,int seed,int N){ std::mt19937 g(seed);
  for(int it=0;it<N;it++){ int nv=2+g()%5; std::set<Simplex> S; int nt=1+g()%4; for(int t=0;t<nt;t++){ Simplex s; for(int v=0;v<nv;v++) if(g()%2) s.push_back(v); if(s.empty()) s.push_back(g()%nv); if(s.size()>4) s.resize(4); for(unsigned mask=1;mask<(1u<<s.size());mask++){ Simplex f; for(size_t k=0;k<s.size();k++) if(mask>>k&1) f.push_back(s[k]); S.insert(f);} }
    std::vector<Simplex> order; std::set<Simplex> placed, rest=S; while(!rest.empty()){ std::vector<Simplex> av; for(auto&s:rest){ bool ok=true; if(s.size()>1) for(size_t k=0;k<s.size();k++){ Simplex f=s; f.erase(f.begin()+k); if(!placed.count(f)) ok=false; } if(ok) av.push_back(s);} Simplex s=av[g()%av.size()]; order.push_back(s); placed.insert(s); rest.erase(s);} 
    std::map<Simplex,unsigned> pos; for(unsigned i=0;i<order.size();i++) pos[order[i]]=i; std::vector<std::vector<unsigned>> bd;
    for(auto&s:order){ std::vector<unsigned> b; if(s.size()>1) for(size_t k=0;k<s.size();k++){ Simplex f=s; f.erase(f.begin()+k); b.push_back(pos[f]); } std::sort(b.begin(),b.end()); bd.push_back(b); }
    M m; for(auto&b:bd) m.insert_boundary(b);
    std::set<unsigned> births; for(auto&b:m.get_current_barcode()) births.insert(b.birth);
    m.update_representative_cycles(); auto& cycles=m.get_representative_cycles();
    if(cycles.size()!=births.size()) tally[std::string(name)+": number of cycles != number of bars"]++;
    std::set<unsigned> youngest;
    for(auto&c:cycles){ cyclesSeen++; std::map<unsigned,int> acc; unsigned mx=0; for(auto cell:c){ mx=std::max<unsigned>(mx,cell); for(auto f:bd[cell]) acc[f]^=1; } bool zero=true; for(auto&kv:acc) if(kv.second) zero=false; if(!zero) tally[std::string(name)+": cycle with non-zero boundary"]++; youngest.insert(mx);
      int d=-1; for(auto cell:c){ int dd=order[cell].size(); if(d<0) d=dd; else if(d!=dd) { tally[std::string(name)+": mixed dimensions"]++; break; } } }
    if(youngest!=births) tally[std::string(name)+": youngest cells != births"]++;
  } }
int main(int argc,char**argv){ int seed=atoi(argv[1]), N=atoi(argv[2]); run<Matrix<Ch_o>>("chain",seed,N); run<Matrix<RU_o>>("RU",seed,N); run<Matrix<RUv_o>>("RU+vine",seed,N);
  std::cout<<"cycles "<<cyclesSeen<<" ; failures:"; for(auto&kv:tally) std::cout<<"\n  "<<kv.first<<" = "<<kv.second; std::cout<<"\n"; }
