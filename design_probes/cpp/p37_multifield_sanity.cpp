// persistent cohomology with Multi_field vs one Field_Zp run per prime of the range: an interval (birth simplex, death simplex)
// must carry the product of the primes at which it exists
#include <cassert>
#include <iostream>
#include <random>
#include <map>
#include <set>
#include <vector>
#include <algorithm>
#include <gudhi/Simplex_tree.h>
#include <gudhi/Persistent_cohomology.h>
#include <gudhi/Persistent_cohomology/Multi_field.h>
using namespace Gudhi;
typedef Simplex_tree<> ST; typedef std::vector<int> S;
typedef std::pair<S,S> Key;
static S vs(ST& st, ST::Simplex_handle sh){ if(sh==st.null_simplex()) return S(); S v(st.simplex_vertex_range(sh).begin(), st.simplex_vertex_range(sh).end()); std::sort(v.begin(),v.end()); return v; }
int main(int argc,char**argv){ std::mt19937 g(atoi(argv[1])); int N=atoi(argv[2]); long bad=0, ivs=0, torsion=0; int shown=0;
  int T[10][3]={{0,1,2},{0,2,3},{0,3,4},{0,4,5},{0,1,5},{1,2,4},{2,3,5},{1,3,4},{2,4,5},{1,3,5}};
  std::vector<std::pair<int,int>> ranges={{2,3},{2,5},{2,7},{3,7},{2,2},{3,3},{5,11}};
  for(int it=0;it<N;it++){ ST st; int kind=g()%3;
    if(kind==0){ std::vector<int> perm(10); for(int i=0;i<10;i++) perm[i]=i; std::shuffle(perm.begin(),perm.end(),g); int relabel[6]={0,1,2,3,4,5}; std::shuffle(relabel,relabel+6,g); for(int i=0;i<10;i++){ int t=perm[i]; st.insert_simplex_and_subfaces({relabel[T[t][0]],relabel[T[t][1]],relabel[T[t][2]]}, 1.0+(g()%6)); } if(g()%2) st.insert_simplex_and_subfaces({0,1,2,3}, 8.0); }
    else { int nv=3+g()%5; int nt=1+g()%6; for(int t=0;t<nt;t++){ S s; for(int v=0;v<nv;v++) if(g()%2) s.push_back(v); if(s.empty()) s.push_back(0); if(s.size()>4) s.resize(4); st.insert_simplex_and_subfaces(s,(double)(g()%5)); } }
    auto rg=ranges[g()%ranges.size()];
    // per-prime runs
    std::map<Key,long> expect; std::vector<int> primes; for(int q=rg.first;q<=rg.second;q++){ bool pr=q>1; for(int d=2;d*d<=q;d++) if(q%d==0) pr=false; if(pr) primes.push_back(q); }
    for(int q:primes){ persistent_cohomology::Persistent_cohomology<ST,persistent_cohomology::Field_Zp> pc(st,true); pc.init_coefficients(q); pc.compute_persistent_cohomology(-1);
      for(auto&p:pc.get_persistent_pairs()){ Key k{vs(st,std::get<0>(p)),vs(st,std::get<1>(p))}; if(!expect.count(k)) expect[k]=1; expect[k]*=q; } }
    persistent_cohomology::Persistent_cohomology<ST,persistent_cohomology::Multi_field> pm(st,true); pm.init_coefficients(rg.first,rg.second); pm.compute_persistent_cohomology(-1);
    std::map<Key,long> got; for(auto&p:pm.get_persistent_pairs()){ Key k{vs(st,std::get<0>(p)),vs(st,std::get<1>(p))}; long c=std::get<2>(p).get_si(); if(got.count(k)) got[k]*=c; else got[k]=c; }
    ivs+=expect.size(); long full=1; for(int q:primes) full*=q; for(auto&kv:expect) if(kv.second!=full) torsion++;
    if(got!=expect){ bad++; if(shown<4){ shown++; std::cout<<"MISMATCH range ["<<rg.first<<","<<rg.second<<"] kind "<<kind<<": expected "<<expect.size()<<" intervals, got "<<got.size()<<"\n"; for(auto&kv:expect){ auto it2=got.find(kv.first); if(it2==got.end()||it2->second!=kv.second){ std::cout<<"   birth ["; for(int v:kv.first.first) std::cout<<v; std::cout<<"] death ["; for(int v:kv.first.second) std::cout<<v; std::cout<<"] expected product "<<kv.second<<" got "<<(it2==got.end()?0:it2->second)<<"\n"; } } } } }
  std::cout<<"complexes "<<N<<" intervals "<<ivs<<" (with a proper sub-product: "<<torsion<<") mismatches "<<bad<<"\n"; }
