#include <iostream>
#include <sstream>
#include <vector>
#include <string>
#include <algorithm>
#include <gudhi/Simplex_tree.h>
template<class ST> void dump(ST& st){ bool first=true; for(auto sh: st.complex_simplex_range()){ std::vector<int> v(st.simplex_vertex_range(sh).begin(), st.simplex_vertex_range(sh).end()); std::sort(v.begin(),v.end()); if(!first) std::cout<<" "; first=false; for(size_t i=0;i<v.size();++i){ if(i) std::cout<<","; std::cout<<v[i]; } std::cout<<":"<<(long)st.filtration(sh);} std::cout<<"\n"; }
int main(){ std::ios::sync_with_stdio(false); typedef Gudhi::Simplex_tree<OPT> ST; ST* st=new ST(); std::string line;
  while(std::getline(std::cin,line)){ std::istringstream is(line); std::string op; is>>op;
    if(op=="new"){ delete st; st=new ST(); std::cout<<"new\n"; continue; }
    if(op=="insf"||op=="ins"){ long f; is>>f; std::vector<int> w; int x; while(is>>x) w.push_back(x); if(op=="insf") st->insert_simplex_and_subfaces(w,(double)f); else st->insert_simplex(w,(double)f); dump(*st); }
    else if(op=="rm"){ std::vector<int> w; int x; while(is>>x) w.push_back(x); st->remove_maximal_simplex(st->find(w)); dump(*st); }
    else if(op=="prune"){ long f; is>>f; st->prune_above_filtration((double)f); dump(*st); }
    else if(op=="pruned"){ int d; is>>d; st->prune_above_dimension(d); dump(*st); }
    else std::cout<<"bad\n"; }
}
