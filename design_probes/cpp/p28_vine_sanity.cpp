// sanity check of the C06 oracle path: vine swaps on the real matrices vs a fresh build of the swapped filtration
#include <iostream>
#include <random>
#include <vector>
#include <set>
#include <map>
#include <tuple>
#include <algorithm>
#include <gudhi/Matrix.h>
#include <gudhi/persistence_matrix_options.h>
using namespace Gudhi::persistence_matrix;
struct RU_o : Default_options<Column_types::COLT, true> { static const bool has_column_pairings=true; static const bool has_vine_update=true; static const bool has_map_column_container=RUMAP; };
struct Ch_o : Default_options<Column_types::COLT, true> { static const bool has_column_pairings=true; static const bool has_vine_update=true; static const bool is_of_boundary_type=false; static const Column_indexation_types column_indexation_type = Column_indexation_types::POSITION; };
typedef std::vector<int> Simplex;
typedef std::vector<std::tuple<int,long,long>> Bars;
template<class M> Bars bars(M& m){ Bars v; for(auto& b: m.get_current_barcode()) v.push_back({b.dim,(long)b.birth, b.death==(decltype(b.death))-1? -1 : (long)b.death}); std::sort(v.begin(),v.end()); return v; }
std::vector<std::vector<unsigned>> boundaries(const std::vector<Simplex>& order){ std::map<Simplex,unsigned> pos; for(unsigned i=0;i<order.size();i++) pos[order[i]]=i; std::vector<std::vector<unsigned>> out;
  for(auto&s:order){ std::vector<unsigned> b; if(s.size()>1) for(size_t k=0;k<s.size();k++){ Simplex f=s; f.erase(f.begin()+k); b.push_back(pos[f]); } std::sort(b.begin(),b.end()); out.push_back(b); } return out; }
bool isface(const Simplex&a,const Simplex&b){ return a.size()+1==b.size() && std::includes(b.begin(),b.end(),a.begin(),a.end()); }
template<class M> void run(const char* name, int seed, int N, int T){ std::mt19937 g(seed); long swaps=0,bad=0,badret=0, rtrue=0; int shown=0;
  for(int it=0;it<N;it++){ int nv=2+g()%5; std::set<Simplex> S; int nt=1+g()%4; for(int t=0;t<nt;t++){ Simplex s; for(int v=0;v<nv;v++) if(g()%2) s.push_back(v); if(s.empty()) s.push_back(g()%nv); if(s.size()>4) s.resize(4);
      for(unsigned mask=1; mask<(1u<<s.size()); mask++){ Simplex f; for(size_t k=0;k<s.size();k++) if(mask>>k&1) f.push_back(s[k]); S.insert(f);} }
    std::vector<Simplex> order; std::set<Simplex> placed, rest=S; while(!rest.empty()){ std::vector<Simplex> av; for(auto&s:rest){ bool ok=true; if(s.size()>1) for(size_t k=0;k<s.size();k++){ Simplex f=s; f.erase(f.begin()+k); if(!placed.count(f)) ok=false; } if(ok) av.push_back(s);} Simplex s=av[g()%av.size()]; order.push_back(s); placed.insert(s); rest.erase(s);} 
    if(order.size()<2) continue;
    M m; for(auto&b:boundaries(order)) m.insert_boundary(b);
    std::vector<std::string> hist;
    for(int t=0;t<T;t++){ std::vector<unsigned> cand; for(unsigned i=0;i+1<order.size();i++) if(!isface(order[i],order[i+1])) cand.push_back(i); if(cand.empty()) break; unsigned i=cand[g()%cand.size()];
      Bars before=bars(m);
      bool r=m.vine_swap(i); swaps++; rtrue+=r; std::swap(order[i],order[i+1]); hist.push_back(std::to_string(i));
      M f; for(auto&b:boundaries(order)) f.insert_boundary(b);
      Bars a=bars(m), bfresh=bars(f);
      if(a!=bfresh){ bad++; if(shown<3){ shown++; std::cout<<name<<" MISMATCH after swaps:"; for(auto&h:hist) std::cout<<" "<<h; std::cout<<" on "<<order.size()<<" cells\n"; } break; }
      // truthfulness of the returned value: true = cells kept their bars = barcode is the old one with positions i,i+1 exchanged; false = barcode in positions unchanged
      Bars exch=before; for(auto&x:exch){ long&bi=std::get<1>(x); long&di=std::get<2>(x); if(bi==(long)i) bi=i+1; else if(bi==(long)i+1) bi=i; if(di==(long)i) di=i+1; else if(di==(long)i+1) di=i; } std::sort(exch.begin(),exch.end());
      bool kept = (a==exch), unchanged=(a==before);
      if( (r && !kept) || (!r && !unchanged) ) badret++;
    } }
  std::cout<<name<<": swaps "<<swaps<<" (returned true "<<rtrue<<"), barcode mismatches "<<bad<<", untruthful return values "<<badret<<"\n"; }
int main(int argc,char**argv){ std::cout.setf(std::ios::unitbuf); int seed=atoi(argv[1]), N=atoi(argv[2]), T=atoi(argv[3]);
  run<Matrix<RU_o>>("RU", seed, N, T); run<Matrix<Ch_o>>("chain(position)", seed, N, T); }
