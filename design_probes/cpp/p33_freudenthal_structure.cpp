// Coxeter / Freudenthal triangulation: face lattice and coface enumeration on the real classes, checked through vertex sets
#include <iostream>
#include <random>
#include <vector>
#include <set>
#include <map>
#include <string>
#include <algorithm>
#include <gudhi/Freudenthal_triangulation.h>
#include <gudhi/Permutahedral_representation.h>
typedef Gudhi::coxeter_triangulation::Freudenthal_triangulation<> FT;
typedef std::vector<int> V;
template<class S> std::set<V> vset(const S& s){ std::set<V> r; for(auto v: s.vertex_range()) r.insert(V(v.begin(),v.end())); return r; }
unsigned long binom(int n,int k){ if(k<0||k>n) return 0; unsigned long r=1; for(int i=1;i<=k;i++) r=r*(n-k+i)/i; return r; }
int main(int argc,char**argv){ std::mt19937 g(atoi(argv[1])); int N=atoi(argv[2]); std::map<std::string,long> tally; long simplices=0, faces=0, cofaces=0;
  for(int it=0;it<N;it++){ int d=1+g()%4; FT ft(d); std::vector<double> q(d); for(auto&x:q){ int kind=g()%3; x= (double)((int)(g()%7)-3) + (kind==0?0.0:(kind==1?0.5:0.25*(1+g()%3))); }
    auto s=ft.locate_point(q); simplices++; int k=s.dimension(); auto vs=vset(s);
    if((int)vs.size()!=k+1) tally["vertices not distinct"]++;
    // the located point is a convex combination with positive weights: check barycentric coordinates via the ordered structure is out of scope here
    for(int l=0;l<=k;l++){ std::set<std::set<V>> seen; long cnt=0; for(auto f: s.face_range(l)){ faces++; cnt++; auto fv=vset(f); if((int)fv.size()!=l+1) tally["face: wrong number of vertices"]++; if(!std::includes(vs.begin(),vs.end(),fv.begin(),fv.end())) tally["face: vertices not a subset"]++; if(!f.is_face_of(s)) tally["face: is_face_of false"]++; if(!seen.insert(fv).second) tally["face: enumerated twice"]++; }
      if((unsigned long)cnt!=binom(k+1,l+1)) tally["face: wrong count"]++; }
    // cofaces of the faces: every enumerated coface contains the face, has the right dimension, no duplicates; and s itself is found among the cofaces of each of its faces
    if(d<=3) for(int l=0;l<=k;l++) for(auto f: s.face_range(l)){ auto fv=vset(f); for(int m=l;m<=d;m++){ std::set<std::set<V>> seen; bool found_s=false; for(auto c: f.coface_range(m)){ cofaces++; auto cv=vset(c); if((int)cv.size()!=m+1) tally["coface: wrong number of vertices"]++; if(!std::includes(cv.begin(),cv.end(),fv.begin(),fv.end())) tally["coface: does not contain the face"]++; if(!seen.insert(cv).second) tally["coface: enumerated twice"]++; if(cv==vs) found_s=true; }
        if(m==k && !found_s) tally["coface: the simplex itself is missing among the cofaces of its face"]++; } }
  }
  std::cout<<"simplices "<<simplices<<" faces "<<faces<<" cofaces "<<cofaces<<" ; failures:"; for(auto&kv:tally) std::cout<<"\n  "<<kv.first<<" = "<<kv.second; std::cout<<"\n"; }
