#include <iostream>
#include <gudhi/Matrix.h>
#include <gudhi/persistence_matrix_options.h>
using namespace Gudhi::persistence_matrix;
template<Column_indexation_types I> struct Ch_o : Default_options<Column_types::INTRUSIVE_SET, true> { static const bool is_of_boundary_type=false; static const bool has_vine_update=true; static const bool has_column_pairings=true; static const bool has_map_column_container=true; static const bool has_removable_columns=true; static const bool has_row_access=true; static const bool has_removable_rows=true;
  static const Column_indexation_types column_indexation_type = I;};
template<class M> void bc(M& m, const char* t){ std::cout<<t<<": "; for(auto& b: m.get_current_barcode()) std::cout<<"["<<b.dim<<":"<<(int)b.birth<<","<<(int)b.death<<") "; std::cout<<"\n"; }
template<class M> void run(const char*n){
  std::cout<<"== "<<n<<"\n";
  M m; m.insert_boundary({}); m.insert_boundary({}); m.insert_boundary({}); m.insert_boundary({0,1}); m.insert_boundary({1,2});
  bc(m,"initial");
  auto r = m.vine_swap(3,4);
  std::cout<<"vine_swap(3,4) returned "<<r<<"\n";
  bc(m,"after swap");
  m.remove_last();
  bc(m,"after remove_last (expected [0:0,inf) [0:1,inf) [0:2,3))");
  m.insert_boundary(5, {0,1}); bc(m,"after re-inserting [0,1] as id 5 (expected [0:0,inf) [0:1,4) [0:2,3))");
}
int main(){ std::cout.setf(std::ios::unitbuf); run<Matrix<Ch_o<Column_indexation_types::CONTAINER>>>("chain container-idx"); run<Matrix<Ch_o<Column_indexation_types::IDENTIFIER>>>("chain id-idx"); }
