#include <iostream>
#include <vector>
#include <gudhi/Persistence_landscape_on_grid.h>
using namespace Gudhi::Persistence_representations;
int main(){ std::vector<std::pair<double,double>> d={{1,2}}; Persistence_landscape_on_grid l(d, 0, 4, 4);
  for(double x: {0.5,1.5,2.5}) std::cout<<"(1,2) on grid [0,4]/4: lambda_0("<<x<<") = "<<l.compute_value_at_a_given_point(0,x)<<" (expected "<<std::max(0.0,std::min(x-1,2-x))<<")\n"; }
