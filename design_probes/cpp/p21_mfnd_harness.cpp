#include <iostream>
#include <sstream>
#include <vector>
#include <string>
#include <algorithm>
#include <gudhi/Simplex_tree.h>
template<class ST> void dump(ST& st, const char* pre=""){ std::vector<std::string> out; for(auto sh: st.complex_simplex_range()){ std::vector<int> v(st.simplex_vertex_range(sh).begin(), st.simplex_vertex_range(sh).end()); std::sort(v.begin(),v.end()); std::ostringstream os; for(size_t i=0;i<v.size();++i){ if(i) os<<","; os<<v[i]; } os<<":"<<(long)st.filtration(sh); out.push_back(os.str()); } std::sort(out.begin(),out.end()); std::cout<<pre; for(size_t i=0;i<out.size();++i){ if(i) std::cout<<" "; std::cout<<out[i]; } std::cout<<"\n"; }
int main(){ std::ios::sync_with_stdio(false); typedef Gudhi::Simplex_tree<OPT> ST; ST* st=new ST(); std::string line;
  while(std::getline(std::cin,line)){ std::istringstream is(line); std::string op; is>>op;
    if(op=="new"){ delete st; st=new ST(); std::cout<<"new\n"; continue; }
    if(op=="insf"){ long f; is>>f; std::vector<int> w; int x; while(is>>x) w.push_back(x); st->insert_simplex_and_subfaces(w,(double)f); dump(*st); }
    else if(op=="assign"){ long f; is>>f; std::vector<int> w; int x; while(is>>x) w.push_back(x); st->assign_filtration(st->find(w),(double)f); dump(*st); }
    else if(op=="mfnd"){ bool m=st->make_filtration_non_decreasing(); dump(*st, m?"1 ":"0 "); }
    else std::cout<<"bad\n"; }
}
