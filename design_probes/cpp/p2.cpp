#include <iostream>
#include <gudhi/Simplex_tree.h>
using namespace Gudhi;
template<class ST> void run(const char* name){
  std::cout<<"== "<<name<<"\n";
  { ST st; st.insert_simplex_and_subfaces({0,1,2}, 1.0);
    auto sh = st.find({0,1,2});
    int c=0; for (auto s: st.star_simplex_range(sh)) {(void)s; ++c;}
    std::cout<<"star(top [0,1,2]) size="<<c<<" (expected 1)\n";
    auto e = st.find({0,1}); c=0; for (auto s: st.star_simplex_range(e)) {(void)s;++c;}
    std::cout<<"star([0,1]) size="<<c<<" (expected 2)\n";
    c=0; for (auto s: st.cofaces_simplex_range(e,1)) {(void)s;++c;}
    std::cout<<"cofaces([0,1],1) size="<<c<<" (expected 1)\n";
  }
  { ST st; st.insert_simplex({0},0.); st.insert_simplex({1},0.);
    st.remove_maximal_simplex(st.find({0})); st.remove_maximal_simplex(st.find({1}));
    std::cout<<"emptied by removals: num_simplices="<<st.num_simplices()<<" dimension()="<<st.dimension()<<" (expected -1)\n";
  }
  { ST st; st.insert_simplex_and_subfaces({0,1,2}, 1.0); st.remove_maximal_simplex(st.find({0,1,2}));
    ST cp(st);
    std::cout<<"copy of pending-lowered: eq="<<(cp==st)<<" cp.dim="<<cp.dimension()<<" st.dim="<<st.dimension()<<" (expected 1 1)\n";
    ST as; as.insert_simplex({5},0.); as = st;
    std::cout<<"assign: as.dim="<<as.dimension()<<"\n";
  }
  { ST st; st.insert_simplex_and_subfaces({0,1,2}, 1.0); ST b; b = std::move(st);
    std::cout<<"moved-from after move-assign: num="<<st.num_simplices()<<" dim="<<st.dimension()<<" (expected 0 -1)\n";
    st.insert_simplex({7},0.);
    std::cout<<"reuse moved-from: num="<<st.num_simplices()<<" dim="<<st.dimension()<<" (expected 1 0)\n";
  }
  { ST st; st.expansion(3); std::cout<<"expansion on empty: dim="<<st.dimension()<<" (expected -1)\n"; }
  { ST st; st.insert_simplex({0},0.); st.insert_simplex({1},0.); st.insert_simplex({0,1},1.);
    st.expansion_with_blockers(0, [](auto){return false;});
    std::cout<<"expansion_with_blockers(0) ok num="<<st.num_simplices()<<" dim="<<st.dimension()<<"\n"; }
}
int main(){ std::cout.setf(std::ios::unitbuf); run<Simplex_tree<>>("default"); run<Simplex_tree<Simplex_tree_options_full_featured>>("full_featured"); run<Simplex_tree<Simplex_tree_options_fast_persistence>>("fast_persistence"); }
