#include <iostream>
#include <sstream>
#include <vector>
#include <string>
#include <algorithm>
#include <gudhi/Matrix.h>
#include <gudhi/persistence_matrix_options.h>
using namespace Gudhi::persistence_matrix;
struct RU_o : Default_options<Column_types::COLT, true> { static const bool has_column_pairings=true; static const bool has_vine_update=VINE; };
struct Ch_o : Default_options<Column_types::COLT, true> { static const bool has_column_pairings=true; static const bool is_of_boundary_type=false; };
struct Bd_o : Default_options<Column_types::COLT, true> { static const bool has_column_pairings=true; };
template<class M> std::string bars(const std::vector<std::vector<unsigned>>& cols){
  M m; for(auto&c:cols) m.insert_boundary(c);
  std::vector<std::pair<long,long>> v; for(auto& b: m.get_current_barcode()) v.push_back({(long)b.birth, b.death==(decltype(b.death))-1? -1 : (long)b.death});
  std::sort(v.begin(),v.end()); std::ostringstream os; bool first=true; for(auto&p:v){ if(!first) os<<" "; first=false; os<<p.first<<":"; if(p.second<0) os<<"inf"; else os<<p.second; } return os.str(); }
int main(int argc,char**argv){ std::ios::sync_with_stdio(false); std::string which=argv[1]; std::string line;
  while(std::getline(std::cin,line)){ std::vector<std::vector<unsigned>> cols; std::istringstream is(line); std::string part;
    while(std::getline(is,part,'|')){ std::istringstream ps(part); std::vector<unsigned> c; unsigned x; while(ps>>x) c.push_back(x); cols.push_back(c);}    
    if(which=="ru") std::cout<<bars<Matrix<RU_o>>(cols)<<"\n"; else if(which=="chain") std::cout<<bars<Matrix<Ch_o>>(cols)<<"\n"; else std::cout<<bars<Matrix<Bd_o>>(cols)<<"\n"; }
}
