#include <iostream>
#include <gudhi/Simplex_tree.h>
#include <gudhi/Matrix.h>
#include <gudhi/persistence_matrix_options.h>
#include <gudhi/Skeleton_blocker.h>
using namespace Gudhi;
using namespace Gudhi::persistence_matrix;
template<Column_types C> struct Z2_o : Default_options<C, true> { static const bool has_column_and_row_swaps = true; };
int main(int argc,char**argv){ std::cout.setf(std::ios::unitbuf); int w=argc>1?atoi(argv[1]):0;
 if(w==0){ Simplex_tree<> st; for(int i=0;i<4;i++) st.insert_simplex({i},0.); for(int i=0;i<4;i++)for(int j=i+1;j<4;j++) st.insert_simplex({i,j},1.);
   st.expansion_with_blockers(0,[](auto){return false;}); std::cout<<"expansion_with_blockers(0) on K4: num="<<st.num_simplices()<<" dim="<<st.dimension()<<" (expected 10, 1)\n";
   Simplex_tree<> s2; for(int i=0;i<4;i++) s2.insert_simplex({i},0.); for(int i=0;i<4;i++)for(int j=i+1;j<4;j++) s2.insert_simplex({i,j},1.);
   s2.expansion_with_blockers(1,[](auto){return false;}); std::cout<<"expansion_with_blockers(1) on K4: num="<<s2.num_simplices()<<" dim="<<s2.dimension()<<" (expected 10, 1)\n"; }
 if(w==1){ // heap: add a non-heap range into empty target
   using M = Matrix<Z2_o<Column_types::HEAP>>; std::vector<std::vector<unsigned>> cols={{},{0,1,2,3,4,5,6}}; M m(cols);
   m.add_to(1,0); auto v=m.get_column(0).get_content(7); std::cout<<"heap col0 after += col1: "; for(auto x:v) std::cout<<x<<" "; std::cout<<"\n";
   m.add_to(1,0); std::cout<<"after adding again: zero="<<m.is_zero_column(0)<<" (expected 1)\n";
   std::vector<unsigned> rng={0,1,2,3,4,5,6}; M m2(cols); m2.add_to(rng,0); m2.add_to(1,0); std::cout<<"heap: range added to empty then column added: zero="<<m2.is_zero_column(0)<<" (expected 1)\n"; }
 if(w==2){ using M = Matrix<Z2_o<Column_types::SET>>; std::vector<std::vector<unsigned>> cols={{0,2},{1}}; M m(cols);
   m.swap_rows(0,5); auto v=m.get_column(0).get_content(7); std::cout<<"vector-container swap_rows(0,5): col0="; for(auto x:v) std::cout<<x<<" "; std::cout<<" (expected 0 0 1 0 0 1 0)\n"; }
 if(w==3){ using namespace Gudhi::skeleton_blocker; typedef Skeleton_blocker_complex<Skeleton_blocker_simple_traits> Complex; typedef Complex::Vertex_handle V; typedef Complex::Simplex S;
   Complex c(4); c.add_edge_without_blockers(V(0),V(1)); c.add_edge_without_blockers(V(1),V(2)); c.add_edge_without_blockers(V(2),V(3)); c.add_edge_without_blockers(V(0),V(3));
   std::cout<<"square; contract non-edge (0,2)?\n"; c.contract_edge(V(0),V(2)); std::cout<<" verts="<<c.num_vertices()<<" edges="<<c.num_edges()<<"\n";
   Complex d(4); d.add_edge_without_blockers(V(0),V(1)); d.add_edge_without_blockers(V(1),V(2)); d.add_edge_without_blockers(V(2),V(3)); d.add_edge_without_blockers(V(0),V(3));
   d.contract_edge(V(0),V(1)); std::cout<<"square; contract edge (0,1): verts="<<d.num_vertices()<<" edges="<<d.num_edges()<<" (expected 3,3) contains(0,2)="<<d.contains_edge(V(0),V(2))<<" contains(0,3)="<<d.contains_edge(V(0),V(3))<<" contains(2,3)="<<d.contains_edge(V(2),V(3))<<"\n"; }
}
