#include <iostream>
#include <vector>
#include <gudhi/Simplex_tree.h>
#include <gudhi/Persistence_landscape_on_grid.h>
#include <gudhi/Persistence_landscape.h>
using namespace Gudhi;
int main(int argc,char**argv){ std::cout.setf(std::ios::unitbuf);
  int which = argc>1? atoi(argv[1]):0;
  if(which==0){
    std::vector<std::pair<double,double>> d = {{0,4}};
    Persistence_representations::Persistence_landscape_on_grid g(d, 0., 4., 4);
    Persistence_representations::Persistence_landscape L(d);
    for(double x : {0.,1.,1.5,2.,3.,4.}) std::cout<<"x="<<x<<" exact="<<L.compute_value_at_a_given_point(0,x)<<" grid="<<g.compute_value_at_a_given_point(0,x)<<"\n";
  } else {
    Simplex_tree<> st; st.insert_simplex_and_subfaces({0,1,2},1.); st.insert_simplex_and_subfaces({2,3},2.);
    std::size_t n = st.get_serialization_size();
    std::vector<char> buf(n); st.serialize(buf.data(), n);
    std::cout<<"size="<<n<<"\n";
    // exact-size heap copy truncated by k bytes
    int k = which; 
    char* tb = new char[n-k]; std::copy(buf.begin(), buf.end()-k, tb);
    Simplex_tree<> st2;
    try { st2.deserialize(tb, n-k); std::cout<<"deserialize truncated by "<<k<<": no exception!\n"; }
    catch(std::exception& e){ std::cout<<"exception: "<<e.what()<<"\n"; }
    delete[] tb;
  }
}
