#include <iostream>
#include <gudhi/Matrix.h>
#include <gudhi/persistence_matrix_options.h>
using namespace Gudhi::persistence_matrix;
struct Ch_o : Default_options<Column_types::INTRUSIVE_SET, true> { static const bool is_of_boundary_type=false; static const bool has_vine_update=true; static const bool has_column_pairings=true; static const bool has_map_column_container=true; static const bool has_removable_columns=true; static const bool has_row_access=true; static const bool has_removable_rows=true;
  static const Column_indexation_types column_indexation_type = Column_indexation_types::POSITION;};
struct RU_o : Default_options<Column_types::INTRUSIVE_SET, true> { static const bool has_vine_update=true; static const bool has_column_pairings=true; static const bool has_map_column_container=true; static const bool has_removable_columns=true;};
template<class M> void bc(M& m, const char* t){ std::cout<<t<<": "; for(auto& b: m.get_current_barcode()) std::cout<<"["<<b.dim<<":"<<(int)b.birth<<","<<(int)b.death<<") "; std::cout<<"\n"; }
template<class M> void run(const char*n){
  std::cout<<"== "<<n<<"\n";
  // vertices 0,1,2; edges 3=[0,1], 4=[1,2] : swap positions 3,4 (two edges not face/coface), then remove_last
  M m; m.insert_boundary({}); m.insert_boundary({}); m.insert_boundary({}); m.insert_boundary({0,1}); m.insert_boundary({1,2});
  bc(m,"initial");
  m.vine_swap(3);
  bc(m,"after swap(3,4) : order now v0 v1 v2 [1,2] [0,1]");
  m.remove_last();
  bc(m,"after remove_last (expected: v0 v1 v2 + edge [1,2]: [0:0,inf) [0:1,inf) [0:2,3) )");
  std::cout<<"ncols="<<m.get_number_of_columns()<<"\n"; m.insert_boundary({0,1}); bc(m,"after re-inserting [0,1] (expected [0:0,inf) [0:1,4) [0:2,3))");
  M f; f.insert_boundary({}); f.insert_boundary({}); f.insert_boundary({}); f.insert_boundary({1,2}); bc(f,"fresh v0 v1 v2 [1,2]");
}
int main(){ std::cout.setf(std::ios::unitbuf); run<Matrix<RU_o>>("RU"); run<Matrix<Ch_o>>("chain pos-idx"); }
