#include <iostream>
#include <gudhi/Matrix.h>
#include <gudhi/persistence_matrix_options.h>
using namespace Gudhi::persistence_matrix;
template<Column_types C> struct Zp_o : Default_options<C, false> { static const bool has_column_and_row_swaps = true; };
template<Column_types C> struct Z2_o : Default_options<C, true> { static const bool has_column_and_row_swaps = true; };
template<Column_types C> struct Z2m_o : Default_options<C, true> { static const bool has_column_and_row_swaps = true; static const bool has_map_column_container=true;};
template<class M> void show(M& m, unsigned n, unsigned rows){
  for(unsigned c=0;c<n;++c){ auto v = m.get_column(c).get_content(rows); std::cout<<"  col"<<c<<": "; for(auto x: v) std::cout<<x<<" "; std::cout<<" empty="<<m.is_zero_column(c)<<"\n"; }
}
template<Column_types C> void zp(const char* n){
  std::cout<<"== Zp "<<n<<"\n";
  using M = Matrix<Zp_o<C>>;
  std::vector<std::vector<std::pair<unsigned,unsigned>>> cols = { {{0,1},{2,3}}, {} };
  M m(cols, 5);
  m.multiply_source_and_add_to(2, 0, 1); // col1 += 2*col0 -> (2,0,1)
  std::cout<<" after col1 += 2*col0 into empty (expected 2 0 1):\n"; show(m,2,3);
}
template<Column_types C> void z2(const char* n){
  std::cout<<"== Z2 "<<n<<"\n";
  using M = Matrix<Z2_o<C>>;
  std::vector<std::vector<unsigned>> cols = { {0,2}, {1}, {} };
  M m(cols);
  m.zero_entry(1, 2); // absent entry
  std::cout<<" after zero_entry(col1,row2) absent: is_zero_column(1)="<<m.is_zero_column(1)<<" (expected 0)\n";
  m.add_to(0,1); // col1 = {0,1,2}
  std::cout<<" after col1 += col0 (expected 1 1 1):\n"; show(m,3,3);
  m.zero_entry(0,0); // lazily erase row 0 in col0 -> col0={2}
  m.add_to(0,2); // col2 (empty) += col0 -> {2}
  std::cout<<" after zero_entry(0,0); col2 += col0 (expected col2 = 0 0 1):\n"; show(m,3,3);
}
int main(){ std::cout.setf(std::ios::unitbuf);
  zp<Column_types::HEAP>("heap"); zp<Column_types::VECTOR>("vector"); zp<Column_types::LIST>("list"); zp<Column_types::SET>("set");
  z2<Column_types::VECTOR>("vector"); z2<Column_types::HEAP>("heap"); z2<Column_types::SET>("set");
}
