// random differential run of Toplex_map / Lazy_toplex_map against the abstract complex (set of all simplices)
#include <iostream>
#include <random>
#include <vector>
#include <set>
#include <map>
#include <string>
#include <sstream>
#include <algorithm>
#include <gudhi/Toplex_map.h>
#include <gudhi/Lazy_toplex_map.h>
typedef std::set<unsigned> Ref;   // simplices as bitmasks over NV vertices
static std::vector<std::size_t> tov(unsigned m){ std::vector<std::size_t> v; for(int k=0;k<8;k++) if(m>>k&1) v.push_back(k); return v; }
int main(int argc,char**argv){ std::mt19937 g(atoi(argv[1])); int N=atoi(argv[2]); int L=atoi(argv[3]); bool allow_nonmax_remove=argc>4;
  std::map<std::string,long> tally; long ops=0; int shown=0;
  for(int it=0;it<N;it++){ int nv=2+g()%4; Gudhi::Toplex_map tm; Gudhi::Lazy_toplex_map lm; Ref ref, refL; bool lazyAlive=true; std::ostringstream hist; bool ok=true;
    for(int step=0;step<L&&ok;step++){ int op=g()%10; std::ostringstream o;
      if(op<5){ unsigned m=1+g()%((1u<<nv)-1); o<<"ins "<<m; auto v=tov(m); tm.insert_simplex(v); lm.insert_simplex(v); for(unsigned s=1;s<(1u<<nv);s++) if((s&m)==s){ ref.insert(s); refL.insert(s);} }
      else if(op<7){ std::vector<unsigned> cand; for(unsigned s:ref){ bool mx=true; for(unsigned t:ref) if(t!=s && (t&s)==s) mx=false; bool mxL=true; if(refL.count(s)) for(unsigned t:refL) if(t!=s && (t&s)==s) mxL=false; if((mx&&mxL)||allow_nonmax_remove) cand.push_back(s);} if(cand.empty()) continue; unsigned m=cand[g()%cand.size()]; o<<"rm "<<m; auto v=tov(m); tm.remove_simplex(v); if(refL.count(m)) lm.remove_simplex(v); for(auto i=ref.begin();i!=ref.end();) if((*i&m)==m) i=ref.erase(i); else ++i; for(auto i=refL.begin();i!=refL.end();) if((*i&m)==m) i=refL.erase(i); else ++i; }
      else if(op<8){ unsigned x=g()%nv; if(!ref.count(1u<<x)) continue; o<<"rmv "<<x; tm.remove_vertex(x); for(auto i=ref.begin();i!=ref.end();) if(*i>>x&1) i=ref.erase(i); else ++i;  lazyAlive=false; /* the lazy map has no remove_vertex */ }
      else if(op<9){ unsigned x=g()%nv, y=g()%nv; if(x==y) continue; if(!ref.count(1u<<x)||!ref.count(1u<<y)||!lazyAlive||!refL.count(1u<<x)||!refL.count(1u<<y)) continue; o<<"contract "<<x<<" "<<y; auto r=tm.contraction(x,y); auto r2=lm.contraction(x,y); unsigned keep=r, drop= (r==x)? y : x; unsigned keep2=r2; (void)keep2;
        Ref nr; for(unsigned s:ref){ unsigned t=s; if(t>>drop&1){ t&=~(1u<<drop); t|=(1u<<keep); } nr.insert(t); } ref=nr; unsigned keepL=r2, dropL=(r2==x)?y:x; Ref nl; for(unsigned s:refL){ unsigned t=s; if(t>>dropL&1){ t&=~(1u<<dropL); t|=(1u<<keepL); } nl.insert(t); } refL=nl; }
      else continue;
      hist<<o.str()<<"; "; ops++; std::string bad;
      for(unsigned s=1;s<(1u<<nv)&&bad.empty();s++){ auto v=tov(s); bool mem=ref.count(s); if(tm.membership(v)!=mem) bad="eager membership"; else if(lazyAlive && lm.membership(v)!=(bool)refL.count(s)) bad="lazy membership"; else { bool mx=mem; if(mem) for(unsigned t:ref) if(t!=s&&(t&s)==s) mx=false; if(mem && tm.maximality(v)!=mx) bad="eager maximality"; } }
      if(bad.empty()){ std::size_t nmax=0; for(unsigned s:ref){ bool mx=true; for(unsigned t:ref) if(t!=s&&(t&s)==s) mx=false; nmax+=mx; } if(tm.num_maximal_simplices()!=nmax) bad="eager num_maximal_simplices"; }
      if(!bad.empty()){ ok=false; tally[bad]++; if(shown<5){ shown++; std::cout<<"DIVERGENCE ("<<bad<<"): "<<hist.str()<<"\n"; } }
    } }
  std::cout<<"ops "<<ops<<" histories "<<N<<" ; diverging observable:"; for(auto&kv:tally) std::cout<<" "<<kv.first<<"="<<kv.second; std::cout<<"\n"; }
