// probe: add_and_multiply on reduced operands overflows 32 bits for primes above 46341
#include <iostream>
#include <gudhi/Fields/Zp_field_operators.h>
using namespace Gudhi::persistence_fields;
int main(){
  std::cout.setf(std::ios::unitbuf);
  { Zp_field_operators<> f(65521); unsigned x=65520;
    std::cout<<"operators p=65521 add_and_multiply(p-1,p-1,p-1) = "<<f.add_and_multiply(x,x,x)<<" (expected 2)\n";
    std::cout<<"operators p=65521 multiply_and_add(p-1,p-1,p-1) = "<<f.multiply_and_add(x,x,x)<<" (expected 0)\n";
    unsigned e=x; f.add_and_multiply_inplace_front(e,x,x); std::cout<<"  inplace_front = "<<e<<"\n"; }
  { Zp_field_operators<> f(46349); unsigned x=46348;
    std::cout<<"operators p=46349 add_and_multiply(p-1,p-1,p-1) = "<<f.add_and_multiply(x,x,x)<<" (expected 2)\n"; }
  { Zp_field_operators<> f(46337); unsigned x=46336;
    std::cout<<"operators p=46337 add_and_multiply(p-1,p-1,p-1) = "<<f.add_and_multiply(x,x,x)<<" (expected 2)\n"; }
  return 0;
}
