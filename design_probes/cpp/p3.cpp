#include <cassert>
#include <iostream>
#include <gudhi/Fields/Zp_field_operators.h>
#include <gudhi/Fields/Zp_field.h>
#include <gudhi/Fields/Zp_field_shared.h>
#include <gudhi/Fields/Z2_field.h>
#include <gudhi/Fields/Multi_field_small_operators.h>
#include <gudhi/Fields/Multi_field_operators.h>
#include <gudhi/Persistent_cohomology/Multi_field.h>
#include <gudhi/Persistent_cohomology/Field_Zp.h>
using namespace Gudhi::persistence_fields;
int main(){
  std::cout.setf(std::ios::unitbuf);
  Zp_field_operators<> op(5);
  std::cout<<"Zp_ops(5).get_value(-7)="<<op.get_value(-7)<<" (expected 3)\n";
  std::cout<<"Zp_ops(5).get_value(-5)="<<op.get_value(-5)<<" (expected 0)\n";
  std::cout<<"Zp_ops(5).get_value(-6L)="<<op.get_value(-6L)<<" (expected 4)\n";
  Zp_field_element<5> e(-7); std::cout<<"Zp_field_element<5>(-7)="<<e.get_value()<<" (expected 3)\n";
  Shared_Zp_field_element<>::initialize(7); Shared_Zp_field_element<> s(-9); std::cout<<"Shared<7>(-9)="<<s.get_value()<<" (expected 5)\n";
  Z2_field_element z(-3); std::cout<<"Z2(-3)="<<z.get_value()<<" (expected 1)\n";
  Zp_field_operators<> big(65521);
  std::cout<<"Zp(65521) mul_add(65520,65520,65520)="<<big.multiply_and_add(65520,65520,65520)<<" expected "<<(unsigned)((65520ULL*65520ULL+65520ULL)%65521ULL)<<"\n";
  Multi_field_operators_with_small_characteristics m(2,5); // primes 2,3,5 prod 30
  auto r = m.get_partial_inverse(5, 6);
  std::cout<<"small multi [2,5]: partial_inverse(5, Q=6) = ("<<r.first<<","<<r.second<<") expected T=6, value v with v%2==1, (5v)%3==1, v%5==0 -> v=25\n";
  Multi_field_operators mg(2,5);
  auto rg = mg.get_partial_inverse(5, 6);
  std::cout<<"gmp multi [2,5]: partial_inverse(5, Q=6) = ("<<rg.first<<","<<rg.second<<")\n";
  Multi_field_operators_with_small_characteristics m2(2,23); // 223092870
  unsigned a=223092869u,b=223092868u,c=7;
  std::cout<<"small multi [2,23]: multiply_and_add("<<a<<","<<b<<","<<c<<")="<<m2.multiply_and_add(a,b,c)<<" expected "<<(unsigned)(((unsigned long long)a*b+c)%223092870ULL)<<"\n";
  std::cout<<"small multi [2,23]: multiply="<<m2.multiply(a,b)<<" expected "<<(unsigned)(((unsigned long long)a*b)%223092870ULL)<<"\n";
  Gudhi::persistent_cohomology::Multi_field mf; mf.init(2,5);
  std::cout<<"cohomology Multi_field[2,5] times_minus(0,7)="<<mf.times_minus(0,7)<<" (expected 0)\n";
  std::cout<<"cohomology Multi_field[2,5] times_minus(6,5)="<<mf.times_minus(6,5)<<" (expected 0)\n";
  Gudhi::persistent_cohomology::Field_Zp fz; fz.init(7);
  std::cout<<"Field_Zp(7) times_minus(0,3)="<<fz.times_minus(0,3)<<" plus_times_equal(6,6,6)="<<fz.plus_times_equal(6,6,6)<<"\n";
  std::cout<<"small multi [2,5]: partial_inverse(10, Q=6) -> ";
  auto r2 = m.get_partial_inverse(10, 6); std::cout<<"("<<r2.first<<","<<r2.second<<")\n";
}
