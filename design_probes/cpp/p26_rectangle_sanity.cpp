// sanity check of the C14 2D oracle path: Persistence_on_rectangle vs cubical complex + persistent cohomology
#include <iostream>
#include <random>
#include <vector>
#include <map>
#include <tuple>
#include <algorithm>
#include <gudhi/Persistence_on_rectangle.h>
#include <gudhi/Bitmap_cubical_complex.h>
#include <gudhi/Persistent_cohomology.h>
typedef Gudhi::cubical_complex::Bitmap_cubical_complex_base<double> Base;
typedef Gudhi::cubical_complex::Bitmap_cubical_complex<Base> CC;
typedef std::vector<std::tuple<int,double,double>> Diag;
int main(int argc,char**argv){ std::mt19937 g(atoi(argv[1])); int N=atoi(argv[2]); int maxside=atoi(argv[3]); int vals=atoi(argv[4]);
  std::map<std::string,std::pair<long,long>> stat; int shown=0;
  for(int it=0;it<N;it++){ unsigned r=2+g()%(maxside-1), c=2+g()%(maxside-1); std::vector<double> in(r*c); for(auto&x:in) x=g()%vals;
    for(int mode=0; mode<1; mode++){
    Diag a; double gm;
    if(mode==0) gm=Gudhi::cubical_complex::persistence_on_rectangle_from_top_cells(in.data(), r, c, [&](double b,double d){ if(b<d) a.push_back({0,b,d}); }, [&](double b,double d){ if(b<d) a.push_back({1,b,d}); });
    else gm=0;
    a.push_back({0,gm,1e9}); std::sort(a.begin(),a.end());
    // cubical: sizes in "x fastest" order: input is C order rows x cols => x = cols, y = rows
    std::vector<unsigned> sizes={c,r}; CC cc(sizes,in,mode==0);
    Gudhi::persistent_cohomology::Persistent_cohomology<CC,Gudhi::persistent_cohomology::Field_Zp> pc(cc,true); pc.init_coefficients(2); pc.compute_persistent_cohomology(0);
    Diag b; for(auto&pr:pc.get_persistent_pairs()){ double bb=cc.filtration(std::get<0>(pr)); double dd= std::get<1>(pr)==cc.null_simplex()?1e9:cc.filtration(std::get<1>(pr)); if(bb<dd) b.push_back({cc.dimension(std::get<0>(pr)),bb,dd}); }
    std::sort(b.begin(),b.end());
    std::string key=std::string(mode==0?"top ":"vtx ")+((r==2||c==2)?"side2":"sides>=3"); stat[key].first++; if(a!=b){ stat[key].second++; if(shown<3 && !(r==2||c==2)){ shown++; std::cout<<"MISMATCH "<<key<<" "<<r<<"x"<<c<<":"; for(auto x:in) std::cout<<" "<<x; std::cout<<"\n"; } } } }
  for(auto&kv:stat) std::cout<<kv.first<<": "<<kv.second.first<<" inputs, "<<kv.second.second<<" mismatches\n"; }
