#include <cassert>
#include <iostream>
#include <gudhi/Simplex_tree.h>
#include <gudhi/Persistent_cohomology.h>
#include <gudhi/Persistent_cohomology/Multi_field.h>
using namespace Gudhi;
typedef Simplex_tree<> ST;
void rp2(ST& st){
  // minimal triangulation of RP2 (6 vertices, 10 triangles)
  int T[10][3]={{0,1,2},{0,2,3},{0,3,4},{0,4,5},{0,1,5},{1,2,4},{2,3,5},{1,3,4},{2,4,5},{1,3,5}};
  // filtration: insert triangles at increasing values to make things non-trivial
  for(int i=0;i<10;i++){ st.insert_simplex_and_subfaces({T[i][0],T[i][1],T[i][2]}, 1.0+i); }
}
template<class F, class... A> void run(const char* name, A... a){
  ST st; rp2(st);
  persistent_cohomology::Persistent_cohomology<ST,F> pc(st, true);
  pc.init_coefficients(a...);
  pc.compute_persistent_cohomology(-1);
  std::cout<<"== "<<name<<"\n";
  for(auto& p: pc.get_persistent_pairs()){
    std::cout<<"  "<<std::get<2>(p)<<"  dim "<<st.dimension(std::get<0>(p))<<" ["<<st.filtration(std::get<0>(p))<<","<<st.filtration(std::get<1>(p))<<")\n";
  }
}
int main(){ std::cout.setf(std::ios::unitbuf);
  run<persistent_cohomology::Field_Zp>("Z2", 2);
  run<persistent_cohomology::Field_Zp>("Z3", 3);
  run<persistent_cohomology::Multi_field>("multi [2,3]", 2, 3);
  run<persistent_cohomology::Multi_field>("multi [2,5]", 2, 5);
}
