import random, sys, itertools
rnd=random.Random(int(sys.argv[1])); N=int(sys.argv[2])
for _ in range(N):
    nv=rnd.randint(2,5); L=rnd.randint(1,24)
    cur={}  # simplex(tuple) -> id
    ops=[]; seq=[]
    for step in range(L):
        cands_ins=[]
        for k in range(1,min(nv,4)+1):
            for s in itertools.combinations(range(nv),k):
                if s not in cur and all((s[:i]+s[i+1:]) in cur for i in range(k) if k>1):
                    cands_ins.append(s)
        maximal=[s for s in cur if not any(set(s)<set(t) for t in cur)]
        if cands_ins and (not maximal or rnd.random()<0.62):
            s=rnd.choice(cands_ins); bd=[cur[s[:i]+s[i+1:]] for i in range(len(s))] if len(s)>1 else []
            ops.append("i %d %s"%(len(s)-1," ".join(map(str,bd)))); cur[s]=step; seq.append(("+",s))
        elif maximal:
            s=rnd.choice(sorted(maximal)); ops.append("r %d"%cur[s]); del cur[s]; seq.append(("-",s))
        else: break
    print(";".join(ops)+"\t"+repr(seq))
