// filtered zigzag front-ends (with storage, streaming) vs the plain Zigzag_persistence with the index->value map applied by hand
#include <iostream>
#include <random>
#include <vector>
#include <map>
#include <set>
#include <tuple>
#include <algorithm>
#include <limits>
#include <gudhi/zigzag_persistence.h>
#include <gudhi/filtered_zigzag_persistence.h>
typedef std::vector<int> S; typedef std::vector<std::tuple<int,double,double>> Diag;
int main(int argc,char**argv){ std::mt19937 g(atoi(argv[1])); int N=atoi(argv[2]); long bad1=0,bad2=0,bars=0; int shown=0; const double INF=std::numeric_limits<double>::infinity();
  for(int it=0;it<N;it++){ int nv=2+g()%4; int L=1+g()%24; std::map<S,int> cur; // simplex -> key (arbitrary non-contiguous)
    Gudhi::zigzag_persistence::Filtered_zigzag_persistence_with_storage<> fs;
    Diag streamed; Gudhi::zigzag_persistence::Filtered_zigzag_persistence<> fz([&](int d,double b,double de){ streamed.push_back({d,std::min(b,de),std::max(b,de)}); });
    std::vector<std::tuple<int,int,int>> idx; Gudhi::zigzag_persistence::Zigzag_persistence<> zp([&](int d,int b,int de){ idx.push_back({d,b,de}); });
    std::map<int,int> keyToId; std::vector<double> val; bool monotone=g()%2; double f=0; int nextKey=100;
    for(int step=0;step<L;step++){ std::vector<S> ins; for(unsigned m=1;m<(1u<<nv);m++){ S s; for(int k=0;k<nv;k++) if(m>>k&1) s.push_back(k); if(s.size()>3||cur.count(s)) continue; bool ok=true; if(s.size()>1) for(size_t k=0;k<s.size();k++){ S t=s; t.erase(t.begin()+k); if(!cur.count(t)) ok=false; } if(ok) ins.push_back(s);} 
      std::vector<S> mx; for(auto&kv:cur){ bool m=true; for(auto&kw:cur) if(kw.first.size()>kv.first.size()&&std::includes(kw.first.begin(),kw.first.end(),kv.first.begin(),kv.first.end())) m=false; if(m) mx.push_back(kv.first);} 
      if(monotone) f+= (g()%3)*0.5; else f=(g()%5)*0.5;
      if(!ins.empty() && (mx.empty()||g()%10<6)){ S s=ins[g()%ins.size()]; int key=nextKey; nextKey+=1+g()%3; std::vector<int> bk, bi; if(s.size()>1) for(size_t k=0;k<s.size();k++){ S t=s; t.erase(t.begin()+k); bk.push_back(cur[t]); bi.push_back(keyToId[cur[t]]); } std::sort(bi.begin(),bi.end());
        fs.insert_cell(key,bk,(int)s.size()-1,f); fz.insert_cell(key,bk,(int)s.size()-1,f); zp.insert_cell(bi,(int)s.size()-1); cur[s]=key; keyToId[key]=(int)val.size(); val.push_back(f); }
      else if(!mx.empty()){ S s=mx[g()%mx.size()]; int key=cur[s]; fs.remove_cell(key,f); fz.remove_cell(key,f); zp.remove_cell(keyToId[key]); cur.erase(s); val.push_back(f); }
      else break; }
    // expected: index intervals mapped through the value of their arrows; zero-length removed; open ones -> inf
    Diag expect; for(auto&t:idx){ double b=val[std::get<1>(t)], d=val[std::get<2>(t)]; if(b>d) std::swap(b,d); if(d-b>0) expect.push_back({std::get<0>(t),b,d}); }
    zp.get_current_infinite_intervals([&](int d,int b){ expect.push_back({d,val[b],INF}); });
    std::sort(expect.begin(),expect.end()); bars+=expect.size();
    Diag a; for(auto&b: fs.get_persistence_diagram()) a.push_back({b.dim,b.birth,b.death}); std::sort(a.begin(),a.end());
    fz.get_current_infinite_intervals([&](int d,double b){ streamed.push_back({d,b,INF}); }); std::sort(streamed.begin(),streamed.end());
    if(a!=expect){ bad1++; if(shown<3){ shown++; std::cout<<"MISMATCH storage: expected "<<expect.size()<<" bars got "<<a.size()<<"\n"; } }
    if(streamed!=expect) bad2++;
  }
  std::cout<<"zigzags "<<N<<" bars "<<bars<<" ; mismatches: with_storage "<<bad1<<", streaming "<<bad2<<"\n"; }
