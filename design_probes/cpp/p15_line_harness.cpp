#include <iostream>
#include <sstream>
#include <vector>
#include <string>
#include <limits>
#include <gudhi/Persistence_on_a_line.h>
int main(){ std::ios::sync_with_stdio(false); std::string line;
  while(std::getline(std::cin,line)){ std::istringstream is(line); std::vector<double> v; double x; while(is>>x) v.push_back(x);
    if(v.empty()){ std::cout<<"empty\n"; continue; }
    std::vector<std::pair<long,long>> out; long m=0;
    Gudhi::persistent_cohomology::compute_persistence_of_function_on_line(v,[&](double b,double d){ if(d==std::numeric_limits<double>::infinity()) m=(long)b; else out.push_back({(long)b,(long)d}); });
    // the model accumulates pairs in reverse emission order, the final call is (min, infinity) -> for integer types infinity() is 0
    std::cout<<m<<" ["; bool first=true; for(auto it=out.rbegin(); it!=out.rend(); ++it){ if(!first) std::cout<<", "; first=false; std::cout<<"("<<it->first<<", "<<it->second<<")"; } std::cout<<"]\n"; }
}
