#include <iostream>
#include <gudhi/Matrix.h>
#include <gudhi/persistence_matrix_options.h>
#include <gudhi/Skeleton_blocker.h>
using namespace Gudhi::persistence_matrix;
struct Cmp_o : Default_options<Column_types::INTRUSIVE_SET, true> { static const bool has_column_compression = true; static const bool has_row_access=true; static const bool has_removable_rows=true;};
struct Map_o : Default_options<Column_types::INTRUSIVE_SET, true> { static const bool has_column_and_row_swaps = true; static const bool has_map_column_container=true;};
int main(int argc,char**argv){ std::cout.setf(std::ios::unitbuf); int w = argc>1?atoi(argv[1]):0;
 if(w==0){
  using namespace Gudhi::skeleton_blocker;
  typedef Skeleton_blocker_complex<Skeleton_blocker_simple_traits> Complex; typedef Complex::Vertex_handle V; typedef Complex::Simplex S;
  Complex c(4); for(int i=0;i<4;i++) for(int j=i+1;j<4;j++) c.add_edge_without_blockers(V(i),V(j));
  c.add_blocker(S(V(0),V(1),V(2),V(3)));
  std::cout<<"before: contains(123)="<<c.contains(S(V(1),V(2),V(3)))<<"\n";
  c.remove_star(V(0));
  std::cout<<"after remove_star(v0): contains(123)="<<c.contains(S(V(1),V(2),V(3)))<<" (expected 1) contains(12)="<<c.contains(S(V(1),V(2)))<<" blockers="<<c.num_blockers()<<"\n";
 } else if(w==1){
  std::vector<std::vector<unsigned>> cols={{0,1},{0,1},{2}};
  Matrix<Cmp_o> m(cols);
  m.add_to(1,0); // col0 (class {0,1}) += col1 -> zero
  std::cout<<"compressed: after add_to(1,0): zero(0)="<<m.is_zero_column(0)<<" zero(1)="<<m.is_zero_column(1)<<"\n";
  m.add_to(2,0); // add col2 into zeroed col0
  std::cout<<"compressed: after add_to(2,0) into zero column: zero(0)="<<m.is_zero_column(0)<<" entry(0,2) zero="<<m.is_zero_entry(0,2)<<" (expected 0 0)\n";
 } else {
  Matrix<Map_o> m; m.insert_column(std::vector<unsigned>{0,2}); m.insert_column(std::vector<unsigned>{1}); m.insert_column(std::vector<unsigned>{3});
  m.swap_rows(0,3);
  for(int c=0;c<3;c++){ std::cout<<"col"<<c<<": "; for(auto x: m.get_column(c).get_content(5)) std::cout<<x<<" "; std::cout<<"\n";}
  std::cout<<"expected col0: 0 0 1 1 0; col1: 0 1 0 0 0; col2: 1 0 0 0 0\n";
  m.swap_rows(5,1);
  for(int c=0;c<3;c++){ std::cout<<"col"<<c<<": "; for(auto x: m.get_column(c).get_content(7)) std::cout<<x<<" "; std::cout<<"\n";}
  std::cout<<"expected col1: 0 0 0 0 0 1 0\n";
 }
}
