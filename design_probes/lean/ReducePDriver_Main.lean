import Proto.ReduceP
open ReducePProto AxpyProto

def parseEntry (t : String) : Option (Nat × Nat) :=
  match t.splitOn ":" with
  | [a, b] => match a.toNat?, b.toNat? with
    | some x, some y => some (x, y)
    | _, _ => none
  | _ => none

/-- input line: `p|col|col|…|`, each column a list of `row:coef`; output: sorted `birth:death` pairs -/
def parseLine (line : String) : Nat × List Col :=
  match line.trimAscii.toString.splitOn "|" with
  | [] => (2, [])
  | ps :: rest => (ps.toNat?.getD 2, (rest.dropLast).map fun c => ((c.trimAscii.toString.splitOn " ").filterMap parseEntry))

def showPairs (l : List (Nat × Option Nat)) : String :=
  let arr := l.toArray.qsort fun a b => a.1 < b.1
  String.intercalate " " (arr.toList.map fun (b, d) => toString b ++ ":" ++ (match d with | some x => toString x | none => "inf"))

partial def loop (h : IO.FS.Stream) : IO Unit := do
  let line ← h.getLine
  if line.isEmpty then return ()
  let (p, cols) := parseLine line
  IO.println (showPairs (pairs (reduceAll p cols.length cols)))
  loop h

def main : IO Unit := do loop (← IO.getStdin)
