import Proto.Line
open LineProto

def parseInts (s : String) : List Int := (s.trimAscii.toString.splitOn " ").filterMap String.toInt?

partial def loop (h : IO.FS.Stream) (n : Nat) : IO Nat := do
  let line ← h.getLine
  if line.isEmpty then return n
  match run (parseInts line) with
  | some (m, out) => IO.println s!"{m} {out}"
  | none => IO.println "empty"
  loop h (n + 1)

def main : IO Unit := do
  let n ← loop (← IO.getStdin) 0
  IO.eprintln s!"cases: {n}"
