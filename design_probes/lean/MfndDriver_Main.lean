import Proto.Trie4
import Proto.Mfnd3
open TrieProto Mfnd3Proto

def parseNats (l : List String) : List Nat := l.filterMap String.toNat?

def showDump (t : Forest) : String :=
  let items := (toList t).map fun (w, f) => String.intercalate "," (w.map toString) ++ ":" ++ toString f
  String.intercalate " " (items.toArray.qsort (· < ·)).toList

partial def loop (h : IO.FS.Stream) (t : Forest) : IO Unit := do
  let line ← h.getLine
  if line.isEmpty then return ()
  match line.trimAscii.toString.splitOn " " with
  | ["new"] => IO.println "new"; loop h Forest.nil
  | "insf" :: f :: w =>
    match f.toInt? with
    | some fv => let t' := (insF t (parseNats w) fv).1; IO.println (showDump t'); loop h t'
    | none => IO.println "bad"; loop h t
  | "assign" :: f :: w =>
    match f.toInt? with
    | some fv => let t' := setVal t (parseNats w) fv; IO.println (showDump t'); loop h t'
    | none => IO.println "bad"; loop h t
  | ["mfnd"] =>
    let t' := mfnd t
    IO.println ((if t' == t then "0 " else "1 ") ++ showDump t'); loop h t'
  | _ => IO.println "bad"; loop h t

def main : IO Unit := do loop (← IO.getStdin) Forest.nil
