import Proto.Reduce
open ReduceProto

/-- input line: boundaries separated by `|`, each a list of row indices; output: sorted `birth:death` pairs -/
def parseCols (line : String) : List (List Nat) :=
  (line.trimAscii.toString.splitOn "|").map fun c => ((c.trimAscii.toString.splitOn " ").filterMap String.toNat?)

def showPairs (l : List (Nat × Option Nat)) : String :=
  let arr := l.toArray.qsort fun a b => a.1 < b.1
  String.intercalate " " (arr.toList.map fun (b, d) => toString b ++ ":" ++ (match d with | some x => toString x | none => "inf"))

partial def loop (h : IO.FS.Stream) : IO Unit := do
  let line ← h.getLine
  if line.isEmpty then return ()
  IO.println (showPairs (pairs (stdReduce ((parseCols line).dropLast))))
  loop h

def main : IO Unit := do loop (← IO.getStdin)
