import Proto.Cam
open CamProto OrderProto

/-- input line: `p;v1 v2 … f|v1 … f|…` = prime, then simplices with values (to be closed under faces with min values) -/
def parseLine (line : String) : Nat × List (List Nat × Int) :=
  match line.trimAscii.toString.splitOn ";" with
  | [ps, rest] =>
    let p := ps.trimAscii.toString.toNat?.getD 2
    let items := (rest.splitOn "|").filterMap fun it =>
      let toks := (it.trimAscii.toString.splitOn " ").filter (· != "")
      match toks.reverse with
      | f :: vs => some (vs.reverse.filterMap String.toNat?, f.toInt?.getD 0)
      | [] => none
    (p, items)
  | _ => (2, [])

def closure (items : List (List Nat × Int)) : List Cell :=
  let withVal := items.flatMap fun (s, f) => ((subsets s).filter (· != [])).map fun t => (t, f)
  let uniq := withVal.foldl (fun (acc : List (List Nat × Int)) (fv : List Nat × Int) =>
    match acc.find? (·.1 == fv.1) with
    | some (_, g) => if fv.2 < g then (acc.filter (·.1 != fv.1)) ++ [fv] else acc
    | none => acc ++ [fv]) []
  let arr := uniq.toArray.qsort fun a b => before (a.2, a.1.reverse) (b.2, b.1.reverse)
  arr.toList.map fun (f, v) => ⟨f, v⟩

def showBars (l : List (Nat × Int × Option Int)) : String :=
  let strs := l.map fun (d, b, de) => toString d ++ ":" ++ toString b ++ ":" ++ (match de with | some x => toString x | none => "inf")
  String.intercalate " " (strs.toArray.qsort (· < ·)).toList

partial def loop (h : IO.FS.Stream) : IO Unit := do
  let line ← h.getLine
  if line.isEmpty then return ()
  let (p, items) := parseLine line
  IO.println (showBars (run p (closure items) true (-1)))
  loop h

def main : IO Unit := do loop (← IO.getStdin)
