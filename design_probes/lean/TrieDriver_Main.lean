import Proto.Trie4
open TrieProto

def parseNats (l : List String) : List Nat := l.filterMap String.toNat?

def showDump (t : Forest) : String :=
  String.intercalate " " ((toList t).map fun (w, f) => String.intercalate "," (w.map toString) ++ ":" ++ toString f)

partial def loop (h : IO.FS.Stream) (t : Forest) : IO Unit := do
  let line ← h.getLine
  if line.isEmpty then return ()
  match line.trimAscii.toString.splitOn " " with
  | ["new"] => IO.println "new"; loop h Forest.nil
  | "insf" :: f :: w =>
    match f.toInt? with
    | some fv => let t' := (insF t (parseNats w) fv).1; IO.println (showDump t'); loop h t'
    | none => IO.println "bad"; loop h t
  | "ins" :: f :: w =>
    match f.toInt? with
    | some fv => let t' := insert t (parseNats w) fv; IO.println (showDump t'); loop h t'
    | none => IO.println "bad"; loop h t
  | "rm" :: w => let t' := removeLeaf t (parseNats w); IO.println (showDump t'); loop h t'
  | ["prune", f] =>
    match f.toInt? with
    | some fv => let t' := prune t fv; IO.println (showDump t'); loop h t'
    | none => IO.println "bad"; loop h t
  | ["pruned", d] =>
    match d.toNat? with
    | some dv => let t' := pruneDim t dv; IO.println (showDump t'); loop h t'
    | none => IO.println "bad"; loop h t
  | _ => IO.println "bad"; loop h t

def main : IO Unit := do loop (← IO.getStdin) Forest.nil
