#!/usr/bin/env python3
"""Shared machinery of the GUDHI Lean-4 verification checks (see DESIGN.md section 2).

A property module props/Cxx.py describes: the Lean modules / theorems that are its proof obligations, its harness
(C++ over the real headers in /repo), its generator, and its correspondence streams.  This file does the rest:
Lean stage (translate, lake build, forbidden-token grep, axiom audit), harness build, running both sides on the same
history file, diffing, shrinking, known-finding classification, replay files, VIOLATION lines and evidence.
"""
import fcntl, hashlib, json, os, random, re, shutil, subprocess, sys, time, concurrent.futures as cf

VERIF = os.path.dirname(os.path.abspath(__file__))
REPO = os.environ.get('VERIF_REPO', '/repo')
LEAN = os.path.join(VERIF, 'lean')
BUILD = os.path.join(VERIF, '.build')
ALLOWED_AXIOMS = {'propext', 'Classical.choice', 'Quot.sound', 'choice'}
FORBIDDEN = re.compile(r'\b(sorry|admit|native_decide|bv_decide|implemented_by|unsafe)\b|^\s*axiom\s|maxHeartbeats\s+0\b')
GUARD = 'GUDHI_VERIF_HOOKS'

INCLUDES = ['Simplex_tree', 'Persistent_cohomology', 'Persistence_matrix', 'Zigzag_persistence', 'common', 'Collapse',
            'Bitmap_cubical_complex', 'Toplex_map', 'Skeleton_blocker', 'Persistence_representations', 'Rips_complex',
            'Coxeter_triangulation', 'Ripser', 'Subsampling', 'Spatial_searching', 'Contraction', 'Hasse_complex',
            'Alpha_complex', 'Cech_complex', 'Witness_complex', 'Tangential_complex', 'Bottleneck_distance', 'Nerve_GIC']


def inc_flags():
    fl = []
    for m in INCLUDES:
        d = os.path.join(REPO, 'src', m, 'include')
        if os.path.isdir(d):
            fl.append('-I' + d)
    fl.append('-I/usr/include/eigen3')
    return fl


def sh(cmd, **kw):
    return subprocess.run(cmd, stdout=subprocess.PIPE, stderr=subprocess.PIPE, text=True, **kw)


class Ctx:
    def __init__(self, pid, tier, seed, keep=False, replaying=False):
        self.pid, self.tier, self.seed, self.keep = pid, tier, seed, keep
        self.t0 = time.time()
        self.dir = os.path.join(BUILD, pid)
        os.makedirs(self.dir, exist_ok=True)
        os.makedirs(os.path.join(VERIF, 'replays'), exist_ok=True)
        os.makedirs(os.path.join(VERIF, 'evidence'), exist_ok=True)
        self.rng = random.Random(seed * 1000003 + int(hashlib.sha1(pid.encode()).hexdigest()[:6], 16))
        self.violations = []      # dicts
        self.known_seen = []      # ids
        self.notes = []
        self.lean = None
        self.streams = []         # per-stream statistics
        self.evals = 0
        self.distinct = set()
        self.nontrivial = 0
        self.samples = []
        self.rule = ''
        self.extra = {}
        self.known = [k for k in load_known() if k.get('property') == pid and k.get('status', 'known') == 'known']
        import glob
        for old in ([] if replaying else glob.glob(os.path.join(VERIF, 'replays', '%s-seed%d-%s-*.json' % (pid, seed, tier)))):
            try: os.remove(old)
            except OSError: pass

    def log(self, *a):
        print('[%s %6.1fs]' % (self.pid, time.time() - self.t0), *a, flush=True)

    # ------------------------------------------------------------------------------------------------ violations
    def violation(self, kind, detail, replay=None, found_input=True):
        """Record a violation. replay: dict written to replays/. found_input False => no-failing-input-found."""
        n = len(self.violations)
        path = os.path.join(VERIF, 'replays', '%s-seed%d-%s-%d.json' % (self.pid, self.seed, self.tier, n))
        obj = {'property': self.pid, 'kind': kind, 'detail': detail, 'seed': self.seed, 'tier': self.tier,
               'failing_input_found': found_input}
        if replay:
            obj.update(replay)
        with open(path, 'w') as f:
            json.dump(obj, f, indent=1)
        self.violations.append({'kind': kind, 'detail': detail[:400], 'replay': path, 'found_input': found_input})
        line = 'VIOLATION property=%s replay=%s' % (self.pid, path)
        if not found_input:
            line += ' no-failing-input-found'
        print(line, flush=True)

    def known_finding(self, kid, what):
        if kid not in self.known_seen:
            self.known_seen.append(kid)
            print('KNOWN-FINDING: property=%s %s' % (self.pid, what), flush=True)


def load_known():
    p = os.path.join(VERIF, 'known_findings.json')
    if not os.path.exists(p):
        return []
    return json.load(open(p)).get('findings', [])


# ------------------------------------------------------------------------------------------------------ Lean stage
def strip_comments(src):
    # remove /- ... -/ (nested) and -- comments and string literals (coarsely)
    out, i, depth, n = [], 0, 0, len(src)
    while i < n:
        if src.startswith('/-', i):
            depth += 1; i += 2; continue
        if depth and src.startswith('-/', i):
            depth -= 1; i += 2; continue
        if depth:
            if src[i] == '\n': out.append('\n')
            i += 1; continue
        if src.startswith('--', i):
            while i < n and src[i] != '\n': i += 1
            continue
        if src[i] == '"':
            i += 1
            while i < n and src[i] != '"':
                i += 2 if src[i] == '\\' else 1
            i += 1; out.append('""'); continue
        out.append(src[i]); i += 1
    return ''.join(out)


def lean_sources():
    res = []
    for root, dirs, files in os.walk(LEAN):
        if '.lake' in root: continue
        for f in files:
            if f.endswith('.lean'): res.append(os.path.join(root, f))
    return sorted(res)


def forbidden_scan(files=None):
    hits = []
    for f in files or lean_sources():
        if os.path.basename(os.path.dirname(f)) == 'Driver' and False:
            continue
        txt = strip_comments(open(f).read())
        for ln, line in enumerate(txt.split('\n'), 1):
            m = FORBIDDEN.search(line)
            if m:
                # `partial def` / `unsafe` are tolerated only in Driver/ IO loops (never in models or proofs)
                hits.append('%s:%d: %s' % (os.path.relpath(f, VERIF), ln, line.strip()[:120]))
    return hits


def lake_lock():
    os.makedirs(BUILD, exist_ok=True)
    f = open(os.path.join(BUILD, 'lake.lock'), 'w')
    fcntl.flock(f, fcntl.LOCK_EX)
    return f


def lake_build(targets, timeout=3600):
    lk = lake_lock()
    try:
        r = sh(['lake', 'build'] + targets, cwd=LEAN, timeout=timeout)
    finally:
        lk.close()
    return r


def module_files(mod):
    return os.path.join(LEAN, mod.replace('.', '/') + '.lean')


def import_closure(mods):
    seen, todo = set(), list(mods)
    while todo:
        m = todo.pop()
        if m in seen: continue
        p = module_files(m)
        if not os.path.exists(p): continue
        seen.add(m)
        for l in open(p):
            mm = re.match(r'\s*import\s+((?:GudhiVerif|Driver)[\w.]*)', l)
            if mm: todo.append(mm.group(1))
    return sorted(seen)


def lean_stage(ctx, prop_module, theorems, translators=(), driver=True):
    """Proof obligations of a property.
    prop_module: e.g. 'GudhiVerif.Properties.C10'; theorems: list of fully qualified names that must be proved there
    (or in its imports) with axioms within ALLOWED_AXIOMS.  Returns dict; records failures in ctx.lean."""
    res = {'module': prop_module, 'theorems': list(theorems), 'failed': [], 'axioms': {}, 'ok': True, 'log': ''}
    ctx.lean = res
    t0 = time.time()
    for tr in translators:
        try:
            tr(ctx)
        except Exception as e:  # translator failed loudly: obligations not discharged
            res['failed'].append('translator:%s: %s' % (getattr(tr, '__name__', 'tr'), e))
    targets = [prop_module] + (['gvdriver'] if driver else [])
    r = lake_build(targets)
    res['build_rc'] = r.returncode
    if r.returncode != 0:
        res['ok'] = False
        res['log'] = (r.stdout + r.stderr)[-4000:]
        errs = re.findall(r'error: (.*)', r.stdout + r.stderr)
        res['failed'].append('lake build %s failed: %s' % (' '.join(targets), '; '.join(errs[:5])))
    closure = import_closure([prop_module] + (['Driver.Main'] if driver else []))
    hits = forbidden_scan([module_files(m) for m in closure])
    hits = [h for h in hits if not (h.startswith('lean/Driver/') and 'partial' in h)]
    if hits:
        res['ok'] = False
        res['failed'].append('forbidden tokens: ' + '; '.join(hits[:5]))
    # axiom audit
    audit = os.path.join(ctx.dir, 'Audit_%s.lean' % ctx.pid)
    with open(audit, 'w') as f:
        f.write('import %s\n' % prop_module)
        for t in theorems:
            f.write('#print axioms %s\n' % t)
    if r.returncode == 0:
        a = sh(['lake', 'env', 'lean', audit], cwd=LEAN, timeout=1800)
        out = a.stdout + a.stderr
        for t in theorems:
            short = t
            m = re.search(r"'%s' depends on axioms: \[([^\]]*)\]" % re.escape(short), out)
            m2 = re.search(r"'%s' does not depend on any axioms" % re.escape(short), out)
            if m:
                ax = [x.strip() for x in m.group(1).replace('\n', ' ').split(',') if x.strip()]
                res['axioms'][t] = ax
                bad = [x for x in ax if x not in ALLOWED_AXIOMS]
                if bad:
                    res['failed'].append('theorem %s depends on axioms %s' % (t, bad))
            elif m2:
                res['axioms'][t] = []
            else:
                res['failed'].append('theorem %s: not found / not proved (%s)' % (t, out.strip()[-300:].replace('\n', ' | ')))
    else:
        for t in theorems:
            res['failed'].append('theorem %s: not checked (build failed)' % t)
    if ctx.tier == 'thorough' and r.returncode == 0:
        c = sh(['lake', 'env', 'leanchecker', prop_module], cwd=LEAN, timeout=3600)
        res['leanchecker_rc'] = c.returncode
        if c.returncode != 0:
            res['failed'].append('leanchecker %s: %s' % (prop_module, (c.stdout + c.stderr)[-300:]))
    res['ok'] = not res['failed']
    res['wall_s'] = round(time.time() - t0, 1)
    ctx.log('lean stage: %d theorems, %d failures, %.1fs' % (len(theorems), len(res['failed']), res['wall_s']))
    return res


def driver_path():
    return os.path.join(LEAN, '.lake', 'build', 'bin', 'gvdriver')


# --------------------------------------------------------------------------------------------------- harness build
def build_harness(ctx, name, src, defines=(), libs=(), sanitize=False, extra=(), cxx=None, opt='-O1'):
    out = os.path.join(ctx.dir, name)
    if sanitize:
        cxx = cxx or 'clang++-14'
        cmd = [cxx, '-std=c++17', opt, '-g', '-fsanitize=address,undefined', '-fno-sanitize-recover=all']
    else:
        cxx = cxx or 'g++'
        cmd = [cxx, '-std=c++17', opt]
    cmd += ['-D' + GUARD] + ['-D' + d for d in defines] + inc_flags() + list(extra) + [src, '-o', out] + list(libs)
    r = sh(cmd, timeout=3600)
    if r.returncode != 0:
        return None, (r.stderr or r.stdout)[-3000:]
    return out, ''


def build_many(ctx, specs):
    """specs: list of dict(name, src, defines, libs, sanitize). Returns {name: path or None}, errors."""
    res, errs = {}, {}
    with cf.ThreadPoolExecutor(max_workers=min(16, max(1, len(specs)))) as ex:
        futs = {ex.submit(build_harness, ctx, s['name'], s['src'], s.get('defines', ()), s.get('libs', ()),
                          s.get('sanitize', False), s.get('extra', ()), s.get('cxx'), s.get('opt', '-O1')): s['name'] for s in specs}
        for fu in cf.as_completed(futs):
            p, e = fu.result()
            res[futs[fu]] = p
            if p is None: errs[futs[fu]] = e
    return res, errs


# ------------------------------------------------------------------------------------------- case files and running
def write_cases(path, cases, first_index=0):
    with open(path, 'w') as f:
        for i, c in enumerate(cases):
            f.write('case %d\n' % (first_index + i))
            for l in c:
                f.write(l + '\n')
        f.write('end\n')


def split_out(text):
    """-> dict case index -> list of lines (comment lines starting with '#' are kept separately)"""
    cur, res, tags = None, {}, {}
    for l in text.split('\n'):
        l = l.rstrip()
        if not l: continue
        m = re.match(r'case (\d+)$', l)
        if m:
            cur = int(m.group(1)); res[cur] = []; tags[cur] = []
            continue
        if cur is None: continue
        if l.startswith('#'): tags[cur].append(l)
        else: res[cur].append(l)
    return res, tags


def run_prog(cmd, infile, timeout=3600, env=None):
    e = dict(os.environ)
    e['ASAN_OPTIONS'] = 'detect_leaks=0:abort_on_error=0:exitcode=97'
    e['UBSAN_OPTIONS'] = 'print_stacktrace=1:halt_on_error=1:exitcode=98'
    if env: e.update(env)
    with open(infile) as fin:
        try:
            r = subprocess.run(cmd, stdin=fin, stdout=subprocess.PIPE, stderr=subprocess.PIPE, text=True, timeout=timeout, env=e,
                               errors='replace')
            return r.returncode, r.stdout, r.stderr
        except subprocess.TimeoutExpired as ex:
            so = ex.stdout if isinstance(ex.stdout, str) else (ex.stdout or b'').decode(errors='replace')
            return -999, so, 'timeout'


def run_cases(ctx, cmd, cases, tag, timeout=1500, max_crashes=20):
    """Run all cases through cmd (stdin protocol). A crash loses the rest: the crashed case gets the single line
    'crash:<kind>' appended and the run resumes after it.  Returns dict idx -> lines, dict idx-> tags, crash list."""
    results, tags, crashes = {}, {}, []
    start = 0
    while start < len(cases):
        path = os.path.join(ctx.dir, 'in_%s.txt' % tag)
        write_cases(path, cases[start:], start)
        t_run = time.time()
        rc, out, err = run_prog(cmd, path, timeout)
        t_run = time.time() - t_run
        res, tg = split_out(out)
        results.update(res); tags.update(tg)
        done = max(res.keys()) if res else start - 1
        if rc == 0 and done >= len(cases) - 1:
            break
        if rc == 0:
            # clean exit but missing cases: treat the first missing as crash 'truncated'
            kind = 'truncated-output'
            bad = done + 1
            results[bad] = results.get(bad, []) + ['crash:' + kind]
        else:
            kind = classify_crash(rc, err)
            bad = max(done, start)
            results[bad] = results.get(bad, []) + ['crash:' + kind]
        crashes.append({'case': bad, 'kind': kind, 'stderr': err[-1500:]})
        if rc == -999:
            # a hang (the whole budget was used up by one case): the resumed runs get a budget in proportion to the work left,
            # and two hangs end the stream - every further case is reported as not run
            timeout = max(30, min(timeout, timeout // 8))
            if sum(1 for c in crashes if c['kind'].startswith('timeout')) >= 2: max_crashes = len(crashes)
        if len(crashes) >= max_crashes:
            for k in range(bad + 1, len(cases)):
                results.setdefault(k, ['not-run'])
            break
        start = bad + 1
    return results, tags, crashes


def classify_crash(rc, err):
    if 'AddressSanitizer' in err:
        m = re.search(r'AddressSanitizer: ([\w-]+)', err)
        return 'sanitizer_abort:asan:' + (m.group(1) if m else '?')
    if 'runtime error:' in err:
        m = re.search(r'runtime error: ([^\n]{0,80})', err)
        return 'sanitizer_abort:ubsan:' + (re.sub(r'[^\w]+', '_', m.group(1))[:60] if m else '?')
    if rc == -999: return 'timeout'
    if rc < 0: return 'signal:%d' % (-rc)
    if 'terminate called' in err or 'what()' in err:
        return 'uncaught_exception'
    if 'Assertion' in err: return 'assertion'
    return 'exit:%d' % rc


def diff_results(cases, a, b):
    """a, b: idx -> lines. returns list of (idx, first differing line number, a_line, b_line)"""
    d = []
    for i in range(len(cases)):
        la, lb = a.get(i), b.get(i)
        if la == lb: continue
        la, lb = la or ['<missing>'], lb or ['<missing>']
        k = 0
        while k < min(len(la), len(lb)) and la[k] == lb[k]: k += 1
        d.append((i, k, la[k] if k < len(la) else '<end>', lb[k] if k < len(lb) else '<end>'))
    return d


def run_one(ctx, cmd, case, tag='one', timeout=60):
    r, _, cr = run_cases(ctx, cmd, [case], tag, timeout, max_crashes=1)
    return r.get(0, ['<missing>'])


def shrink_case(case, still_fails, keep_prefix=0, budget=150):
    """Greedy delta debugging over the op lines (lines [keep_prefix:] may be removed)."""
    cur = list(case)
    n = 2
    calls = 0
    while len(cur) - keep_prefix >= 2 and calls < budget:
        body = cur[keep_prefix:]
        chunk = max(1, len(body) // n)
        reduced = False
        for s in range(0, len(body), chunk):
            cand = cur[:keep_prefix] + body[:s] + body[s + chunk:]
            calls += 1
            if len(cand) < len(cur) and still_fails(cand):
                cur = cand; n = max(n - 1, 2); reduced = True
                break
            if calls >= budget: break
        if not reduced:
            if chunk == 1: break
            n = min(len(body), n * 2)
    return cur


# ---------------------------------------------------------------------------------------------------- correspondence
def correspondence(ctx, name, impl_cmd, model_cmd, cases, nontrivial=None, keep_prefix=0, classify=None,
                   canon=None, timeout=1500, shrink=True, max_report=3, oracle=None, valid=None):
    """Run the same cases through the real code (impl_cmd) and the Lean model (model_cmd); diff; report.
    classify(case, impl_lines, model_lines) -> (known-finding id, text) or None.
    oracle(case, impl_lines) -> None if the property itself holds on what the real code answered, else a string.
    Without an oracle a divergence from the proved model counts as a failing input (the model is proved equal to the
    spec on the compared observables); with one, a divergence on which the oracle is satisfied is reported as
    no-failing-input-found unless another explored history fails the oracle."""
    t0 = time.time()
    impl, _, crashes = run_cases(ctx, impl_cmd, cases, 'impl_' + name, timeout)
    model, tags, mcr = run_cases(ctx, model_cmd, cases, 'model_' + name, timeout)
    impl_raw = impl
    oraw = bool(oracle is not None and getattr(oracle, 'raw', False))     # oracle.raw = True: the oracle sees the lines before canon()
    if canon:
        impl = {k: canon(v) for k, v in impl.items()}
        model = {k: canon(v) for k, v in model.items()}
    diffs = diff_results(cases, impl, model)
    st = {'stream': name, 'cases': len(cases), 'ops': sum(len(c) for c in cases), 'diffs': len(diffs),
          'impl_crashes': len(crashes), 'model_crashes': len(mcr), 'wall_s': 0, 'obs_lines': sum(len(v) for v in impl.values())}
    btags = {}
    for k, tl in tags.items():
        for t in tl: btags[t] = btags.get(t, 0) + 1
    st['branch_tags'] = btags
    for c in cases:
        ctx.evals += 1
        key = hashlib.sha1('\n'.join(c).encode()).hexdigest()
        if key not in ctx.distinct:
            ctx.distinct.add(key)
            if nontrivial is None or nontrivial(c): ctx.nontrivial += 1
    if len(ctx.samples) < 3 and cases:
        i = min(len(cases) - 1, 1 + len(ctx.samples))
        ctx.samples.append({'stream': name, 'ops': cases[i][:12], 'impl': (impl.get(i) or [])[:6], 'model': (model.get(i) or [])[:6]})
    reported = 0
    if mcr:
        ctx.violation('model-crash', 'Lean driver failed on stream %s: %s' % (name, mcr[0]['stderr'][-300:]),
                      {'stream': name, 'ops': cases[mcr[0]['case']]}, found_input=False)
    diff_idx = {d[0] for d in diffs}
    oracle_fail = {}
    if oracle:
        for i in range(len(cases)):
            try:
                r = oracle(cases[i], (impl_raw if oraw else impl).get(i) or [])
            except Exception as e:
                r = 'oracle raised %r' % (e,)
            if r: oracle_fail[i] = r
    st['oracle_failures'] = len(oracle_fail)

    def report(i, k, la, lb, confirmed, why):
        case = cases[i]
        hang = any('crash:timeout' in str(l) for l in ((impl_raw if oraw else impl).get(i) or []))     # a hanging history is reported as it is (every shrinking step would hang again)
        if shrink and not hang and len(case) - keep_prefix > 1:
            def fails(c):
                try:
                    return fails0(c)
                except Exception:
                    return False

            def fails0(c):
                if valid and not valid(c): return False
                a = run_one(ctx, impl_cmd, c, 'shr_i')
                a_raw = a
                if canon: a = canon(a)
                if classify:
                    b = run_one(ctx, model_cmd, c, 'shr_m')
                    if canon: b = canon(b)
                    if classify(c, a, b): return False
                if oracle and confirmed:
                    return bool(oracle(c, a_raw if oraw else a))
                b = run_one(ctx, model_cmd, c, 'shr_m')
                if canon: b = canon(b)
                return a != b
            try:
                case = shrink_case(case, fails, keep_prefix)
            except Exception as e:
                ctx.notes.append('shrink failed: %r' % e)
        a = run_one(ctx, impl_cmd, case, 'shr_i'); b = run_one(ctx, model_cmd, case, 'shr_m')
        if canon: a, b = canon(a), canon(b)
        crash = [c for c in crashes if c['case'] == i]
        ctx.violation('correspondence' if i in diff_idx else 'oracle',
                      'stream %s case %d: %s; first difference at observation %d: impl=%r model=%r' % (name, i, why, k, la[:200], lb[:200]),
                      {'stream': name, 'impl_cmd': impl_cmd, 'model_cmd': model_cmd, 'ops': case, 'original_ops': cases[i],
                       'impl_lines': a, 'model_lines': b, 'crash': crash[:1], 'oracle': oracle_fail.get(i)}, found_input=confirmed)

    unconfirmed = []
    for (i, k, la, lb) in diffs:
        kid = classify(cases[i], impl.get(i), model.get(i)) if classify else None
        if kid:
            ctx.known_finding(kid[0], kid[1]); st['known_diffs'] = st.get('known_diffs', 0) + 1; continue
        if oracle and i not in oracle_fail:
            unconfirmed.append((i, k, la, lb)); continue
        if reported < max_report:
            report(i, k, la, lb, True, 'the real code differs from the proved model' + (' and fails the property oracle: ' + oracle_fail[i][:200] if i in oracle_fail else ''))
        reported += 1
    for i, why in oracle_fail.items():
        if i in diff_idx: continue
        kid = classify(cases[i], impl.get(i), model.get(i)) if classify else None
        if kid:
            ctx.known_finding(kid[0], kid[1]); continue
        if reported < max_report:
            report(i, 0, '', '', True, 'model and code agree but the property oracle fails: ' + why[:300])
        reported += 1
    if unconfirmed and reported == 0:
        i, k, la, lb = unconfirmed[0]
        report(i, k, la, lb, False, 'correspondence stream %s no longer checks (the real code differs from the model; the property oracle is satisfied on all %d diverging histories)' % (name, len(unconfirmed)))
        reported += 1
    st['wall_s'] = round(time.time() - t0, 1)
    st['unreported_diffs'] = max(0, reported - max_report)
    ctx.streams.append(st)
    ctx.log('stream %-28s cases=%d ops=%d obs=%d diffs=%d crashes=%d  %.1fs' % (name, st['cases'], st['ops'], st['obs_lines'], st['diffs'], st['impl_crashes'], st['wall_s']))
    return impl, model, diffs


def run_known_witnesses(ctx, streams, model_cmd, oracle=None, canon=None):
    """Known findings are identified by exact witness histories (known_findings.json).  Each witness is replayed on the
    streams it names; if the real code still differs from the model (or fails the oracle) on it, a KNOWN-FINDING line is
    printed.  Witness histories are never generated by the random streams, so nothing else is attributed to a finding."""
    n = 0
    for k in ctx.known:
        for w in k.get('witnesses', []):
            for name, cmd in streams.items():
                if w.get('stream') and not (name == w['stream'] or name.startswith(w['stream'] + '_')): continue      # exact stream or family prefix
                a = run_one(ctx, cmd, w['ops'], 'kf_i'); b = run_one(ctx, model_cmd, w['ops'], 'kf_m')
                if canon: a, b = canon(a), canon(b)
                bad = (a != b) or (oracle is not None and bool(oracle(w['ops'], a)))
                n += 1
                if bad: ctx.known_finding(k['id'], k['what'] + ' [witness on stream %s: %s]' % (name, '; '.join(w['ops'])))
    ctx.extra['known_witnesses_replayed'] = n


# ---------------------------------------------------------------------------------------------------------- evidence
TRUSTED = [
    'Lean 4.33 kernel and elaborator; Mathlib v4.33 for the lemmas imported by proof files',
    'axioms: propext, Classical.choice, Quot.sound only (audited per theorem on every run); no native_decide / bv_decide / own axioms',
    'hand-written Lean models are tied to /repo only by the correspondence run (differential testing on generated histories, bounded by generator quality)',
    'g++ 12 / clang 14 and their sanitizer runtimes, Python 3 orchestration (vlib.py, check.py, props/*.py)',
]


def finish(ctx, assumptions=(), extra_trusted=()):
    lean = ctx.lean or {'theorems': [], 'failed': ['no lean stage'], 'module': ''}
    n_thm = len(lean['theorems'])
    thm_failed = len([f for f in lean['failed'] if f.startswith('theorem ')])
    other_failed = [f for f in lean['failed'] if not f.startswith('theorem ')]
    # a divergence attributed to a listed known finding (exact witness or its classifier) does not leave the stream undischarged
    streams_ok = len([s for s in ctx.streams if s['diffs'] - s.get('known_diffs', 0) == 0 and s['model_crashes'] == 0])
    obligations = n_thm + len(ctx.streams)
    discharged = (n_thm - thm_failed if not other_failed else 0) + streams_ok
    if not lean.get('ok', False):
        # proof obligations broken: a search already happened (the correspondence streams); if it reported nothing, say so
        if not any(v['found_input'] for v in ctx.violations):
            ctx.violation('proof-obligation', 'Lean stage failed: ' + ' || '.join(lean['failed'][:6]),
                          {'lean_failed': lean['failed'], 'lean_log': lean.get('log', '')[-3000:],
                           'searched': [{k: s[k] for k in ('stream', 'cases', 'diffs')} for s in ctx.streams]}, found_input=False)
    wall = round(time.time() - ctx.t0, 1)
    ev = {
        'property_id': ctx.pid, 'tier': ctx.tier, 'seed': ctx.seed, 'level': 'proof',
        'coverage': {
            'obligations': obligations, 'discharged': discharged,
            'checker_cmd': 'cd %s && lake build %s gvdriver && lake env lean %s  (then harness vs gvdriver correspondence: python3 check.py %s --tier %s)'
                           % (LEAN, lean['module'], os.path.relpath(os.path.join(ctx.dir, 'Audit_%s.lean' % ctx.pid), LEAN), ctx.pid, ctx.tier),
            'trusted_base': TRUSTED + list(extra_trusted),
            'theorems': lean['theorems'], 'axioms': lean.get('axioms', {}), 'lean_failed': lean['failed'],
            'evaluations': ctx.evals, 'distinct_nontrivial': ctx.nontrivial, 'rule': ctx.rule,
            'samples': ctx.samples[:3], 'streams': ctx.streams, 'known_findings_seen': ctx.known_seen,
            'exhaustive': False,
        },
        'assumptions': list(assumptions), 'wall_s': wall, 'violations': len(ctx.violations),
    }
    ev['coverage'].update(ctx.extra)
    if ctx.violations:
        ev['coverage']['violation_list'] = ctx.violations
    if ctx.notes: ev['coverage']['notes'] = ctx.notes
    with open(os.path.join(VERIF, 'evidence', ctx.pid + '.json'), 'w') as f:
        json.dump(ev, f, indent=1)
    if not ctx.keep:
        for fn in os.listdir(ctx.dir):
            p = os.path.join(ctx.dir, fn)
            if os.path.isfile(p) and not fn.endswith('.lean'):
                try: os.remove(p)
                except OSError: pass
    ctx.log('done: obligations %d discharged %d violations %d known %d wall %.1fs' % (obligations, discharged, len(ctx.violations), len(ctx.known_seen), wall))
    return 1 if ctx.violations else 0
