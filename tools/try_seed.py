#!/usr/bin/env python3
"""try_seed.py <Cxx> [<Cyy> ...] [--tag=r2]  — take the delivery of a sub-agent from /tmp/wt/<id>/seed, confirm its demonstration in the
scratch worktree, store it under /verif/seeded/<id>/, apply the patch to /repo, run the quick checks named (default: the property
itself) at two seeds, record which check reported a violation, and undo the change."""
import sys, os, subprocess, json, shutil
args = [a for a in sys.argv[1:] if not a.startswith('--tag=')]
tag = ([a.split('=', 1)[1] for a in sys.argv[1:] if a.startswith('--tag=')] or [''])[0]
pid = args[0]; checks = args[1:] or [pid]
wt = '/tmp/wt/%s' % pid; seed = os.path.join(wt, 'seed'); dst = '/verif/seeded/%s%s' % (pid, ('_' + tag) if tag else '')
os.makedirs(dst, exist_ok=True)
rerun = not os.path.isdir(seed)      # the worktree is gone: re-run the checks on the stored patch, keep the stored demonstration
for f in (os.listdir(seed) if not rerun else []):
    if os.path.isfile(os.path.join(seed, f)) and os.path.getsize(os.path.join(seed, f)) < 2_000_000 and not f.endswith(('.o',)) and f not in ('demo',):
        shutil.copy(os.path.join(seed, f), dst)
# confirm the demonstration in the scratch worktree (the change is still applied there)
inc = subprocess.run('for d in %s/src/*/include; do echo -I$d; done' % wt, shell=True, capture_output=True, text=True).stdout.split()
demo = os.path.join(seed, 'demo.cpp'); confirm = 'no demo.cpp'
if os.path.exists(demo):
    r = subprocess.run(['g++', '-std=c++17', '-O1'] + inc + ['-I/usr/include/eigen3', demo, '-o', '/tmp/wt/%s_demo' % pid, '-ltbb', '-lgmpxx', '-lgmp', '-pthread'], capture_output=True, text=True)
    if r.returncode != 0: confirm = 'demo does not compile: ' + r.stderr[-400:]
    else:
        r2 = subprocess.run(['/tmp/wt/%s_demo' % pid], capture_output=True, text=True, timeout=300)
        confirm = 'with change: rc=%d %s' % (r2.returncode, (r2.stdout + r2.stderr)[-600:])
        # and on the unchanged headers of /repo
        inc0 = [i.replace(wt, '/repo') for i in inc]
        r3 = subprocess.run(['g++', '-std=c++17', '-O1'] + inc0 + ['-I/usr/include/eigen3', demo, '-o', '/tmp/wt/%s_demo0' % pid, '-ltbb', '-lgmpxx', '-lgmp', '-pthread'], capture_output=True, text=True)
        if r3.returncode == 0:
            r4 = subprocess.run(['/tmp/wt/%s_demo0' % pid], capture_output=True, text=True, timeout=300)
            confirm += '\nunchanged: rc=%d %s' % (r4.returncode, (r4.stdout + r4.stderr)[-400:])
patch = os.path.join(dst, 'patch.diff')
st = subprocess.run(['git', '-C', '/repo', 'status', '--porcelain'], capture_output=True, text=True).stdout.strip()
assert st == '', '/repo not clean: ' + st
res = {'property': pid, 'demonstration': confirm[-1500:], 'checks': {}}
if rerun and os.path.exists(os.path.join(dst, 'result.json')): res['demonstration'] = json.load(open(os.path.join(dst, 'result.json'))).get('demonstration', '')
a = subprocess.run(['git', '-C', '/repo', 'apply', patch], capture_output=True, text=True)
if a.returncode != 0:
    res['apply'] = 'patch does not apply: ' + a.stderr[-300:]
else:
    try:
        for c in checks:
            for sd in ('1', '2'):
                env = dict(os.environ, VERIF_SEED=sd)
                r = subprocess.run(['python3', '/verif/check.py', c, '--tier', 'quick'], capture_output=True, text=True, cwd='/verif', env=env, timeout=3600)
                viol = [l for l in r.stdout.split('\n') if l.startswith('VIOLATION')]
                first = ''
                if viol:
                    try:
                        rp = json.load(open(viol[0].split('replay=')[1].split()[0])); first = (rp.get('detail') or '')[:300] + ' | ops=' + str(rp.get('ops'))[:300]
                    except Exception as e: first = repr(e)
                res['checks']['%s seed %s' % (c, sd)] = {'rc': r.returncode, 'violations': len(viol), 'no_failing_input': sum(1 for v in viol if v.endswith('no-failing-input-found')), 'first': first}
    finally:
        subprocess.run(['git', '-C', '/repo', 'checkout', '--', '.'])
json.dump(res, open(os.path.join(dst, 'result.json'), 'w'), indent=1)
print(json.dumps(res, indent=1)[:3000])
