#!/usr/bin/env python3
"""Regenerates section 9 of DESIGN.md (as built) from tools/design9_body.md, the props modules, the evidence files,
known_findings.json and seeded/*/ (meta.json, result.json, note.json)."""
import sys, json, importlib, os
V = os.path.dirname(os.path.dirname(os.path.abspath(__file__))); sys.path.insert(0, V)
from props import C05
rows = []
for pid in ['C%02d' % i for i in range(1, 21)]:
    m = importlib.import_module('props.' + pid)
    th = C05.THEOREMS_BY[pid] if pid in ('C06', 'C08') else (getattr(m, 'THEOREMS', None) or [])
    part = C05.PARTIAL_BY[pid] if pid in ('C06', 'C08') else (getattr(m, 'PARTIAL', None) or [])
    e = json.load(open(os.path.join(V, 'evidence', pid + '.json')))
    rows.append((pid, th, part, e['coverage'].get('obligations', 0) - len(th), e['wall_s']))
k = json.load(open(os.path.join(V, 'known_findings.json')))
L = []; A = L.append
A("\n\n---------------------------------------------------------------------------------------------------------------------\n")
A("## 9. As built (build round) — what exists, how it is tied to /repo, what it found\n")
A("Sections 1–8 are the design written before any machinery existed. This section records what was actually built, where it deviates from the plan, the defects found while building, and how the checks behave on seeded changes. Where §5 and this section disagree, this section describes the code in `/verif`.\n")
A("All twenty properties are claimed in `MANIFEST.json` at level *proof* (Lean theorems about a formal model + a checked tie of that model to `/repo` on every run); `not_applicable` is empty. What is proved and what is only compared is stated per property in §9.2 and repeated in every evidence file (`partial`).\n")
A("### 9.1 Layout as built\n")
A(open(os.path.join(V, 'tools', 'design9_layout.md')).read())
A("### 9.2 Per property: theorems, tie, what stays partial\n")
A("Quick-tier numbers are from the committed evidence (seed 1). `streams` = correspondence streams (one per option set / instantiation / build).\n")
A("| id | Lean theorems audited on every run | streams | quick wall | partial (named in the evidence) |\n|---|---|---|---|---|")
for pid, th, part, streams, wall in rows:
    names = ', '.join('`%s`' % t for t in th[:8]) + (' … (%d in all)' % len(th) if len(th) > 8 else '')
    A("| %s | %s | %d | %.0f s | %s |" % (pid, names, streams, wall, '; '.join(x.split(':')[0] for x in part) or '—'))
A("")
fixed_rows = []
for f in k['fixed']:
    t = f.split(' ', 3); fixed_rows.append('| %s | `%s` | %s |' % (t[1].split('=')[1], t[2], (t[3] if len(t) > 3 else '').replace('|', '/')))
known_rows = []
for f in k['findings']:
    w = f['witnesses'][0]
    known_rows.append('* **%s** (%s) — %s Witness (stream `%s`): `%s`.' % (f['id'], f['property'], f['what'].replace('\n', ' '), w.get('stream'), '; '.join(w['ops'])[:260]))
def seed_table(suffix):
    out = ['| id | seeded change (file: what) | trigger | quick tier, seeds 1 / 2 | note |', '|---|---|---|---|---|']; stats = [0, 0]
    for pid in ['C%02d' % i for i in range(1, 21)]:
        d = os.path.join(V, 'seeded', pid + suffix)
        if not os.path.exists(os.path.join(d, 'result.json')): continue
        meta = json.load(open(os.path.join(d, 'meta.json'))); res = json.load(open(os.path.join(d, 'result.json')))
        note = json.load(open(os.path.join(d, 'note.json')))['strengthened'] if os.path.exists(os.path.join(d, 'note.json')) else 'caught as built'
        stats[0 if note == 'caught as built' else 1] += 1
        v = [res['checks'].get('%s seed %s' % (pid, s), {}) for s in ('1', '2')]
        cell = ' / '.join(('%d viol.%s' % (x.get('violations', 0), ' (%d without input)' % x['no_failing_input'] if x.get('no_failing_input') else '')) for x in v)
        files = ', '.join(os.path.basename(f) for f in meta.get('files_changed', []))
        out.append('| %s | %s: %s | %s | %s | %s |' % (pid, files, (meta.get('description', '') or '').replace('\n', ' ').replace('|', '/')[:230],
                                                    (meta.get('trigger', '') or '').replace('\n', ' ').replace('|', '/')[:200], cell, note[:330].replace('|', '/')))
    return '\n'.join(out), stats
t1, s1 = seed_table(''); t2, s2 = seed_table('_r2'); t3, s3 = seed_table('_r3'); t4, s4 = seed_table('_r4'); t5, s5 = seed_table('_r5')
body = open(os.path.join(V, 'tools', 'design9_body.md')).read()
seeded = ("**Round 1** (one change per property).\n\n" + t1 + ("\n\nRound 1: %d of 20 reported by the quick tier as first built, %d missed at one or both seeds; each miss led to the generator / harness / observation change in the last column, after which the change is reported at seeds 1 and 2 with a concrete shrunk history. One sub-agent (C02) additionally found a genuine crash of the unchanged multi-field engine (known finding `C02-multi-field-stale-row-cells`).\n\n" % (s1[0], s1[1])) +
          "**Round 2** (a second, different change per property, made after the round-1 strengthening; the agents were told which function the first change had touched).\n\n" + t2 +
          ("\n\nRound 2: %d of %d reported as the checks stood after round 1, %d missed at one or both seeds and fixed as noted. The misses of both rounds have one thing in common: the model was right and proved, but the *history generator or the harness observation* never reached the triggering configuration (an interface not read, a state refreshed by the harness itself, an instantiation or input family absent from the quick tier) — which is the guidance's warning that generator quality bounds what the tie sees." % (s2[0], s2[0] + s2[1], s2[1])))
seeded += ("\n\n**Round 3** (a third change per property; the agents were told what the first two had touched and asked for another clause, option set or rarely used code path).\n\n" + t3 +
           ("\n\nRound 3: %d of %d reported as the checks stood after round 2, %d missed and fixed as noted. Again no miss was a wrong model: each was an entry point, overload, build mode or input size "
            "that no stream visited (the ignoring overload of `initialize_filtration`, `insert_boundary` without identifier on chain matrices, mixed integer/element operators, `change_offset`, averages of 3 landscapes, "
            "encoding-dispatcher boundaries at 17-256 points, late vertices on the incremental flag route, compressed Z_p SET columns, removals before the first barcode request). "
            "One sub-agent also reported a defect of the unchanged tree that only exists in release builds (see 9.5, `e6b7ee607`); since then C01, C05, C06, C08 and C09 also run `-O2 -DNDEBUG` builds of their harnesses.\n") % (s3[0], s3[0] + s3[1], s3[1]))
seeded += ("\n\n**Round 4** (a fourth change per property; the agents were told what the first three had touched, pointed at build configurations and secondary classes, and asked to report defects they noticed in the unchanged code).\n\n" + t4 +
           ("\n\nRound 4: %d of %d reported as the checks stood after round 3, %d missed and fixed as noted.\n") % (s4[0], s4[0] + s4[1], s4[1]))
seeded += ("\n\n**Round 5** (started three hours before the end of the round and cut short: the machine was saturated by twenty concurrent builds, eleven agents were stopped before delivering, and the nine deliveries below were tried with the time that was left; one of the two misses (C18) was closed in the last half hour, the other (C10) at the start of the following session with the `xfer` operation).\n\n" + t5 +
           ("\n\nRound 5: %d of %d deliveries reported by the checks as they stood, %d not reported at first (see the notes).\n") % (s5[0], s5[0] + s5[1], s5[1]))
body = body.replace('FIXED_ROWS', '\n'.join(fixed_rows)).replace('KNOWN_ROWS', '\n'.join(known_rows)).replace('SEEDED_TABLE', seeded)
d = open(os.path.join(V, 'DESIGN.md')).read()
i = d.find('\n\n---------------------------------------------------------------------------------------------------------------------\n\n## 9. As built')
if i >= 0: d = d[:i]
open(os.path.join(V, 'DESIGN.md'), 'w').write(d.rstrip('\n') + '\n'.join(L) + body)
print('DESIGN.md section 9 regenerated')
