#!/usr/bin/env python3
"""Run every claimed check (quick tier, seed 1) on the current tree and summarise; evidence files are rewritten by the checks."""
import json, subprocess, sys, os, time
V = os.path.dirname(os.path.dirname(os.path.abspath(__file__)))
m = json.load(open(os.path.join(V, 'MANIFEST.json')))
only = sys.argv[1:]
bad = 0
for c in m['checks']:
    if only and c['property_id'] not in only: continue
    t = time.time()
    r = subprocess.run(c['quick_cmd'], shell=True, cwd=V, capture_output=True, text=True, env=dict(os.environ, VERIF_SEED=os.environ.get('VERIF_SEED', '1'), VERIF_TIER='quick'))
    lines = [l for l in r.stdout.split('\n') if l.startswith('VIOLATION') or l.startswith('KNOWN-FINDING')]
    print('%s rc=%d %.0fs %s' % (c['property_id'], r.returncode, time.time() - t, ' | '.join(lines[:3])), flush=True)
    bad += r.returncode != 0
sys.exit(1 if bad else 0)
