import Driver.Util
import GudhiVerif.Mta
open DriverUtil AxpyProto

namespace DriverC09

/-- general matrix as sparse sorted columns over Z_p; `cls[j]` = representative of column j (identity without
    compression); `content` is indexed by representative -/
structure St where
  p : Nat := 2
  compressed : Bool := false
  cls : List Nat := []
  content : List Col := []

def parseEntry (p : Nat) (t : String) : Option (Nat × Nat) :=
  match t.splitOn ":" with
  | [a, b] => match a.toNat?, b.toNat? with
    | some x, some y => if y % p = 0 then none else some (x, y % p)
    | _, _ => none
  | _ => none

def sortCol (c : Col) : Col := c.mergeSort fun a b => decide (a.1 ≤ b.1)

def St.rep (s : St) (j : Nat) : Nat := s.cls.getD j j
def St.col (s : St) (j : Nat) : Col := s.content.getD (s.rep j) []
def St.ncols (s : St) : Nat := s.cls.length

/-- after column `r` changed: with compression, a class whose column now equals the column of another class is merged
    into it (classes never split); the zero column is a class of its own kind (never merged) -/
def St.settle (s : St) (r : Nat) : St :=
  if !s.compressed then s else
  let c := s.content.getD r []
  if c.isEmpty then s else
  match (List.range s.content.length).find? (fun q => q != r && s.cls.contains q && s.content.getD q [] == c) with
  | none => s
  | some q => { s with cls := s.cls.map fun x => if x = r then q else x }

def St.setCol (s : St) (j : Nat) (c : Col) : St :=
  let r := s.rep j
  ({ s with content := s.content.set r c }).settle r

def showCol (c : Col) : String := joinSp (c.map fun (r, x) => s!"{r}:{x}")

def obs (s : St) (nrows : Nat) : List String :=
  (List.range s.ncols).flatMap fun j =>
    let c := s.col j
    [s!"col {j} [{showCol c}] zero={if c.isEmpty then 1 else 0} ze={joinSp ((List.range nrows).map fun r => if coeff c r = 0 then "1" else "0")}"]

def rowsObs (s : St) (nrows : Nat) : List String :=
  (List.range nrows).map fun r =>
    s!"row {r} [{joinSp (((List.range s.ncols).filter fun j => coeff (s.col j) r != 0).map fun j => s!"{j}:{coeff (s.col j) r}")}]"

def swapRowsCol (a b : Nat) (c : Col) : Col :=
  sortCol (c.map fun (r, x) => (if r = a then b else if r = b then a else r, x))

def step (s : St) (ts : List String) : St × List String :=
  match ts with
  | ["field", p, comp] => ({ p := natD p, compressed := comp == "1", cls := [], content := [] }, ["field"])
  | "inscol" :: es =>
    let c := sortCol (es.filterMap (parseEntry s.p))
    let j := s.ncols
    -- content is indexed by representative; a new column is its own representative until settled
    let s1 : St := { s with cls := s.cls ++ [j], content := (s.content ++ (List.replicate (j + 1 - s.content.length) [])).set j c }
    (s1.settle j, ["inscol"])
  | ["rmlast"] =>
    ({ s with cls := s.cls.dropLast }, ["rmlast"])
  | ["add", a, b] => (s.setCol (natD b) (axpy s.p 1 (s.col (natD b)) (s.col (natD a))), ["add"])
  | ["mta", a, c, b] => (s.setCol (natD b) (MtaProto.mta s.p (natD c % s.p) (s.col (natD b)) (s.col (natD a))), ["mta"])
  | ["msa", c, a, b] => (s.setCol (natD b) (axpy s.p (natD c % s.p) (s.col (natD b)) (s.col (natD a))), ["msa"])
  | ["zeroent", j, r] => (s.setCol (natD j) ((s.col (natD j)).filter fun e => e.1 != natD r), ["zeroent"])
  | ["zerocol", j] => (s.setCol (natD j) [], ["zerocol"])
  | ["swapcol", a, b] =>
    let ca := s.col (natD a); let cb := s.col (natD b)
    ((s.setCol (natD a) cb).setCol (natD b) ca, ["swapcol"])
  | ["swaprow", a, b] =>
    ({ s with content := s.content.map (swapRowsCol (natD a) (natD b)) }, ["swaprow"])
  | ["obs", n] => (s, obs s (natD n))
  | ["rows", n] => (s, rowsObs s (natD n))
  | ["dup", _] => (s, ["dup"])   -- C15: copy / move / swap of the whole matrix is the identity of the model
  | _ => (s, ["bad-op"])

def main (_args : List String) : IO Unit := do
  let lines ← readLines (← IO.getStdin) #[]
  runCases lines {} step

end DriverC09
