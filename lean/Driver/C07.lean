import Driver.Util
import GudhiVerif.Model.ZigzagSpec
/-! Driver for C07: the history is a list of single-cell insertions / removals / identity arrows with filtration values;
    `bars` prints the rank-based interval decomposition by arrow numbers and its translation to filtration values. -/
open DriverUtil ZigzagSpec
namespace DriverC07

structure St where
  ops : List (Op × Int) := []
  dimMax : Int := -1

def showIdx (l : List (Nat × Nat × Option Nat)) : String :=
  joinSp (l.map fun b => s!"{b.1}:{b.2.1}:{match b.2.2 with | some d => toString d | none => "inf"}")

def leBar (a b : Nat × Int × Option Int) : Bool :=
  let key (x : Nat × Int × Option Int) : Nat × Int × Int × Int := (x.1, x.2.1, (match x.2.2 with | some _ => 0 | none => 1), x.2.2.getD 0)
  let ka := key a; let kb := key b
  if ka.1 != kb.1 then ka.1 < kb.1 else if ka.2.1 != kb.2.1 then ka.2.1 < kb.2.1 else if ka.2.2.1 != kb.2.2.1 then ka.2.2.1 < kb.2.2.1 else ka.2.2.2 ≤ kb.2.2.2

def showVal (l : List (Nat × Int × Option Int)) : String :=
  joinSp ((l.mergeSort leBar).map fun b => s!"{b.1}:{b.2.1}:{match b.2.2 with | some d => toString d | none => "inf"}")

/-- filtration value attached to an arrow number: the value given with the last real (non-identity) arrow at or before it -/
def valueAt (ops : List (Op × Int)) (i : Nat) : Int :=
  ((ops.take (i + 1)).foldl (fun (acc : Int) o => match o.1 with | .idle => acc | _ => o.2) 0)

def step (s : St) (ts : List String) : St × List String :=
  match ts with
  | ["opts", k] => ({ ops := [], dimMax := intD k }, ["opts"])
  | "ins" :: f :: vs => ({ s with ops := s.ops ++ [(.ins ((nats vs).mergeSort (· ≤ ·)), intD f)] }, ["ins"])
  | "rm" :: f :: vs => ({ s with ops := s.ops ++ [(.rm ((nats vs).mergeSort (· ≤ ·)), intD f)] }, ["rm"])
  | ["idle"] => ({ s with ops := s.ops ++ [(.idle, 0)] }, ["idle"])
  | ["bars"] =>
    let ivs := intervals (s.ops.map (·.1))
    let idx := ivs.mergeSort fun a b =>
      if a.1 != b.1 then a.1 < b.1 else if a.2.1 != b.2.1 then a.2.1 < b.2.1 else (match a.2.2, b.2.2 with | some x, some y => x ≤ y | some _, none => true | none, some _ => false | none, none => true)
    -- translation to filtration values: swap decreasing pairs, drop zero length
    let vals := ivs.filterMap fun b =>
      let fb := valueAt s.ops b.2.1
      match b.2.2 with
      | none => some (b.1, fb, none)
      | some d =>
        let fd := valueAt s.ops d
        if fb == fd then none else some (b.1, min fb fd, some (max fb fd))
    let kept := vals.filter fun b => s.dimMax == -1 || (b.1 : Int) < s.dimMax
    (s, [s!"idx {showIdx idx}", s!"fstore {showVal kept}", s!"fstream {showVal vals}"])
  | _ => (s, ["bad-op"])

def main (_args : List String) : IO Unit := do
  let lines ← readLines (← IO.getStdin) #[]
  runCases lines ({} : St) step

end DriverC07
