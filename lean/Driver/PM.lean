import Driver.Util
import GudhiVerif.Model.Pers
open DriverUtil PersModel

namespace DriverPM

/-- a cell of the current filtration: identifier, dimension, boundary by identifiers -/
structure C where
  id : Nat
  dim : Nat
  bd : List (Nat × Nat)

structure St where
  p : Nat := 2
  cells : List C := []
  live : Bool := false

def parseEntry (p : Nat) (t : String) : Option (Nat × Nat) :=
  match t.splitOn ":" with
  | [a, b] => match a.toNat?, b.toInt? with
    | some x, some y => let c := (y % (p : Int)).toNat; if c = 0 then none else some (x, c)
    | _, _ => none
  | _ => none

/-- the filtered complex in position coordinates for the reference reduction -/
def toPers (s : St) : List Cell :=
  let ids := s.cells.map (·.id)
  s.cells.map fun c => { dim := c.dim, val := 0, bd := c.bd.map fun (r, x) => (ids.idxOf r, x) }

/-- barcode in positions: (dim, birth position, death position) -/
def posBars (s : St) : List (Nat × Nat × Option Nat) :=
  let cs := toPers s
  let D := cs.map fun c => sortCol c.bd
  let ps := indexPairs s.p D
  let all := ps.map fun (b, d) => ((cs.getD b ⟨0, 0, []⟩).dim, b, d)
  all.mergeSort fun a b =>
    if a.1 ≠ b.1 then decide (a.1 < b.1) else if a.2.1 ≠ b.2.1 then decide (a.2.1 < b.2.1)
    else match a.2.2, b.2.2 with
      | some x, some y => decide (x ≤ y)
      | none, some _ => true
      | some _, none => false
      | none, none => true

def showPosBars (l : List (Nat × Nat × Option Nat)) : String :=
  joinSp (l.map fun (d, b, e) => s!"{d}:{b}:{match e with | some x => toString x | none => "inf"}")

def swapAt (l : List C) (i : Nat) : List C :=
  match l.drop i with
  | a :: b :: rest => l.take i ++ b :: a :: rest
  | _ => l

def step (s : St) (ts : List String) : St × List String :=
  match ts with
  | ["new", p] => ({ p := natD p, cells := [], live := true }, ["new"])
  | "ins" :: id :: d :: es =>
    ({ s with cells := s.cells ++ [{ id := natD id, dim := natD d, bd := es.filterMap (parseEntry s.p) }] }, ["ins"])
  | ["ids", _] => (s, ["ids"])
  | ["bars"] => (s, [s!"bars {showPosBars (posBars s)}"])
  | ["ident"] => (s, ["ident 1"])
  | ["ncols"] => (s, [s!"ncols {s.cells.length}"])
  | ["rmlast"] => ({ s with cells := s.cells.dropLast }, ["rmlast"])
  | ["swap", i] => ({ s with cells := swapAt s.cells (natD i) }, ["swap ok"])
  | ["rmmax", i] => ({ s with cells := s.cells.eraseIdx (natD i) }, ["rmmax"])
  | ["cycles"] => (s, [s!"cycles ok {(posBars s).length}"])
  | ["dup", _] => (s, ["dup"])   -- C15: copy / move / swap of the whole matrix is the identity of the model
  | _ => (s, ["bad-op"])

def main (_args : List String) : IO Unit := do
  let lines ← readLines (← IO.getStdin) #[]
  runCases lines {} step

end DriverPM
