import Driver.Util
import Driver.C04
import GudhiVerif.Model.Pers
/-! Driver for C11 (Ripser): specification side = Rips flag filtration of the dissimilarity (threshold, dimension dim+1) +
    reference reduction over Z_p; bars of dimension ≤ dim with positive length. -/
open DriverUtil
namespace DriverC11

structure St where
  n : Nat := 0
  d : List (Nat × Nat × Int) := []      -- (i, j, value) with j < i

def lowerPairs (n : Nat) : List (Nat × Nat) := (List.range n).flatMap fun i => (List.range i).map fun j => (i, j)

def lexLe : List Nat → List Nat → Bool := DriverC04.lexLe

def cellsOf (cplx : List (List Nat × Int)) (p : Nat) : List PersModel.Cell :=
  let ord := cplx.mergeSort fun a b => decide (a.2 < b.2) || (a.2 == b.2 && (decide (a.1.length < b.1.length) || (a.1.length == b.1.length && lexLe a.1 b.1)))
  let words := ord.map (·.1)
  ord.map fun (w, f) =>
    let bd := if w.length ≤ 1 then [] else
      (List.range w.length).map fun i => (words.idxOf (w.eraseIdx i), if i % 2 = 0 then 1 else p - 1)
    { dim := w.length - 1, val := f, bd := bd }

def rips (s : St) (thr : Option Int) (dim : Nat) : List (List Nat × Int) :=
  let es := s.d.filter fun e => match thr with | none => true | some t => decide (e.2.2 ≤ t)
  let g : DriverC04.St := { verts := (List.range s.n).map fun v => (v, 0), edges := es.map fun e => (e.2.1, e.1, e.2.2) }
  DriverC04.oneShot g dim

def step (s : St) (ts : List String) : St × List String :=
  match ts with
  | "mat" :: n :: ds =>
    let nn := natD n
    ({ n := nn, d := ((lowerPairs nn).zip (ints ds)).map fun (p, v) => (p.1, p.2, v) }, ["mat"])
  | "pts" :: _ => (s, ["pts"])
  | ["run", _, dim, thr, p, _] =>
    let dimMax := min (natD dim) (s.n - 2)
    let t : Option Int := if thr == "inf" then none else some (intD thr)
    let cplx := rips s t (dimMax + 1)
    let bs := (PersModel.bars (natD p) (cellsOf cplx (natD p)) true).filter fun b => b.1 ≤ dimMax
    (s, [s!"bars {PersModel.showBars bs}"])
  | _ => (s, ["bad-op"])

def main (_args : List String) : IO Unit := do
  let lines ← readLines (← IO.getStdin) #[]
  runCases lines ({} : St) step

end DriverC11
