import Driver.Util
import GudhiVerif.Model.Fields
open DriverUtil FieldsModel

namespace DriverC10

inductive St where
  | none
  | zp (p : Nat) (tbl : List Nat)
  | mf (m : MF)

def stepZp (p : Nat) (tbl : List Nat) : List String → List String
  | ["conv", z] => [toString (zpConv p (intD z))]
  | ["convu", z] => [toString (Zp2Proto.getValue (natD z) p)]
  | ["add", a, b] => [toString (zpAdd p (natD a % p) (natD b % p))]
  | ["sub", a, b] => [toString (zpSub p (natD a % p) (natD b % p))]
  | ["mul", a, b] => [toString (zpMul p (natD a % p) (natD b % p))]
  | ["mad", e, m, a] => [toString (zpMad p (natD e) (natD m) (natD a))]
  | ["aam", e, a, m] => [toString (zpAam p (natD e % p) (natD a % p) (natD m % p))]
  | ["negmul", x, y] => [toString ((p - (natD x * natD y) % p) % p)]
  | ["inv", x] => [toString (zpInv tbl p (natD x % p))]
  | ["eq", a, b] => [if natD a % p = natD b % p then "1" else "0"]
  | ["pinv", x, q] => [s!"{zpInv tbl p (natD x % p)} {natD q}"]
  | ["pid", _] => ["1"]
  | _ => ["bad-op"]

def stepMf (m : MF) : List String → List String
  | ["conv", z] => [toString ((intD z % (m.P : Int)).toNat)]
  | ["convu", z] => [toString (natD z % m.P)]
  | ["add", a, b] => [toString (mfAdd m (natD a) (natD b))]
  | ["sub", a, b] => [toString (mfSub m (natD a) (natD b))]
  | ["mul", a, b] => [toString (mfMul m (natD a) (natD b))]
  | ["mad", e, mm, a] => [toString (mfAdd m (mfMul m (natD e) (natD mm)) (natD a))]
  | ["aam", e, a, mm] => [toString (mfMul m (mfAdd m (natD e) (natD a)) (natD mm))]
  | ["negmul", x, y] => [toString ((m.P - (natD x * natD y) % m.P) % m.P)]
  | ["inv", x] => match mfPinv m (natD x % m.P) m.P with
      | some (v, _) => [toString v]
      | Option.none => ["undefined"]
  | ["eq", a, b] => [if natD a % m.P = natD b % m.P then "1" else "0"]
  | ["pinv", x, q] => match mfPinv m (natD x % m.P) (natD q) with
      | some (v, t) => [s!"{v} {t}"]
      | Option.none => ["undefined"]
  | ["pid", q] => [toString (mfPid m (natD q))]
  | _ => ["bad-op"]

def step (s : St) (ts : List String) : St × List String :=
  match ts with
  | ["zp", p] =>
    match zpInit (natD p) with
    | some tbl => (St.zp (natD p) tbl, ["ok"])
    | Option.none => (St.none, ["invalid_argument"])
  | ["multi", lo, hi] =>
    match mfInit (natD lo) (natD hi) with
    | some m => (St.mf m, [s!"ok {m.P}"])
    | Option.none => (St.none, ["invalid_argument"])
  | _ =>
    match s, ts with
    | St.none, _ => (s, ["no-field"])
    | _, ["xfer", _] => (s, ["ok"])   -- copy / move / assignment / swap of the operator object: the field is unchanged
    | St.zp p tbl, _ => (s, stepZp p tbl ts)
    | St.mf m, _ => (s, stepMf m ts)

def main (_args : List String) : IO Unit := do
  let lines ← readLines (← IO.getStdin) #[]
  runCases lines St.none step

end DriverC10
