import Driver.Util
import GudhiVerif.Toplex
open DriverUtil ToplexProto

namespace DriverC16

def sortN (l : List Nat) : List Nat := (l.mergeSort fun a b => decide (a ≤ b)).eraseDups

def subsetsOf : List Nat → List (List Nat)
  | [] => [[]]
  | x :: xs => let r := subsetsOf xs; r ++ r.map (x :: ·)

/-- identify `y` with `x` (the protocol always keeps `x`; the harness relabels if the library keeps the other one) -/
def contract (m : Toplex) (x y : Nat) : Toplex :=
  let renamed := m.map fun τ => if τ.contains y then sortN (x :: without τ y) else τ
  renamed.foldl insertSimplex []

def sameSet (a b : Simplex) : Bool := subset a b && subset b a

/-- all non-empty subsets of {0..u-1} in the order of their bit masks -/
def maskSubsets (u : Nat) : List (List Nat) :=
  (List.range (2 ^ u)).tail.map fun mask => (List.range u).filter fun k => (mask / 2 ^ k) % 2 = 1

def obs (m : Toplex) (u : Nat) : List String :=
  let subs := maskSubsets u
  [s!"mem {joinSp (subs.map fun s => if member m s then "1" else "0")}",
   s!"max {joinSp (subs.map fun s => if m.any (sameSet s) then "1" else "0")}",
   s!"nmax {(m.filter (· ≠ [])).length}"]

def step (st : Toplex × Nat) (ts : List String) : (Toplex × Nat) × List String :=
  let (m, u) := st
  match ts with
  | ["univ", n] => ((m, natD n), ["univ"])
  | "ins" :: vs => ((insertSimplex m (sortN (nats vs)), u), ["ins"])
  | "rm" :: vs => ((removeSimplex m (sortN (nats vs)), u), ["rm"])
  | ["rmv", v] => ((removeSimplex m [natD v], u), ["rmv"])
  | ["contract", x, y] =>
    if member m [natD x] && member m [natD y] && natD x != natD y then ((contract m (natD x) (natD y), u), ["contract"])
    else ((m, u), ["contract"])
  | ["obs"] => ((m, u), obs m u)
  | _ => ((m, u), ["bad-op"])

def main (_args : List String) : IO Unit := do
  let lines ← readLines (← IO.getStdin) #[]
  runCases lines ([], 5) step

end DriverC16
