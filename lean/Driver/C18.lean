import Driver.Util
import GudhiVerif.Model.Landscape
/-! Driver for C18: six exact-form slots and six grid-form slots of sampled landscapes. -/
open DriverUtil Landscape

namespace DriverC18

structure St where
  e : Array Land := Array.replicate 6 []
  g : Array Land := Array.replicate 6 []
  lo : Int := -4
  hi : Int := 52

def showQ (q : Q) : String := let n := q.norm; s!"{n.num}/{n.den}"

def diagOf (ts : List String) : List (Int × Int) :=
  match ts with
  | n :: rest =>
    let xs := ints (rest.take (2 * natD n))
    let rec go : List Int → List (Int × Int)
      | b :: d :: r => (4 * b, 4 * d) :: go r
      | _ => []
    go xs
  | [] => []

def evalLines (l : Land) (nl : Nat) (width : Nat) : List String :=
  (List.range nl).map fun k =>
    let f := l.getD k []
    let f := if f.isEmpty then List.replicate width (0 : Int) else f
    s!"lev {k}: {showInts f}"

def step (s : St) (ts : List String) : St × List String :=
  let E (k : String) : Land := s.e.getD (natD k) []
  let G (k : String) : Land := s.g.getD (natD k) []
  let setE (k : String) (l : Land) : St := { s with e := s.e.setIfInBounds (natD k) l }
  let setG (k : String) (l : Land) : St := { s with g := s.g.setIfInBounds (natD k) l }
  let width := (s.hi - s.lo + 1).toNat
  match ts with
  | ["window", a, c] => ({ s with lo := intD a, hi := intD c }, ["window"])
  | "diag" :: a :: rest => (setE a (ofDiagram (diagOf rest) s.lo s.hi), ["diag"])
  | "gdiag" :: a :: g0 :: g1 :: n :: rest =>
    let q0 := 4 * intD g0; let q1 := 4 * intD g1
    (setG a (ofDiagramGrid (diagOf rest) q0 q1 ((q1 - q0) / (natD n : Int)) s.lo s.hi), ["gdiag"])
  | "gdiagl" :: a :: g0 :: g1 :: n :: nlev :: rest =>
    -- the constructor that keeps only the first `nlev` landscape functions
    let q0 := 4 * intD g0; let q1 := 4 * intD g1
    (setG a ((ofDiagramGrid (diagOf rest) q0 q1 ((q1 - q0) / (natD n : Int)) s.lo s.hi).take (natD nlev)), ["gdiagl"])
  | ["eval", a, nl] => (s, evalLines (E a) (natD nl) width)
  | ["geval", a, nl] => (s, evalLines (G a) (natD nl) width)
  | ["add", c, a, b'] => (setE c (add (E a) (E b')), ["add"])
  | ["sub", c, a, b'] => (setE c (sub (E a) (E b')), ["sub"])
  | ["scale", c, a, x, _] => (setE c (scale (intD x) (E a)), ["scale"])
  | ["abs", c, a] => (setE c (absL (E a)), ["abs"])
  | ["int", a] => (s, [s!"int {showQ (integralL (E a))}"])
  | ["dist", a, b', p] =>
    (s, [if p = "0" then s!"dist {distInf (E a) (E b')}/64" else if p = "1" then s!"dist {showQ (dist1 (E a) (E b'))}" else s!"dist {showQ (dist2sq (E a) (E b'))}"])
  | ["ip", a, b'] => (s, [s!"ip {showQ (innerL (E a) (E b'))}"])
  | ["gadd", c, a, b'] => (setG c (add (G a) (G b')), ["gadd"])
  | ["gsub", c, a, b'] => (setG c (sub (G a) (G b')), ["gsub"])
  | ["gscale", c, a, x, _] => (setG c (scale (intD x) (G a)), ["gscale"])
  | ["gabs", c, a] => (setG c (absL (G a)), ["gabs"])
  | ["gint", a] => (s, [s!"gint {showQ (integralL (G a))}"])
  | ["gdist", a, b', p] =>
    (s, [if p = "0" then s!"gdist {distInf (G a) (G b')}/64" else if p = "1" then s!"gdist {showQ (dist1 (G a) (G b'))}" else s!"gdist {showQ (dist2sq (G a) (G b'))}"])
  | ["gip", a, b'] => (s, [s!"gip {showQ (innerL (G a) (G b'))}"])
  | "avg" :: c :: srcs =>
    -- the histories average 2 or 4 landscapes with samples that are multiples of 16/64, so the division is exact
    (setE c ((srcs.foldl (fun acc k => add acc (E k)) []).map (·.map (· / (srcs.length : Int)))), ["avg"])
  | "gavg" :: c :: srcs => (setG c ((srcs.foldl (fun acc k => add acc (G k)) []).map (·.map (· / (srcs.length : Int)))), ["gavg"])
  | _ => (s, ["bad-op"])

def main (_args : List String) : IO Unit := do
  let lines ← readLines (← IO.getStdin) #[]
  runCases lines ({} : St) step

end DriverC18
