/-! line-protocol helpers shared by the per-property drivers (core Lean only) -/
namespace DriverUtil

def toks (line : String) : List String := (line.trimAscii.toString.splitOn " ").filter (· ≠ "")

def nat? (s : String) : Option Nat := s.toNat?
def int? (s : String) : Option Int := s.toInt?
def natD (s : String) : Nat := s.toNat?.getD 0
def intD (s : String) : Int := s.toInt?.getD 0
def nats (l : List String) : List Nat := l.filterMap String.toNat?
def ints (l : List String) : List Int := l.filterMap String.toInt?

def joinSp (l : List String) : String := String.intercalate " " l
def showNats (l : List Nat) : String := joinSp (l.map toString)
def showInts (l : List Int) : String := joinSp (l.map toString)
def showWord (l : List Nat) : String := String.intercalate "," (l.map toString)

/-- read all of stdin as lines -/
partial def readLines (h : IO.FS.Stream) (acc : Array String) : IO (Array String) := do
  let line ← h.getLine
  if line.isEmpty then return acc else readLines h (acc.push line.trimAscii.toString)

/-- split `[n x1 … xn] rest` -/
def takeList (l : List String) : List String × List String :=
  match l with
  | "[" :: n :: rest => let k := natD n; (rest.take k, (rest.drop k).drop 1)
  | _ => ([], l)

/-- run `step` over the lines; `case n` lines are echoed and reset the state to `init` -/
def runCases {σ : Type} (lines : Array String) (init : σ) (step : σ → List String → σ × List String) : IO Unit := do
  let mut st := init
  let out ← IO.getStdout
  for line in lines do
    let ts := toks line
    match ts with
    | [] => pure ()
    | ["end"] => pure ()
    | ["case", n] => out.putStrLn s!"case {n}"; st := init
    | _ =>
      let (st', outs) := step st ts
      st := st'
      for o in outs do out.putStrLn o
  out.flush

end DriverUtil
