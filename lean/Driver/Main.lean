import Driver.C10
import Driver.ST
import Driver.C14
import Driver.C13
import Driver.C02
import Driver.PM
import Driver.C09
import Driver.C16
import Driver.C17
import Driver.C04
import Driver.C18
import Driver.C20
import Driver.C12
import Driver.C19
import Driver.C11
import Driver.C07

def main (args : List String) : IO UInt32 := do
  match args with
  | "C10" :: rest => DriverC10.main rest; return 0
  | "ST" :: rest => DriverST.main rest; return 0
  | "C14" :: rest => DriverC14.main rest; return 0
  | "C13" :: rest => DriverC13.main rest; return 0
  | "C02" :: rest => DriverC02.main rest; return 0
  | "PM" :: rest => DriverPM.main rest; return 0
  | "C09" :: rest => DriverC09.main rest; return 0
  | "C16" :: rest => DriverC16.main rest; return 0
  | "C17" :: rest => DriverC17.main rest; return 0
  | "C04" :: rest => DriverC04.main rest; return 0
  | "C18" :: rest => DriverC18.main rest; return 0
  | "C20" :: rest => DriverC20.main rest; return 0
  | "C12" :: rest => DriverC12.main rest; return 0
  | "C19" :: rest => DriverC19.main rest; return 0
  | "C11" :: rest => DriverC11.main rest; return 0
  | "C07" :: rest => DriverC07.main rest; return 0
  | _ => IO.eprintln "usage: gvdriver <Cxx> [mode] < history"; return 2
