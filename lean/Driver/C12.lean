import Driver.Util
import GudhiVerif.Model.Collapse
open DriverUtil CollapseModel
namespace DriverC12

def parseEdges : List String → List Edge
  | u :: v :: f :: rest => (natD u, natD v, intD f) :: parseEdges rest
  | _ => []

def showEdges (l : List Edge) : String := joinSp (l.map fun e => s!"{e.1},{e.2.1}:{e.2.2}")

def step (g : List Edge) (ts : List String) : List Edge × List String :=
  match ts with
  | "graph" :: rest => (parseEdges rest, ["graph"])
  | ["e", u, v, f] => (g ++ [(natD u, natD v, intD f)], ["e"])
  | ["clear"] => ([], ["clear"])
  | ["process"] => (g, [s!"out {showEdges (processEdges g)}"])
  | ["collapse"] => (g, ["col"])     -- public entry point: the tie order of its sort is unspecified; judged by the oracle
  | _ => (g, ["bad-op"])

def main (_args : List String) : IO Unit := do
  let lines ← readLines (← IO.getStdin) #[]
  runCases lines ([] : List Edge) step

end DriverC12
