import Driver.Util
import GudhiVerif.Cam
import GudhiVerif.Model.SimplexTree
import GudhiVerif.Model.Pers
open DriverUtil TrieProto STModel

namespace DriverC02

/-- the filtered complex in the simplex tree's filtration order -/
def orderedCells (t : Forest) : List (List Nat × Int) := filtrationOrder t

def camCells (t : Forest) : List CamProto.Cell := (orderedCells t).map fun (w, f) => ⟨w, f⟩

/-- the same complex for the reference reduction: signed simplicial boundary, positions in filtration order -/
def persCells (t : Forest) (p : Nat) : List PersModel.Cell :=
  let ord := orderedCells t
  let words := ord.map (·.1)
  ord.map fun (w, f) =>
    let bd := if w.length ≤ 1 then [] else
      (List.range w.length).map fun i => (words.idxOf (w.eraseIdx i), if i % 2 = 0 then 1 else p - 1)
    { dim := w.length - 1, val := f, bd := bd }

def showBar (b : Nat × Int × Option Int) : String := PersModel.showBar b

def filt (bs : List (Nat × Int × Option Int)) (dimMax : Int) (minLen : Int) : List (Nat × Int × Option Int) :=
  bs.filter fun (d, b, de) => decide ((d : Int) < dimMax) && (match de with | some x => decide (x - b > minLen) | none => true)

def dimC (t : Forest) : Int := dimOf t

def step (t : Forest) (ts : List String) : Forest × List String :=
  match ts with
  | "s" :: f :: ws => ((insF t (sortDedup (nats ws)) (intD f)).1, [])
  | ["pers", p, minLen, flag, from_, to_] =>
    let pN := natD p; let ml := intD minLen; let fl := flag == "1"
    let cam := (CamProto.run pN (camCells t) fl ml).mergeSort PersModel.leBar
    let dmax : Int := dimC t + (if fl then 1 else 0)
    let spec := (filt (PersModel.bars pN (persCells t pN) false) dmax ml).mergeSort PersModel.leBar
    let nb := dmax.toNat
    let betti := (List.range nb).map fun d => (cam.filter fun b => b.1 = d ∧ b.2.2.isNone).length
    let fr := intD from_; let to := intD to_
    let pb := (List.range nb).map fun d => (cam.filter fun b => decide (b.1 = d) && decide (b.2.1 ≤ fr) && (match b.2.2 with | some x => decide (x > to) | none => true)).length
    (t, [s!"bars {PersModel.showBars cam}", s!"betti {showNats betti}", s!"pbetti {showNats pb}",
         s!"spec {if cam == spec then "1" else "0 " ++ PersModel.showBars spec}"])
  | ["multi", lo, hi, minLen, flag] =>
    -- per prime: index pairs of the reference reduction; an interval carries the product of the primes at which it exists
    let primes := ((List.range (natD hi + 1)).filter fun q => natD lo ≤ q ∧ 2 ≤ q ∧ (List.range q).all fun d => d < 2 || q % d != 0)
    let ml := intD minLen; let fl := flag == "1"
    let dmax : Int := dimC t + (if fl then 1 else 0)
    let lines := primes.map fun q =>
      let bs := (filt (PersModel.bars q (persCells t q) false) dmax ml).mergeSort PersModel.leBar
      s!"mq {q} {PersModel.showBars bs}"
    (t, lines ++ ["products-ok 1"])
  | _ => (t, ["bad-op"])

def main (_args : List String) : IO Unit := do
  let lines ← readLines (← IO.getStdin) #[]
  runCases lines Forest.nil step

end DriverC02
