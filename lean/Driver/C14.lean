import Driver.Util
import GudhiVerif.Line
import GudhiVerif.Model.Cubical
open DriverUtil

namespace DriverC14

def showPairs (l : List (Int × Int)) : String := joinSp (l.map fun (b, d) => s!"{b}:{d}")

/-- `line v…`: the goto state machine of `Line.lean`, bars in emission order; `linegt v…`: the same routine with the
    comparator `>` (the model runs on the negated sequence). `rect r c v…`: the specification — H0/H1 of the lower-star
    cubical filtration of the top-cell values by the reference reduction, zero-length bars dropped. -/
partial def step (_ : Unit) (ts : List String) : Unit × List String :=
  match ts with
  | "lineidx" :: vs => step () ("line" :: vs)
  | "linefloat" :: vs => step () ("line" :: vs)
  | "rectidx" :: rest => step () ("rect" :: rest)
  | "line" :: vs =>
    match LineProto.run (ints vs) with
    | some (m, out) => ((), [s!"min {m}", s!"bars {showPairs out.reverse}"])
    | none => ((), ["empty"])
  | "linegt" :: vs =>
    match LineProto.run ((ints vs).map (fun x => -x)) with
    | some (m, out) => ((), [s!"min {-m}", s!"bars {showPairs (out.reverse.map fun (b, d) => (-b, -d))}"])
    | none => ((), ["empty"])
  | "rect" :: r :: c :: vs =>
    let sh : CubModel.Shape := { sizes := [natD c, natD r], per := [false, false] }
    let vals := ints vs
    let cells := sh.cells false (sh.valueTop vals) 2
    let bs := PersModel.bars 2 cells true
    let h (d : Nat) := joinSp ((bs.filter fun b => b.1 = d ∧ b.2.2.isSome).map fun b => s!"{b.2.1}:{b.2.2.getD 0}")
    let mn := (bs.filter fun b => b.1 = 0 ∧ b.2.2.isNone).map fun b => toString b.2.1
    ((), [s!"h0 {h 0}", s!"h1 {h 1}", s!"min {joinSp mn}"])
  | _ => ((), ["bad-op"])

def main (_args : List String) : IO Unit := do
  let lines ← readLines (← IO.getStdin) #[]
  runCases lines () step

end DriverC14
