import Driver.Util
import GudhiVerif.Model.AbsComplex
open DriverUtil AbsCx

namespace DriverC17

structure St where
  nv : Nat := 0          -- number of vertices ever added (labels 0..nv-1)
  c : Cx := []

def maskSubsets (u : Nat) : List (List Nat) :=
  (List.range (2 ^ u)).tail.map fun mask => (List.range u).filter fun k => (mask / 2 ^ k) % 2 = 1

def showS (s : Simplex) : String := String.intercalate "," (s.map toString)

def lexLe : List Nat → List Nat → Bool
  | [], _ => true
  | _ :: _, [] => false
  | a :: s, b :: t => if a = b then lexLe s t else decide (a < b)

def obs (s : St) : List String :=
  [s!"contains {joinSp ((maskSubsets s.nv).map fun t => if mem s.c t then "1" else "0")}",
   s!"blockers {joinSp (((blockers s.c).mergeSort lexLe).map showS)}",
   s!"nverts {(s.c.filter fun t => t.length == 1).length}"]

def step (s : St) (ts : List String) : St × List String :=
  match ts with
  | ["addv"] => ({ nv := s.nv + 1, c := s.c ++ [[s.nv]] }, ["addv"])
  | ["adde", a, b] =>
    let e := sortN [natD a, natD b]
    if mem s.c [natD a] && mem s.c [natD b] && natD a != natD b && !mem s.c e then ({ s with c := s.c ++ [e] }, ["adde"]) else (s, ["adde"])
  | "adds" :: vs =>
    -- vertices that do not exist yet are created, together with every label in between (the library numbers vertices consecutively)
    let w := sortN (nats vs)
    let top := w.foldl max 0
    let fresh := (List.range (top + 1)).filter fun v => decide (s.nv ≤ v)
    ({ nv := max s.nv (top + 1), c := addClosure (s.c ++ fresh.map fun v => [v]) w }, ["adds"])
  | "rmstar" :: vs => ({ s with c := removeStar s.c (sortN (nats vs)) }, ["rmstar"])
  | ["link", a, b] => (s, [s!"link {if linkCondition s.c (natD a) (natD b) then 1 else 0}"])
  | ["contract", a, b] =>
    if mem s.c (sortN [natD a, natD b]) && linkCondition s.c (natD a) (natD b) then ({ s with c := contract s.c (natD a) (natD b) }, ["contract 1"])
    else (s, ["contract 0"])
  | ["copy", _] => (s, ["copy"])   -- copy construction / assignment: the complex is unchanged
  | ["obs"] => (s, obs s)
  | _ => (s, ["bad-op"])

def main (_args : List String) : IO Unit := do
  let lines ← readLines (← IO.getStdin) #[]
  runCases lines {} step

end DriverC17
