import Driver.Util
import Driver.C04
import GudhiVerif.Model.SparseRips
open DriverUtil SparseRips
namespace DriverC19

structure St where
  pts : List (Int × Int) := []
  l1 : Bool := false
  cfg : Cfg := {}
  order : List Nat := []
  params : List (Option Int) := []

def dist (s : St) (i j : Nat) : Int :=
  let p := s.pts.getD i (0, 0); let q := s.pts.getD j (0, 0)
  let dx := (p.1 - q.1).natAbs; let dy := (p.2 - q.2).natAbs
  if s.l1 then (dx + dy : Nat) else (max dx dy : Nat)

def bound (t : String) : Option Int := if t == "inf" || t == "ninf" then none else some (intD t)

def pairs : List Int → List (Int × Int)
  | x :: y :: r => (x, y) :: pairs r
  | _ => []

def complexOf (s : St) : List (List Nat × Int) :=
  let (vs, es) := sparseGraph s.cfg (dist s) s.order s.params
  let g : DriverC04.St := { verts := (vs.mergeSort (· ≤ ·)).map fun v => (v, 0), edges := es.map fun e => (min e.1 e.2.1, max e.1 e.2.1, e.2.2) }
  let full := DriverC04.oneShot g s.cfg.dim
  if s.cfg.a ≥ s.cfg.b then full
  else
    let lambda : Nat → Option Int := fun v => match s.order.idxOf? v with | some i => s.params.getD i none | none => none
    -- the blocker is asked about simplices of dimension ≥ 2 only; a simplex exists iff none of its faces of dimension ≥ 2 is blocked
    let value (t : List Nat) : Int := (full.find? (·.1 == t)).map (·.2) |>.getD 0
    full.filter fun (w, _) => (DriverC04.subsetsOf w).all fun t => t.length < 3 || !blocked s.cfg lambda t (value t)

def step (s : St) (ts : List String) : St × List String :=
  match ts with
  | "pts" :: _ :: xs => ({ s with pts := pairs (ints xs) }, ["pts"])
  | ["metric", m] => ({ s with l1 := m == "l1" }, ["metric"])
  | ["eps", a, b] => ({ s with cfg := { s.cfg with a := natD a, b := natD b } }, ["eps"])
  | ["bounds", lo, hi] => ({ s with cfg := { s.cfg with mini := bound lo, maxi := bound hi } }, ["bounds"])
  | ["dim", k] => ({ s with cfg := { s.cfg with dim := natD k } }, ["dim"])
  | ["start", _] => (s, ["start"])
  | ["probe"] => (s, ["probe"])
  | "given" :: n :: rest =>
    let nn := natD n
    let order := nats (rest.take nn)
    let params := (rest.drop nn).map fun t => if t == "inf" then none else some (intD t)
    let ok := greedy (dist s) s.pts.length order params
    ({ s with order := order, params := params }, [s!"given ok={if ok then 1 else 0}"])
  | ["sparse"] => (s, [s!"cplx {DriverC04.showCplx (complexOf s)}"])
  | _ => (s, ["bad-op"])

def main (_args : List String) : IO Unit := do
  let lines ← readLines (← IO.getStdin) #[]
  runCases lines ({} : St) step

end DriverC19
