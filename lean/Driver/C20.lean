import Driver.Util
import GudhiVerif.Model.Coxeter
/-! Driver for C20: one current simplex; faces / cofaces as canonical vertex-set lists; exact point location. -/
open DriverUtil CoxModel

namespace DriverC20

def showV (v : List Int) : String := String.intercalate "," (v.map toString)
def showS (s : List (List Int)) : String := String.intercalate ";" (s.map showV)
def showSS (l : List (List (List Int))) : String :=
  let strs := l.map showS
  joinSp (strs.toArray.qsort (· < ·)).toList
def showParts (ps : List (List Nat)) : String := String.intercalate "|" (ps.map fun p => String.intercalate "," (p.map toString))

/-- `simp d v1..vd k n1 e.. n2 e..` -/
def parseSimp (ts : List String) : Simp :=
  match ts with
  | d :: rest =>
    let dd := natD d
    let v := ints (rest.take dd)
    let rest := rest.drop dd
    match rest with
    | k :: rest =>
      let rec go (n : Nat) (r : List String) (acc : List (List Nat)) : List (List Nat) :=
        match n, r with
        | 0, _ => acc
        | n + 1, sz :: r => let s := natD sz; go n (r.drop s) (acc ++ [nats (r.take s)])
        | _, [] => acc
      { d := dd, v := v, parts := go (natD k) rest [] }
    | [] => { d := dd, v := v, parts := [] }
  | [] => { d := 0, v := [], parts := [] }

def step (s : Simp) (ts : List String) : Simp × List String :=
  match ts with
  | "tri" :: _ => (s, ["tri"])
  | "simp" :: rest => let t := parseSimp rest; (t, [s!"simp dim={t.parts.length - 1}"])
  | ["verts"] => (s, [s!"verts {showS (vertsL s)} distinct={if (vertsL s).eraseDups.length = (vertsL s).length then 1 else 0}"])
  | ["faces", k] =>
    let f := faces s (natD k)
    (s, [s!"faces {k} n={f.length} isface=1 {showSS f}"])
  | ["cofaces", m] =>
    let c := cofaces s (natD m)
    (s, [s!"cofaces {m} n={c.length} ok=1 {showSS c}"])
  | "locate" :: den :: nums =>
    let t := locate nums.length (ints nums) (natD den)
    (t, [s!"locate v={showV t.v} parts={showParts t.parts} verts={showS (sortV (vertsL t))} weights-ok=1"])
  | "locatev" :: den :: nums =>
    let t := locate nums.length (ints nums) (natD den)
    (t, [s!"locate verts={showS (sortV (vertsL t))} weights-ok=1"])
  | _ => (s, ["bad-op"])

def main (_args : List String) : IO Unit := do
  let lines ← readLines (← IO.getStdin) #[]
  runCases lines ({ d := 0, v := [], parts := [] } : Simp) step

end DriverC20
