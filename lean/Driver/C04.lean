import Driver.Util
import GudhiVerif.Expand
open DriverUtil ExpandProto

namespace DriverC04

structure St where
  verts : List (Nat × Int) := []          -- (label, value), kept sorted by label
  edges : List (Nat × Nat × Int) := []    -- (u, v, value) with u < v
  extra : List (List Nat × Int) := []     -- incremental route: the current complex (word, value)
  iverts : List Nat := []                 -- incremental route: vertices inserted so far
  iedges : List (Nat × Nat × Int) := []   -- incremental route: edges inserted so far

def insSorted (l : List (Nat × Int)) (x : Nat × Int) : List (Nat × Int) :=
  ((l.filter fun e => e.1 != x.1) ++ [x]).mergeSort fun a b => decide (a.1 ≤ b.1)

/-- upper neighbours of v with the edge values, sorted -/
def upper (s : St) (v : Nat) : Sibs :=
  ((s.edges.filter fun e => e.1 = v).map fun e => (e.2.1, e.2.2)).mergeSort fun a b => decide (a.1 ≤ b.1)

def lexLe : List Nat → List Nat → Bool
  | [], _ => true
  | _ :: _, [] => false
  | a :: s, b :: t => if a = b then lexLe s t else decide (a < b)

def showCplx (l : List (List Nat × Int)) : String :=
  joinSp ((l.mergeSort fun a b => lexLe a.1 b.1).map fun (w, f) => s!"{showWord w}:{f}")

/-- the one-shot expansion: `expand` of `Expand.lean` on the graph (depth max(d,1): the graph itself is never cut) -/
def oneShot (s : St) (d : Nat) : List (List Nat × Int) := expand (upper s) (max d 1) s.verts

/-- deterministic blocker rules on the vertex set of a simplex -/
def blocked (rule : String) (arg : Nat) (w : List Nat) : Bool :=
  match rule with
  | "none" => false
  | "parity" => (w.foldl (· + ·) 0) % 2 = 1
  | "size" => w.length = arg
  | "has" => w.contains arg
  | "mask" => w.foldl (fun m x => m ||| (1 <<< x)) 0 == arg
  | _ => false

def subsetsOf : List Nat → List (List Nat)
  | [] => [[]]
  | x :: xs => let r := subsetsOf xs; r.map (x :: ·) ++ r

/-- largest subcomplex of the clique complex without blocked simplices (the oracle is only asked about simplices of
    dimension ≥ 2) -/
def withBlockers (s : St) (d : Nat) (rule : String) (arg : Nat) : List (List Nat × Int) :=
  (oneShot s d).filter fun (w, _) => (subsetsOf w).all fun t => t.length < 3 || !blocked rule arg t

def adjacent (edges : List (Nat × Nat × Int)) (a b : Nat) : Bool :=
  edges.any fun e => (e.1 = a && e.2.1 = b) || (e.1 = b && e.2.1 = a)

/-- incremental insertion of the edge {u,v} with value f, dimension bound d (none = unbounded): the simplices
    created are the cliques of the new graph that contain u and v, each with value f -/
def edgeFlag (s : St) (u v : Nat) (f : Int) (d : Option Nat) : St × List (List Nat) :=
  if u = v then
    if s.extra.any (·.1 == [u]) then (s, []) else ({ s with iverts := s.iverts ++ [u], extra := s.extra ++ [([u], f)] }, [[u]])
  else
    let a := min u v; let b := max u v
    let edges' := s.iedges ++ [(a, b, f)]
    let common := s.iverts.filter fun x => x != a && x != b && adjacent edges' x a && adjacent edges' x b
    let cands := (subsetsOf common).filter fun t => (match d with | some k => t.length + 2 ≤ k + 1 | none => true) &&
      t.all fun x => t.all fun y => x = y || adjacent edges' x y
    let news := cands.map fun t => (a :: b :: t).mergeSort (fun x y => decide (x ≤ y))
    let news := news.filter fun w => !(s.extra.any (·.1 == w))
    ({ s with iedges := edges', extra := s.extra ++ news.map fun w => (w, f) }, news)

/-- make_filtration_non_decreasing on the (word, value) list: value := max over the faces, by increasing size -/
def mfnd (l : List (List Nat × Int)) : List (List Nat × Int) :=
  let sorted := l.mergeSort fun a b => decide (a.1.length ≤ b.1.length)
  sorted.foldl (fun acc (wf : List Nat × Int) =>
    let faces := (List.range wf.1.length).map fun i => wf.1.eraseIdx i
    let m := faces.foldl (fun m t => match acc.find? (·.1 == t) with | some e => max m e.2 | none => m) wf.2
    acc ++ [(wf.1, if wf.1.length ≤ 1 then wf.2 else m)]) []

def step (s : St) (ts : List String) : St × List String :=
  match ts with
  | ["gv", v, f] => ({ s with verts := insSorted s.verts (natD v, intD f) }, [])
  | ["ge", u, v, f] => ({ s with edges := s.edges ++ [(min (natD u) (natD v), max (natD u) (natD v), intD f)] }, [])
  | ["expand", d] => (s, [s!"cplx {showCplx (oneShot s (natD d))}"])
  | ["expandb", d, rule, arg] => (s, [s!"cplx {showCplx (withBlockers s (natD d) rule (natD arg))}"])
  | ["edge", u, v, f, d] =>
    let (s', news) := edgeFlag s (natD u) (natD v) (intD f) (if d == "-1" then none else some (natD d))
    (s', [s!"added {joinSp ((news.mergeSort lexLe).map showWord)}"])
  | "ripsm" :: n :: thr :: dim :: ds =>
    let nn := natD n; let th := intD thr
    let pairs := (List.range nn).flatMap fun i => (List.range i).map fun j => (j, i)
    let es := (pairs.zip (ints ds)).filter fun (_, d) => d ≤ th
    let g : St := { verts := (List.range nn).map fun v => (v, 0), edges := es.map fun ((a, b), d) => (a, b, d) }
    (s, [s!"cplx {showCplx (oneShot g (natD dim))}"])
  | "ripsp" :: thr :: dim :: xs =>
    let pts := ints xs; let nn := pts.length; let th := intD thr
    let pairs := (List.range nn).flatMap fun i => (List.range i).map fun j => (j, i)
    let es := (pairs.map fun (a, b) => ((a, b), ((pts.getD a 0) - (pts.getD b 0)).natAbs)).filter fun (_, d) => (d : Int) ≤ th
    let g : St := { verts := (List.range nn).map fun v => (v, 0), edges := es.map fun ((a, b), d) => (a, b, (d : Int)) }
    (s, [s!"cplx {showCplx (oneShot g (natD dim))}"])
  | ["cplx"] => (s, [s!"cplx {showCplx s.extra}"])
  | ["inceq", _] =>
    -- the incremental tree against the one-shot expansion of the same graph: stored dimension and `operator==`
    let dim : Int := s.extra.foldl (fun m wf => max m ((wf.1.length : Int) - 1)) (-1)
    (s, [s!"inceq dim={dim} eq=1"])
  | ["mfnd"] => ({ s with extra := mfnd s.extra }, ["mfnd"])
  | _ => (s, ["bad-op"])

def main (_args : List String) : IO Unit := do
  let lines ← readLines (← IO.getStdin) #[]
  runCases lines {} step

end DriverC04
