import Driver.Util
import GudhiVerif.Model.Cubical
open DriverUtil CubModel

namespace DriverC13

/-- `cub top|vtx plain|per d  s_1..s_d  m_1..m_d  values…` (sizes as handed to the C++ constructor) followed by
    observation requests `cells`, `order`, `bars p` -/
structure St where
  sh : Shape := { sizes := [], per := [] }
  perClass : Bool := false
  vals : List Int := []
  top : Bool := true

def St.value (s : St) (pos : Nat) : Int := if s.top then s.sh.valueTop s.vals pos else s.sh.valueVert s.vals pos

def sortNat (l : List Nat) : List Nat := l.mergeSort fun a b => decide (a ≤ b)

def step (s : St) (ts : List String) : St × List String :=
  match ts with
  | "cub" :: mode :: cls :: d :: rest =>
    let n := natD d
    let given := nats (rest.take n)
    let mask := (nats ((rest.drop n).take n)).map (· != 0)
    let vals := ints (rest.drop (2 * n))
    let top := mode == "top"
    -- vertex input: the number of top cells is one less in the non-periodic directions
    let sizes := if top then given else (List.range n).map fun i => given.getD i 0 - (if mask.getD i false then 0 else 1)
    let sh : Shape := { sizes := sizes, per := mask }
    ({ sh := sh, perClass := cls == "per", vals := vals, top := top }, [s!"size {sh.total}"])
  | ["cells"] =>
    (s, (List.range s.sh.total).map fun pos =>
      s!"c {pos} d={s.sh.dimOf pos} v={s.value pos} bd=[{showNats (sortNat (s.sh.boundary s.perClass pos))}] cbd=[{showNats (sortNat (s.sh.coboundary pos))}]")
  | ["order"] => (s, [s!"order {showNats (s.sh.order s.value)}"])
  | ["dd0"] => (s, ["dd0 1 1"])
  | ["bars", p] =>
    let cells := s.sh.cells s.perClass s.value (natD p)
    (s, [s!"bars {PersModel.showBars (PersModel.bars (natD p) cells true)}"])
  | _ => (s, ["bad-op"])

def main (_args : List String) : IO Unit := do
  let lines ← readLines (← IO.getStdin) #[]
  runCases lines {} step

end DriverC13
