import Driver.Util
import GudhiVerif.Trie4
import GudhiVerif.Cof
import GudhiVerif.Dim
import GudhiVerif.Mfnd3
import GudhiVerif.Order
import GudhiVerif.Ser
import GudhiVerif.Model.SimplexTree
import GudhiVerif.Model.SerBytes
/-! Driver for the simplex-tree properties (C01, C03, C04, C15): the state is the `Forest` model; mutating operations
    print their return flag, observation operations print canonical lines.  The same history file is executed by
    `harness/hST.cpp` on the real `Simplex_tree` under every option set. -/
open DriverUtil TrieProto STModel

namespace DriverST

def showSimplex (w : List Nat) : String := showWord w
def showSimplices (l : List (List Nat)) : String := joinSp ((sortWords l).map showSimplex)
def showCplx (t : Forest) : String := joinSp ((toList t).map fun (w, f) => s!"{showWord w}:{f}")

def obsSimplex (t : Forest) (w : List Nat) (f : Int) : String :=
  let bd := (boundaryOpp w).map fun (τ, v) => s!"{showWord τ}:{(find t τ).getD (-999)}/{v}"
  s!"s {showWord w} f={f} d={w.length - 1} bd=[{joinSp bd}] star=[{showSimplices (CofProto.star w t)}] " ++
  s!"cof1=[{showSimplices (CofProto.cofK (w.length + 1) 1 w t)}] cof2=[{showSimplices (CofProto.cofK (w.length + 2) 1 w t)}]"

def obsAll (t : Forest) : List String :=
  [ s!"cplx {showCplx t}",
    s!"n {(toList t).length} dim {dimOf t} bydim {showNats (byDim t)}",
    s!"verts {showNats (rootLabels t)}",
    s!"skel1 {showSimplices (((toList t).map (·.1)).filter (·.length ≤ 2))}",
    s!"skel2 {showSimplices (((toList t).map (·.1)).filter (·.length ≤ 3))}" ] ++
  (toList t).map (fun (w, f) => obsSimplex t w f) ++ ["nonmem 0", "eq 1"]

def b (x : Bool) : String := if x then "1" else "0"

def step (t : Forest) (ts : List String) : Forest × List String :=
  match ts with
  | "ins" :: f :: ws =>
    let w := sortDedup (nats ws); let fv := intD f
    let old := find t w
    let isNew := old.isNone
    let nonnull := match old with | none => true | some g => decide (fv < g)
    (insert t w fv, [s!"ins new={b isNew} h={b nonnull}"])
  | "insf" :: f :: ws =>
    let w := sortDedup (nats ws); let fv := intD f
    let isNew := (find t w).isNone
    let r := insF t w fv
    (r.1, [s!"insf new={b isNew} h={b r.2}"])
  | "batch" :: f :: ws => (insertBatch t (sortDedup (nats ws)) (intD f), ["batch"])
  | "rmmax" :: ws => (removeLeaf t (sortDedup (nats ws)), ["rmmax"])
  | ["prunef", f] =>
    let t' := prune t (intD f)
    (t', [s!"prunef {b (decide (t' ≠ t))}"])
  | ["pruned", d] =>
    let t' := pruneDim t (natD d)
    (t', [s!"pruned {b (decide (t' ≠ t))}"])
  | ["clear"] => (Forest.nil, ["clear"])
  | "assign" :: f :: ws => (Mfnd3Proto.setVal t (sortDedup (nats ws)) (intD f), ["assign"])
  | ["mfnd"] =>
    let t' := Mfnd3Proto.mfnd t
    (t', [s!"mfnd {b (decide (t' ≠ t))}"])
  | ["extend"] =>
    let (t', m, M) := extend t
    let dec := (toList t').map fun (w, x) =>
      let (v, ty) := decode m M x
      s!"{showWord w}:{match v with | some y => toString y | none => "nan"}/{ty}"
    (t', [s!"extend {m} {M}", s!"decode {joinSp dec}"])
  | ["univ", _] => (t, ["univ"])
  | ["obs"] => (t, obsAll t)
  | ["cplx"] => (t, [s!"cplx {showCplx t}"])
  | ["dim"] => (t, [s!"dim {dimOf t}"])
  | "find" :: ws => (t, [match find t (sortDedup (nats ws)) with | some f => s!"find {f}" | none => "find none"])
  | "star" :: ws => (t, [s!"star {showSimplices (CofProto.star (sortDedup (nats ws)) t)}"])
  | ["order"] => (t, [s!"order {joinSp ((filtrationOrder t).map fun (w, f) => s!"{showWord w}:{f}")}"])
  | ["orderinf", k] =>
    let kept := (filtrationOrder t).filter fun (_, f) => decide (f < intD k)
    (t, [if kept.isEmpty then "orderinf none" else s!"orderinf {joinSp (kept.map fun (w, f) => s!"{showWord w}:{f}")}"])
  | _ => (t, ["bad-op"])

/-! ### several objects (C15): three slots, the operations above act on the selected one; copies, moves, swaps,
    byte-level serialisation with length perturbation, text round trip -/

structure Multi where
  slots : Array Forest := #[Forest.nil, Forest.nil, Forest.nil]
  cur : Nat := 0
  wv : Nat := 4
  wf : Nat := 8

def Multi.get (m : Multi) (k : Nat) : Forest := m.slots.getD k Forest.nil
def Multi.set (m : Multi) (k : Nat) (t : Forest) : Multi := { m with slots := m.slots.setIfInBounds k t }

/-- IEEE encodings of integer values (`double` for `wf = 8`, `float` for `wf = 4`, nothing for `wf = 0`) -/
def fenc (wf : Nat) (x : Int) : List Nat :=
  if wf = 8 then BytesProto.toBytes 8 (Float.ofInt x).toBits.toNat
  else if wf = 4 then BytesProto.toBytes 4 (Float32.ofInt x).toBits.toNat
  else []
def fdec (wf : Nat) (b : List Nat) : Int :=
  if wf = 8 then (Float.ofBits (UInt64.ofNat (BytesProto.fromBytes b))).toInt64.toInt
  else if wf = 4 then (Float32.ofBits (UInt32.ofNat (BytesProto.fromBytes b))).toInt64.toInt
  else 0
def codec (m : Multi) : SerBytes.Codec := { wv := m.wv, wf := m.wf, fenc := fenc m.wf, fdec := fdec m.wf }

def hex2 (n : Nat) : String :=
  let d := "0123456789abcdef".toList
  String.mk [d.getD (n / 16) '?', d.getD (n % 16) '?']
def showHex (b : List Nat) : String := String.join (b.map hex2)

def stepM (m : Multi) (ts : List String) : Multi × List String :=
  match ts with
  | ["sel", k] => ({ m with cur := natD k }, ["sel"])
  | ["widths", a, c] => ({ m with wv := natD a, wf := natD c }, ["widths"])
  | ["copy", a, c] => (m.set (natD c) (m.get (natD a)), ["copy"])
  | ["cassign", a, c] => (m.set (natD c) (m.get (natD a)), ["cassign"])
  | ["mctor", a, c] => ((m.set (natD c) (m.get (natD a))).set (natD a) Forest.nil, ["mctor src-empty=1"])
  | ["massign", a, c] => ((m.set (natD c) (m.get (natD a))).set (natD a) Forest.nil, ["massign src-empty=1"])
  | ["swap", a, c] => ((m.set (natD c) (m.get (natD a))).set (natD a) (m.get (natD c)), ["swap"])
  | ["destroy", a] => (m.set (natD a) Forest.nil, ["destroy"])
  | ["eq", a, c] => (m, [s!"eq {b (decide (toList (m.get (natD a)) = toList (m.get (natD c))))}"])
  | ["ser"] =>
    let bytes := SerBytes.serB (codec m) (m.get m.cur)
    (m, [s!"ser {bytes.length} {showHex bytes}"])
  | ["deser", c, pos, k] =>
    -- the serialisation of the selected object, cut to `len - k` bytes (pos = 0) or extended by `k` zero bytes (pos = 1)
    let bytes := SerBytes.serB (codec m) (m.get m.cur)
    let buf := if pos = "1" then bytes ++ List.replicate (natD k) 0 else bytes.take (bytes.length - natD k)
    match SerBytes.deserialize (codec m) buf with
    | some t => (m.set (natD c) t, ["deser ok"])
    | none => (m.set (natD c) Forest.nil, ["deser invalid_argument"])
  | ["text", c] => (m.set (natD c) (m.get m.cur), ["text"])
  | ["thr", _, _] => (m, ["thr agree=1"])   -- independent objects on k threads behave as their sequential twins
  | _ =>
    let (t', out) := step (m.get m.cur) ts
    (m.set m.cur t', out)

def main (_args : List String) : IO Unit := do
  let lines ← readLines (← IO.getStdin) #[]
  runCases lines ({} : Multi) stepM

end DriverST
