import Driver.Util
import GudhiVerif.Trie4
import GudhiVerif.Cof
import GudhiVerif.Dim
import GudhiVerif.Mfnd3
import GudhiVerif.Order
import GudhiVerif.Ser
import GudhiVerif.Model.SimplexTree
/-! Driver for the simplex-tree properties (C01, C03, C04, C15): the state is the `Forest` model; mutating operations
    print their return flag, observation operations print canonical lines.  The same history file is executed by
    `harness/hST.cpp` on the real `Simplex_tree` under every option set. -/
open DriverUtil TrieProto STModel

namespace DriverST

def showSimplex (w : List Nat) : String := showWord w
def showSimplices (l : List (List Nat)) : String := joinSp ((sortWords l).map showSimplex)
def showCplx (t : Forest) : String := joinSp ((toList t).map fun (w, f) => s!"{showWord w}:{f}")

def obsSimplex (t : Forest) (w : List Nat) (f : Int) : String :=
  let bd := (boundaryOpp w).map fun (τ, v) => s!"{showWord τ}:{(find t τ).getD (-999)}/{v}"
  s!"s {showWord w} f={f} d={w.length - 1} bd=[{joinSp bd}] star=[{showSimplices (CofProto.star w t)}] " ++
  s!"cof1=[{showSimplices (CofProto.cofK (w.length + 1) 1 w t)}] cof2=[{showSimplices (CofProto.cofK (w.length + 2) 1 w t)}]"

def obsAll (t : Forest) : List String :=
  [ s!"cplx {showCplx t}",
    s!"n {(toList t).length} dim {dimOf t} bydim {showNats (byDim t)}",
    s!"verts {showNats (rootLabels t)}",
    s!"skel1 {showSimplices (((toList t).map (·.1)).filter (·.length ≤ 2))}" ] ++
  (toList t).map (fun (w, f) => obsSimplex t w f) ++ ["nonmem 0", "eq 1"]

def b (x : Bool) : String := if x then "1" else "0"

def step (t : Forest) (ts : List String) : Forest × List String :=
  match ts with
  | "ins" :: f :: ws =>
    let w := sortDedup (nats ws); let fv := intD f
    let old := find t w
    let isNew := old.isNone
    let nonnull := match old with | none => true | some g => decide (fv < g)
    (insert t w fv, [s!"ins new={b isNew} h={b nonnull}"])
  | "insf" :: f :: ws =>
    let w := sortDedup (nats ws); let fv := intD f
    let isNew := (find t w).isNone
    let r := insF t w fv
    (r.1, [s!"insf new={b isNew} h={b r.2}"])
  | "batch" :: f :: ws => (insertBatch t (sortDedup (nats ws)) (intD f), ["batch"])
  | "rmmax" :: ws => (removeLeaf t (sortDedup (nats ws)), ["rmmax"])
  | ["prunef", f] =>
    let t' := prune t (intD f)
    (t', [s!"prunef {b (decide (t' ≠ t))}"])
  | ["pruned", d] =>
    let t' := pruneDim t (natD d)
    (t', [s!"pruned {b (decide (t' ≠ t))}"])
  | ["clear"] => (Forest.nil, ["clear"])
  | "assign" :: f :: ws => (Mfnd3Proto.setVal t (sortDedup (nats ws)) (intD f), ["assign"])
  | ["mfnd"] =>
    let t' := Mfnd3Proto.mfnd t
    (t', [s!"mfnd {b (decide (t' ≠ t))}"])
  | ["extend"] =>
    let (t', m, M) := extend t
    let dec := (toList t').map fun (w, x) =>
      let (v, ty) := decode m M x
      s!"{showWord w}:{match v with | some y => toString y | none => "nan"}/{ty}"
    (t', [s!"extend {m} {M}", s!"decode {joinSp dec}"])
  | ["univ", _] => (t, ["univ"])
  | ["obs"] => (t, obsAll t)
  | ["cplx"] => (t, [s!"cplx {showCplx t}"])
  | ["dim"] => (t, [s!"dim {dimOf t}"])
  | "find" :: ws => (t, [match find t (sortDedup (nats ws)) with | some f => s!"find {f}" | none => "find none"])
  | "star" :: ws => (t, [s!"star {showSimplices (CofProto.star (sortDedup (nats ws)) t)}"])
  | ["order"] => (t, [s!"order {joinSp ((filtrationOrder t).map fun (w, f) => s!"{showWord w}:{f}")}"])
  | _ => (t, ["bad-op"])

def main (_args : List String) : IO Unit := do
  let lines ← readLines (← IO.getStdin) #[]
  runCases lines Forest.nil step

end DriverST
