import GudhiVerif.Beta2
/-! Prototype (C14, 1D): surgery lemmas in context (arbitrary prefix and suffix), as equations between rank invariants. -/
namespace BetaProto

def ind (lo hi s t : Int) : Nat := if lo ≤ s ∧ t < hi then 1 else 0

theorem β_ctx (pre L post : List Int) (s t : Int) :
    β (pre ++ L ++ post) s t = finish (post.foldl (stepβ s t) (L.foldl (stepβ s t) (pre.foldl (stepβ s t) σ0))) := by
  unfold β σ0
  rw [List.foldl_append, List.foldl_append]

theorem ctx_R1_up (pre post : List Int) (s t a b c : Int) (hst : s ≤ t) (hab : a ≤ b) (hbc : b ≤ c) :
    β (pre ++ [a, b, c] ++ post) s t = β (pre ++ [a, c] ++ post) s t := by
  rw [β_ctx, β_ctx, R1_up s t a b c hst hab hbc]

theorem ctx_R1_down (pre post : List Int) (s t a b c : Int) (hab : b ≤ a) (hbc : c ≤ b) :
    β (pre ++ [a, b, c] ++ post) s t = β (pre ++ [a, c] ++ post) s t := by
  rw [β_ctx, β_ctx, R1_down s t a b c hab hbc]

theorem ctx_R2 (pre post : List Int) (s t a b c d : Int) (hst : s ≤ t) (hac : a ≤ c) (hcb : c < b) (hbd : b ≤ d) :
    β (pre ++ [a, b, c, d] ++ post) s t = β (pre ++ [a, d] ++ post) s t + ind c b s t := by
  rw [β_ctx, β_ctx, R2 s t a b c d hst hac hcb hbd, foldl_bump, finish_bump]; rfl

theorem ctx_R2_mirror (pre post : List Int) (s t a b c d : Int) (hst : s ≤ t) (hac : a ≤ c) (hcb : c < b) (hbd : b ≤ d) :
    β (pre ++ [d, c, b, a] ++ post) s t = β (pre ++ [d, a] ++ post) s t + ind c b s t := by
  rw [β_ctx, β_ctx, R2_mirror s t a b c d hst hac hcb hbd, foldl_bump, finish_bump]; rfl

theorem ctx_R0_start (post : List Int) (s t a v : Int) (hva : v ≤ a) :
    β (a :: v :: post) s t = β (v :: post) s t := by
  have h1 := β_ctx [] [a, v] post s t
  have h2 := β_ctx [] [v] post s t
  simp only [List.nil_append, List.foldl_nil] at h1 h2
  rw [show a :: v :: post = [a, v] ++ post from rfl, show v :: post = [v] ++ post from rfl, h1, h2, R0_start s t a v hva]

theorem ctx_R2_start (post : List Int) (s t a b v : Int) (hst : s ≤ t) (hva : v ≤ a) (hab : a < b) :
    β (a :: b :: v :: post) s t = β (v :: post) s t + ind a b s t := by
  have h1 := β_ctx [] [a, b, v] post s t
  have h2 := β_ctx [] [v] post s t
  simp only [List.nil_append, List.foldl_nil] at h1 h2
  rw [show a :: b :: v :: post = [a, b, v] ++ post from rfl, show v :: post = [v] ++ post from rfl, h1, h2,
    R2_start s t a b v hst hva hab, foldl_bump, finish_bump]; rfl

theorem ctx_R0_end (pre : List Int) (s t a c : Int) (hac : a ≤ c) :
    β (pre ++ [a, c]) s t = β (pre ++ [a]) s t := by
  have h1 := β_ctx pre [a, c] [] s t
  have h2 := β_ctx pre [a] [] s t
  simp only [List.append_nil, List.foldl_nil] at h1 h2
  rw [h1, h2, R0_end s t a c hac]

theorem ctx_R2_end (pre : List Int) (s t p b a : Int) (hst : s ≤ t) (hpa : p ≤ a) (hab : a < b) :
    β (pre ++ [p, b, a]) s t = β (pre ++ [p]) s t + ind a b s t := by
  have h1 := β_ctx pre [p, b, a] [] s t
  have h2 := β_ctx pre [p] [] s t
  simp only [List.append_nil, List.foldl_nil] at h1 h2
  rw [h1, h2, R2_end s t p b a hst hpa hab]; rfl

theorem β_single (m s t : Int) (hst : s ≤ t) : β [m] s t = if m ≤ s then 1 else 0 := by
  unfold β
  simp only [List.foldl]
  by_cases hm : m ≤ t
  · rw [step_le hm]
    by_cases h : m ≤ s <;> simp [finish, h]
  · have : t < m := by omega
    rw [step_gt this]
    have : ¬ m ≤ s := by omega
    simp [finish, this]

#print axioms ctx_R2_mirror
#print axioms ctx_R2_end
#print axioms β_single
end BetaProto
