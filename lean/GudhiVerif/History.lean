import GudhiVerif.Valid2
/-! Prototype (C01): the refinement lifted over arbitrary histories of the four modifying operations whose `find`
    characterisations are proved (`insert_simplex_and_subfaces`, `remove_maximal_simplex`, `prune_above_filtration`,
    `prune_above_dimension`): the model state stays sorted, face-closed and monotone, and its `find` function is the result
    of the same history applied to the abstract complex.  Core Lean only. -/
namespace TrieProto
open Forest List

inductive Op where
  | insf (σ : List Nat) (f : Int)
  | rmmax (w : List Nat)
  | prunef (f : Int)
  | pruned (d : Nat)

def stepM (t : Forest) : Op → Forest
  | .insf σ f => (insF t σ f).1
  | .rmmax w => removeLeaf t w
  | .prunef f => prune t f
  | .pruned d => pruneDim t d

open Classical in
/-- the same operations on the abstract complex (a partial function from simplices to values) -/
noncomputable def stepS (F : List Nat → Option Int) : Op → (List Nat → Option Int)
  | .insf σ f => specIns F (σ, f)
  | .rmmax w => fun q => if q = w then none else F q
  | .prunef f => fun q => match F q with | some g => if g ≤ f then some g else none | none => none
  | .pruned d => fun q => if q.length ≤ d + 1 then F q else none

/-- the documented preconditions, in the state where the operation is applied -/
def Pre (t : Forest) : Op → Prop
  | .insf σ _ => IncAbove none σ
  | .rmmax w => kidsAt t w = some Forest.nil ∧ ∀ u a, find t u = some a → w <+ u → u = w
  | .prunef _ => True
  | .pruned _ => True

/-- preconditions along a history -/
def PreAll : Forest → List Op → Prop
  | _, [] => True
  | t, op :: ops => Pre t op ∧ PreAll (stepM t op) ops

theorem step_refines (t : Forest) (op : Op) (hv : Valid t) (hs : Sorted none t) (hp : Pre t op) :
    Valid (stepM t op) ∧ Sorted none (stepM t op) ∧ find (stepM t op) = stepS (find t) op := by
  cases op with
  | insf σ f =>
    have := run_insF [(σ, f)] t (by intro o ho; simp at ho; subst ho; exact hp) hv hs
    simpa [stepM, stepS] using this
  | rmmax w =>
    refine ⟨valid_removeLeaf t w none hv hs hp.1 hp.2, sorted_removeLeaf t w none hs, ?_⟩
    funext q; exact find_removeLeaf t w none q hs hp.1
  | prunef f =>
    refine ⟨valid_prune t f none hv hs, sorted_prune t f none hs, ?_⟩
    funext q
    show find (prune t f) q = _
    rw [find_prune t none f q hs, survives_sublevel t f q hv]
    simp only [stepS]
    cases find t q <;> rfl
  | pruned d =>
    refine ⟨valid_pruneDim t d none hv hs, sorted_pruneDim t d none hs, ?_⟩
    funext q; exact find_pruneDim t d q

/-- **every reachable state refines the abstract complex of its history** -/
theorem reachable_refines : ∀ (ops : List Op) (t : Forest), Valid t → Sorted none t → PreAll t ops →
    Valid (ops.foldl stepM t) ∧ Sorted none (ops.foldl stepM t) ∧
    find (ops.foldl stepM t) = ops.foldl stepS (find t) := by
  intro ops
  induction ops with
  | nil => intro t hv hs _; exact ⟨hv, hs, rfl⟩
  | cons op ops ih =>
    intro t hv hs hp
    obtain ⟨hv', hs', hf⟩ := step_refines t op hv hs hp.1
    have := ih (stepM t op) hv' hs' hp.2
    simp only [List.foldl_cons]
    rw [← hf]; exact this

/-- non-vacuity: the empty tree is a valid sorted start -/
example : Valid Forest.nil ∧ Sorted none Forest.nil := ⟨trivial, trivial⟩

#print axioms reachable_refines
end TrieProto
