import GudhiVerif.Trie2
import GudhiVerif.Mfnd
/-! Prototype (C03): the traversal of `rec_for_each_simplex` on the `Forest` model (siblings from the last to the first,
    a node before its children) lists increasing non-empty words, without duplicates, sorted by the visiting order `ord`
    of `Mfnd.lean` — the hypotheses of `fold_spec`.  Core Lean only. -/
namespace Mfnd2Proto
open TrieProto TrieProto.Forest MfndProto

/-- words in the order in which `for_each_simplex` calls its callback -/
def walk : Forest → List (List Nat)
  | nil => []
  | cons l _ k r => walk r ++ [l] :: (walk k).map (l :: ·)

theorem inc_of_incAbove : ∀ (lb : Option Nat) (w : List Nat), IncAbove lb w → Inc w := by
  intro lb w
  induction w generalizing lb with
  | nil => intro _; trivial
  | cons a w ih =>
    intro h
    cases w with
    | nil => trivial
    | cons b t => exact ⟨h.2.1, ih (some a) h.2⟩

theorem walk_incAbove (lb : Option Nat) (t : Forest) (hs : Sorted lb t) : ∀ w ∈ walk t, IncAbove lb w ∧ w ≠ [] := by
  induction t generalizing lb with
  | nil => intro w hw; cases hw
  | cons l f k r ihk ihr =>
    intro w hw
    obtain ⟨h1, h2, h3⟩ := hs
    simp only [walk, List.mem_append, List.mem_cons, List.mem_map] at hw
    rcases hw with hw | hw | ⟨s, hs', rfl⟩
    · obtain ⟨ha, hne⟩ := ihr (some l) h3 w hw
      refine ⟨?_, hne⟩
      cases w with
      | nil => trivial
      | cons v vs =>
        refine ⟨?_, ha.2⟩
        cases lb with
        | none => trivial
        | some b => exact Nat.lt_trans h1 ha.1
    · subst hw; exact ⟨⟨h1, trivial⟩, by simp⟩
    · obtain ⟨ha, _⟩ := ihk (some l) h2 s hs'
      exact ⟨⟨h1, ha⟩, by simp⟩

theorem walk_inc (t : Forest) (hs : Sorted none t) : ∀ w ∈ walk t, Inc w :=
  fun w hw => inc_of_incAbove none w (walk_incAbove none t hs w hw).1

/-- **the traversal is sorted by the visiting order** -/
theorem walk_sorted (lb : Option Nat) (t : Forest) (hs : Sorted lb t) :
    (walk t).Pairwise fun a b => ord a b = true := by
  induction t generalizing lb with
  | nil => exact List.Pairwise.nil
  | cons l f k r ihk ihr =>
    obtain ⟨h1, h2, h3⟩ := hs
    simp only [walk]
    rw [List.pairwise_append]
    refine ⟨ihr (some l) h3, ?_, ?_⟩
    · rw [List.pairwise_cons]
      constructor
      · intro b hb
        obtain ⟨s, hs', rfl⟩ := List.mem_map.mp hb
        have hne := (walk_incAbove (some l) k h2 s hs').2
        cases s with
        | nil => exact absurd rfl hne
        | cons _ _ => simp [ord]
      · rw [List.pairwise_map]
        exact (ihk (some l) h2).imp (by intro a b hab; simpa [ord] using hab)
    · intro a ha b hb
      obtain ⟨hinc, hne⟩ := walk_incAbove (some l) r h3 a ha
      cases a with
      | nil => exact absurd rfl hne
      | cons l' a' =>
        have hl : l < l' := hinc.1
        have hb' : ∃ s, b = l :: s := by
          rcases List.mem_cons.mp hb with rfl | hb
          · exact ⟨[], rfl⟩
          · obtain ⟨s, _, rfl⟩ := List.mem_map.mp hb; exact ⟨s, rfl⟩
        obtain ⟨s, rfl⟩ := hb'
        have : ¬ l' = l := by omega
        simp [ord, this, hl]

theorem ord_irrefl : ∀ a : List Nat, ord a a = false := by
  intro a; induction a with
  | nil => rfl
  | cons x a ih => simp [ord, ih]

theorem walk_nodup (t : Forest) (hs : Sorted none t) : (walk t).Nodup := by
  have := walk_sorted none t hs
  exact this.imp (by intro a b hab he; subst he; rw [ord_irrefl] at hab; cases hab)

-- the tree of the full triangle {0,1,2}: visiting order
#eval walk (cons 0 0 (cons 1 0 (cons 2 0 nil nil) (cons 2 0 nil nil)) (cons 1 0 (cons 2 0 nil nil) (cons 2 0 nil nil)))

#print axioms walk_sorted
#print axioms walk_nodup
end Mfnd2Proto
