import GudhiVerif.Trie2
/-! Prototype, part 3: `insert_simplex_and_subfaces` (`rec_insert_simplex_and_subfaces_sorted`, with its
    "the full simplex was already there with a low enough value" short-cut) on the Forest encoding. Core only. -/
namespace TrieProto
open Forest

/-- returns the new forest and whether the *full* simplex was inserted or had its value lowered (`res.first != null`) -/
def insF : Forest → List Nat → Int → Forest × Bool
  | t, [], _ => (t, false)
  | nil, [v], f => (cons v f nil nil, true)
  | nil, v :: v2 :: vs, f =>
    (cons v f (insF nil (v2 :: vs) f).1 (insF nil (v2 :: vs) f).1, true)
  | cons l g k r, [v], f =>
    if v < l then (cons v f nil (cons l g k r), true)
    else if v = l then (if f < g then (cons l f k r, true) else (cons l g k r, false))
    else (cons l g k (insF r [v] f).1, (insF r [v] f).2)
  | cons l g k r, v :: v2 :: vs, f =>
    if v < l then
      (cons v f (insF nil (v2 :: vs) f).1 (insF (cons l g k r) (v2 :: vs) f).1, true)
    else if v = l then
      let g' := if f < g then f else g
      let res := insF k (v2 :: vs) f
      if res.2 then (cons l g' res.1 (insF r (v2 :: vs) f).1, true)
      else (cons l g' res.1 r, false)
    else (cons l g k (insF r (v :: v2 :: vs) f).1, (insF r (v :: v2 :: vs) f).2)
termination_by t w _ => (w.length, t)
decreasing_by
  all_goals simp_wf
  all_goals first
    | (apply Prod.Lex.right; simp; omega)
    | (apply Prod.Lex.left; simp)

/-- all (word, value) pairs in depth-first = lexicographic order -/
def toList : Forest → List (List Nat × Int)
  | nil => []
  | cons l g k r => ([l], g) :: ((toList k).map fun (w, x) => (l :: w, x)) ++ toList r

#eval toList (insF nil [1,2,3] 5).1
#eval toList (insF (insF nil [1,2,3] 5).1 [2,3,4] 3).1
#eval (insF (insF nil [1,2,3] 5).1 [1,2,3] 7).2      -- false: short-cut, nothing changes
#eval toList (insF (insF nil [1,2,3] 5).1 [1,2,3] 7).1
#eval toList (insF (insF nil [1,2,3] 5).1 [1,2,3] 2).1 -- everything lowered to 2
end TrieProto

namespace TrieProto
open Forest List

/-- face-closed and monotone, stated structurally: below a node `l` with value `g`, every word `τ` found in the children
    has value ≥ g, and `τ` itself (the face without `l`) is found among the later siblings with a value not larger. -/
def Valid : Forest → Prop
  | Forest.nil => True
  | Forest.cons _ g k r => Valid k ∧ Valid r ∧
      ∀ τ a, find k τ = some a → g ≤ a ∧ ∃ b, find r τ = some b ∧ b ≤ a

theorem find_nil_word (t : Forest) : find t [] = none := by cases t <;> rfl

/-- entries of an increasing word are above its bound -/
theorem IncAbove.mem_gt {b : Nat} {w : List Nat} (h : IncAbove (some b) w) : ∀ z ∈ w, b < z := by
  induction w generalizing b with
  | nil => intro z hz; cases hz
  | cons v vs ih =>
    intro z hz
    cases hz with
    | head => exact h.1
    | tail _ hz' => exact Nat.lt_trans h.1 (ih h.2 z hz')

theorem IncAbove.weaken_none {lb : Option Nat} {w : List Nat} (h : IncAbove lb w) : IncAbove none w := by
  cases w with
  | nil => trivial
  | cons v vs => exact ⟨trivial, h.2⟩

theorem IncAbove.sublist {lb : Option Nat} {w q : List Nat} (h : IncAbove lb w) (hs : q <+ w) : IncAbove lb q := by
  induction hs generalizing lb with
  | slnil => trivial
  | cons a _ ih =>
    -- q <+ w', w = a :: w'
    have h2 := h.2
    have := ih h2
    -- weaken bound from `some a` to `lb`
    cases lb with
    | none => exact this.weaken_none
    | some b =>
      rename_i l₁ l₂ _
      cases l₁ with
      | nil => trivial
      | cons y ys => exact ⟨Nat.lt_trans h.1 this.1, this.2⟩
  | cons_cons a _ ih => exact ⟨h.1, ih h.2⟩

/-- in a valid sorted forest, every non-empty sub-word of a stored word is stored, with a value not larger -/
theorem valid_sublist (t : Forest) : ∀ (lb : Option Nat) (τ q : List Nat) (a : Int),
    Valid t → Sorted lb t → IncAbove none τ → find t τ = some a → q <+ τ → q ≠ [] →
    ∃ c, find t q = some c ∧ c ≤ a := by
  induction t with
  | nil => intro lb τ q a _ _ _ hf; cases τ <;> simp [find] at hf
  | cons l g k r ihk ihr =>
    intro lb τ q a hv hs hτ hf hq hne
    obtain ⟨hvk, hvr, hvn⟩ := hv
    cases τ with
    | nil => simp [find] at hf
    | cons x τ' =>
      cases q with
      | nil => exact absurd rfl hne
      | cons y q' =>
        have hxτ := IncAbove.mem_gt hτ.2
        by_cases hxl : x = l
        · subst hxl
          -- the stored word goes through node x = l
          rcases List.sublist_cons_iff.mp hq with hq1 | ⟨q2, hq2, hq3⟩
          · -- q avoids x: q <+ τ', lives among later siblings
            have hyτ : y ∈ τ' := hq1.subset List.mem_cons_self
            have hyx : x < y := hxτ y hyτ
            have hne' : ¬ y = x := by omega
            cases τ' with
            | nil => simp at hyτ
            | cons x2 τ'' =>
              simp only [find, if_true] at hf
              obtain ⟨_, b, hb, hba⟩ := hvn _ _ hf
              obtain ⟨c, hc, hcb⟩ := ihr (some x) _ _ b hvr hs.2.2 (hτ.2.weaken_none) hb hq1 (by simp)
              refine ⟨c, ?_, Int.le_trans hcb hba⟩
              cases q' with
              | nil => simpa [find, hne'] using hc
              | cons y2 q'' => simpa [find, hne'] using hc
          · -- q = x :: q2 with q2 <+ τ'
            cases hq2
            cases q' with
            | nil =>
              cases τ' with
              | nil => simp only [find, if_true] at hf ⊢; exact ⟨a, hf, Int.le_refl _⟩
              | cons x2 τ'' =>
                simp only [find, if_true] at hf ⊢
                exact ⟨g, rfl, (hvn _ _ hf).1⟩
            | cons y2 q'' =>
              cases τ' with
              | nil => simp at hq3
              | cons x2 τ'' =>
                simp only [find, if_true] at hf ⊢
                exact ihk (some x) _ _ a hvk hs.2.1 (hτ.2.weaken_none) hf hq3 (by simp)
        · -- the stored word lives among the later siblings
          have hfr : find r (x :: τ') = some a := by
            cases τ' with
            | nil => simpa [find, hxl] using hf
            | cons x2 τ'' => simpa [find, hxl] using hf
          have hlx : l < x := by
            rcases Nat.lt_or_ge l x with h | h
            · exact h
            · exfalso
              have := find_none_of_le hs.2.2 h τ'
              rw [this] at hfr; cases hfr
          have hyl : l < y := by
            have hy : y ∈ x :: τ' := hq.subset List.mem_cons_self
            rcases List.mem_cons.mp hy with rfl | h
            · exact hlx
            · exact Nat.lt_trans hlx (hxτ y h)
          have hne' : ¬ y = l := by omega
          obtain ⟨c, hc, hca⟩ := ihr (some l) _ _ a hvr hs.2.2 hτ hfr hq (by simp)
          refine ⟨c, ?_, hca⟩
          cases q' with
          | nil => simpa [find, hne'] using hc
          | cons y2 q'' => simpa [find, hne'] using hc

#print axioms valid_sublist
end TrieProto

namespace TrieProto
open Forest List

theorem find_cons (l : Nat) (g : Int) (k r : Forest) (a : Nat) (q' : List Nat) :
    find (cons l g k r) (a :: q') =
      if a = l then (if q' = [] then some g else find k q') else find r (a :: q') := by
  cases q' with
  | nil => simp [find]
  | cons b q'' => simp [find]

theorem find_nil_forest (q : List Nat) : find Forest.nil q = none := by
  cases q with
  | nil => rfl
  | cons a q' => rfl

/-- sub-words of an increasing word: head comparison -/
theorem sub_cons_ne {a v : Nat} {q' σ' : List Nat} (h : a ≠ v) : (a :: q') <+ (v :: σ') ↔ (a :: q') <+ σ' := by
  constructor
  · intro hs
    rcases List.sublist_cons_iff.mp hs with h1 | ⟨r, hr, _⟩
    · exact h1
    · cases hr; exact absurd rfl h
  · intro hs; exact List.Sublist.cons _ hs

theorem sub_cons_eq {v : Nat} {q' σ' : List Nat} (hσ : IncAbove (some v) σ') : (v :: q') <+ (v :: σ') ↔ q' <+ σ' := by
  constructor
  · intro hs
    rcases List.sublist_cons_iff.mp hs with h1 | ⟨r, hr, h2⟩
    · have : v ∈ σ' := h1.subset List.mem_cons_self
      exact absurd (hσ.mem_gt v this) (Nat.lt_irrefl _)
    · cases hr; exact h2
  · intro hs; exact List.cons_sublist_cons.mpr hs

theorem not_sub_of_le {a v : Nat} {q' σ' : List Nat} (hσ : IncAbove (some v) σ') (h : a ≤ v) : ¬ (a :: q') <+ σ' := by
  intro hs
  have : a ∈ σ' := hs.subset List.mem_cons_self
  have := hσ.mem_gt a this
  omega

theorem unify_none (f : Int) : unify f none = f := rfl
theorem unify_some (f g : Int) : unify f (some g) = if f < g then f else g := rfl

/-- specification of `insert_simplex_and_subfaces` on a valid (face-closed, monotone) sorted tree -/
def InsFSpec (t : Forest) (σ : List Nat) (f : Int) : Prop :=
  (∀ q, q ≠ [] → q <+ σ → find (insF t σ f).1 q = some (unify f (find t q))) ∧
  (∀ q, ¬ q <+ σ → find (insF t σ f).1 q = find t q) ∧
  ((insF t σ f).2 = true ↔ σ ≠ [] ∧ ∀ g, find t σ = some g → f < g)

theorem insF_nil_spec (σ : List Nat) (f : Int) (hσ : IncAbove none σ) : InsFSpec Forest.nil σ f := by
  induction σ with
  | nil =>
    refine ⟨?_, ?_, ?_⟩
    · intro q hq hs; exact absurd (List.sublist_nil.mp hs) hq
    · intro q _; simp [insF]
    · simp [insF]
  | cons v σ' ih =>
    cases σ' with
    | nil =>
      refine ⟨?_, ?_, ?_⟩
      · intro q hq hs
        cases q with
        | nil => exact absurd rfl hq
        | cons a q' =>
          rcases List.sublist_cons_iff.mp hs with h1 | ⟨r, hr, h2⟩
          · exact absurd (List.sublist_nil.mp h1) (by simp)
          · cases hr
            have : q' = [] := List.sublist_nil.mp h2
            subst this
            simp [insF, find, find_nil_forest, unify]
      · intro q hns
        cases q with
        | nil => simp [insF, find]
        | cons a q' =>
          have hne : a ≠ v ∨ q' ≠ [] := by
            by_cases h1 : a = v
            · right; intro h2; subst h1; subst h2; exact hns (List.Sublist.refl _)
            · left; exact h1
          simp only [insF, find_cons, find_nil_forest]
          rcases hne with h | h
          · simp [h]
          · simp [h]
      · simp [insF, find_nil_forest]
    | cons v2 vs =>
      have ih' := ih (IncAbove.weaken_none hσ.2)
      obtain ⟨ihA, ihB, _⟩ := ih'
      have hσ2 : IncAbove (some v) (v2 :: vs) := hσ.2
      refine ⟨?_, ?_, ?_⟩
      · intro q hq hs
        cases q with
        | nil => exact absurd rfl hq
        | cons a q' =>
          rw [insF, find_cons, find_nil_forest, unify_none]
          by_cases hav : a = v
          · subst hav
            have hs' := (sub_cons_eq hσ2).mp hs
            simp only [if_true]
            by_cases hq' : q' = []
            · simp [hq']
            · simp only [hq', if_false]
              rw [ihA q' hq' hs', find_nil_forest, unify_none]
          · have hs' := (sub_cons_ne hav).mp hs
            simp only [hav, if_false]
            rw [ihA (a :: q') (by simp) hs', find_nil_forest, unify_none]
      · intro q hns
        cases q with
        | nil => simp [find_nil_word, find_nil_forest]
        | cons a q' =>
          rw [insF, find_cons, find_nil_forest]
          by_cases hav : a = v
          · subst hav
            have hns' : ¬ q' <+ (v2 :: vs) := fun h => hns ((sub_cons_eq hσ2).mpr h)
            have hq' : q' ≠ [] := by rintro rfl; exact hns' (List.nil_sublist _)
            simp only [if_true, hq', if_false]
            rw [ihB q' hns', find_nil_forest]
          · have hns' : ¬ (a :: q') <+ (v2 :: vs) := fun h => hns ((sub_cons_ne hav).mpr h)
            simp only [hav, if_false]
            rw [ihB (a :: q') hns', find_nil_forest]
      · simp [insF, find_nil_forest]

#print axioms insF_nil_spec
end TrieProto

namespace TrieProto
open Forest List

theorem sub_singleton {q : List Nat} {v : Nat} (hq : q ≠ []) (hs : q <+ [v]) : q = [v] := by
  cases q with
  | nil => exact absurd rfl hq
  | cons a q' =>
    rcases List.sublist_cons_iff.mp hs with h1 | ⟨r, hr, h2⟩
    · exact absurd (List.sublist_nil.mp h1) (by simp)
    · cases hr; rw [List.sublist_nil.mp h2]

theorem not_sub_singleton {a v : Nat} {q' : List Nat} (h : ¬ (a :: q') <+ [v]) : a ≠ v ∨ q' ≠ [] := by
  by_cases h1 : a = v
  · right; intro h2; subst h1; subst h2; exact h (List.Sublist.refl _)
  · left; exact h1

/-- **`insert_simplex_and_subfaces` refines "every non-empty sub-word of σ gets min(old, f), nothing else changes"**
    on every valid (face-closed, monotone), sorted tree — including the short-cut that stops when the full simplex is
    already present with a value ≤ f. -/
theorem insF_spec (t : Forest) (σ : List Nat) (f : Int) :
    ∀ lb, Valid t → Sorted lb t → IncAbove lb σ → InsFSpec t σ f := by
  induction t, σ, f using insF.induct with
  | case1 t f =>
    intro lb _ _ _
    refine ⟨?_, ?_, ?_⟩
    · intro q hq hs; exact absurd (List.sublist_nil.mp hs) hq
    · intro q _; simp [insF]
    · simp [insF]
  | case2 v f => intro lb _ _ hσ; exact insF_nil_spec [v] f hσ.weaken_none
  | case3 v v2 vs f _ => intro lb _ _ hσ; exact insF_nil_spec _ f hσ.weaken_none
  | case4 l g k r v f hlt =>
    intro lb hv hs hσ
    have hnone := find_none_of_lt_head hs hlt
    refine ⟨?_, ?_, ?_⟩
    · intro q hq hsub
      rw [sub_singleton hq hsub]
      simp [insF, hlt, find_cons, hnone, unify]
    · intro q hns
      cases q with
      | nil => simp [find_nil_word]
      | cons a q' =>
        simp only [insF, hlt, if_true]
        rw [find_cons]
        by_cases hav : a = v
        · subst hav
          have hq' : q' ≠ [] := by
            rcases not_sub_singleton hns with h | h
            · exact absurd rfl h
            · exact h
          simp [hq', find_nil_forest, hnone]
        · simp [hav]
    · simp [insF, hlt, hnone]
  | case5 g k r v f hfg _ =>
    intro lb hv hs hσ
    refine ⟨?_, ?_, ?_⟩
    · intro q hq hsub
      rw [sub_singleton hq hsub]
      simp [insF, hfg, find_cons, unify]
    · intro q hns
      cases q with
      | nil => simp [find_nil_word]
      | cons a q' =>
        simp only [insF, Nat.lt_irrefl, if_false, if_true, hfg]
        rw [find_cons, find_cons]
        by_cases hav : a = v
        · subst hav
          have hq' : q' ≠ [] := by
            rcases not_sub_singleton hns with h | h
            · exact absurd rfl h
            · exact h
          simp [hq']
        · simp [hav]
    · simp [insF, hfg, find_cons]
  | case6 g k r v f hfg _ =>
    intro lb hv hs hσ
    refine ⟨?_, ?_, ?_⟩
    · intro q hq hsub
      rw [sub_singleton hq hsub]
      simp [insF, hfg, find_cons, unify]
    · intro q _; simp [insF, hfg]
    · simp [insF, hfg, find_cons]
  | case7 l g k r v f hlt hne ih =>
    intro lb hv hs hσ
    have hlv : l < v := by omega
    obtain ⟨ihA, ihB, ihC⟩ := ih (some l) hv.2.1 hs.2.2 ⟨hlv, trivial⟩
    refine ⟨?_, ?_, ?_⟩
    · intro q hq hsub
      rw [sub_singleton hq hsub]
      simp only [insF, hlt, hne, if_false]
      rw [find_cons, find_cons]
      simp only [hne, if_false]
      exact ihA [v] (by simp) (List.Sublist.refl _)
    · intro q hns
      cases q with
      | nil => simp [find_nil_word]
      | cons a q' =>
        simp only [insF, hlt, hne, if_false]
        rw [find_cons, find_cons]
        by_cases hal : a = l
        · simp [hal]
        · simp only [hal, if_false]; exact ihB (a :: q') hns
    · simp only [insF, hlt, hne, if_false]
      rw [ihC, find_cons]
      simp [hne]
  | case8 l g k r v v2 vs f hlt ih1 ih2 =>
    intro lb hv hs hσ
    have hσ2 : IncAbove (some v) (v2 :: vs) := hσ.2
    have hnone := find_none_of_lt_head hs hlt
    obtain ⟨a1, b1, _⟩ := ih1 (some v) trivial trivial hσ2
    obtain ⟨a2, b2, _⟩ := ih2 (some v) hv ⟨hlt, hs.2.1, hs.2.2⟩ hσ2
    refine ⟨?_, ?_, ?_⟩
    · intro q hq hsub
      cases q with
      | nil => exact absurd rfl hq
      | cons a q' =>
        simp only [insF, hlt, if_true]
        rw [find_cons]
        by_cases hav : a = v
        · subst hav
          have hs' := (sub_cons_eq hσ2).mp hsub
          rw [hnone, unify_none]
          by_cases hq' : q' = []
          · simp [hq']
          · simp only [if_true, hq', if_false]
            rw [a1 q' hq' hs', find_nil_forest, unify_none]
        · have hs' := (sub_cons_ne hav).mp hsub
          simp only [hav, if_false]
          exact a2 (a :: q') (by simp) hs'
    · intro q hns
      cases q with
      | nil => simp [find_nil_word]
      | cons a q' =>
        simp only [insF, hlt, if_true]
        rw [find_cons]
        by_cases hav : a = v
        · subst hav
          have hns' : ¬ q' <+ (v2 :: vs) := fun h => hns ((sub_cons_eq hσ2).mpr h)
          have hq' : q' ≠ [] := by rintro rfl; exact hns' (List.nil_sublist _)
          simp only [if_true, hq', if_false]
          rw [b1 q' hns', find_nil_forest, hnone]
        · have hns' : ¬ (a :: q') <+ (v2 :: vs) := fun h => hns ((sub_cons_ne hav).mpr h)
          simp only [hav, if_false]
          exact b2 (a :: q') hns'
    · simp [insF, hlt, hnone]
  | case9 g k r v v2 vs f res hch _ ihk ihr =>
    intro lb hv hs hσ
    have hσ2 : IncAbove (some v) (v2 :: vs) := hσ.2
    obtain ⟨ak, bk, ck⟩ := ihk (some v) hv.1 hs.2.1 hσ2
    obtain ⟨ar, br, _⟩ := ihr (some v) hv.2.1 hs.2.2 hσ2
    have hch' : (insF k (v2 :: vs) f).2 = true := hch
    refine ⟨?_, ?_, ?_⟩
    · intro q hq hsub
      cases q with
      | nil => exact absurd rfl hq
      | cons a q' =>
        simp only [insF, Nat.lt_irrefl, if_false, if_true, hch']
        rw [find_cons, find_cons]
        by_cases hav : a = v
        · subst hav
          have hs' := (sub_cons_eq hσ2).mp hsub
          by_cases hq' : q' = []
          · simp [hq', unify]
          · simp only [if_true, hq', if_false]
            exact ak q' hq' hs'
        · have hs' := (sub_cons_ne hav).mp hsub
          simp only [hav, if_false]
          exact ar (a :: q') (by simp) hs'
    · intro q hns
      cases q with
      | nil => simp [find_nil_word]
      | cons a q' =>
        simp only [insF, Nat.lt_irrefl, if_false, if_true, hch']
        rw [find_cons, find_cons]
        by_cases hav : a = v
        · subst hav
          have hns' : ¬ q' <+ (v2 :: vs) := fun h => hns ((sub_cons_eq hσ2).mpr h)
          have hq' : q' ≠ [] := by rintro rfl; exact hns' (List.nil_sublist _)
          simp only [if_true, hq', if_false]
          exact bk q' hns'
        · have hns' : ¬ (a :: q') <+ (v2 :: vs) := fun h => hns ((sub_cons_ne hav).mpr h)
          simp only [hav, if_false]
          exact br (a :: q') hns'
    · simp only [insF, Nat.lt_irrefl, if_false, if_true, hch']
      rw [find_cons]
      simp only [if_true]
      have := ck.mp hch'
      simpa using this.2
  | case10 g k r v v2 vs f res hch _ ihk =>
    intro lb hv hs hσ
    have hσ2 : IncAbove (some v) (v2 :: vs) := hσ.2
    obtain ⟨ak, bk, ck⟩ := ihk (some v) hv.1 hs.2.1 hσ2
    have hch' : ¬ (insF k (v2 :: vs) f).2 = true := hch
    -- the full simplex below `v` exists with a value ≤ f
    have hex : ∃ a0, find k (v2 :: vs) = some a0 ∧ ¬ f < a0 := by
      have h1 : ¬ ((v2 :: vs) ≠ [] ∧ ∀ g, find k (v2 :: vs) = some g → f < g) := fun h => hch' (ck.mpr h)
      cases hf : find k (v2 :: vs) with
      | none => exact absurd ⟨by simp, by intro g hg; rw [hf] at hg; cases hg⟩ h1
      | some a0 =>
        refine ⟨a0, rfl, ?_⟩
        intro hlt
        exact h1 ⟨by simp, by intro g hg; rw [hf] at hg; cases hg; exact hlt⟩
    obtain ⟨a0, ha0, hfa0⟩ := hex
    obtain ⟨_, b0, hb0, hb0a⟩ := hv.2.2 _ _ ha0
    refine ⟨?_, ?_, ?_⟩
    · intro q hq hsub
      cases q with
      | nil => exact absurd rfl hq
      | cons a q' =>
        simp only [insF, Nat.lt_irrefl, if_false, if_true, hch', Bool.false_eq_true]
        rw [find_cons, find_cons]
        by_cases hav : a = v
        · subst hav
          have hs' := (sub_cons_eq hσ2).mp hsub
          by_cases hq' : q' = []
          · simp [hq', unify]
          · simp only [if_true, hq', if_false]
            exact ak q' hq' hs'
        · have hs' := (sub_cons_ne hav).mp hsub
          simp only [hav, if_false]
          -- unchanged sibling part: the face already has a value ≤ f
          obtain ⟨c, hc, hcb⟩ := valid_sublist r (some v) (v2 :: vs) (a :: q') b0 hv.2.1 hs.2.2
            hσ2.weaken_none hb0 hs' (by simp)
          rw [hc, unify_some]
          have : ¬ f < c := by omega
          simp [this]
    · intro q hns
      cases q with
      | nil => simp [find_nil_word]
      | cons a q' =>
        simp only [insF, Nat.lt_irrefl, if_false, if_true, hch', Bool.false_eq_true]
        rw [find_cons, find_cons]
        by_cases hav : a = v
        · subst hav
          have hns' : ¬ q' <+ (v2 :: vs) := fun h => hns ((sub_cons_eq hσ2).mpr h)
          have hq' : q' ≠ [] := by rintro rfl; exact hns' (List.nil_sublist _)
          simp only [if_true, hq', if_false]
          exact bk q' hns'
        · simp [hav]
    · simp only [insF, Nat.lt_irrefl, if_false, if_true, hch', Bool.false_eq_true]
      rw [find_cons]
      simp only [if_true]
      constructor
      · intro h; cases h
      · intro h
        have := h.2 a0 (by simpa using ha0)
        exact absurd this hfa0
  | case11 l g k r v v2 vs f hlt hne ih =>
    intro lb hv hs hσ
    have hlv : l < v := by omega
    obtain ⟨ihA, ihB, ihC⟩ := ih (some l) hv.2.1 hs.2.2 ⟨hlv, hσ.2⟩
    refine ⟨?_, ?_, ?_⟩
    · intro q hq hsub
      cases q with
      | nil => exact absurd rfl hq
      | cons a q' =>
        simp only [insF, hlt, hne, if_false]
        rw [find_cons, find_cons]
        have hal : a ≠ l := by
          have : a ∈ v :: v2 :: vs := hsub.subset List.mem_cons_self
          rcases List.mem_cons.mp this with rfl | h
          · omega
          · have := hσ.2.mem_gt a h; omega
        simp only [hal, if_false]
        exact ihA (a :: q') (by simp) hsub
    · intro q hns
      cases q with
      | nil => simp [find_nil_word]
      | cons a q' =>
        simp only [insF, hlt, hne, if_false]
        rw [find_cons, find_cons]
        by_cases hal : a = l
        · simp [hal]
        · simp only [hal, if_false]; exact ihB (a :: q') hns
    · simp only [insF, hlt, hne, if_false]
      rw [ihC, find_cons]
      simp [hne]

#print axioms insF_spec
end TrieProto
