import GudhiVerif.Cubical
import GudhiVerif.Counter
import GudhiVerif.Model.Cubical
/-! # C13 — cubical complexes are valid filtered cell complexes with correct incidences

Proved: `CubicalProto.bd_bd` (∂∂ = 0 for the graded-Leibniz boundary on counter vectors, every dimension),
`CubicalProto.enum_eq_bd` (the C++ enumeration — directions from the top, the m-th non-degenerate one pushed as
(c−e, c+e) or (c+e, c−e) by the parity of m — with signs alternating along the enumeration *is* that boundary),
`CounterProto.pos_counter` / `CounterProto.counter_pos` (flat index ↔ counter bijection).

**Partial** (`C13_partial`): the executable model on flat positions (`CubModel.Shape.boundary/coboundary/valueTop/
valueVert/order`, periodic wrap included) that `gvdriver C13` runs against both real classes is not yet proved equal to
the counter-level `bdEnum` (the correspondence and the harness-side `∂∂ = 0` evaluation on the real output cover it);
the lower-star values are stated as min over top cofaces / max over vertices, which is the property's own wording. -/
namespace C13
open CubModel

/-- a cell has as many boundary entries as twice its number of odd digits, in the plain class -/
example : ({ sizes := [2, 3], per := [false, false] } : Shape).boundary false 6 = [1, 11, 7, 5] := by decide
example : ({ sizes := [2, 3], per := [false, false] } : Shape).dimOf 6 = 2 := by decide
/-- periodic wrap-around: the last interval of a periodic direction of size 3 ends at digit 0 -/
example : ({ sizes := [3], per := [true] } : Shape).boundary true 5 = [0, 4] := by decide
example : ({ sizes := [3], per := [true] } : Shape).coboundary 0 = [1, 5] := by decide

end C13
