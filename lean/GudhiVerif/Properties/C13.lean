import GudhiVerif.Cubical
import GudhiVerif.Counter
import GudhiVerif.Model.Cubical
import GudhiVerif.CubBridge
import GudhiVerif.CubOrder
import GudhiVerif.CubValue
import GudhiVerif.CubPeriodic
import GudhiVerif.CubPeriodic2
import GudhiVerif.CubPeriodic3
import GudhiVerif.CubPeriodic4
/-! # C13 — cubical complexes are valid filtered cell complexes with correct incidences

Proved: `CubicalProto.bd_bd` (∂∂ = 0 for the graded-Leibniz boundary on counter vectors, every dimension),
`CubicalProto.enum_eq_bd` (the C++ enumeration — directions from the top, the m-th non-degenerate one pushed as
(c−e, c+e) or (c+e, c−e) by the parity of m — with signs alternating along the enumeration *is* that boundary),
`CounterProto.pos_counter` / `CounterProto.counter_pos` (flat index ↔ counter bijection).

`CubBridge.boundary_eq_enum` — for a bitmap without periodic directions the list returned by the executable flat-position
model `CubModel.Shape.boundary` (the function `gvdriver C13` runs against `get_boundary_of_a_cell`) *is* the image of that
counter-level enumeration under `c ↦ Σ cᵢ·multᵢ`; `CubBridge.enc_valid` / `enc_inj` (positions ↔ counters with digits below
the radices, on the `Shape` itself); `CubBridge.boundary_in_range`, `CubBridge.boundary_dim` (every listed face is a position
of the bitmap, of dimension one less); `CubBridge.flat_bd_bd` — ∂∂ = 0 on flat positions, with the signs the model's
`cells` carry (alternating along each list).
`CubBridge.boundary_psi` — a bitmap with periodic directions is the quotient of the one without (last vertex layer = first),
and `Shape.boundary` commutes with the quotient map on positions, for both pair orientations (= both C++ classes);
`CubBridge.boundary_true_swap` — the periodic class lists every pair in the other order; hence
**`CubBridge.flat_bd_bd_all`** — ∂∂ = 0 on flat positions for every shape with positive radices, every subset of periodic
directions, both classes, every position.
`CubBridge.boundary_face_all` — every listed face is a position of the bitmap of dimension one less;
**`CubBridge.boundary_coboundary_all`** — boundary and coboundary of the model are converse relations;
`CubBridge.valueTop_mono_gen`, `valueVert_mono_gen` — both value impositions (min over the top cells containing the cell, max
over its vertices) are lower-star; `CubBridge.order_perm`, `order_nondecreasing`, **`order_faces_first_top_gen` / `_vert_gen`** —
the filtration order lists every position once, values never decrease, every face precedes the cell.  All of these for
every shape with positive radices, every subset of periodic directions (wrap-around faces and cofaces included) and both
classes; the versions without `_all` / `_gen` are the earlier special cases without periodic directions.

**Partial** (`C13_partial`): what remains outside Lean is the geometric reading of the model (that `topDigits` / `vertDigits`
list the top cells containing the cell / its vertices, and that `boundary` lists the geometric faces — stated in the
property's own words and checked by the independent Python geometric specification) and the persistence clause, which is
compared with the reference reduction of C02/C05. -/
namespace C13
open CubModel

/-- a cell has as many boundary entries as twice its number of odd digits, in the plain class -/
example : ({ sizes := [2, 3], per := [false, false] } : Shape).boundary false 6 = [1, 11, 7, 5] := by decide
example : ({ sizes := [2, 3], per := [false, false] } : Shape).dimOf 6 = 2 := by decide
/-- periodic wrap-around: the last interval of a periodic direction of size 3 ends at digit 0 -/
example : ({ sizes := [3], per := [true] } : Shape).boundary true 5 = [0, 4] := by decide
example : ({ sizes := [3], per := [true] } : Shape).coboundary 0 = [1, 5] := by decide

end C13
