import GudhiVerif.History
import GudhiVerif.ExtDecode
import GudhiVerif.Order
import GudhiVerif.Model.SimplexTree
/-! # C03 — filtration order and filtration-value maintenance

Proved (audited by the check):
* comparator: `OrderProto.before_irrefl/trans/total` (strict total order), `OrderProto.before_of_face` (a proper face with a
  value not larger comes first), `OrderProto.order_unique` (two sorted permutations are equal: any sort, any schedule);
* `C03.filtrationOrder_sorted`, `C03.filtrationOrder_perm`: the model's order is a permutation of the simplices, sorted
  by the non-strict version of `before` — so by `order_unique` it is *the* order for duplicate-free complexes;
* `Mfnd3Proto.mfnd_spec` with `MfndProto.final_ge/final_mono/final_least`: make_filtration_non_decreasing yields the least
  monotone function above the input and creates/removes nothing;
* `TrieProto.find_prune`, `TrieProto.survives_sublevel`: pruning keeps exactly the sublevel complex.

**Partial** (`C03_extend_partial`): the extended filtration `STModel.extend` is the executable composition "assign / cone /
make_filtration_non_decreasing" of the code; its closed form (ascending lower-star on originals, descending upper-star on
cones) is the Python spec of `props/stref.py`, checked on every explored input, not yet a Lean theorem. Floating point
and TBB scheduling internals are outside the model (the sort routines are trusted to return *a* sorted permutation). -/
namespace C03
open TrieProto STModel OrderProto

/-- non-strict version of `before` used by the merge sort of the model -/
def leB (a b : Int × List Nat) : Bool := !(before b a)

theorem leB_total (a b : Int × List Nat) : (leB a b || leB b a) = true := by
  unfold leB
  by_cases h : a = b
  · subst h; simp [before_irrefl]
  · cases hab : before a b <;> cases hba : before b a <;> simp
    have := before_trans a b a hab hba
    rw [before_irrefl] at this; cases this

theorem leB_trans (a b c : Int × List Nat) (h1 : leB a b = true) (h2 : leB b c = true) : leB a c = true := by
  unfold leB at *
  simp only [Bool.not_eq_true'] at *
  by_cases hab : a = b
  · subst hab; exact h2
  by_cases hbc : b = c
  · subst hbc; exact h1
  -- a ≠ b, b ≠ c: strictness
  have h1' : before a b = true := by
    rcases before_total a b hab with h | h
    · exact h
    · rw [h1] at h; cases h
  have h2' : before b c = true := by
    rcases before_total b c hbc with h | h
    · exact h
    · rw [h2] at h; cases h
  have h3 := before_trans a b c h1' h2'
  cases hca : before c a
  · rfl
  · have := before_trans a c a h3 hca
    rw [before_irrefl] at this; cases this

def items (t : Forest) : List (Int × List Nat) := (toList t).map fun (w, f) => (f, w.reverse)

theorem filtrationOrder_sorted (t : Forest) :
    ((items t).mergeSort leB).Pairwise (fun a b => leB a b = true) :=
  List.pairwise_mergeSort (fun a b c h1 h2 => leB_trans a b c h1 h2) (fun a b => leB_total a b) (items t)

theorem filtrationOrder_perm (t : Forest) : ((items t).mergeSort leB).Perm (items t) :=
  List.mergeSort_perm (items t) leB

/-- the model's `filtrationOrder` is that sorted list (definitional unfolding) -/
theorem filtrationOrder_eq (t : Forest) :
    filtrationOrder t = ((items t).mergeSort leB).map fun (f, w) => (w.reverse, f) := rfl

example : leB (2, [0]) (2, [1, 0]) = true ∧ leB (2, [1, 0]) (2, [0]) = false := by decide

end C03
