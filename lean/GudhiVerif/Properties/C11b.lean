import GudhiVerif.Properties.C11
/-! # C11 — layouts of the compressed distance matrices

`Compressed_distance_matrix` keeps one pointer per row into a flat vector.  Lower layout: `rows[i] = base + (0+1+…+(i−1))`,
entry `(i, j)` with `j < i` is `rows[i][j]`.  Upper layout: `rows[0] = base − 1`, `rows[i+1] = rows[i] + (n − i − 2)`, entry
`(i, j)` with `i < j` is `rows[i][j]`.  Proved: both pointer computations address exactly the position of the pair in
the row-major enumeration of the strict lower / strict upper triangle, i.e. the flat vectors `(1,0),(2,0),(2,1),…` and
`(0,1),(0,2),…,(0,n−1),(1,2),…` are read back entry for entry (so the same dissimilarity given in either layout, or as a
full matrix, is the same function of `(i, j)`). -/
namespace C11b

/-- offset of row `i` in the lower layout: `init_rows` adds `i` after setting `rows[i]` -/
def lowerRow : Nat → Nat
  | 0 => 0
  | i + 1 => lowerRow i + i

/-- position of `(i, j)`, `j < i`, in the enumeration `(1,0),(2,0),(2,1),(3,0),…` -/
def lowerPos (i j : Nat) : Nat := i * (i - 1) / 2 + j

theorem lowerRow_eq (i : Nat) : 2 * lowerRow i = i * (i - 1) := by
  induction i with
  | zero => rfl
  | succ i ih =>
    simp only [lowerRow, Nat.add_sub_cancel]
    cases i with
    | zero => rfl
    | succ k =>
      simp only [Nat.add_sub_cancel] at ih
      rw [Nat.mul_add, ih]
      simp only [Nat.add_mul, Nat.mul_add, Nat.mul_one, Nat.one_mul]
      omega

/-- lower layout: `rows[i][j]` is the `lowerPos i j`-th entry of the flat vector -/
theorem lower_layout (i j : Nat) : lowerRow i + j = lowerPos i j := by
  unfold lowerPos
  have := lowerRow_eq i
  omega

/-- upper layout, kept shifted by one so that it stays a natural number: `upperRow1 n i = rows[i] − base + 1` -/
def upperRow1 (n : Nat) : Nat → Nat
  | 0 => 0
  | i + 1 => upperRow1 n i + (n - i - 2)

/-- number of pairs `(k, l)` with `k < i`, `k < l < n` -/
def upperBefore (n : Nat) : Nat → Nat
  | 0 => 0
  | i + 1 => upperBefore n i + (n - 1 - i)

/-- position of `(i, j)`, `i < j < n`, in the enumeration `(0,1),…,(0,n−1),(1,2),…` -/
def upperPos (n i j : Nat) : Nat := upperBefore n i + (j - i - 1)

theorem upperRow1_eq (n : Nat) : ∀ i, i + 1 < n → upperRow1 n i + i = upperBefore n i := by
  intro i
  induction i with
  | zero => intro _; rfl
  | succ i ih =>
    intro h
    have := ih (by omega)
    simp only [upperRow1, upperBefore]
    omega

/-- upper layout: `rows[i][j]` (= flat index `upperRow1 n i − 1 + j`) is the `upperPos n i j`-th entry -/
theorem upper_layout (n i j : Nat) (hij : i < j) (hj : j < n) : upperRow1 n i + j = upperPos n i j + 1 := by
  unfold upperPos
  have := upperRow1_eq n i (by omega)
  omega

example : lowerPos 3 1 = 4 ∧ upperPos 4 1 3 = 4 := by decide

end C11b
