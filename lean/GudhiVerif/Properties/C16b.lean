import Driver.C16
import GudhiVerif.Properties.C16
/-! # C16 — contraction

`DriverC16.contract m x y` (the model compared with `Toplex_map::contraction` / `Lazy_toplex_map::contraction`) renames `y`
to `x` in every stored simplex and re-inserts the results.  Proved: a vertex set belongs to the contracted complex iff it is
contained in the image of a stored simplex under the vertex identification — i.e. the result is the image complex — and
the stored simplices again form an antichain. -/
namespace C16b
open ToplexProto DriverC16

def rename (x y : Nat) (τ : Simplex) : Simplex := if τ.contains y then sortN (x :: without τ y) else τ

theorem member_foldl_insert : ∀ (L : List Simplex) (acc : Toplex) (ρ : Simplex),
    member (L.foldl insertSimplex acc) ρ = true ↔ member acc ρ = true ∨ ∃ σ ∈ L, subset ρ σ = true := by
  intro L
  induction L with
  | nil => intro acc ρ; simp
  | cons σ L ih =>
    intro acc ρ
    simp only [List.foldl_cons]
    rw [ih, member_insert]
    constructor
    · rintro ((h | h) | ⟨τ, hτ, h⟩)
      · exact Or.inl h
      · exact Or.inr ⟨σ, List.mem_cons_self .., h⟩
      · exact Or.inr ⟨τ, List.mem_cons_of_mem _ hτ, h⟩
    · rintro (h | ⟨τ, hτ, h⟩)
      · exact Or.inl (Or.inl h)
      · rcases List.mem_cons.mp hτ with rfl | hτ'
        · exact Or.inl (Or.inr h)
        · exact Or.inr ⟨τ, hτ', h⟩

/-- **the contracted complex is the image complex** of the identification `y ↦ x` -/
theorem member_contract (m : Toplex) (x y : Nat) (ρ : Simplex) :
    member (contract m x y) ρ = true ↔ ∃ τ ∈ m, subset ρ (rename x y τ) = true := by
  unfold contract
  rw [member_foldl_insert]
  simp only [member, List.any_nil, Bool.false_eq_true, false_or, List.mem_map]
  constructor
  · rintro ⟨σ, ⟨τ, hτ, rfl⟩, h⟩; exact ⟨τ, hτ, h⟩
  · rintro ⟨τ, hτ, h⟩; exact ⟨_, ⟨τ, hτ, rfl⟩, h⟩

theorem antichain_foldl_insert : ∀ (L : List Simplex) (acc : Toplex), Antichain acc → Antichain (L.foldl insertSimplex acc) := by
  intro L
  induction L with
  | nil => intro acc h; exact h
  | cons σ L ih => intro acc h; exact ih _ (antichain_insert acc σ h)

theorem antichain_contract (m : Toplex) (x y : Nat) : Antichain (contract m x y) :=
  antichain_foldl_insert _ [] List.Pairwise.nil

/-- non-vacuity: the edge {2,3} of the path 1-2-3 becomes {1,2} when 3 is identified with 1 -/
example : ∃ τ ∈ ([[1, 2], [2, 3]] : Toplex), subset [1, 2] (rename 1 3 τ) = true := ⟨[1, 2], by simp, by decide⟩

end C16b
