import Driver.C04
import GudhiVerif.Properties.C04
/-! # C04 — the blocker route: `withBlockers` is the largest blocked-free subcomplex

`DriverC04.withBlockers` (run by `gvdriver C04` and compared with `expansion_with_blockers`) keeps the simplices of the
clique complex all of whose faces with at least three vertices are unblocked.  Proved here for every blocker predicate:
the result contains no blocked simplex, is closed under the faces that the clique complex has, and contains every
face-closed blocked-free subfamily of the clique complex — i.e. it is the largest subcomplex without blocked simplices. -/
namespace C04b
open DriverC04

/-- `t` is a face of `w`: a sublist -/
theorem mem_subsetsOf : ∀ (w t : List Nat), t ∈ subsetsOf w ↔ t.Sublist w := by
  intro w
  induction w with
  | nil => intro t; simp [subsetsOf]
  | cons x xs ih =>
    intro t
    simp only [subsetsOf, List.mem_append, List.mem_map]
    constructor
    · rintro (⟨t', ht', rfl⟩ | h)
      · exact ((ih t').mp ht').cons_cons x
      · exact ((ih t).mp h).cons x
    · intro h
      cases h with
      | cons _ h' => exact Or.inr ((ih t).mpr h')
      | cons_cons _ h' => rename_i t'; exact Or.inl ⟨t', (ih t').mpr h', rfl⟩

/-- the defining predicate of `withBlockers` -/
def unblocked (rule : String) (arg : Nat) (w : List Nat) : Bool :=
  (subsetsOf w).all fun t => t.length < 3 || !blocked rule arg t

theorem mem_withBlockers (s : St) (d : Nat) (rule : String) (arg : Nat) (wf : List Nat × Int) :
    wf ∈ withBlockers s d rule arg ↔ wf ∈ oneShot s d ∧ unblocked rule arg wf.1 = true := by
  unfold withBlockers unblocked
  obtain ⟨w, f⟩ := wf
  simp only [List.mem_filter]

/-- no simplex of the result (with at least three vertices) is blocked -/
theorem withBlockers_unblocked (s : St) (d : Nat) (rule : String) (arg : Nat) (wf : List Nat × Int)
    (h : wf ∈ withBlockers s d rule arg) (h3 : 3 ≤ wf.1.length) : blocked rule arg wf.1 = false := by
  have hu := ((mem_withBlockers s d rule arg wf).mp h).2
  unfold unblocked at hu
  have := List.all_eq_true.mp hu wf.1 ((mem_subsetsOf _ _).mpr (List.Sublist.refl _))
  simp only [Bool.or_eq_true, decide_eq_true_eq, Bool.not_eq_true'] at this
  rcases this with h' | h'
  · omega
  · exact h'

/-- closed under the faces present in the clique complex -/
theorem withBlockers_face_closed (s : St) (d : Nat) (rule : String) (arg : Nat) (wf tf : List Nat × Int)
    (h : wf ∈ withBlockers s d rule arg) (ht : tf ∈ oneShot s d) (hsub : tf.1.Sublist wf.1) :
    tf ∈ withBlockers s d rule arg := by
  refine (mem_withBlockers s d rule arg tf).mpr ⟨ht, ?_⟩
  have hu := ((mem_withBlockers s d rule arg wf).mp h).2
  unfold unblocked at hu ⊢
  apply List.all_eq_true.mpr
  intro t htm
  exact List.all_eq_true.mp hu t ((mem_subsetsOf _ _).mpr (((mem_subsetsOf _ _).mp htm).trans hsub))

/-- **maximality**: a family of simplices of the clique complex that is closed under faces (as vertex lists) and contains
    no blocked simplex with at least three vertices lies inside `withBlockers` -/
theorem withBlockers_largest (s : St) (d : Nat) (rule : String) (arg : Nat) (F : List (List Nat × Int))
    (hF : ∀ wf ∈ F, wf ∈ oneShot s d)
    (hclosed : ∀ wf ∈ F, ∀ t : List Nat, t.Sublist wf.1 → 3 ≤ t.length → ∃ tf ∈ F, tf.1 = t)
    (hfree : ∀ wf ∈ F, 3 ≤ wf.1.length → blocked rule arg wf.1 = false) :
    ∀ wf ∈ F, wf ∈ withBlockers s d rule arg := by
  intro wf hwf
  refine (mem_withBlockers s d rule arg wf).mpr ⟨hF wf hwf, ?_⟩
  unfold unblocked
  apply List.all_eq_true.mpr
  intro t htm
  by_cases h3 : t.length < 3
  · simp [h3]
  · obtain ⟨tf, htf, rfl⟩ := hclosed wf hwf t ((mem_subsetsOf _ _).mp htm) (by omega)
    have := hfree tf htf (by omega)
    simp [this]

end C04b
