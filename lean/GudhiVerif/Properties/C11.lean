import GudhiVerif.Properties.C02
import GudhiVerif.Cns
import GudhiVerif.Expand
import GudhiVerif.ExpandVal
/-! # C11 — Ripser: what is proved

The specification side of the comparison is assembled from theorems proved elsewhere in this library:
`expand_words` / `expand_values_clique` (the flag expansion is the clique complex with maximal edge values — the Rips
filtration), `reduceAllP_cert` + `cert_unique` (the reference reduction returns the unique pairing over every `Z_p`),
and for the engine's simplex encodings `CnsProto.decode_encode`, `encode_lt`, `getMax_spec` (combinatorial number
system: rank/unrank of vertex sets, the binary search for the largest vertex).  The reduction engine of Ripser itself
(apparent / emergent pairs, clearing) is compared with that specification on every run, not modelled. -/
namespace C11
end C11
