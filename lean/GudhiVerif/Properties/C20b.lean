import GudhiVerif.Model.Coxeter
import GudhiVerif.Properties.C20
import Mathlib.Tactic.Tauto
import Mathlib.Tactic.ByContra
/-! # C20 — structure of the located simplex

For `locate d nums den` (point `nums/den`, `den > 0`): the base vertex is the coordinate-wise floor, the parts group the
indices `0..d` by their fractional part (index `d` carries fractional part 0), every index lies in exactly one part, no part
is empty, fractional parts decrease strictly from one part to the next, and the last part contains `d`.  These are exactly
the conditions under which the point is a convex combination with positive weights of the vertices `v, v+e_{ω0}, …`
(weights = successive differences of the fractional parts). -/
namespace C20b
open CoxModel

/-- fractional parts (numerators over `den`), with the extra entry `0` for index `d` -/
def fracs (nums : List Int) (den : Nat) : List Int := (nums.map fun x => x % (den : Int)) ++ [0]

def dedup (z : List Int) : List Int := z.foldl (fun acc x => if acc.contains x then acc else acc ++ [x]) []

def levels (nums : List Int) (den : Nat) : List Int := (dedup (fracs nums den)).mergeSort (fun a b => a ≥ b)

theorem locate_v (d : Nat) (nums : List Int) (den : Nat) : (locate d nums den).v = nums.map fun x => x / (den : Int) := rfl

theorem locate_parts (d : Nat) (nums : List Int) (den : Nat) :
    (locate d nums den).parts = (levels nums den).map fun l => (List.range (d + 1)).filter fun i => (fracs nums den).getD i 0 == l := rfl

theorem dedup_spec (z : List Int) : (dedup z).Nodup ∧ ∀ x, x ∈ dedup z ↔ x ∈ z := by
  unfold dedup
  have key : ∀ (z acc : List Int), acc.Nodup →
      (z.foldl (fun acc x => if acc.contains x then acc else acc ++ [x]) acc).Nodup ∧
      ∀ x, x ∈ z.foldl (fun acc x => if acc.contains x then acc else acc ++ [x]) acc ↔ x ∈ acc ∨ x ∈ z := by
    intro z
    induction z with
    | nil => intro acc h; simp [h]
    | cons y ys ih =>
      intro acc h
      simp only [List.foldl_cons]
      by_cases hy : acc.contains y = true
      · rw [if_pos hy]
        obtain ⟨h1, h2⟩ := ih acc h
        refine ⟨h1, fun x => ?_⟩
        rw [h2 x]
        have : y ∈ acc := by simpa using hy
        constructor
        · rintro (h' | h'); exact Or.inl h'; exact Or.inr (List.mem_cons_of_mem _ h')
        · rintro (h' | h'); exact Or.inl h'
          rcases List.mem_cons.mp h' with rfl | h''
          · exact Or.inl this
          · exact Or.inr h''
      · rw [if_neg hy]
        have hn : y ∉ acc := by simpa using hy
        have hnd : (acc ++ [y]).Nodup := by
          rw [List.nodup_append]
          refine ⟨h, by simp, ?_⟩
          intro a ha b hb
          simp only [List.mem_singleton] at hb
          subst hb
          intro hab; subst hab; exact hn ha
        obtain ⟨h1, h2⟩ := ih (acc ++ [y]) hnd
        refine ⟨h1, fun x => ?_⟩
        rw [h2 x]
        simp only [List.mem_append, List.mem_cons, List.not_mem_nil, or_false]
        tauto
  have := key z [] List.nodup_nil
  simpa using this

theorem levels_spec (nums : List Int) (den : Nat) :
    (levels nums den).Nodup ∧ (∀ x, x ∈ levels nums den ↔ x ∈ fracs nums den) ∧ (levels nums den).Pairwise (fun a b => a > b) := by
  obtain ⟨hnd, hmem⟩ := dedup_spec (fracs nums den)
  have hperm := List.mergeSort_perm (dedup (fracs nums den)) (fun a b => decide (a ≥ b))
  have hnd' : (levels nums den).Nodup := hperm.nodup_iff.mpr hnd
  refine ⟨hnd', fun x => by unfold levels; rw [hperm.mem_iff]; exact hmem x, ?_⟩
  have hsorted := List.pairwise_mergeSort (le := fun (a b : Int) => decide (a ≥ b))
    (by intro a b c hab hbc; simp only [decide_eq_true_eq] at *; omega)
    (by intro a b; simp only [Bool.or_eq_true, decide_eq_true_eq]; omega) (dedup (fracs nums den))
  -- sorted with ≥ and without duplicates ⇒ strictly decreasing
  have : ∀ (l : List Int), l.Pairwise (fun a b => decide (a ≥ b) = true) → l.Nodup → l.Pairwise (fun a b => a > b) := by
    intro l
    induction l with
    | nil => intro _ _; exact List.Pairwise.nil
    | cons a t ih =>
      intro hp hn
      rw [List.pairwise_cons] at hp
      rw [List.nodup_cons] at hn
      refine List.pairwise_cons.mpr ⟨?_, ih hp.2 hn.2⟩
      intro b hb
      have h1 := hp.1 b hb
      simp only [decide_eq_true_eq] at h1
      have : a ≠ b := fun e => hn.1 (e ▸ hb)
      omega
  exact this _ hsorted hnd'

/-- every index `0..d` lies in exactly one part: the part of its own fractional level -/
theorem index_in_unique_part (d : Nat) (nums : List Int) (den : Nat) (hlen : nums.length = d) (i : Nat) (hi : i ≤ d) :
    ∀ l ∈ levels nums den,
      (i ∈ (List.range (d + 1)).filter fun j => (fracs nums den).getD j 0 == l) ↔ l = (fracs nums den).getD i 0 := by
  intro l _
  simp only [List.mem_filter, List.mem_range, beq_iff_eq]
  constructor
  · rintro ⟨_, h⟩; exact h.symm
  · intro h; exact ⟨by omega, h.symm⟩

theorem own_level_mem (d : Nat) (nums : List Int) (den : Nat) (hlen : nums.length = d) (i : Nat) (hi : i ≤ d) :
    (fracs nums den).getD i 0 ∈ levels nums den := by
  rw [(levels_spec nums den).2.1]
  rw [List.getD_eq_getElem?_getD]
  have hl : i < (fracs nums den).length := by simp [fracs, hlen]; omega
  rw [List.getElem?_eq_getElem hl]
  simp

/-- no part is empty -/
theorem parts_nonempty (d : Nat) (nums : List Int) (den : Nat) (hlen : nums.length = d) :
    ∀ p ∈ (locate d nums den).parts, p ≠ [] := by
  intro p hp
  rw [locate_parts] at hp
  obtain ⟨l, hl, rfl⟩ := List.mem_map.mp hp
  have hz := ((levels_spec nums den).2.1 l).mp hl
  obtain ⟨i, hi, hget⟩ := List.mem_iff_getElem.mp hz
  have hid : i ≤ d := by simp [fracs, hlen] at hi; omega
  intro hnil
  have : i ∈ (List.range (d + 1)).filter fun j => (fracs nums den).getD j 0 == l := by
    simp only [List.mem_filter, List.mem_range, beq_iff_eq]
    refine ⟨by omega, ?_⟩
    rw [List.getD_eq_getElem?_getD, List.getElem?_eq_getElem hi]; simpa using hget
  rw [hnil] at this
  cases this

/-- fractional parts are non-negative and below `den` -/
theorem fracs_range (nums : List Int) (den : Nat) (hden : 0 < den) : ∀ x ∈ fracs nums den, 0 ≤ x ∧ x < den := by
  intro x hx
  have hd : (0 : Int) < (den : Int) := by exact_mod_cast hden
  simp only [fracs, List.mem_append, List.mem_map, List.mem_singleton] at hx
  rcases hx with ⟨y, _, rfl⟩ | rfl
  · exact ⟨Int.emod_nonneg _ (by omega), Int.emod_lt_of_pos _ hd⟩
  · exact ⟨Int.le_refl _, hd⟩

/-- the last part is the one of fractional part 0 and contains the index `d` -/
theorem last_part_contains_d (d : Nat) (nums : List Int) (den : Nat) (hden : 0 < den) (hlen : nums.length = d) :
    ∃ p, (locate d nums den).parts.getLast? = some p ∧ d ∈ p := by
  obtain ⟨_, hmem, hsorted⟩ := levels_spec nums den
  have h0 : (0 : Int) ∈ levels nums den := by rw [hmem]; simp [fracs]
  -- the last level is 0: it is a member, everything is ≥ 0 and the list is strictly decreasing
  have hlast : (levels nums den).getLast? = some 0 := by
    have hne : levels nums den ≠ [] := List.ne_nil_of_mem h0
    rw [List.getLast?_eq_some_getLast hne]
    congr 1
    by_contra hne0
    have hge : 0 ≤ (levels nums den).getLast hne := (fracs_range nums den hden _ ((hmem _).mp (List.getLast_mem hne))).1
    -- 0 occurs before the last element, hence is strictly larger than it
    obtain ⟨i, hi, hget⟩ := List.mem_iff_getElem.mp h0
    have hlt : i < (levels nums den).length - 1 := by
      by_contra hcon
      have : i = (levels nums den).length - 1 := by omega
      subst this
      rw [List.getLast_eq_getElem] at hne0
      exact hne0 hget
    have := (List.pairwise_iff_getElem.mp hsorted) i ((levels nums den).length - 1) hi (by omega) hlt
    rw [hget] at this
    rw [List.getLast_eq_getElem] at hge
    omega
  rw [locate_parts, List.getLast?_map, hlast]
  refine ⟨_, rfl, ?_⟩
  simp only [List.mem_filter, List.mem_range, beq_iff_eq]
  refine ⟨by omega, ?_⟩
  rw [List.getD_eq_getElem?_getD]
  have : (fracs nums den)[d]? = some 0 := by
    simp only [fracs]
    rw [List.getElem?_append_right (by simp [hlen])]
    simp [hlen]
  rw [this]; rfl

end C20b
