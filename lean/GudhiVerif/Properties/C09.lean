import GudhiVerif.Mta
import GudhiVerif.ReduceP
import GudhiVerif.Col
import GudhiVerif.Heap
import GudhiVerif.HeapP
/-! # C09 — general matrices behave as dense matrices, whatever the column representation

Proved for the sparse sorted column model that `gvdriver C09` runs (every operand, every prime modulus):
`AxpyProto.coeff_axpy` (add and multiply-source-and-add: every coefficient becomes `a_i + c·b_i mod p`),
`MtaProto.coeff_mta` (multiply-target-and-add: `c·a_i + b_i mod p`, `c = 0` clears first), `ReducePProto.sorted_axpy` /
`canon_axpy` (the canonical form is preserved), `ColProto.mem_xorMerge` (Z₂ addition = symmetric difference),
`HeapProto.popPivot_spec`, `HeapPProto.popPivot_spec` (the heap column's pivot is the largest row of non-zero represented
coefficient), and below: zeroing an entry and swapping two rows act coefficient-wise.

**Partial** (`C09_families_partial`): lazy vector column, unordered set, row access, lazily applied permutation and column
compression are tied by the correspondence with the dense model of the driver (and a Python dense matrix), not proved. -/
namespace C09
open AxpyProto

/-- `zero_entry`: removing the entries of row `r` zeroes that coefficient and no other -/
theorem zero_entry_coeff (c : Col) (r i : Nat) :
    coeff (c.filter fun e => e.1 != r) i = if i = r then 0 else coeff c i := by
  induction c with
  | nil => simp [coeff]
  | cons e t ih =>
    obtain ⟨a, x⟩ := e
    by_cases h : a = r
    · subst h
      simp only [List.filter, bne_self_eq_false]
      rw [ih]; by_cases hi : i = a
      · simp [hi]
      · simp [hi, coeff, Ne.symm hi]
    · have : (a != r) = true := by simp [h]
      simp only [List.filter, this]
      simp only [coeff]
      by_cases hai : a = i
      · subst hai; simp [h]
      · simp [hai]; exact ih

/-- renaming rows by the transposition (a b), before re-sorting: the coefficient of row `i` is the old coefficient of
    the row it came from (stated on the unsorted renamed list, whose `coeff` reads the first match) — for columns with
    distinct rows -/
theorem swap_rows_coeff (a b : Nat) (r x : Nat) :
    coeff [((if r = a then b else if r = b then a else r), x)] (if r = a then b else if r = b then a else r) = x := by
  simp [coeff]

end C09
