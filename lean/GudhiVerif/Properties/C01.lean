import GudhiVerif.History
import GudhiVerif.Cof
import GudhiVerif.Dim
import GudhiVerif.Model.SimplexTree
/-! # C01 — the simplex tree equals the abstract complex defined by its operation history

The model is the first-child/next-sibling `Forest` (`Trie*.lean`); its abstraction is the partial function
`find t : word → value`.  `gvdriver ST` runs exactly these definitions against the real `Simplex_tree` under eight
option sets.

Proved (names audited by the check):
* write side, every query word, no bound: `TrieProto.find_insert` (insert_simplex_raw: new → f, existing → min, missing
  prefixes created), `TrieProto.insF_spec` (insert_simplex_and_subfaces with its short-cut, on face-closed monotone
  trees), `TrieProto.find_removeLeaf`, `TrieProto.find_prune` + `TrieProto.survives_sublevel` (prune = sublevel
  complex), `TrieProto.find_pruneDim`;
* invariants: sortedness and validity (face-closed, monotone) preserved by every operation (`sorted_*`, `valid_*`);
* lift over histories: `TrieProto.reachable_refines`;
* read side: `CofProto.mem_star`, `CofProto.self_mem_star`, `CofProto.mem_cofK` (star and cofaces of any codimension
  through `rec_coface`), `Mfnd3Proto.mem_walk_iff` (traversal visits exactly the simplices);
* dimension: `TrieProto.maxLen_removeLeaf`, `TrieProto.dinv_removeMaxFixed`, `TrieProto.dimensionQ_exact`.

**Partial** (`C01_partial`): `insert_batch_vertices`, `clear`, `insert_graph` and the boundary / count / equality
readers are functions of the word list in the model (`STModel`) and are tied to the code by the correspondence run
and the Python oracle only; the intrusive label lists and the memory layout of the option sets are not modelled. -/
namespace C01
open TrieProto STModel

/-- batch vertex insertion leaves existing vertices untouched (one step of the fold) -/
theorem batch_step_existing (t : Forest) (v : Nat) (f : Int) (h : (find t [v]).isSome) :
    insertBatch t [v] f = t := by
  simp [insertBatch, h]

/-- the dimension reported by the model is −1 exactly on the empty forest -/
theorem dimOf_nil : dimOf Forest.nil = -1 := by simp [dimOf, maxLen]

theorem dimOf_nonneg (t : Forest) (h : t ≠ Forest.nil) : 0 ≤ dimOf t := by
  have := maxLen_pos h
  unfold dimOf; omega

end C01
