import GudhiVerif.Model.Fields
import GudhiVerif.Zp2P
import GudhiVerif.Crt
import GudhiVerif.MultiField
import GudhiVerif.MultiField2
/-! # C10 — coefficient fields implement exact modular arithmetic (property theorems)

Full statement (`C10_full`, informal): for every accepted characteristic every class computes integer arithmetic
reduced modulo p (resp. the product P of the primes of the range): conversions (negative ones included), every
unary/binary/fused operation on reduced operands, comparisons by residue, `x · inv x = 1`, partial inverses with
respect to a sub-product, and rejection of characteristics that are not primes > 1.

Proved below, for the executable model `FieldsModel` that `gvdriver C10` runs against the real classes:
the Z_p family completely (all operations, every modulus below 2³², the inverse table and the rejection of
composites for every p ≤ 2¹⁶).  For the multi-field family (`MultiField.lean`): `sqMul_spec` (the square-and-multiply loop
is modular exponentiation), `isPrime_iff` / `mfInit_wf` (every field accepted by `mfInit` has distinct primes, their product
and the CRT idempotents), `mfPid_spec` (the partial identity for `Q` is 1 modulo the primes of the field dividing `Q`, 0 modulo
the others); `Egcd.egcdLoop_spec` / `egcdLoop_bound` / `egcdInv_spec` (the extended-Euclid loop of `_get_inverse`: whatever it
returns for coprime arguments is the inverse, reduced into `[0, md]` — Bézout invariants and the alternating-sign size
invariant `A·|y| + M·|x| = md`); `coprime_div_gcd` and **`mfPinv_correct`** — for `Q` dividing the characteristic the partial
inverse is an inverse of `x` modulo every prime of `T = Q / gcd(x, Q)` and 0 modulo the other primes of the field.
`Egcd.egcdLoop_terminates` / `egcdInv_isSome` / `mfPinv_total` — the 200 iterations of the model suffice for every modulus below
2⁹⁹ (the second argument halves every two iterations), so below that bound the statement has no hypothesis on the loop.
**Partial** (`C10_multi_partial`): for larger moduli (GMP classes) `mfPinv_correct` assumes that the loop of the *model*
returns; there the result is compared with the code and with the exact oracle of `props/C10.py`. -/
namespace C10
open FieldsModel

def W : Nat := 4294967296

theorem zp_add (p a b : Nat) (hp : p < W) (ha : a < p) (hb : b < p) : zpAdd p a b = (a + b) % p :=
  Zp2Proto.add_spec a b p hp ha hb

theorem zp_sub (p a b : Nat) (hp : p < W) (ha : a < p) (hb : b < p) : zpSub p a b = (a + p - b) % p :=
  Zp2Proto.sub_spec a b p hp ha hb

theorem zp_mul (p a b : Nat) (hp0 : 0 < p) (hp : p < W) (hb : b < p) : zpMul p a b = (a * b) % p :=
  ZpProto.multiply_spec p a b hp0 hp hb

/-- conversion of any (signed) machine integer is its residue -/
theorem zp_conv (p : Nat) (hp : 0 < p) (e : Int) : (zpConv p e : Int) = e % (p : Int) :=
  GetValueProto.fixed_spec p hp e

theorem zp_convu (p e : Nat) : Zp2Proto.getValue e p = e % p := Zp2Proto.getValue_spec e p

/-- fused `e*m + a` is exact on reduced operands for every p ≤ 2¹⁶ -/
theorem zp_mad (p e m a : Nat) (hp : p ≤ 65536) (he : e < p) (hm : m < p) (ha : a < p) :
    zpMad p e m a = (e * m + a) % p :=
  Zp2Proto.multiplyAndAdd_spec e m a p (Zp2Proto.multiplyAndAdd_no_overflow e m a p hp he hm ha)

/-- fused `(e+a)*m` (repaired code: through `_add`/`_multiply`) is exact on reduced operands for every p < 2³² -/
theorem zp_aam (p e a m : Nat) (hp0 : 0 < p) (hp : p < W) (he : e < p) (ha : a < p) (hm : m < p) :
    zpAam p e a m = ((e + a) * m) % p := by
  unfold zpAam
  rw [zp_mul p _ m hp0 hp hm, zp_add p e a hp he ha, Nat.mod_mul_mod]

/-- the as-implemented fused operation overflowed: witness of D24 (kept as a regression fact about the old text) -/
theorem d24_witness :
    Zp2Proto.addAndMultiply 46348 46348 46348 46349 = 9140 ∧ ((46348 + 46348) * 46348) % 46349 = 2 :=
  Zp2Proto.addAndMultiply_overflow_witness

/-- every prime p ≤ 2¹⁶ is accepted, and the table holds the inverses -/
theorem zp_init_prime {p : ℕ} (hpr : p.Prime) (hp : p ≤ 65536) :
    ∃ tbl, Zp2Proto.setCharacteristic p = some tbl ∧ tbl.length = p ∧
      ∀ j, 0 < j → j < p → (tbl.getD j 0 * j) % p = 1 :=
  Zp2PProto.setCharacteristic_prime hpr hp

/-- a characteristic that is not a prime greater than 1 is refused -/
theorem zp_init_rejects {p : ℕ} (hpW : p < W) (h : ¬ p.Prime) : Zp2Proto.setCharacteristic p = none :=
  Zp2PProto.setCharacteristic_rejects hpW h

/-- the model's `zpInit` for small p is exactly the code's search -/
theorem zpInit_small (p : Nat) (h : p ≤ 1500) : zpInit p = Zp2Proto.setCharacteristic p := by
  unfold zpInit; rw [if_pos h]

/-- `x · inv x = 1` through the table, on the model's look-up -/
theorem zp_inv {p : ℕ} (hpr : p.Prime) (hp : p ≤ 1500) (x : Nat) (hx0 : 0 < x) (hx : x < p) :
    ∃ tbl, zpInit p = some tbl ∧ (zpInv tbl p x * x) % p = 1 := by
  obtain ⟨tbl, h1, h2, h3⟩ := zp_init_prime hpr (by omega)
  refine ⟨tbl, by rw [zpInit_small p hp]; exact h1, ?_⟩
  unfold zpInv; rw [if_pos h2]; exact h3 x hx0 hx

/-- comparisons are by residue: reduced representatives are equal iff the residues are -/
theorem zp_eq (p a b : Nat) : (Zp2Proto.getValue a p = Zp2Proto.getValue b p) ↔ a % p = b % p := by
  rw [Zp2Proto.getValue_spec, Zp2Proto.getValue_spec]

/-- CRT idempotents of the multi-field classes -/
theorem multi_idem_one {P p : ℕ} (hp : p.Prime) (hdiv : p ∣ P) (hcop : Nat.Coprime (P / p) p) :
    ((P / p) ^ (p - 1) % P) % p = 1 % p := crt_idem_one hp hdiv hcop
theorem multi_idem_zero {P p q : ℕ} (hp : p.Prime) (hP : 0 < P) (hpP : p ∣ P) (hq : q ∣ P / p) (hp1 : 1 ≤ p - 1) :
    ((P / p) ^ (p - 1) % P) % q = 0 := crt_idem_zero hp hP hpP hq hp1

/-! non-vacuity: concrete instances of the hypotheses, and concrete evaluations of the model -/
example : zpAdd 65521 65520 65520 = 65519 := by decide
example : zpMul 65521 65520 65520 = 1 := by
  rw [zp_mul 65521 65520 65520 (by decide) (by unfold W; decide) (by decide)]
example : zpConv 5 (-7) = 3 := by decide
example : zpAam 65521 65520 65520 65520 = 2 := by
  rw [zp_aam 65521 65520 65520 65520 (by decide) (by unfold W; decide) (by decide) (by decide) (by decide)]
example : (Nat.Prime 7) ∧ 7 ≤ 1500 := by constructor <;> norm_num
example : (mfInit 2 5).map (·.P) = some 30 := by decide
example : mfPinv { primes := [2, 3, 5], P := 30, partials := [15, 10, 6] } 10 6 = some (10, 3) := by decide

end C10
