import GudhiVerif.Properties.C12
/-! # C12 — a removed edge is dominated for ever

When the sweep of an edge ends with "dead" (the edge is removed from the graph), the model has reached a state in which
no later common neighbour is left and some vertex `c` of the common neighbourhood dominates the edge at the current
time: every common neighbour lies in the closed neighbourhood of `c`.  Since adjacency at a time is monotone in the time
(`adjLe_mono`), `c` dominates the edge at every later time as well — the hypothesis under which Glisse–Pritam's theorem
allows the edge to be dropped from the flag filtration. -/
namespace C12b
open CollapseModel C12

theorem adjLe_mono (g : Graph) (a b : Nat) {t t' : Int} (h : t ≤ t') (hadj : adjLe g a b t = true) : adjLe g a b t' = true := by
  unfold adjLe at *
  cases hab : (a == b) with
  | true => simp
  | false =>
    rw [hab] at hadj
    simp only [Bool.false_or] at hadj ⊢
    cases hv : val g a b with
    | none => rw [hv] at hadj; cases hadj
    | some f =>
      rw [hv] at hadj
      simp only [decide_eq_true_eq] at hadj ⊢
      omega

theorem dominatedBy_mono (g : Graph) (ngb : List Nat) (c : Nat) {t t' : Int} (h : t ≤ t')
    (hd : dominatedBy g ngb c t = true) : dominatedBy g ngb c t' = true := by
  unfold dominatedBy at *
  exact List.all_eq_true.mpr fun w hw => adjLe_mono g w c h (List.all_eq_true.mp hd w hw)

theorem val_symm (g : Graph) (a b : Nat) : val g a b = val g b a := by
  unfold val
  congr 1
  apply congrArg (fun p => g.find? p)
  funext e
  exact Bool.or_comm _ _

theorem mem_foldl_insSorted (now : List (Int × Nat)) : ∀ (acc : List Nat) (w : Nat),
    w ∈ now.foldl (fun acc p => insSorted p.2 acc) acc → w ∈ acc ∨ ∃ p ∈ now, p.2 = w := by
  induction now with
  | nil => intro acc w h; exact Or.inl h
  | cons p ps ih =>
    intro acc w h
    simp only [List.foldl_cons] at h
    rcases ih _ w h with h' | ⟨q, hq, rfl⟩
    · -- w ∈ insSorted p.2 acc
      have : ∀ (l : List Nat) (x y : Nat), y ∈ insSorted x l → y = x ∨ y ∈ l := by
        intro l
        induction l with
        | nil => intro x y hy; simp [insSorted] at hy; exact Or.inl hy
        | cons z zs ihz =>
          intro x y hy
          unfold insSorted at hy
          split at hy
          · rcases List.mem_cons.mp hy with rfl | hy'
            · exact Or.inl rfl
            · exact Or.inr hy'
          · split at hy
            · exact Or.inr hy
            · rcases List.mem_cons.mp hy with rfl | hy'
              · exact Or.inr (List.mem_cons_self ..)
              · rcases ihz x y hy' with rfl | h''
                · exact Or.inl rfl
                · exact Or.inr (List.mem_cons_of_mem _ h'')
      rcases this acc p.2 w h' with rfl | h''
      · exact Or.inr ⟨p, List.mem_cons_self .., rfl⟩
      · exact Or.inl h''
    · exact Or.inr ⟨q, List.mem_cons_of_mem _ hq, rfl⟩

/-- one push with a dominator that survives keeps the domination at the new time -/
theorem pushOnce_keeps_dominator (g : Graph) (c : Nat) (s s' : St) (hinv : Inv s)
    (hd : dominatedBy g s.ngb c s.time = true) (h : pushOnce g c s = some (s', true)) :
    dominatedBy g s'.ngb c s'.time = true := by
  have hspec := pushOnce_spec g c s s' true hinv h
  unfold pushOnce at h
  cases hm : minTime s.later with
  | none => rw [hm] at h; cases h
  | some t1 =>
    rw [hm] at h
    simp only [Option.some.injEq, Prod.mk.injEq] at h
    obtain ⟨hs, hstill⟩ := h
    subst hs
    simp only at hspec ⊢
    unfold dominatedBy
    apply List.all_eq_true.mpr
    intro w hw
    rcases mem_foldl_insSorted _ _ w hw with hold | ⟨p, hp, rfl⟩
    · exact adjLe_mono g w c (by omega) (List.all_eq_true.mp hd w hold)
    · -- a new neighbour: the survival test of the push says it is adjacent to `c` not later than its own time ≤ t1
      have hpt : p.1 ≤ t1 := by simpa using (List.mem_filter.mp hp).2
      have := List.all_eq_true.mp hstill p hp
      unfold adjLe
      cases hvc : val g c p.2 with
      | none => rw [hvc] at this; cases this
      | some f =>
        rw [hvc] at this
        simp only [decide_eq_true_eq] at this
        rw [val_symm g p.2 c, hvc]
        simp only [Bool.or_eq_true, decide_eq_true_eq]
        right; omega

/-- **a dead edge is dominated for ever**: if the sweep ends with "dead", a state was reached with no later common
    neighbour left in which some `c` dominates the whole common neighbourhood at the current time -/
theorem dead_is_dominated (g : Graph) : ∀ (fuel : Nat) (dom : Option Nat) (s : St), Inv s →
    (∀ c, dom = some c → dominatedBy g s.ngb c s.time = true) →
    loop g fuel dom s = none →
    ∃ (s' : St) (c : Nat), s'.later = [] ∧ s.time ≤ s'.time ∧ dominatedBy g s'.ngb c s'.time = true := by
  intro fuel
  induction fuel with
  | zero => intro dom s _ _ h; simp [loop] at h
  | succ fuel ih =>
    intro dom s hinv hdom h
    cases dom with
    | none =>
      simp only [loop] at h
      cases hf : findDominator g s.ngb s.time with
      | none => rw [hf] at h; cases h
      | some c =>
        rw [hf] at h
        have hc : dominatedBy g s.ngb c s.time = true := by
          have := List.find?_some hf
          simpa using this
        exact ih (some c) s hinv (fun c' hc' => by cases hc'; exact hc) h
    | some c =>
      have hc := hdom c rfl
      simp only [loop] at h
      cases hp : pushOnce g c s with
      | none =>
        -- no later neighbour: dead here
        refine ⟨s, c, ?_, Int.le_refl _, hc⟩
        unfold pushOnce at hp
        cases hm : minTime s.later with
        | none =>
          cases hl : s.later with
          | nil => rfl
          | cons p ps => rw [hl] at hm; simp only [minTime] at hm; cases hmm : minTime ps <;> rw [hmm] at hm <;> cases hm
        | some t1 => rw [hm] at hp; cases hp
      | some r =>
        obtain ⟨s1, b⟩ := r
        rw [hp] at h
        obtain ⟨hlt, hinv1⟩ := pushOnce_spec g c s s1 b hinv hp
        cases b with
        | true =>
          have hk := pushOnce_keeps_dominator g c s s1 hinv hc hp
          obtain ⟨s', c', h1, h2, h3⟩ := ih (some c) s1 hinv1 (fun c' hc' => by cases hc'; exact hk) h
          exact ⟨s', c', h1, by omega, h3⟩
        | false =>
          obtain ⟨s', c', h1, h2, h3⟩ := ih none s1 hinv1 (fun c' hc' => by cases hc') h
          exact ⟨s', c', h1, by omega, h3⟩

end C12b
