import GudhiVerif.Model.Landscape
import GudhiVerif.Grid
import Mathlib.Tactic.Linarith
import Mathlib.Tactic.Ring
import Mathlib.Data.List.Sort
/-! # C18 — landscapes: the specification model

The executable model of `GudhiVerif/Model/Landscape.lean` (run by `gvdriver C18` against the real classes) defines the
`k`-th landscape function as the `k`-th entry of the tent values sorted in descending order.  Proved here, for every
diagram, level and point:

* the sorted list is a sorted permutation of the tent values, so `lam` *is* the `k`-th largest tent value in the
  counting sense (`lam_kth_largest`), does not depend on the order of the intervals (`lam_perm`), is non-negative,
  non-increasing in the level and zero beyond the number of intervals;
* a tent with integer end points is linear on every half-unit cell (`tent_linear_on_half_cells`) — the reason why
  sampling at quarter points loses nothing;
* the sup distance of sampled functions is symmetric, zero on equal arguments and satisfies the triangle inequality;
* the inner-product numerator is symmetric, additive and homogeneous in its first argument and non-negative on the
  diagonal (so `dist2sq f g = inner (f−g) (f−g)` is the square of a semi-norm).

The construction sweeps of the two C++ classes are *not* modelled: they are tied to this specification by the
correspondence check on every run (DESIGN.md §5 C18). -/
namespace C18
open Landscape

/-! ### sorting -/

theorem insDesc_perm (x : Int) (l : List Int) : (insDesc x l).Perm (x :: l) := by
  induction l with
  | nil => exact List.Perm.refl _
  | cons y ys ih =>
    unfold insDesc
    split
    · exact List.Perm.refl _
    · exact (List.Perm.cons y ih).trans (List.Perm.swap x y ys)

theorem sortDesc_perm (l : List Int) : (sortDesc l).Perm l := by
  induction l with
  | nil => exact List.Perm.refl _
  | cons x xs ih => exact (insDesc_perm x _).trans (List.Perm.cons x ih)

theorem insDesc_sorted (x : Int) (l : List Int) (h : l.Pairwise (· ≥ ·)) : (insDesc x l).Pairwise (· ≥ ·) := by
  induction l with
  | nil => simp [insDesc]
  | cons y ys ih =>
    unfold insDesc
    rw [List.pairwise_cons] at h
    split
    · rename_i hyx
      refine List.pairwise_cons.mpr ⟨?_, List.pairwise_cons.mpr h⟩
      intro z hz
      rcases List.mem_cons.mp hz with rfl | hz
      · exact hyx
      · exact le_trans (h.1 z hz) hyx
    · rename_i hyx
      refine List.pairwise_cons.mpr ⟨?_, ih h.2⟩
      intro z hz
      have := (insDesc_perm x ys).subset hz
      rcases List.mem_cons.mp this with rfl | hz'
      · omega
      · exact h.1 z hz'

theorem sortDesc_sorted (l : List Int) : (sortDesc l).Pairwise (· ≥ ·) := by
  induction l with
  | nil => simp [sortDesc]
  | cons x xs ih => exact insDesc_sorted x _ ih

theorem sortDesc_length (l : List Int) : (sortDesc l).length = l.length := (sortDesc_perm l).length_eq

/-- two descending lists with the same elements are equal -/
theorem sorted_perm_eq : ∀ {l₁ l₂ : List Int}, l₁.Perm l₂ → l₁.Pairwise (· ≥ ·) → l₂.Pairwise (· ≥ ·) → l₁ = l₂ := by
  intro l₁ l₂ hp h₁ h₂
  exact List.Perm.eq_of_pairwise (le := fun a b => a ≥ b) (fun a b _ _ hab hba => le_antisymm hba hab) h₁ h₂ hp

theorem sortDesc_congr {l₁ l₂ : List Int} (h : l₁.Perm l₂) : sortDesc l₁ = sortDesc l₂ :=
  sorted_perm_eq ((sortDesc_perm l₁).trans (h.trans (sortDesc_perm l₂).symm)) (sortDesc_sorted l₁) (sortDesc_sorted l₂)

/-! ### the landscape functions -/

theorem tent_nonneg (b d t : Int) : 0 ≤ tent b d t := by unfold tent; omega

theorem getD_nonneg {l : List Int} (h : ∀ x ∈ l, 0 ≤ x) (k : Nat) : 0 ≤ l.getD k 0 := by
  rw [List.getD_eq_getElem?_getD]
  cases hk : l[k]? with
  | none => simp
  | some v => simpa using h v (List.mem_of_getElem? hk)

theorem lam_nonneg (diag : List (Int × Int)) (k : Nat) (t : Int) : 0 ≤ lam diag k t := by
  unfold lam
  apply getD_nonneg
  intro x hx
  have := (sortDesc_perm _).subset hx
  obtain ⟨p, _, rfl⟩ := List.mem_map.mp this
  exact tent_nonneg _ _ _

/-- levels are nested: `λ_{k+1} ≤ λ_k` -/
theorem lam_antitone (diag : List (Int × Int)) (k : Nat) (t : Int) : lam diag (k + 1) t ≤ lam diag k t := by
  unfold lam
  set s := sortDesc (diag.map fun p => tent p.1 p.2 t) with hs
  have hsorted : s.Pairwise (· ≥ ·) := sortDesc_sorted _
  have hnn : ∀ x ∈ s, 0 ≤ x := by
    intro x hx
    have := (sortDesc_perm _).subset hx
    obtain ⟨p, _, rfl⟩ := List.mem_map.mp this
    exact tent_nonneg _ _ _
  rw [List.getD_eq_getElem?_getD, List.getD_eq_getElem?_getD]
  by_cases h1 : k + 1 < s.length
  · have h0 : k < s.length := by omega
    rw [List.getElem?_eq_getElem h1, List.getElem?_eq_getElem h0]
    simp only [Option.getD_some]
    exact (List.pairwise_iff_getElem.mp hsorted) k (k + 1) h0 h1 (by omega)
  · rw [List.getElem?_eq_none (by omega)]
    simp only [Option.getD_none]
    have := getD_nonneg hnn k
    rwa [List.getD_eq_getElem?_getD] at this

/-- the landscape does not depend on the order in which the intervals are listed -/
theorem lam_perm {d₁ d₂ : List (Int × Int)} (h : d₁.Perm d₂) (k : Nat) (t : Int) : lam d₁ k t = lam d₂ k t := by
  unfold lam
  rw [sortDesc_congr (h.map _)]

theorem lam_zero_beyond (diag : List (Int × Int)) (k : Nat) (t : Int) (h : diag.length ≤ k) : lam diag k t = 0 := by
  unfold lam
  rw [List.getD_eq_getElem?_getD, List.getElem?_eq_none (by rw [sortDesc_length, List.length_map]; exact h)]
  rfl

/-- counting characterisation of the `k`-th entry of a descending list -/
theorem kth_of_sorted : ∀ (s : List Int) (k : Nat) (hk : k < s.length), s.Pairwise (· ≥ ·) →
    s.countP (fun x => decide (s[k] < x)) ≤ k ∧ k < s.countP (fun x => decide (s[k] ≤ x)) := by
  intro s
  induction s with
  | nil => intro k hk; simp at hk
  | cons x xs ih =>
    intro k hk hs
    rw [List.pairwise_cons] at hs
    cases k with
    | zero =>
      simp only [List.getElem_cons_zero]
      constructor
      · rw [List.countP_cons_of_neg (by simp)]
        rw [List.countP_eq_zero.mpr]
        intro y hy
        have := hs.1 y hy
        simp only [decide_eq_true_eq, not_lt]; exact this
      · rw [List.countP_cons_of_pos (by simp)]; omega
    | succ k =>
      simp only [List.getElem_cons_succ]
      have hk' : k < xs.length := by simpa using hk
      obtain ⟨h1, h2⟩ := ih k hk' hs.2
      have hx : xs[k] ≤ x := hs.1 _ (List.getElem_mem hk')
      constructor
      · by_cases hlt : xs[k] < x
        · rw [List.countP_cons_of_pos (by simpa using hlt)]; omega
        · rw [List.countP_cons_of_neg (by simpa using hlt)]; omega
      · rw [List.countP_cons_of_pos (by simpa using hx)]; omega

/-- **`lam` is the k-th largest tent value**: at most `k` tents are strictly larger, at least `k+1` are at least as large -/
theorem lam_kth_largest (diag : List (Int × Int)) (k : Nat) (t : Int) (hk : k < diag.length) :
    (diag.map fun p => tent p.1 p.2 t).countP (fun x => decide (lam diag k t < x)) ≤ k ∧
    k < (diag.map fun p => tent p.1 p.2 t).countP (fun x => decide (lam diag k t ≤ x)) := by
  set vals := diag.map fun p => tent p.1 p.2 t with hv
  have hlen : k < (sortDesc vals).length := by rw [sortDesc_length, hv, List.length_map]; exact hk
  have hlam : lam diag k t = (sortDesc vals)[k] := by
    unfold lam
    rw [List.getD_eq_getElem?_getD, List.getElem?_eq_getElem hlen]; rfl
  have := kth_of_sorted (sortDesc vals) k hlen (sortDesc_sorted vals)
  rw [hlam, ← (sortDesc_perm vals).countP_eq, ← (sortDesc_perm vals).countP_eq]
  exact this

/-- a tent whose end points are integers (multiples of 4 quarter units) is linear on every half-unit cell `[2m, 2m+2]` -/
theorem tent_linear_on_half_cells (b d m : Int) (hb : b % 4 = 0) (hd : d % 4 = 0) :
    2 * tent b d (2 * m + 1) = tent b d (2 * m) + tent b d (2 * m + 2) := by
  unfold tent
  omega

theorem tent_le_half_length (b d t : Int) (h : b ≤ d) : 2 * tent b d t ≤ d - b := by
  unfold tent
  omega

/-! ### sup distance on sampled functions -/

theorem foldl_max_ge (l : List Int) (m : Nat) : m ≤ l.foldl (fun m y => max m y.natAbs) m := by
  induction l generalizing m with
  | nil => exact Nat.le_refl _
  | cons y ys ih => exact Nat.le_trans (Nat.le_max_left _ _) (ih _)

theorem supAbs_ge (l : List Int) : ∀ (m : Nat) (y : Int), y ∈ l → y.natAbs ≤ l.foldl (fun m y => max m y.natAbs) m := by
  induction l with
  | nil => intro m y hy; cases hy
  | cons z zs ih =>
    intro m y hy
    rcases List.mem_cons.mp hy with rfl | hy
    · exact Nat.le_trans (Nat.le_max_right _ _) (foldl_max_ge zs _)
    · exact ih _ y hy

theorem supAbs_le {l : List Int} {B : Nat} : ∀ (m : Nat), m ≤ B → (∀ y ∈ l, y.natAbs ≤ B) → l.foldl (fun m y => max m y.natAbs) m ≤ B := by
  induction l with
  | nil => intro m hm _; exact hm
  | cons z zs ih =>
    intro m hm h
    exact ih _ (Nat.max_le.mpr ⟨hm, h z (List.mem_cons_self ..)⟩) (fun y hy => h y (List.mem_cons_of_mem _ hy))

/-- samples of `f − g` for functions on the same window -/
def subF (f g : Fn) : Fn := List.zipWith (· - ·) f g

theorem zipPad_eq_zipWith : ∀ (f g : Fn), f.length = g.length → zipPad (· - ·) f g = subF f g := by
  intro f
  induction f with
  | nil => intro g h; cases g with
    | nil => simp [zipPad, subF]
    | cons _ _ => simp at h
  | cons x xs ih => intro g h; cases g with
    | nil => simp at h
    | cons y ys => simp only [zipPad, subF, List.zipWith_cons_cons]; rw [ih ys (by simpa using h)]; rfl

theorem zipPad_sub_self (f : Fn) : supAbs (zipPad (· - ·) f f) = 0 := by
  rw [zipPad_eq_zipWith f f rfl]
  unfold supAbs
  apply Nat.le_zero.mp
  apply supAbs_le 0 (Nat.le_refl _)
  intro y hy
  unfold subF at hy
  obtain ⟨i, hi, rfl⟩ := List.mem_iff_getElem.mp hy
  simp

theorem distInf_symm (f g : Fn) (h : f.length = g.length) : supAbs (subF f g) = supAbs (subF g f) := by
  have key : ∀ (f g : Fn) (m : Nat), f.length = g.length →
      (subF f g).foldl (fun m y => max m y.natAbs) m = (subF g f).foldl (fun m y => max m y.natAbs) m := by
    intro f
    induction f with
    | nil => intro g m h; cases g with
      | nil => rfl
      | cons _ _ => simp at h
    | cons x xs ih => intro g m h; cases g with
      | nil => simp at h
      | cons y ys =>
        simp only [subF, List.zipWith_cons_cons, List.foldl_cons]
        have : (x - y).natAbs = (y - x).natAbs := by omega
        rw [this]
        exact ih ys _ (by simpa using h)
  exact key f g 0 h

/-- triangle inequality of the sup distance -/
theorem supAbs_triangle (f g h : Fn) (h1 : f.length = g.length) (h2 : g.length = h.length) :
    supAbs (subF f h) ≤ supAbs (subF f g) + supAbs (subF g h) := by
  unfold supAbs
  apply supAbs_le 0 (Nat.zero_le _)
  intro y hy
  unfold subF at hy
  obtain ⟨i, hi, rfl⟩ := List.mem_iff_getElem.mp hy
  simp only [List.length_zipWith] at hi
  have hif : i < f.length := by omega
  have hig : i < g.length := by omega
  have hih : i < h.length := by omega
  have e1 : (f[i] - g[i]).natAbs ≤ (subF f g).foldl (fun m y => max m y.natAbs) 0 :=
    supAbs_ge _ 0 _ (by unfold subF; exact List.mem_iff_getElem.mpr ⟨i, by simp; omega, by simp⟩)
  have e2 : (g[i] - h[i]).natAbs ≤ (subF g h).foldl (fun m y => max m y.natAbs) 0 :=
    supAbs_ge _ 0 _ (by unfold subF; exact List.mem_iff_getElem.mpr ⟨i, by simp; omega, by simp⟩)
  simp only [List.getElem_zipWith]
  omega

/-! ### the inner product numerator -/

theorem inner_symm : ∀ (f g : Fn), innerN f g = innerN g f := by
  intro f
  induction f with
  | nil => intro g; cases g <;> simp [innerN]
  | cons y0 r ih =>
    intro g
    cases r with
    | nil => cases g with
      | nil => simp [innerN]
      | cons z0 r' => cases r' <;> simp [innerN]
    | cons y1 r =>
      cases g with
      | nil => simp [innerN]
      | cons z0 r' =>
        cases r' with
        | nil => simp [innerN]
        | cons z1 r' =>
          simp only [innerN]
          rw [ih (z1 :: r')]
          ring

def addF (f g : Fn) : Fn := List.zipWith (· + ·) f g

theorem inner_add_left : ∀ (f g h : Fn), f.length = g.length → innerN (addF f g) h = innerN f h + innerN g h := by
  intro f
  induction f with
  | nil => intro g h hl; cases g with
    | nil => simp [addF, innerN]
    | cons _ _ => simp at hl
  | cons x0 r ih =>
    intro g h hl
    cases g with
    | nil => simp at hl
    | cons y0 s =>
      cases r with
      | nil =>
        cases s with
        | nil => cases h with
          | nil => simp [addF, innerN]
          | cons z0 h' => cases h' <;> simp [addF, innerN]
        | cons _ _ => simp at hl
      | cons x1 r =>
        cases s with
        | nil => simp at hl
        | cons y1 s =>
          cases h with
          | nil => simp [addF, innerN]
          | cons z0 h' =>
            cases h' with
            | nil => simp [addF, innerN]
            | cons z1 h' =>
              have := ih (y1 :: s) (z1 :: h') (by simpa using hl)
              simp only [addF, List.zipWith_cons_cons, innerN] at this ⊢
              rw [this]
              ring

theorem inner_scale_left (c : Int) : ∀ (f h : Fn), innerN (f.map (c * ·)) h = c * innerN f h := by
  intro f
  induction f with
  | nil => intro h; simp [innerN]
  | cons x0 r ih =>
    intro h
    cases r with
    | nil => cases h with
      | nil => simp [innerN]
      | cons z0 h' => cases h' <;> simp [innerN]
    | cons x1 r =>
      cases h with
      | nil => simp [innerN]
      | cons z0 h' =>
        cases h' with
        | nil => simp [innerN]
        | cons z1 h' =>
          have := ih (z1 :: h')
          simp only [List.map_cons, innerN] at this ⊢
          rw [this]
          ring

theorem inner_self_nonneg : ∀ (f : Fn), 0 ≤ innerN f f := by
  intro f
  induction f with
  | nil => simp [innerN]
  | cons y0 r ih =>
    cases r with
    | nil => simp [innerN]
    | cons y1 r =>
      simp only [innerN]
      nlinarith [sq_nonneg (y0 + y1), sq_nonneg y0, sq_nonneg y1, ih]

/-! ### non-vacuity -/
example : lam [(0, 16), (4, 24)] 0 12 = 8 ∧ lam [(0, 16), (4, 24)] 1 12 = 4 ∧ lam [(0, 16), (4, 24)] 2 12 = 0 := by decide
example : innerN [0, 16, 32, 16, 0] [0, 16, 32, 16, 0] = 8192 := by decide

end C18
