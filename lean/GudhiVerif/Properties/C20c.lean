import GudhiVerif.Properties.C20b
/-! # C20 — the coface search space is complete

`CoxModel.cofaces σ m` searches the representations `(v', ω')` with `v' = v_σ − b`, `b` a 0/1 vector, and `ω'` an ordered
partition of `{0..d}` into `m+1` parts with `d` in the last part.  Proved here: every representation of that shape (any
base vertex!) whose vertex set contains the vertices of σ is found — because every vertex of `(v', ω')` is `v'` plus a
0/1 vector (`vertex_minus_base_is_bits`), so the base vertex of a coface is the base vertex of σ minus a 0/1 vector.
Together with `cofaces_sound` the specification is exactly the set of `m`-simplices of the triangulation that contain σ. -/
namespace C20c
open CoxModel PermProto

theorem mem_bits : ∀ (n : Nat) (l : List Int), l ∈ bits n ↔ l.length = n ∧ ∀ x ∈ l, x = 0 ∨ x = 1 := by
  intro n
  induction n with
  | zero => intro l; simp [bits]; intro h; subst h; simp
  | succ n ih =>
    intro l
    simp only [bits, List.mem_flatMap, List.mem_cons, List.not_mem_nil, or_false]
    constructor
    · rintro ⟨b, hb, rfl | rfl⟩
      · obtain ⟨h1, h2⟩ := (ih b).mp hb
        refine ⟨by simp [h1], ?_⟩
        intro x hx
        rcases List.mem_append.mp hx with hx | hx
        · exact h2 x hx
        · simp at hx; exact Or.inl hx
      · obtain ⟨h1, h2⟩ := (ih b).mp hb
        refine ⟨by simp [h1], ?_⟩
        intro x hx
        rcases List.mem_append.mp hx with hx | hx
        · exact h2 x hx
        · simp at hx; exact Or.inr hx
    · rintro ⟨hlen, hall⟩
      have hne : l ≠ [] := by intro h; subst h; simp at hlen
      obtain ⟨init, last, rfl⟩ : ∃ init last, l = init ++ [last] := ⟨l.dropLast, l.getLast hne, (List.dropLast_append_getLast hne).symm⟩
      refine ⟨init, (ih init).mpr ⟨by simpa using hlen, fun x hx => hall x (List.mem_append_left _ hx)⟩, ?_⟩
      rcases hall last (by simp) with h | h
      · left; rw [h]
      · right; rw [h]

/-- the indicator vector of a duplicate-free index list (restricted to the first `d` coordinates) is a 0/1 vector -/
theorem indicator_mem_bits (d : Nat) (P : List Nat) (hnd : P.Nodup) :
    ((List.range d).map fun j => (P.count j : Int)) ∈ bits d := by
  rw [mem_bits]
  refine ⟨by simp, ?_⟩
  intro x hx
  obtain ⟨j, _, rfl⟩ := List.mem_map.mp hx
  have : P.count j ≤ 1 := List.nodup_iff_count_le_one.mp hnd j
  omega

/-- coordinates of the `k`-th vertex of a representation whose first `k` parts avoid `d` -/
theorem vertex_coords (d : Nat) (v' : List Int) (ps : List (List Nat)) (k : Nat) (hk : k < ps.length)
    (hd : d ∉ (ps.take k).flatten) :
    (List.range d).map ((verts d (vtx v') ps).getD k (vtx v')) =
      (List.range d).map fun j => vtx v' j + (((ps.take k).flatten.count j : Nat) : Int) := by
  rw [verts_getD d ps (vtx v') k hk]
  apply List.map_congr_left
  intro j hj
  have hjd : j < d := List.mem_range.mp hj
  rw [shift_apply d _ _ j hjd, List.count_eq_zero_of_not_mem hd]
  simp

/-- **every vertex of a representation is its base vertex plus a 0/1 vector** -/
theorem vertex_minus_base_is_bits (d : Nat) (v' : List Int) (ps : List (List Nat)) (hlen : v'.length = d)
    (hnd : ps.flatten.Nodup) (hlast : ∀ k, k < ps.length → d ∉ (ps.take k).flatten)
    (w : List Int) (hw : w ∈ vertsL { d := d, v := v', parts := ps }) :
    ∃ b ∈ bits d, v' = (w.zip b).map fun p => p.1 - p.2 := by
  unfold vertsL at hw
  obtain ⟨f, hf, rfl⟩ := List.mem_map.mp hw
  obtain ⟨k, hk, rfl⟩ := List.mem_iff_getElem.mp hf
  have hk' : k < ps.length := by simpa [verts_length] using hk
  have hget : (verts d (vtx v') ps)[k] = (verts d (vtx v') ps).getD k (vtx v') := by
    rw [List.getD_eq_getElem?_getD, List.getElem?_eq_getElem hk]; rfl
  simp only at hget ⊢
  rw [hget, vertex_coords d v' ps k hk' (hlast k hk')]
  have hsub : ((ps.take k).flatten).Nodup := by
    have : ((ps.take k).flatten).Sublist ps.flatten := by
      conv => rhs; rw [← List.take_append_drop k ps, List.flatten_append]
      exact List.sublist_append_left _ _
    exact this.nodup hnd
  refine ⟨(List.range d).map fun j => (((ps.take k).flatten.count j : Nat) : Int), indicator_mem_bits d _ hsub, ?_⟩
  apply List.ext_getElem
  · simp [hlen]
  · intro i h1 h2
    simp only [List.getElem_map, List.getElem_zip, List.getElem_range]
    have hi : i < d := by omega
    simp only [vtx]
    rw [List.getD_eq_getElem?_getD, List.getElem?_eq_getElem h1]
    simp

/-- the first vertex of a representation with at least one part is its base vertex -/
theorem base_mem_vertsL (s : Simp) (hlen : s.v.length = s.d) (hne : s.parts ≠ []) : s.v ∈ vertsL s := by
  unfold vertsL
  cases hp : s.parts with
  | nil => exact absurd hp hne
  | cons p ps =>
    simp only [verts, List.map_cons, List.mem_cons]
    left
    apply List.ext_getElem
    · simp [hlen]
    · intro i h1 h2
      simp only [List.getElem_map, List.getElem_range, vtx]
      rw [List.getD_eq_getElem?_getD, List.getElem?_eq_getElem h1]; rfl

/-- shape of the ordered partitions of the specification: duplicate-free, `d` only in the last part -/
theorem orderedPartitions_valid (d m : Nat) : ∀ ps ∈ orderedPartitions d m,
    ps.flatten.Nodup ∧ ∀ k, k < ps.length → d ∉ (ps.take k).flatten := by
  intro ps hps
  simp only [orderedPartitions, List.mem_filterMap] at hps
  obtain ⟨a, ha, hif⟩ := hps
  split at hif
  · simp only [Option.some.injEq] at hif
    subst hif
    -- `a` has length d: the assignment of `d` itself is the appended `m`
    have halen : ∀ (n mm : Nat) (x : List Nat), x ∈ assignments n mm → x.length = n := by
      intro n mm
      induction n with
      | zero => intro x hx; simp [assignments] at hx; subst hx; rfl
      | succ n ih =>
        intro x hx
        simp only [assignments, List.mem_flatMap, List.mem_map, List.mem_range] at hx
        obtain ⟨y, hy, b, _, rfl⟩ := hx
        simp [ih y hy]
    have hal := halen d m a ha
    constructor
    · rw [List.nodup_flatten]
      constructor
      · intro l hl
        obtain ⟨b, _, rfl⟩ := List.mem_map.mp hl
        exact (List.nodup_range).filter _
      · rw [List.pairwise_map]
        apply List.Pairwise.imp_of_mem (R := fun (b b' : Nat) => b ≠ b')
        · intro b b' _ _ hbb x hx hx'
          simp only [List.mem_filter, beq_iff_eq] at hx hx'
          exact hbb (hx.2.symm.trans hx'.2)
        · exact List.nodup_range
    · intro k hk hmem
      simp only [List.length_map, List.length_range] at hk
      obtain ⟨l, hl, hdl⟩ := List.mem_flatten.mp hmem
      rw [← List.map_take] at hl
      obtain ⟨b, hb, rfl⟩ := List.mem_map.mp hl
      have hbk : b < k := by
        have := List.mem_take_iff_getElem.mp hb
        obtain ⟨i, hi, rfl⟩ := this
        simp only [List.getElem_range]
        simp only [List.length_range] at hi
        omega
      simp only [List.mem_filter, List.mem_range, beq_iff_eq] at hdl
      have : (a ++ [m]).getD d 0 = m := by
        rw [List.getD_eq_getElem?_getD, List.getElem?_append_right (by omega)]
        simp [hal]
      rw [this] at hdl
      omega
  · cases hif

/-- **completeness of the coface specification** -/
theorem cofaces_complete (s : Simp) (m : Nat) (hsv : s.v.length = s.d) (hne : s.parts ≠ [])
    (v' : List Int) (ps : List (List Nat)) (hv' : v'.length = s.d) (hps : ps ∈ orderedPartitions s.d m)
    (hsub : subsetV (vertsL s) (vertsL { d := s.d, v := v', parts := ps }) = true) :
    sortV (vertsL { d := s.d, v := v', parts := ps }) ∈ cofaces s m := by
  obtain ⟨hnd, hlast⟩ := orderedPartitions_valid s.d m ps hps
  have hbase : s.v ∈ vertsL { d := s.d, v := v', parts := ps } := by
    have := List.all_eq_true.mp hsub s.v (base_mem_vertsL s hsv hne)
    simpa using this
  obtain ⟨b, hb, hvb⟩ := vertex_minus_base_is_bits s.d v' ps hv' hnd hlast s.v hbase
  simp only [cofaces, List.mem_flatMap, List.mem_filterMap]
  refine ⟨b, hb, ps, hps, ?_⟩
  rw [← hvb, hsub]
  simp

/-- the assignments enumerate every map `{0..n-1} → {0..m}` -/
theorem mem_assignments : ∀ (n m : Nat) (a : List Nat), a ∈ assignments n m ↔ a.length = n ∧ ∀ x ∈ a, x ≤ m := by
  intro n m
  induction n with
  | zero => intro a; simp [assignments]; intro h; subst h; simp
  | succ n ih =>
    intro a
    simp only [assignments, List.mem_flatMap, List.mem_map, List.mem_range]
    constructor
    · rintro ⟨y, hy, b, hb, rfl⟩
      obtain ⟨h1, h2⟩ := (ih y).mp hy
      refine ⟨by simp [h1], ?_⟩
      intro x hx
      rcases List.mem_append.mp hx with hx | hx
      · exact h2 x hx
      · simp at hx; omega
    · rintro ⟨hlen, hall⟩
      have hne : a ≠ [] := by intro h; subst h; simp at hlen
      obtain ⟨init, last, rfl⟩ : ∃ init last, a = init ++ [last] := ⟨a.dropLast, a.getLast hne, (List.dropLast_append_getLast hne).symm⟩
      refine ⟨init, (ih init).mpr ⟨by simpa using hlen, fun x hx => hall x (List.mem_append_left _ hx)⟩, last, ?_, rfl⟩
      have := hall last (by simp)
      omega

/-- the block decomposition of a map `f : {0..d} → {0..m}` given as the list of its values on `0..d-1` (with `f d = m`) -/
def blocks (d m : Nat) (a : List Nat) : List (List Nat) :=
  (List.range (m + 1)).map fun b => (List.range (d + 1)).filter fun i => (a ++ [m]).getD i 0 == b

/-- **every ordered partition with `d` in the last part is enumerated**: for every map with values `≤ m` whose blocks are
    all non-empty, the block decomposition is in `orderedPartitions d m` -/
theorem blocks_mem_orderedPartitions (d m : Nat) (a : List Nat) (hlen : a.length = d) (hle : ∀ x ∈ a, x ≤ m)
    (hsurj : ∀ p ∈ blocks d m a, p ≠ []) : blocks d m a ∈ orderedPartitions d m := by
  simp only [orderedPartitions, List.mem_filterMap]
  refine ⟨a, (mem_assignments d m a).mpr ⟨hlen, hle⟩, ?_⟩
  have : ((List.range (m + 1)).map fun b => (List.range (d + 1)).filter fun i => (a ++ [m]).getD i 0 == b).all (fun p => !p.isEmpty) = true := by
    apply List.all_eq_true.mpr
    intro p hp
    have := hsurj p hp
    cases p with
    | nil => exact absurd rfl this
    | cons _ _ => rfl
  simp only [this, if_true]
  rfl

end C20c
