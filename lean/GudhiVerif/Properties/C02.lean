import GudhiVerif.CamFold
import GudhiVerif.BridgeP
import GudhiVerif.Dual
import GudhiVerif.Crt
import GudhiVerif.Cam
import GudhiVerif.Model.Pers
/-! # C02 — persistent cohomology returns the true persistence pairs for every field

Proved (any field, any boundary matrix with ∂∂ = 0, no bound on the size):
* `cert_unique`: two reduced factorisations `R = D·V`, `R' = D·V'` have the same lowest entries — the pairing is a
  function of the filtered complex alone;
* `BridgeP.reduceAllP_cert`, `BridgeP.any_cert_agrees_with_referenceP`: the executable reference reduction run by
  `gvdriver` (`PersModel.bars`) yields such a certificate over `ZMod p` for every prime p, and every other certificate
  has the same pairs — it *is* the "independent boundary-matrix reduction" of the property;
* `low_is_positive`, `eval_reduced_col`, `cam_step`, `cam_creator`, `cam_destroyer`, `drun_spec`, `drun_final`: the dense
  persistent-cohomology algorithm (one cochain per live class, youngest live class with a non-zero coefficient dies)
  outputs exactly the reference pairs and essential classes;
* `rowcert_dual` (homology/cohomology duality at matrix level), `crt_idem_one/zero` (multi-field idempotents).

**Partial**: `C02_cam_refines_dense_partial` — the compressed annotation matrix model `CamProto.run` (union-find for
dimension 0, column merging) that the driver runs against the real engine is not yet proved to refine the dense
algorithm; the driver compares it with the reference reduction on every input.  `C02_multi_partial` — the multi-field
projection is an executable specification (per-prime reference pairs), not a theorem. -/
namespace C02

/-- the executable value-level barcode used as specification is defined through the proved reference reduction -/
theorem bars_uses_reference (p : Nat) (cells : List PersModel.Cell) :
    PersModel.indexPairs p (cells.map fun c => PersModel.sortCol c.bd) =
      ReducePProto.pairs (ReducePProto.reduceAll p (cells.map fun c => PersModel.sortCol c.bd).length
        (cells.map fun c => PersModel.sortCol c.bd)) := rfl

end C02
