import GudhiVerif.Line
import GudhiVerif.Model.Cubical
/-! # C14 — the specialised 1D and 2D routines agree with generic persistence

1D (**full at model level**): `LineProto.run` is the goto state machine of `compute_persistence_of_function_on_line`
(one Lean function per label); `LineProto.run_spec`: every emitted bar has positive length and the rank invariant β of
H₀ of the sublevel sets equals the number of emitted bars containing `[s,t]` plus the indicator of the global minimum —
which determines the multiset of non-zero-length intervals. Supporting: `down_spec`, `up_spec`, `step_spec`,
`drain_spec`, and the surgery lemmas of `Beta*.lean`.

2D (**partial**, `C14_rect_partial`): the executable object compared with `persistence_on_rectangle_from_top_cells` is
the *specification* itself — the lower-star cubical complex of the top-cell values (`CubModel`) reduced by the
reference reduction (`PersModel.bars`, backed by `reduceAllP_cert` / `cert_unique`); there is no Lean model of
`fill_and_pair` / `primal` / `dual`, so a divergence is directly a failing input of the property. -/
namespace C14
open LineProto

/-- the emitted bars have positive length and, together with the minimum, reproduce the rank invariant -/
theorem line_spec (xs : List Int) (m : Int) (out : Out) (h : run xs = some (m, out)) :
    (∀ p ∈ out, p.1 < p.2) ∧
    ∀ s t, s ≤ t → BetaProto.β xs s t = cnt out s t + (if m ≤ s then 1 else 0) :=
  run_spec xs m out h

/-- non-vacuity: the routine answers on every non-empty input -/
theorem line_total (x : Int) (xs : List Int) : (run (x :: xs)).isSome = true := by
  simp [run]

end C14
