import GudhiVerif.Model.Coxeter
import Mathlib.Data.Nat.Choose.Basic
import Mathlib.Data.List.Sublists
/-! # C20 — permutahedral representations: face lattice

`PermProto` (ported from the design round) proves that the `k+1` vertices of a representation are pairwise distinct
(`verts_distinct`) and that `face_from_indices` selects exactly the requested vertices (`face_spec`, `shift_perm`).
Here: the specification used by the driver.  The `k`-faces are the `(k+1)`-element sublists of the vertex list
(`mem_choose`), there are `C(n, k+1)` of them (`choose_length`), and every simplex listed by the coface specification
is a representation of the requested dimension, from the announced search space, containing every vertex of the
simplex (`cofaces_sound`). -/
namespace C20
open CoxModel

theorem mem_choose {α : Type} : ∀ (k : Nat) (xs l : List α), l ∈ choose k xs ↔ l.Sublist xs ∧ l.length = k := by
  intro k xs
  induction xs generalizing k with
  | nil =>
    intro l
    cases k with
    | zero => simp [choose]
    | succ k =>
      simp only [choose, List.not_mem_nil, List.sublist_nil, false_iff, not_and]
      intro h; subst h; simp
  | cons x xs ih =>
    intro l
    cases k with
    | zero =>
      simp only [choose, List.mem_singleton, List.length_eq_zero_iff]
      constructor
      · intro h; subst h; exact ⟨List.nil_sublist _, rfl⟩
      · intro h; exact h.2
    | succ k =>
      simp only [choose, List.mem_append, List.mem_map]
      constructor
      · rintro (⟨l', hl', rfl⟩ | h)
        · obtain ⟨hs, hlen⟩ := (ih k l').mp hl'
          exact ⟨hs.cons_cons x, by simp [hlen]⟩
        · obtain ⟨hs, hlen⟩ := (ih (k + 1) l).mp h
          exact ⟨hs.cons x, hlen⟩
      · rintro ⟨hs, hlen⟩
        cases hs with
        | cons _ hs' => exact Or.inr ((ih (k + 1) l).mpr ⟨hs', hlen⟩)
        | cons_cons _ hs' =>
          rename_i l'
          exact Or.inl ⟨l', (ih k l').mpr ⟨hs', by simpa using hlen⟩, rfl⟩

theorem choose_length {α : Type} : ∀ (k : Nat) (xs : List α), (choose k xs).length = Nat.choose xs.length k := by
  intro k xs
  induction xs generalizing k with
  | nil => cases k <;> simp [choose]
  | cons x xs ih =>
    cases k with
    | zero => simp [choose]
    | succ k =>
      simp only [choose, List.length_append, List.length_map, ih, List.length_cons]
      rw [Nat.choose_succ_succ]

/-- the `k`-faces of the specification are exactly the (sorted) `(k+1)`-element sublists of the vertex list, and there
    are `C(dim+1, k+1)` of them -/
theorem faces_are_vertex_subsets (s : Simp) (k : Nat) :
    (∀ f ∈ faces s k, ∃ l, l.Sublist (vertsL s) ∧ l.length = k + 1 ∧ f = sortV l) ∧
    (faces s k).length = Nat.choose (vertsL s).length (k + 1) := by
  constructor
  · intro f hf
    obtain ⟨l, hl, rfl⟩ := List.mem_map.mp hf
    obtain ⟨h1, h2⟩ := (mem_choose _ _ _).mp hl
    exact ⟨l, h1, h2, rfl⟩
  · simp [faces, choose_length]

theorem vertsL_length (s : Simp) : (vertsL s).length = s.parts.length := by
  simp [vertsL, PermProto.verts_length]

/-- every entry of the coface specification comes from a representation of dimension `m` of the search space and
    contains all vertices of the simplex -/
theorem cofaces_sound (s : Simp) (m : Nat) : ∀ c ∈ cofaces s m, ∃ b ∈ bits s.d, ∃ ps ∈ orderedPartitions s.d m,
    let t : Simp := { d := s.d, v := (s.v.zip b).map fun p => p.1 - p.2, parts := ps }
    c = sortV (vertsL t) ∧ subsetV (vertsL s) (vertsL t) = true := by
  intro c hc
  simp only [cofaces, List.mem_flatMap, List.mem_filterMap] at hc
  obtain ⟨b, hb, ps, hps, hif⟩ := hc
  refine ⟨b, hb, ps, hps, ?_⟩
  by_cases hsub : subsetV (vertsL s) (vertsL { d := s.d, v := (s.v.zip b).map fun p => p.1 - p.2, parts := ps }) = true
  · simp only [hsub, if_true, Option.some.injEq] at hif
    exact ⟨hif.symm, hsub⟩
  · simp [hsub] at hif

/-- an ordered partition of the specification has `m+1` non-empty parts -/
theorem orderedPartitions_shape (d m : Nat) : ∀ ps ∈ orderedPartitions d m, ps.length = m + 1 ∧ ∀ p ∈ ps, p ≠ [] := by
  intro ps hps
  simp only [orderedPartitions, List.mem_filterMap] at hps
  obtain ⟨a, _, hif⟩ := hps
  split at hif
  · rename_i hall
    simp only [Option.some.injEq] at hif
    subst hif
    refine ⟨by simp, ?_⟩
    intro p hp hne
    have := List.all_eq_true.mp hall p hp
    simp [hne] at this
  · cases hif

example : (faces { d := 2, v := [0, 0], parts := [[0], [1], [2]] } 1).length = 3 := by decide
example : (orderedPartitions 2 1).length = 3 := by decide

end C20
