import GudhiVerif.Model.Collapse
import GudhiVerif.Dom
/-! # C12 — edge collapse: what is proved about the model of `process_edges`

* `DomProto.dom_spec` (design round): the merge loop of `is_dominated_by` decides `N(e) ⊆ N[c]` at the given time.
* `loop_time_mono`: inside the sweep of one edge the time only moves forward (the later common neighbours all lie
  strictly after the current time, and the push loop jumps to the earliest of them).
* `processEdge_emits`: an edge is emitted at most once, with its own end points and a time not below its input time.
* `sweep_sublist` / `sweep_time_ge`: the output of `process_edges` is, pair for pair, a sublist of the input edge list
  and every returned value is at least the input value of that edge.

Persistence preservation itself (Glisse–Pritam) is not proved here; see DESIGN.md §5 C12 — it is evaluated on every
explored graph by the oracle. -/
namespace C12
open CollapseModel

theorem minTime_mem : ∀ (l : List (Int × Nat)) (t : Int), minTime l = some t → ∃ p ∈ l, p.1 = t := by
  intro l
  induction l with
  | nil => intro t h; simp [minTime] at h
  | cons p ps ih =>
    intro t h
    simp only [minTime] at h
    cases hm : minTime ps with
    | none => rw [hm] at h; simp at h; exact ⟨p, List.mem_cons_self .., h⟩
    | some m =>
      rw [hm] at h; simp only [Option.some.injEq] at h
      obtain ⟨q, hq, hq1⟩ := ih m hm
      by_cases hle : p.1 ≤ m
      · exact ⟨p, List.mem_cons_self .., by omega⟩
      · exact ⟨q, List.mem_cons_of_mem _ hq, by omega⟩

/-- the invariant of the sweep of one edge: every later common neighbour appears strictly after the current time -/
def Inv (s : St) : Prop := ∀ p ∈ s.later, s.time < p.1

theorem pushOnce_spec (g : Graph) (c : Nat) (s s' : St) (b : Bool) (hinv : Inv s) (h : pushOnce g c s = some (s', b)) :
    s.time < s'.time ∧ Inv s' := by
  unfold pushOnce at h
  cases hm : minTime s.later with
  | none => rw [hm] at h; simp at h
  | some t1 =>
    rw [hm] at h
    simp only [Option.some.injEq, Prod.mk.injEq] at h
    obtain ⟨hs, _⟩ := h
    subst hs
    obtain ⟨p, hp, hp1⟩ := minTime_mem _ _ hm
    refine ⟨by have := hinv p hp; simp only; omega, ?_⟩
    intro q hq
    simp only [List.mem_filter, decide_eq_true_eq] at hq
    exact hq.2

/-- **time only moves forward** during the sweep of one edge -/
theorem loop_time_mono (g : Graph) : ∀ (fuel : Nat) (dom : Option Nat) (s s' : St), Inv s →
    loop g fuel dom s = some s' → s.time ≤ s'.time := by
  intro fuel
  induction fuel with
  | zero => intro dom s s' _ h; simp only [loop, Option.some.injEq] at h; subst h; exact Int.le_refl _
  | succ fuel ih =>
    intro dom s s' hinv h
    cases dom with
    | none =>
      simp only [loop] at h
      cases hf : findDominator g s.ngb s.time with
      | none => rw [hf] at h; simp only [Option.some.injEq] at h; subst h; exact Int.le_refl _
      | some c => rw [hf] at h; exact ih (some c) s s' hinv h
    | some c =>
      simp only [loop] at h
      cases hp : pushOnce g c s with
      | none => rw [hp] at h; cases h
      | some r =>
        obtain ⟨s1, b⟩ := r
        rw [hp] at h
        obtain ⟨hlt, hinv1⟩ := pushOnce_spec g c s s1 b hinv hp
        cases b with
        | true => have := ih (some c) s1 s' hinv1 h; omega
        | false => have := ih none s1 s' hinv1 h; omega

theorem commonNeighbors_inv (g : Graph) (u v : Nat) (t : Int) :
    Inv { time := t, ngb := (commonNeighbors g u v t).1, later := (commonNeighbors g u v t).2 } := by
  intro p hp
  simp only [commonNeighbors, List.mem_filter, decide_eq_true_eq] at hp
  exact hp.2

/-- what one step of the sweep can emit: nothing, or the same pair with a time not below the input time -/
theorem processEdge_emits (g : Graph) (e : Edge) :
    (processEdge g e).2 = none ∨ ∃ t', (processEdge g e).2 = some (e.1, e.2.1, t') ∧ e.2.2 ≤ t' := by
  obtain ⟨u, v, t⟩ := e
  simp only [processEdge]
  generalize hl : loop g (2 * (commonNeighbors g u v t).2.length + 2) none
      { time := t, ngb := (commonNeighbors g u v t).1, later := (commonNeighbors g u v t).2 } = r
  cases r with
  | none => left; rfl
  | some s =>
    right
    have hmono := loop_time_mono g _ none _ s (commonNeighbors_inv g u v t) hl
    simp only at hmono
    by_cases hst : s.time = t
    · exact ⟨t, by simp [hst], Int.le_refl _⟩
    · exact ⟨s.time, by simp [hst], hmono⟩

def pairOf (e : Edge) : Nat × Nat := (e.1, e.2.1)

/-- **the returned edges are edges of the input, in the input order, each at most once** -/
theorem sweep_sublist : ∀ (es : List Edge) (g : Graph), ((sweep g es).map pairOf).Sublist (es.map pairOf) := by
  intro es
  induction es with
  | nil => intro g; simp [sweep]
  | cons e es ih =>
    intro g
    simp only [sweep, List.map_cons]
    rcases processEdge_emits g e with h | ⟨t', h, _⟩
    · rw [h]; exact (ih _).cons _
    · rw [h]; simp only [List.map_cons]
      exact (ih _).cons_cons _

/-- **no value is lowered**: every returned edge carries a value at least the input value of an input edge with the same
    end points -/
theorem sweep_time_ge : ∀ (es : List Edge) (g : Graph), ∀ o ∈ sweep g es, ∃ e ∈ es, pairOf e = pairOf o ∧ e.2.2 ≤ o.2.2 := by
  intro es
  induction es with
  | nil => intro g o ho; simp [sweep] at ho
  | cons e es ih =>
    intro g o ho
    simp only [sweep] at ho
    rcases processEdge_emits g e with h | ⟨t', h, hle⟩
    · rw [h] at ho
      obtain ⟨e', he', hp⟩ := ih _ o ho
      exact ⟨e', List.mem_cons_of_mem _ he', hp⟩
    · rw [h] at ho
      rcases List.mem_cons.mp ho with rfl | ho'
      · exact ⟨e, List.mem_cons_self .., rfl, hle⟩
      · obtain ⟨e', he', hp⟩ := ih _ o ho'
        exact ⟨e', List.mem_cons_of_mem _ he', hp⟩

theorem processEdges_sound (edges : List Edge) :
    ((processEdges edges).map pairOf).Sublist (edges.map pairOf) ∧
    ∀ o ∈ processEdges edges, ∃ e ∈ edges, pairOf e = pairOf o ∧ e.2.2 ≤ o.2.2 :=
  ⟨sweep_sublist edges edges, sweep_time_ge edges edges⟩

/-! non-vacuity: on the triangle with a pendant-free configuration the middle edge is delayed / removed -/
example : processEdges [(0, 1, 3), (0, 2, 2), (1, 2, 1)] = [(0, 2, 2), (1, 2, 1)] := by decide
example : processEdges [(0, 1, 1), (0, 2, 1), (1, 2, 1), (2, 3, 1), (0, 3, 1)] ≠ [] := by decide

end C12
