import GudhiVerif.Vine3
import GudhiVerif.RepCycle
import GudhiVerif.ChainRun
import GudhiVerif.ChainStep
import GudhiVerif.CamStep
import GudhiVerif.Bridge
import GudhiVerif.BridgeP
import GudhiVerif.Model.Pers
/-! # C06 — see props/C06.py for the list of audited theorems and the named partial gap.

C06: every leaf of the RU vine swap (`vine_swap_only`, `vine_transpose`, `vine_NN_lt`, `vine_NN_gt`, `vine_NP`,
`vine_PP_collision`, with `Fact3.addTo/conj/zeroEntry` and `reduced_conjSwap_gen`) maps a reduced factorisation
`D = R·U` of the filtration to a reduced factorisation of the filtration with the two cells exchanged; by `cert_unique`
its barcode is the barcode of a fresh build.  C08: from any certificate, column j of `V` is a cycle when `R_j = 0`
(`rep_is_cycle`), its youngest cell is j (`rep_youngest`), and it becomes a boundary exactly at the column whose lowest
entry is j (`rep_dies`); `chain_cert` gives the same for the chain flavour. -/
namespace C06
theorem driver_uses_reference (p : Nat) (D : List AxpyProto.Col) :
    PersModel.indexPairs p D = ReducePProto.pairs (ReducePProto.reduceAll p D.length D) := rfl
end C06
