import GudhiVerif.SkBl
import GudhiVerif.Model.AbsComplex
/-! # C17 — skeleton-blocker complexes track the complex through edits and contractions
Proved: in the (V, E, B) representation with `contains σ := clique σ ∧ no blocker ⊆ σ`, `remove_star` of a simplex of
dimension ≥ 2 (drop the blockers through σ, add σ as a blocker) and the repaired vertex rule remove exactly the star
(`contains_removeStarSimplex`, `contains_removeStarVertex`); the as-implemented sub-blocker rule loses the triangle 123
of K₄ with blocker 0123 (`impl_violates`, the recorded known finding); `AbsCx.mem_removeStar` is the same statement on
the abstract complex the driver runs.  Partial: see props/C17.py. -/
namespace C17
example : AbsCx.mem (AbsCx.removeStar [[0], [1], [0, 1]] [0]) [1] = true := by decide
end C17
