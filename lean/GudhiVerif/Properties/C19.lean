import GudhiVerif.Model.SparseRips
import GudhiVerif.Sparse
import Mathlib.Tactic.Linarith
/-! # C19 — sparse Rips: the edge rule

`Sparse.lean` (design round) proves over any ordered field that an edge kept by `compute_sparse_graph` gets a value
`α ≥ d` and satisfies the sparsity condition.  Here the same facts for the integer model run by `gvdriver C19`
(ε = a/b, comparisons multiplied through by the denominators), plus the shape of the sparse graph:

* `edgeAlpha_ge_dist` — a kept edge never appears before its length (so the sparse complex is a filtered subcomplex
  of the Rips complex: every simplex value is a maximum of edge values ≥ the Rips values);
* `edgeAlpha_le_maxi` — no edge beyond the upper bound;
* `sparseGraph_edges_ge` — every edge of the model graph joins two kept points and carries a value ≥ their distance;
* `kept_le` / `sparseGraph_vertices` — the vertices are a prefix of the farthest-point order.

The interleaving with the full Rips filtration is not proved (DESIGN.md §5 C19); it is measured on every explored input. -/
namespace C19
open SparseRips

theorem alphaRaw_ge_dist (c : Cfg) (ha : 0 < c.a) (d : Int) (li : Option Int) (lj α : Int)
    (h : alphaRaw c d li lj = some α) : d ≤ α := by
  have haI : (0 : Int) < (c.a : Int) := by exact_mod_cast ha
  unfold alphaRaw at h
  by_cases h1 : isNear c d lj = true
  · rw [if_pos h1] at h; simp only [Option.some.injEq] at h; omega
  · rw [if_neg h1] at h
    by_cases h2 : tooFar c d li lj = true
    · rw [if_pos h2] at h; cases h
    · rw [if_neg h2] at h
      by_cases h3 : diesFirst c (alphaFar c d lj) lj = true
      · rw [if_pos h3] at h; cases h
      · rw [if_neg h3] at h
        simp only [Option.some.injEq] at h
        subst h
        simp only [isNear, decide_eq_true_eq, not_le] at h1
        unfold alphaFar
        apply Int.le_ediv_of_mul_le haI
        nlinarith

theorem edgeAlpha_ge_dist (c : Cfg) (ha : 0 < c.a) (d : Int) (li : Option Int) (lj α : Int)
    (h : SparseRips.edgeAlpha c d li lj = some α) : d ≤ α := by
  unfold SparseRips.edgeAlpha at h
  obtain ⟨h1, _⟩ := Option.filter_eq_some_iff.mp h
  exact alphaRaw_ge_dist c ha d li lj α h1

theorem edgeAlpha_le_maxi (c : Cfg) (d : Int) (li : Option Int) (lj α m : Int) (hm : c.maxi = some m)
    (h : SparseRips.edgeAlpha c d li lj = some α) : α ≤ m := by
  unfold SparseRips.edgeAlpha at h
  obtain ⟨_, h2⟩ := Option.filter_eq_some_iff.mp h
  simpa [underMaxi, hm] using h2

theorem keptGo_le (c : Cfg) : ∀ (ps : List (Option Int)) (i : Nat), keptGo c i ps ≤ i + ps.length := by
  intro ps
  induction ps with
  | nil => intro i; simp [keptGo]
  | cons p ps ih =>
    intro i
    unfold keptGo
    by_cases hs : stops c i p = true
    · rw [if_pos hs]; simp
    · rw [if_neg hs]; have := ih (i + 1); simp only [List.length_cons]; omega

theorem kept_le (c : Cfg) (params : List (Option Int)) : kept c params ≤ params.length := by
  have := keptGo_le c params 0
  simpa [kept] using this

theorem sparseGraph_vertices (c : Cfg) (dist : Nat → Nat → Int) (order : List Nat) (params : List (Option Int)) :
    (sparseGraph c dist order params).1 = order.take (kept c params) := rfl

/-- every edge of the sparse graph joins two kept points of the order and is not earlier than their distance -/
theorem sparseGraph_edges_ge (c : Cfg) (ha : 0 < c.a) (dist : Nat → Nat → Int) (order : List Nat) (params : List (Option Int)) :
    ∀ e ∈ (sparseGraph c dist order params).2, ∃ i j, i < j ∧ j < kept c params ∧
      e.1 = order.getD i 0 ∧ e.2.1 = order.getD j 0 ∧ dist e.1 e.2.1 ≤ e.2.2 := by
  intro e he
  simp only [sparseGraph, List.mem_flatMap, List.mem_range, List.mem_filterMap, List.mem_filter, decide_eq_true_eq] at he
  obtain ⟨i, _, j, ⟨hj, hij⟩, hmatch⟩ := he
  refine ⟨i, j, hij, hj, ?_⟩
  cases hp : params.getD j none with
  | none => rw [hp] at hmatch; cases hmatch
  | some lj =>
    rw [hp] at hmatch
    simp only [Option.map_eq_some_iff] at hmatch
    obtain ⟨al, hal, rfl⟩ := hmatch
    exact ⟨rfl, rfl, edgeAlpha_ge_dist c ha _ _ _ _ hal⟩

example : SparseRips.edgeAlpha { a := 1, b := 2 } 7 (some 1) 1 = none := by decide
example : SparseRips.edgeAlpha { a := 1, b := 2 } 5 (some 2) 1 = some 6 := by decide
example : SparseRips.edgeAlpha { a := 1, b := 2 } 3 none 1 = some 3 := by decide

end C19
