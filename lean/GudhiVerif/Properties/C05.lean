import GudhiVerif.Bridge
import GudhiVerif.BridgeP
import GudhiVerif.ChainRun
import GudhiVerif.ChainStep
import GudhiVerif.Model.Pers
/-! # C05 — every persistence-matrix flavour computes the same, correct barcode

Proved (Mathlib matrices over an arbitrary field / `ZMod p`):
* `cert_unique` — the pairing of a reduced factorisation `R = D·V` does not depend on the factorisation;
* `Fact3.colop` — a left-to-right column operation on `R` and `V` preserves `R = D·V`, triangularity and the diagonal;
* `InPlace.reduceAll_cert`, `BridgeP.reduceAllP_cert` and the `any_cert_agrees_with_reference*` corollaries — the executable
  reference reduction (`gvdriver PM`, Z₂ and every prime p) is such a certificate and fixes the barcode of every other
  one — in particular of the `R`/`U` exposed by the RU flavour and of the reduced `R` of the boundary flavour;
* `chain_cert`, `chain_creator`, `chain_destroyer`, `chain_final`, `cycle_pivot_not_in_H` — the compatible-basis
  invariants of the chain flavour are re-established by an insertion and make `(D·C, C)` a certificate, so the chain
  barcode is the same barcode.

**Partial** (`C05_model_partial`): the individual C++ classes are not modelled; each instantiation is compared with the
reference barcode of the *current* filtration after every operation, and the harness evaluates the identities of the
property (R reduced, B = R·U resp. R = B·V, pivots, chain columns) on the real columns. -/
namespace C05

/-- the executable position-level barcode of the driver is the reference reduction -/
theorem driver_uses_reference (p : Nat) (D : List AxpyProto.Col) :
    PersModel.indexPairs p D = ReducePProto.pairs (ReducePProto.reduceAll p D.length D) := rfl

end C05
