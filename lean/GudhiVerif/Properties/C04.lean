import GudhiVerif.ExpandVal
/-! # C04 — flag expansions build exactly the clique complex
`ExpandProto.expand` is the recursion of `expansion` / `siblings_expansion` / `create_expansion` / `intersection` on
sorted sibling lists.  Proved: `expand_words` (below a sibling list with remaining depth k it creates exactly the
non-empty increasing pairwise-adjacent words of length ≤ k+1, i.e. the cliques), `expand_values_clique` (every created
simplex carries the maximum of the values of its vertices and edges), with `mem_labels_inter`, `inc_inter`,
`valOf_inter`, `cliqueVal_rec`.  The blocker route, the incremental route and the Rips builders are executable
specifications of the driver (partial, see props/C04.py). -/
namespace C04
open ExpandProto
example : valOf [(1, 0), (3, 1)] 3 = some 1 := by decide
end C04
