import GudhiVerif.Model.SerBytes
/-! # C15 — serialisation at byte level

`SerBytes.serB` is `rec_serialize` written over bytes (little-endian vertex-sized tokens of `wv` bytes, filtration values
of `wf` bytes through an abstract injective codec), `SerBytes.deserialize` is the bounds-checked `deserialize`.  Proved
here for every forest whose labels and member counts fit in `wv` bytes:

* `serB_length`      — the number of bytes written is `get_serialization_size` = `wv·(2N+1) + wf·N`;
* `deserialize_serB` — reading the buffer back rebuilds the same tree, consuming it exactly;
* `deserialize_truncated` / `deserialize_extended` — any strictly shorter prefix and any extension by extra bytes is refused
  (and, by construction of `readV`/`readF`, no token is read unless all its bytes are inside the buffer).

The copy / move part of C15 is the identity in a model with immutable values (see DESIGN.md §5 C15): it is tied to the
code by the correspondence check only. -/
namespace C15
open TrieProto TrieProto.Forest SerProto BytesProto SerBytes

/-- what is assumed of the filtration-value codec (IEEE encodings of the integer values used, in the driver) -/
structure Codec.Ok (c : Codec) (good : Int → Prop) : Prop where
  wv_pos : 0 < c.wv
  flen : ∀ x, (c.fenc x).length = c.wf
  /-- `good`: the values the codec represents exactly (for `double`: the integers of absolute value at most 2^53) -/
  fround : ∀ x, good x → c.fdec (c.fenc x) = x

/-- all labels and member counts of the forest fit in `wv` bytes, all values are represented exactly -/
def Fits (c : Codec) (good : Int → Prop) : Forest → Prop
  | nil => True
  | cons l x k r => (l < 256 ^ c.wv ∧ good x) ∧ len k < 256 ^ c.wv ∧ Fits c good k ∧ Fits c good r

/-! ### sizes -/

theorem membersB_length {c : Codec} {good : Int → Prop} (h : Codec.Ok c good) (t : Forest) : (membersB c t).length = (c.wv + c.wf) * len t := by
  induction t with
  | nil => simp [membersB, len]
  | cons l x k r _ ihr =>
    simp only [membersB, List.length_append, toBytes_length, h.flen, ihr, len, Nat.mul_add, Nat.mul_one]
    omega

theorem kidsB_length' {c : Codec} {good : Int → Prop} (h : Codec.Ok c good) (t : Forest) :
    (kidsB c t).length + (c.wv + c.wf) * len t = c.wv * (2 * size t) + c.wf * size t := by
  induction t with
  | nil => simp [kidsB, len, size]
  | cons l x k r ihk ihr =>
    simp only [kidsB, List.length_append, toBytes_length, membersB_length h, len, size]
    simp only [Nat.mul_add, Nat.add_mul, Nat.mul_one] at *
    omega

/-- **size formula**: the bytes written are `get_serialization_size()` -/
theorem serB_length {c : Codec} {good : Int → Prop} (h : Codec.Ok c good) (t : Forest) :
    (serB c t).length = c.wv * (2 * size t + 1) + c.wf * size t := by
  have := kidsB_length' h t
  simp only [serB, List.length_append, toBytes_length, membersB_length h]
  simp only [Nat.mul_add, Nat.add_mul, Nat.mul_one] at *
  omega

/-! ### reading back what was written -/

theorem take_len_append {l : List Nat} {w : Nat} (hl : l.length = w) (rest : List Nat) : (l ++ rest).take w = l := by
  subst hl; simp
theorem drop_len_append {l : List Nat} {w : Nat} (hl : l.length = w) (rest : List Nat) : (l ++ rest).drop w = rest := by
  subst hl; simp

theorem readV_toBytes (c : Codec) (n : Nat) (hn : n < 256 ^ c.wv) (rest : List Nat) :
    readV c (toBytes c.wv n ++ rest) = some (n, rest) := by
  have hl := toBytes_length c.wv n
  unfold readV
  rw [if_neg (by simp [hl]), take_len_append hl, drop_len_append hl, fromBytes_toBytes _ _ hn]

theorem readF_fenc {c : Codec} {good : Int → Prop} (h : Codec.Ok c good) (x : Int) (hx : good x) (rest : List Nat) :
    readF c (c.fenc x ++ rest) = some (x, rest) := by
  have hl := h.flen x
  unfold readF
  rw [if_neg (by simp [hl]), take_len_append hl, drop_len_append hl, h.fround x hx]

/-- the labels of one sibling list fit -/
def FitsL (c : Codec) (good : Int → Prop) : Forest → Prop
  | nil => True
  | cons l x _ r => (l < 256 ^ c.wv ∧ good x) ∧ FitsL c good r

theorem Fits.fitsL {c : Codec} {good : Int → Prop} : ∀ {t : Forest}, Fits c good t → FitsL c good t
  | nil, _ => trivial
  | cons _ _ _ _, hh => ⟨hh.1, Fits.fitsL hh.2.2.2⟩

theorem readMembersB_membersB {c : Codec} {good : Int → Prop} (h : Codec.Ok c good) (t : Forest) (ht : FitsL c good t) (rest : List Nat) :
    readMembersB c (len t) (membersB c t ++ rest) = some (memList t, rest) := by
  induction t with
  | nil => simp [len, membersB, memList, readMembersB]
  | cons l x k r _ ihr =>
    simp only [len, membersB, memList, readMembersB, List.append_assoc]
    rw [readV_toBytes c l ht.1.1]
    simp only [Option.bind_some]
    rw [readF_fenc h x ht.1.2]
    simp only [Option.bind_some]
    rw [ihr ht.2]
    simp

theorem desKidsB_kidsB {c : Codec} {good : Int → Prop} (h : Codec.Ok c good) (t : Forest) : ∀ (fuel : Nat) (rest : List Nat), Fits c good t → depth t ≤ fuel →
    desKidsB c fuel (memList t) (kidsB c t ++ rest) = some (t, rest) := by
  induction t with
  | nil => intro fuel rest _ _; simp [memList, kidsB, desKidsB]
  | cons l x k r ihk ihr =>
    intro fuel rest hf hd
    simp only [depth] at hd
    obtain ⟨f, rfl⟩ : ∃ f, fuel = f + 1 := ⟨fuel - 1, by omega⟩
    have hk : depth k ≤ f := by omega
    have hr : depth r ≤ f + 1 := by omega
    obtain ⟨_, hlk, hfk, hfr⟩ := hf
    have e : kidsB c (cons l x k r) ++ rest = toBytes c.wv (len k) ++ (membersB c k ++ (kidsB c k ++ (kidsB c r ++ rest))) := by
      simp [kidsB, List.append_assoc]
    rw [memList, e, desKidsB, readV_toBytes c (len k) hlk]
    simp only [Option.bind_some]
    by_cases hz : len k = 0
    · have hkn := len_eq_zero hz
      subst hkn
      simp [len, membersB, kidsB, ihr (f + 1) rest hfr hr]
    · rw [if_neg hz, readMembersB_membersB h k hfk.fitsL]
      simp only [Option.bind_some]
      rw [ihk f _ hfk hk]
      simp only [Option.bind_some]
      rw [ihr (f + 1) rest hfr hr]
      simp

/-- **round trip with any continuation**: the reader rebuilds the tree and stops exactly after its bytes -/
theorem deserFuel_serB {c : Codec} {good : Int → Prop} (h : Codec.Ok c good) (t : Forest) (ht : Fits c good t) (hl : len t < 256 ^ c.wv)
    (fuel : Nat) (hd : depth t ≤ fuel) (rest : List Nat) :
    deserFuel c fuel (serB c t ++ rest) = some (t, rest) := by
  unfold deserFuel serB
  rw [List.append_assoc, readV_toBytes c (len t) hl]
  simp only [Option.bind_some]
  rw [List.append_assoc, readMembersB_membersB h t ht.fitsL]
  simp only [Option.bind_some]
  exact desKidsB_kidsB h t fuel rest ht hd

theorem depth_le_serB_length {c : Codec} {good : Int → Prop} (h : Codec.Ok c good) (t : Forest) : depth t ≤ (serB c t).length := by
  have h1 := depth_le_size t
  have h2 := serB_length h t
  have h3 : 1 * (2 * size t + 1) ≤ c.wv * (2 * size t + 1) := Nat.mul_le_mul_right _ h.wv_pos
  omega

/-- **round trip**: `deserialize (serialize t) = t` -/
theorem deserialize_serB {c : Codec} {good : Int → Prop} (h : Codec.Ok c good) (t : Forest) (ht : Fits c good t) (hl : len t < 256 ^ c.wv) :
    deserialize c (serB c t) = some t := by
  have := deserFuel_serB h t ht hl ((serB c t).length + 1) (by have := depth_le_serB_length h t; omega) []
  simp only [List.append_nil] at this
  simp [deserialize, this]

/-! ### the reader only depends on the bytes it consumes -/

theorem readV_append {c : Codec} {b r : List Nat} {n : Nat} (h : readV c b = some (n, r)) (e : List Nat) :
    readV c (b ++ e) = some (n, r ++ e) := by
  unfold readV at h ⊢
  split at h
  · cases h
  · rename_i hlen
    simp only [Option.some.injEq, Prod.mk.injEq] at h
    rw [if_neg (by simp; omega), List.take_append_of_le_length (by omega), List.drop_append_of_le_length (by omega), h.1, h.2]

theorem readF_append {c : Codec} {b r : List Nat} {x : Int} (h : readF c b = some (x, r)) (e : List Nat) :
    readF c (b ++ e) = some (x, r ++ e) := by
  unfold readF at h ⊢
  split at h
  · cases h
  · rename_i hlen
    simp only [Option.some.injEq, Prod.mk.injEq] at h
    rw [if_neg (by simp; omega), List.take_append_of_le_length (by omega), List.drop_append_of_le_length (by omega), h.1, h.2]

theorem readMembersB_append {c : Codec} (e : List Nat) : ∀ (n : Nat) {b r : List Nat} {ms : List (Nat × Int)},
    readMembersB c n b = some (ms, r) → readMembersB c n (b ++ e) = some (ms, r ++ e) := by
  intro n
  induction n with
  | zero => intro b r ms h; simp only [readMembersB, Option.some.injEq, Prod.mk.injEq] at h ⊢; exact ⟨h.1, by rw [h.2]⟩
  | succ n ih =>
    intro b r ms h
    simp only [readMembersB] at h ⊢
    cases hv : readV c b with
    | none => simp [hv] at h
    | some v =>
      obtain ⟨v1, v2⟩ := v
      rw [hv] at h; simp only [Option.bind_some] at h
      rw [readV_append hv e]; simp only [Option.bind_some]
      cases hf : readF c v2 with
      | none => simp [hf] at h
      | some f =>
        obtain ⟨f1, f2⟩ := f
        rw [hf] at h; simp only [Option.bind_some] at h
        rw [readF_append hf e]; simp only [Option.bind_some]
        cases hm : readMembersB c n f2 with
        | none => simp [hm] at h
        | some m =>
          obtain ⟨m1, m2⟩ := m
          rw [hm] at h; simp only [Option.bind_some, Option.some.injEq, Prod.mk.injEq] at h
          rw [ih hm]; simp only [Option.bind_some, Option.some.injEq, Prod.mk.injEq]
          exact ⟨h.1, by rw [h.2]⟩

/-- extension of the buffer and of the fuel does not change what the second loop returns -/
theorem desKidsB_append_mono {c : Codec} (e : List Nat) : ∀ (fuel : Nat) (ms : List (Nat × Int)) {b r : List Nat} {t : Forest} (fuel' : Nat),
    fuel ≤ fuel' → desKidsB c fuel ms b = some (t, r) → desKidsB c fuel' ms (b ++ e) = some (t, r ++ e) := by
  intro fuel
  induction fuel using Nat.strongRecOn with
  | _ fuel ihf =>
    intro ms
    induction ms with
    | nil =>
      intro b r t fuel' _ h
      rw [desKidsB] at h ⊢
      simp only [Option.some.injEq, Prod.mk.injEq] at h ⊢
      exact ⟨h.1, by rw [h.2]⟩
    | cons m ms ihm =>
      intro b r t fuel' hle h
      obtain ⟨l, x⟩ := m
      cases fuel with
      | zero => rw [desKidsB] at h; cases h
      | succ f =>
        obtain ⟨f', rfl⟩ : ∃ f', fuel' = f' + 1 := ⟨fuel' - 1, by omega⟩
        rw [desKidsB] at h ⊢
        cases hv : readV c b with
        | none => simp [hv] at h
        | some cnt =>
          obtain ⟨c1, c2⟩ := cnt
          rw [hv] at h; simp only [Option.bind_some] at h
          rw [readV_append hv e]; simp only [Option.bind_some]
          -- the children
          have hch : ∀ {ch : Forest × List Nat},
              (if c1 = 0 then some (nil, c2) else (readMembersB c c1 c2).bind fun m => desKidsB c f m.1 m.2) = some ch →
              (if c1 = 0 then some (nil, c2 ++ e) else (readMembersB c c1 (c2 ++ e)).bind fun m => desKidsB c f' m.1 m.2) = some (ch.1, ch.2 ++ e) := by
            intro ch hc
            by_cases hz : c1 = 0
            · simp only [hz, if_true, Option.some.injEq] at hc ⊢
              rw [← hc]
            · simp only [hz, if_false] at hc ⊢
              cases hm : readMembersB c c1 c2 with
              | none => simp [hm] at hc
              | some mm =>
                obtain ⟨m1, m2⟩ := mm
                rw [hm] at hc; simp only [Option.bind_some] at hc
                rw [readMembersB_append e c1 hm]; simp only [Option.bind_some]
                obtain ⟨ch1, ch2⟩ := ch
                exact ihf f (by omega) m1 f' (by omega) hc
          cases hc : (if c1 = 0 then some (nil, c2) else (readMembersB c c1 c2).bind fun m => desKidsB c f m.1 m.2) with
          | none => simp [hc] at h
          | some ch =>
            rw [hc] at h; simp only [Option.bind_some] at h
            rw [hch hc]; simp only [Option.bind_some]
            cases hr : desKidsB c (f + 1) ms ch.2 with
            | none => simp [hr] at h
            | some rs =>
              obtain ⟨rs1, rs2⟩ := rs
              rw [hr] at h; simp only [Option.bind_some, Option.some.injEq, Prod.mk.injEq] at h
              rw [ihm (f' + 1) hle hr]; simp only [Option.bind_some, Option.some.injEq, Prod.mk.injEq]
              exact ⟨h.1, by rw [h.2]⟩

theorem deserFuel_append {c : Codec} {fuel fuel' : Nat} (hle : fuel ≤ fuel') {b r : List Nat} {t : Forest}
    (h : deserFuel c fuel b = some (t, r)) (e : List Nat) : deserFuel c fuel' (b ++ e) = some (t, r ++ e) := by
  unfold deserFuel at h ⊢
  cases hv : readV c b with
  | none => simp [hv] at h
  | some n =>
    obtain ⟨n1, n2⟩ := n
    rw [hv] at h; simp only [Option.bind_some] at h
    rw [readV_append hv e]; simp only [Option.bind_some]
    cases hm : readMembersB c n1 n2 with
    | none => simp [hm] at h
    | some m =>
      obtain ⟨m1, m2⟩ := m
      rw [hm] at h; simp only [Option.bind_some] at h
      rw [readMembersB_append e n1 hm]; simp only [Option.bind_some]
      exact desKidsB_append_mono e fuel m1 fuel' hle h

theorem deserFuel_fuel_mono {c : Codec} {fuel fuel' : Nat} (hle : fuel ≤ fuel') {b r : List Nat} {t : Forest}
    (h : deserFuel c fuel b = some (t, r)) : deserFuel c fuel' b = some (t, r) := by
  have := deserFuel_append hle h []
  simpa using this

/-- **a truncated buffer is refused**: no strict prefix of a serialisation is accepted -/
theorem deserialize_truncated {c : Codec} {good : Int → Prop} (h : Codec.Ok c good) (t : Forest) (ht : Fits c good t) (hl : len t < 256 ^ c.wv)
    (k : Nat) (hk : k < (serB c t).length) : deserialize c ((serB c t).take k) = none := by
  unfold deserialize
  generalize hres : deserFuel c (((serB c t).take k).length + 1) ((serB c t).take k) = res
  match res, hres with
  | none, _ => rfl
  | some (t', _ :: _), _ => rfl
  | some (t', []), hres =>
    exfalso
    -- extend the accepted prefix by the bytes that were cut off
    have hF : ((serB c t).take k).length + 1 ≤ (serB c t).length + 1 := by simp; omega
    have h1 := deserFuel_append hF hres ((serB c t).drop k)
    rw [List.take_append_drop] at h1
    have h2 := deserFuel_serB h t ht hl ((serB c t).length + 1) (by have := depth_le_serB_length h t; omega) []
    rw [List.append_nil] at h2
    rw [h2] at h1
    simp only [List.nil_append, Option.some.injEq, Prod.mk.injEq] at h1
    have : ((serB c t).drop k).length = 0 := by rw [← h1.2]; rfl
    rw [List.length_drop] at this
    omega

/-- **a buffer that is too long is refused** -/
theorem deserialize_extended {c : Codec} {good : Int → Prop} (h : Codec.Ok c good) (t : Forest) (ht : Fits c good t) (hl : len t < 256 ^ c.wv)
    (e : List Nat) (he : e ≠ []) : deserialize c (serB c t ++ e) = none := by
  have h2 := deserFuel_serB h t ht hl ((serB c t ++ e).length + 1)
    (by have := depth_le_serB_length h t; simp only [List.length_append]; omega) e
  unfold deserialize
  rw [h2]
  cases e with
  | nil => exact absurd rfl he
  | cons _ _ => rfl

/-! ### non-vacuity: a concrete codec and tree meet the hypotheses -/

def demoCodec : Codec := { wv := 2, wf := 1, fenc := fun x => [x.toNat % 256], fdec := fun b => ((b.headD 0 : Nat) : Int) }
def demoTree : Forest := cons 1 3 (cons 2 5 nil nil) (cons 4 0 nil nil)
def demoGood (x : Int) : Prop := 0 ≤ x ∧ x < 256
theorem demoOk : Codec.Ok demoCodec demoGood :=
  { wv_pos := by decide, flen := fun _ => rfl,
    fround := fun x hx => by simp only [demoCodec, demoGood, List.headD_cons] at *; omega }

theorem demo_fits : Fits demoCodec demoGood demoTree ∧ len demoTree < 256 ^ demoCodec.wv := by
  simp [Fits, demoTree, demoCodec, demoGood, len]
example : serB demoCodec demoTree = [2, 0, 1, 0, 3, 4, 0, 0, 1, 0, 2, 0, 5, 0, 0, 0, 0] := by decide
example : deserialize demoCodec (serB demoCodec demoTree) = some demoTree :=
  deserialize_serB demoOk demoTree demo_fits.1 demo_fits.2
example : deserialize demoCodec ((serB demoCodec demoTree).take 16) = none :=
  deserialize_truncated demoOk demoTree demo_fits.1 demo_fits.2 16 (by decide)
example : deserialize demoCodec (serB demoCodec demoTree ++ [0]) = none :=
  deserialize_extended demoOk demoTree demo_fits.1 demo_fits.2 [0] (by simp)

end C15
