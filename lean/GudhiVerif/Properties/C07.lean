import GudhiVerif.Model.ZigzagSpec
import GudhiVerif.Properties.C05
/-! # C07 — zigzag persistence: the specification run by `gvdriver C07`

`ZigzagSpec.intervals` is the definition-level decomposition (ranks of `lim → colim` over Z₂, inclusion–exclusion).
Proved here: its output is well-formed — one complex per arrow, every interval is born at an arrow of the history and
dies at a later arrow of the history (or is still open).  For insertion-only histories the engine is the chain matrix
of C05, for which `chain_cert` / `chain_final` / `cert_unique` (imported) prove that the unique ordinary pairing is
returned; the oracle evaluates that clause on every insertion-only history.  The reflection-diamond algorithm itself
and the classical fact that the rank formula is the interval decomposition are not proved (DESIGN.md §5 C07). -/
namespace C07
open ZigzagSpec

theorem complexes_length (ops : List Op) : (complexes ops).length = ops.length := by
  unfold complexes
  have key : ∀ (l : List Op) (acc : List Simplex × List (List Simplex)),
      (l.foldl (fun (acc : List Simplex × List (List Simplex)) op =>
        let k := match op with
          | .ins s => acc.1 ++ [s]
          | .rm s => acc.1.filter (· != s)
          | .idle => acc.1
        (k, acc.2 ++ [k])) acc).2.length = acc.2.length + l.length := by
    intro l
    induction l with
    | nil => intro acc; simp
    | cons op l ih =>
      intro acc
      simp only [List.foldl_cons, List.length_cons]
      rw [ih]
      simp only [List.length_append, List.length_singleton]
      omega
  have := key ops ([], [])
  simp only [List.length_nil, Nat.zero_add] at this
  exact this

/-- every interval of the specification is born at an arrow of the history and, if closed, dies at a later one -/
theorem intervalsDim_wellformed (ops : List Op) (p : Nat) :
    ∀ iv ∈ intervalsDim ops p, iv.1 < ops.length ∧ (∀ d, iv.2 = some d → iv.1 < d ∧ d < ops.length) := by
  intro iv hiv
  unfold intervalsDim at hiv
  simp only [List.mem_flatMap, List.mem_range] at hiv
  obtain ⟨s, hs, t, ht, hmem⟩ := hiv
  by_cases hts : t < s
  · simp [hts] at hmem
  · simp only [hts, if_false] at hmem
    have := List.eq_of_mem_replicate hmem
    subst this
    refine ⟨hs, ?_⟩
    intro d hd
    by_cases hlast : (t == ops.length - 1) = true
    · simp [hlast] at hd
    · simp only [hlast] at hd
      simp only [Bool.false_eq_true, if_false, Option.some.injEq] at hd
      simp only [beq_iff_eq] at hlast
      omega

theorem intervals_wellformed (ops : List Op) :
    ∀ iv ∈ intervals ops, iv.2.1 < ops.length ∧ (∀ d, iv.2.2 = some d → iv.2.1 < d ∧ d < ops.length) := by
  intro iv hiv
  unfold intervals at hiv
  simp only [List.mem_flatMap, List.mem_range, List.mem_map] at hiv
  obtain ⟨p, _, bd, hbd, rfl⟩ := hiv
  exact intervalsDim_wellformed ops p bd hbd

end C07
