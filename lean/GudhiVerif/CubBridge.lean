import GudhiVerif.Cubical
import GudhiVerif.Model.Cubical
import Mathlib.Tactic.Ring
import Mathlib.Data.List.Nodup
/-! # C13 — the executable flat-position model is the counter-level boundary

`CubModel.Shape.boundary` (what `gvdriver C13` runs against `Bitmap_cubical_complex_base::get_boundary_of_a_cell`) works on
flat positions and multipliers, `CubicalProto.bdEnum` on counters.  This file proves that, for a complex without periodic
directions, the flat list is the image of the counter-level enumeration under `c ↦ Σ cᵢ·multᵢ`, that this map sends the
counter of a position back to the position, and that every listed face is a valid position whose counter is the modified
counter.  With `enum_eq_bd` and `bd_bd` this closes the gap recorded as `C13_partial` for the plain class. -/
namespace CubBridge
open CubModel CubicalProto

/-- `Σ aᵢ·wᵢ` -/
def dot : List Nat → List Nat → Nat
  | a :: as, w :: ws => a * w + dot as ws
  | _, _ => 0

theorem dot_append (a b w v : List Nat) (h : a.length = w.length) :
    dot (a ++ b) (w ++ v) = dot a w + dot b v := by
  induction a generalizing w with
  | nil =>
    cases w with
    | nil => simp [dot]
    | cons _ _ => simp at h
  | cons x a ih =>
    cases w with
    | nil => simp at h
    | cons y w =>
      have := ih w (by simpa using h)
      simp only [List.cons_append, dot, this]
      omega

theorem dot_map (l : List Nat) (f g : Nat → Nat) :
    dot (l.map f) (l.map g) = (l.map fun i => f i * g i).sum := by
  induction l with
  | nil => rfl
  | cons x l ih => simp [dot, ih]

theorem dot_mid (pre w1 r w2 : List Nat) (y m : Nat) (h : pre.length = w1.length) :
    dot (pre ++ y :: r) (w1 ++ m :: w2) = dot pre w1 + y * m + dot r w2 := by
  rw [dot_append _ _ _ _ h]; simp only [dot]; omega

/-- one direction of the loop of `get_boundary_of_a_cell` in a complex without periodic directions -/
def stepPlain (pos : Nat) (dg mu : Nat → Nat) (acc : List Nat × Nat) (i : Nat) : List Nat × Nat :=
  if dg i % 2 = 1 then
    (acc.1 ++ (if acc.2 % 2 = 1 then [pos + mu i, pos - mu i] else [pos - mu i, pos + mu i]), acc.2 + 1)
  else acc

theorem fold_eq (pos : Nat) (dg mu : Nat → Nat) :
    ∀ (ds hi : List Nat) (acc : List Nat) (cnt : Nat),
      dot ((hi ++ ds).map dg) ((hi ++ ds).map mu) = pos →
      (ds.foldl (stepPlain pos dg mu) (acc, cnt)).1 =
        acc ++ (bdEnum (hi.map dg) cnt (ds.map dg)).map (fun c => dot c ((hi ++ ds).map mu)) := by
  intro ds
  induction ds with
  | nil => intro hi acc cnt _; simp [bdEnum]
  | cons i rest ih =>
    intro hi acc cnt hP
    have hassoc : hi ++ i :: rest = (hi ++ [i]) ++ rest := by simp
    have hP' : dot (((hi ++ [i]) ++ rest).map dg) (((hi ++ [i]) ++ rest).map mu) = pos := by rw [← hassoc]; exact hP
    have hsplit : pos = dot (hi.map dg) (hi.map mu) + dg i * mu i + dot (rest.map dg) (rest.map mu) := by
      rw [← hP]; simp only [List.map_append, List.map_cons]; rw [dot_mid _ _ _ _ _ _ (by simp)]
    have hface : ∀ y, dot (hi.map dg ++ y :: rest.map dg) (hi.map mu ++ mu i :: rest.map mu) =
        dot (hi.map dg) (hi.map mu) + y * mu i + dot (rest.map dg) (rest.map mu) := by
      intro y; rw [dot_mid _ _ _ _ _ _ (by simp)]
    simp only [List.foldl_cons, List.map_cons]
    rw [bdEnum]
    by_cases hx : dg i % 2 = 1
    · obtain ⟨y, hy⟩ : ∃ y, dg i = y + 1 := ⟨dg i - 1, by omega⟩
      have hlo : dot (hi.map dg ++ (dg i - 1) :: rest.map dg) (hi.map mu ++ mu i :: rest.map mu) = pos - mu i := by
        rw [hface, hsplit, hy]; simp only [Nat.add_sub_cancel, Nat.add_mul, Nat.one_mul]; omega
      have hhi : dot (hi.map dg ++ (dg i + 1) :: rest.map dg) (hi.map mu ++ mu i :: rest.map mu) = pos + mu i := by
        rw [hface, hsplit]; simp only [Nat.add_mul, Nat.one_mul]; omega
      have hstep : stepPlain pos dg mu (acc, cnt) i =
          (acc ++ (if cnt % 2 = 1 then [pos + mu i, pos - mu i] else [pos - mu i, pos + mu i]), cnt + 1) := by
        simp [stepPlain, hx]
      rw [hstep, ih (hi ++ [i]) _ _ hP']
      have hpre : (hi ++ [i]).map dg = hi.map dg ++ [dg i] := by simp
      simp only [hx, if_true, hpre, ← hassoc, List.map_append, List.append_assoc]
      rcases Nat.mod_two_eq_zero_or_one cnt with hc | hc
      · simp [hc, hlo, hhi]
      · simp [hc, hlo, hhi]
    · have hstep : stepPlain pos dg mu (acc, cnt) i = (acc, cnt) := by simp [stepPlain, hx]
      have h0 : dg i % 2 = 0 := by omega
      rw [hstep, ih (hi ++ [i]) _ _ hP']
      have hpre : (hi ++ [i]).map dg = hi.map dg ++ [dg i] := by simp
      simp [hpre, h0]

/-! ### multipliers and digits of a `Shape` -/

theorem radices_length (sh : Shape) : sh.radices.length = sh.dims := by simp [Shape.radices]

theorem mult_zero (sh : Shape) : sh.mult 0 = 1 := by simp [Shape.mult]

theorem mult_succ (sh : Shape) (n : Nat) (h : n < sh.dims) : sh.mult (n + 1) = sh.mult n * sh.radix n := by
  have hr : sh.radices[n]? = some (sh.radix n) := by simp [Shape.radices, h]
  simp only [Shape.mult, List.take_add_one, hr, Option.toList_some, List.foldl_append, List.foldl_cons, List.foldl_nil]

theorem total_eq (sh : Shape) : sh.total = sh.mult sh.dims := by
  simp only [Shape.total, Shape.mult]
  rw [List.take_of_length_le (by rw [radices_length])]

/-- the digits weighted by the multipliers give back the position modulo the next multiplier -/
theorem sum_digits (sh : Shape) (pos : Nat) : ∀ n, n ≤ sh.dims →
    ((List.range n).map fun i => sh.digit pos i * sh.mult i).sum = pos % sh.mult n := by
  intro n
  induction n with
  | zero => intro _; simp [mult_zero, Nat.mod_one]
  | succ n ih =>
    intro h
    rw [List.range_succ, List.map_append, List.sum_append, ih (by omega), mult_succ sh n (by omega), Nat.mod_mul]
    simp [Shape.digit, Nat.mul_comm]

theorem dirsDown_dot (sh : Shape) (f : Nat → Nat) :
    dot (sh.dirsDown.map f) (sh.dirsDown.map sh.mult) = ((List.range sh.dims).map fun i => f i * sh.mult i).sum := by
  rw [dot_map, Shape.dirsDown, List.map_reverse, List.sum_reverse]

/-- **position of the counter**: `Σ digitᵢ·multᵢ = pos` for every position of the bitmap -/
theorem dot_counter (sh : Shape) (pos : Nat) (hpos : pos < sh.total) :
    dot (sh.dirsDown.map (sh.digit pos)) (sh.dirsDown.map sh.mult) = pos := by
  rw [dirsDown_dot, sum_digits sh pos sh.dims (Nat.le_refl _), ← total_eq, Nat.mod_eq_of_lt hpos]

/-- **the flat boundary is the image of the counter-level enumeration** (complex without periodic directions) -/
theorem boundary_eq_enum (sh : Shape) (hper : ∀ i, sh.isPer i = false) (pos : Nat) (hpos : pos < sh.total) :
    sh.boundary false pos =
      (bdEnum [] 0 (sh.dirsDown.map (sh.digit pos))).map (fun c => dot c (sh.dirsDown.map sh.mult)) := by
  have hstep : ∀ (acc : List Nat × Nat) (i : Nat),
      (let d := sh.digit pos i
       if d % 2 = 1 then
         let m := sh.mult i
         let lo := pos - m
         let hi := if sh.isPer i && d == 2 * sh.size i - 1 then pos - (2 * sh.size i - 1) * m else pos + m
         let odd := acc.2 % 2 = 1
         let pair := if false then (if odd then [lo, hi] else [hi, lo]) else (if odd then [hi, lo] else [lo, hi])
         (acc.1 ++ pair, acc.2 + 1)
       else acc) = stepPlain pos (sh.digit pos) sh.mult acc i := by
    intro acc i
    simp [stepPlain, hper]
  have := fold_eq pos (sh.digit pos) sh.mult sh.dirsDown [] [] 0 (by simpa using dot_counter sh pos hpos)
  simp only [List.nil_append, List.map_nil] at this
  rw [← this]
  simp only [Shape.boundary]
  congr 1
  congr 1
  funext acc i
  exact hstep acc i

/-! ### positions of arbitrary valid counters -/

/-- `Σ_{i<n} fᵢ·multᵢ` -/
def S (sh : Shape) (f : Nat → Nat) (n : Nat) : Nat := ((List.range n).map fun i => f i * sh.mult i).sum

theorem S_succ (sh : Shape) (f : Nat → Nat) (n : Nat) : S sh f (n + 1) = S sh f n + f n * sh.mult n := by
  simp [S, List.range_succ]

theorem S_lt (sh : Shape) (f : Nat → Nat) (hf : ∀ j, j < sh.dims → f j < sh.radix j) :
    ∀ n, n ≤ sh.dims → S sh f n < sh.mult n
  | 0, _ => by simp [S, mult_zero]
  | n + 1, h => by
    have ih := S_lt sh f hf n (by omega)
    rw [S_succ, mult_succ sh n (by omega)]
    have h1 : f n + 1 ≤ sh.radix n := hf n (by omega)
    calc S sh f n + f n * sh.mult n < sh.mult n + f n * sh.mult n := by omega
      _ = (f n + 1) * sh.mult n := by ring
      _ ≤ sh.radix n * sh.mult n := Nat.mul_le_mul_right _ h1
      _ = sh.mult n * sh.radix n := Nat.mul_comm _ _

theorem mult_factor (sh : Shape) (i : Nat) : ∀ n, i < n → n ≤ sh.dims → ∃ K, sh.mult n = sh.mult i * sh.radix i * K := by
  intro n
  induction n with
  | zero => intro h; omega
  | succ n ih =>
    intro hin h
    by_cases e : i = n
    · subst e; exact ⟨1, by rw [mult_succ sh i (by omega)]; simp⟩
    · obtain ⟨K, hK⟩ := ih (by omega) (by omega)
      exact ⟨K * sh.radix n, by rw [mult_succ sh n (by omega), hK]; ring⟩

theorem digit_S (sh : Shape) (f : Nat → Nat) (hf : ∀ j, j < sh.dims → f j < sh.radix j) (i : Nat) (hi : i < sh.dims) :
    ∀ n, i < n → n ≤ sh.dims → S sh f n / sh.mult i % sh.radix i = f i := by
  intro n
  induction n with
  | zero => intro h; omega
  | succ n ih =>
    intro hin h
    rw [S_succ]
    have hpos : 0 < sh.mult i := by have := S_lt sh f hf i (by omega); omega
    by_cases e : i = n
    · subst e
      have hlt := S_lt sh f hf i (by omega)
      rw [Nat.add_mul_div_right _ _ hpos, Nat.div_eq_of_lt hlt, Nat.zero_add, Nat.mod_eq_of_lt (hf i hi)]
    · obtain ⟨K, hK⟩ := mult_factor sh i n (by omega) (by omega)
      have : f n * sh.mult n = sh.mult i * (sh.radix i * (K * f n)) := by rw [hK]; ring
      rw [this, Nat.add_mul_div_left _ _ hpos, Nat.add_mul_mod_self_left, ih (by omega) (by omega)]

/-- the position encoded by a cell given in the order of the C++ loops (last direction first) -/
def enc (sh : Shape) (c : List Nat) : Nat := dot c (sh.dirsDown.map sh.mult)

/-- a cell whose digits are below the radices -/
def VCell (sh : Shape) (c : List Nat) : Prop := ∃ f : Nat → Nat, (∀ j, j < sh.dims → f j < sh.radix j) ∧ c = sh.dirsDown.map f

theorem mem_dirsDown (sh : Shape) (i : Nat) : i ∈ sh.dirsDown ↔ i < sh.dims := by simp [Shape.dirsDown]

/-- **positions and valid counters are in bijection**: a valid cell encodes a position of the bitmap whose counter it is -/
theorem enc_valid (sh : Shape) (c : List Nat) (hc : VCell sh c) :
    enc sh c < sh.total ∧ sh.dirsDown.map (sh.digit (enc sh c)) = c := by
  obtain ⟨f, hf, rfl⟩ := hc
  have he : enc sh (sh.dirsDown.map f) = S sh f sh.dims := by rw [enc, dirsDown_dot]; rfl
  refine ⟨by rw [he, total_eq]; exact S_lt sh f hf _ (Nat.le_refl _), ?_⟩
  apply List.map_congr_left
  intro i hi
  rw [mem_dirsDown] at hi
  rw [he]
  exact digit_S sh f hf i hi sh.dims hi (Nat.le_refl _)

theorem enc_inj (sh : Shape) (c1 c2 : List Nat) (h1 : VCell sh c1) (h2 : VCell sh c2) (h : enc sh c1 = enc sh c2) : c1 = c2 := by
  rw [← (enc_valid sh c1 h1).2, ← (enc_valid sh c2 h2).2, h]

theorem counter_valid (sh : Shape) (hr : ∀ i, i < sh.dims → 0 < sh.radix i) (pos : Nat) :
    VCell sh (sh.dirsDown.map (sh.digit pos)) :=
  ⟨sh.digit pos, fun j hj => Nat.mod_lt _ (hr j hj), rfl⟩

/-! ### the enumerated faces are valid cells -/

def upd (f : Nat → Nat) (i v : Nat) : Nat → Nat := fun j => if j = i then v else f j

theorem map_upd_of_not_mem (f : Nat → Nat) (i v : Nat) (l : List Nat) (h : i ∉ l) : l.map (upd f i v) = l.map f := by
  apply List.map_congr_left
  intro j hj
  have : j ≠ i := fun e => h (e ▸ hj)
  simp [upd, this]

theorem enum_faces (dg : Nat → Nat) : ∀ (ds hi : List Nat) (m : Nat), (hi ++ ds).Nodup →
    ∀ c' ∈ bdEnum (hi.map dg) m (ds.map dg), ∃ i ∈ ds, dg i % 2 = 1 ∧ ∃ v, (v = dg i - 1 ∨ v = dg i + 1) ∧
      c' = (hi ++ ds).map (upd dg i v) := by
  intro ds
  induction ds with
  | nil => intro hi m _ c' hc; simp [bdEnum] at hc
  | cons i rest ih =>
    intro hi m hnd c' hc
    have hassoc : hi ++ i :: rest = (hi ++ [i]) ++ rest := by simp
    have hi1 : i ∉ hi := by
      intro h; rw [List.nodup_append] at hnd; exact hnd.2.2 i h i (by simp) rfl
    have hi2 : i ∉ rest := by
      rw [List.nodup_append] at hnd; exact (List.nodup_cons.mp hnd.2.1).1
    have hface : ∀ v, hi.map dg ++ v :: rest.map dg = (hi ++ i :: rest).map (upd dg i v) := by
      intro v
      rw [List.map_append, List.map_cons, map_upd_of_not_mem _ _ _ _ hi1, map_upd_of_not_mem _ _ _ _ hi2]
      simp [upd]
    rw [List.map_cons, bdEnum, List.mem_append] at hc
    rcases hc with hc | hc
    · by_cases hx : dg i % 2 = 1
      · refine ⟨i, by simp, hx, ?_⟩
        simp only [hx, if_true] at hc
        by_cases hm : m % 2 = 0
        · simp only [hm, if_true, List.mem_cons, List.not_mem_nil, or_false] at hc
          rcases hc with rfl | rfl
          · exact ⟨_, Or.inl rfl, hface _⟩
          · exact ⟨_, Or.inr rfl, hface _⟩
        · simp only [hm, if_false, List.mem_cons, List.not_mem_nil, or_false] at hc
          rcases hc with rfl | rfl
          · exact ⟨_, Or.inr rfl, hface _⟩
          · exact ⟨_, Or.inl rfl, hface _⟩
      · simp [hx] at hc
    · have hpre : hi.map dg ++ [dg i] = (hi ++ [i]).map dg := by simp
      rw [hpre] at hc
      obtain ⟨j, hj, hodd, v, hv, he⟩ := ih (hi ++ [i]) _ (by rw [← hassoc]; exact hnd) c' hc
      exact ⟨j, by simp [hj], hodd, v, hv, by rw [hassoc]; exact he⟩

theorem dirsDown_nodup (sh : Shape) : sh.dirsDown.Nodup := by
  rw [Shape.dirsDown, List.nodup_reverse]; exact List.nodup_range

theorem radix_plain (sh : Shape) (hper : ∀ i, sh.isPer i = false) (i : Nat) : sh.radix i = 2 * sh.size i + 1 := by
  simp [Shape.radix, hper]

/-- every face listed for a valid cell is a valid cell (no periodic direction) -/
theorem faces_valid (sh : Shape) (hper : ∀ i, sh.isPer i = false) (c : List Nat) (hc : VCell sh c) :
    ∀ c' ∈ bdEnum [] 0 c, VCell sh c' := by
  obtain ⟨f, hf, rfl⟩ := hc
  intro c' hc'
  obtain ⟨i, hi, hodd, v, hv, he⟩ := enum_faces f sh.dirsDown [] 0 (by simpa using dirsDown_nodup sh) c' (by simpa using hc')
  refine ⟨upd f i v, ?_, by simpa using he⟩
  intro j hj
  by_cases e : j = i
  · subst e
    have h1 := hf j hj
    rw [radix_plain sh hper] at h1 ⊢
    simp only [upd, if_true]
    rcases hv with rfl | rfl <;> omega
  · simp only [upd, e, if_false]; exact hf j hj

/-! ### linear functionals on chains depend only on the coefficients -/

def ev (F : Cell → Int) (A : Chain) : Int := (A.map fun p => p.2 * F p.1).sum

def dropC (c : Cell) (A : Chain) : Chain := A.filter fun p => decide (p.1 ≠ c)

theorem ev_cons (F : Cell → Int) (p : Cell × Int) (A : Chain) : ev F (p :: A) = p.2 * F p.1 + ev F A := by simp [ev]

theorem ev_append (F : Cell → Int) (A B : Chain) : ev F (A ++ B) = ev F A + ev F B := by simp [ev]

theorem ev_scale (F : Cell → Int) (s : Int) (A : Chain) : ev F (A.map fun q => (q.1, s * q.2)) = s * ev F A := by
  induction A with
  | nil => simp [ev]
  | cons p A ih => rw [List.map_cons, ev_cons, ev_cons, ih]; ring

theorem ev_split (F : Cell → Int) (c : Cell) (A : Chain) : ev F A = coef A c * F c + ev F (dropC c A) := by
  induction A with
  | nil => simp [ev, coef, dropC]
  | cons p A ih =>
    rw [ev_cons, coef_cons, ih]
    by_cases h : p.1 = c
    · have : dropC c (p :: A) = dropC c A := by simp [dropC, h]
      rw [this, if_pos h, h]; ring
    · have : dropC c (p :: A) = p :: dropC c A := by simp [dropC, h]
      rw [this, ev_cons, if_neg h]; ring

theorem coef_dropC (c : Cell) (A : Chain) (h : Cell) : coef (dropC c A) h = if h = c then 0 else coef A h := by
  induction A with
  | nil => simp [dropC, coef]
  | cons p A ih =>
    by_cases hp : p.1 = c
    · have : dropC c (p :: A) = dropC c A := by simp [dropC, hp]
      rw [this, ih, coef_cons]
      by_cases hh : h = c
      · simp [hh]
      · have : ¬ p.1 = h := fun e => hh (e ▸ hp)
        simp [hh, this]
    · have : dropC c (p :: A) = p :: dropC c A := by simp [dropC, hp]
      rw [this, coef_cons, coef_cons, ih]
      by_cases hh : h = c
      · subst hh; simp [hp]
      · simp [hh]

theorem ev_zero (F : Cell → Int) : ∀ (n : Nat) (A : Chain), A.length ≤ n → (∀ h, coef A h = 0) → ev F A = 0 := by
  intro n
  induction n with
  | zero => intro A hl _; cases A with
    | nil => rfl
    | cons _ _ => simp at hl
  | succ n ih =>
    intro A hl hz
    cases A with
    | nil => rfl
    | cons p A =>
      rw [ev_split F p.1, hz, Int.zero_mul, Int.zero_add]
      apply ih
      · have : dropC p.1 (p :: A) = dropC p.1 A := by simp [dropC]
        rw [this]
        have := List.length_filter_le (fun q : Cell × Int => decide (q.1 ≠ p.1)) A
        simp only [dropC]; simp only [List.length_cons] at hl; omega
      · intro h; rw [coef_dropC]; split <;> simp [hz]

/-- a linear functional of a chain is determined by the coefficients of the chain -/
theorem ev_congr (F : Cell → Int) (A B : Chain) (h : ∀ g, coef A g = coef B g) : ev F A = ev F B := by
  have hz : ev F (A ++ B.map fun q => (q.1, (-1 : Int) * q.2)) = 0 := by
    apply ev_zero F _ _ (Nat.le_refl _)
    intro g; rw [coef_append, coef_map_scale, h g]; ring
  rw [ev_append, ev_scale] at hz
  omega

theorem coef_bdChain_eq_ev (A : Chain) (g : Cell) : coef (bdChain A) g = ev (fun c => coef (bd c) g) A := by
  induction A with
  | nil => rfl
  | cons p A ih => rw [coef_bdChain_cons, ih, ev_cons]

theorem coef_flatMap_eq_ev (G : Cell → Chain) (A : Chain) (g : Cell) :
    coef (A.flatMap fun p => (G p.1).map fun q => (q.1, p.2 * q.2)) g = ev (fun c => coef (G c) g) A := by
  induction A with
  | nil => rfl
  | cons p A ih => rw [List.flatMap_cons, coef_append, coef_map_scale, ih, ev_cons]

/-- the signed enumeration of one cell, as a chain -/
def enumChain (c : Cell) : Chain := altSigns 0 (bdEnum [] 0 c)

theorem coef_enumChain (c h : Cell) : coef (enumChain c) h = coef (bd c) h := by
  have := enum_eq_bd c [] 0 0 rfl h
  have hp : prefixAll [] (bd c) = bd c := by simp [prefixAll]
  rw [hp] at this
  simpa [enumChain, sgn] using this

/-- the double boundary computed with the C++ enumeration at both levels -/
def cellBB (c : Cell) : Chain := (enumChain c).flatMap fun p => (enumChain p.1).map fun q => (q.1, p.2 * q.2)

/-- **∂∂ = 0 for the enumeration as the code performs it** (counter level) -/
theorem coef_cellBB (c h : Cell) : coef (cellBB c) h = 0 := by
  rw [cellBB, coef_flatMap_eq_ev]
  have : (fun c => coef (enumChain c) h) = fun c => coef (bd c) h := by funext c; exact coef_enumChain c h
  rw [this, ev_congr _ (enumChain c) (bd c) (coef_enumChain c), ← coef_bdChain_eq_ev]
  exact bd_bd c h

/-! ### the flat level: what `Shape.boundary` returns, with the signs the cells of the model carry -/

/-- signs alternate along the returned list (`CubModel.Shape.cells`: `if k % 2 = 0 then 1 else p - 1`) -/
def altN : Nat → List Nat → List (Nat × Int)
  | _, [] => []
  | k, c :: cs => (c, if k % 2 = 0 then 1 else -1) :: altN (k + 1) cs

theorem altN_map (e : Cell → Nat) : ∀ (k : Nat) (l : List Cell),
    altN k (l.map e) = (altSigns k l).map fun p => (e p.1, p.2)
  | _, [] => rfl
  | k, c :: cs => by simp [altN, altSigns, altN_map e (k + 1) cs]

theorem altSigns_fst_mem : ∀ (k : Nat) (l : List Cell) (p : Cell × Int), p ∈ altSigns k l → p.1 ∈ l
  | _, [], p, h => by simp [altSigns] at h
  | k, c :: cs, p, h => by
    simp only [altSigns, List.mem_cons] at h
    rcases h with rfl | h
    · simp
    · exact List.mem_cons_of_mem _ (altSigns_fst_mem (k + 1) cs p h)

def fcoef (ch : List (Nat × Int)) (g : Nat) : Int := (ch.map fun p => if p.1 = g then p.2 else 0).sum

/-- the signed boundary of a position, as the model (and the C++ class) lists it -/
def flatChain (sh : Shape) (pos : Nat) : List (Nat × Int) := altN 0 (sh.boundary false pos)

/-- boundary of the boundary, on flat positions -/
def flatBB (sh : Shape) (pos : Nat) : List (Nat × Int) :=
  (flatChain sh pos).flatMap fun p => (flatChain sh p.1).map fun q => (q.1, p.2 * q.2)

theorem flatChain_eq (sh : Shape) (hper : ∀ i, sh.isPer i = false) (c : Cell) (hc : VCell sh c) :
    flatChain sh (enc sh c) = (enumChain c).map fun p => (enc sh p.1, p.2) := by
  obtain ⟨hlt, hdig⟩ := enc_valid sh c hc
  rw [flatChain, boundary_eq_enum sh hper _ hlt, hdig]
  exact altN_map (enc sh) 0 _

theorem flatMap_congr_mem {α β : Type} (l : List α) (f g : α → List β) (h : ∀ x ∈ l, f x = g x) :
    l.flatMap f = l.flatMap g := by
  induction l with
  | nil => rfl
  | cons x l ih =>
    rw [List.flatMap_cons, List.flatMap_cons, h x (by simp), ih (fun y hy => h y (List.mem_cons_of_mem _ hy))]

theorem flatBB_eq (sh : Shape) (hper : ∀ i, sh.isPer i = false) (c : Cell) (hc : VCell sh c) :
    flatBB sh (enc sh c) = (cellBB c).map fun p => (enc sh p.1, p.2) := by
  rw [flatBB, flatChain_eq sh hper c hc, List.flatMap_map, cellBB, List.map_flatMap]
  apply flatMap_congr_mem
  intro p hp
  have hv : VCell sh p.1 := faces_valid sh hper c hc p.1 (altSigns_fst_mem 0 _ p hp)
  rw [flatChain_eq sh hper p.1 hv]
  simp [List.map_map, Function.comp_def]

theorem mem_cellBB_valid (sh : Shape) (hper : ∀ i, sh.isPer i = false) (c : Cell) (hc : VCell sh c) :
    ∀ p ∈ cellBB c, VCell sh p.1 := by
  intro p hp
  simp only [cellBB, List.mem_flatMap, List.mem_map] at hp
  obtain ⟨p1, hp1, q, hq, rfl⟩ := hp
  have hv1 : VCell sh p1.1 := faces_valid sh hper c hc p1.1 (altSigns_fst_mem 0 _ p1 hp1)
  exact faces_valid sh hper p1.1 hv1 q.1 (altSigns_fst_mem 0 _ q hq)

theorem sum_zero_of_all_zero : ∀ l : List Int, (∀ x ∈ l, x = 0) → l.sum = 0
  | [], _ => rfl
  | x :: l, h => by
    rw [List.sum_cons, h x (by simp), sum_zero_of_all_zero l (fun y hy => h y (List.mem_cons_of_mem _ hy))]; rfl

/-- a chain of valid cells with vanishing coefficients has vanishing coefficients after encoding as positions -/
theorem fcoef_map_zero (sh : Shape) (ch : Chain) (hv : ∀ p ∈ ch, VCell sh p.1) (hz : ∀ h, coef ch h = 0) (g : Nat) :
    fcoef (ch.map fun p => (enc sh p.1, p.2)) g = 0 := by
  by_cases hex : ∃ p0 ∈ ch, enc sh p0.1 = g
  · obtain ⟨p0, hp0, hg⟩ := hex
    rw [← hz p0.1, fcoef, coef, List.map_map]
    congr 1
    apply List.map_congr_left
    intro p hp
    have : (enc sh p.1 = g) ↔ (p.1 = p0.1) := by
      constructor
      · intro h; exact enc_inj sh _ _ (hv p hp) (hv p0 hp0) (h.trans hg.symm)
      · intro h; rw [h]; exact hg
    simp only [Function.comp_def, this]
  · rw [fcoef, List.map_map]
    apply sum_zero_of_all_zero
    intro x hx
    simp only [List.mem_map, Function.comp_def] at hx
    obtain ⟨p, hp, rfl⟩ := hx
    have : ¬ enc sh p.1 = g := fun h => hex ⟨p, hp, h⟩
    simp [this]

/-- **∂∂ = 0 on flat positions**: in a bitmap without periodic directions, for every position, the boundary of the
    boundary as `Shape.boundary` lists it (signs alternating along each list) cancels at every position -/
theorem flat_bd_bd (sh : Shape) (hper : ∀ i, sh.isPer i = false) (pos : Nat) (hpos : pos < sh.total) (g : Nat) :
    fcoef (flatBB sh pos) g = 0 := by
  have hv : VCell sh (sh.dirsDown.map (sh.digit pos)) :=
    counter_valid sh (fun i _ => by rw [radix_plain sh hper]; omega) pos
  have he : enc sh (sh.dirsDown.map (sh.digit pos)) = pos := dot_counter sh pos hpos
  rw [← he, flatBB_eq sh hper _ hv]
  exact fcoef_map_zero sh _ (mem_cellBB_valid sh hper _ hv) (coef_cellBB _) g

/-- every listed face is a position of the bitmap, one dimension lower is implied by `enum_faces` (one odd digit made even) -/
theorem boundary_in_range (sh : Shape) (hper : ∀ i, sh.isPer i = false) (pos : Nat) (hpos : pos < sh.total) :
    ∀ f ∈ sh.boundary false pos, f < sh.total := by
  intro f hf
  have hv : VCell sh (sh.dirsDown.map (sh.digit pos)) :=
    counter_valid sh (fun i _ => by rw [radix_plain sh hper]; omega) pos
  rw [boundary_eq_enum sh hper pos hpos, List.mem_map] at hf
  obtain ⟨c', hc', rfl⟩ := hf
  exact (enc_valid sh c' (faces_valid sh hper _ hv c' hc')).1

theorem countP_upd (dg : Nat → Nat) (i v : Nat) (hodd : dg i % 2 = 1) (hv : v % 2 = 0) :
    ∀ l : List Nat, l.Nodup → i ∈ l →
      (l.map (upd dg i v)).countP (· % 2 = 1) + 1 = (l.map dg).countP (· % 2 = 1) := by
  intro l
  induction l with
  | nil => intro _ h; simp at h
  | cons j l ih =>
    intro hnd hi
    rw [List.nodup_cons] at hnd
    by_cases e : j = i
    · subst e
      rw [List.map_cons, List.map_cons, map_upd_of_not_mem _ _ _ _ hnd.1]
      have h1 : upd dg j v j = v := by simp [upd]
      rw [h1, List.countP_cons, List.countP_cons]
      simp [hodd, hv]
    · have hi' : i ∈ l := by
        rcases List.mem_cons.mp hi with h | h
        · exact absurd h.symm e
        · exact h
      have h1 : upd dg i v j = dg j := by simp [upd, e]
      rw [List.map_cons, List.map_cons, h1, List.countP_cons, List.countP_cons, ← ih hnd.2 hi']
      omega

/-- **every listed face has dimension one less** -/
theorem boundary_dim (sh : Shape) (hper : ∀ i, sh.isPer i = false) (pos : Nat) (hpos : pos < sh.total) :
    ∀ f ∈ sh.boundary false pos, sh.dimOf f + 1 = sh.dimOf pos := by
  intro f hf
  have hr : ∀ i, i < sh.dims → 0 < sh.radix i := fun i _ => by rw [radix_plain sh hper]; omega
  have hv := counter_valid sh hr pos
  rw [boundary_eq_enum sh hper pos hpos, List.mem_map] at hf
  obtain ⟨c', hc', rfl⟩ := hf
  obtain ⟨i, hi, hodd, v, hvv, he⟩ := enum_faces (sh.digit pos) sh.dirsDown [] 0 (by simpa using dirsDown_nodup sh) c' (by simpa using hc')
  have hdig := (enc_valid sh c' (faces_valid sh hper _ hv c' hc')).2
  have hv2 : v % 2 = 0 := by rcases hvv with rfl | rfl <;> omega
  have hd : ∀ x, sh.dimOf x = ((sh.dirsDown.map (sh.digit x)).countP (· % 2 = 1)) := by
    intro x; simp [Shape.dimOf, Shape.counter, Shape.dirsDown, List.map_reverse]
  have e1 : sh.dimOf (enc sh c') = (c'.countP (· % 2 = 1)) := by rw [hd, hdig]
  have e2 := hd pos
  show sh.dimOf (enc sh c') + 1 = sh.dimOf pos
  rw [e1, e2]
  have := countP_upd (sh.digit pos) i v hodd hv2 sh.dirsDown (dirsDown_nodup sh) hi
  simpa [he] using this

/-! ### boundary and coboundary are converse relations (no periodic direction) -/

theorem boundary_fold (sh : Shape) (hper : ∀ i, sh.isPer i = false) (pos : Nat) :
    sh.boundary false pos = (sh.dirsDown.foldl (stepPlain pos (sh.digit pos) sh.mult) ([], 0)).1 := by
  simp only [Shape.boundary]
  congr 1
  congr 1
  funext acc i
  simp [stepPlain, hper]

theorem mem_fold_plain (pos : Nat) (dg mu : Nat → Nat) (f : Nat) : ∀ (ds : List Nat) (acc : List Nat) (cnt : Nat),
    f ∈ (ds.foldl (stepPlain pos dg mu) (acc, cnt)).1 ↔
      f ∈ acc ∨ ∃ i ∈ ds, dg i % 2 = 1 ∧ (f = pos - mu i ∨ f = pos + mu i) := by
  intro ds
  induction ds with
  | nil => intro acc cnt; simp
  | cons i rest ih =>
    intro acc cnt
    rw [List.foldl_cons]
    by_cases hx : dg i % 2 = 1
    · have hstep : stepPlain pos dg mu (acc, cnt) i =
          (acc ++ (if cnt % 2 = 1 then [pos + mu i, pos - mu i] else [pos - mu i, pos + mu i]), cnt + 1) := by
        simp [stepPlain, hx]
      rw [hstep, ih]
      constructor
      · rintro (h | ⟨j, hj, hodd, hf⟩)
        · rw [List.mem_append] at h
          rcases h with h | h
          · exact Or.inl h
          · refine Or.inr ⟨i, by simp, hx, ?_⟩
            split at h <;> simp at h <;> omega
        · exact Or.inr ⟨j, by simp [hj], hodd, hf⟩
      · rintro (h | ⟨j, hj, hodd, hf⟩)
        · exact Or.inl (List.mem_append_left _ h)
        · rcases List.mem_cons.mp hj with rfl | hj
          · refine Or.inl (List.mem_append_right _ ?_)
            split <;> simp <;> omega
          · exact Or.inr ⟨j, hj, hodd, hf⟩
    · have hstep : stepPlain pos dg mu (acc, cnt) i = (acc, cnt) := by simp [stepPlain, hx]
      rw [hstep, ih]
      constructor
      · rintro (h | ⟨j, hj, hodd, hf⟩)
        · exact Or.inl h
        · exact Or.inr ⟨j, by simp [hj], hodd, hf⟩
      · rintro (h | ⟨j, hj, hodd, hf⟩)
        · exact Or.inl h
        · rcases List.mem_cons.mp hj with rfl | hj
          · exact absurd hodd hx
          · exact Or.inr ⟨j, hj, hodd, hf⟩

/-- the faces of a position: one odd digit, one multiplier down or up -/
theorem mem_boundary (sh : Shape) (hper : ∀ i, sh.isPer i = false) (pos f : Nat) :
    f ∈ sh.boundary false pos ↔
      ∃ i, i < sh.dims ∧ sh.digit pos i % 2 = 1 ∧ (f = pos - sh.mult i ∨ f = pos + sh.mult i) := by
  rw [boundary_fold sh hper, mem_fold_plain]
  simp [mem_dirsDown]

/-- one direction of the loop of `get_coboundary_of_a_cell` in a complex without periodic directions -/
def stepCo (pos : Nat) (dg mu sz : Nat → Nat) (acc : List Nat) (i : Nat) : List Nat :=
  if dg i % 2 = 0 then
    acc ++ (if dg i != 0 then [pos - mu i] else []) ++ (if dg i != 2 * sz i then [pos + mu i] else [])
  else acc

theorem coboundary_fold (sh : Shape) (hper : ∀ i, sh.isPer i = false) (pos : Nat) :
    sh.coboundary pos = sh.dirsDown.foldl (stepCo pos (sh.digit pos) sh.mult sh.size) [] := by
  simp only [Shape.coboundary]
  congr 1
  funext acc i
  simp [stepCo, hper]

theorem mem_fold_co (pos : Nat) (dg mu sz : Nat → Nat) (g : Nat) : ∀ (ds : List Nat) (acc : List Nat),
    g ∈ ds.foldl (stepCo pos dg mu sz) acc ↔
      g ∈ acc ∨ ∃ i ∈ ds, dg i % 2 = 0 ∧ ((dg i ≠ 0 ∧ g = pos - mu i) ∨ (dg i ≠ 2 * sz i ∧ g = pos + mu i)) := by
  intro ds
  induction ds with
  | nil => intro acc; simp
  | cons i rest ih =>
    intro acc
    rw [List.foldl_cons, ih]
    by_cases hx : dg i % 2 = 0
    · have hstep : stepCo pos dg mu sz acc i =
          acc ++ (if dg i != 0 then [pos - mu i] else []) ++ (if dg i != 2 * sz i then [pos + mu i] else []) := by
        simp [stepCo, hx]
      rw [hstep]
      constructor
      · rintro (h | ⟨j, hj, hev, hg⟩)
        · rw [List.mem_append, List.mem_append] at h
          rcases h with (h | h) | h
          · exact Or.inl h
          · refine Or.inr ⟨i, by simp, hx, Or.inl ?_⟩
            split at h <;> simp_all
          · refine Or.inr ⟨i, by simp, hx, Or.inr ?_⟩
            split at h <;> simp_all
        · exact Or.inr ⟨j, by simp [hj], hev, hg⟩
      · rintro (h | ⟨j, hj, hev, hg⟩)
        · exact Or.inl (List.mem_append_left _ (List.mem_append_left _ h))
        · rcases List.mem_cons.mp hj with rfl | hj
          · refine Or.inl ?_
            rw [List.mem_append, List.mem_append]
            rcases hg with ⟨h0, rfl⟩ | ⟨h2, rfl⟩
            · exact Or.inl (Or.inr (by simp [h0]))
            · exact Or.inr (by simp [h2])
          · exact Or.inr ⟨j, hj, hev, hg⟩
    · have hstep : stepCo pos dg mu sz acc i = acc := by simp [stepCo, hx]
      rw [hstep]
      constructor
      · rintro (h | ⟨j, hj, hev, hg⟩)
        · exact Or.inl h
        · exact Or.inr ⟨j, by simp [hj], hev, hg⟩
      · rintro (h | ⟨j, hj, hev, hg⟩)
        · exact Or.inl h
        · rcases List.mem_cons.mp hj with rfl | hj
          · exact absurd hev hx
          · exact Or.inr ⟨j, hj, hev, hg⟩

/-- the cofaces of a position: one even digit, one multiplier down (unless the digit is 0) or up (unless it is the last) -/
theorem mem_coboundary (sh : Shape) (hper : ∀ i, sh.isPer i = false) (pos g : Nat) :
    g ∈ sh.coboundary pos ↔
      ∃ i, i < sh.dims ∧ sh.digit pos i % 2 = 0 ∧
        ((sh.digit pos i ≠ 0 ∧ g = pos - sh.mult i) ∨ (sh.digit pos i ≠ 2 * sh.size i ∧ g = pos + sh.mult i)) := by
  rw [coboundary_fold sh hper, mem_fold_co]
  simp [mem_dirsDown]

theorem S_upd (sh : Shape) (f : Nat → Nat) (i v : Nat) : ∀ n,
    S sh (upd f i v) n + (if i < n then f i * sh.mult i else 0) = S sh f n + (if i < n then v * sh.mult i else 0) := by
  intro n
  induction n with
  | zero => simp [S]
  | succ n ih =>
    rw [S_succ, S_succ]
    by_cases e : n = i
    · subst e
      have h1 : upd f n v n = v := by simp [upd]
      simp only [Nat.lt_irrefl, if_false, Nat.add_zero] at ih
      simp only [h1, Nat.lt_succ_self, if_true, ih]
      omega
    · have h1 : upd f i v n = f n := by simp [upd, e]
      rw [h1]
      by_cases hlt : i < n
      · have hlt' : i < n + 1 := by omega
        simp only [hlt, hlt', if_true] at ih ⊢
        omega
      · have hlt' : ¬ i < n + 1 := by omega
        simp only [hlt, hlt', if_false, Nat.add_zero] at ih ⊢
        omega

/-- changing one digit of a position: the result is a position with exactly that digit changed -/
theorem digit_change (sh : Shape) (hr : ∀ i, i < sh.dims → 0 < sh.radix i) (x : Nat) (hx : x < sh.total)
    (i : Nat) (hi : i < sh.dims) (v : Nat) (hv : v < sh.radix i) :
    ∃ y, y + sh.digit x i * sh.mult i = x + v * sh.mult i ∧ y < sh.total ∧
      ∀ j, j < sh.dims → sh.digit y j = upd (sh.digit x) i v j := by
  have hf : ∀ j, j < sh.dims → upd (sh.digit x) i v j < sh.radix j := by
    intro j hj
    by_cases e : j = i
    · subst e; simpa [upd] using hv
    · simp only [upd, e, if_false]; exact Nat.mod_lt _ (hr j hj)
  have hx' : S sh (sh.digit x) sh.dims = x := by
    have := sum_digits sh x sh.dims (Nat.le_refl _)
    rw [← total_eq, Nat.mod_eq_of_lt hx] at this
    exact this
  refine ⟨S sh (upd (sh.digit x) i v) sh.dims, ?_, by rw [total_eq]; exact S_lt sh _ hf _ (Nat.le_refl _), ?_⟩
  · have := S_upd sh (sh.digit x) i v sh.dims
    simp only [hi, if_true] at this
    rw [hx'] at this
    exact this
  · intro j hj
    exact digit_S sh _ hf j hj sh.dims hj (Nat.le_refl _)

/-- **boundary and coboundary are converse relations** between the positions of a bitmap without periodic directions -/
theorem boundary_coboundary (sh : Shape) (hper : ∀ i, sh.isPer i = false) (pos f : Nat)
    (hpos : pos < sh.total) (hf : f < sh.total) :
    f ∈ sh.boundary false pos ↔ pos ∈ sh.coboundary f := by
  have hr : ∀ i, i < sh.dims → 0 < sh.radix i := fun i _ => by rw [radix_plain sh hper]; omega
  rw [mem_boundary sh hper, mem_coboundary sh hper]
  constructor
  · rintro ⟨i, hi, hodd, hcase⟩
    have hd : sh.digit pos i < sh.radix i := Nat.mod_lt _ (hr i hi)
    rw [radix_plain sh hper] at hd
    rcases hcase with rfl | rfl
    · obtain ⟨y, hy, _, hdig⟩ := digit_change sh hr pos hpos i hi (sh.digit pos i - 1) (by rw [radix_plain sh hper]; omega)
      obtain ⟨d', hd'⟩ : ∃ d', sh.digit pos i = d' + 1 := ⟨sh.digit pos i - 1, by omega⟩
      have hy' : y = pos - sh.mult i := by
        rw [hd'] at hy; simp only [Nat.add_sub_cancel, Nat.add_mul, Nat.one_mul] at hy; omega
      have hge : sh.mult i ≤ pos := by
        rw [hd'] at hy; simp only [Nat.add_sub_cancel, Nat.add_mul, Nat.one_mul] at hy; omega
      have hdi := hdig i hi
      simp only [upd, if_true] at hdi
      rw [hy'] at hdi
      exact ⟨i, hi, by omega, Or.inr ⟨by omega, by omega⟩⟩
    · obtain ⟨y, hy, _, hdig⟩ := digit_change sh hr pos hpos i hi (sh.digit pos i + 1) (by rw [radix_plain sh hper]; omega)
      have hy' : y = pos + sh.mult i := by
        simp only [Nat.add_mul, Nat.one_mul] at hy; omega
      have hdi := hdig i hi
      simp only [upd, if_true] at hdi
      rw [hy'] at hdi
      exact ⟨i, hi, by omega, Or.inl ⟨by omega, by omega⟩⟩
  · rintro ⟨i, hi, hev, hcase⟩
    have hd : sh.digit f i < sh.radix i := Nat.mod_lt _ (hr i hi)
    rw [radix_plain sh hper] at hd
    rcases hcase with ⟨h0, rfl⟩ | ⟨h2, rfl⟩
    · obtain ⟨y, hy, _, hdig⟩ := digit_change sh hr f hf i hi (sh.digit f i - 1) (by rw [radix_plain sh hper]; omega)
      obtain ⟨d', hd'⟩ : ∃ d', sh.digit f i = d' + 1 := ⟨sh.digit f i - 1, by omega⟩
      have hy' : y = f - sh.mult i := by
        rw [hd'] at hy; simp only [Nat.add_sub_cancel, Nat.add_mul, Nat.one_mul] at hy; omega
      have hge : sh.mult i ≤ f := by
        rw [hd'] at hy; simp only [Nat.add_sub_cancel, Nat.add_mul, Nat.one_mul] at hy; omega
      have hdi := hdig i hi
      simp only [upd, if_true] at hdi
      rw [hy'] at hdi
      exact ⟨i, hi, by omega, Or.inr (by omega)⟩
    · obtain ⟨y, hy, _, hdig⟩ := digit_change sh hr f hf i hi (sh.digit f i + 1) (by rw [radix_plain sh hper]; omega)
      have hy' : y = f + sh.mult i := by
        simp only [Nat.add_mul, Nat.one_mul] at hy; omega
      have hdi := hdig i hi
      simp only [upd, if_true] at hdi
      rw [hy'] at hdi
      exact ⟨i, hi, by omega, Or.inl (by omega)⟩

/-- non-vacuity: a 2×3 bitmap, the top cell at position 6 -/
example : flatBB { sizes := [2, 3], per := [false, false] } 6 =
    [(0, 1), (2, -1), (10, -1), (12, 1), (2, 1), (12, -1), (0, -1), (10, 1)] := by decide

end CubBridge
