import GudhiVerif.Vine2

/-! Prototype (C06), end of the RU case analysis: the positive/positive collision (`_positive_vine_swap` with both cells
    paired and `R(death(i+1), i) ≠ 0`): swap, then one column addition between the two death columns, in either order. -/
open Matrix Classical

variable {n : ℕ} {F : Type*} [Field F]

/-- repairing the only collision of a matrix by one column operation -/
theorem reduced_fix {M : Matrix (Fin n) (Fin n) F} {s t : Fin n} (hst : s ≠ t) (c : F)
    (hout : ∀ x y l, x ≠ t → y ≠ t → IsLow (colv M x) l → IsLow (colv M y) l → x = y)
    {l' : Fin n} (hnew : IsLow (colv (M * transvection s t c) t) l')
    (hfree : ∀ x, x ≠ t → ¬ IsLow (colv M x) l') : Reduced (M * transvection s t c) := by
  have hcol : ∀ y, y ≠ t → colv (M * transvection s t c) y = colv M y := by
    intro y hy; rw [colv_colop]; simp [hy]
  intro x y l hx hy
  by_cases hxt : x = t
  · by_cases hyt : y = t
    · rw [hxt, hyt]
    · exfalso
      subst hxt
      rw [hcol y hyt] at hy
      rw [IsLow.unique hx hnew] at hy
      exact hfree y hyt hy
  · by_cases hyt : y = t
    · exfalso
      subst hyt
      rw [hcol x hxt] at hx
      rw [IsLow.unique hy hnew] at hx
      exact hfree x hxt hx
    · rw [hcol x hxt] at hx; rw [hcol y hyt] at hy
      exact hout x y l hxt hyt hx hy

/-- two vectors with the same lowest entry `b`: the cancelling combination has its lowest entry at the position `a` right
    before, provided its entry there does not vanish -/
theorem isLow_cancel {a b : Fin n} (hab : Adjacent a b) {v w : Fin n → F} (hv : IsLow v b) (hw : IsLow w b)
    (hna : v a + -(v b / w b) * w a ≠ 0) : IsLow (v + (-(v b / w b)) • w) a := by
  refine ⟨by simpa using hna, fun k hk => ?_⟩
  unfold Adjacent at hab
  have hkb : b ≤ k := by
    have : a.val < k.val := hk
    exact Fin.le_def.mpr (by omega)
  rcases lt_or_eq_of_le hkb with hlt | heq
  · simp [hv.2 k hlt, hw.2 k hlt]
  · subst heq
    have := hw.1
    simp only [Pi.add_apply, Pi.smul_apply, smul_eq_mul]
    field_simp
    ring

theorem moveLow_eq_a {a b l : Fin n} (hab : a ≠ b) {p : Prop} (h : moveLow a b l p = a) : l = b ∧ p := by
  unfold moveLow at h
  by_cases h1 : l = a
  · simp [h1] at h; exact absurd h.symm hab
  · by_cases h2 : l = b ∧ p
    · exact h2
    · simp [h1, h2] at h

/-- **positive/positive with collision**: `y1` has its lowest entry at `a`, `y2` at `b` with a non-zero entry at `a`.
    After the exchange both have their lowest entry at `b`; adding `s` into `t` (`{s,t} = {y1,y2}`, `s < t` in the code) with
    the cancelling coefficient gives a reduced matrix in which `t` has its lowest entry at `a` and `s` keeps `b`:
    for `(s,t) = (y1,y2)` the two births are exchanged in positions (`return true` after `_positive_transpose`), for
    `(s,t) = (y2,y1)` they are not (`return false`). -/
theorem vine_PP_collision {D R U : Matrix (Fin n) (Fin n) F} (h : Fact3 R D U) (hR : Reduced R) {a b : Fin n}
    (hab : Adjacent a b) (hU : U a b = 0) {y1 y2 : Fin n}
    (h1 : IsLow (colv R y1) a) (h2 : IsLow (colv R y2) b) (hne : R a y2 ≠ 0)
    (hy1 : y1 ≠ a ∧ y1 ≠ b) (hy2 : y2 ≠ a ∧ y2 ≠ b)
    {s t : Fin n} (hst : s < t) (hcase : (s = y1 ∧ t = y2) ∨ (s = y2 ∧ t = y1)) :
    let R2 := conjSwap a b R
    let c := - (R2 b t / R2 b s)
    Fact3 (R2 * transvection s t c) (conjSwap a b D) (transvection s t (-c) * conjSwap a b U) ∧
    Reduced (R2 * transvection s t c) ∧
    IsLow (colv (R2 * transvection s t c) t) a ∧ IsLow (colv (R2 * transvection s t c) s) b := by
  intro R2 c
  have hablt : a < b := by unfold Adjacent at hab; exact Fin.lt_def.mpr (by omega)
  have hanb : a ≠ b := ne_of_lt hablt
  have hσ1 : Equiv.swap a b y1 = y1 := Equiv.swap_apply_of_ne_of_ne hy1.1 hy1.2
  have hσ2 : Equiv.swap a b y2 = y2 := Equiv.swap_apply_of_ne_of_ne hy2.1 hy2.2
  have hR1b : R b y1 = 0 := h1.2 b hablt
  -- lows after the exchange: both at b
  have hlow1 : IsLow (colv R2 y1) b := by
    have := isLow_conjSwap hab R y1 a (by rw [hσ1]; exact h1)
    simpa [moveLow] using this
  have hlow2 : IsLow (colv R2 y2) b := by
    have := isLow_conjSwap hab R y2 b (by rw [hσ2]; exact h2)
    rw [hσ2] at this
    simpa [moveLow, hne, hanb.symm] using this
  -- entries of the exchanged matrix in rows a, b of the two columns
  have e_b1 : R2 b y1 = R a y1 := by show R (Equiv.swap a b b) (Equiv.swap a b y1) = _; rw [Equiv.swap_apply_right, hσ1]
  have e_b2 : R2 b y2 = R a y2 := by show R (Equiv.swap a b b) (Equiv.swap a b y2) = _; rw [Equiv.swap_apply_right, hσ2]
  have e_a1 : R2 a y1 = R b y1 := by show R (Equiv.swap a b a) (Equiv.swap a b y1) = _; rw [Equiv.swap_apply_left, hσ1]
  have e_a2 : R2 a y2 = R b y2 := by show R (Equiv.swap a b a) (Equiv.swap a b y2) = _; rw [Equiv.swap_apply_left, hσ2]
  have hs_t : s ≠ t := ne_of_lt hst
  have hlows : IsLow (colv R2 s) b ∧ IsLow (colv R2 t) b := by
    rcases hcase with ⟨hs, ht⟩ | ⟨hs, ht⟩
    · rw [hs, ht]; exact ⟨hlow1, hlow2⟩
    · rw [hs, ht]; exact ⟨hlow2, hlow1⟩
  -- the new column t
  have hcolt : colv (R2 * transvection s t c) t = colv R2 t + c • colv R2 s := by rw [colv_colop]; simp
  have hcols : colv (R2 * transvection s t c) s = colv R2 s := by rw [colv_colop]; simp [hs_t]
  have hr1 : R a y1 ≠ 0 := h1.1
  have hr2 : R b y2 ≠ 0 := h2.1
  have hnewt : IsLow (colv (R2 * transvection s t c) t) a := by
    rw [hcolt]
    apply isLow_cancel hab hlows.2 hlows.1
    show R2 a t + -(R2 b t / R2 b s) * R2 a s ≠ 0
    rcases hcase with ⟨hs, ht⟩ | ⟨hs, ht⟩
    · rw [hs, ht, e_a2, e_a1, hR1b]; simpa using hr2
    · rw [hs, ht, e_a1, e_a2, e_b1, e_b2, hR1b]
      simp only [zero_add]
      exact mul_ne_zero (neg_ne_zero.mpr (div_ne_zero hr1 hne)) hr2
  refine ⟨(h.conj hab hU).addTo hst c, ?_, hnewt, by rw [hcols]; exact hlows.1⟩
  -- reducedness: the only collision of R2 is between y1 and y2
  apply reduced_fix hs_t c _ hnewt
  · -- no other column of R2 has its lowest entry at a
    intro x hxt hx
    obtain ⟨lx, hlx⟩ := exists_low_of_conj R x a hx
    have := IsLow.unique hx (isLow_conjSwap hab R x lx hlx)
    obtain ⟨hlb, hp⟩ := moveLow_eq_a hanb this.symm
    rw [hlb] at hlx
    have : Equiv.swap a b x = y2 := hR _ _ _ hlx h2
    rw [this] at hp
    exact hne hp
  · intro x y l hxt hyt hx hy
    obtain ⟨lx, hlx⟩ := exists_low_of_conj R x l hx
    obtain ⟨ly, hly⟩ := exists_low_of_conj R y l hy
    have ex := IsLow.unique hx (isLow_conjSwap hab R x lx hlx)
    have ey := IsLow.unique hy (isLow_conjSwap hab R y ly hly)
    rcases moveLow_inj hanb lx ly _ _ (ex.symm.trans ey) with hh | ⟨hh1, hh2, _⟩ | ⟨hh1, hh2, _⟩
    · rw [← hh] at hly; exact (Equiv.swap a b).injective (hR _ _ lx hlx hly)
    · exfalso
      rw [hh1] at hlx; rw [hh2] at hly
      have e1 : Equiv.swap a b x = y1 := hR _ _ _ hlx h1
      have e2 : Equiv.swap a b y = y2 := hR _ _ _ hly h2
      have hx1 : x = y1 := by rw [← hσ1, ← e1, Equiv.swap_apply_self]
      have hy2' : y = y2 := by rw [← hσ2, ← e2, Equiv.swap_apply_self]
      rcases hcase with ⟨_, ht⟩ | ⟨_, ht⟩
      · exact hyt (hy2'.trans ht.symm)
      · exact hxt (hx1.trans ht.symm)
    · exfalso
      rw [hh1] at hly; rw [hh2] at hlx
      have e1 : Equiv.swap a b y = y1 := hR _ _ _ hly h1
      have e2 : Equiv.swap a b x = y2 := hR _ _ _ hlx h2
      have hy1' : y = y1 := by rw [← hσ1, ← e1, Equiv.swap_apply_self]
      have hx2 : x = y2 := by rw [← hσ2, ← e2, Equiv.swap_apply_self]
      rcases hcase with ⟨_, ht⟩ | ⟨_, ht⟩
      · exact hxt (hx2.trans ht.symm)
      · exact hyt (hy1'.trans ht.symm)

#print axioms reduced_fix
#print axioms vine_PP_collision
