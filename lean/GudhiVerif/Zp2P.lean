import GudhiVerif.Zp2
import Mathlib.Data.Int.GCD
import Mathlib.Data.Nat.Prime.Basic
import Mathlib.Tactic

/-! Prototype (C10): the inverse table of `Zp_field_operators::set_characteristic` — for a prime below 2^16 every search
    ends on the inverse; for a composite characteristic the constructor throws. -/
open Zp2Proto

namespace Zp2PProto

theorem umul_small {x y : ℕ} (h : x * y < W) : umul x y = x * y := Nat.mod_eq_of_lt h

theorem mul_lt_W {p x y : ℕ} (hp : p ≤ 65536) (hx : x ≤ p) (hy : y < p) : x * y < W := by
  have : x * y ≤ 65536 * 65535 := Nat.mul_le_mul (by omega) (by omega)
  unfold W; omega

/-- the search loop finds the least `k ≥ 1` with `k·i ≡ 1`, for a prime characteristic -/
theorem invLoop_found {p i k0 : ℕ} (hpr : p.Prime) (hp : p ≤ 65536) (hi : i < p)
    (hk0 : (k0 * i) % p = 1) (hk0p : k0 < p) (hmin : ∀ k, 1 ≤ k → k < k0 → (k * i) % p ≠ 1) :
    ∀ f inv, 1 ≤ inv → inv ≤ k0 → k0 - inv + 1 ≤ f → invLoop p i f inv (umul inv i) = .found k0 := by
  intro f
  induction f with
  | zero => intro inv _ _ h; omega
  | succ f ih =>
    intro inv h1 h2 hf
    have hm : umul inv i = inv * i := umul_small (mul_lt_W hp (by omega) hi)
    rw [invLoop, hm]
    by_cases hfound : inv * i % p = 1
    · rw [if_pos hfound]
      have : inv = k0 := by
        by_contra hne
        exact hmin inv h1 (by omega) hfound
      rw [this]
    · rw [if_neg hfound]
      have hlt : inv < k0 := by
        rcases Nat.lt_or_eq_of_le h2 with h | h
        · exact h
        · exact absurd (h ▸ hk0) hfound
      have hnp : inv * i ≠ p := by
        intro he
        have hdvd : i ∣ p := ⟨inv, by rw [← he, Nat.mul_comm]⟩
        rcases (Nat.Prime.eq_one_or_self_of_dvd hpr i hdvd) with h | h
        · rw [h, Nat.mul_one] at he; omega
        · omega
      rw [if_neg hnp]
      exact ih (inv + 1) (by omega) (by omega) (by omega)

theorem invOf_prime {p i : ℕ} (hpr : p.Prime) (hp : p ≤ 65536) (hi0 : 0 < i) (hi : i < p) :
    ∃ k, invOf p i = .found k ∧ 0 < k ∧ k < p ∧ (k * i) % p = 1 := by
  classical
  have hcop : Nat.Coprime i p := (Nat.coprime_primes_iff_ne_or_lt_aux hpr hi0 hi)
  obtain ⟨m, hmp, hm⟩ := Nat.exists_mul_mod_eq_one_of_coprime hcop hpr.one_lt
  have hex : ∃ k, 1 ≤ k ∧ k < p ∧ (k * i) % p = 1 := by
    refine ⟨m, ?_, hmp, by rw [Nat.mul_comm]; exact hm⟩
    by_contra h0
    have : m = 0 := by omega
    rw [this] at hm; simp at hm
  let k0 := Nat.find hex
  obtain ⟨h1, h2, h3⟩ := Nat.find_spec hex
  have hmin : ∀ k, 1 ≤ k → k < k0 → (k * i) % p ≠ 1 := by
    intro k hk1 hk hk3
    exact Nat.find_min hex hk ⟨hk1, by omega, hk3⟩
  refine ⟨k0, ?_, by omega, h2, h3⟩
  unfold invOf
  exact invLoop_found hpr hp hi h3 h2 hmin p 1 (le_refl 1) h1 (by omega)
  where
  Nat.coprime_primes_iff_ne_or_lt_aux {p i : ℕ} (hpr : p.Prime) (hi0 : 0 < i) (hi : i < p) : Nat.Coprime i p := by
    rw [Nat.coprime_comm]
    exact (Nat.Prime.coprime_iff_not_dvd hpr).mpr (fun hd => absurd (Nat.le_of_dvd hi0 hd) (by omega))

/-- for a prime below 2^16 the table is built, has `p` entries, and entry `i` is the inverse of `i` -/
theorem build_prime {p : ℕ} (hpr : p.Prime) (hp : p ≤ 65536) :
    ∀ c i acc, 0 < i → i + c = p → acc.length = i →
      (∀ j, 0 < j → j < i → (acc.reverse.getD j 0 * j) % p = 1) →
      ∃ tbl, build p c i acc = some tbl ∧ tbl.length = p ∧ ∀ j, 0 < j → j < p → (tbl.getD j 0 * j) % p = 1 := by
  intro c
  induction c with
  | zero =>
    intro i acc _ hic hlen hacc
    refine ⟨acc.reverse, rfl, by simp [hlen]; omega, ?_⟩
    intro j hj0 hjp; exact hacc j hj0 (by omega)
  | succ c ih =>
    intro i acc hi0 hic hlen hacc
    obtain ⟨k, hk, _, _, hk3⟩ := invOf_prime hpr hp hi0 (by omega : i < p)
    rw [build, hk]
    apply ih (i + 1) (k :: acc) (by omega) (by omega) (by simp [hlen])
    intro j hj0 hj
    rw [List.reverse_cons]
    rcases Nat.lt_or_eq_of_le (Nat.lt_succ_iff.mp hj) with hlt | heq
    · have : j < acc.reverse.length := by simp [hlen]; exact hlt
      rw [List.getD_eq_getElem?_getD, List.getElem?_append_left this, ← List.getD_eq_getElem?_getD]
      exact hacc j hj0 hlt
    · subst heq
      have : acc.reverse.length = j := by simp [hlen]
      rw [List.getD_eq_getElem?_getD, List.getElem?_append_right (by omega), this]
      simpa using hk3

theorem setCharacteristic_prime {p : ℕ} (hpr : p.Prime) (hp : p ≤ 65536) :
    ∃ tbl, setCharacteristic p = some tbl ∧ tbl.length = p ∧ ∀ j, 0 < j → j < p → (tbl.getD j 0 * j) % p = 1 := by
  have h2 := hpr.two_le
  unfold setCharacteristic
  rw [if_neg (by omega)]
  exact build_prime hpr hp (p - 1) 1 [0] (by omega) (by omega) rfl (by intro j h1 h2; omega)

/-- at a proper divisor `q > 1` of `p` the search throws -/
theorem invLoop_throw {p q : ℕ} (hq1 : 1 < q) (hqp : q ∣ p) (hpW : p < W) :
    ∀ f inv, 1 ≤ inv → inv ≤ p / q → p / q - inv + 1 ≤ f → invLoop p q f inv (umul inv q) = .throw := by
  have hq0 : 0 < q := by omega
  intro f
  induction f with
  | zero => intro inv _ _ h; omega
  | succ f ih =>
    intro inv h1 h2 hf
    have hle : inv * q ≤ p := by
      calc inv * q ≤ (p / q) * q := Nat.mul_le_mul_right q h2
        _ = p := Nat.div_mul_cancel hqp
    have hm : umul inv q = inv * q := umul_small (by omega)
    rw [invLoop, hm]
    have hne1 : inv * q % p ≠ 1 := by
      intro h
      have : q ∣ inv * q % p := (Nat.dvd_mod_iff hqp).mpr (Dvd.intro_left inv rfl)
      rw [h] at this
      exact absurd (Nat.le_of_dvd Nat.one_pos this) (by omega)
    rw [if_neg hne1]
    by_cases he : inv * q = p
    · rw [if_pos he]
    · rw [if_neg he]
      have hlt : inv < p / q := by
        rcases Nat.lt_or_eq_of_le h2 with h | h
        · exact h
        · exfalso; apply he; rw [h]; exact Nat.div_mul_cancel hqp
      exact ih (inv + 1) (by omega) (by omega) (by omega)

theorem build_composite {p q : ℕ} (hq1 : 1 < q) (hqp : q ∣ p) (hqlt : q < p) (hpW : p < W) :
    ∀ c i acc, i ≤ q → q < i + c → build p c i acc = none := by
  intro c
  induction c with
  | zero => intro i acc h1 h2; omega
  | succ c ih =>
    intro i acc h1 h2
    rw [build]
    rcases Nat.lt_or_eq_of_le h1 with hlt | heq
    · cases hres : invOf p i with
      | found k => simp only; exact ih (i + 1) (k :: acc) (by omega) (by omega)
      | throw => rfl
      | fuel => rfl
    · subst heq
      have hpos : 0 < p / i := Nat.div_pos (by omega) (by omega)
      have hdle : p / i ≤ p := Nat.div_le_self p i
      have : invOf p i = .throw := by
        unfold invOf
        exact invLoop_throw hq1 hqp hpW p 1 (le_refl 1) hpos (by omega)
      rw [this]

/-- **a characteristic that is not a prime greater than 1 is refused** -/
theorem setCharacteristic_rejects {p : ℕ} (hpW : p < W) (h : ¬ p.Prime) : setCharacteristic p = none := by
  unfold setCharacteristic
  by_cases h1 : p ≤ 1
  · rw [if_pos h1]
  · rw [if_neg h1]
    have h2 : 2 ≤ p := by omega
    have hq := Nat.minFac_prime (by omega : p ≠ 1)
    have hqp : p.minFac ∣ p := Nat.minFac_dvd p
    have hqlt : p.minFac < p := by
      rcases Nat.lt_or_eq_of_le (Nat.minFac_le (by omega : 0 < p)) with hlt | heq
      · exact hlt
      · exact absurd (heq ▸ hq) h
    exact build_composite hq.one_lt hqp hqlt hpW (p - 1) 1 [0] (by have := hq.one_lt; omega) (by omega)

#print axioms setCharacteristic_prime
#print axioms setCharacteristic_rejects
end Zp2PProto
