/-! Prototype (C09): the heap column over Z₂ — a multiset of row indices with duplicates, the represented column being the
    parity of the multiplicities.  `std::pop_heap` is modelled as taking a maximum of the multiset (the list is kept sorted
    decreasingly; which of several equal entries comes out is irrelevant, only the row index is read).
    `_pop_pivot` returns the largest row with odd multiplicity and leaves the represented column below it unchanged;
    addition is multiset union, i.e. coefficient-wise addition mod 2.  Core Lean only. -/
namespace HeapProto

/-- represented coefficient of row `i` -/
def coeff (l : List Nat) (i : Nat) : Nat := (l.count i) % 2

/-- `_pop_pivot` (Z₂ branch): `pivot = pop(); while (!empty && front == pivot) { pop(); if (empty) return null; pivot = pop(); }` -/
def popPivot : List Nat → Option Nat × List Nat
  | [] => (none, [])
  | [a] => (some a, [])
  | a :: b :: t => if a = b then popPivot t else (some a, b :: t)

/-- sorted decreasingly (a heap, as far as extraction order of row indices is concerned) -/
def Desc : List Nat → Prop
  | [] => True
  | [_] => True
  | a :: b :: t => b ≤ a ∧ Desc (b :: t)

theorem Desc.tail {a : Nat} {t : List Nat} (h : Desc (a :: t)) : Desc t := by
  cases t with
  | nil => trivial
  | cons b t => exact h.2

theorem Desc.le_head {a : Nat} {t : List Nat} (h : Desc (a :: t)) : ∀ x ∈ t, x ≤ a := by
  induction t generalizing a with
  | nil => intro x hx; cases hx
  | cons b t ih =>
    intro x hx
    rcases List.mem_cons.mp hx with rfl | hx
    · exact h.1
    · exact Nat.le_trans (ih h.2 x hx) h.1

theorem count_zero_of_gt {l : List Nat} {a j : Nat} (h : ∀ x ∈ l, x ≤ a) (hj : a < j) : l.count j = 0 := by
  apply List.count_eq_zero_of_not_mem
  intro hm; have := h j hm; omega

/-- **`_pop_pivot` finds the pivot of the represented column** -/
theorem popPivot_spec : ∀ (l : List Nat), Desc l →
    (match (popPivot l).1 with
     | none => ∀ j, coeff l j = 0
     | some i => coeff l i = 1 ∧ (∀ j, i < j → coeff l j = 0)) ∧
    (∀ j, (match (popPivot l).1 with | none => True | some i => j < i) → coeff (popPivot l).2 j = coeff l j) ∧
    Desc (popPivot l).2 ∧
    (∀ x ∈ (popPivot l).2, match (popPivot l).1 with | none => False | some i => x < i) := by
  intro l
  induction l using popPivot.induct with
  | case1 => intro _; simp [popPivot, coeff, Desc]
  | case2 a =>
    intro _
    simp only [popPivot, coeff]
    refine ⟨⟨by simp, ?_⟩, ?_, trivial, by intro x hx; cases hx⟩
    · intro j hj
      have : ¬ (a = j) := by omega
      simp [List.count_cons, this]
    · intro j hj
      have : ¬ (a = j) := by omega
      simp [List.count_cons, this]
  | case3 a t ih =>
    -- two equal maxima cancel
    intro hd
    have hdt : Desc t := hd.tail.tail
    have := ih hdt
    rw [popPivot, if_pos rfl]
    have hc : ∀ j, coeff (a :: a :: t) j = coeff t j := by
      intro j
      simp only [coeff, List.count_cons]
      by_cases h : a = j
      · simp [h]; omega
      · simp [h]
    obtain ⟨h1, h2, h3, h4⟩ := this
    refine ⟨?_, ?_, h3, h4⟩
    · cases hp : (popPivot t).1 with
      | none => rw [hp] at h1; simp only at h1 ⊢; intro j; rw [hc]; exact h1 j
      | some i => rw [hp] at h1; simp only at h1 ⊢; rw [hc]; exact ⟨h1.1, fun j hj => by rw [hc]; exact h1.2 j hj⟩
    · intro j hj; rw [hc]; exact h2 j hj
  | case4 a b t hab =>
    intro hd
    rw [popPivot, if_neg hab]
    have hba : b < a := by have := hd.1; omega
    have hle : ∀ x ∈ b :: t, x ≤ b := by
      intro x hx
      rcases List.mem_cons.mp hx with rfl | hx
      · exact Nat.le_refl _
      · exact hd.tail.le_head x hx
    have hca : (b :: t).count a = 0 := count_zero_of_gt hle hba
    simp only
    refine ⟨⟨?_, ?_⟩, ?_, hd.tail, ?_⟩
    · simp [coeff, List.count_cons_self, hca]
    · intro j hj
      have h1 : ¬ (a = j) := by omega
      have : (b :: t).count j = 0 := count_zero_of_gt hle (by omega)
      simp only [coeff, List.count_cons, this] at *
      simp [h1]
    · intro j hj
      have h1 : ¬ (a = j) := by omega
      simp only [coeff]
      rw [List.count_cons (a := j) (b := a)]
      simp [h1]
    · intro x hx; have := hle x hx; omega

/-- `_add` of a source range into a heap column = multiset union = coefficient-wise addition mod 2
    (on the multiset; re-establishing the heap order is `std::make_heap`/`push_heap`, which D22 shows is missing in one branch) -/
theorem coeff_append (l s : List Nat) (j : Nat) : coeff (l ++ s) j = (coeff l j + coeff s j) % 2 := by
  simp only [coeff, List.count_append]; omega

#eval popPivot [5, 5, 3, 3, 3, 1]   -- (some 3, [1])
#print axioms popPivot_spec
#print axioms coeff_append
end HeapProto
