/-! Prototype (C16): toplex map as the list of stored maximal simplices; membership semantics of `insert_simplex` and of
    `remove_simplex` (repaired: re-insert the facets `τ∖{v}`, v ∈ σ, of every destroyed toplex τ; as implemented:
    re-insert the facets of σ itself — witness of D17 by `decide`). Core Lean only. -/
namespace ToplexProto

abbrev Simplex := List Nat
abbrev Toplex := List Simplex

def subset (a b : Simplex) : Bool := a.all (b.contains ·)

def member (m : Toplex) (ρ : Simplex) : Bool := m.any (subset ρ ·)

def insertSimplex (m : Toplex) (σ : Simplex) : Toplex :=
  if member m σ then m else (m.filter fun τ => !subset τ σ) ++ [σ]

def without (τ : Simplex) (v : Nat) : Simplex := τ.filter (· != v)

/-- repaired `remove_simplex` -/
def removeSimplex (m : Toplex) (σ : Simplex) : Toplex :=
  let keep := m.filter fun τ => !subset σ τ
  let hit := m.filter fun τ => subset σ τ
  hit.foldl (fun acc τ => σ.foldl (fun acc v => insertSimplex acc (without τ v)) acc) keep

/-- as implemented (D17): the facets of the removed simplex are re-inserted -/
def removeSimplexImpl (m : Toplex) (σ : Simplex) : Toplex :=
  let keep := m.filter fun τ => !subset σ τ
  let hit := m.filter fun τ => subset σ τ
  hit.foldl (fun acc _ => σ.foldl (fun acc v => insertSimplex acc (without σ v)) acc) keep

/-- D17 on its witness: `insert {1,2,3}; remove {1}` must keep {2,3} -/
theorem impl_violates : member (removeSimplexImpl (insertSimplex [] [1,2,3]) [1]) [2,3] = false := by decide
example : member (removeSimplex (insertSimplex [] [1,2,3]) [1]) [2,3] = true := by decide

theorem subset_iff (a b : Simplex) : subset a b = true ↔ ∀ x ∈ a, x ∈ b := by
  simp [subset, List.all_eq_true]

theorem subset_trans {a b c : Simplex} (h1 : subset a b = true) (h2 : subset b c = true) : subset a c = true := by
  rw [subset_iff] at *
  exact fun x hx => h2 x (h1 x hx)

theorem member_iff (m : Toplex) (ρ : Simplex) : member m ρ = true ↔ ∃ τ ∈ m, subset ρ τ = true := by
  simp [member, List.any_eq_true]

/-- `insert_simplex` adds exactly the faces of σ -/
theorem member_insert (m : Toplex) (σ ρ : Simplex) :
    member (insertSimplex m σ) ρ = true ↔ member m ρ = true ∨ subset ρ σ = true := by
  unfold insertSimplex
  split
  · rename_i hm
    constructor
    · intro h; exact Or.inl h
    · rintro (h | h)
      · exact h
      · obtain ⟨τ, hτ, hs⟩ := (member_iff m σ).mp hm
        exact (member_iff m ρ).mpr ⟨τ, hτ, subset_trans h hs⟩
  · rw [member_iff, member_iff]
    constructor
    · rintro ⟨τ, hτ, hs⟩
      rcases List.mem_append.mp hτ with h | h
      · left; exact ⟨τ, (List.mem_filter.mp h).1, hs⟩
      · right; simp at h; exact h ▸ hs
    · rintro (⟨τ, hτ, hs⟩ | h)
      · by_cases hsub : subset τ σ = true
        · exact ⟨σ, by simp, subset_trans hs hsub⟩
        · exact ⟨τ, List.mem_append_left _ (List.mem_filter.mpr ⟨hτ, by simp [hsub]⟩), hs⟩
      · exact ⟨σ, by simp, h⟩

theorem mem_without {τ : Simplex} {v x : Nat} : x ∈ without τ v ↔ x ∈ τ ∧ x ≠ v := by
  simp [without]

/-- inner fold: re-inserting the facets `τ∖{v}` for v in a list -/
theorem member_fold_facets (τ : Simplex) : ∀ (vs : List Nat) (acc : Toplex) (ρ : Simplex),
    member (vs.foldl (fun acc v => insertSimplex acc (without τ v)) acc) ρ = true ↔
      member acc ρ = true ∨ ∃ v ∈ vs, subset ρ (without τ v) = true := by
  intro vs
  induction vs with
  | nil => intro acc ρ; simp
  | cons v vs ih =>
    intro acc ρ
    simp only [List.foldl]
    rw [ih, member_insert]
    constructor
    · rintro ((h | h) | ⟨w, hw, h⟩)
      · exact Or.inl h
      · exact Or.inr ⟨v, List.mem_cons_self, h⟩
      · exact Or.inr ⟨w, List.mem_cons_of_mem _ hw, h⟩
    · rintro (h | ⟨w, hw, h⟩)
      · exact Or.inl (Or.inl h)
      · rcases List.mem_cons.mp hw with rfl | hw'
        · exact Or.inl (Or.inr h)
        · exact Or.inr ⟨w, hw', h⟩

/-- outer fold over the destroyed toplexes -/
theorem member_fold_hits (σ : Simplex) : ∀ (hit : List Simplex) (acc : Toplex) (ρ : Simplex),
    member (hit.foldl (fun acc τ => σ.foldl (fun acc v => insertSimplex acc (without τ v)) acc) acc) ρ = true ↔
      member acc ρ = true ∨ ∃ τ ∈ hit, ∃ v ∈ σ, subset ρ (without τ v) = true := by
  intro hit
  induction hit with
  | nil => intro acc ρ; simp
  | cons τ hit ih =>
    intro acc ρ
    simp only [List.foldl]
    rw [ih, member_fold_facets]
    constructor
    · rintro ((h | ⟨v, hv, h⟩) | ⟨τ', hτ', v, hv, h⟩)
      · exact Or.inl h
      · exact Or.inr ⟨τ, List.mem_cons_self, v, hv, h⟩
      · exact Or.inr ⟨τ', List.mem_cons_of_mem _ hτ', v, hv, h⟩
    · rintro (h | ⟨τ', hτ', v, hv, h⟩)
      · exact Or.inl (Or.inl h)
      · rcases List.mem_cons.mp hτ' with rfl | h'
        · exact Or.inl (Or.inr ⟨v, hv, h⟩)
        · exact Or.inr ⟨τ', h', v, hv, h⟩

/-- **repaired `remove_simplex` deletes exactly the star of σ** -/
theorem member_remove (m : Toplex) (σ ρ : Simplex) :
    member (removeSimplex m σ) ρ = true ↔ member m ρ = true ∧ subset σ ρ = false := by
  unfold removeSimplex
  simp only
  rw [member_fold_hits, member_iff, member_iff]
  constructor
  · rintro (⟨τ, hτ, hs⟩ | ⟨τ, hτ, v, hv, hs⟩)
    · obtain ⟨hτm, hns⟩ := List.mem_filter.mp hτ
      refine ⟨⟨τ, hτm, hs⟩, ?_⟩
      -- σ ⊆ ρ ⊆ τ would contradict ¬ σ ⊆ τ
      cases h : subset σ ρ with
      | false => rfl
      | true => have := subset_trans h hs; simp [this] at hns
    · obtain ⟨hτm, _⟩ := List.mem_filter.mp hτ
      have hsτ : subset ρ τ = true := by
        rw [subset_iff] at hs ⊢
        exact fun x hx => (mem_without.mp (hs x hx)).1
      refine ⟨⟨τ, hτm, hsτ⟩, ?_⟩
      cases h : subset σ ρ with
      | false => rfl
      | true =>
        rw [subset_iff] at h hs
        have := mem_without.mp (hs v (h v hv))
        exact absurd rfl this.2
  · rintro ⟨⟨τ, hτ, hs⟩, hns⟩
    by_cases hστ : subset σ τ = true
    · right
      -- some vertex of σ is missing from ρ
      have : ∃ v ∈ σ, v ∉ ρ := by
        have h := hns
        simp only [subset, List.all_eq_false] at h
        obtain ⟨v, hv, hc⟩ := h
        exact ⟨v, hv, by simpa using hc⟩
      obtain ⟨v, hv, hvρ⟩ := this
      refine ⟨τ, List.mem_filter.mpr ⟨hτ, hστ⟩, v, hv, ?_⟩
      rw [subset_iff] at hs ⊢
      intro x hx
      exact mem_without.mpr ⟨hs x hx, fun e => hvρ (e ▸ hx)⟩
    · left
      exact ⟨τ, List.mem_filter.mpr ⟨hτ, by simp [hστ]⟩, hs⟩

#print axioms member_insert
#print axioms member_remove

/-! ### the stored simplices are the maximal ones -/

/-- no stored simplex is contained in another one (this also excludes duplicates) -/
def Antichain (m : Toplex) : Prop := m.Pairwise fun a b => subset a b = false ∧ subset b a = false

theorem antichain_insert (m : Toplex) (σ : Simplex) (h : Antichain m) : Antichain (insertSimplex m σ) := by
  unfold insertSimplex
  split
  · exact h
  · rename_i hm
    unfold Antichain
    rw [List.pairwise_append]
    refine ⟨List.Pairwise.sublist List.filter_sublist h, List.pairwise_singleton _ _, ?_⟩
    intro τ hτ x hx
    have hx' : x = σ := by simpa using hx
    subst hx'
    obtain ⟨hτm, hns⟩ := List.mem_filter.mp hτ
    refine ⟨by simpa using hns, ?_⟩
    cases hs : subset x τ with
    | false => rfl
    | true => exact absurd ((member_iff m x).mpr ⟨τ, hτm, hs⟩) hm

theorem antichain_fold_facets (τ : Simplex) : ∀ (vs : List Nat) (acc : Toplex), Antichain acc →
    Antichain (vs.foldl (fun acc v => insertSimplex acc (without τ v)) acc) := by
  intro vs
  induction vs with
  | nil => intro acc h; exact h
  | cons v vs ih => intro acc h; exact ih _ (antichain_insert acc _ h)

theorem antichain_remove (m : Toplex) (σ : Simplex) (h : Antichain m) : Antichain (removeSimplex m σ) := by
  unfold removeSimplex
  simp only
  have hk : Antichain (m.filter fun τ => !subset σ τ) := List.Pairwise.sublist List.filter_sublist h
  generalize (m.filter fun τ => subset σ τ) = hit
  generalize (m.filter fun τ => !subset σ τ) = keep at hk
  induction hit generalizing keep with
  | nil => exact hk
  | cons τ hit ih => exact ih _ (antichain_fold_facets τ σ keep hk)

theorem subset_refl (a : Simplex) : subset a a = true := by
  rw [subset_iff]; exact fun x hx => hx

theorem antichain_mem : ∀ (m : Toplex), Antichain m → ∀ a ∈ m, ∀ b ∈ m, a ≠ b → subset a b = false := by
  intro m
  induction m with
  | nil => intro _ a ha; cases ha
  | cons x m ih =>
    intro h a ha b hb hab
    have hp := List.pairwise_cons.mp h
    rcases List.mem_cons.mp ha with rfl | ha'
    · rcases List.mem_cons.mp hb with rfl | hb'
      · exact absurd rfl hab
      · exact (hp.1 b hb').1
    · rcases List.mem_cons.mp hb with rfl | hb'
      · exact (hp.1 a ha').2
      · exact ih hp.2 a ha' b hb' hab

/-- every stored simplex is a maximal simplex of the represented complex -/
theorem stored_is_maximal (m : Toplex) (h : Antichain m) (τ : Simplex) (hτ : τ ∈ m) :
    member m τ = true ∧ ∀ ρ, member m ρ = true → subset τ ρ = true → subset ρ τ = true := by
  refine ⟨(member_iff m τ).mpr ⟨τ, hτ, subset_refl τ⟩, ?_⟩
  intro ρ hρ hτρ
  obtain ⟨τ', hτ', hρτ'⟩ := (member_iff m ρ).mp hρ
  have hsub : subset τ τ' = true := subset_trans hτρ hρτ'
  by_cases hne : τ = τ'
  · rw [hne]; exact hρτ'
  · have := antichain_mem m h τ hτ τ' hτ' hne
    rw [hsub] at this; cases this

/-- every maximal simplex of the represented complex is stored (up to the order of its vertices) -/
theorem maximal_is_stored (m : Toplex) (τ : Simplex) (hmem : member m τ = true)
    (hmax : ∀ ρ, member m ρ = true → subset τ ρ = true → subset ρ τ = true) :
    ∃ τ' ∈ m, subset τ τ' = true ∧ subset τ' τ = true := by
  obtain ⟨τ', hτ', hs⟩ := (member_iff m τ).mp hmem
  exact ⟨τ', hτ', hs, hmax τ' ((member_iff m τ').mpr ⟨τ', hτ', subset_refl τ'⟩) hs⟩

#print axioms antichain_insert
#print axioms antichain_remove
#print axioms stored_is_maximal
#print axioms maximal_is_stored
end ToplexProto
