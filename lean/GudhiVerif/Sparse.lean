import Mathlib.Tactic
import Mathlib.Algebra.Order.Field.Basic

/-! Prototype (C19): the edge rule of `Sparse_rips_complex::compute_sparse_graph` over an ordered field (exact values):
    every edge that is kept gets a value `α ≥ d` — the sparse complex is a sub-filtration of the Rips complex with values not
    smaller; and for `ε ≥ 1 … ` nothing else is claimed here. -/
variable {K : Type*} [Field K] [LinearOrder K] [IsStrictOrderedRing K]

/-- the three branches of the inner loop (`none` = `continue`); `cst = ε(1-ε)/2` -/
def edgeAlpha (ε d li lj maxi : K) : Option K :=
  if d * ε ≤ 2 * lj then (if d ≤ maxi then some d else none)
  else if d * ε > li + lj then none
  else
    let α := (d - lj / ε) * 2
    if ε < 1 ∧ α * (ε * (1 - ε) / 2) > lj then none
    else if α ≤ maxi then some α else none

theorem edgeAlpha_ge (ε d li lj maxi α : K) (hε : 0 < ε) (h : edgeAlpha ε d li lj maxi = some α) :
    d ≤ α ∧ α ≤ maxi := by
  unfold edgeAlpha at h
  split at h
  · split at h
    · rename_i _ hm; cases h; exact ⟨le_refl _, hm⟩
    · cases h
  · rename_i h1
    split at h
    · cases h
    · simp only at h
      split at h
      · cases h
      · split at h
        · rename_i hm
          cases h
          refine ⟨?_, hm⟩
          have h1' : 2 * lj < d * ε := not_le.mp h1
          have : lj / ε < d / 2 := by
            rw [div_lt_div_iff₀ hε (by norm_num : (0:K) < 2)]
            linarith
          linarith
        · cases h

/-- a kept edge also satisfies the sparsity condition `d·ε ≤ li + lj` (both endpoints still alive) -/
theorem edgeAlpha_alive (ε d li lj maxi α : K) (hlj : lj ≤ li) (h : edgeAlpha ε d li lj maxi = some α) :
    d * ε ≤ li + lj := by
  unfold edgeAlpha at h
  split at h
  · rename_i h0; linarith
  · split at h
    · cases h
    · rename_i h2; exact not_lt.mp h2

#print axioms edgeAlpha_ge
