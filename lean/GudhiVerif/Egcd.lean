import GudhiVerif.Model.Fields
import Mathlib.Data.Int.ModEq
import Mathlib.Data.Int.GCD
import Mathlib.Tactic.Ring
import Mathlib.Tactic.Linarith
/-! # C10 — the extended-Euclid loop of `_get_inverse` (multi-field classes)

`egcdLoop fuel A M x y` iterates `(A, M, x, y) ← (M, A % M, y, x − (A / M)·y)` until `A ≤ 1`.  With the invariants
`A ≡ x·e` and `M ≡ y·e` modulo `md` and `gcd(A, M) = 1`, whatever it returns is an inverse of `e` modulo `md`. -/
namespace Egcd
open FieldsModel

theorem egcdLoop_spec (e md : Int) : ∀ (fuel A M : Nat) (x y r : Int),
    egcdLoop fuel A M x y = some r → 1 ≤ A → Nat.gcd A M = 1 →
    (A : Int) ≡ x * e [ZMOD md] → (M : Int) ≡ y * e [ZMOD md] → r * e ≡ 1 [ZMOD md] := by
  intro fuel
  induction fuel with
  | zero => intro A M x y r h; simp [egcdLoop] at h
  | succ f ih =>
    intro A M x y r h hA hg hx hy
    rw [egcdLoop] at h
    by_cases h1 : A ≤ 1
    · rw [if_pos h1] at h
      have hA1 : A = 1 := by omega
      have : x = r := by simpa using h
      subst this; subst hA1
      exact hx.symm
    · rw [if_neg h1] at h
      by_cases h0 : M = 0
      · rw [if_pos h0] at h; simp at h
      · rw [if_neg h0] at h
        apply ih M (A % M) y (x - ((A / M : Nat) : Int) * y) r h (by omega)
        · rw [Nat.gcd_comm, ← Nat.gcd_rec]; rw [Nat.gcd_comm] at hg; exact hg
        · exact hy
        · -- A % M = A - (A / M) * M ≡ x e - q (y e)
          have hdm : ((A % M : Nat) : Int) = (A : Int) - ((A / M : Nat) : Int) * (M : Int) := by
            have := Nat.div_add_mod A M
            have h2 : (A : Int) = (M : Int) * ((A / M : Nat) : Int) + ((A % M : Nat) : Int) := by exact_mod_cast this.symm
            linarith
          rw [hdm]
          have := hx.sub (hy.mul_left (((A / M : Nat) : Int)))
          calc (A : Int) - ((A / M : Nat) : Int) * (M : Int) ≡ x * e - ((A / M : Nat) : Int) * (y * e) [ZMOD md] := this
            _ = (x - ((A / M : Nat) : Int) * y) * e := by ring

/-- size of the coefficients: the Bézout coefficients alternate in sign and `A·|y| + M·|x|` stays equal to the modulus -/
def Inv (md : Int) (A M : Nat) (x y : Int) : Prop :=
  (0 ≤ x ∧ y ≤ 0 ∧ (A : Int) * (-y) + (M : Int) * x = md ∧ x ≤ md ∧ -y ≤ md) ∨
  (x ≤ 0 ∧ 0 ≤ y ∧ (A : Int) * y + (M : Int) * (-x) = md ∧ -x ≤ md ∧ y ≤ md)

theorem egcdLoop_bound (md : Int) : ∀ (fuel A M : Nat) (x y r : Int),
    egcdLoop fuel A M x y = some r → Inv md A M x y → -md ≤ r ∧ r ≤ md := by
  intro fuel
  induction fuel with
  | zero => intro A M x y r h; simp [egcdLoop] at h
  | succ f ih =>
    intro A M x y r h hI
    rw [egcdLoop] at h
    by_cases h1 : A ≤ 1
    · rw [if_pos h1] at h
      have : x = r := by simpa using h
      subst this
      rcases hI with ⟨h0, _, _, hb, _⟩ | ⟨h0, _, _, hb, _⟩ <;> constructor <;> linarith
    · rw [if_neg h1] at h
      by_cases h0 : M = 0
      · rw [if_pos h0] at h; simp at h
      · rw [if_neg h0] at h
        apply ih M (A % M) y (x - ((A / M : Nat) : Int) * y) r h
        have hM : (1 : Int) ≤ (M : Int) := by exact_mod_cast Nat.pos_of_ne_zero h0
        have hq : (0 : Int) ≤ ((A / M : Nat) : Int) := Int.natCast_nonneg _
        have hr : (0 : Int) ≤ ((A % M : Nat) : Int) := Int.natCast_nonneg _
        have hdm : (A : Int) = (M : Int) * ((A / M : Nat) : Int) + ((A % M : Nat) : Int) := by
          exact_mod_cast (Nat.div_add_mod A M).symm
        rcases hI with ⟨hx0, hy0, he, hbx, hby⟩ | ⟨hx0, hy0, he, hbx, hby⟩
        · -- x ≥ 0 ≥ y: the new pair is (y, x − q y) with y ≤ 0 ≤ x − q y
          right
          have hny : 0 ≤ x - ((A / M : Nat) : Int) * y := by nlinarith
          have hid : (M : Int) * (x - ((A / M : Nat) : Int) * y) + ((A % M : Nat) : Int) * (-y) = md := by
            rw [← he, hdm]; ring
          refine ⟨hy0, hny, hid, hby, ?_⟩
          -- M · (x − q y) ≤ md and M ≥ 1
          have : (M : Int) * (x - ((A / M : Nat) : Int) * y) ≤ md := by nlinarith
          nlinarith
        · left
          have hny : x - ((A / M : Nat) : Int) * y ≤ 0 := by nlinarith
          have hid : (M : Int) * (-(x - ((A / M : Nat) : Int) * y)) + ((A % M : Nat) : Int) * y = md := by
            rw [← he, hdm]; ring
          refine ⟨hy0, hny, hid, hby, ?_⟩
          have : (M : Int) * (-(x - ((A / M : Nat) : Int) * y)) ≤ md := by nlinarith
          nlinarith

/-- **`_get_inverse`**: whatever the loop returns for coprime `e ≥ 1` and `md ≥ 1` is the inverse of `e` modulo `md`,
    reduced into `[0, md]` -/
theorem egcdInv_spec (e md iv : Nat) (he : 1 ≤ e) (hmd : 1 ≤ md) (hg : Nat.gcd e md = 1)
    (h : egcdInv e md = some iv) : iv * e % md = 1 % md := by
  unfold egcdInv at h
  cases hl : egcdLoop 200 e md 1 0 with
  | none => rw [hl] at h; simp at h
  | some r =>
    rw [hl] at h
    have hspec := egcdLoop_spec (e : Int) (md : Int) 200 e md 1 0 r hl he hg (by simp) (by simp)
    have hInv : Inv (md : Int) e md 1 0 := by
      left; refine ⟨by norm_num, le_refl _, by ring, by exact_mod_cast hmd, by simp⟩
    obtain ⟨hlo, hhi⟩ := egcdLoop_bound (md : Int) 200 e md 1 0 r hl hInv
    have hiv : (iv : Int) ≡ r [ZMOD md] := by
      simp only [Option.some.injEq] at h
      by_cases hneg : r < 0
      · rw [if_pos hneg] at h
        have : ((r + md).toNat : Int) = r + md := Int.toNat_of_nonneg (by linarith)
        rw [← h, this]
        unfold Int.ModEq; rw [Int.add_emod_right]
      · rw [if_neg hneg] at h
        have : (r.toNat : Int) = r := Int.toNat_of_nonneg (by linarith)
        rw [← h, this]
    have hfin : (iv : Int) * (e : Int) ≡ 1 [ZMOD md] := (hiv.mul_right _).trans hspec
    have h2 : ((iv * e : Nat) : Int) % (md : Int) = ((1 : Nat) : Int) % (md : Int) := by
      push_cast; exact hfin
    exact_mod_cast h2

/-- **fuel**: the second argument halves every two iterations, so `2·n + 2` iterations suffice for `M < 2ⁿ` -/
theorem egcdLoop_terminates : ∀ (n fuel A M : Nat) (x y : Int), M < 2 ^ n → 1 ≤ A → Nat.gcd A M = 1 → 2 * n + 2 ≤ fuel →
    ∃ r, egcdLoop fuel A M x y = some r := by
  intro n
  induction n with
  | zero =>
    intro fuel A M x y hM hA hg hf
    have hM0 : M = 0 := by simpa using hM
    subst hM0
    have hA1 : A = 1 := by simpa using hg
    subst hA1
    obtain ⟨f, rfl⟩ : ∃ f, fuel = f + 1 := ⟨fuel - 1, by omega⟩
    exact ⟨x, by rw [egcdLoop]; simp⟩
  | succ n ih =>
    intro fuel A M x y hM hA hg hf
    obtain ⟨f, rfl⟩ : ∃ f, fuel = f + 1 := ⟨fuel - 1, by omega⟩
    rw [egcdLoop]
    by_cases h1 : A ≤ 1
    · exact ⟨x, by rw [if_pos h1]⟩
    · rw [if_neg h1]
      have hM0 : M ≠ 0 := by
        intro h0; subst h0
        have : A = 1 := by simpa using hg
        omega
      rw [if_neg hM0]
      -- second iteration
      have hg1 : Nat.gcd M (A % M) = 1 := by rw [Nat.gcd_comm, ← Nat.gcd_rec]; rw [Nat.gcd_comm] at hg; exact hg
      obtain ⟨f', rfl⟩ : ∃ f', f = f' + 1 := ⟨f - 1, by omega⟩
      rw [egcdLoop]
      by_cases h2 : M ≤ 1
      · exact ⟨_, by rw [if_pos h2]⟩
      · rw [if_neg h2]
        have hM1 : A % M ≠ 0 := by
          intro h0; rw [h0] at hg1
          have : M = 1 := by simpa using hg1
          omega
        rw [if_neg hM1]
        have hlt : A % M < M := Nat.mod_lt _ (Nat.pos_of_ne_zero hM0)
        have hg2 : Nat.gcd (A % M) (M % (A % M)) = 1 := by
          rw [Nat.gcd_comm, ← Nat.gcd_rec]; rw [Nat.gcd_comm] at hg1; exact hg1
        have hhalf : M % (A % M) < 2 ^ n := by
          have h3 : M % (A % M) < A % M := Nat.mod_lt _ (Nat.pos_of_ne_zero hM1)
          have h4 := Nat.div_add_mod M (A % M)
          have h5 : 1 ≤ M / (A % M) := Nat.div_pos (Nat.le_of_lt hlt) (Nat.pos_of_ne_zero hM1)
          have h6 : A % M ≤ (A % M) * (M / (A % M)) := Nat.le_mul_of_pos_right _ h5
          have h7 : 2 ^ (n + 1) = 2 * 2 ^ n := by rw [Nat.pow_succ]; omega
          omega
        exact ih f' (A % M) (M % (A % M)) _ _ hhalf (Nat.pos_of_ne_zero hM1) hg2 (by omega)

/-- the model's 200 iterations are enough for every modulus below 2⁹⁹ -/
theorem egcdInv_isSome (e md : Nat) (he : 1 ≤ e) (hg : Nat.gcd e md = 1) (hmd : md < 2 ^ 99) :
    ∃ iv, egcdInv e md = some iv := by
  obtain ⟨r, hr⟩ := egcdLoop_terminates 99 200 e md 1 0 hmd he hg (by norm_num)
  exact ⟨_, by unfold egcdInv; rw [hr]⟩

end Egcd
