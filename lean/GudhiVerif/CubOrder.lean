import GudhiVerif.CubBridge
/-! # C13 — the filtration order of the executable cubical model is total, non-decreasing and faces-first

`CubModel.Shape.order value` sorts the positions by `(value, dimension, position)` (`is_before_in_filtration`).  Proved here,
for every shape and every value function: it is a permutation of the positions, values never decrease along it, and — when
the values are a lower-star assignment (a face never has a larger value than the cell, which is what the two impositions
compute) — every face listed by `Shape.boundary` comes strictly before the cell. -/
namespace CubBridge
open CubModel

theorem leCell_iff (a b : Int × Nat × Nat) :
    leCell a b = true ↔ a.1 < b.1 ∨ (a.1 = b.1 ∧ (a.2.1 < b.2.1 ∨ (a.2.1 = b.2.1 ∧ a.2.2 ≤ b.2.2))) := by
  unfold leCell
  by_cases h1 : a.1 = b.1
  · by_cases h2 : a.2.1 = b.2.1
    · simp [h1, h2]
    · simp [h1, h2]
  · simp [h1]

theorem leCell_trans (a b c : Int × Nat × Nat) : leCell a b = true → leCell b c = true → leCell a c = true := by
  rw [leCell_iff, leCell_iff, leCell_iff]; omega

theorem leCell_total (a b : Int × Nat × Nat) : (leCell a b || leCell b a) = true := by
  rw [Bool.or_eq_true, leCell_iff, leCell_iff]; omega

/-- the sorted list of `(value, dimension, position)` triples -/
def triples (sh : Shape) (value : Nat → Int) : List (Int × Nat × Nat) :=
  ((List.range sh.total).map fun pos => (value pos, sh.dimOf pos, pos)).mergeSort leCell

theorem order_eq (sh : Shape) (value : Nat → Int) : sh.order value = (triples sh value).map (·.2.2) := rfl

theorem triples_perm (sh : Shape) (value : Nat → Int) :
    (triples sh value).Perm ((List.range sh.total).map fun pos => (value pos, sh.dimOf pos, pos)) :=
  List.mergeSort_perm _ _

theorem triples_form (sh : Shape) (value : Nat → Int) (t : Int × Nat × Nat) (ht : t ∈ triples sh value) :
    t = (value t.2.2, sh.dimOf t.2.2, t.2.2) ∧ t.2.2 < sh.total := by
  have := (triples_perm sh value).mem_iff.mp ht
  simp only [List.mem_map, List.mem_range] at this
  obtain ⟨pos, hpos, rfl⟩ := this
  exact ⟨rfl, hpos⟩

/-- **total**: the order lists every position exactly once -/
theorem order_perm (sh : Shape) (value : Nat → Int) : (sh.order value).Perm (List.range sh.total) := by
  rw [order_eq]
  have := (triples_perm sh value).map (·.2.2)
  simpa [List.map_map, Function.comp_def] using this

theorem triples_sorted (sh : Shape) (value : Nat → Int) : (triples sh value).Pairwise (fun a b => leCell a b = true) :=
  List.pairwise_mergeSort leCell_trans leCell_total _

/-- **non-decreasing**: values never decrease along the order -/
theorem order_nondecreasing (sh : Shape) (value : Nat → Int) (i j : Nat) (hij : i < j)
    (hj : j < (sh.order value).length) : value (sh.order value)[i] ≤ value (sh.order value)[j] := by
  have hlen : (sh.order value).length = (triples sh value).length := by rw [order_eq, List.length_map]
  have hi' : i < (triples sh value).length := by omega
  have hj' : j < (triples sh value).length := by omega
  have hs := (List.pairwise_iff_getElem.mp (triples_sorted sh value)) i j hi' hj' hij
  have ei : (sh.order value)[i] = ((triples sh value)[i]).2.2 := by simp [order_eq]
  have ej : (sh.order value)[j] = ((triples sh value)[j]).2.2 := by simp [order_eq]
  obtain ⟨fi, _⟩ := triples_form sh value _ (List.getElem_mem hi')
  obtain ⟨fj, _⟩ := triples_form sh value _ (List.getElem_mem hj')
  rw [leCell_iff] at hs
  rw [ei, ej]
  have h1 : ((triples sh value)[i]).1 = value ((triples sh value)[i]).2.2 := by rw [fi]
  have h2 : ((triples sh value)[j]).1 = value ((triples sh value)[j]).2.2 := by rw [fj]
  omega

/-- **faces first**: with lower-star values, a face listed by `Shape.boundary` comes strictly before the cell -/
theorem order_faces_first (sh : Shape) (hper : ∀ i, sh.isPer i = false) (value : Nat → Int)
    (hmono : ∀ pos f, pos < sh.total → f ∈ sh.boundary false pos → value f ≤ value pos)
    (i j : Nat) (hi : i < (sh.order value).length) (hj : j < (sh.order value).length)
    (hb : (sh.order value)[j] ∈ sh.boundary false (sh.order value)[i]) : j < i := by
  have hlen : (sh.order value).length = (triples sh value).length := by rw [order_eq, List.length_map]
  have hi' : i < (triples sh value).length := by omega
  have hj' : j < (triples sh value).length := by omega
  have ei : (sh.order value)[i] = ((triples sh value)[i]).2.2 := by simp [order_eq]
  have ej : (sh.order value)[j] = ((triples sh value)[j]).2.2 := by simp [order_eq]
  obtain ⟨fi, hti⟩ := triples_form sh value _ (List.getElem_mem hi')
  obtain ⟨fj, _⟩ := triples_form sh value _ (List.getElem_mem hj')
  rw [ei, ej] at hb
  have hdim := boundary_dim sh hper _ hti _ hb
  have hval := hmono _ _ hti hb
  have h1 : ((triples sh value)[i]).1 = value ((triples sh value)[i]).2.2 := by rw [fi]
  have h2 : ((triples sh value)[j]).1 = value ((triples sh value)[j]).2.2 := by rw [fj]
  have d1 : ((triples sh value)[i]).2.1 = sh.dimOf ((triples sh value)[i]).2.2 := by rw [fi]
  have d2 : ((triples sh value)[j]).2.1 = sh.dimOf ((triples sh value)[j]).2.2 := by rw [fj]
  by_cases hlt : j < i
  · exact hlt
  · exfalso
    have hne : i ≠ j := by
      intro e; subst e; omega
    have hs := (List.pairwise_iff_getElem.mp (triples_sorted sh value)) i j hi' hj' (by omega)
    rw [leCell_iff] at hs
    omega

end CubBridge
