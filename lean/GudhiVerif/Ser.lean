import GudhiVerif.Trie
/-! Prototype (C15): `rec_serialize` / `rec_deserialize` of the simplex tree at token level (a token is a vertex-sized
    integer — a label or a member count — or a filtration value; the byte encoding of a token is a separate injective
    layer).  Round trip and size formula.  Core Lean only. -/
namespace SerProto
open TrieProto TrieProto.Forest

inductive Tok where
  | v (n : Nat)     -- `Vertex_handle`-sized: label or number of members
  | f (x : Int)     -- filtration value
deriving Repr, DecidableEq

def len : Forest → Nat
  | nil => 0
  | cons _ _ _ r => len r + 1

/-- first loop of `rec_serialize`: label and filtration of every member -/
def members : Forest → List Tok
  | nil => []
  | cons l x _ r => .v l :: .f x :: members r

/-- second loop: for every member its children (`rec_serialize`, or the single count 0) -/
def kidsSer : Forest → List Tok
  | nil => []
  | cons _ _ k r => (.v (len k) :: members k ++ kidsSer k) ++ kidsSer r

def ser (t : Forest) : List Tok := .v (len t) :: members t ++ kidsSer t

def size : Forest → Nat
  | nil => 0
  | cons _ _ k r => size k + size r + 1

def isV : Tok → Bool
  | .v _ => true
  | .f _ => false
def isF : Tok → Bool
  | .v _ => false
  | .f _ => true
def vtoks (ts : List Tok) : Nat := ts.countP isV
def ftoks (ts : List Tok) : Nat := ts.countP isF

theorem vtoks_append (a b : List Tok) : vtoks (a ++ b) = vtoks a + vtoks b := by simp [vtoks]
theorem ftoks_append (a b : List Tok) : ftoks (a ++ b) = ftoks a + ftoks b := by simp [ftoks]
theorem vtoks_v (n : Nat) (ts : List Tok) : vtoks (.v n :: ts) = vtoks ts + 1 := by
  unfold vtoks; rw [List.countP_cons_of_pos (by rfl)]
theorem vtoks_f (x : Int) (ts : List Tok) : vtoks (.f x :: ts) = vtoks ts := by simp [vtoks, isV]
theorem ftoks_v (n : Nat) (ts : List Tok) : ftoks (.v n :: ts) = ftoks ts := by simp [ftoks, isF]
theorem ftoks_f (x : Int) (ts : List Tok) : ftoks (.f x :: ts) = ftoks ts + 1 := by
  unfold ftoks; rw [List.countP_cons_of_pos (by rfl)]

theorem members_counts (t : Forest) : vtoks (members t) = len t ∧ ftoks (members t) = len t := by
  induction t with
  | nil => simp [members, vtoks, ftoks, len]
  | cons l x k r _ ihr =>
    simp only [members, len, vtoks_v, vtoks_f, ftoks_v, ftoks_f]
    omega

theorem kidsSer_counts (t : Forest) : vtoks (kidsSer t) + len t = 2 * size t ∧ ftoks (kidsSer t) + len t = size t := by
  induction t with
  | nil => simp [kidsSer, vtoks, ftoks, len, size]
  | cons l x k r ihk ihr =>
    have hm := members_counts k
    simp only [kidsSer, len, size, List.cons_append, vtoks_append, ftoks_append, vtoks_v, ftoks_v]
    omega

/-- **size formula**: `get_serialization_size = w_v·(2·N + 1) + Σ w_f` -/
theorem ser_counts (t : Forest) : vtoks (ser t) = 2 * size t + 1 ∧ ftoks (ser t) = size t := by
  have h1 := members_counts t
  have h2 := kidsSer_counts t
  simp only [ser, List.cons_append, vtoks_append, ftoks_append, vtoks_v, ftoks_v]
  omega

/-! ### deserialisation -/

def memList : Forest → List (Nat × Int)
  | nil => []
  | cons l x _ r => (l, x) :: memList r

/-- first loop of `rec_deserialize` -/
def readMembers : Nat → List Tok → Option (List (Nat × Int) × List Tok)
  | 0, ts => some ([], ts)
  | n + 1, .v l :: .f x :: ts => (readMembers n ts).bind fun r => some ((l, x) :: r.1, r.2)
  | _ + 1, _ => none

/-- second loop: read the child count of every member, recurse when it is positive (`fuel` bounds the depth) -/
def desKids : Nat → List (Nat × Int) → List Tok → Option (Forest × List Tok)
  | _, [], ts => some (nil, ts)
  | 0, _ :: _, _ => none
  | fuel + 1, (l, x) :: ms, .v c :: ts =>
    (if c = 0 then some (nil, ts) else (readMembers c ts).bind fun m => desKids fuel m.1 m.2).bind fun ch =>
      (desKids (fuel + 1) ms ch.2).bind fun rs => some (cons l x ch.1 rs.1, rs.2)
  | _ + 1, _ :: _, _ => none
termination_by fuel ms => (fuel, ms.length)
decreasing_by
  all_goals simp_wf
  · apply Prod.Lex.left; omega
  · apply Prod.Lex.right; omega

def deser : List Tok → Option (Forest × List Tok)
  | .v n :: ts => (readMembers n ts).bind fun m => desKids ts.length m.1 m.2
  | _ => none

def depth : Forest → Nat
  | nil => 0
  | cons _ _ k r => max (depth k + 1) (depth r)

theorem readMembers_members (t : Forest) (rest : List Tok) :
    readMembers (len t) (members t ++ rest) = some (memList t, rest) := by
  induction t with
  | nil => simp [len, members, memList, readMembers]
  | cons l x k r _ ihr => simp [len, members, memList, readMembers, ihr]

theorem len_eq_zero {t : Forest} (h : len t = 0) : t = nil := by
  cases t with
  | nil => rfl
  | cons _ _ _ _ => simp [len] at h

theorem desKids_kidsSer (t : Forest) : ∀ (fuel : Nat) (rest : List Tok), depth t ≤ fuel →
    desKids fuel (memList t) (kidsSer t ++ rest) = some (t, rest) := by
  induction t with
  | nil => intro fuel rest _; simp [memList, kidsSer, desKids]
  | cons l x k r ihk ihr =>
    intro fuel rest hd
    simp only [depth] at hd
    obtain ⟨f, rfl⟩ : ∃ f, fuel = f + 1 := ⟨fuel - 1, by omega⟩
    have hk : depth k ≤ f := by omega
    have hr : depth r ≤ f + 1 := by omega
    have e : kidsSer (cons l x k r) ++ rest = .v (len k) :: (members k ++ (kidsSer k ++ (kidsSer r ++ rest))) := by
      simp [kidsSer, List.append_assoc]
    rw [memList, e, desKids]
    by_cases hz : len k = 0
    · have hkn := len_eq_zero hz
      subst hkn
      simp [len, members, kidsSer, ihr (f + 1) rest hr]
    · rw [if_neg hz, readMembers_members k]
      simp only [Option.bind_some]
      rw [ihk f _ hk]
      simp only [Option.bind_some]
      rw [ihr (f + 1) rest hr]
      simp

theorem depth_le_size (t : Forest) : depth t ≤ size t := by
  induction t with
  | nil => simp [depth, size]
  | cons l x k r ihk ihr => simp only [depth, size]; omega

theorem size_le_length (t : Forest) : size t ≤ (members t ++ kidsSer t).length := by
  have h := ser_counts t
  have : (ser t).length = (members t ++ kidsSer t).length + 1 := by simp [ser]
  have hv : vtoks (ser t) ≤ (ser t).length := List.countP_le_length
  omega

/-- **round trip**: `deserialize (serialize t) = t`, consuming exactly the buffer -/
theorem deser_ser (t : Forest) : deser (ser t) = some (t, []) := by
  unfold ser
  rw [show (Tok.v (len t) :: members t ++ kidsSer t) = Tok.v (len t) :: (members t ++ kidsSer t) from rfl, deser]
  rw [readMembers_members t (kidsSer t)]
  simp only [Option.bind_some]
  have := desKids_kidsSer t (members t ++ kidsSer t).length [] (Nat.le_trans (depth_le_size t) (size_le_length t))
  simpa using this

#print axioms ser_counts
#print axioms deser_ser
end SerProto
