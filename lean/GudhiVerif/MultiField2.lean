import GudhiVerif.MultiField
import GudhiVerif.Egcd
/-! # C10 — the partial inverse of the multi-field classes, with the Euclid loop proved -/
namespace MultiField
open FieldsModel

/-- for `Q` dividing the square-free characteristic, `x` is invertible modulo `T = Q / gcd(x, Q)` -/
theorem coprime_div_gcd (m : MF) (h : WF m) (x Q : Nat) (hQP : Q ∣ m.P) :
    Nat.Coprime x (Q / Nat.gcd x Q) := by
  by_contra hc
  obtain ⟨p, hp, hpd⟩ := Nat.exists_prime_and_dvd hc
  have hpx : p ∣ x := hpd.trans (Nat.gcd_dvd_left _ _)
  have hpT : p ∣ Q / Nat.gcd x Q := hpd.trans (Nat.gcd_dvd_right _ _)
  have hgQ : Nat.gcd x Q ∣ Q := Nat.gcd_dvd_right x Q
  have hpQ : p ∣ Q := hpT.trans (Nat.div_dvd_of_dvd hgQ)
  have hpg : p ∣ Nat.gcd x Q := Nat.dvd_gcd hpx hpQ
  have hpp : p * p ∣ Q := by
    have := Nat.mul_dvd_mul hpg hpT
    rwa [Nat.mul_div_cancel' hgQ] at this
  have hppP : p * p ∣ m.P := hpp.trans hQP
  -- p is one of the primes of the field, and divides P / p: impossible
  have hpP : p ∣ m.primes.prod := by rw [← h.prod]; exact (Dvd.intro _ rfl : p ∣ p * p).trans hppP
  obtain ⟨a, ha, hpa⟩ := (Prime.dvd_prod_iff (Nat.prime_iff.mp hp)).mp hpP
  have hpa' : p = a := (Nat.prime_dvd_prime_iff_eq hp (h.prime a ha)).mp hpa
  subst hpa'
  obtain ⟨_, hcop, _⟩ := prod_div m.primes h.nodup h.prime p ha
  rw [← h.prod] at hcop
  have hpos : 0 < p := hp.pos
  have hdvd : p ∣ m.P / p := by
    have hpdP : p ∣ m.P := (Dvd.intro _ rfl : p ∣ p * p).trans hppP
    exact (Nat.dvd_div_iff_mul_dvd hpdP).mpr hppP
  have := Nat.Coprime.eq_one_of_dvd hcop.symm hdvd
  exact hp.one_lt.ne' this

/-- **`get_partial_inverse(x, Q)`** for `Q` dividing the characteristic and `x ≥ 1`: if the Euclid loop returns at all, the
    returned value is an inverse of `x` modulo every prime of the field dividing `T = Q / gcd(x, Q)` and 0 modulo the others -/
theorem mfPinv_correct (m : MF) (h : WF m) (x Q : Nat) (hx : 1 ≤ x) (hQ : Q ≠ 0) (hQP : Q ∣ m.P)
    (hne : Nat.gcd x Q ≠ Q) (iv : Nat) (hiv : egcdInv x (Q / Nat.gcd x Q) = some iv) :
    ∃ v, mfPinv m x Q = some (v, Q / Nat.gcd x Q) ∧ ∀ q ∈ m.primes,
      (q ∣ Q / Nat.gcd x Q → v * x % q = 1) ∧ (¬ q ∣ Q / Nat.gcd x Q → v % q = 0) := by
  have hT : 1 ≤ Q / Nat.gcd x Q := by
    have hg : Nat.gcd x Q ∣ Q := Nat.gcd_dvd_right x Q
    have hgpos : 0 < Nat.gcd x Q := Nat.gcd_pos_of_pos_right x (Nat.pos_of_ne_zero hQ)
    exact Nat.div_pos (Nat.le_of_dvd (Nat.pos_of_ne_zero hQ) hg) hgpos
  exact mfPinv_spec m h x Q hQ hne iv hiv
    (Egcd.egcdInv_spec x (Q / Nat.gcd x Q) iv hx hT (coprime_div_gcd m h x Q hQP) hiv)

/-- the same without any hypothesis on the loop, for moduli below 2⁹⁹ (the fuel of the model is proved sufficient there) -/
theorem mfPinv_total (m : MF) (h : WF m) (x Q : Nat) (hx : 1 ≤ x) (hQ : Q ≠ 0) (hQP : Q ∣ m.P)
    (hne : Nat.gcd x Q ≠ Q) (hsmall : Q / Nat.gcd x Q < 2 ^ 99) :
    ∃ v, mfPinv m x Q = some (v, Q / Nat.gcd x Q) ∧ ∀ q ∈ m.primes,
      (q ∣ Q / Nat.gcd x Q → v * x % q = 1) ∧ (¬ q ∣ Q / Nat.gcd x Q → v % q = 0) := by
  obtain ⟨iv, hiv⟩ := Egcd.egcdInv_isSome x (Q / Nat.gcd x Q) hx (coprime_div_gcd m h x Q hQP) hsmall
  exact mfPinv_correct m h x Q hx hQ hQP hne iv hiv

end MultiField
