/-! Prototype: Zp_field_operators::_multiply (double-and-add with unsigned wrap-around). Core Lean only. -/
namespace ZpProto

def W : Nat := 4294967296  -- 2^32

/-- C++ `unsigned int` subtraction and addition (wrap-around) -/
def usub (x y : Nat) : Nat := (x + W - y % W) % W
def uadd (x y : Nat) : Nat := (x + y) % W

/-- one step "x += y (mod p) without overflow", as written in the C++: 
    `if (y >= p - x) x -= p; x += y;` -/
def addmod (x y p : Nat) : Nat :=
  let x1 := if y ≥ usub p x then usub x p else x
  uadd x1 y

theorem addmod_spec (x y p : Nat) (hp : p < W) (hx : x < p) (hy : y < p) :
    addmod x y p = (x + y) % p := by
  unfold addmod usub uadd W at *
  simp only
  split
  · rename_i h
    have h1 : (p + 4294967296 - x % 4294967296) % 4294967296 = p - x := by omega
    rw [h1] at h
    have h2 : (x + 4294967296 - p % 4294967296) % 4294967296 = x + 4294967296 - p := by omega
    rw [h2]
    have : x + y < 2 * p := by omega
    have h3 : (x + y) % p = x + y - p := by
      rw [Nat.mod_eq_sub_mod (by omega)]
      exact Nat.mod_eq_of_lt (by omega)
    omega
  · rename_i h
    have h1 : (p + 4294967296 - x % 4294967296) % 4294967296 = p - x := by omega
    rw [h1] at h
    have : x + y < p := by omega
    rw [Nat.mod_eq_of_lt this]
    omega

/-- the loop of `_multiply`; `a` is the remaining multiplier -/
def mulLoop (p : Nat) : (a acc b : Nat) → Nat
  | 0, acc, _ => acc
  | a+1, acc, b =>
    let acc' := if (a+1) % 2 = 1 then addmod acc b p else acc
    mulLoop p ((a+1) / 2) acc' (addmod b b p)
termination_by a => a
decreasing_by omega

def multiply (e1 e2 p : Nat) : Nat := mulLoop p e1 0 e2

theorem mulLoop_spec (p : Nat) (hp0 : 0 < p) (hp : p < W) :
    ∀ a acc b, acc < p → b < p → mulLoop p a acc b = (acc + a * b) % p := by
  intro a
  induction a using Nat.strongRecOn with
  | ind a ih =>
    intro acc b hacc hb
    cases a with
    | zero => simp [mulLoop, Nat.mod_eq_of_lt hacc]
    | succ a =>
      rw [mulLoop]
      have hbb : addmod b b p < p := by rw [addmod_spec b b p hp hb hb]; exact Nat.mod_lt _ hp0
      have hdiv : (a+1)/2 < a+1 := by omega
      split
      · rename_i hodd
        have hacc' : addmod acc b p < p := by rw [addmod_spec acc b p hp hacc hb]; exact Nat.mod_lt _ hp0
        rw [ih _ hdiv _ _ hacc' hbb, addmod_spec acc b p hp hacc hb, addmod_spec b b p hp hb hb]
        have h2 : a + 1 = 2 * ((a+1)/2) + 1 := by omega
        conv => rhs; rw [h2]
        rw [Nat.add_mod, Nat.mod_mod, Nat.mul_mod, Nat.mod_mod, ← Nat.mul_mod, ← Nat.add_mod]
        congr 1
        rw [Nat.add_mul, Nat.one_mul, Nat.mul_assoc, Nat.mul_comm 2, Nat.mul_assoc]
        have : (a + 1) / 2 * (b + b) = (a+1)/2 * (b*2) := by rw [Nat.mul_two]
        omega
      · rename_i heven
        rw [ih _ hdiv _ _ hacc hbb, addmod_spec b b p hp hb hb]
        have h2 : a + 1 = 2 * ((a+1)/2) := by omega
        conv => rhs; rw [h2]
        rw [Nat.add_mod, Nat.mul_mod, Nat.mod_mod, ← Nat.mul_mod, ← Nat.add_mod]
        congr 1
        rw [Nat.mul_assoc, Nat.mul_comm 2, Nat.mul_assoc, Nat.mul_two]
        

theorem multiply_spec (p e1 e2 : Nat) (hp0 : 0 < p) (hp : p < W) (h2 : e2 < p) :
    multiply e1 e2 p = (e1 * e2) % p := by
  unfold multiply
  rw [mulLoop_spec p hp0 hp e1 0 e2 hp0 h2]; simp

#print axioms multiply_spec
end ZpProto
