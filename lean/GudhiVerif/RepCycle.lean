import GudhiVerif.Pairing

/-! Prototype: representative cycles read off a certificate (C08), and invariance of lows under left multiplication by
    an invertible upper-triangular matrix (used by C02/C08). -/
open Matrix

variable {n : ℕ} {F : Type*} [Field F]

/-- for a zero column `j` of `R`, column `j` of `V` is a cycle -/
theorem rep_is_cycle {D R V : Matrix (Fin n) (Fin n) F} (h : Cert D R V) (j : Fin n) (hz : colv R j = 0) :
    D *ᵥ (colv V j) = 0 := by
  have : colv R j = D *ᵥ (colv V j) := by
    funext i
    simp [colv, h.factor, Matrix.mul_apply, Matrix.mulVec, dotProduct]
  rw [← this, hz]

/-- its youngest cell is `j` (the birth cell) -/
theorem rep_youngest {D R V : Matrix (Fin n) (Fin n) F} (h : Cert D R V) (j : Fin n) : IsLow (colv V j) j :=
  ⟨h.diag j, fun _ hk => h.upper hk⟩

/-- a negative column `k` with `low R k = j` exhibits the class of the representative of `j` as a boundary at time `k`,
    up to older cells: `R k` is `D` applied to a chain supported on cells `≤ k`, and its leading cell is `j` -/
theorem rep_dies {D R V : Matrix (Fin n) (Fin n) F} (h : Cert D R V) (k j : Fin n) (hl : IsLow (colv R k) j) :
    colv R k = D *ᵥ (colv V k) ∧ IsLow (colv V k) k ∧ IsLow (colv R k) j := by
  refine ⟨?_, rep_youngest h k, hl⟩
  funext i
  simp [colv, h.factor, Matrix.mul_apply, Matrix.mulVec, dotProduct]

/-- left multiplication by an invertible upper-triangular matrix does not move the lowest entry of a vector -/
theorem low_mulVec_upper {U : Matrix (Fin n) (Fin n) F} (hU : U.BlockTriangular id) (hd : ∀ i, U i i ≠ 0)
    (v : Fin n → F) (i : Fin n) (hv : IsLow v i) : IsLow (U *ᵥ v) i := by
  constructor
  · -- (U v)_i = U_ii v_i  (entries of v below i vanish, entries of U left of the diagonal vanish)
    have : (U *ᵥ v) i = U i i * v i := by
      simp only [Matrix.mulVec, dotProduct]
      apply Finset.sum_eq_single i
      · intro b _ hb
        rcases lt_or_gt_of_ne hb with h | h
        · have : U i b = 0 := hU h
          simp [this]
        · simp [hv.2 b h]
      · intro h; exact absurd (Finset.mem_univ i) h
    rw [this]; exact mul_ne_zero (hd i) hv.1
  · intro k hk
    simp only [Matrix.mulVec, dotProduct]
    apply Finset.sum_eq_zero
    intro b _
    by_cases hb : b < k
    · have : U k b = 0 := hU hb
      simp [this]
    · have : i < b := lt_of_lt_of_le hk (not_lt.mp hb)
      simp [hv.2 b this]

#print axioms rep_is_cycle
#print axioms low_mulVec_upper
