import GudhiVerif.Expand
/-! Prototype (C04): the filtration values created by `expansion`.  `intersection` gives a common label the maximum of its
    two values and of the value of the node being expanded; hence every simplex created below a path `P` gets the value
    `V (P ++ w)` for any function `V` that satisfies the clique recursion
    `V (P ++ [v, x]) = max (V (P ++ [x])) (edge v x) (V (P ++ [v]))` — in particular the maximum over the vertices and
    edges of the simplex.  Core Lean only. -/
namespace ExpandProto

def valOf : Sibs → Nat → Option Val
  | [], _ => none
  | (a, fa) :: s, x => if a = x then some fa else valOf s x

theorem valOf_none_of_lt {a : Nat} {fa : Val} {s : Sibs} (hs : Inc ((a, fa) :: s)) {x : Nat} (hx : x < a) :
    valOf ((a, fa) :: s) x = none := by
  induction s generalizing a fa with
  | nil => simp [valOf]; omega
  | cons h t ih =>
    obtain ⟨b, fb⟩ := h
    have hab : a < b := hs.1
    have := ih hs.2 (by omega : x < b)
    simp only [valOf] at this ⊢
    rw [if_neg (by omega)]; exact this

theorem valOf_tail_none {a : Nat} {fa : Val} {s : Sibs} (hs : Inc ((a, fa) :: s)) {x : Nat} (hx : x ≤ a) :
    valOf s x = none := by
  cases s with
  | nil => rfl
  | cons h t => obtain ⟨b, fb⟩ := h; exact valOf_none_of_lt hs.2 (by have := hs.1; omega)

def comb (fil : Val) : Option Val → Option Val → Option Val
  | some a, some b => some (max (max a b) fil)
  | _, _ => none

theorem comb_none_left (fil : Val) (o : Option Val) : comb fil none o = none := by cases o <;> rfl
theorem comb_none_right (fil : Val) (o : Option Val) : comb fil o none = none := by cases o <;> rfl

/-- value of a label in the intersection -/
theorem valOf_inter (fil : Val) (s t : Sibs) (hs : Inc s) (ht : Inc t) (x : Nat) :
    valOf (inter fil s t) x = comb fil (valOf s x) (valOf t x) := by
  induction s, t using inter.induct with
  | case1 t => simp [inter, valOf, comb_none_left]
  | case2 s hne =>
    cases s with
    | nil => simp [inter, valOf, comb_none_left]
    | cons h s' => simp only [inter, valOf]; rw [comb_none_right]
  | case3 fa s a fb t ih =>
    rw [inter]; simp only [if_true, valOf]
    by_cases hax : a = x
    · simp [hax, comb]
    · simp only [hax, if_false]; exact ih hs.tail ht.tail
  | case4 a fa s b fb t hne hlt ih =>
    rw [inter]; simp only [hne, hlt, if_false, if_true]
    rw [ih hs.tail ht]
    by_cases hax : a = x
    · subst hax
      have h1 : valOf s a = none := valOf_tail_none hs (Nat.le_refl _)
      have h2 : valOf ((b, fb) :: t) a = none := valOf_none_of_lt ht hlt
      rw [h1, h2, comb_none_left, comb_none_right]
    · simp only [valOf, hax, if_false]
  | case5 a fa s b fb t hne hlt ih =>
    have hgt : b < a := by omega
    rw [inter]; simp only [hne, hlt, if_false]
    rw [ih hs ht.tail]
    by_cases hbx : b = x
    · subst hbx
      have h1 : valOf ((a, fa) :: s) b = none := valOf_none_of_lt hs hgt
      have h2 : valOf t b = none := valOf_tail_none ht (Nat.le_refl _)
      rw [h1, h2, comb_none_left, comb_none_left]
    · simp only [valOf, hbx, if_false]

/-- edge value between `v` and an upper neighbour `x` -/
def edge (N : Nat → Sibs) (v x : Nat) : Val := (valOf (N v) x).getD 0

/-- **values of the expansion**: if the values of a sibling list below the path `P` are `V (P ++ [x])`, every simplex
    `P ++ w` created by `expansion` gets the value `V (P ++ w)` -/
theorem expand_values (N : Nat → Sibs) (hN : ∀ v, Inc (N v)) (V : List Nat → Val)
    (hV : ∀ P v x, V (P ++ [v, x]) = max (max (V (P ++ [x])) (edge N v x)) (V (P ++ [v]))) :
    ∀ (k : Nat) (sibs : Sibs), Inc sibs → ∀ P : List Nat, (∀ x g, valOf sibs x = some g → g = V (P ++ [x])) →
      ∀ w g, (w, g) ∈ expand N k sibs → g = V (P ++ w) := by
  intro k sibs
  induction k, sibs using expand.induct N with
  | case1 k => intro _ P _ w g h; simp [expand] at h
  | case2 v f rest ih =>
    intro hs P hS w g h
    rw [expand] at h
    rcases List.mem_cons.mp h with heq | hmem
    · cases heq
      exact hS v f (by simp [valOf])
    · refine ih hs.tail P ?_ w g hmem
      intro x g' hx
      have hvx : v ≠ x := by
        intro e; subst e
        rw [valOf_tail_none hs (Nat.le_refl _)] at hx; cases hx
      exact hS x g' (by simp [valOf, hvx, hx])
  | case3 k v f rest ih1 ih2 =>
    intro hs P hS w g h
    rw [expand] at h
    have hSrest : ∀ x g', valOf rest x = some g' → g' = V (P ++ [x]) := by
      intro x g' hx
      have hvx : v ≠ x := by
        intro e; subst e
        rw [valOf_tail_none hs (Nat.le_refl _)] at hx; cases hx
      exact hS x g' (by simp [valOf, hvx, hx])
    rcases List.mem_cons.mp h with heq | hmem
    · cases heq
      exact hS v f (by simp [valOf])
    · rcases List.mem_append.mp hmem with hk | hr
      · obtain ⟨⟨w', g'⟩, hw', heq⟩ := List.mem_map.mp hk
        cases heq
        have hf : f = V (P ++ [v]) := hS v f (by simp [valOf])
        have := ih1 (inc_inter f rest (N v) hs.tail (hN v)) (P ++ [v]) ?_ w' g hw'
        · rw [this, List.append_assoc]; rfl
        · intro x gx hx
          rw [valOf_inter f rest (N v) hs.tail (hN v)] at hx
          cases ha : valOf rest x with
          | none => rw [ha, comb_none_left] at hx; cases hx
          | some a =>
            cases hb : valOf (N v) x with
            | none => rw [ha, hb, comb_none_right] at hx; cases hx
            | some b =>
              rw [ha, hb] at hx
              simp only [comb, Option.some.injEq] at hx
              rw [← hx, List.append_assoc]
              show max (max a b) f = V (P ++ [v, x])
              rw [hV P v x, hSrest x a ha, hf]
              simp [edge, hb]
      · exact ih2 hs.tail P hSrest w g hr

/-! ### the maximum over the vertices and edges of a simplex satisfies the clique recursion -/

/-- maximum of the edge values from the vertices of a non-empty list to `x` -/
def edgesTo (e : Nat → Nat → Val) : List Nat → Nat → Val
  | [], _ => 0
  | [u], x => e u x
  | u :: u2 :: us, x => max (e u x) (edgesTo e (u2 :: us) x)

/-- clique value of a word given last vertex first: the maximum of all vertex values and all edge values -/
def cliqueVal (f : Nat → Val) (e : Nat → Nat → Val) : List Nat → Val
  | [] => 0
  | [x] => f x
  | x :: v :: pr => max (cliqueVal f e (v :: pr)) (max (f x) (edgesTo e (v :: pr) x))

/-- the clique recursion (words written last vertex first): the value of `… v x` is the maximum of the values of `… x`,
    `… v` and of the edge `v x` -/
theorem cliqueVal_rec (f : Nat → Val) (e : Nat → Nat → Val) (x v : Nat) (pr : List Nat) :
    cliqueVal f e (x :: v :: pr) =
      max (max (cliqueVal f e (x :: pr)) (e v x)) (cliqueVal f e (v :: pr)) := by
  cases pr with
  | nil =>
    simp only [cliqueVal, edgesTo]
    show (max (f v) (max (f x) (e v x)) : Int) = max (max (f x) (e v x)) (f v)
    omega
  | cons u us =>
    simp only [cliqueVal, edgesTo]
    generalize (cliqueVal f e (u :: us) : Int) = c0
    generalize (edgesTo e (u :: us) x : Int) = ex
    generalize (edgesTo e (u :: us) v : Int) = ev
    show (max (max c0 (max (f v) ev)) (max (f x) (max (e v x) ex)) : Int)
        = max (max (max c0 (max (f x) ex)) (e v x)) (max c0 (max (f v) ev))
    omega

/-- **`expansion` gives every clique the maximum of the values of its vertices and edges**: at the root
    (`P = []`, sibling list = the vertices with their values `f`) every created simplex `w` has the value
    `cliqueVal f (edge N) w.reverse` -/
theorem expand_values_clique (N : Nat → Sibs) (hN : ∀ v, Inc (N v)) (f : Nat → Val) (k : Nat) (verts : Sibs)
    (hv : Inc verts) (hf : ∀ x g, valOf verts x = some g → g = f x) :
    ∀ w g, (w, g) ∈ expand N k verts → g = cliqueVal f (edge N) w.reverse := by
  intro w g h
  have := expand_values N hN (fun w => cliqueVal f (edge N) w.reverse)
    (by intro P v x
        simp only [List.reverse_append, List.reverse_cons, List.reverse_nil, List.nil_append, List.singleton_append,
          List.cons_append]
        exact cliqueVal_rec f (edge N) x v P.reverse)
    k verts hv [] (by intro x g' hx; simp [cliqueVal, hf x g' hx]) w g h
  simpa using this

#print axioms valOf_inter
#print axioms expand_values
#print axioms cliqueVal_rec
#print axioms expand_values_clique
end ExpandProto
