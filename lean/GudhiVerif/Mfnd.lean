/-! Prototype (C03): `make_filtration_non_decreasing` at the level of the `find` semantics.  The traversal of
    `for_each_simplex` (siblings from the last to the first, a node before its children) visits the words in an order `ord`
    in which every facet comes before the simplex; folding the update "value := max(value, values of the facets)" over any
    list sorted by `ord` yields the recursively defined `final`, the least monotone function above the input.
    Core Lean only. -/
namespace MfndProto

/-- visiting order of `rec_for_each_simplex`: a proper prefix first; at the first difference the larger label first -/
def ord : List Nat → List Nat → Bool
  | [], [] => false
  | [], _ :: _ => true
  | _ :: _, [] => false
  | a :: w1, b :: w2 => if a = b then ord w1 w2 else decide (b < a)

theorem ord_asymm : ∀ (a b : List Nat), ord a b = true → ord b a = true → False := by
  intro a
  induction a with
  | nil => intro b h1 h2; cases b <;> simp [ord] at h1 h2
  | cons x a ih =>
    intro b h1 h2
    cases b with
    | nil => simp [ord] at h1
    | cons y b =>
      simp only [ord] at h1 h2
      by_cases hxy : x = y
      · subst hxy; simp only [if_true] at h1 h2; exact ih b h1 h2
      · have hyx : ¬ y = x := fun h => hxy h.symm
        simp only [hxy, hyx, if_false, decide_eq_true_eq] at h1 h2
        omega

def Inc : List Nat → Prop
  | [] => True
  | [_] => True
  | a :: b :: t => a < b ∧ Inc (b :: t)

/-- dropping one vertex of an increasing word of length ≥ 2 gives a word visited earlier -/
theorem facet_ord : ∀ (w : List Nat) (i : Nat), Inc w → 2 ≤ w.length → i < w.length → ord (w.eraseIdx i) w = true := by
  intro w
  induction w with
  | nil => intro i _ h; simp at h
  | cons a w ih =>
    intro i hinc hlen hi
    cases w with
    | nil => simp at hlen
    | cons b t =>
      cases i with
      | zero =>
        simp only [List.eraseIdx_zero, List.tail_cons, ord]
        have hab : a < b := hinc.1
        have : ¬ b = a := by omega
        simp [this, hab]
      | succ i =>
        simp only [List.eraseIdx_cons_succ, ord, if_true]
        cases t with
        | nil =>
          -- w = [a, b], i = 0 : erase gives [a] vs [a,b]
          have : i = 0 := by simp at hi; omega
          subst this
          simp [ord]
        | cons c t' =>
          exact ih i hinc.2 (by simp) (by simp at hi ⊢; omega)

def facets (w : List Nat) : List (List Nat) := (List.range w.length).map fun i => w.eraseIdx i

theorem facets_length {w u : List Nat} (h : u ∈ facets w) : u.length + 1 = w.length := by
  simp only [facets, List.mem_map, List.mem_range] at h
  obtain ⟨i, hi, rfl⟩ := h
  rw [List.length_eraseIdx_of_lt hi]; omega

def maxL (x : Int) (l : List Int) : Int := l.foldl max x

theorem le_maxL (x : Int) (l : List Int) : x ≤ maxL x l := by
  unfold maxL
  induction l generalizing x with
  | nil => exact Int.le_refl _
  | cons y l ih => exact Int.le_trans (Int.le_max_left x y) (ih (max x y))

theorem mem_le_maxL (x : Int) (l : List Int) : ∀ y ∈ l, y ≤ maxL x l := by
  unfold maxL
  induction l generalizing x with
  | nil => intro y hy; cases hy
  | cons z l ih =>
    intro y hy
    rcases List.mem_cons.mp hy with rfl | h
    · exact Int.le_trans (Int.le_max_right x y) (le_maxL (max x y) l)
    · exact ih (max x z) y h

theorem maxL_le (x : Int) (l : List Int) (b : Int) (hx : x ≤ b) (hl : ∀ y ∈ l, y ≤ b) : maxL x l ≤ b := by
  unfold maxL
  induction l generalizing x with
  | nil => exact hx
  | cons z l ih =>
    exact ih (max x z) (Int.max_le.mpr ⟨hx, hl z List.mem_cons_self⟩) (fun y hy => hl y (List.mem_cons_of_mem _ hy))

/-- the target: `final w = max(orig w, final of the facets)`, by recursion on the length (fuel) -/
def finalAux (orig : List Nat → Int) : Nat → List Nat → Int
  | 0, w => orig w
  | n + 1, w => if w.length ≤ 1 then orig w else maxL (orig w) ((facets w).map (finalAux orig n))

def final (orig : List Nat → Int) (w : List Nat) : Int := finalAux orig w.length w

/-- the defining equation of `final` -/
theorem final_eq (orig : List Nat → Int) (w : List Nat) :
    final orig w = if w.length ≤ 1 then orig w else maxL (orig w) ((facets w).map (final orig)) := by
  unfold final
  cases hl : w.length with
  | zero => simp [finalAux]
  | succ k =>
    simp only [finalAux, hl]
    split
    · rfl
    · congr 1
      apply List.map_congr_left
      intro u hu
      have := facets_length hu
      have hk : u.length = k := by omega
      rw [hk]

/-- `final` is above the input … -/
theorem final_ge (orig : List Nat → Int) (w : List Nat) : orig w ≤ final orig w := by
  rw [final_eq]; split
  · exact Int.le_refl _
  · exact le_maxL _ _

/-- … monotone along facets … -/
theorem final_mono (orig : List Nat → Int) (w u : List Nat) (hu : u ∈ facets w) (hw : 2 ≤ w.length) :
    final orig u ≤ final orig w := by
  rw [final_eq orig w, if_neg (by omega)]
  exact mem_le_maxL _ _ _ (List.mem_map_of_mem hu)

/-- … and the least such function -/
theorem final_least (orig g : List Nat → Int) (hge : ∀ w, orig w ≤ g w)
    (hmono : ∀ w u, u ∈ facets w → 2 ≤ w.length → g u ≤ g w) : ∀ w, final orig w ≤ g w := by
  intro w
  induction hn : w.length using Nat.strongRecOn generalizing w with
  | ind n ih =>
    rw [final_eq]
    split
    · exact hge w
    · rename_i h1
      apply maxL_le _ _ _ (hge w)
      intro y hy
      obtain ⟨u, hu, rfl⟩ := List.mem_map.mp hy
      have hlen := facets_length hu
      exact Int.le_trans (ih u.length (by omega) u rfl) (hmono w u hu (by omega))

/-- one visit of `make_filtration_non_decreasing`'s callback -/
def step (val : List Nat → Int) (w : List Nat) : List Nat → Int :=
  if w.length ≤ 1 then val else
    fun q => if q = w then maxL (val w) ((facets w).map val) else val q

/-- **the traversal computes `final`** on every list of words that is duplicate-free, sorted by the visiting order,
    made of increasing words and closed under facets -/
theorem fold_spec (orig : List Nat → Int) (L : List (List Nat)) (hnd : L.Nodup)
    (hord : L.Pairwise fun a b => ord a b = true) (hinc : ∀ w ∈ L, Inc w)
    (hclosed : ∀ w ∈ L, 2 ≤ w.length → ∀ u ∈ facets w, u ∈ L) :
    (∀ w ∈ L, (L.foldl step orig) w = final orig w) ∧ (∀ w, w ∉ L → (L.foldl step orig) w = orig w) := by
  -- generalise: processed part A, remaining part B
  suffices H : ∀ (B A : List (List Nat)) (val : List Nat → Int), A ++ B = L →
      (∀ w ∈ A, val w = final orig w) → (∀ w, w ∉ A → val w = orig w) →
      (∀ w ∈ L, (B.foldl step val) w = final orig w) ∧ (∀ w, w ∉ L → (B.foldl step val) w = orig w) by
    exact H L [] orig (by simp) (by intro w hw; cases hw) (by intro w _; rfl)
  intro B
  induction B with
  | nil =>
    intro A val hAB h1 h2
    simp only [List.append_nil] at hAB
    subst hAB
    exact ⟨h1, h2⟩
  | cons w B ih =>
    intro A val hAB h1 h2
    have hwL : w ∈ L := by rw [← hAB]; simp
    have hnd' : (A ++ w :: B).Nodup := hAB ▸ hnd
    have hwA : w ∉ A := by
      intro h
      have := (List.nodup_append.mp hnd').2.2 w h w List.mem_cons_self
      exact this rfl
    have hvalw : val w = orig w := h2 w hwA
    apply ih (A ++ [w]) (step val w) (by simp [hAB])
    · intro q hq
      rcases List.mem_append.mp hq with hqA | hqw
      · have hne : q ≠ w := fun h => hwA (h ▸ hqA)
        unfold step; split
        · exact h1 q hqA
        · simp only [hne, if_false]; exact h1 q hqA
      · have : q = w := by simpa using hqw
        subst this
        unfold step
        by_cases hlen : q.length ≤ 1
        · rw [if_pos hlen, hvalw, final_eq, if_pos hlen]
        · rw [if_neg hlen]
          simp only [if_true]
          rw [final_eq, if_neg hlen, hvalw]
          congr 1
          apply List.map_congr_left
          intro u hu
          -- the facet u was visited before q
          have huL : u ∈ L := hclosed q hwL (by omega) u hu
          have hou : ord u q = true := by
            simp only [facets, List.mem_map, List.mem_range] at hu
            obtain ⟨i, hi, rfl⟩ := hu
            exact facet_ord q i (hinc q hwL) (by omega) hi
          have huA : u ∈ A := by
            rw [← hAB] at huL
            rcases List.mem_append.mp huL with h | h
            · exact h
            · exfalso
              rcases List.mem_cons.mp h with h | h
              · have := facets_length hu; rw [h] at this; omega
              · have hp : (A ++ q :: B).Pairwise fun a b => ord a b = true := hAB ▸ hord
                have hp2 := (List.pairwise_append.mp hp).2.1
                have := (List.pairwise_cons.mp hp2).1 u h
                exact ord_asymm _ _ hou this
          exact h1 u huA
    · intro q hq
      have hqA : q ∉ A := fun h => hq (List.mem_append_left _ h)
      have hne : q ≠ w := fun h => hq (by simp [h])
      unfold step; split
      · exact h2 q hqA
      · simp only [hne, if_false]; exact h2 q hqA

#print axioms final_least
#print axioms fold_spec
end MfndProto
