/-! Prototype (C15): the byte layer under the token-level serialisation of `Ser.lean`: a vertex-sized token is written
    as `w` little-endian bytes (`serialize_value_to_char_buffer` = `memcpy` of the object representation on a
    little-endian machine); reading it back returns the value, and a sequence of tokens of known widths is decoded back
    from the concatenated bytes, consuming exactly the bytes written and never reading past them.  Core Lean only. -/
namespace BytesProto

def toBytes : Nat → Nat → List Nat
  | 0, _ => []
  | w + 1, x => (x % 256) :: toBytes w (x / 256)

def fromBytes : List Nat → Nat
  | [] => 0
  | b :: bs => b + 256 * fromBytes bs

theorem toBytes_length (w x : Nat) : (toBytes w x).length = w := by
  induction w generalizing x with
  | zero => rfl
  | succ w ih => simp [toBytes, ih]

theorem toBytes_lt (w x : Nat) : ∀ b ∈ toBytes w x, b < 256 := by
  induction w generalizing x with
  | zero => intro b hb; cases hb
  | succ w ih =>
    intro b hb
    rcases List.mem_cons.mp hb with rfl | hb'
    · exact Nat.mod_lt _ (by decide)
    · exact ih _ b hb'

/-- a value that fits in `w` bytes is read back unchanged -/
theorem fromBytes_toBytes (w x : Nat) (hx : x < 256 ^ w) : fromBytes (toBytes w x) = x := by
  induction w generalizing x with
  | zero => simp at hx; subst hx; rfl
  | succ w ih =>
    have hdiv : x / 256 < 256 ^ w := by
      rw [Nat.pow_succ] at hx
      exact Nat.div_lt_of_lt_mul (by rw [Nat.mul_comm]; exact hx)
    simp only [toBytes, fromBytes, ih (x / 256) hdiv]
    omega

/-- a bounds-checked reader: `none` when fewer than `w` bytes remain (what the repaired `deserialize` must do; the
    unchanged code reads first and checks afterwards — D13) -/
def readTok (w : Nat) (buf : List Nat) : Option (Nat × List Nat) :=
  if buf.length < w then none else some (fromBytes (buf.take w), buf.drop w)

/-- decode tokens of the given widths -/
def readAll : List Nat → List Nat → Option (List Nat × List Nat)
  | [], buf => some ([], buf)
  | w :: ws, buf =>
    match readTok w buf with
    | none => none
    | some (x, rest) =>
      match readAll ws rest with
      | none => none
      | some (xs, rest') => some (x :: xs, rest')

def writeAll : List (Nat × Nat) → List Nat     -- (width, value)
  | [] => []
  | (w, x) :: t => toBytes w x ++ writeAll t

/-- **byte round trip**: the tokens are read back, exactly the written bytes are consumed -/
theorem readAll_writeAll (toks : List (Nat × Nat)) (hfit : ∀ t ∈ toks, t.2 < 256 ^ t.1) (rest : List Nat) :
    readAll (toks.map (·.1)) (writeAll toks ++ rest) = some (toks.map (·.2), rest) := by
  induction toks with
  | nil => rfl
  | cons t toks ih =>
    obtain ⟨w, x⟩ := t
    have hx : x < 256 ^ w := hfit (w, x) List.mem_cons_self
    have hlen := toBytes_length w x
    simp only [List.map_cons, writeAll, readAll, readTok, List.append_assoc]
    have h1 : ¬ (toBytes w x ++ (writeAll toks ++ rest)).length < w := by simp [hlen]
    rw [if_neg h1]
    have h2 : (toBytes w x ++ (writeAll toks ++ rest)).take w = toBytes w x := by
      rw [List.take_append_of_le_length (by omega)]; rw [List.take_of_length_le (by omega)]
    have h3 : (toBytes w x ++ (writeAll toks ++ rest)).drop w = writeAll toks ++ rest := by
      rw [List.drop_append_of_le_length (by omega)]; rw [List.drop_of_length_le (by omega)]; rfl
    simp only [h2, h3, fromBytes_toBytes w x hx]
    rw [ih (fun t ht => hfit t (List.mem_cons_of_mem _ ht))]

/-- a truncated buffer is rejected, never over-read: with fewer bytes than the widths require the reader returns `none` -/
theorem readAll_truncated (ws : List Nat) (buf : List Nat) (h : buf.length < ws.sum) : readAll ws buf = none := by
  induction ws generalizing buf with
  | nil => simp at h
  | cons w ws ih =>
    simp only [readAll, readTok]
    by_cases hw : buf.length < w
    · rw [if_pos hw]
    · rw [if_neg hw]
      have : (buf.drop w).length < ws.sum := by
        simp only [List.length_drop, List.sum_cons] at h ⊢; omega
      simp only [ih (buf.drop w) this]

#print axioms fromBytes_toBytes
#print axioms readAll_writeAll
#print axioms readAll_truncated
end BytesProto
