import GudhiVerif.CubPeriodic
/-! # C13 — faces of a cell of a periodic bitmap are positions of the bitmap, one dimension lower (both classes) -/
namespace CubBridge
open CubModel

theorem dimOf_eq (sh : Shape) (x : Nat) : sh.dimOf x = ((sh.dirsDown.map (sh.digit x)).countP (· % 2 = 1)) := by
  simp [Shape.dimOf, Shape.counter, Shape.dirsDown, List.map_reverse]

/-- the quotient map keeps the dimension: reducing a digit modulo an even radix keeps its parity -/
theorem psi_dim (sh : Shape) (hr : ∀ i, i < sh.dims → 0 < sh.radix i) (x : Nat) :
    sh.dimOf (psi sh x) = (plainOf sh).dimOf x := by
  rw [dimOf_eq, dimOf_eq, plainOf_dirsDown]
  have : ∀ i ∈ sh.dirsDown, (sh.digit (psi sh x) i % 2 = 1) = ((plainOf sh).digit x i % 2 = 1) := by
    intro i hi
    have hi' := (mem_dirsDown sh i).mp hi
    rw [psi_digit sh hr x i hi']
    have hd : (plainOf sh).digit x i < 2 * sh.size i + 1 := by
      rw [← plainOf_radix]; exact Nat.mod_lt _ (plain_radix_pos sh i hi')
    rcases radix_cases sh i with ⟨_, h⟩ | ⟨_, h⟩
    · rw [h, Nat.mod_mod_of_dvd _ (Dvd.intro _ rfl)]
    · rw [h, Nat.mod_eq_of_lt hd]
  rw [List.countP_map, List.countP_map]
  apply List.countP_congr
  intro i hi
  simp only [Function.comp_apply, decide_eq_true_eq]
  rw [this i hi]

/-- **every listed face of a cell is a position of the bitmap of dimension one less**, for every shape with positive radices,
    every subset of periodic directions and both classes -/
theorem boundary_face_all (sh : Shape) (hr : ∀ i, i < sh.dims → 0 < sh.radix i) (b : Bool) (pos : Nat)
    (hpos : pos < sh.total) : ∀ f ∈ sh.boundary b pos, f < sh.total ∧ sh.dimOf f + 1 = sh.dimOf pos := by
  obtain ⟨x, hx, rfl⟩ := psi_surj sh hr pos hpos
  intro f hf
  rw [boundary_psi sh hr b x hx, List.mem_map] at hf
  obtain ⟨y, hy, rfl⟩ := hf
  refine ⟨psi_lt sh hr y, ?_⟩
  rw [psi_dim sh hr, psi_dim sh hr]
  have hyf : y ∈ (plainOf sh).boundary false x := by
    cases b with
    | false => exact hy
    | true => rw [(boundary_true_swap (plainOf sh) x).1, mem_swapPairs] at hy; exact hy
  exact boundary_dim (plainOf sh) (plainOf_isPer sh) x hx y hyf

end CubBridge
