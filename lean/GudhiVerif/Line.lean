import GudhiVerif.Beta3
/-! Prototype (C14, 1D): model of `compute_persistence_of_function_on_line` (the goto state machine), stack kept with
    its top at the head of the list. Core only. -/
namespace LineProto
open BetaProto

abbrev Out := List (Int × Int)

/-- labels `down` / `state1down` / `state12down` / `state312down`: `v` is below the top of the stack -/
def down (v : Int) : List Int → Out → List Int × Out
  | [], out => ([v], out)                                   -- unreachable
  | [_], out => ([v], out)                                  -- state1down
  | [b, a], out => if v ≤ a then ([v], (a, b) :: out) else ([v, b, a], out)   -- state12down
  | c :: a :: b :: rest, out =>                              -- state312down
    if v ≤ a then down v (b :: rest) ((a, c) :: out) else (v :: c :: a :: b :: rest, out)
termination_by stk => stk.length

/-- labels `up` / `state132up`: the top of the stack is below `v` -/
def up (v : Int) : List Int → Out → List Int × Out
  | [], out => ([v], out)                                   -- unreachable
  | [a], out => ([v, a], out)                                -- push, state12
  | [c, b], out => ([v, c, b], out)                           -- unreachable (a 2-stack is never "low on top")
  | c :: b :: a :: rest, out =>                               -- state132up
    if b ≤ v then up v (a :: rest) ((c, b) :: out) else (v :: c :: b :: a :: rest, out)
termination_by stk => stk.length

/-- one input value; `hi = true` means the top of the stack is a local maximum (states 12 / 312) -/
def step (v : Int) (hi : Bool) (stk : List Int) (out : Out) : Bool × List Int × Out :=
  match hi, stk with
  | false, [a] => if v ≤ a then (false, [v], out) else (true, [v, a], out)          -- state1
  | true, [b, a] =>                                                                 -- state12
    if b ≤ v then (true, [v, a], out) else (false, (down v [b, a] out).1, (down v [b, a] out).2)
  | false, c :: b :: a :: rest =>                                                   -- state132
    if v ≤ c then
      if a < v then (false, v :: b :: a :: rest, out)
      else match rest with
        | [] => (false, [v], (a, b) :: out)
        | _ :: _ => (false, (down v rest ((a, b) :: out)).1, (down v rest ((a, b) :: out)).2)
    else (true, (up v (c :: b :: a :: rest) out).1, (up v (c :: b :: a :: rest) out).2)
  | true, c :: a :: b :: rest =>                                                    -- state312
    if c ≤ v then
      if v < b then (true, v :: a :: b :: rest, out)
      else (true, (up v rest ((a, b) :: out)).1, (up v rest ((a, b) :: out)).2)
    else (false, (down v (c :: a :: b :: rest) out).1, (down v (c :: a :: b :: rest) out).2)
  | _, _ => (hi, stk, out)                                                          -- unreachable shapes

/-- `enddown`: the top is a local minimum; pair it with the maximum below until one element is left -/
def drain : List Int → Out → Int × Out
  | [], out => (0, out)
  | [m], out => (m, out)
  | a :: b :: rest, out => drain rest ((a, b) :: out)
termination_by stk => stk.length

def run : List Int → Option (Int × Out)
  | [] => none
  | x :: xs =>
    let (hi, stk, out) := xs.foldl (fun (st : Bool × List Int × Out) v => step v st.1 st.2.1 st.2.2) (false, [x], [])
    some (drain (if hi then stk.tail else stk) out)

#eval run [3,1,4,1,5,9,2,6]     -- C++ prints (1,4) (2,9) (1,inf)
#eval run [5,4,3,2,1]
#eval run [1,3,2,4,0,5,1]
end LineProto

namespace LineProto
open BetaProto

mutual
/-- top of the stack is a local minimum (states 1 / 132): `1 9 2 8 3` -/
def LoTop : List Int → Prop
  | [_] => True
  | c :: b :: a :: rest => a < c ∧ c < b ∧ HiTop (b :: a :: rest)
  | _ => False
/-- top of the stack is a local maximum (states 12 / 312): `1 9 2 8 3 7` -/
def HiTop : List Int → Prop
  | [b, a] => a < b
  | c :: a :: b :: rest => a < c ∧ c < b ∧ LoTop (a :: b :: rest)
  | _ => False
end

/-- number of bars of `out` that contain `[s,t]` -/
def cnt (out : Out) (s t : Int) : Nat := (out.map fun p => ind p.1 p.2 s t).sum

theorem cnt_cons (p : Int × Int) (out : Out) (s t : Int) : cnt (p :: out) s t = ind p.1 p.2 s t + cnt out s t := by
  simp [cnt]

/-- what a loop (`down` / `up`) or a step guarantees: the rank invariant of "stack ++ pending input" plus the bars
    emitted so far is unchanged, and new bars have positive length -/
structure Keeps (seq seq' : List Int) (out out' : Out) : Prop where
  rank : ∀ s t, s ≤ t → β seq s t + cnt out s t = β seq' s t + cnt out' s t
  pos : (∀ p ∈ out, p.1 < p.2) → ∀ p ∈ out', p.1 < p.2

theorem Keeps.refl (seq : List Int) (out : Out) : Keeps seq seq out out := ⟨fun _ _ _ => rfl, fun h => h⟩

theorem Keeps.trans {a b c : List Int} {o1 o2 o3 : Out} (h1 : Keeps a b o1 o2) (h2 : Keeps b c o2 o3) :
    Keeps a c o1 o3 := ⟨fun s t hst => (h1.rank s t hst).trans (h2.rank s t hst), fun h => h2.pos (h1.pos h)⟩

/-- same bars, sequences with equal rank invariant -/
theorem Keeps.of_eq {a b : List Int} (out : Out) (h : ∀ s t, s ≤ t → β a s t = β b s t) : Keeps a b out out :=
  ⟨fun s t hst => by rw [h s t hst], fun h => h⟩

/-- one new bar `(lo, hi)` with `lo < hi` accounts for the difference -/
theorem Keeps.of_bar {a b : List Int} (out : Out) (lo hi : Int) (hlt : lo < hi)
    (h : ∀ s t, s ≤ t → β a s t = β b s t + ind lo hi s t) : Keeps a b out ((lo, hi) :: out) :=
  ⟨fun s t hst => by rw [h s t hst, cnt_cons]; dsimp only; omega,
   fun hp p hpm => by
     rcases List.mem_cons.mp hpm with rfl | h'
     · exact hlt
     · exact hp p h'⟩

theorem down_spec (v : Int) (post : List Int) : ∀ (n : Nat) (stk : List Int) (out : Out), stk.length = n →
    ((∃ a, stk = [a] ∧ v ≤ a) ∨ (HiTop stk ∧ ∃ c r, stk = c :: r ∧ v < c)) →
    LoTop (down v stk out).1 ∧
      Keeps (stk.reverse ++ v :: post) ((down v stk out).1.reverse ++ post) out (down v stk out).2 := by
  intro n
  induction n using Nat.strongRecOn with
  | ind n ih =>
    intro stk out hlen hpre
    rcases hpre with ⟨a, rfl, hva⟩ | ⟨hhi, c, r, rfl, hvc⟩
    · -- state1down
      simp only [down]
      refine ⟨trivial, Keeps.of_eq out ?_⟩
      intro s t _
      exact ctx_R0_start post s t a v hva
    · match r, hhi with
      | [a], hhi =>
        -- state12down, stack [c, a] with a < c
        have hac : a < c := hhi
        simp only [down]
        split
        · rename_i hva
          refine ⟨trivial, ?_⟩
          apply Keeps.of_bar out a c hac
          intro s t hst
          exact ctx_R2_start post s t a c v hst hva hac
        · rename_i hva
          refine ⟨⟨by omega, hvc, hac⟩, Keeps.of_eq out ?_⟩
          intro s t _
          simp
      | a :: b :: rest, hhi =>
        -- state312down, stack c :: a :: b :: rest, a < c < b
        obtain ⟨hac, hcb, hlo⟩ := hhi
        simp only [down]
        split
        · rename_i hva
          -- bar (a, c); continue below
          have hrest : ∃ p r', rest = p :: r' ∧ HiTop (b :: p :: r') := by
            match rest, hlo with
            | p :: r', hlo => exact ⟨p, r', rfl, hlo.2.2⟩
          obtain ⟨p, r', rfl, hhi'⟩ := hrest
          have hrec := ih (b :: p :: r').length (by simp at hlen ⊢; omega) (b :: p :: r') ((a, c) :: out) rfl
            (Or.inr ⟨hhi', b, p :: r', rfl, by omega⟩)
          refine ⟨hrec.1, ?_⟩
          refine Keeps.trans ?_ hrec.2
          apply Keeps.of_bar out a c hac
          intro s t hst
          have := ctx_R2_mirror ((p :: r').reverse) post s t v c a b hst hva hac (Int.le_of_lt hcb)
          simpa [List.reverse_cons, List.append_assoc] using this
        · rename_i hva
          refine ⟨⟨by omega, hvc, hac, hcb, hlo⟩, Keeps.of_eq out ?_⟩
          intro s t _
          simp

#print axioms down_spec
end LineProto

namespace LineProto
open BetaProto

theorem up_spec (v : Int) (post : List Int) : ∀ (n : Nat) (stk : List Int) (out : Out), stk.length = n →
    LoTop stk → (∃ c r, stk = c :: r ∧ c < v) →
    HiTop (up v stk out).1 ∧
      Keeps (stk.reverse ++ v :: post) ((up v stk out).1.reverse ++ post) out (up v stk out).2 := by
  intro n
  induction n using Nat.strongRecOn with
  | ind n ih =>
    intro stk out hlen hlo ⟨c, r, hstk, hcv⟩
    subst hstk
    match r, hlo with
    | [], _ =>
      simp only [up]
      refine ⟨hcv, Keeps.of_eq out ?_⟩
      intro s t _; simp
    | b :: a :: rest, hlo =>
      obtain ⟨hac, hcb, hhi⟩ := hlo
      simp only [up]
      split
      · rename_i hbv
        -- bar (c, b); continue below with a :: rest
        have hlo' : LoTop (a :: rest) := by
          match rest, hhi with
          | [], _ => trivial
          | b2 :: r', hhi => exact hhi.2.2
        have hrec := ih (a :: rest).length (by simp at hlen ⊢; omega) (a :: rest) ((c, b) :: out) rfl hlo'
          ⟨a, rest, rfl, by omega⟩
        refine ⟨hrec.1, ?_⟩
        refine Keeps.trans ?_ hrec.2
        apply Keeps.of_bar out c b hcb
        intro s t hst
        have := ctx_R2 (rest.reverse) post s t a b c v hst (Int.le_of_lt hac) hcb hbv
        simpa [List.reverse_cons, List.append_assoc] using this
      · rename_i hbv
        refine ⟨⟨hcv, by omega, hac, hcb, hhi⟩, Keeps.of_eq out ?_⟩
        intro s t _; simp

#print axioms up_spec
end LineProto

namespace LineProto
open BetaProto

def Shape (hi : Bool) (stk : List Int) : Prop := if hi then HiTop stk else LoTop stk

theorem step_spec (v : Int) (post : List Int) (hi : Bool) (stk : List Int) (out : Out) (hsh : Shape hi stk) :
    Shape (step v hi stk out).1 (step v hi stk out).2.1 ∧
      Keeps (stk.reverse ++ v :: post) ((step v hi stk out).2.1.reverse ++ post) out (step v hi stk out).2.2 := by
  match hi, stk, hsh with
  | false, [a], _ =>
    -- state1
    simp only [step]
    split
    · rename_i hva
      refine ⟨trivial, Keeps.of_eq out ?_⟩
      intro s t _; exact ctx_R0_start post s t a v hva
    · rename_i hva
      refine ⟨(by show a < v; omega), Keeps.of_eq out ?_⟩
      intro s t _; simp
  | true, [b, a], hsh =>
    -- state12
    have hab : a < b := hsh
    simp only [step]
    split
    · rename_i hbv
      refine ⟨(by show a < v; omega), Keeps.of_eq out ?_⟩
      intro s t hst
      have := ctx_R1_up [] post s t a b v hst (Int.le_of_lt hab) hbv
      simpa using this
    · rename_i hbv
      have := down_spec v post 2 [b, a] out rfl (Or.inr ⟨hab, b, [a], rfl, by omega⟩)
      exact ⟨this.1, this.2⟩
  | false, c :: b :: a :: rest, hsh =>
    -- state132
    obtain ⟨hac, hcb, hhi⟩ := hsh
    simp only [step]
    split
    · rename_i hvc
      -- first: the old top c is a monotone middle between b and v
      have hdrop : ∀ s t, s ≤ t →
          β ((c :: b :: a :: rest).reverse ++ v :: post) s t = β ((b :: a :: rest).reverse ++ v :: post) s t := by
        intro s t _
        have := ctx_R1_down ((a :: rest).reverse) post s t b c v (Int.le_of_lt hcb) hvc
        simpa [List.reverse_cons, List.append_assoc] using this
      split
      · rename_i hav
        refine ⟨⟨hav, by omega, hhi⟩, Keeps.of_eq out ?_⟩
        intro s t hst
        rw [hdrop s t hst]; simp
      · rename_i hav
        have hva : v ≤ a := by omega
        have hab : a < b := by omega
        match rest, hhi with
        | [], _ =>
          refine ⟨trivial, ?_⟩
          apply Keeps.of_bar out a b hab
          intro s t hst
          rw [hdrop s t hst]
          have := ctx_R2_start post s t a b v hst hva hab
          simpa using this
        | b2 :: r', hhi =>
          obtain ⟨_, hbb2, hlo'⟩ := hhi
          -- hlo' : LoTop (a :: b2 :: r'), so r' = p :: r'' and HiTop (b2 :: p :: r'')
          have hrest : ∃ p r'', r' = p :: r'' ∧ HiTop (b2 :: p :: r'') := by
            match r', hlo' with
            | p :: r'', hlo' => exact ⟨p, r'', rfl, hlo'.2.2⟩
          obtain ⟨p, r'', rfl, hhi2⟩ := hrest
          have hrec := down_spec v post _ (b2 :: p :: r'') ((a, b) :: out) rfl
            (Or.inr ⟨hhi2, b2, p :: r'', rfl, by omega⟩)
          refine ⟨hrec.1, Keeps.trans ?_ hrec.2⟩
          apply Keeps.of_bar out a b hab
          intro s t hst
          rw [hdrop s t hst]
          have := ctx_R2_mirror ((p :: r'').reverse) post s t v b a b2 hst hva hab (Int.le_of_lt hbb2)
          simpa [List.reverse_cons, List.append_assoc] using this
    · rename_i hvc
      have := up_spec v post _ (c :: b :: a :: rest) out rfl ⟨hac, hcb, hhi⟩ ⟨c, _, rfl, by omega⟩
      exact ⟨this.1, this.2⟩
  | true, c :: a :: b :: rest, hsh =>
    -- state312
    obtain ⟨hac, hcb, hlo⟩ := hsh
    simp only [step]
    split
    · rename_i hcv
      have hdrop : ∀ s t, s ≤ t →
          β ((c :: a :: b :: rest).reverse ++ v :: post) s t = β ((a :: b :: rest).reverse ++ v :: post) s t := by
        intro s t hst
        have := ctx_R1_up ((b :: rest).reverse) post s t a c v hst (Int.le_of_lt hac) hcv
        simpa [List.reverse_cons, List.append_assoc] using this
      split
      · rename_i hvb
        refine ⟨⟨by omega, hvb, hlo⟩, Keeps.of_eq out ?_⟩
        intro s t hst
        rw [hdrop s t hst]; simp
      · rename_i hvb
        have hbv : b ≤ v := by omega
        have hab : a < b := by omega
        have hrest : ∃ p r', rest = p :: r' ∧ p < a ∧ HiTop (b :: p :: r') := by
          match rest, hlo with
          | p :: r', hlo => exact ⟨p, r', rfl, hlo.1, hlo.2.2⟩
        obtain ⟨p, r', rfl, hpa, hhi2⟩ := hrest
        have hlo2 : LoTop (p :: r') := by
          match r', hhi2 with
          | [], _ => trivial
          | b3 :: r'', hhi2 => exact hhi2.2.2
        have hrec := up_spec v post _ (p :: r') ((a, b) :: out) rfl hlo2 ⟨p, r', rfl, by omega⟩
        refine ⟨hrec.1, Keeps.trans ?_ hrec.2⟩
        apply Keeps.of_bar out a b hab
        intro s t hst
        rw [hdrop s t hst]
        have := ctx_R2 (r'.reverse) post s t p b a v hst (Int.le_of_lt hpa) hab hbv
        simpa [List.reverse_cons, List.append_assoc] using this
    · rename_i hcv
      have := down_spec v post _ (c :: a :: b :: rest) out rfl
        (Or.inr ⟨⟨hac, hcb, hlo⟩, c, _, rfl, by omega⟩)
      exact ⟨this.1, this.2⟩

#print axioms step_spec
end LineProto

namespace LineProto
open BetaProto

theorem drain_spec : ∀ (n : Nat) (stk : List Int) (out : Out), stk.length = n → LoTop stk →
    Keeps stk.reverse [(drain stk out).1] out (drain stk out).2 := by
  intro n
  induction n using Nat.strongRecOn with
  | ind n ih =>
    intro stk out hlen hlo
    match stk, hlo with
    | [m], _ => simp only [drain]; exact Keeps.refl _ _
    | a :: b :: p :: r, hlo =>
      obtain ⟨hpa, hab, hhi⟩ := hlo
      have hlo' : LoTop (p :: r) := by
        match r, hhi with
        | [], _ => trivial
        | b2 :: r', hhi => exact hhi.2.2
      simp only [drain]
      have hrec := ih (p :: r).length (by simp at hlen ⊢; omega) (p :: r) ((a, b) :: out) rfl hlo'
      refine Keeps.trans ?_ hrec
      apply Keeps.of_bar out a b hab
      intro s t hst
      have := ctx_R2_end (r.reverse) s t p b a hst (Int.le_of_lt hpa) hab
      simpa [List.reverse_cons, List.append_assoc] using this

/-- the whole input loop -/
theorem fold_spec : ∀ (xs : List Int) (hi : Bool) (stk : List Int) (out : Out), Shape hi stk →
    let st := xs.foldl (fun (st : Bool × List Int × Out) v => step v st.1 st.2.1 st.2.2) (hi, stk, out)
    Shape st.1 st.2.1 ∧ Keeps (stk.reverse ++ xs) st.2.1.reverse out st.2.2 := by
  intro xs
  induction xs with
  | nil => intro hi stk out hsh; simp only [List.foldl, List.append_nil]; exact ⟨hsh, Keeps.refl _ _⟩
  | cons v xs ih =>
    intro hi stk out hsh
    simp only [List.foldl]
    obtain ⟨h1, h2⟩ := step_spec v xs hi stk out hsh
    obtain ⟨h3, h4⟩ := ih (step v hi stk out).1 (step v hi stk out).2.1 (step v hi stk out).2.2 h1
    exact ⟨h3, Keeps.trans h2 h4⟩

/-- **C14, 1D routine**: the emitted bars have positive length and, together with the returned global minimum `m`
    (the essential class), reproduce the rank invariant of H₀ of the sublevel sets of the input. -/
theorem run_spec (xs : List Int) (m : Int) (out : Out) (h : run xs = some (m, out)) :
    (∀ p ∈ out, p.1 < p.2) ∧
    ∀ s t, s ≤ t → β xs s t = cnt out s t + (if m ≤ s then 1 else 0) := by
  match xs, h with
  | x :: xs, h =>
    simp only [run] at h
    obtain ⟨hsh, hk⟩ := fold_spec xs false [x] [] (by trivial : Shape false [x])
    generalize hst : xs.foldl (fun (st : Bool × List Int × Out) v => step v st.1 st.2.1 st.2.2) (false, [x], []) = st
      at h hsh hk
    obtain ⟨hi, stk, o⟩ := st
    simp only at h hsh hk
    -- final drains
    have hfin : Keeps stk.reverse [m] o out := by
      cases hi with
      | false =>
        simp only [Bool.false_eq_true, if_false] at h
        have hd := drain_spec _ stk o rfl hsh
        have e : drain stk o = (m, out) := Option.some.inj h
        rw [e] at hd; exact hd
      | true =>
        simp only [if_true] at h
        -- `endup`: drop the final local maximum
        match stk, hsh with
        | [b, a], hsh =>
          have hab : a < b := hsh
          have hd := drain_spec _ [a] o rfl trivial
          have e : drain [a] o = (m, out) := Option.some.inj h
          rw [e] at hd
          refine Keeps.trans (Keeps.of_eq o ?_) hd
          intro s t _
          have := ctx_R0_end [] s t a b (Int.le_of_lt hab)
          simpa using this
        | c :: a :: b :: rest, hsh =>
          obtain ⟨hac, hcb, hlo⟩ := hsh
          have hd := drain_spec _ (a :: b :: rest) o rfl hlo
          have e : drain (a :: b :: rest) o = (m, out) := Option.some.inj h
          rw [e] at hd
          refine Keeps.trans (Keeps.of_eq o ?_) hd
          intro s t _
          have := ctx_R0_end ((b :: rest).reverse) s t a c (Int.le_of_lt hac)
          simpa [List.reverse_cons, List.append_assoc] using this
    have hall := Keeps.trans hk hfin
    refine ⟨hall.pos (by intro p hp; cases hp), ?_⟩
    intro s t hst'
    have := hall.rank s t hst'
    simp only [List.reverse_cons, List.reverse_nil, List.nil_append, List.singleton_append, cnt, List.map_nil,
      List.sum_nil, Nat.add_zero] at this
    rw [this, β_single m s t hst']
    simp only [cnt]; omega

#print axioms run_spec
end LineProto
