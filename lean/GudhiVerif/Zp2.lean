/-! Prototype (C10): the remaining pieces of `Zp_field_operators` as written — `_add` with its wrap-around branch,
    `_subtract`, `get_value`, the fused operations (machine arithmetic, "not overflow safe"), and the inverse table built
    by linear search in `set_characteristic`, including its "composite ⇒ throw" exit.  Core Lean only (model and the
    arithmetic specs); the number-theoretic facts about the inverse search are in `Zp2P.lean`. -/
namespace Zp2Proto

def W : Nat := 4294967296  -- 2^32

def usub (x y : Nat) : Nat := (x + W - y % W) % W
def uadd (x y : Nat) : Nat := (x + y) % W
def umul (x y : Nat) : Nat := (x * y) % W

/-- `_add`: `if (UINT_MAX - e1 < e2) { e1 += e2; e1 -= p; return e1; } e1 += e2; if (e1 >= p) e1 -= p; return e1;` -/
def add (e1 e2 p : Nat) : Nat :=
  if usub (W - 1) e1 < e2 then usub (uadd e1 e2) p
  else if uadd e1 e2 ≥ p then usub (uadd e1 e2) p else uadd e1 e2

theorem add_spec (e1 e2 p : Nat) (hp : p < W) (h1 : e1 < p) (h2 : e2 < p) : add e1 e2 p = (e1 + e2) % p := by
  have hlt : e1 + e2 < 2 * p := by omega
  have hmod : (e1 + e2) % p = if e1 + e2 < p then e1 + e2 else e1 + e2 - p := by
    split
    · exact Nat.mod_eq_of_lt (by assumption)
    · rw [Nat.mod_eq_sub_mod (by omega)]; exact Nat.mod_eq_of_lt (by omega)
  unfold add usub uadd W at *
  rw [hmod]
  split <;> split <;> (try split) <;> omega

/-- `_subtract`: `if (e1 < e2) e1 += p; e1 -= e2;` -/
def sub (e1 e2 p : Nat) : Nat := usub (if e1 < e2 then uadd e1 p else e1) e2

theorem sub_spec (e1 e2 p : Nat) (hp : p < W) (h1 : e1 < p) (h2 : e2 < p) : sub e1 e2 p = (e1 + p - e2) % p := by
  have hmod : (e1 + p - e2) % p = if e1 < e2 then e1 + p - e2 else e1 - e2 := by
    split
    · exact Nat.mod_eq_of_lt (by omega)
    · rw [Nat.mod_eq_sub_mod (by omega)]
      have : e1 + p - e2 - p = e1 - e2 := by omega
      rw [this]; exact Nat.mod_eq_of_lt (by omega)
  unfold sub usub uadd W at *
  rw [hmod]
  split <;> omega

/-- the subtraction is the inverse of the addition (the law the property needs) -/
theorem sub_add_cancel (e1 e2 p : Nat) (hp : p < W) (h1 : e1 < p) (h2 : e2 < p) :
    add (sub e1 e2 p) e2 p = e1 := by
  have hs : sub e1 e2 p < p := by rw [sub_spec e1 e2 p hp h1 h2]; exact Nat.mod_lt _ (by omega)
  rw [add_spec _ _ p hp hs h2, sub_spec e1 e2 p hp h1 h2]
  have hmod : (e1 + p - e2) % p = if e1 < e2 then e1 + p - e2 else e1 - e2 := by
    split
    · exact Nat.mod_eq_of_lt (by omega)
    · rw [Nat.mod_eq_sub_mod (by omega)]
      have : e1 + p - e2 - p = e1 - e2 := by omega
      rw [this]; exact Nat.mod_eq_of_lt (by omega)
  rw [hmod]
  split
  · have : e1 + p - e2 + e2 = e1 + p := by omega
    rw [this, Nat.add_mod_right]; exact Nat.mod_eq_of_lt h1
  · have : e1 - e2 + e2 = e1 := by omega
    rw [this]; exact Nat.mod_eq_of_lt h1

/-- `get_value(unsigned)`: `e < p ? e : e % p` -/
def getValue (e p : Nat) : Nat := if e < p then e else e % p

theorem getValue_spec (e p : Nat) : getValue e p = e % p := by
  unfold getValue; split
  · exact (Nat.mod_eq_of_lt (by assumption)).symm
  · rfl

/-- `multiply_and_add(e, m, a) = get_value(e * m + a)` in 32-bit unsigned arithmetic -/
def multiplyAndAdd (e m a p : Nat) : Nat := getValue (uadd (umul e m) a) p
/-- `add_and_multiply(e, a, m) = get_value((e + a) * m)` -/
def addAndMultiply (e a m p : Nat) : Nat := getValue (umul (uadd e a) m) p

theorem multiplyAndAdd_spec (e m a p : Nat) (h : e * m + a < W) : multiplyAndAdd e m a p = (e * m + a) % p := by
  unfold multiplyAndAdd
  rw [getValue_spec]
  unfold uadd umul
  have : e * m < W := by omega
  rw [Nat.mod_eq_of_lt this, Nat.mod_eq_of_lt h]

theorem addAndMultiply_spec (e a m p : Nat) (h1 : e + a < W) (h : (e + a) * m < W) :
    addAndMultiply e a m p = ((e + a) * m) % p := by
  unfold addAndMultiply
  rw [getValue_spec]
  unfold uadd umul
  rw [Nat.mod_eq_of_lt h1, Nat.mod_eq_of_lt h]

/-- reduced operands of a characteristic below 2^16 never overflow `multiply_and_add` -/
theorem multiplyAndAdd_no_overflow (e m a p : Nat) (hp : p ≤ 65536) (he : e < p) (hm : m < p) (ha : a < p) :
    e * m + a < W := by
  have h1 : e * m ≤ 65535 * 65535 := Nat.mul_le_mul (by omega) (by omega)
  unfold W
  omega

/-- `add_and_multiply` is safe on reduced operands only up to p = 46341 -/
theorem addAndMultiply_no_overflow (e a m p : Nat) (hp : p ≤ 46341) (he : e < p) (hm : m < p) (ha : a < p) :
    e + a < W ∧ (e + a) * m < W := by
  have h2 : (e + a) * m ≤ (46340 + 46340) * 46340 := Nat.mul_le_mul (by omega) (by omega)
  unfold W
  omega

/-- the boundaries are sharp (these are reduced operands of primes below 2^16; the second one is defect D24) -/
theorem multiplyAndAdd_overflow_witness : multiplyAndAdd 65536 65536 0 65537 ≠ (65536 * 65536 + 0) % 65537 := by decide
theorem addAndMultiply_overflow_witness :
    addAndMultiply 46348 46348 46348 46349 = 9140 ∧ ((46348 + 46348) * 46348) % 46349 = 2 := by decide

/-! ### the inverse table -/

inductive Res where
  | found (k : Nat)
  | throw
  | fuel
  deriving DecidableEq, Repr

/-- `inv = 1; mult = inv*i; while (mult % p != 1) { ++inv; if (mult == p) throw; mult = inv * i; }` -/
def invLoop (p i : Nat) : Nat → Nat → Nat → Res
  | 0, _, _ => .fuel
  | f + 1, inv, mult =>
    if mult % p = 1 then .found inv
    else if mult = p then .throw
    else invLoop p i f (inv + 1) (umul (inv + 1) i)

def invOf (p i : Nat) : Res := invLoop p i p 1 (umul 1 i)

def build (p : Nat) : Nat → Nat → List Nat → Option (List Nat)
  | 0, _, acc => some acc.reverse
  | c + 1, i, acc =>
    match invOf p i with
    | .found k => build p c (i + 1) (k :: acc)
    | _ => none

/-- `set_characteristic`: `none` = `std::invalid_argument` -/
def setCharacteristic (p : Nat) : Option (List Nat) := if p ≤ 1 then none else build p (p - 1) 1 [0]

#eval setCharacteristic 7    -- some [0, 1, 4, 5, 2, 3, 6]
#eval setCharacteristic 9    -- none
#eval setCharacteristic 1    -- none

#print axioms add_spec
#print axioms sub_add_cancel
#print axioms addAndMultiply_no_overflow
#print axioms addAndMultiply_overflow_witness
end Zp2Proto
