import GudhiVerif.ReduceP
/-! The executable persistence specification shared by C02, C05, C06, C08, C11–C14: the reference column reduction of
    `ReduceP.lean` (proved to yield a certificate, `reduceAllP_cert`, whose pairing is the pairing of *every* reduced
    factorisation, `cert_unique`) applied to a filtered cell complex given cell by cell.  Core Lean only. -/
namespace PersModel
open ReducePProto AxpyProto

/-- a cell of a filtered complex in filtration order: dimension, value, boundary as (position, coefficient mod p) -/
structure Cell where
  dim : Nat
  val : Int
  bd : Col
deriving Repr

/-- index pairs `(birth, some death)` / `(birth, none)` of the boundary matrix over Z_p -/
def indexPairs (p : Nat) (D : List Col) : List (Nat × Option Nat) := pairs (reduceAll p D.length D)

def sortCol (c : Col) : Col := c.mergeSort fun a b => decide (a.1 ≤ b.1)

def leBar (a b : Nat × Int × Option Int) : Bool :=
  if a.1 ≠ b.1 then decide (a.1 < b.1)
  else if a.2.1 ≠ b.2.1 then decide (a.2.1 < b.2.1)
  else match a.2.2, b.2.2 with
    | some x, some y => decide (x ≤ y)
    | some _, none => true
    | none, some _ => false
    | none, none => true

/-- value-level barcode `(dim, birth value, death value)`, sorted; zero-length bars dropped when `dropZero` -/
def bars (p : Nat) (cells : List Cell) (dropZero : Bool) : List (Nat × Int × Option Int) :=
  let D := cells.map fun c => sortCol c.bd
  let ps := indexPairs p D
  let get (i : Nat) : Cell := cells.getD i ⟨0, 0, []⟩
  let all := ps.map fun (b, d) => ((get b).dim, (get b).val, d.map fun j => (get j).val)
  let kept := all.filter fun (_, b, d) => match d with | some x => !(dropZero && x == b) | none => true
  kept.mergeSort leBar

def showBar (b : Nat × Int × Option Int) : String :=
  s!"{b.1}:{b.2.1}:{match b.2.2 with | some x => toString x | none => "inf"}"

def showBars (l : List (Nat × Int × Option Int)) : String := String.intercalate " " (l.map showBar)

end PersModel
