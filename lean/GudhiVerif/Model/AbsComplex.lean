/-! Abstract simplicial complexes as duplicate-free lists of sorted simplices — the specification side shared by the
    skeleton-blocker (C17) driver: membership, star removal, minimal non-faces (blockers), edge contraction. Core only. -/
namespace AbsCx

abbrev Simplex := List Nat
abbrev Cx := List Simplex

def sortN (l : List Nat) : List Nat := (l.mergeSort fun a b => decide (a ≤ b)).eraseDups
def subset (a b : Simplex) : Bool := a.all (b.contains ·)

def subsetsOf : List Nat → List (List Nat)
  | [] => [[]]
  | x :: xs => let r := subsetsOf xs; r ++ r.map (x :: ·)

def nonemptySubsets (s : Simplex) : List Simplex := ((subsetsOf s).filter (· ≠ [])).map sortN

def mem (c : Cx) (s : Simplex) : Bool := c.contains s

/-- add a simplex with all its faces -/
def addClosure (c : Cx) (s : Simplex) : Cx := (nonemptySubsets s).foldl (fun acc t => if acc.contains t then acc else acc ++ [t]) c

/-- delete exactly the simplices containing `s` -/
def removeStar (c : Cx) (s : Simplex) : Cx := c.filter fun t => !subset s t

def vertices (c : Cx) : List Nat := sortN (c.flatMap id)

/-- minimal non-faces all of whose proper faces are present, of dimension ≥ 2 -/
def blockers (c : Cx) : List Simplex :=
  ((subsetsOf (vertices c)).map sortN).filter fun s =>
    s.length ≥ 3 && !mem c s && (List.range s.length).all fun i => mem c (s.eraseIdx i)

/-- no blocker contains both end points -/
def linkCondition (c : Cx) (a b : Nat) : Bool := !(blockers c).any fun s => s.contains a && s.contains b

/-- identify `b` with `a` -/
def contract (c : Cx) (a b : Nat) : Cx :=
  (c.map fun t => sortN (t.map fun v => if v = b then a else v)).eraseDups

theorem mem_removeStar (c : Cx) (s t : Simplex) : mem (removeStar c s) t = (mem c t && !subset s t) := by
  unfold mem removeStar
  by_cases h : subset s t = true
  · simp [h, List.mem_filter]
  · simp only [Bool.not_eq_true] at h
    simp [h, List.mem_filter]

end AbsCx
