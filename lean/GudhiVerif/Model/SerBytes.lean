import GudhiVerif.Trie
import GudhiVerif.Ser
import GudhiVerif.Bytes
/-! Byte-level model of `Simplex_tree::serialize` / `deserialize` (C15).  A vertex-sized token (label or member count)
    is `wv` little-endian bytes, a filtration value is `wf` bytes produced by an abstract codec (`wf = 0` when the option
    set does not store filtrations).  The reader is bounds-checked: it returns `none` as soon as fewer bytes remain
    than the next token needs — the behaviour the property demands ("refused instead of being read past its end").
    Core Lean only (used by the driver). -/
namespace SerBytes
open TrieProto TrieProto.Forest SerProto BytesProto

structure Codec where
  wv : Nat
  wf : Nat
  fenc : Int → List Nat
  fdec : List Nat → Int

def readV (c : Codec) (buf : List Nat) : Option (Nat × List Nat) :=
  if buf.length < c.wv then none else some (fromBytes (buf.take c.wv), buf.drop c.wv)

def readF (c : Codec) (buf : List Nat) : Option (Int × List Nat) :=
  if buf.length < c.wf then none else some (c.fdec (buf.take c.wf), buf.drop c.wf)

def membersB (c : Codec) : Forest → List Nat
  | nil => []
  | cons l x _ r => toBytes c.wv l ++ (c.fenc x ++ membersB c r)

def kidsB (c : Codec) : Forest → List Nat
  | nil => []
  | cons _ _ k r => (toBytes c.wv (len k) ++ (membersB c k ++ kidsB c k)) ++ kidsB c r

/-- `rec_serialize` from the root -/
def serB (c : Codec) (t : Forest) : List Nat := toBytes c.wv (len t) ++ (membersB c t ++ kidsB c t)

def readMembersB (c : Codec) : Nat → List Nat → Option (List (Nat × Int) × List Nat)
  | 0, b => some ([], b)
  | n + 1, b =>
    (readV c b).bind fun v => (readF c v.2).bind fun f =>
      (readMembersB c n f.2).bind fun r => some ((v.1, f.1) :: r.1, r.2)

def desKidsB (c : Codec) : Nat → List (Nat × Int) → List Nat → Option (Forest × List Nat)
  | _, [], b => some (nil, b)
  | 0, _ :: _, _ => none
  | fuel + 1, (l, x) :: ms, b =>
    (readV c b).bind fun cnt =>
      (if cnt.1 = 0 then some (nil, cnt.2) else (readMembersB c cnt.1 cnt.2).bind fun m => desKidsB c fuel m.1 m.2).bind fun ch =>
        (desKidsB c (fuel + 1) ms ch.2).bind fun rs => some (cons l x ch.1 rs.1, rs.2)
termination_by fuel ms => (fuel, ms.length)
decreasing_by
  all_goals simp_wf
  · apply Prod.Lex.left; omega
  · apply Prod.Lex.right; omega

/-- `deserialize`: the tree and the unread rest of the buffer (`fuel` bounds the depth) -/
def deserFuel (c : Codec) (fuel : Nat) (b : List Nat) : Option (Forest × List Nat) :=
  (readV c b).bind fun n => (readMembersB c n.1 n.2).bind fun m => desKidsB c fuel m.1 m.2

/-- the public entry point: accepted only when the buffer is consumed exactly -/
def deserialize (c : Codec) (b : List Nat) : Option Forest :=
  match deserFuel c (b.length + 1) b with
  | some (t, []) => some t
  | _ => none

end SerBytes
