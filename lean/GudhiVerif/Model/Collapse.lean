/-! Model of `Flag_complex_edge_collapser::process_edges` (C12), as written: the edges arrive in the order given (the
    caller has sorted them by decreasing value), each edge looks for a dominator among its current common neighbours,
    is pushed to the next time at which a later common neighbour appears as long as the dominator still dominates, and is
    removed, delayed or emitted unchanged.  Core Lean only. -/
namespace CollapseModel

abbrev Edge := Nat × Nat × Int
/-- current graph: edges with their current time -/
abbrev Graph := List Edge

def val (g : Graph) (a b : Nat) : Option Int :=
  (g.find? fun e => (e.1 == a && e.2.1 == b) || (e.1 == b && e.2.1 == a)).map (·.2.2)

/-- `b` is in the closed neighbourhood of `a` at time `t` (`neighbors[a]` holds `a` itself at time −∞) -/
def adjLe (g : Graph) (a b : Nat) (t : Int) : Bool :=
  a == b || (match val g a b with | some f => decide (f ≤ t) | none => false)

def vertices (g : Graph) : List Nat := (g.flatMap fun e => [e.1, e.2.1]).eraseDups

def insSorted (x : Nat) : List Nat → List Nat
  | [] => [x]
  | y :: ys => if x < y then x :: y :: ys else if x = y then y :: ys else y :: insSorted x ys

def sortNat (l : List Nat) : List Nat := l.foldl (fun acc x => insSorted x acc) []

/-- `common_neighbors`: (those present at time `t`, in increasing order; the later ones with their time) -/
def commonNeighbors (g : Graph) (u v : Nat) (t : Int) : List Nat × List (Int × Nat) :=
  let ws := (sortNat (vertices g)).filter fun w => w != u && w != v
  let both := ws.filterMap fun w =>
    match val g u w, val g v w with
    | some a, some b => some (max a b, w)
    | _, _ => none
  ((both.filter fun p => decide (p.1 ≤ t)).map (·.2), both.filter fun p => decide (t < p.1))

/-- `is_dominated_by(e_ngb, c, t)`: every common neighbour lies in the closed neighbourhood of `c` at time `t` -/
def dominatedBy (g : Graph) (ngb : List Nat) (c : Nat) (t : Int) : Bool := ngb.all fun w => adjLe g w c t

def findDominator (g : Graph) (ngb : List Nat) (t : Int) : Option Nat := ngb.find? fun c => dominatedBy g ngb c t

structure St where
  time : Int
  ngb : List Nat
  later : List (Int × Nat)

def minTime : List (Int × Nat) → Option Int
  | [] => none
  | p :: ps => match minTime ps with | none => some p.1 | some m => some (min p.1 m)

/-- one round of the push loop with dominator `c`: `none` = no later neighbour left (the edge dies);
    otherwise the new state and whether `c` still dominates -/
def pushOnce (g : Graph) (c : Nat) (s : St) : Option (St × Bool) :=
  match minTime s.later with
  | none => none
  | some t1 =>
    let now := s.later.filter fun p => decide (p.1 ≤ t1)
    let rest := s.later.filter fun p => decide (t1 < p.1)
    let still := now.all fun p => (match val g c p.2 with | some f => decide (f ≤ p.1) | none => false)
    some ({ time := t1, ngb := now.foldl (fun acc p => insSorted p.2 acc) s.ngb, later := rest }, still)

/-- the `while(true)` loop: `dom = none` looks for a dominator, `dom = some c` pushes with `c`; `none` = dead -/
def loop (g : Graph) : Nat → Option Nat → St → Option St
  | 0, _, s => some s
  | fuel + 1, none, s =>
    match findDominator g s.ngb s.time with
    | none => some s
    | some c => loop g fuel (some c) s
  | fuel + 1, some c, s =>
    match pushOnce g c s with
    | none => none
    | some (s', true) => loop g fuel (some c) s'
    | some (s', false) => loop g fuel none s'

def setVal (g : Graph) (u v : Nat) (t : Int) : Graph :=
  g.map fun e => if (e.1 == u && e.2.1 == v) || (e.1 == v && e.2.1 == u) then (e.1, e.2.1, t) else e
def remove (g : Graph) (u v : Nat) : Graph :=
  g.filter fun e => !((e.1 == u && e.2.1 == v) || (e.1 == v && e.2.1 == u))

/-- one edge of the sweep: the new graph and what is emitted -/
def processEdge (g : Graph) (e : Edge) : Graph × Option Edge :=
  let (u, v, t) := e
  let (ngb, later) := commonNeighbors g u v t
  match loop g (2 * later.length + 2) none { time := t, ngb := ngb, later := later } with
  | none => (remove g u v, none)
  | some s => if s.time = t then (g, some (u, v, t)) else (setVal g u v s.time, some (u, v, s.time))

def sweep : Graph → List Edge → List Edge
  | _, [] => []
  | g, e :: es =>
    let r := processEdge g e
    match r.2 with
    | some o => o :: sweep r.1 es
    | none => sweep r.1 es

/-- `process_edges` on an explicitly ordered edge list -/
def processEdges (edges : List Edge) : List Edge := sweep edges edges

end CollapseModel
