/-! Persistence landscapes (C18), specification-level executable model.  Core Lean only.

Abscissae are integers in *quarter units* (an interval end point `b` of the harness is `4·b` here), ordinates are integers
in units of 1/64.  For diagrams with integer end points every landscape function is linear on each quarter cell, and so
are sums, differences and integer multiples of landscapes: such a function is represented by its samples on a window
`lo … hi` of quarter points, and integrals are the exact cell formulas for piecewise-linear functions. -/
namespace Landscape

/-- `max(0, min(t − b, d − t))` -/
def tent (b d t : Int) : Int := max 0 (min (t - b) (d - t))

/-- insertion into a list sorted in descending order -/
def insDesc (x : Int) : List Int → List Int
  | [] => [x]
  | y :: ys => if y ≤ x then x :: y :: ys else y :: insDesc x ys

def sortDesc : List Int → List Int
  | [] => []
  | x :: xs => insDesc x (sortDesc xs)

/-- the `k`-th landscape function at `t`: the `k`-th largest tent value (0 beyond the number of intervals) -/
def lam (diag : List (Int × Int)) (k : Nat) (t : Int) : Int :=
  (sortDesc (diag.map fun p => tent p.1 p.2 t)).getD k 0

/-! ### sampled piecewise-linear functions -/

abbrev Fn := List Int            -- samples at lo, lo+1, …, hi (quarter points), in units of 1/64
abbrev Land := List Fn           -- levels

def window (lo hi : Int) : List Int := (List.range (hi - lo + 1).toNat).map fun (i : Nat) => lo + (i : Int)

/-- exact form: level `k` sampled on the window (quarter units → 1/64 units: × 16) -/
def sample (diag : List (Int × Int)) (lo hi : Int) (k : Nat) : Fn := (window lo hi).map fun t => 16 * lam diag k t

def ofDiagram (diag : List (Int × Int)) (lo hi : Int) : Land := (List.range diag.length).map (sample diag lo hi)

/-- gridded form with grid points `g0, g0 + step, …` (quarter units): the landscape at the grid points, linear in between,
    zero outside `[g0, g1]` -/
def gridEval (diag : List (Int × Int)) (g0 g1 step : Int) (k : Nat) (t : Int) : Int :=
  if t < g0 ∨ g1 < t then 0
  else
    let i := (t - g0) / step
    let a := g0 + i * step
    if a = t then 16 * lam diag k a
    else
      let ya := 16 * lam diag k a
      let yb := 16 * lam diag k (a + step)
      ya + (yb - ya) * (t - a) / step

def ofDiagramGrid (diag : List (Int × Int)) (g0 g1 step lo hi : Int) : Land :=
  (List.range diag.length).map fun k => (window lo hi).map (gridEval diag g0 g1 step k)

def zipPad (f : Int → Int → Int) : Fn → Fn → Fn
  | [], [] => []
  | x :: xs, [] => f x 0 :: zipPad f xs []
  | [], y :: ys => f 0 y :: zipPad f [] ys
  | x :: xs, y :: ys => f x y :: zipPad f xs ys

/-- pointwise operation, missing levels are the zero function -/
def opLand (f : Int → Int → Int) : Land → Land → Land
  | [], [] => []
  | a :: as, [] => zipPad f a [] :: opLand f as []
  | [], b :: bs => zipPad f [] b :: opLand f [] bs
  | a :: as, b :: bs => zipPad f a b :: opLand f as bs

def add := opLand (· + ·)
def sub := opLand (· - ·)
def scale (c : Int) (l : Land) : Land := l.map (·.map (c * ·))
def absL (l : Land) : Land := l.map (·.map fun y => (Int.natAbs y : Int))

/-! ### integrals of piecewise-linear functions given by samples one quarter apart.
    Results are rationals `num / den` (not normalised). -/

structure Q where
  num : Int
  den : Nat
deriving Repr

def Q.add (a b : Q) : Q := ⟨a.num * b.den + b.num * a.den, a.den * b.den⟩
def Q.norm (a : Q) : Q := let g := Nat.gcd a.num.natAbs a.den; if g = 0 then a else ⟨a.num / g, a.den / g⟩

/-- fold over consecutive sample pairs -/
def cells (f : Fn) : List (Int × Int) := f.zip f.tail

def sumQ (l : List Q) : Q := (l.foldl (fun a b => (Q.add a b).norm) ⟨0, 1⟩)

/-- numerator of ∫ f over 512: trapezoids; cell width 1/4 unit, ordinates 1/64: (y0 + y1)/2 · (1/4) / 64 = (y0 + y1) / 512 -/
def integralN : Fn → Int
  | y0 :: y1 :: r => (y0 + y1) + integralN (y1 :: r)
  | _ => 0

/-- ∫ |f| with the sign change inside a cell handled exactly: |y0|,|y1| of opposite signs ⇒ (y0² + y1²) / (2(|y0| + |y1|)) · h -/
def integralAbs (f : Fn) : Q :=
  sumQ ((cells f).map fun c =>
    let y0 := c.1; let y1 := c.2
    if (y0 < 0 ∧ 0 < y1) ∨ (0 < y0 ∧ y1 < 0) then ⟨y0 * y0 + y1 * y1, 512 * (y0.natAbs + y1.natAbs)⟩
    else ⟨(y0.natAbs + y1.natAbs : Nat), 512⟩)

/-- numerator of ∫ f·g over 98304 = 6 · 4 · 64 · 64: per cell (2 y0 z0 + y0 z1 + y1 z0 + 2 y1 z1) / 6 · h -/
def innerN : Fn → Fn → Int
  | y0 :: y1 :: r, z0 :: z1 :: r' => (2 * y0 * z0 + y0 * z1 + y1 * z0 + 2 * y1 * z1) + innerN (y1 :: r) (z1 :: r')
  | _, _ => 0

def supAbs (f : Fn) : Nat := f.foldl (fun m y => max m y.natAbs) 0

def integralL (l : Land) : Q := ⟨(l.map integralN).foldl (· + ·) 0, 512⟩
def dist1 (a b : Land) : Q := sumQ ((sub a b).map integralAbs)
def dist2sq (a b : Land) : Q := let d := sub a b; ⟨(d.map fun f => innerN f f).foldl (· + ·) 0, 98304⟩
def distInf (a b : Land) : Nat := ((sub a b).map supAbs).foldl max 0
def innerL (a b : Land) : Q :=
  ⟨((List.range (max a.length b.length)).map fun k => innerN (a.getD k []) (b.getD k [])).foldl (· + ·) 0, 98304⟩

end Landscape
