/-! C13 — definitions of the cubical boundary on counter vectors (core Lean only; the proofs are in `Cubical.lean`). -/
namespace CubicalProto

abbrev Cell := List Nat
abbrev Chain := List (Cell × Int)

/-- graded Leibniz form of the boundary: `∂(x ⊗ r) = ∂x ⊗ r + (−1)^{|x|} x ⊗ ∂r`, an odd counter is an interval -/
def bd : Cell → Chain
  | [] => []
  | x :: rest =>
    (if x % 2 = 1 then [((x - 1) :: rest, 1), ((x + 1) :: rest, -1)] else []) ++
      (bd rest).map fun p => (x :: p.1, if x % 2 = 1 then -p.2 else p.2)

/-- the C++ enumeration: directions from the top, the m-th non-degenerate one pushes (c−e, c+e) if m is even and
    (c+e, c−e) if m is odd; the k-th pushed face gets the sign (−1)^k -/
def bdEnum (pre : Cell) (m : Nat) : Cell → List Cell
  | [] => []
  | x :: rest =>
    (if x % 2 = 1 then
        (if m % 2 = 0 then [pre ++ (x - 1) :: rest, pre ++ (x + 1) :: rest]
         else [pre ++ (x + 1) :: rest, pre ++ (x - 1) :: rest])
      else []) ++ bdEnum (pre ++ [x]) (m + x % 2) rest

def altSigns : Nat → List Cell → Chain
  | _, [] => []
  | k, c :: cs => (c, if k % 2 = 0 then 1 else -1) :: altSigns (k + 1) cs

/-- coefficient of a cell in a chain -/
def coef (ch : Chain) (g : Cell) : Int := (ch.map fun p => if p.1 = g then p.2 else 0).sum

end CubicalProto
