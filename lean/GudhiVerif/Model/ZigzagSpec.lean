/-! Executable specification of zigzag persistence over Z₂ (C07): the interval decomposition of the homology zigzag
    computed from ranks.  For every pair of indices `s ≤ t` the number of intervals containing `[s,t]` is the rank of
    the canonical map `lim M|[s,t] → colim M|[s,t]`; multiplicities follow by inclusion–exclusion.  Plain Gaussian
    elimination on bit vectors (`Nat`), nothing in common with the algorithm under test.  Core Lean only. -/
namespace ZigzagSpec

abbrev Vec := Nat
abbrev Simplex := List Nat

def hb (p : Nat) : Nat := 1 <<< p.log2

/-- reduce `x` by an echelon basis sorted by decreasing leading bit -/
def reduceVec (x : Vec) (piv : List Vec) : Vec :=
  piv.foldl (fun x p => if x &&& hb p != 0 then x ^^^ p else x) x

def insDesc (x : Vec) : List Vec → List Vec
  | [] => [x]
  | y :: ys => if y < x then x :: y :: ys else y :: insDesc x ys

def echelon (rows : List Vec) : List Vec :=
  rows.foldl (fun piv r => let x := reduceVec r piv; if x != 0 then insDesc x piv else piv) []

def rank (rows : List Vec) : Nat := (echelon rows).length

def insDescP (x : Vec × Vec) : List (Vec × Vec) → List (Vec × Vec)
  | [] => [x]
  | y :: ys => if y.1 < x.1 then x :: y :: ys else y :: insDescP x ys

def reduceP (v t : Vec) (piv : List (Vec × Vec)) : Vec × Vec :=
  piv.foldl (fun (vt : Vec × Vec) p => if vt.1 &&& hb p.1 != 0 then (vt.1 ^^^ p.1, vt.2 ^^^ p.2) else vt) (v, t)

/-- basis of `{c : Σ c_i col_i = 0}` as bit vectors over the column indices -/
def nullspace (cols : List Vec) : List Vec :=
  let step (acc : List (Vec × Vec) × List Vec) (it : Vec × Nat) : List (Vec × Vec) × List Vec :=
    let (v, t) := reduceP it.1 (1 <<< it.2) acc.1
    if v != 0 then (insDescP (v, t) acc.1, acc.2) else (acc.1, acc.2 ++ [t])
  ((cols.zip (List.range cols.length)).foldl step ([], [])).2

def bit (i : Nat) : Vec := 1 <<< i

def facets (s : Simplex) : List Simplex := if s.length ≤ 1 then [] else (List.range s.length).map fun i => s.eraseIdx i

/-- boundary chain of `s` over the global index of simplices -/
def bd (index : Simplex → Nat) (s : Simplex) : Vec := (facets s).foldl (fun v f => v ^^^ bit (index f)) 0

/-- (boundaries, homology representatives) of dimension `p` in the complex `K` -/
def homology (index : Simplex → Nat) (K : List Simplex) (p : Nat) : List Vec × List Vec :=
  let ps := K.filter (·.length == p + 1)
  let qs := K.filter (·.length == p + 2)
  let B := echelon (qs.map (bd index))
  let Z : List Vec :=
    if p == 0 then ps.map fun s => bit (index s)
    else (nullspace (ps.map (bd index))).map fun t =>
      (ps.zip (List.range ps.length)).foldl (fun z si => if t.testBit si.2 then z ^^^ bit (index si.1) else z) 0
  let step (acc : List Vec × List Vec) (z : Vec) : List Vec × List Vec :=
    let x := reduceVec z acc.2
    if x != 0 then (acc.1 ++ [z], insDesc x acc.2) else acc
  (B, (Z.foldl step ([], B)).1)

/-- coordinates of the cycle `z` in the homology basis `H` modulo the boundaries `B` -/
def coords (z : Vec) (B H : List Vec) : Vec :=
  let basis : List (Vec × Vec) := B.map (fun b => (b, 0)) ++ (H.zip (List.range H.length)).map fun hi => (hi.1, bit hi.2)
  let piv := basis.foldl (fun piv vt => let r := reduceP vt.1 vt.2 piv; if r.1 != 0 then insDescP r piv else piv) []
  (reduceP z 0 piv).2

inductive Op where
  | ins (s : Simplex)
  | rm (s : Simplex)
  | idle
deriving Repr, BEq

def complexes (ops : List Op) : List (List Simplex) :=
  (ops.foldl (fun (acc : List Simplex × List (List Simplex)) op =>
    let k := match op with
      | .ins s => acc.1 ++ [s]
      | .rm s => acc.1.filter (· != s)
      | .idle => acc.1
    (k, acc.2 ++ [k])) ([], [])).2

def allSimplices (ops : List Op) : List Simplex :=
  (ops.filterMap fun op => match op with | .ins s => some s | _ => none).eraseDups

/-- the interval decomposition in dimension `p`: `(birth arrow, death arrow or none)` with multiplicity -/
def intervalsDim (ops : List Op) (p : Nat) : List (Nat × Option Nat) :=
  let n := ops.length
  let Ks := complexes ops
  let all := allSimplices ops
  let index : Simplex → Nat := fun s => all.idxOf s
  let HB := Ks.map fun K => homology index K p
  let dims := HB.map (·.2.length)
  let dimAt (j : Nat) : Nat := dims.getD j 0
  -- arrow j connects complex j and j+1; forward if op j+1 inserts (or is idle), backward if it removes
  let arrows : List (Nat × Nat × List Vec) := (List.range (n - 1)).map fun j =>
    let backward := match ops.getD (j + 1) .idle with | .rm _ => true | _ => false
    let (src, tgt) := if backward then (j + 1, j) else (j, j + 1)
    let hs := (HB.getD src ([], [])).2
    let bt := HB.getD tgt ([], [])
    (src, tgt, hs.map fun h => coords h bt.1 bt.2)
  let r (s t : Int) : Nat :=
    if s < 0 ∨ t ≥ n ∨ s > t then 0 else
    let s := s.toNat; let t := t.toNat
    let offs : List Nat := ((List.range (t - s + 1)).foldl (fun (acc : List Nat × Nat) k => (acc.1 ++ [acc.2], acc.2 + dimAt (s + k))) ([], 0)).1
    let tot := (List.range (t - s + 1)).foldl (fun a k => a + dimAt (s + k)) 0
    if tot == 0 then 0 else
    let off (j : Nat) : Nat := offs.getD (j - s) 0
    let arrs := (List.range (t - s)).map fun k => arrows.getD (s + k) (0, 0, [])
    -- relations of the colimit: e_{src,i} + M(e_i) placed in tgt
    let rel : List Vec := arrs.flatMap fun a =>
      (a.2.2.zip (List.range a.2.2.length)).map fun mi => bit (off a.1 + mi.2) ^^^ (mi.1 <<< off a.2.1)
    -- constraints of the limit: M x_src = x_tgt for every arrow
    let consOffs : List Nat := (arrs.foldl (fun (acc : List Nat × Nat) a => (acc.1 ++ [acc.2], acc.2 + dimAt a.2.1)) ([], 0)).1
    let cols : List Vec := (List.range tot).map fun c =>
      (arrs.zip consOffs).foldl (fun v ao =>
        let a := ao.1; let co := ao.2
        let v := if off a.1 ≤ c ∧ c < off a.1 + dimAt a.1 then v ^^^ ((a.2.2.getD (c - off a.1) 0) <<< co) else v
        if off a.2.1 ≤ c ∧ c < off a.2.1 + dimAt a.2.1 then v ^^^ bit (co + (c - off a.2.1)) else v) 0
    let ns := nullspace cols
    let mask := ((1 <<< dimAt s) - 1) <<< off s
    let R := echelon rel
    rank (ns.map fun x => reduceVec (x &&& mask) R)
  (List.range n).flatMap fun (s : Nat) => (List.range n).flatMap fun (t : Nat) =>
    if t < s then ([] : List (Nat × Option Nat)) else
      let si : Int := s; let ti : Int := t
      let m : Int := (r si ti : Int) - r (si - 1) ti - r si (ti + 1) + r (si - 1) (ti + 1)
      List.replicate m.toNat (s, if t == n - 1 then none else some (t + 1))

def maxDim (ops : List Op) : Nat := (allSimplices ops).foldl (fun m s => max m (s.length - 1)) 0

/-- all intervals `(dim, birth, death)` -/
def intervals (ops : List Op) : List (Nat × Nat × Option Nat) :=
  (List.range (maxDim ops + 1)).flatMap fun p => (intervalsDim ops p).map fun bd => (p, bd.1, bd.2)

end ZigzagSpec
