import GudhiVerif.Trie4
import GudhiVerif.Dim
import GudhiVerif.Order
import GudhiVerif.Mfnd3
/-! C01/C03 — read side of the simplex-tree model that is a function of the stored words only (core Lean):
    dimension, per-dimension counts, vertices, boundary with opposite vertices, batch vertex insertion,
    and the filtration order (the sort of `initialize_filtration` under `is_before_in_totally_ordered_filtration`). -/
namespace STModel
open TrieProto

/-- lexicographic order on words, a proper prefix first (`std::vector::operator<`) -/
def lexLe : List Nat → List Nat → Bool
  | [], _ => true
  | _ :: _, [] => false
  | a :: s, b :: t => if a = b then lexLe s t else decide (a < b)

def sortWords (l : List (List Nat)) : List (List Nat) := l.mergeSort lexLe

def sortDedup (l : List Nat) : List Nat := (l.mergeSort (fun a b => decide (a ≤ b))).eraseDups

/-- `dimension()`: number of vertices of a largest simplex minus one (−1 for the empty complex) -/
def dimOf (t : Forest) : Int := (maxLen t : Int) - 1

/-- `num_simplices_by_dimension` -/
def byDim (t : Forest) : List Nat :=
  let ws := (toList t).map (·.1.length)
  (List.range (maxLen t)).map fun d => ws.countP (· = d + 1)

def rootLabels : Forest → List Nat
  | Forest.nil => []
  | Forest.cons l _ _ r => l :: rootLabels r

/-- `boundary_opposite_vertex_simplex_range`: the facets with the vertex each one misses -/
def boundaryOpp (w : List Nat) : List (List Nat × Nat) :=
  if w.length ≤ 1 then [] else (List.range w.length).map fun i => (w.eraseIdx i, w.getD i 0)

/-- `insert_batch_vertices`: existing vertices untouched, new ones get `f` -/
def insertBatch (t : Forest) (vs : List Nat) (f : Int) : Forest :=
  vs.foldl (fun acc v => if (find acc [v]).isSome then acc else insert acc [v] f) t

/-- the filtration order: all simplices sorted by (value, reverse-lexicographic on decreasing vertex lists) -/
def filtrationOrder (t : Forest) : List (List Nat × Int) :=
  let items := (toList t).map fun (w, f) => (f, w.reverse)
  (items.mergeSort (fun a b => !(OrderProto.before b a))).map fun (f, w) => (w.reverse, f)

/-! ### extended filtration (values in units of 1/D, D = max − min of the vertex values, D = 1 when they coincide) -/

def rootVals : Forest → List Int
  | Forest.nil => []
  | Forest.cons _ f _ r => f :: rootVals r

def minL (l : List Int) : Int := l.foldl min (l.headD 0)
def maxLI (l : List Int) : Int := l.foldl max (l.headD 0)

/-- `extend_filtration`: returns the coned tree with scaled values, and (min, max) of the vertex values.
    Vertices get `−2D + (v − m)`, cones on vertices `2D − (v − m)`, everything else `−3D` before
    `make_filtration_non_decreasing` runs. -/
def extend (t : Forest) : Forest × Int × Int :=
  let vals := rootVals t
  let m := minL vals
  let M := maxLI vals
  let D := if M - m = 0 then 1 else M - m
  let c := (rootLabels t).foldl max 0 + 1
  let orig := toList t
  let val (w : List Nat) (f : Int) : Int := if w.length = 1 then -2 * D + (if M - m = 0 then 0 else f - m) else -3 * D
  let cval (w : List Nat) (f : Int) : Int := if w.length = 1 then 2 * D - (if M - m = 0 then 0 else f - m) else -3 * D
  let t1 := orig.foldl (fun acc (wf : List Nat × Int) => insert acc wf.1 (val wf.1 wf.2)) Forest.nil
  let t2 := insert t1 [c] (-3 * D)
  let t3 := orig.foldl (fun acc (wf : List Nat × Int) => insert acc (wf.1 ++ [c]) (cval wf.1 wf.2)) t2
  (Mfnd3Proto.mfnd t3, m, M)

/-- `decode_extended_filtration` on a scaled value `x` (= f·D): original value and type (0 = UP, 1 = DOWN, 2 = EXTRA) -/
def decode (m M x : Int) : Option Int × Nat :=
  let D := if M - m = 0 then 1 else M - m
  if -2 * D ≤ x ∧ x ≤ -D then (some (if M - m = 0 then m else m + (x + 2 * D)), 0)
  else if D ≤ x ∧ x ≤ 2 * D then (some (if M - m = 0 then m else m - (x - 2 * D)), 1)
  else (none, 2)

end STModel
