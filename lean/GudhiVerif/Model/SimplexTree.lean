import GudhiVerif.Trie4
import GudhiVerif.Dim
import GudhiVerif.Order
/-! C01/C03 — read side of the simplex-tree model that is a function of the stored words only (core Lean):
    dimension, per-dimension counts, vertices, boundary with opposite vertices, batch vertex insertion,
    and the filtration order (the sort of `initialize_filtration` under `is_before_in_totally_ordered_filtration`). -/
namespace STModel
open TrieProto

/-- lexicographic order on words, a proper prefix first (`std::vector::operator<`) -/
def lexLe : List Nat → List Nat → Bool
  | [], _ => true
  | _ :: _, [] => false
  | a :: s, b :: t => if a = b then lexLe s t else decide (a < b)

def sortWords (l : List (List Nat)) : List (List Nat) := l.mergeSort lexLe

def sortDedup (l : List Nat) : List Nat := (l.mergeSort (fun a b => decide (a ≤ b))).eraseDups

/-- `dimension()`: number of vertices of a largest simplex minus one (−1 for the empty complex) -/
def dimOf (t : Forest) : Int := (maxLen t : Int) - 1

/-- `num_simplices_by_dimension` -/
def byDim (t : Forest) : List Nat :=
  let ws := (toList t).map (·.1.length)
  (List.range (maxLen t)).map fun d => ws.countP (· = d + 1)

def rootLabels : Forest → List Nat
  | Forest.nil => []
  | Forest.cons l _ _ r => l :: rootLabels r

/-- `boundary_opposite_vertex_simplex_range`: the facets with the vertex each one misses -/
def boundaryOpp (w : List Nat) : List (List Nat × Nat) :=
  if w.length ≤ 1 then [] else (List.range w.length).map fun i => (w.eraseIdx i, w.getD i 0)

/-- `insert_batch_vertices`: existing vertices untouched, new ones get `f` -/
def insertBatch (t : Forest) (vs : List Nat) (f : Int) : Forest :=
  vs.foldl (fun acc v => if (find acc [v]).isSome then acc else insert acc [v] f) t

/-- the filtration order: all simplices sorted by (value, reverse-lexicographic on decreasing vertex lists) -/
def filtrationOrder (t : Forest) : List (List Nat × Int) :=
  let items := (toList t).map fun (w, f) => (f, w.reverse)
  (items.mergeSort (fun a b => !(OrderProto.before b a))).map fun (f, w) => (w.reverse, f)

end STModel
