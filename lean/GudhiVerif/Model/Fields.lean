import GudhiVerif.Zp
import GudhiVerif.Zp2
import GudhiVerif.GetValue
/-! C10 — executable model of the coefficient classes (core Lean only, linked into `gvdriver`).

* Z_p family (`Zp_field_operators`, `Zp_field_element`, `Shared_Zp_field_element`, `Z2_*`, cohomology `Field_Zp`):
  `add`/`sub` are `Zp2Proto.add/sub` (the `_add`/`_subtract` helpers with their wrap-around branch), `mul` is
  `ZpProto.multiply` (the double-and-add loop), conversion of signed integers is `GetValueProto.getValueFixed`
  (C++ truncated remainder), the inverse is read from the table built by `Zp2Proto.setCharacteristic` (the linear
  search of `set_characteristic`, `none` = `std::invalid_argument`).
* multi-field family: primes of the range by trial division (`_is_prime`), CRT idempotents by square-and-multiply,
  partial identity, extended Euclid `_get_inverse` as written (with fuel), `get_partial_inverse`.
-/
namespace FieldsModel

/-! ### Z_p -/

def zpAdd (p a b : Nat) : Nat := Zp2Proto.add a b p
def zpSub (p a b : Nat) : Nat := Zp2Proto.sub a b p
def zpMul (p a b : Nat) : Nat := ZpProto.multiply a b p
def zpConv (p : Nat) (e : Int) : Nat := GetValueProto.getValueFixed p e
/-- `multiply_and_add(e, m, a) = get_value(e * m + a)` in 32-bit arithmetic -/
def zpMad (p e m a : Nat) : Nat := Zp2Proto.multiplyAndAdd e m a p
/-- `add_and_multiply(e, a, m) = _multiply(_add(e, a), m)` (after the repair of D24) -/
def zpAam (p e a m : Nat) : Nat := zpMul p (zpAdd p e a) m

def powMod (P : Nat) : Nat → Nat → Nat → Nat
  | 0, _, acc => acc
  | f + 1, b, acc => powMod P f b (acc * b % P)

/-- modular exponentiation by repeated squaring (`while (exp > 0) { if (exp & 1) r = r*b; exp >>= 1; b = b*b; }`) -/
def sqMul (P : Nat) : Nat → Nat → Nat → Nat → Nat
  | 0, _, _, r => r
  | fuel + 1, e, b, r =>
    if e = 0 then r
    else sqMul P fuel (e / 2) (b * b % P) (if e % 2 = 1 then r * b % P else r)

/-- inverse of `x` in Z_p: table look-up for small p (the table is the code's), Fermat power otherwise
    (`setCharacteristic_prime` shows the table entry is *the* inverse, which is unique in `[1,p)`) -/
def zpInv (tbl : List Nat) (p x : Nat) : Nat :=
  if tbl.length = p then tbl.getD x 0 else sqMul p 64 (p - 2) (x % p) 1

def isPrime (n : Nat) : Bool :=
  if n ≤ 1 then false else
  (List.range (n + 1)).all fun d => d < 2 || d * d > n || n % d != 0

/-- set_characteristic: table for p ≤ 1500 (quadratic search as in the code), primality test beyond -/
def zpInit (p : Nat) : Option (List Nat) :=
  if p ≤ 1500 then Zp2Proto.setCharacteristic p
  else if isPrime p then some [] else none

/-! ### multi-fields -/

structure MF where
  primes : List Nat
  P : Nat
  partials : List Nat
deriving Repr

def primesIn (lo hi : Nat) : List Nat := ((List.range (hi + 1)).filter fun n => lo ≤ n && isPrime n)

def mfInit (lo hi : Nat) : Option MF :=
  if hi < 2 then none
  else if lo > hi then none
  else
    let ps := primesIn lo hi
    if ps.isEmpty then none
    else
      let P := ps.foldl (· * ·) 1
      some { primes := ps, P := P, partials := ps.map fun p => sqMul P 64 (p - 1) (P / p % P) 1 }

/-- `get_partial_multiplicative_identity(Q)` -/
def mfPid (m : MF) (Q : Nat) : Nat :=
  if Q = 0 then 1 % m.P
  else ((m.primes.zip m.partials).foldl (fun acc (pu : Nat × Nat) => if Q % pu.1 = 0 then (acc + pu.2) % m.P else acc) 0)

/-- `_get_inverse(element, mod)`: extended Euclid as written; `none` = division by zero -/
def egcdLoop : Nat → Nat → Nat → Int → Int → Option Int
  | 0, _, _, _, _ => none
  | f + 1, A, M, x, y =>
    if A ≤ 1 then some x
    else if M = 0 then none
    else egcdLoop f M (A % M) y (x - (A / M : Nat) * y)

def egcdInv (e md : Nat) : Option Nat :=
  match egcdLoop 200 e md 1 0 with
  | none => none
  | some x => some (if x < 0 then (x + md).toNat else x.toNat)

/-- `get_partial_inverse(x, Q)` → `(value, T)`; `none` = undefined behaviour in the C++ (never reached for `Q ∣ P`) -/
def mfPinv (m : MF) (x Q : Nat) : Option (Nat × Nat) :=
  let g := Nat.gcd x Q
  if g = Q then some (0, 1)
  else
    let QT := Q / g
    match egcdInv x QT with
    | none => none
    | some iv => some (mfPid m QT * (iv % m.P) % m.P, QT)

/-- the small classes use the 32-bit helpers of the Z_p classes with modulus `P`; the GMP classes (any `P`) are exact -/
def mfAdd (m : MF) (a b : Nat) : Nat :=
  if m.P < Zp2Proto.W then zpAdd m.P (a % m.P) (b % m.P) else (a % m.P + b % m.P) % m.P
def mfSub (m : MF) (a b : Nat) : Nat :=
  if m.P < Zp2Proto.W then zpSub m.P (a % m.P) (b % m.P) else (a % m.P + m.P - b % m.P) % m.P
def mfMul (m : MF) (a b : Nat) : Nat :=
  if m.P < Zp2Proto.W then zpMul m.P (a % m.P) (b % m.P) else (a % m.P) * (b % m.P) % m.P

end FieldsModel
