import GudhiVerif.Perm
/-! Executable specification for C20 on top of `PermProto` (vertices of a permutahedral representation):
    faces as vertex subsets, cofaces by exhaustive search over all representations near the simplex, exact point
    location in the Freudenthal triangulation.  Core Lean only. -/
namespace CoxModel
open PermProto

structure Simp where
  d : Nat
  v : List Int
  parts : List (List Nat)
deriving Repr

def vtx (l : List Int) : Vtx := fun j => l.getD j 0
def vertsL (s : Simp) : List (List Int) := (verts s.d (vtx s.v) s.parts).map fun f => (List.range s.d).map f

def insSorted (x : List Int) : List (List Int) → List (List Int)
  | [] => [x]
  | y :: ys => if compare x y == .gt then y :: insSorted x ys else x :: y :: ys
instance : Ord (List Int) := ⟨fun a b => compareOfLessAndEq a b⟩
def sortV (l : List (List Int)) : List (List Int) := l.foldl (fun acc x => insSorted x acc) []

/-- sublists of a given length -/
def choose : Nat → List α → List (List α)
  | 0, _ => [[]]
  | _ + 1, [] => []
  | k + 1, x :: xs => (choose k xs).map (x :: ·) ++ choose (k + 1) xs

/-- `k`-faces as vertex sets: the `(k+1)`-subsets of the vertices -/
def faces (s : Simp) (k : Nat) : List (List (List Int)) := (choose (k + 1) (vertsL s)).map sortV

/-- all maps `{0..n-1} → {0..m}` -/
def assignments : Nat → Nat → List (List Nat)
  | 0, _ => [[]]
  | n + 1, m => (assignments n m).flatMap fun a => (List.range (m + 1)).map fun b => a ++ [b]

/-- ordered partitions of `{0..d}` into `m+1` non-empty parts with `d` in the last part -/
def orderedPartitions (d m : Nat) : List (List (List Nat)) :=
  (assignments d m).filterMap fun a =>
    let full := a ++ [m]
    let parts := (List.range (m + 1)).map fun b => (List.range (d + 1)).filter fun i => full.getD i 0 == b
    if parts.all (fun p => !p.isEmpty) then some parts else none

/-- 0/1 vectors of length d -/
def bits : Nat → List (List Int)
  | 0 => [[]]
  | n + 1 => (bits n).flatMap fun b => [b ++ [0], b ++ [1]]

def subsetV (a b : List (List Int)) : Bool := a.all fun x => b.contains x

/-- **specification of the cofaces**: every representation `(v', ω')` of dimension `m` (base vertex = σ's base vertex
    minus a 0/1 vector, any ordered partition with `d` last) whose vertex set contains the vertices of σ -/
def cofaces (s : Simp) (m : Nat) : List (List (List Int)) :=
  let vs := vertsL s
  let cands := (bits s.d).flatMap fun b =>
    let v' := (s.v.zip b).map fun p => p.1 - p.2
    (orderedPartitions s.d m).filterMap fun ps =>
      let t : Simp := { d := s.d, v := v', parts := ps }
      let tv := vertsL t
      if subsetV vs tv then some (sortV tv) else none
  cands

/-- exact point location in the Freudenthal triangulation: coordinates are `num / den` with a common denominator;
    floor, fractional parts sorted decreasingly, equal ones grouped, zero fractional parts join `d` in the last part -/
def locate (d : Nat) (nums : List Int) (den : Nat) : Simp :=
  let dn : Int := den
  let v := nums.map fun x => x / dn          -- floor (Int division rounds towards −∞ for positive divisor)
  let z := (nums.map fun x => x % dn) ++ [0]   -- fractional parts × den, in [0, den)
  let idx := List.range (d + 1)
  -- stable descending sort by z (ties keep index order; the grouping below makes the order inside a part irrelevant)
  let levels := (z.foldl (fun acc x => if acc.contains x then acc else acc ++ [x]) []).mergeSort (fun a b => a ≥ b)
  let parts := levels.map fun l => idx.filter fun i => z.getD i 0 == l
  { d := d, v := v, parts := parts }

end CoxModel
