/-! Model of `Sparse_rips_complex::compute_sparse_graph` and of the vertex-death blocker (C19), over exact integer
    arithmetic: ε = a/b, distances and insertion radii are integers, `none` stands for +∞ (the radius of the first point,
    an absent bound).  Core Lean only. -/
namespace SparseRips

structure Cfg where
  a : Nat := 1
  b : Nat := 2
  mini : Option Int := none       -- none = −∞
  maxi : Option Int := none       -- none = +∞
  dim : Nat := 2

/-- is `(order, params)` a greedy permutation (farthest-point order) for the metric `dist` on `n` points? -/
def distToSet (dist : Nat → Nat → Int) (q : Nat) (ps : List Nat) : Option Int :=
  ps.foldl (fun m p => match m with | none => some (dist q p) | some x => some (min x (dist q p))) none

def greedy (dist : Nat → Nat → Int) (n : Nat) (order : List Nat) (params : List (Option Int)) : Bool :=
  order.length == n && params.length == n && (List.range n).all (fun v => order.contains v) &&
  params.head? == some none &&
  (List.range n).all fun i =>
    i == 0 ||
    (let prev := order.take i
     let rest := order.drop i
     let li := distToSet dist (order.getD i 0) prev
     params.getD i none == li &&
     rest.all fun q => match distToSet dist q prev, li with
       | some x, some l => decide (x ≤ l)
       | _, _ => false)

/-- the three branches of the inner loop of `compute_sparse_graph`; `none` = no edge.  All comparisons are the C++ ones
    multiplied through by the positive denominators: ε = a/b, cst = a(b−a)/(2b²). -/
def isNear (c : Cfg) (d lj : Int) : Bool := decide (d * (c.a : Int) ≤ 2 * lj * (c.b : Int))
def tooFar (c : Cfg) (d : Int) (li : Option Int) (lj : Int) : Bool :=
  match li with | none => false | some l => decide (d * (c.a : Int) > (l + lj) * (c.b : Int))
/-- `(d − lj/ε)·2`, exact when `a ∈ {1, 2}` -/
def alphaFar (c : Cfg) (d lj : Int) : Int := 2 * (d * (c.a : Int) - lj * (c.b : Int)) / (c.a : Int)
def diesFirst (c : Cfg) (al lj : Int) : Bool :=
  decide ((c.a : Int) < (c.b : Int)) && decide (al * (c.a : Int) * ((c.b : Int) - (c.a : Int)) > 2 * (c.b : Int) * (c.b : Int) * lj)

def alphaRaw (c : Cfg) (d : Int) (li : Option Int) (lj : Int) : Option Int :=
  if isNear c d lj then some d
  else if tooFar c d li lj then none
  else if diesFirst c (alphaFar c d lj) lj then none
  else some (alphaFar c d lj)

def underMaxi (c : Cfg) (al : Int) : Bool := match c.maxi with | none => true | some m => decide (al ≤ m)

def edgeAlpha (c : Cfg) (d : Int) (li : Option Int) (lj : Int) : Option Int :=
  (alphaRaw c d li lj).filter (underMaxi c)

/-- number of points kept: the loop breaks at the first `i ≠ 0` with `params[i] < mini` or `params[i] ≤ 0` -/
def stops (c : Cfg) (i : Nat) (p : Option Int) : Bool :=
  i != 0 && (match p with
             | none => false
             | some l => (match c.mini with | none => false | some m => decide (l < m)) || decide (l ≤ 0))

def keptGo (c : Cfg) : Nat → List (Option Int) → Nat
  | i, [] => i
  | i, p :: ps => if stops c i p then i else keptGo c (i + 1) ps

def kept (c : Cfg) (params : List (Option Int)) : Nat := keptGo c 0 params

/-- the sparse graph: vertices (original labels) and edges `(u, v, α)` -/
def sparseGraph (c : Cfg) (dist : Nat → Nat → Int) (order : List Nat) (params : List (Option Int)) :
    List Nat × List (Nat × Nat × Int) :=
  let n := kept c params
  let vs := order.take n
  let es := (List.range n).flatMap fun i => ((List.range n).filter (i < ·)).filterMap fun j =>
    let pi := order.getD i 0; let pj := order.getD j 0
    match params.getD j none with
    | none => none
    | some lj => (edgeAlpha c (dist pi pj) (params.getD i none) lj).map fun al => (pi, pj, al)
  (vs, es)

/-- the blocker of `create_complex`: some vertex died before the simplex could be born (`λ_v < filt · cst`) -/
def blocked (c : Cfg) (lambda : Nat → Option Int) (w : List Nat) (filt : Int) : Bool :=
  let a : Int := c.a; let b : Int := c.b
  w.any fun v => match lambda v with
    | none => false
    | some l => decide (2 * b * b * l < filt * a * (b - a))

end SparseRips
