import GudhiVerif.Model.Pers
/-! C13 — executable model of `Bitmap_cubical_complex_base` / `…_periodic_boundary_conditions_base` on flat positions
    (core Lean only): mixed-radix counters, dimension, boundary and coboundary *in the order of the C++ loops*, the
    lower-star values under both input conventions (stated as min over the top cofaces / max over the vertices — what the
    breadth-first imposition computes), and the filtration order `(value, dimension, position)`. -/
namespace CubModel
open PersModel

structure Shape where
  sizes : List Nat      -- number of top cells per direction, direction 0 first
  per : List Bool       -- periodic directions (all false for the plain complex)
deriving Repr

def Shape.isPer (sh : Shape) (i : Nat) : Bool := sh.per.getD i false
def Shape.size (sh : Shape) (i : Nat) : Nat := sh.sizes.getD i 0
def Shape.radix (sh : Shape) (i : Nat) : Nat := if sh.isPer i then 2 * sh.size i else 2 * sh.size i + 1
def Shape.dims (sh : Shape) : Nat := sh.sizes.length
def Shape.radices (sh : Shape) : List Nat := (List.range sh.dims).map sh.radix
/-- `multipliers[i]` -/
def Shape.mult (sh : Shape) (i : Nat) : Nat := ((sh.radices).take i).foldl (· * ·) 1
def Shape.total (sh : Shape) : Nat := sh.radices.foldl (· * ·) 1
def Shape.digit (sh : Shape) (pos i : Nat) : Nat := (pos / sh.mult i) % sh.radix i
def Shape.counter (sh : Shape) (pos : Nat) : List Nat := (List.range sh.dims).map (sh.digit pos)
def Shape.dimOf (sh : Shape) (pos : Nat) : Nat := (sh.counter pos).countP (· % 2 = 1)
def Shape.posOf (sh : Shape) (c : List Nat) : Nat :=
  ((List.range sh.dims).map fun i => c.getD i 0 * sh.mult i).foldl (· + ·) 0

/-- directions from the last one down, as the C++ loops run -/
def Shape.dirsDown (sh : Shape) : List Nat := (List.range sh.dims).reverse

/-- `get_boundary_of_a_cell` (plain: `cell − m, cell + m` when the number of previous non-degenerate directions is even;
    periodic class: the other way round, and the wrap-around face at the last interval of a periodic direction) -/
def Shape.boundary (sh : Shape) (periodicClass : Bool) (pos : Nat) : List Nat :=
  let step := fun (acc : List Nat × Nat) (i : Nat) =>
    let d := sh.digit pos i
    if d % 2 = 1 then
      let m := sh.mult i
      let lo := pos - m
      let hi := if sh.isPer i && d == 2 * sh.size i - 1 then pos - (2 * sh.size i - 1) * m else pos + m
      let odd := acc.2 % 2 = 1
      let pair := if periodicClass then (if odd then [lo, hi] else [hi, lo]) else (if odd then [hi, lo] else [lo, hi])
      (acc.1 ++ pair, acc.2 + 1)
    else acc
  (sh.dirsDown.foldl step ([], 0)).1

/-- `get_coboundary_of_a_cell` -/
def Shape.coboundary (sh : Shape) (pos : Nat) : List Nat :=
  let step := fun (acc : List Nat) (i : Nat) =>
    let d := sh.digit pos i
    if d % 2 = 0 then
      let m := sh.mult i
      if sh.isPer i then
        (if d != 0 then acc ++ [pos - m, pos + m] else acc ++ [pos + m, pos + (2 * sh.size i - 1) * m])
      else
        acc ++ (if d != 0 then [pos - m] else []) ++ (if d != 2 * sh.size i then [pos + m] else [])
    else acc
  sh.dirsDown.foldl step []

/-! ### values -/

def cartesian : List (List Nat) → List (List Nat)
  | [] => [[]]
  | l :: ls => (cartesian ls).flatMap fun rest => l.map fun x => x :: rest

/-- digits of the top cells containing the cell (per direction: the odd digit itself, or the odd neighbours) -/
def Shape.topDigits (sh : Shape) (pos i : Nat) : List Nat :=
  let d := sh.digit pos i
  let r := sh.radix i
  if d % 2 = 1 then [d]
  else if sh.isPer i then [if d = 0 then r - 1 else d - 1, d + 1]
  else (if d = 0 then [] else [d - 1]) ++ (if d + 1 < r then [d + 1] else [])

/-- index of a top cell (all digits odd) in the input array (direction 0 fastest) -/
def Shape.topIndex (sh : Shape) (c : List Nat) : Nat :=
  ((List.range sh.dims).map fun i => (c.getD i 0 / 2) * ((sh.sizes.take i).foldl (· * ·) 1)).foldl (· + ·) 0

def minList (l : List Int) : Int := l.foldl min (l.headD 0)
def maxList (l : List Int) : Int := l.foldl max (l.headD 0)

/-- lower-star value from top-cell values: the minimum over the top cells containing the cell -/
def Shape.valueTop (sh : Shape) (vals : List Int) (pos : Nat) : Int :=
  minList ((cartesian ((List.range sh.dims).map (sh.topDigits pos))).map fun c => vals.getD (sh.topIndex c) 0)

/-- number of vertices in direction i -/
def Shape.nvert (sh : Shape) (i : Nat) : Nat := if sh.isPer i then sh.size i else sh.size i + 1

def Shape.vertDigits (sh : Shape) (pos i : Nat) : List Nat :=
  let d := sh.digit pos i
  let r := sh.radix i
  if d % 2 = 0 then [d] else [d - 1, if d + 1 = r then 0 else d + 1]

def Shape.vertIndex (sh : Shape) (c : List Nat) : Nat :=
  ((List.range sh.dims).map fun i => (c.getD i 0 / 2) * (((List.range i).map sh.nvert).foldl (· * ·) 1)).foldl (· + ·) 0

/-- value from vertex values: the maximum over the vertices of the cell -/
def Shape.valueVert (sh : Shape) (vals : List Int) (pos : Nat) : Int :=
  maxList ((cartesian ((List.range sh.dims).map (sh.vertDigits pos))).map fun c => vals.getD (sh.vertIndex c) 0)

/-! ### filtration order and the filtered complex handed to the persistence spec -/

def leCell (a b : Int × Nat × Nat) : Bool :=
  if a.1 ≠ b.1 then decide (a.1 < b.1) else if a.2.1 ≠ b.2.1 then decide (a.2.1 < b.2.1) else decide (a.2.2 ≤ b.2.2)

/-- positions sorted by (value, dimension, position) — `is_before_in_filtration` -/
def Shape.order (sh : Shape) (value : Nat → Int) : List Nat :=
  (((List.range sh.total).map fun pos => (value pos, sh.dimOf pos, pos)).mergeSort leCell).map (·.2.2)

def indexOf (l : List Nat) (x : Nat) : Nat := l.idxOf x

/-- the filtered cell complex (signs alternate along the enumerated boundary) -/
def Shape.cells (sh : Shape) (periodicClass : Bool) (value : Nat → Int) (p : Nat) : List Cell :=
  let ord := sh.order value
  let inv : List Nat := (List.range sh.total).map fun pos => indexOf ord pos
  ord.map fun pos =>
    let b := sh.boundary periodicClass pos
    -- a face listed twice with opposite signs (periodic direction of length 1 is excluded: sizes ≥ 2 there) cancels
    let col := (List.range b.length).map fun k => (inv.getD (b.getD k 0) 0, if k % 2 = 0 then 1 else p - 1)
    { dim := sh.dimOf pos, val := value pos, bd := col }

end CubModel
