/-! Prototype (C17): skeleton-blocker complex `(V, E, B)`; `contains σ` = "σ is a clique of the 1-skeleton and includes no
    blocker"; star removal of a simplex of dimension ≥ 2, of a vertex and of an edge (repaired update: the blockers through
    the removed simplex disappear, nothing is added) remove exactly the star; the as-implemented update of
    `update_blockers_after_remove_star_of_vertex_or_edge` (adds `blocker ∖ σ`) violates it on the witness of D18.
    Core Lean only. -/
namespace SkBlProto

abbrev Simplex := List Nat

def subset (a b : Simplex) : Bool := a.all (b.contains ·)

theorem subset_iff (a b : Simplex) : subset a b = true ↔ ∀ x ∈ a, x ∈ b := by
  simp [subset, List.all_eq_true]

structure Cx where
  V : List Nat
  E : List (Nat × Nat)      -- unordered pairs, stored both ways by `hasEdge`
  B : List Simplex
deriving Repr

def hasEdge (c : Cx) (a b : Nat) : Bool := c.E.contains (a, b) || c.E.contains (b, a)

/-- all vertices present and all pairs of distinct vertices joined by an edge -/
def clique (c : Cx) (ρ : Simplex) : Bool :=
  ρ.all (c.V.contains ·) && ρ.all fun a => ρ.all fun b => a == b || hasEdge c a b

def contains (c : Cx) (ρ : Simplex) : Bool := clique c ρ && !(c.B.any (subset · ρ))

theorem contains_iff (c : Cx) (ρ : Simplex) :
    contains c ρ = true ↔ clique c ρ = true ∧ ∀ β ∈ c.B, subset β ρ = false := by
  simp [contains, List.any_eq_true]

/-- `remove_star(σ)` for `dim σ ≥ 2`: `remove_blocker_containing_simplex(σ); add_blocker(σ)` -/
def removeStarSimplex (c : Cx) (σ : Simplex) : Cx :=
  { c with B := (c.B.filter fun β => !subset σ β) ++ [σ] }

theorem subset_trans {a b c : Simplex} (h1 : subset a b = true) (h2 : subset b c = true) : subset a c = true := by
  rw [subset_iff] at *
  exact fun x hx => h2 x (h1 x hx)

/-- exactly the star of σ disappears -/
theorem contains_removeStarSimplex (c : Cx) (σ ρ : Simplex) :
    contains (removeStarSimplex c σ) ρ = true ↔ contains c ρ = true ∧ subset σ ρ = false := by
  rw [contains_iff, contains_iff]
  have hcl : clique (removeStarSimplex c σ) ρ = clique c ρ := rfl
  rw [hcl]
  simp only [removeStarSimplex, List.mem_append, List.mem_filter, List.mem_singleton]
  constructor
  · rintro ⟨h1, h2⟩
    have hσ : subset σ ρ = false := h2 σ (Or.inr rfl)
    refine ⟨⟨h1, ?_⟩, hσ⟩
    intro β hβ
    by_cases hc : subset σ β = true
    · -- a blocker through σ that fits in ρ would put σ in ρ
      cases hb : subset β ρ with
      | false => rfl
      | true => rw [subset_trans hc hb] at hσ; cases hσ
    · exact h2 β (Or.inl ⟨hβ, by simpa using hc⟩)
  · rintro ⟨⟨h1, h2⟩, h3⟩
    refine ⟨h1, ?_⟩
    rintro β (⟨hβ, _⟩ | rfl)
    · exact h2 β hβ
    · exact h3

/-- repaired `remove_star(v)`: the vertex, its edges and the blockers through it disappear -/
def removeStarVertex (c : Cx) (v : Nat) : Cx :=
  { V := c.V.filter (· != v),
    E := c.E.filter fun e => e.1 != v && e.2 != v,
    B := c.B.filter fun β => !β.contains v }

theorem clique_removeStarVertex (c : Cx) (v : Nat) (ρ : Simplex) :
    clique (removeStarVertex c v) ρ = true ↔ clique c ρ = true ∧ v ∉ ρ := by
  simp only [clique, removeStarVertex, hasEdge, Bool.and_eq_true, List.all_eq_true, List.contains_iff_mem,
    List.mem_filter, bne_iff_ne, ne_eq, Bool.or_eq_true, beq_iff_eq, Bool.and_eq_true]
  constructor
  · rintro ⟨h1, h2⟩
    refine ⟨⟨fun x hx => (h1 x hx).1, ?_⟩, fun hv => (h1 v hv).2 rfl⟩
    intro a ha b hb
    rcases h2 a ha b hb with h | h | h
    · exact Or.inl h
    · exact Or.inr (Or.inl h.1)
    · exact Or.inr (Or.inr h.1)
  · rintro ⟨⟨h1, h2⟩, hv⟩
    refine ⟨fun x hx => ⟨h1 x hx, fun h => hv (h ▸ hx)⟩, ?_⟩
    intro a ha b hb
    have hav : a ≠ v := fun h => hv (h ▸ ha)
    have hbv : b ≠ v := fun h => hv (h ▸ hb)
    rcases h2 a ha b hb with h | h | h
    · exact Or.inl h
    · exact Or.inr (Or.inl ⟨h, hav, hbv⟩)
    · exact Or.inr (Or.inr ⟨h, hbv, hav⟩)

theorem contains_removeStarVertex (c : Cx) (v : Nat) (ρ : Simplex) :
    contains (removeStarVertex c v) ρ = true ↔ contains c ρ = true ∧ v ∉ ρ := by
  rw [contains_iff, contains_iff, clique_removeStarVertex]
  simp only [removeStarVertex, List.mem_filter, Bool.not_eq_true', List.contains_eq_mem, decide_eq_false_iff_not]
  constructor
  · rintro ⟨⟨h1, hv⟩, h2⟩
    refine ⟨⟨h1, ?_⟩, hv⟩
    intro β hβ
    by_cases hvb : v ∈ β
    · cases hb : subset β ρ with
      | false => rfl
      | true => exact absurd ((subset_iff β ρ).mp hb v hvb) hv
    · exact h2 β ⟨hβ, hvb⟩
  · rintro ⟨⟨h1, h2⟩, hv⟩
    exact ⟨⟨h1, hv⟩, fun β hβ => h2 β hβ.1⟩

/-- as implemented (D18): a blocker β ∋ v of dimension ≥ 2 + dim σ is replaced by the blocker `β ∖ {v}` -/
def removeStarVertexImpl (c : Cx) (v : Nat) : Cx :=
  let hit := c.B.filter fun β => β.contains v
  let subs := (hit.filter fun β => β.length ≥ 3).map fun β => β.filter (· != v)   -- dim β − dim{v} ≥ 2
  { V := c.V.filter (· != v),
    E := c.E.filter fun e => e.1 != v && e.2 != v,
    B := (c.B.filter fun β => !β.contains v) ++ subs }

def K4 : Cx := { V := [0,1,2,3], E := [(0,1),(0,2),(0,3),(1,2),(1,3),(2,3)], B := [[0,1,2,3]] }

/-- D18 on its witness: the triangle 123 is in the complex, survives the repaired removal of the star of 0, and is lost by
    the as-implemented one -/
theorem impl_violates :
    contains K4 [1,2,3] = true ∧ contains (removeStarVertex K4 0) [1,2,3] = true ∧
    contains (removeStarVertexImpl K4 0) [1,2,3] = false := by decide

#print axioms contains_removeStarSimplex
#print axioms contains_removeStarVertex
#print axioms impl_violates
end SkBlProto
