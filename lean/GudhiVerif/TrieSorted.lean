import GudhiVerif.Trie4
/-! Prototype (C01): the sortedness invariant of the `Forest` model is preserved by every modifying operation
    (`insert_simplex_and_subfaces`, `remove_maximal_simplex`, both prunes); `insert_simplex_raw` is `sorted_insert`
    in `Trie2.lean`, `assign_filtration` is `sorted_setVal` in `Mfnd3.lean`.  Core Lean only. -/
namespace TrieProto
open Forest

theorem Sorted.lower {t : Forest} {l : Nat} {lb : Option Nat} (h : Sorted (some l) t)
    (hl : match lb with | none => True | some b => b < l) : Sorted lb t := by
  cases lb with
  | none => exact h.none_of_some
  | some b => exact Sorted.weaken (Nat.le_of_lt hl) h

theorem sorted_prune (t : Forest) (f : Int) : ∀ lb, Sorted lb t → Sorted lb (prune t f) := by
  induction t with
  | nil => intro lb _; trivial
  | cons l g k r ihk ihr =>
    intro lb h
    obtain ⟨h1, h2, h3⟩ := h
    rw [prune]
    split
    · exact (ihr (some l) h3).lower h1
    · exact ⟨h1, ihk (some l) h2, ihr (some l) h3⟩

theorem sorted_pruneDim (t : Forest) : ∀ (d : Nat) lb, Sorted lb t → Sorted lb (pruneDim t d) := by
  induction t with
  | nil => intro d lb _; cases d <;> trivial
  | cons l g k r ihk ihr =>
    intro d lb h
    obtain ⟨h1, h2, h3⟩ := h
    cases d with
    | zero => exact ⟨h1, trivial, ihr 0 (some l) h3⟩
    | succ d => exact ⟨h1, ihk d (some l) h2, ihr (d + 1) (some l) h3⟩

theorem sorted_removeLeaf (t : Forest) (w : List Nat) : ∀ lb, Sorted lb t → Sorted lb (removeLeaf t w) := by
  induction t, w using removeLeaf.induct with
  | case1 t => intro lb h; cases t <;> (rw [removeLeaf]; exact h)
  | case2 v vs => intro lb _; rw [removeLeaf]; trivial
  | case3 g k r v hk =>
    intro lb h
    obtain ⟨h1, _, h3⟩ := h
    rw [removeLeaf, if_pos rfl, if_pos hk]
    exact h3.lower h1
  | case4 g k r v hk =>
    intro lb h
    rw [removeLeaf, if_pos rfl, if_neg hk]; exact h
  | case5 l g k r v hvl ih =>
    intro lb h
    obtain ⟨h1, h2, h3⟩ := h
    rw [removeLeaf, if_neg hvl]
    exact ⟨h1, h2, ih (some l) h3⟩
  | case6 g k r v v2 vs ih =>
    intro lb h
    obtain ⟨h1, h2, h3⟩ := h
    rw [removeLeaf, if_pos rfl]
    exact ⟨h1, ih (some v) h2, h3⟩
  | case7 l g k r v v2 vs hvl ih =>
    intro lb h
    obtain ⟨h1, h2, h3⟩ := h
    rw [removeLeaf, if_neg hvl]
    exact ⟨h1, h2, ih (some l) h3⟩

theorem sorted_insF (t : Forest) (σ : List Nat) (f : Int) :
    ∀ lb, Sorted lb t → IncAbove lb σ → Sorted lb (insF t σ f).1 := by
  induction t, σ, f using insF.induct with
  | case1 t f => intro lb h _; cases t <;> (simp only [insF]; exact h)
  | case2 v f => intro lb _ hσ; simp only [insF]; exact ⟨hσ.1, trivial, trivial⟩
  | case3 v v2 vs f ih =>
    intro lb _ hσ
    simp only [insF]
    exact ⟨hσ.1, ih (some v) trivial hσ.2, ih (some v) trivial hσ.2⟩
  | case4 l g k r v f hlt =>
    intro lb h hσ
    simp only [insF, hlt, if_true]
    exact ⟨hσ.1, trivial, hlt, h.2.1, h.2.2⟩
  | case5 g k r v f hfg _ =>
    intro lb h _
    simp only [insF, Nat.lt_irrefl, if_false, if_true, hfg]
    exact h
  | case6 g k r v f hfg _ =>
    intro lb h _
    simp only [insF, Nat.lt_irrefl, if_false, if_true, hfg]
    exact h
  | case7 l g k r v f hlt hne ih =>
    intro lb h hσ
    simp only [insF, hlt, hne, if_false]
    have hlv : l < v := by omega
    exact ⟨h.1, h.2.1, ih (some l) h.2.2 ⟨hlv, trivial⟩⟩
  | case8 l g k r v v2 vs f hlt ih1 ih2 =>
    intro lb h hσ
    simp only [insF, hlt, if_true]
    refine ⟨hσ.1, ih1 (some v) trivial hσ.2, ih2 (some v) ⟨hlt, h.2.1, h.2.2⟩ hσ.2⟩
  | case9 g k r v v2 vs f res hch _ ihk ihr =>
    intro lb h hσ
    simp only [insF, Nat.lt_irrefl, if_false, if_true]
    rw [if_pos hch]
    exact ⟨h.1, ihk (some v) h.2.1 hσ.2, ihr (some v) h.2.2 hσ.2⟩
  | case10 g k r v v2 vs f res hch _ ihk =>
    intro lb h hσ
    simp only [insF, Nat.lt_irrefl, if_false, if_true]
    rw [if_neg hch]
    exact ⟨h.1, ihk (some v) h.2.1 hσ.2, h.2.2⟩
  | case11 l g k r v v2 vs f hlt hne ih =>
    intro lb h hσ
    simp only [insF, hlt, hne, if_false]
    have hlv : l < v := by omega
    exact ⟨h.1, h.2.1, ih (some l) h.2.2 ⟨hlv, hσ.2⟩⟩

#print axioms sorted_insF
#print axioms sorted_prune
#print axioms sorted_pruneDim
#print axioms sorted_removeLeaf
end TrieProto
