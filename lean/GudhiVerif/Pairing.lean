import Mathlib.LinearAlgebra.Matrix.Block
import Mathlib.LinearAlgebra.Matrix.NonsingularInverse
import Mathlib.Tactic

/-! Prototype: pairing uniqueness lemma (feasibility probe for DESIGN.md). -/
open Matrix Finset

variable {n : ℕ} {F : Type*} [Field F]

/-- `i` is the lowest (largest-index) non-zero entry of `v`. -/
def IsLow (v : Fin n → F) (i : Fin n) : Prop := v i ≠ 0 ∧ ∀ k, i < k → v k = 0

theorem IsLow.unique {v : Fin n → F} {i i' : Fin n} (h : IsLow v i) (h' : IsLow v i') : i = i' := by
  rcases lt_trichotomy i i' with hlt | heq | hgt
  · exact absurd (h.2 i' hlt) h'.1
  · exact heq
  · exact absurd (h'.2 i hgt) h.1

theorem exists_isLow {v : Fin n → F} (hv : v ≠ 0) : ∃ i, IsLow v i := by
  classical
  have hne : (univ.filter fun i => v i ≠ 0).Nonempty := by
    by_contra hcon
    apply hv
    funext i
    by_contra hi
    exact hcon ⟨i, by simpa using hi⟩
  refine ⟨(univ.filter fun i => v i ≠ 0).max' hne, ?_, ?_⟩
  · have := (univ.filter fun i => v i ≠ 0).max'_mem hne
    simpa using this
  · intro k hk
    by_contra hvk
    have hmem : k ∈ univ.filter fun i => v i ≠ 0 := by simp [hvk]
    exact absurd ((univ.filter fun i => v i ≠ 0).le_max' k hmem) (not_le.mpr hk)

/-- column `j` of a matrix as a vector -/
def colv (M : Matrix (Fin n) (Fin n) F) (j : Fin n) : Fin n → F := fun i => M i j

/-- reduced: non-zero columns have pairwise distinct lows -/
def Reduced (R : Matrix (Fin n) (Fin n) F) : Prop :=
  ∀ j k i, IsLow (colv R j) i → IsLow (colv R k) i → j = k

/-- Lead-term lemma: a non-zero combination of columns of a reduced matrix has the low of one of the
    columns that occur with non-zero coefficient. -/
theorem low_of_comb {R : Matrix (Fin n) (Fin n) F} (hR : Reduced R) (a : Fin n → F)
    {w : Fin n → F} (hw : w = fun i => ∑ k, R i k * a k) {i : Fin n} (hi : IsLow w i) :
    ∃ k, a k ≠ 0 ∧ IsLow (colv R k) i := by
  classical
  -- T = indices with non-zero coefficient and non-zero column
  let T := univ.filter fun k => a k ≠ 0 ∧ colv R k ≠ 0
  have hT : T.Nonempty := by
    by_contra hcon
    apply hi.1
    rw [hw]
    apply Finset.sum_eq_zero
    intro k _
    by_cases hak : a k = 0
    · simp [hak]
    · have : colv R k = 0 := by
        by_contra hc
        exact hcon ⟨k, by simp [T, hak, hc]⟩
      have : R i k = 0 := congrFun this i
      simp [this]
  -- low of each column in T
  have hlow : ∀ k ∈ T, ∃ l, IsLow (colv R k) l := by
    intro k hk
    have : colv R k ≠ 0 := (by simpa [T] using hk : a k ≠ 0 ∧ colv R k ≠ 0).2
    exact exists_isLow this
  choose! lw hlw using hlow
  -- pick k* in T maximizing lw
  obtain ⟨ks, hksT, hmax⟩ := Finset.exists_max_image T lw hT
  have hks := hlw ks hksT
  have haks : a ks ≠ 0 := (by simpa [T] using hksT : a ks ≠ 0 ∧ colv R ks ≠ 0).1
  -- every other column in T has strictly smaller low
  have hlt : ∀ k ∈ T, k ≠ ks → lw k < lw ks := by
    intro k hk hne
    rcases lt_or_eq_of_le (hmax k hk) with h | h
    · exact h
    · exfalso
      apply hne
      exact hR k ks (lw ks) (h ▸ hlw k hk) hks
  -- value of w at lw ks
  have hval : w (lw ks) = R (lw ks) ks * a ks := by
    rw [hw]
    apply Finset.sum_eq_single ks
    · intro k _ hne
      by_cases hk : k ∈ T
      · have := (hlw k hk).2 (lw ks) (hlt k hk hne)
        simp [colv] at this
        simp [this]
      · have : a k = 0 ∨ colv R k = 0 := by
          by_contra hc
          push Not at hc
          exact hk (by simp [T, hc.1, hc.2])
        rcases this with h | h
        · simp [h]
        · have : R (lw ks) k = 0 := congrFun h (lw ks)
          simp [this]
    · intro h; exact absurd (mem_univ ks) h
  have hwne : w (lw ks) ≠ 0 := by
    rw [hval]; exact mul_ne_zero hks.1 haks
  have hwz : ∀ m, lw ks < m → w m = 0 := by
    intro m hm
    rw [hw]
    apply Finset.sum_eq_zero
    intro k _
    by_cases hk : k ∈ T
    · have hle : lw k ≤ lw ks := hmax k hk
      have := (hlw k hk).2 m (lt_of_le_of_lt hle hm)
      simp [colv] at this
      simp [this]
    · have : a k = 0 ∨ colv R k = 0 := by
        by_contra hc
        push Not at hc
        exact hk (by simp [T, hc.1, hc.2])
      rcases this with h | h
      · simp [h]
      · have : R m k = 0 := congrFun h m
        simp [this]
  have : i = lw ks := IsLow.unique hi ⟨hwne, hwz⟩
  exact ⟨ks, haks, this ▸ hks⟩


/-- Certificate: `R = D * V`, `V` upper triangular with non-zero diagonal, `R` reduced. -/
structure Cert (D R V : Matrix (Fin n) (Fin n) F) : Prop where
  factor : R = D * V
  upper : V.BlockTriangular id
  diag : ∀ i, V i i ≠ 0
  reduced : Reduced R

theorem upper_det_ne_zero {V : Matrix (Fin n) (Fin n) F} (hU : V.BlockTriangular id)
    (hd : ∀ i, V i i ≠ 0) : V.det ≠ 0 := by
  rw [Matrix.det_of_upperTriangular hU]
  exact Finset.prod_ne_zero_iff.mpr fun i _ => hd i


/-- one induction step, one direction.  `R' = R * W`, `W` upper triangular. -/
theorem low_step {R R' W : Matrix (Fin n) (Fin n) F} (hR : Reduced R) (hR' : Reduced R')
    (hWU : W.BlockTriangular id) (hRW : R' = R * W) (j : Fin n)
    (ih : ∀ k, k < j → ∀ i, IsLow (colv R k) i → IsLow (colv R' k) i) :
    ∀ i, IsLow (colv R' j) i → IsLow (colv R j) i := by
  intro i hi
  have hcol : colv R' j = fun r => ∑ k, R r k * W k j := by
    funext r; simp [colv, hRW, Matrix.mul_apply]
  obtain ⟨k, hk, hlow⟩ := low_of_comb hR (fun k => W k j) hcol hi
  have hkj : k ≤ j := by
    by_contra hc
    exact hk (hWU (not_le.mp hc))
  rcases lt_or_eq_of_le hkj with hlt | heq
  · exact absurd (hR' k j i (ih k hlt i hlow) hi) (ne_of_lt hlt)
  · exact heq ▸ hlow

/-- **Pairing uniqueness**: two certificates of the same boundary matrix have the same lows. -/
theorem cert_unique {D R V R' V' : Matrix (Fin n) (Fin n) F}
    (h : Cert D R V) (h' : Cert D R' V') :
    ∀ j i, IsLow (colv R j) i ↔ IsLow (colv R' j) i := by
  classical
  have hdet : IsUnit V.det := isUnit_iff_ne_zero.mpr (upper_det_ne_zero h.upper h.diag)
  have hdet' : IsUnit V'.det := isUnit_iff_ne_zero.mpr (upper_det_ne_zero h'.upper h'.diag)
  letI : Invertible V := Matrix.invertibleOfIsUnitDet V hdet
  letI : Invertible V' := Matrix.invertibleOfIsUnitDet V' hdet'
  have hWU : (V⁻¹ * V').BlockTriangular id :=
    (Matrix.blockTriangular_inv_of_blockTriangular h.upper).mul h'.upper
  have hWU' : (V'⁻¹ * V).BlockTriangular id :=
    (Matrix.blockTriangular_inv_of_blockTriangular h'.upper).mul h.upper
  have hRW : R' = R * (V⁻¹ * V') := by
    rw [h.factor, h'.factor, Matrix.mul_assoc, ← Matrix.mul_assoc V, Matrix.mul_inv_of_invertible,
      Matrix.one_mul]
  have hRW' : R = R' * (V'⁻¹ * V) := by
    rw [h.factor, h'.factor, Matrix.mul_assoc, ← Matrix.mul_assoc V', Matrix.mul_inv_of_invertible,
      Matrix.one_mul]
  have key : ∀ m : ℕ, ∀ j : Fin n, j.val = m →
      ∀ i, IsLow (colv R j) i ↔ IsLow (colv R' j) i := by
    intro m
    induction m using Nat.strong_induction_on with
    | _ m ih =>
      intro j hj i
      have ih1 : ∀ k, k < j → ∀ i, IsLow (colv R k) i → IsLow (colv R' k) i :=
        fun k hk i hi => (ih k.val (hj ▸ hk) k rfl i).mp hi
      have ih2 : ∀ k, k < j → ∀ i, IsLow (colv R' k) i → IsLow (colv R k) i :=
        fun k hk i hi => (ih k.val (hj ▸ hk) k rfl i).mpr hi
      exact ⟨low_step h'.reduced h.reduced hWU' hRW' j ih2 i,
             low_step h.reduced h'.reduced hWU hRW j ih1 i⟩
  exact fun j i => key j.val j rfl i

#print axioms cert_unique
