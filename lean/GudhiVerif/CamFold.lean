import GudhiVerif.CamRun

/-! Prototype (C02): the dense persistent-cohomology algorithm as a fold over the cells, and the end-to-end statement:
    its pairs are exactly the (lowest entry, column) pairs of any certificate of the boundary matrix, i.e. `barcode D`. -/
open Matrix Finset Classical

variable {n : ℕ} {F : Type*} [Field F]

structure DState (n : ℕ) (F : Type*) where
  live : Fin n → Prop
  z : Fin n → Fin n → F
  pairs : Fin n → Fin n → Prop     -- `pairs k j`: the class created by cell k is destroyed by cell j

def DState.init (n : ℕ) (F : Type*) [Field F] : DState n F := ⟨fun _ => False, fun _ _ => 0, fun _ _ => False⟩

/-- one step of the dense algorithm at cell `j` -/
noncomputable def dstep (D : Matrix (Fin n) (Fin n) F) (s : DState n F) (j : Fin n) : DState n F :=
  let a := bdAnn D s.z j
  let cand := univ.filter fun k => s.live k ∧ a k ≠ 0
  if h : cand.Nonempty then
    let ks := cand.max' h
    { live := fun k => s.live k ∧ k ≠ ks,
      z := fun k m => s.z k m - a k / a ks * s.z ks m,
      pairs := fun k j' => s.pairs k j' ∨ (k = ks ∧ j' = j) }
  else
    { live := fun k => s.live k ∨ k = j,
      z := fun k => if k = j then Pi.single j 1 else s.z k,
      pairs := s.pairs }

/-- state after the cells `0 … t-1` -/
noncomputable def drun (D : Matrix (Fin n) (Fin n) F) (t : ℕ) : DState n F :=
  ((List.finRange n).take t).foldl (dstep D) (DState.init n F)

theorem drun_succ (D : Matrix (Fin n) (Fin n) F) (t : ℕ) (ht : t < n) :
    drun D (t + 1) = dstep D (drun D t) ⟨t, ht⟩ := by
  unfold drun
  have hlen : t < (List.finRange n).length := by simpa using ht
  rw [List.take_succ_eq_append_getElem hlen, List.foldl_append]
  simp

/-- **the dense algorithm computes the barcode of `D`**: after `t` cells its invariant holds and its pairs are the pairs
    of the reference among the first `t` columns -/
theorem drun_spec {D R V : Matrix (Fin n) (Fin n) F} (h : Cert D R V) (hD : StrictUpper D) (hDD : D * D = 0) :
    ∀ t, t ≤ n → CamInv D R t (drun D t).live (drun D t).z ∧
      ∀ k j, (drun D t).pairs k j ↔ (j.val < t ∧ IsLow (colv R j) k) := by
  intro t
  induction t with
  | zero =>
    intro _
    refine ⟨CamInv.init D R _, fun k j => ?_⟩
    simp [drun, DState.init]
  | succ t ih =>
    intro ht
    have htn : t < n := by omega
    obtain ⟨hI, hP⟩ := ih (by omega)
    rw [drun_succ D t htn]
    set s := drun D t with hs
    set j : Fin n := ⟨t, htn⟩ with hj
    have hI' : CamInv D R j.val s.live s.z := hI
    unfold dstep
    simp only
    split
    · rename_i hne
      -- destroyer
      set cand := univ.filter fun k => s.live k ∧ bdAnn D s.z j k ≠ 0 with hcand
      have hmem := cand.max'_mem hne
      have hks : s.live (cand.max' hne) ∧ bdAnn D s.z j (cand.max' hne) ≠ 0 := by
        simpa [hcand] using hmem
      have hmax : ∀ k, s.live k → cand.max' hne < k → bdAnn D s.z j k = 0 := by
        intro k hk hlt
        by_contra hne0
        have : k ∈ cand := by simp [hcand, hk, hne0]
        exact absurd (cand.le_max' k this) (not_le.mpr hlt)
      obtain ⟨hlow, hinv⟩ := cam_destroyer h hD hDD hI' (cand.max' hne) hks.1 hks.2 hmax
      refine ⟨hinv, fun k j' => ?_⟩
      simp only
      rw [hP k j']
      constructor
      · rintro (⟨h1, h2⟩ | ⟨rfl, rfl⟩)
        · exact ⟨by omega, h2⟩
        · exact ⟨by simp [hj], hlow⟩
      · rintro ⟨h1, h2⟩
        rcases Nat.lt_or_eq_of_le (Nat.lt_succ_iff.mp h1) with hlt | heq
        · exact Or.inl ⟨hlt, h2⟩
        · have hjj : j' = j := Fin.ext (by simpa [hj] using heq)
          subst hjj
          exact Or.inr ⟨IsLow.unique h2 hlow, rfl⟩
    · rename_i hemp
      -- creator
      have hzero : ∀ k, s.live k → bdAnn D s.z j k = 0 := by
        intro k hk
        by_contra hne0
        exact hemp ⟨k, by simp [hk, hne0]⟩
      obtain ⟨hRj, hinv⟩ := cam_creator h hD hDD hI' hzero
      refine ⟨hinv, fun k j' => ?_⟩
      rw [hP k j']
      constructor
      · rintro ⟨h1, h2⟩; exact ⟨by omega, h2⟩
      · rintro ⟨h1, h2⟩
        rcases Nat.lt_or_eq_of_le (Nat.lt_succ_iff.mp h1) with hlt | heq
        · exact ⟨hlt, h2⟩
        · have hjj : j' = j := Fin.ext (by simpa [hj] using heq)
          subst hjj
          exact absurd (congrFun hRj k) h2.1

/-- corollary: the final pairs are `barcode D`, and the surviving classes are the essential cells -/
theorem drun_final {D R V : Matrix (Fin n) (Fin n) F} (h : Cert D R V) (hD : StrictUpper D) (hDD : D * D = 0) :
    (∀ k j, (drun D n).pairs k j ↔ IsLow (colv R j) k) ∧
    (∀ k, (drun D n).live k ↔ (colv R k = 0 ∧ ∀ m, ¬ IsLow (colv R m) k)) := by
  obtain ⟨hI, hP⟩ := drun_spec h hD hDD n (Nat.le_refl _)
  refine ⟨fun k j => ?_, fun k => ?_⟩
  · rw [hP k j]; exact ⟨fun ⟨_, h2⟩ => h2, fun h2 => ⟨j.isLt, h2⟩⟩
  · rw [hI.agree k]
    exact ⟨fun ⟨_, h2, h3⟩ => ⟨h2, fun m => h3 m m.isLt⟩, fun ⟨h2, h3⟩ => ⟨k.isLt, h2, fun m _ => h3 m⟩⟩

#print axioms drun_spec
#print axioms drun_final
