import GudhiVerif.Conj

/-! Prototype (C06): one complete leaf of the vineyard case analysis of `ru_vine_swap.h` at matrix level — the
    negative/negative case with `U(i,i+1) ≠ 0` (`_negative_vine_swap`), both sub-cases.  The state is `D = R·U`
    (`Fact3 R D U`), `U` upper triangular with non-zero diagonal, `R` reduced. -/
open Matrix

variable {n : ℕ} {F : Type*} [Field F]

/-- `_add_to(s, t)` of the vineyard code with a coefficient: column `t` of `R` gets `c`·column `s`, and the inverse
    row operation is applied to `U` (row `s` gets `−c`·row `t`) -/
theorem Fact3.addTo {D R U : Matrix (Fin n) (Fin n) F} (h : Fact3 R D U) {s t : Fin n} (hst : s < t) (c : F) :
    Fact3 (R * transvection s t c) D (transvection s t (-c) * U) := by
  have hne : s ≠ t := ne_of_lt hst
  refine ⟨?_, ?_, ?_⟩
  · rw [Matrix.mul_assoc, ← Matrix.mul_assoc (transvection s t c), transvection_mul_transvection_same s t hne]
    simp [transvection_zero, h.factor]
  · exact (Matrix.blockTriangular_transvection (le_of_lt hst) (-c)).mul h.upper
  · intro i
    by_cases his : i = s
    · subst his
      rw [transvection_mul_apply_same]
      have : U t i = 0 := h.upper hst
      simp [this, h.diag i]
    · rw [transvection_mul_apply_of_ne (i := s) (j := t) i i his (-c) U]
      exact h.diag i

/-- columns after a column operation -/
theorem colv_colop (R : Matrix (Fin n) (Fin n) F) (s t : Fin n) (c : F) (y : Fin n) :
    colv (R * transvection s t c) y = if y = t then colv R t + c • colv R s else colv R y := by
  funext x
  simp only [colv, colop_apply]
  split
  · rename_i hy; subst hy; simp [colv]
  · rfl

theorem isLow_add_of_lt {v w : Fin n → F} {l l' : Fin n} (hv : IsLow v l) (hw : IsLow w l') (h : l' < l) (c : F) :
    IsLow (v + c • w) l := by
  refine ⟨?_, fun k hk => ?_⟩
  · have : w l = 0 := hw.2 l h
    simpa [this] using hv.1
  · have h1 : v k = 0 := hv.2 k hk
    have h2 : w k = 0 := hw.2 k (lt_trans h hk)
    simp [h1, h2]

theorem isLow_add_of_gt {v w : Fin n → F} {l l' : Fin n} (hv : IsLow v l) (hw : IsLow w l') (h : l < l') {c : F}
    (hc : c ≠ 0) : IsLow (v + c • w) l' := by
  refine ⟨?_, fun k hk => ?_⟩
  · have : v l' = 0 := hv.2 l' h
    simpa [this] using mul_ne_zero hc hw.1
  · have h1 : v k = 0 := hv.2 k (lt_trans h hk)
    have h2 : w k = 0 := hw.2 k hk
    simp [h1, h2]

/-- a vector that vanishes on both exchanged coordinates is not changed by the exchange -/
theorem comp_swap_of_zero {a b : Fin n} {v : Fin n → F} (ha : v a = 0) (hb : v b = 0) : v ∘ Equiv.swap a b = v := by
  funext x
  by_cases hxa : x = a
  · subst hxa; simp [ha, hb]
  · by_cases hxb : x = b
    · subst hxb; simp [ha, hb]
    · simp [Equiv.swap_apply_of_ne_of_ne hxa hxb]

theorem colv_conjSwap (a b : Fin n) (M : Matrix (Fin n) (Fin n) F) (y : Fin n) :
    colv (conjSwap a b M) y = colv M (Equiv.swap a b y) ∘ Equiv.swap a b := rfl

/-- when no column has its lowest entry at `a` or `b`, the exchange of `a` and `b` does not move any lowest entry -/
theorem isLow_comp_swap_iff {a b : Fin n} (hab : Adjacent a b) (v : Fin n → F)
    (hno : ∀ l, IsLow v l → l ≠ a ∧ l ≠ b) (l : Fin n) : IsLow (v ∘ Equiv.swap a b) l ↔ IsLow v l := by
  classical
  have fwd : ∀ l, IsLow v l → IsLow (v ∘ Equiv.swap a b) l := by
    intro l hl
    have := isLow_swap hab v l hl
    obtain ⟨h1, h2⟩ := hno l hl
    simpa [h1, h2] using this
  constructor
  · intro hl
    have hv : v ≠ 0 := by
      intro h0; apply hl.1; simp [h0]
    obtain ⟨l0, hl0⟩ := exists_isLow hv
    have := IsLow.unique hl (fwd l0 hl0)
    rw [this]; exact hl0
  · exact fwd l

theorem reduced_conjSwap {a b : Fin n} (hab : Adjacent a b) {R : Matrix (Fin n) (Fin n) F} (hR : Reduced R)
    (hno : ∀ y l, IsLow (colv R y) l → l ≠ a ∧ l ≠ b) : Reduced (conjSwap a b R) := by
  intro x y l hx hy
  rw [colv_conjSwap, isLow_comp_swap_iff hab _ (hno _)] at hx hy
  exact (Equiv.swap a b).injective (hR _ _ l hx hy)

/-- **negative/negative, `la < lb`** (`_add_to(i,i+1); _swap_at_index(i); _negative_transpose(i)`, returns `true`) -/
theorem vine_NN_lt {D R U : Matrix (Fin n) (Fin n) F} (h : Fact3 R D U) (hR : Reduced R) {a b : Fin n}
    (hab : Adjacent a b) (hno : ∀ y l, IsLow (colv R y) l → l ≠ a ∧ l ≠ b)
    {la lb : Fin n} (hla : IsLow (colv R a) la) (hlb : IsLow (colv R b) lb) (hlt : la < lb) :
    let c := U a b / U b b
    let R1 := R * transvection a b c
    let U1 := transvection a b (-c) * U
    Fact3 (conjSwap a b R1) (conjSwap a b D) (conjSwap a b U1) ∧ Reduced (conjSwap a b R1) ∧
      IsLow (colv (conjSwap a b R1) a) lb ∧ IsLow (colv (conjSwap a b R1) b) la := by
  intro c R1 U1
  have hablt : a < b := by unfold Adjacent at hab; exact Fin.lt_def.mpr (by omega)
  have hF1 : Fact3 R1 D U1 := h.addTo hablt c
  have hU1ab : U1 a b = 0 := by
    show (transvection a b (-c) * U) a b = 0
    rw [transvection_mul_apply_same]
    have := h.diag b
    simp only [c]; field_simp; ring
  -- lows of R1: unchanged
  have hcol : ∀ y, colv R1 y = if y = b then colv R b + c • colv R a else colv R y := colv_colop R a b c
  have hlow1 : ∀ y l, IsLow (colv R1 y) l ↔ IsLow (colv R y) l := by
    intro y l
    rw [hcol y]
    by_cases hy : y = b
    · subst hy
      simp only [if_true]
      have key : IsLow (colv R y + c • colv R a) lb := isLow_add_of_lt hlb hla hlt c
      constructor
      · intro hl; rw [IsLow.unique hl key]; exact hlb
      · intro hl; rw [IsLow.unique hl hlb]; exact key
    · simp only [hy, if_false]
  have hR1 : Reduced R1 := fun x y l hx hy => hR x y l ((hlow1 x l).mp hx) ((hlow1 y l).mp hy)
  have hno1 : ∀ y l, IsLow (colv R1 y) l → l ≠ a ∧ l ≠ b := fun y l hl => hno y l ((hlow1 y l).mp hl)
  refine ⟨hF1.conj hab hU1ab, reduced_conjSwap hab hR1 hno1, ?_, ?_⟩
  · rw [colv_conjSwap, isLow_comp_swap_iff hab _ (hno1 _), Equiv.swap_apply_left, hlow1]; exact hlb
  · rw [colv_conjSwap, isLow_comp_swap_iff hab _ (hno1 _), Equiv.swap_apply_right, hlow1]; exact hla

theorem isLow_smul {v : Fin n → F} {l : Fin n} (hv : IsLow v l) {c : F} (hc : c ≠ 0) : IsLow (c • v) l :=
  ⟨by simpa using mul_ne_zero hc hv.1, fun k hk => by simp [hv.2 k hk]⟩

/-- **negative/negative, `lb < la`** (`_add_to(i,i+1); _swap_at_index(i); _add_to(i,i+1)`, returns `false`): the pairing of
    positions is unchanged -/
theorem vine_NN_gt {D R U : Matrix (Fin n) (Fin n) F} (h : Fact3 R D U) (hR : Reduced R) {a b : Fin n}
    (hab : Adjacent a b) (hno : ∀ y l, IsLow (colv R y) l → l ≠ a ∧ l ≠ b) (hU : U a b ≠ 0)
    {la lb : Fin n} (hla : IsLow (colv R a) la) (hlb : IsLow (colv R b) lb) (hgt : lb < la) :
    let c := U a b / U b b
    let R1 := R * transvection a b c
    let U1 := transvection a b (-c) * U
    let R3 := conjSwap a b R1 * transvection a b (-c⁻¹)
    let U3 := transvection a b (- -c⁻¹) * conjSwap a b U1
    Fact3 R3 (conjSwap a b D) U3 ∧ Reduced R3 ∧ IsLow (colv R3 a) la ∧ IsLow (colv R3 b) lb := by
  intro c R1 U1 R3 U3
  have hablt : a < b := by unfold Adjacent at hab; exact Fin.lt_def.mpr (by omega)
  have hanb : a ≠ b := ne_of_lt hablt
  have hc : c ≠ 0 := div_ne_zero hU (h.diag b)
  have hF1 : Fact3 R1 D U1 := h.addTo hablt c
  have hU1ab : U1 a b = 0 := by
    show (transvection a b (-c) * U) a b = 0
    rw [transvection_mul_apply_same]
    have := h.diag b
    simp only [c]; field_simp; ring
  have hF3 : Fact3 R3 (conjSwap a b D) U3 := (hF1.conj hab hU1ab).addTo hablt (-c⁻¹)
  -- R3 is the conjugate of the matrix R'' with columns a ↦ −c⁻¹·R_b, b ↦ R_b + c·R_a
  let R'' : Matrix (Fin n) (Fin n) F :=
    fun x y => if y = a then -c⁻¹ * R x b else if y = b then R x b + c * R x a else R x y
  have hR3 : R3 = conjSwap a b R'' := by
    ext x y
    show (conjSwap a b R1 * transvection a b (-c⁻¹)) x y = R'' (Equiv.swap a b x) (Equiv.swap a b y)
    rw [colop_apply]
    have hR1 : ∀ u v, R1 u v = if v = b then R u b + c * R u a else R u v := fun u v => colop_apply R a b c u v
    have hcj : ∀ u v, conjSwap a b R1 u v = R1 (Equiv.swap a b u) (Equiv.swap a b v) := fun _ _ => rfl
    by_cases hyb : y = b
    · subst hyb
      simp only [if_true, hcj, Equiv.swap_apply_right, Equiv.swap_apply_left, hR1, R'', hanb, if_false]
      field_simp
      ring
    · simp only [hyb, if_false, hcj, hR1, R'']
      by_cases hya : y = a
      · subst hya
        simp [Equiv.swap_apply_left, hanb.symm]
      · simp [Equiv.swap_apply_of_ne_of_ne hya hyb, hya, hyb]
  have hcolA : colv R'' a = (-c⁻¹) • colv R b := by funext x; simp [colv, R'']
  have hcolB : colv R'' b = colv R b + c • colv R a := by funext x; simp [colv, R'', hanb.symm]
  have hcolO : ∀ y, y ≠ a → y ≠ b → colv R'' y = colv R y := by
    intro y h1 h2; funext x; simp [colv, R'', h1, h2]
  have hlowA : IsLow (colv R'' a) lb := by rw [hcolA]; exact isLow_smul hlb (neg_ne_zero.mpr (inv_ne_zero hc))
  have hlowB : IsLow (colv R'' b) la := by rw [hcolB]; exact isLow_add_of_gt hlb hla hgt hc
  -- lows of R'' are the lows of R with columns a and b exchanged
  have hlow : ∀ y l, IsLow (colv R'' y) l → IsLow (colv R (Equiv.swap a b y)) l := by
    intro y l hl
    by_cases hya : y = a
    · subst hya; rw [Equiv.swap_apply_left, IsLow.unique hl hlowA]; exact hlb
    · by_cases hyb : y = b
      · subst hyb; rw [Equiv.swap_apply_right, IsLow.unique hl hlowB]; exact hla
      · rw [Equiv.swap_apply_of_ne_of_ne hya hyb, ← hcolO y hya hyb]; exact hl
  have hRed : Reduced R'' := fun x y l hx hy =>
    (Equiv.swap a b).injective (hR _ _ l (hlow x l hx) (hlow y l hy))
  have hno'' : ∀ y l, IsLow (colv R'' y) l → l ≠ a ∧ l ≠ b := fun y l hl => hno _ l (hlow y l hl)
  refine ⟨hF3, ?_, ?_, ?_⟩
  · rw [hR3]; exact reduced_conjSwap hab hRed hno''
  · rw [hR3, colv_conjSwap, isLow_comp_swap_iff hab _ (hno'' _), Equiv.swap_apply_left]; exact hlowB
  · rw [hR3, colv_conjSwap, isLow_comp_swap_iff hab _ (hno'' _), Equiv.swap_apply_right]; exact hlowA

/-- **negative/negative with `U(i,i+1) = 0`** (`_negative_transpose(i); _swap_at_index(i)`, returns `true`), and more
    generally every leaf that only transposes while no column has its lowest entry in row `a` or `b` -/
theorem vine_swap_only {D R U : Matrix (Fin n) (Fin n) F} (h : Fact3 R D U) (hR : Reduced R) {a b : Fin n}
    (hab : Adjacent a b) (hno : ∀ y l, IsLow (colv R y) l → l ≠ a ∧ l ≠ b) (hU : U a b = 0) :
    Fact3 (conjSwap a b R) (conjSwap a b D) (conjSwap a b U) ∧ Reduced (conjSwap a b R) ∧
      ∀ y l, IsLow (colv (conjSwap a b R) y) l ↔ IsLow (colv R (Equiv.swap a b y)) l :=
  ⟨h.conj hab hU, reduced_conjSwap hab hR hno, fun y l => by
    rw [colv_conjSwap, isLow_comp_swap_iff hab _ (hno _)]⟩

#print axioms vine_swap_only
#print axioms vine_NN_gt
#print axioms Fact3.addTo
#print axioms reduced_conjSwap
#print axioms vine_NN_lt
