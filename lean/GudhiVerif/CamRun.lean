import GudhiVerif.CamStep

/-! Prototype: the dense ("uncompressed") persistent-cohomology algorithm keeps the invariant that `cam_step` needs, and
    takes the decisions of the reference reduction at every cell — creator case and destroyer case. -/
open Matrix Finset

variable {n : ℕ} {F : Type*} [Field F]

/-- invariant of the annotation rows at time `t` (cells `< t` inserted), relative to a reference certificate -/
structure CamInv (D R : Matrix (Fin n) (Fin n) F) (t : ℕ) (live : Fin n → Prop) (z : Fin n → Fin n → F) : Prop where
  supp : ∀ k, live k → ∀ m, m < k → z k m = 0
  one : ∀ k, live k → z k k ≠ 0
  coc : ∀ k, live k → ∀ m : Fin n, m.val < t → ∑ i, z k i * D i m = 0
  agree : ∀ k, live k ↔ (k.val < t ∧ colv R k = 0 ∧ ∀ m : Fin n, m.val < t → ¬ IsLow (colv R m) k)

theorem CamInv.init (D R : Matrix (Fin n) (Fin n) F) (z : Fin n → Fin n → F) : CamInv D R 0 (fun _ => False) z :=
  ⟨fun _ h => h.elim, fun _ h => h.elim, fun _ h => h.elim, fun k => ⟨fun h => h.elim, fun h => absurd h.1 (Nat.not_lt_zero _)⟩⟩

/-- the annotation of the boundary of cell `j` -/
def bdAnn (D : Matrix (Fin n) (Fin n) F) (z : Fin n → Fin n → F) (j : Fin n) : Fin n → F :=
  fun k => ∑ i, z k i * D i j

theorem CamInv.toStep {D R V : Matrix (Fin n) (Fin n) F} (h : Cert D R V) (hD : StrictUpper D) (hDD : D * D = 0)
    {j : Fin n} {live : Fin n → Prop} {z : Fin n → Fin n → F} (hI : CamInv D R j.val live z) :
    (colv R j = 0 → ∀ k, live k → bdAnn D z j k = 0) ∧
    (∀ i, IsLow (colv R j) i → live i ∧ bdAnn D z j i ≠ 0 ∧ ∀ k, live k → i < k → bdAnn D z j k = 0) :=
  cam_step h hD hDD j live z hI.supp hI.one (fun k hk m hm => hI.coc k hk m hm)
    (fun k => by
      rw [hI.agree k]
      constructor
      · intro ⟨a, b, c⟩; exact ⟨a, b, fun m hm => c m hm⟩
      · intro ⟨a, b, c⟩; exact ⟨a, b, fun m hm => c m hm⟩)

/-- **creator case**: the boundary annotation vanishes ⇒ the reference column is zero, and the invariant holds at `j+1`
    with the new row `e_j` -/
theorem cam_creator {D R V : Matrix (Fin n) (Fin n) F} (h : Cert D R V) (hD : StrictUpper D) (hDD : D * D = 0)
    {j : Fin n} {live : Fin n → Prop} {z : Fin n → Fin n → F} (hI : CamInv D R j.val live z)
    (hzero : ∀ k, live k → bdAnn D z j k = 0) :
    colv R j = 0 ∧
    CamInv D R (j.val + 1) (fun k => live k ∨ k = j) (fun k => if k = j then Pi.single j 1 else z k) := by
  classical
  obtain ⟨_, s2⟩ := hI.toStep h hD hDD
  have hRj : colv R j = 0 := by
    by_contra hne
    obtain ⟨i, hi⟩ := exists_isLow hne
    obtain ⟨hl, ha, _⟩ := s2 i hi
    exact ha (hzero i hl)
  have hnotlive : ¬ live j := fun hl => absurd ((hI.agree j).mp hl).1 (lt_irrefl _)
  refine ⟨hRj, ?_, ?_, ?_, ?_⟩
  · intro k hk m hm
    by_cases hkj : k = j
    · subst hkj; simp only [if_true]; exact Pi.single_eq_of_ne (ne_of_lt hm) 1
    · simp only [hkj, if_false]
      exact hI.supp k (hk.resolve_right hkj) m hm
  · intro k hk
    by_cases hkj : k = j
    · subst hkj; simp
    · simp only [hkj, if_false]; exact hI.one k (hk.resolve_right hkj)
  · intro k hk m hm
    by_cases hkj : k = j
    · subst hkj
      simp only [if_true]
      have : ∑ i, (Pi.single k (1 : F) : Fin n → F) i * D i m = D k m := by
        rw [Finset.sum_eq_single k]
        · simp
        · intro b _ hb; simp [Pi.single_eq_of_ne hb]
        · intro hh; exact absurd (Finset.mem_univ k) hh
      rw [this]
      exact hD k m (by have : m.val ≤ k.val := by omega
                       exact this)
    · simp only [hkj, if_false]
      have hl := hk.resolve_right hkj
      rcases Nat.lt_or_ge m.val j.val with hlt | hge
      · exact hI.coc k hl m hlt
      · have : m = j := Fin.ext (by omega)
        rw [this]; exact hzero k hl
  · intro k
    constructor
    · intro hk
      rcases hk with hl | rfl
      · obtain ⟨a, b, c⟩ := (hI.agree k).mp hl
        refine ⟨by omega, b, fun m hm => ?_⟩
        rcases Nat.lt_or_ge m.val j.val with hlt | hge
        · exact c m hlt
        · have : m = j := Fin.ext (by omega)
          rw [this, hRj]; intro hx; exact hx.1 rfl
      · refine ⟨by omega, hRj, fun m hm hx => ?_⟩
        exact hx.1 (cert_R_support h hD (by have : m.val ≤ k.val := by omega
                                            exact this))
    · intro ⟨a, b, c⟩
      rcases Nat.lt_or_ge k.val j.val with hlt | hge
      · left; exact (hI.agree k).mpr ⟨hlt, b, fun m hm => c m (by omega)⟩
      · right; exact Fin.ext (by omega)

/-- **destroyer case**: `ks` is the youngest live class with a non-zero coefficient ⇒ it is the lowest entry of the
    reference column, and the invariant holds at `j+1` after the row operations of `destroy_cocycle` -/
theorem cam_destroyer {D R V : Matrix (Fin n) (Fin n) F} (h : Cert D R V) (hD : StrictUpper D) (hDD : D * D = 0)
    {j : Fin n} {live : Fin n → Prop} {z : Fin n → Fin n → F} (hI : CamInv D R j.val live z)
    (ks : Fin n) (hks : live ks) (hne : bdAnn D z j ks ≠ 0) (hmax : ∀ k, live k → ks < k → bdAnn D z j k = 0) :
    IsLow (colv R j) ks ∧
    CamInv D R (j.val + 1) (fun k => live k ∧ k ≠ ks)
      (fun k m => z k m - bdAnn D z j k / bdAnn D z j ks * z ks m) := by
  classical
  obtain ⟨s1, s2⟩ := hI.toStep h hD hDD
  have hRj : colv R j ≠ 0 := fun h0 => hne (s1 h0 ks hks)
  obtain ⟨i, hi⟩ := exists_isLow hRj
  obtain ⟨hli, hai, hmaxi⟩ := s2 i hi
  have hiks : i = ks := by
    rcases lt_trichotomy i ks with hlt | heq | hgt
    · exact absurd (hmaxi ks hks hlt) hne
    · exact heq
    · exact absurd (hmax i hli hgt) hai
  subst hiks
  -- rows younger than the killed one are untouched
  have hcoef : ∀ k, live k → k ≠ i → (i < k → bdAnn D z j k = 0) := fun k hk _ hik => hmax k hk hik
  refine ⟨hi, ?_, ?_, ?_, ?_⟩
  · intro k ⟨hk, hki⟩ m hm
    rcases lt_or_gt_of_ne hki with hlt | hgt
    · rw [hI.supp k hk m hm, hI.supp i hli m (lt_trans hm hlt)]; simp
    · rw [hI.supp k hk m hm, hmax k hk hgt]; simp
  · intro k ⟨hk, hki⟩
    rcases lt_or_gt_of_ne hki with hlt | hgt
    · rw [hI.supp i hli k hlt]; simpa using hI.one k hk
    · rw [hmax k hk hgt]; simpa using hI.one k hk
  · intro k ⟨hk, hki⟩ m hm
    have hsplit : ∑ x, (z k x - bdAnn D z j k / bdAnn D z j i * z i x) * D x m
        = (∑ x, z k x * D x m) - bdAnn D z j k / bdAnn D z j i * ∑ x, z i x * D x m := by
      rw [Finset.mul_sum, ← Finset.sum_sub_distrib]
      apply Finset.sum_congr rfl; intro x _; ring
    rw [hsplit]
    rcases Nat.lt_or_ge m.val j.val with hlt | hge
    · rw [hI.coc k hk m hlt, hI.coc i hli m hlt]; simp
    · have : m = j := Fin.ext (by omega)
      rw [this]
      show bdAnn D z j k - bdAnn D z j k / bdAnn D z j i * bdAnn D z j i = 0
      field_simp
      ring
  · intro k
    constructor
    · intro ⟨hk, hki⟩
      obtain ⟨a, b, c⟩ := (hI.agree k).mp hk
      refine ⟨by omega, b, fun m hm => ?_⟩
      rcases Nat.lt_or_ge m.val j.val with hlt | hge
      · exact c m hlt
      · have : m = j := Fin.ext (by omega)
        rw [this]; intro hx; exact hki (IsLow.unique hx hi)
    · intro ⟨a, b, c⟩
      have hkj : k ≠ j := fun he => hRj (he ▸ b)
      have hlt : k.val < j.val := by
        have : k.val ≠ j.val := fun hh => hkj (Fin.ext hh)
        omega
      refine ⟨(hI.agree k).mpr ⟨hlt, b, fun m hm => c m (by omega)⟩, ?_⟩
      intro he
      exact c j (by omega) (he ▸ hi)

#print axioms cam_creator
#print axioms cam_destroyer
