import GudhiVerif.Col
/-! Prototype (model side, core only): the standard column reduction over Z2 on sparse columns
    (strictly increasing row lists), with R and V updated together, and the model-level invariants. -/
namespace ReduceProto
open ColProto

abbrev Col := List Nat

def low : Col → Option Nat
  | [] => none
  | [x] => some x
  | _ :: y :: r => low (y :: r)

/-- `owner i = some k` : column k (already reduced) has lowest row i -/
abbrev Owner := List (Nat × Nat)   -- (row, column) association list

def lookup (o : Owner) (i : Nat) : Option Nat :=
  match o with
  | [] => none
  | (r, k) :: t => if r = i then some k else lookup t i

/-- reduce one column `c` (with its V-column `v`) against the reduced columns `R`, `V`; `fuel` bounds the number of
    additions (each strictly lowers the pivot, so `rows` suffices). -/
def reduceCol (R V : List Col) (o : Owner) : Nat → Col → Col → Col × Col
  | 0, c, v => (c, v)
  | fuel + 1, c, v =>
    match low c with
    | none => (c, v)
    | some i =>
      match lookup o i with
      | none => (c, v)
      | some k => reduceCol R V o fuel (xorMerge c (R.getD k [])) (xorMerge v (V.getD k []))

structure St where
  R : List Col
  V : List Col
  o : Owner

/-- insert boundary column `d` as column number `R.length` -/
def insertCol (s : St) (d : Col) (rows : Nat) : St :=
  let j := s.R.length
  let (c, v) := reduceCol s.R s.V s.o (rows + 1) d [j]
  { R := s.R ++ [c], V := s.V ++ [v],
    o := match low c with | none => s.o | some i => (i, j) :: s.o }

def stdReduce (D : List Col) : St :=
  D.foldl (fun s d => insertCol s d D.length) ⟨[], [], []⟩

/-- barcode: (birth, death) for paired, (birth, none) for essential -/
def pairs (s : St) : List (Nat × Option Nat) :=
  let n := s.R.length
  let paired := s.o.map fun (i, k) => (i, some k)
  let births := (List.range n).filter fun j => (s.R.getD j []) == [] && (lookup s.o j).isNone
  paired ++ births.map fun j => (j, none)

#eval pairs (stdReduce [[], [], [], [0,2], [1,2], [0,1]])   -- triangle: edges {0,2},{1,2},{0,1}
#eval (stdReduce [[], [], [], [0,2], [1,2], [0,1]]).V
#eval pairs (stdReduce [[], [], [], [0,1], [1,2], [0,2], [3,4,5]])

theorem low_mem {c : Col} {i : Nat} (h : low c = some i) : i ∈ c := by
  induction c with
  | nil => simp [low] at h
  | cons x t ih =>
    cases t with
    | nil => simp [low] at h; simp [h]
    | cons y r => simp only [low] at h; exact List.mem_cons_of_mem _ (ih h)

theorem low_max {c : Col} (hs : StrictSorted c) {i : Nat} (h : low c = some i) : ∀ z ∈ c, z ≤ i := by
  induction c with
  | nil => intro z hz; cases hz
  | cons x t ih =>
    cases t with
    | nil => simp [low] at h; intro z hz; simp at hz; omega
    | cons y r =>
      simp only [low] at h
      intro z hz
      cases hz with
      | head => have := hs.head_lt i (low_mem h); omega
      | tail _ hz' => exact ih hs.tail h z hz'

end ReduceProto

namespace ReduceProto
open ColProto

/-- `xorMerge` keeps columns strictly sorted -/
theorem sorted_xorMerge (xs ys : List Nat) (hx : StrictSorted xs) (hy : StrictSorted ys) :
    StrictSorted (xorMerge xs ys) := by
  -- characterise StrictSorted by: head below everything in the tail, recursively
  have key : ∀ (l : List Nat), (∀ a t, l = a :: t → (∀ z ∈ t, a < z) ∧ StrictSorted t) → StrictSorted l := by
    intro l h
    cases l with
    | nil => trivial
    | cons a t =>
      obtain ⟨h1, h2⟩ := h a t rfl
      cases t with
      | nil => trivial
      | cons b r => exact ⟨h1 b List.mem_cons_self, h2⟩
  induction xs, ys using xorMerge.induct with
  | case1 ys => simpa [xorMerge] using hy
  | case2 xs hne => simpa [xorMerge] using hx
  | case3 x xs y ys hlt ih =>
    rw [xorMerge]; simp only [hlt, if_true]
    apply key
    intro a t hat
    cases hat
    refine ⟨?_, ih hx.tail hy⟩
    intro z hz
    rw [mem_xorMerge xs (y :: ys) hx.tail hy z] at hz
    rcases hz with ⟨h1, _⟩ | ⟨_, h2⟩
    · exact hx.head_lt z h1
    · rcases List.mem_cons.mp h2 with rfl | h3
      · exact hlt
      · exact Nat.lt_trans hlt (hy.head_lt z h3)
  | case4 x xs y ys hlt hgt ih =>
    rw [xorMerge]; simp only [hlt, hgt, if_false, if_true]
    apply key
    intro a t hat
    cases hat
    refine ⟨?_, ih hx hy.tail⟩
    intro z hz
    rw [mem_xorMerge (x :: xs) ys hx hy.tail z] at hz
    rcases hz with ⟨h1, _⟩ | ⟨_, h2⟩
    · rcases List.mem_cons.mp h1 with rfl | h3
      · exact hgt
      · exact Nat.lt_trans hgt (hx.head_lt z h3)
    · exact hy.head_lt z h2
  | case5 x xs y ys hlt hgt ih =>
    rw [xorMerge]; simp only [hlt, hgt, if_false]
    exact ih hx.tail hy.tail

theorem low_none_iff {c : Col} : low c = none ↔ c = [] := by
  constructor
  · intro h
    induction c with
    | nil => rfl
    | cons x t ih =>
      cases t with
      | nil => simp [low] at h
      | cons y r => simp only [low] at h; exact absurd (ih h) (by simp)
  · rintro rfl; rfl

/-- adding a column with the same lowest row strictly lowers the pivot (termination of the reduction, and the reason
    `rows + 1` units of fuel suffice) -/
theorem low_xorMerge_lt {c d : Col} (hc : StrictSorted c) (hd : StrictSorted d) {i : Nat}
    (h1 : low c = some i) (h2 : low d = some i) :
    ∀ i', low (xorMerge c d) = some i' → i' < i := by
  intro i' h'
  have hm := low_mem h'
  rw [mem_xorMerge c d hc hd] at hm
  have hci := low_mem h1
  have hdi := low_mem h2
  rcases hm with ⟨ha, hb⟩ | ⟨ha, hb⟩
  · have := low_max hc h1 i' ha
    rcases Nat.lt_or_eq_of_le this with h | h
    · exact h
    · exact absurd (h ▸ hdi) hb
  · have := low_max hd h2 i' hb
    rcases Nat.lt_or_eq_of_le this with h | h
    · exact h
    · exact absurd (h ▸ hci) ha

#print axioms low_xorMerge_lt
end ReduceProto

namespace ReduceProto
open ColProto

theorem getD_sorted {R : List Col} (hR : ∀ c ∈ R, StrictSorted c) (k : Nat) : StrictSorted (R.getD k []) := by
  rw [List.getD_eq_getElem?_getD]
  cases h : R[k]? with
  | none => simp [StrictSorted]
  | some c => simp only [Option.getD_some]; exact hR c (List.mem_of_getElem? h)

/-- with enough fuel the inner loop stops only when the pivot is free: the new column is reduced against all owners -/
theorem reduceCol_exit (R V : List Col) (o : Owner)
    (hR : ∀ c ∈ R, StrictSorted c)
    (hown : ∀ i k, lookup o i = some k → low (R.getD k []) = some i) :
    ∀ (fuel : Nat) (c v : Col), StrictSorted c → (∀ i, low c = some i → i < fuel) →
      StrictSorted (reduceCol R V o fuel c v).1 ∧
      (∀ i, low (reduceCol R V o fuel c v).1 = some i → lookup o i = none) := by
  intro fuel
  induction fuel with
  | zero =>
    intro c v hc hf
    simp only [reduceCol]
    refine ⟨hc, ?_⟩
    intro i hi
    exact absurd (hf i hi) (Nat.not_lt_zero _)
  | succ fuel ih =>
    intro c v hc hf
    rw [reduceCol]
    cases hl : low c with
    | none => simp only; exact ⟨hc, by intro i hi; simp [hl] at hi⟩
    | some i =>
      simp only
      cases hk : lookup o i with
      | none =>
        simp only
        refine ⟨hc, ?_⟩
        intro i' hi'
        rw [hl] at hi'
        cases hi'
        exact hk
      | some k =>
        simp only
        have hRk := getD_sorted hR k
        have hlowk := hown i k hk
        apply ih
        · exact sorted_xorMerge _ _ hc hRk
        · intro i' hi'
          have := low_xorMerge_lt hc hRk hl hlowk i' hi'
          have := hf i hl
          omega

#print axioms reduceCol_exit
end ReduceProto

namespace ReduceProto
open ColProto

structure Inv (s : St) : Prop where
  sorted : ∀ c ∈ s.R, StrictSorted c
  own_sound : ∀ i k, lookup s.o i = some k → k < s.R.length ∧ low (s.R.getD k []) = some i
  own_complete : ∀ k, k < s.R.length → ∀ i, low (s.R.getD k []) = some i → lookup s.o i = some k

theorem Inv.init : Inv ⟨[], [], []⟩ where
  sorted := by intro c hc; cases hc
  own_sound := by intro i k h; simp [lookup] at h
  own_complete := by intro k hk; simp at hk

theorem getD_append_lt {R : List Col} {c : Col} {k : Nat} (h : k < R.length) :
    (R ++ [c]).getD k [] = R.getD k [] := by
  simp [List.getD_eq_getElem?_getD, List.getElem?_append_left h]

theorem getD_append_eq {R : List Col} {c : Col} : (R ++ [c]).getD R.length [] = c := by
  simp [List.getD_eq_getElem?_getD]

theorem Inv.insertCol {s : St} (h : Inv s) (d : Col) (hd : StrictSorted d) (rows : Nat)
    (hrows : ∀ i, low d = some i → i < rows + 1) : Inv (insertCol s d rows) := by
  have hown : ∀ i k, lookup s.o i = some k → low (s.R.getD k []) = some i := fun i k hk => (h.own_sound i k hk).2
  have hex := reduceCol_exit s.R s.V s.o h.sorted hown (rows + 1) d [s.R.length] hd hrows
  unfold ReduceProto.insertCol
  simp only
  generalize hres : reduceCol s.R s.V s.o (rows + 1) d [s.R.length] = res at hex
  obtain ⟨c, v⟩ := res
  simp only at hex ⊢
  obtain ⟨hcs, hfree⟩ := hex
  refine ⟨?_, ?_, ?_⟩
  · intro c' hc'
    rcases List.mem_append.mp hc' with h1 | h1
    · exact h.sorted c' h1
    · simp at h1; exact h1 ▸ hcs
  · intro i k hk
    cases hl : low c with
    | none =>
      simp only [hl] at hk
      obtain ⟨h1, h2⟩ := h.own_sound i k hk
      refine ⟨by simp; omega, ?_⟩
      rw [getD_append_lt h1]; exact h2
    | some i0 =>
      simp only [hl, lookup] at hk
      split at hk
      · rename_i heq
        cases hk
        refine ⟨by simp, ?_⟩
        rw [getD_append_eq, hl, heq]
      · obtain ⟨h1, h2⟩ := h.own_sound i k hk
        refine ⟨by simp; omega, ?_⟩
        rw [getD_append_lt h1]; exact h2
  · intro k hk i hi
    simp only [List.length_append, List.length_cons, List.length_nil] at hk
    rcases Nat.lt_or_ge k s.R.length with hlt | hge
    · rw [getD_append_lt hlt] at hi
      have hold := h.own_complete k hlt i hi
      cases hl : low c with
      | none => simp only [hl]; exact hold
      | some i0 =>
        simp only [hl, lookup]
        split
        · rename_i heq
          have := hfree i0 hl
          rw [heq, hold] at this
          cases this
        · exact hold
    · have hk' : k = s.R.length := by omega
      subst hk'
      rw [getD_append_eq] at hi
      simp only [hi, lookup, if_true]

/-- **model-level reducedness**: after the whole reduction, two columns with the same lowest row are the same column -/
theorem Inv.distinct_lows {s : St} (h : Inv s) {k k' i : Nat} (hk : k < s.R.length) (hk' : k' < s.R.length)
    (h1 : low (s.R.getD k []) = some i) (h2 : low (s.R.getD k' []) = some i) : k = k' := by
  have a := h.own_complete k hk i h1
  have b := h.own_complete k' hk' i h2
  rw [a] at b
  cases b
  rfl

#print axioms Inv.insertCol
end ReduceProto
