import GudhiVerif.Model.SimplexTree
/-! # C03 — decoding an extended-filtration value returns the original vertex value and its part

`extend` gives a vertex of value `f` (with `m ≤ f ≤ M` the extreme vertex values, `D = M − m`, or 1 when they coincide) the
value `−2D + (f − m)` and the cone on it `2D − (f − m)`; the apex and everything else start at `−3D`.  `decode` inverts both. -/
namespace ExtDecode
open STModel

def scale (m M : Int) : Int := if M - m = 0 then 1 else M - m

/-- ascending part: the encoded value of an original vertex decodes to its value, part 0 -/
theorem decode_up (m M f : Int) (h1 : m ≤ f) (h2 : f ≤ M) :
    decode m M (-2 * scale m M + (if M - m = 0 then 0 else f - m)) = (some f, 0) := by
  unfold decode scale
  by_cases h : M - m = 0
  · have : f = m := by omega
    subst this; simp [h]
  · simp only [h, if_false]
    have hc : -2 * (M - m) ≤ -2 * (M - m) + (f - m) ∧ -2 * (M - m) + (f - m) ≤ -(M - m) := by constructor <;> omega
    rw [if_pos hc]
    congr 2; omega

/-- descending part: the encoded value of the cone on a vertex decodes to the vertex value, part 1 -/
theorem decode_down (m M f : Int) (h1 : m ≤ f) (h2 : f ≤ M) :
    decode m M (2 * scale m M - (if M - m = 0 then 0 else f - m)) = (some f, 1) := by
  unfold decode scale
  by_cases h : M - m = 0
  · have : f = m := by omega
    subst this; simp [h]
  · simp only [h, if_false]
    have hD : 0 < M - m := by omega
    have hc1 : ¬ (-2 * (M - m) ≤ 2 * (M - m) - (f - m) ∧ 2 * (M - m) - (f - m) ≤ -(M - m)) := by omega
    have hc2 : (M - m ≤ 2 * (M - m) - (f - m) ∧ 2 * (M - m) - (f - m) ≤ 2 * (M - m)) := by constructor <;> omega
    rw [if_neg hc1, if_pos hc2]
    congr 2; omega

/-- the value of the apex (and of every simplex before `make_filtration_non_decreasing`) belongs to neither part -/
theorem decode_apex (m M : Int) (h : m ≤ M) : (decode m M (-3 * scale m M)).2 = 2 := by
  unfold decode scale
  by_cases h0 : M - m = 0
  · simp [h0]
  · simp only [h0, if_false]
    have hD : 0 < M - m := by omega
    have hc1 : ¬ (-2 * (M - m) ≤ -3 * (M - m) ∧ -3 * (M - m) ≤ -(M - m)) := by omega
    have hc2 : ¬ (M - m ≤ -3 * (M - m) ∧ -3 * (M - m) ≤ 2 * (M - m)) := by omega
    rw [if_neg hc1, if_neg hc2]

end ExtDecode
