import GudhiVerif.Vine
import GudhiVerif.CamStep

/-! Prototype (C06), continued: the general exchange lemma for reducedness (the only obstruction is the positive/positive
    collision), the `zero_entry` step on `U`, and the leaves of the RU case analysis that involve a positive column. -/
open Matrix Classical

variable {n : ℕ} {F : Type*} [Field F]

/-- where the lowest entry `l` of a vector goes under the exchange of `a` and `b` (`p` = "the entry at `a` is zero") -/
noncomputable def moveLow (a b l : Fin n) (p : Prop) : Fin n := if l = a then b else if l = b ∧ p then a else l

theorem moveLow_inj {a b : Fin n} (hab : a ≠ b) (lx ly : Fin n) (px py : Prop)
    (h : moveLow a b lx px = moveLow a b ly py) :
    lx = ly ∨ (lx = a ∧ ly = b ∧ ¬ py) ∨ (ly = a ∧ lx = b ∧ ¬ px) := by
  unfold moveLow at h
  have hba : b ≠ a := fun e => hab e.symm
  by_cases h1 : lx = a <;> by_cases h2 : lx = b <;> by_cases h3 : ly = a <;> by_cases h4 : ly = b <;>
    by_cases h5 : px <;> by_cases h6 : py <;> simp_all

/-- lowest entries of the columns of the conjugated matrix -/
theorem isLow_conjSwap {a b : Fin n} (hab : Adjacent a b) (R : Matrix (Fin n) (Fin n) F) (y l : Fin n)
    (h : IsLow (colv R (Equiv.swap a b y)) l) :
    IsLow (colv (conjSwap a b R) y) (moveLow a b l (R a (Equiv.swap a b y) = 0)) := by
  rw [colv_conjSwap]
  have := isLow_swap hab (colv R (Equiv.swap a b y)) l h
  unfold moveLow
  convert this using 2
  rfl

theorem exists_low_of_conj {a b : Fin n} (R : Matrix (Fin n) (Fin n) F) (y l : Fin n)
    (h : IsLow (colv (conjSwap a b R) y) l) : ∃ l0, IsLow (colv R (Equiv.swap a b y)) l0 := by
  apply exists_isLow
  intro h0
  apply h.1
  rw [colv_conjSwap, h0]; rfl

/-- **general exchange lemma**: conjugation keeps `R` reduced unless one column has its lowest entry at `a` and another one
    at `b` with a non-zero entry at `a` (the positive/positive collision of the vineyard algorithm) -/
theorem reduced_conjSwap_gen {a b : Fin n} (hab : Adjacent a b) {R : Matrix (Fin n) (Fin n) F} (hR : Reduced R)
    (hcol : ∀ y1 y2, IsLow (colv R y1) a → IsLow (colv R y2) b → R a y2 = 0) : Reduced (conjSwap a b R) := by
  have hne : a ≠ b := by
    intro e; unfold Adjacent at hab; rw [e] at hab; omega
  intro x y l hx hy
  obtain ⟨lx, hlx⟩ := exists_low_of_conj R x l hx
  obtain ⟨ly, hly⟩ := exists_low_of_conj R y l hy
  have ex := IsLow.unique hx (isLow_conjSwap hab R x lx hlx)
  have ey := IsLow.unique hy (isLow_conjSwap hab R y ly hly)
  have := moveLow_inj hne lx ly _ _ (ex.symm.trans ey)
  rcases this with h | ⟨h1, h2, h3⟩ | ⟨h1, h2, h3⟩
  · subst h
    exact (Equiv.swap a b).injective (hR _ _ lx hlx hly)
  · subst h1; subst h2
    exact absurd (hcol _ _ hlx hly) h3
  · subst h1; subst h2
    exact absurd (hcol _ _ hly hlx) h3

/-- `mirrorMatrixU_.zero_entry(i, i+1)` when column `i` of `R` is zero: the factorisation is untouched -/
theorem Fact3.zeroEntry {D R U : Matrix (Fin n) (Fin n) F} (h : Fact3 R D U) {a b : Fin n} (hab : a ≠ b)
    (hz : colv R a = 0) :
    Fact3 R D (fun x y => if x = a ∧ y = b then 0 else U x y) := by
  refine ⟨?_, ?_, ?_⟩
  · rw [h.factor]
    ext x y
    simp only [Matrix.mul_apply]
    apply Finset.sum_congr rfl
    intro m _
    by_cases hm : m = a ∧ y = b
    · obtain ⟨rfl, rfl⟩ := hm
      have : R x m = 0 := congrFun hz x
      simp [this]
    · simp [hm]
  · intro x y hxy
    by_cases hc : x = a ∧ y = b
    · simp [hc]
    · simp only [hc, if_false]; exact h.upper hxy
  · intro x
    have : ¬ (x = a ∧ x = b) := fun ⟨h1, h2⟩ => hab (h1.symm.trans h2)
    simp only [this, if_false]; exact h.diag x

/-- **positive/negative and negative/positive leaves that only transpose** (`U(i,i+1) = 0`, possibly after `zero_entry`),
    and the positive/positive leaves without collision: the result is a reduced factorisation of the exchanged
    filtration, and the lowest entries move by `moveLow` -/
theorem vine_transpose {D R U : Matrix (Fin n) (Fin n) F} (h : Fact3 R D U) (hR : Reduced R) {a b : Fin n}
    (hab : Adjacent a b) (hU : U a b = 0)
    (hcol : ∀ y1 y2, IsLow (colv R y1) a → IsLow (colv R y2) b → R a y2 = 0) :
    Fact3 (conjSwap a b R) (conjSwap a b D) (conjSwap a b U) ∧ Reduced (conjSwap a b R) ∧
      ∀ y l, IsLow (colv R (Equiv.swap a b y)) l →
        IsLow (colv (conjSwap a b R) y) (moveLow a b l (R a (Equiv.swap a b y) = 0)) :=
  ⟨h.conj hab hU, reduced_conjSwap_gen hab hR hcol, fun y l hl => isLow_conjSwap hab R y l hl⟩

#print axioms reduced_conjSwap_gen
#print axioms Fact3.zeroEntry
#print axioms vine_transpose

/-- the algebra shared by `_negative_vine_swap` (second sub-case) and `_negative_positive_vine_swap`:
    `_add_to(i,i+1); _swap_at_index(i); _add_to(i,i+1)` with the cancelling coefficients -/
theorem addSwapAdd {D R U : Matrix (Fin n) (Fin n) F} (h : Fact3 R D U) {a b : Fin n} (hab : Adjacent a b)
    (hU : U a b ≠ 0) :
    let c := U a b / U b b
    let R3 := conjSwap a b (R * transvection a b c) * transvection a b (-c⁻¹)
    let U3 := transvection a b (- -c⁻¹) * conjSwap a b (transvection a b (-c) * U)
    Fact3 R3 (conjSwap a b D) U3 ∧
    R3 = conjSwap a b (fun x y => if y = a then -c⁻¹ * R x b else if y = b then R x b + c * R x a else R x y) := by
  intro c R3 U3
  have hablt : a < b := by unfold Adjacent at hab; exact Fin.lt_def.mpr (by omega)
  have hanb : a ≠ b := ne_of_lt hablt
  have hc : c ≠ 0 := div_ne_zero hU (h.diag b)
  have hF1 : Fact3 (R * transvection a b c) D (transvection a b (-c) * U) := h.addTo hablt c
  have hU1ab : (transvection a b (-c) * U) a b = 0 := by
    rw [transvection_mul_apply_same]
    have := h.diag b
    simp only [c]; field_simp; ring
  refine ⟨(hF1.conj hab hU1ab).addTo hablt (-c⁻¹), ?_⟩
  let R'' : Matrix (Fin n) (Fin n) F :=
    fun x y => if y = a then -c⁻¹ * R x b else if y = b then R x b + c * R x a else R x y
  show R3 = conjSwap a b R''
  ext x y
  show (conjSwap a b (R * transvection a b c) * transvection a b (-c⁻¹)) x y = R'' (Equiv.swap a b x) (Equiv.swap a b y)
  rw [colop_apply]
  have hR1 : ∀ u v, (R * transvection a b c) u v = if v = b then R u b + c * R u a else R u v :=
    fun u v => colop_apply R a b c u v
  have hcj : ∀ u v, conjSwap a b (R * transvection a b c) u v
      = (R * transvection a b c) (Equiv.swap a b u) (Equiv.swap a b v) := fun _ _ => rfl
  by_cases hyb : y = b
  · subst hyb
    simp only [if_true, hcj, Equiv.swap_apply_right, Equiv.swap_apply_left, hR1, R'', hanb, if_false]
    field_simp
    ring
  · simp only [hyb, if_false, hcj, hR1, R'']
    by_cases hya : y = a
    · subst hya
      simp [Equiv.swap_apply_left, hanb.symm]
    · simp [Equiv.swap_apply_of_ne_of_ne hya hyb, hya, hyb]

/-- **negative/positive with `U(i,i+1) ≠ 0`** (`_negative_positive_vine_swap`: add, swap, add; returns `false`):
    position `a` stays negative with the same lowest entry, position `b` stays positive -/
theorem vine_NP {D R U : Matrix (Fin n) (Fin n) F} (h : Fact3 R D U) (hR : Reduced R) {a b : Fin n}
    (hab : Adjacent a b) (hU : U a b ≠ 0) (hb0 : colv R b = 0) {la : Fin n} (hla : IsLow (colv R a) la)
    (hla' : la ≠ a ∧ la ≠ b) (hnoa : ∀ y l, IsLow (colv R y) l → l ≠ a) :
    let c := U a b / U b b
    let R3 := conjSwap a b (R * transvection a b c) * transvection a b (-c⁻¹)
    let U3 := transvection a b (- -c⁻¹) * conjSwap a b (transvection a b (-c) * U)
    Fact3 R3 (conjSwap a b D) U3 ∧ Reduced R3 ∧ IsLow (colv R3 a) la ∧ colv R3 b = 0 := by
  intro c R3 U3
  obtain ⟨hF3, hR3⟩ := addSwapAdd h hab hU
  have hablt : a < b := by unfold Adjacent at hab; exact Fin.lt_def.mpr (by omega)
  have hanb : a ≠ b := ne_of_lt hablt
  have hc : c ≠ 0 := div_ne_zero hU (h.diag b)
  set R'' : Matrix (Fin n) (Fin n) F :=
    fun x y => if y = a then -c⁻¹ * R x b else if y = b then R x b + c * R x a else R x y with hR''
  have hRb : ∀ x, R x b = 0 := fun x => congrFun hb0 x
  have hcolA : colv R'' a = 0 := by funext x; simp [colv, hR'', hRb]
  have hcolB : colv R'' b = c • colv R a := by funext x; simp [colv, hR'', hanb.symm, hRb]
  have hcolO : ∀ y, y ≠ a → y ≠ b → colv R'' y = colv R y := by
    intro y h1 h2; funext x; simp [colv, hR'', h1, h2]
  have hlow : ∀ y l, IsLow (colv R'' y) l → IsLow (colv R (Equiv.swap a b y)) l := by
    intro y l hl
    by_cases hya : y = a
    · subst hya; rw [hcolA] at hl; exact absurd rfl hl.1
    · by_cases hyb : y = b
      · subst hyb
        rw [Equiv.swap_apply_right, IsLow.unique hl (hcolB ▸ isLow_smul hla hc)]; exact hla
      · rw [Equiv.swap_apply_of_ne_of_ne hya hyb, ← hcolO y hya hyb]; exact hl
  have hRed : Reduced R'' := fun x y l hx hy =>
    (Equiv.swap a b).injective (hR _ _ l (hlow x l hx) (hlow y l hy))
  have hnoa'' : ∀ y1 y2, IsLow (colv R'' y1) a → IsLow (colv R'' y2) b → R'' a y2 = 0 :=
    fun y1 _ h1 _ => absurd rfl (hnoa _ a (hlow y1 a h1))
  have e : R3 = conjSwap a b R'' := hR3
  refine ⟨hF3, ?_, ?_, ?_⟩
  · rw [e]; exact reduced_conjSwap_gen hab hRed hnoa''
  · rw [e]
    have := isLow_conjSwap hab R'' a la (by rw [Equiv.swap_apply_left, hcolB]; exact isLow_smul hla hc)
    simpa [moveLow, hla'.1, hla'.2] using this
  · rw [e, colv_conjSwap, Equiv.swap_apply_right, hcolA]; rfl

#print axioms addSwapAdd
#print axioms vine_NP
