import GudhiVerif.Trie
/-! Prototype, part 2: sortedness invariant of the simplex-tree encoding is preserved by `insert_simplex_raw`, and the
    complete characterisation of `find` after an insertion (all query words). Core Lean only. -/
namespace TrieProto
open Forest

/-- sibling labels strictly increasing and every child label larger than its parent (`lb` = exclusive lower bound) -/
def Sorted : Option Nat → Forest → Prop
  | _, nil => True
  | lb, cons l _ k r => (match lb with | none => True | some b => b < l) ∧ Sorted (some l) k ∧ Sorted (some l) r

theorem Sorted.weaken {t : Forest} {a b : Nat} (hab : a ≤ b) (h : Sorted (some b) t) : Sorted (some a) t := by
  cases t with
  | nil => trivial
  | cons l f k r => exact ⟨Nat.lt_of_le_of_lt hab h.1, h.2.1, h.2.2⟩

theorem Sorted.none_of_some {t : Forest} {b : Nat} (h : Sorted (some b) t) : Sorted none t := by
  cases t with
  | nil => trivial
  | cons l f k r => exact ⟨trivial, h.2.1, h.2.2⟩

/-- words: strictly increasing vertex lists above a bound -/
def IncAbove : Option Nat → List Nat → Prop
  | _, [] => True
  | lb, v :: vs => (match lb with | none => True | some b => b < v) ∧ IncAbove (some v) vs

theorem sorted_mkPath (lb : Option Nat) (w : List Nat) (f : Int) (hw : IncAbove lb w) : Sorted lb (mkPath w f) := by
  induction w generalizing lb with
  | nil => trivial
  | cons v vs ih => exact ⟨hw.1, ih (some v) hw.2, trivial⟩

theorem sorted_insert (lb : Option Nat) (t : Forest) (w : List Nat) (f : Int)
    (ht : Sorted lb t) (hw : IncAbove lb w) : Sorted lb (insert t w f) := by
  induction t, w, f using insert.induct generalizing lb with
  | case1 t f => simpa [insert] using ht
  | case2 v vs f => rw [insert]; exact sorted_mkPath lb _ f hw
  | case3 l g k r v f hlt =>
    simp only [insert, hlt, if_true]
    exact ⟨hw.1, trivial, ⟨hlt, ht.2.1, ht.2.2⟩⟩
  | case4 l g k r f hlt =>
    simp only [insert, Nat.lt_irrefl, if_false, if_true]
    exact ht
  | case5 l g k r v f hlt hne ih =>
    simp only [insert, hlt, hne, if_false]
    have hlv : l < v := by omega
    exact ⟨ht.1, ht.2.1, ih (some l) ht.2.2 ⟨hlv, trivial⟩⟩
  | case6 l g k r v v2 vs f hlt =>
    simp only [insert, hlt, if_true]
    exact ⟨hw.1, sorted_mkPath (some v) _ f hw.2, ⟨hlt, ht.2.1, ht.2.2⟩⟩
  | case7 g k r v v2 vs f hlt ih =>
    simp only [insert, Nat.lt_irrefl, if_false, if_true]
    exact ⟨ht.1, ih (some v) ht.2.1 hw.2, ht.2.2⟩
  | case8 l g k r v v2 vs f hlt hne ih =>
    simp only [insert, hlt, hne, if_false]
    have hlv : l < v := by omega
    exact ⟨ht.1, ht.2.1, ih (some l) ht.2.2 ⟨hlv, hw.2⟩⟩

/-- in a sorted forest nothing is found below the bound -/
theorem find_none_of_le {b : Nat} {t : Forest} (ht : Sorted (some b) t) {v : Nat} (hv : v ≤ b) (vs : List Nat) :
    find t (v :: vs) = none := by
  induction t generalizing b with
  | nil => cases vs <;> rfl
  | cons l g k r _ ihr =>
    have hl : b < l := ht.1
    have hne : v ≠ l := by omega
    cases vs with
    | nil => simp only [find, hne, if_false]; exact ihr (ht.2.2) (by omega)
    | cons v2 vs2 => simp only [find, hne, if_false]; exact ihr (ht.2.2) (by omega)

#print axioms sorted_insert
end TrieProto

namespace TrieProto
open Forest

/-- value written by an insertion at the last node: keep the smaller (`unify_lifetimes`) -/
def unify (f : Int) : Option Int → Int
  | none => f
  | some g => if f < g then f else g

theorem find_mkPath_all (w : List Nat) (f : Int) (q : List Nat) :
    find (mkPath w f) q = if q ≠ [] ∧ q <+: w then some f else none := by
  induction w generalizing q with
  | nil =>
    cases q with
    | nil => simp [find]
    | cons a q' => simp [mkPath, find]
  | cons v vs ih =>
    cases q with
    | nil => simp [find]
    | cons a q' =>
      cases q' with
      | nil =>
        simp only [mkPath, find]
        by_cases h : a = v
        · subst h; simp [find]
        · simp [h, find]
      | cons b q'' =>
        simp only [mkPath, find]
        by_cases h : a = v
        · subst h
          simp only [if_true]
          rw [ih (b :: q'')]
          simp [List.cons_prefix_cons]
        · simp [h, find, List.cons_prefix_cons]

#print axioms find_mkPath_all
end TrieProto

namespace TrieProto
open Forest

/-- labels of a sorted forest are above its bound: a query starting at or below the bound finds nothing -/
theorem find_none_of_lt_head {l : Nat} {g : Int} {k r : Forest} {lb : Option Nat}
    (ht : Sorted lb (cons l g k r)) {v : Nat} (hv : v < l) (vs : List Nat) :
    find (cons l g k r) (v :: vs) = none := by
  have hne : v ≠ l := by omega
  have hr := find_none_of_le ht.2.2 (Nat.le_of_lt hv) vs
  cases vs with
  | nil => simp only [find, hne, if_false]; exact hr
  | cons v2 vs2 => simp only [find, hne, if_false]; exact hr

/-- **complete characterisation of `find` after `insert_simplex_raw`** (all query words `q`):
    the inserted word gets the unified value, prefixes that did not exist are created with `f`, everything else is
    untouched. -/
theorem find_insert (lb : Option Nat) (t : Forest) (w : List Nat) (f : Int)
    (ht : Sorted lb t) (hw : IncAbove lb w) (q : List Nat) :
    find (insert t w f) q =
      if q = w ∧ w ≠ [] then some (unify f (find t w))
      else if q ≠ [] ∧ q <+: w ∧ find t q = none then some f
      else find t q := by
  induction t, w, f using insert.induct generalizing lb q with
  | case1 t f =>
    cases q with
    | nil => simp [insert, find]
    | cons a q' => simp [insert]
  | case2 v vs f =>
    rw [insert, find_mkPath_all]
    cases q with
    | nil => simp [find]
    | cons a q' =>
      by_cases h1 : a :: q' = v :: vs
      · simp [h1, find, unify]
      · simp [h1, find]
  | case3 l g k r v f hlt =>
    simp only [insert, hlt, if_true]
    have hvl : ¬ v = l := by omega
    have hr : ∀ vs, find r (v :: vs) = none := fun vs => find_none_of_le ht.2.2 (Nat.le_of_lt hlt) vs
    cases q with
    | nil => simp [find]
    | cons a q' =>
      by_cases hav : a = v
      · subst hav
        cases q' with
        | nil => simp [find, hvl, hr, unify]
        | cons b q'' => simp [find, hvl, hr]
      · have hnp : ¬ (a :: q' <+: [v]) := by
          intro hp
          have := List.cons_prefix_cons.mp hp
          exact hav this.1
        cases q' with
        | nil => simp [find, hav, hnp]
        | cons b q'' => simp [find, hav, hnp]
  | case4 g k r v f hlt =>
    simp only [insert, Nat.lt_irrefl, if_false, if_true]
    cases q with
    | nil => simp [find]
    | cons a q' =>
      by_cases hav : a = v
      · subst hav
        cases q' with
        | nil => simp [find, unify]
        | cons b q'' =>
          have hnp : ¬ (a :: b :: q'' <+: [a]) := by
            intro hp
            have := (List.cons_prefix_cons.mp hp).2
            simp at this
          simp [find, hnp]
      · have hnp : ¬ (a :: q' <+: [v]) := by
          intro hp; exact hav (List.cons_prefix_cons.mp hp).1
        cases q' with
        | nil => simp [find, hav, hnp]
        | cons b q'' => simp [find, hav, hnp]
  | case5 l g k r v f hlt hne ih =>
    simp only [insert, hlt, hne, if_false]
    have hlv : l < v := by omega
    have ih' := ih (some l) ht.2.2 ⟨hlv, trivial⟩
    cases q with
    | nil => simp [find]
    | cons a q' =>
      by_cases hal : a = l
      · subst hal
        have h1 : ¬ (a :: q' = [v]) := by intro h; cases h; exact hne rfl
        have h2 : ¬ (a :: q' <+: [v]) := by intro hp; exact hne (List.cons_prefix_cons.mp hp).1.symm
        cases q' with
        | nil => simp [find, h1, h2, hne]
        | cons b q'' => simp [find, h1, h2]
      · cases q' with
        | nil =>
          simp only [find, hal, if_false]
          rw [ih' [a]]
          simp [find, hne]
        | cons b q'' =>
          simp only [find, hal, if_false]
          rw [ih' (a :: b :: q'')]
          simp [find, hne]
  | case6 l g k r v v2 vs f hlt =>
    simp only [insert, hlt, if_true]
    have hvl : ¬ v = l := by omega
    have hr : ∀ vs, find r (v :: vs) = none := fun vs => find_none_of_le ht.2.2 (Nat.le_of_lt hlt) vs
    cases q with
    | nil => simp [find]
    | cons a q' =>
      by_cases hav : a = v
      · subst hav
        cases q' with
        | nil =>
          have : ([a] : List Nat) <+: a :: v2 :: vs := ⟨v2 :: vs, rfl⟩
          simp [find, hvl, hr, this]
        | cons b q'' =>
          simp only [find, if_true]
          rw [find_mkPath_all]
          by_cases heq : b :: q'' = v2 :: vs
          · simp [heq, unify, hvl, hr]
          · simp [heq, List.cons_prefix_cons, hvl, hr]
      · have hnp : ¬ (a :: q' <+: v :: v2 :: vs) := by
          intro hp; exact hav (List.cons_prefix_cons.mp hp).1
        have hneq : ¬ (a :: q' = v :: v2 :: vs) := by intro h; cases h; exact hav rfl
        cases q' with
        | nil => simp [find, hav, hnp]
        | cons b q'' => simp [find, hav, hnp, hneq]
  | case7 g k r v v2 vs f hlt ih =>
    simp only [insert, Nat.lt_irrefl, if_false, if_true]
    have ih' := ih (some v) ht.2.1 hw.2
    cases q with
    | nil => simp [find]
    | cons a q' =>
      by_cases hav : a = v
      · subst hav
        cases q' with
        | nil =>
          have : ([a] : List Nat) <+: a :: v2 :: vs := ⟨v2 :: vs, rfl⟩
          simp [find]
        | cons b q'' =>
          simp only [find, if_true]
          rw [ih' (b :: q'')]
          simp [List.cons_prefix_cons]
      · have hnp : ¬ (a :: q' <+: v :: v2 :: vs) := by
          intro hp; exact hav (List.cons_prefix_cons.mp hp).1
        have hneq : ¬ (a :: q' = v :: v2 :: vs) := by intro h; cases h; exact hav rfl
        cases q' with
        | nil => simp [find, hav, hnp]
        | cons b q'' => simp [find, hav, hnp, hneq]
  | case8 l g k r v v2 vs f hlt hne ih =>
    simp only [insert, hlt, hne, if_false]
    have hlv : l < v := by omega
    have ih' := ih (some l) ht.2.2 ⟨hlv, hw.2⟩
    cases q with
    | nil => simp [find]
    | cons a q' =>
      by_cases hal : a = l
      · subst hal
        have h1 : ¬ (a :: q' = v :: v2 :: vs) := by intro h; cases h; exact hne rfl
        have h2 : ¬ (a :: q' <+: v :: v2 :: vs) := by intro hp; exact hne (List.cons_prefix_cons.mp hp).1.symm
        cases q' with
        | nil => simp [find, h2]
        | cons b q'' => simp [find, h1, h2]
      · cases q' with
        | nil =>
          simp only [find, hal, if_false]
          rw [ih' [a]]
          simp [find, hne]
        | cons b q'' =>
          simp only [find, hal, if_false]
          rw [ih' (a :: b :: q'')]
          simp [find, hne]

#print axioms find_insert
end TrieProto
