import GudhiVerif.Order
/-! Fidelity probe (C02): executable model of the compressed-annotation-matrix algorithm of `Persistent_cohomology.h`
    for one prime field, run on the minimal triangulation of RP² with the filtration of `design_probes/cpp/p9.cpp`;
    the output must match what the real code printed (Z2: essential classes in dim 0,1,2; Z3: only dim 0 and the
    finite bar [6,10) in dim 1). Core Lean only. -/
namespace CamProto
open OrderProto

structure Cell where
  verts : List Nat          -- increasing
  filt : Int
deriving Repr, BEq

abbrev AnnCol := List (Nat × Nat)     -- (key, coefficient), keys increasing, coefficients in [1,p)

structure St where
  p : Nat
  dimMax : Int
  minLen : Int
  parent : List Nat                   -- union-find (indexed by key)
  rank : List Nat
  keyOf : List (Option Nat)           -- simplex position -> key (none = null_key)
  repr : List (Nat × Nat)             -- union-find root -> column id
  cam : List (Nat × Nat × AnnCol)     -- (column id, class key, annotation)
  zero : List (Nat × Nat)             -- zero_cocycles_: root -> creator
  alive : List Nat                    -- transverse_idx_ keys
  pairs : List (Nat × Option Nat)     -- (birth key, death position)
  nextCol : Nat

def getD' (l : List Nat) (i : Nat) : Nat := l.getD i 0
def setL (l : List Nat) (i v : Nat) : List Nat := l.set i v

/-- `find_set` (fuel = number of keys: a parent chain never revisits a key) -/
def findSetF (par : List Nat) : Nat → Nat → Nat
  | 0, x => x
  | fuel + 1, x =>
    let px := getD' par x
    if px = x then x else findSetF par fuel px

def findSet (par : List Nat) (x : Nat) : Nat := findSetF par (par.length + 1) x

/-- boost `disjoint_sets::link` (union by rank) on two roots -/
def link (s : St) (x y : Nat) : St :=
  let rx := getD' s.rank x
  let ry := getD' s.rank y
  if rx > ry then { s with parent := setL s.parent y x }
  else { s with parent := setL s.parent x y, rank := if rx = ry then setL s.rank y (ry + 1) else s.rank }

def lookup (m : List (Nat × Nat)) (k : Nat) : Option Nat := (m.find? (·.1 == k)).map (·.2)
def erase (m : List (Nat × Nat)) (k : Nat) : List (Nat × Nat) := m.filter (·.1 != k)
def insertKV (m : List (Nat × Nat)) (k v : Nat) : List (Nat × Nat) := (k, v) :: erase m k

/-- a + w·b mod p on sparse annotation vectors -/
def axpy (p w : Nat) : AnnCol → AnnCol → AnnCol
  | [], b => (b.map fun (k, y) => (k, (w * y) % p)).filter (·.2 != 0)
  | a, [] => a
  | (ka, x) :: a, (kb, y) :: b =>
    if ka < kb then (ka, x) :: axpy p w a ((kb, y) :: b)
    else if kb < ka then
      let z := (w * y) % p
      if z = 0 then axpy p w ((ka, x) :: a) b else (kb, z) :: axpy p w ((ka, x) :: a) b
    else
      let z := (x + w * y) % p
      if z = 0 then axpy p w a b else (ka, z) :: axpy p w a b
termination_by a b => a.length + b.length
decreasing_by all_goals simp_wf <;> omega

def modInv (p x : Nat) : Nat := (List.range p).find? (fun y => (x * y) % p == 1) |>.getD 0

def coeffAt (c : AnnCol) (k : Nat) : Nat := (c.find? (·.1 == k)).map (·.2) |>.getD 0

def createCocycle (s : St) (key : Nat) : St :=
  { s with cam := s.cam ++ [(s.nextCol, key, [(key, 1)])], repr := insertKV s.repr key s.nextCol,
           alive := s.alive ++ [key], nextCol := s.nextCol + 1 }

/-- `destroy_cocycle`: zero out row `deathKey` with the annotation `aDs` of the boundary of the killer -/
def destroyCocycle (s : St) (pos : Nat) (filts : List Int) (aDs : AnnCol) (deathKey invX : Nat) : St :=
  let s := if filts.getD pos 0 - filts.getD deathKey 0 > s.minLen
           then { s with pairs := s.pairs ++ [(deathKey, some pos)] } else s
  -- process every column with a non-zero coefficient on the row
  let step (s : St) (col : Nat × Nat × AnnCol) : St :=
    let (cid, cls, ann) := col
    let c := coeffAt ann deathKey
    if c = 0 then { s with cam := s.cam ++ [col] }
    else
      let w := (s.p - (invX * c) % s.p) % s.p
      let ann' := axpy s.p w ann aDs
      if ann' = [] then { s with repr := erase s.repr cls }
      else match s.cam.find? (fun c' => c'.2.2 == ann') with
        | none => { s with cam := s.cam ++ [(cid, cls, ann')] }
        | some (cid', cls', _) =>
          -- identical column already present: merge the two classes
          let s1 := link s cls cls'
          let root := findSet s1.parent cls
          { s1 with repr := insertKV (erase (erase s1.repr cls) cls') root cid',
                    cam := s1.cam.map fun c' => if c'.1 == cid' then (cid', root, c'.2.2) else c' }
  let cols := s.cam
  let s := cols.foldl step { s with cam := [] }
  { s with alive := s.alive.filter (· != deathKey), keyOf := s.keyOf.set pos none }

def processCell (cells : List Cell) (filts : List Int) (s : St) (pos : Nat) : St :=
  let c := cells.getD pos ⟨[], 0⟩
  let dim : Int := c.verts.length - 1
  let posOf (vs : List Nat) : Nat := (cells.findIdx? (·.verts == vs)).getD 0
  let keyAt (q : Nat) : Option Nat := s.keyOf.getD q none
  if dim = 0 then s
  else if dim = 1 then
    -- update_cohomology_groups_edge
    match c.verts with
    | [a, b] =>
      let ku := findSet s.parent (posOf [b])   -- endpoints(): (find_vertex(sh->first), find_vertex(parent))
      let kv := findSet s.parent (posOf [a])
      if ku != kv then
        let s1 := link s ku kv
        let cu := (lookup s.zero ku).getD ku
        let cv := (lookup s.zero kv).getD kv
        if filts.getD cu 0 < filts.getD cv 0 then
          let s2 := if filts.getD pos 0 - filts.getD cv 0 > s.minLen then { s1 with pairs := s1.pairs ++ [(cv, some pos)] } else s1
          let z := if kv != cv then erase s2.zero kv else s2.zero
          let z := if kv = findSet s1.parent kv then insertKV (if ku != cu then erase z ku else z) kv cu else z
          { s2 with zero := z, keyOf := s2.keyOf.set pos none }
        else
          let s2 := if filts.getD pos 0 - filts.getD cu 0 > s.minLen then { s1 with pairs := s1.pairs ++ [(cu, some pos)] } else s1
          let z := if ku != cu then erase s2.zero ku else s2.zero
          let z := if ku = findSet s1.parent ku then insertKV (if kv != cv then erase z kv else z) ku cv else z
          { s2 with zero := z, keyOf := s2.keyOf.set pos none }
      else if s.dimMax > 1 then createCocycle s pos else s
    | _ => s
  else
    -- annotation of the boundary: faces in the iterator order (omit last vertex first), alternating sign
    let d := c.verts.length
    let faces := (List.range d).reverse.map fun i => c.verts.eraseIdx i
    let sign0 : Int := 1 - 2 * (dim % 2)
    let (aDs, _) := faces.foldl (fun (acc : AnnCol × Int) f =>
        let (a, sg) := acc
        let a' := match keyAt (posOf f) with
          | none => a
          | some k =>
            match lookup s.repr (findSet s.parent k) with
            | none => a
            | some cid =>
              let ann := ((s.cam.find? (·.1 == cid)).map (·.2.2)).getD []
              axpy s.p (if sg = 1 then 1 else s.p - 1) a ann
        (a', -sg)) ([], sign0)
    if aDs = [] then (if dim < s.dimMax then createCocycle s pos else s)
    else
      match aDs.getLast? with
      | none => s
      | some (deathKey, x) => destroyCocycle s pos filts aDs deathKey (modInv s.p x)

def run (p : Nat) (cells : List Cell) (dimMaxFlag : Bool) (minLen : Int) : List (Nat × Int × Option Int) :=
  let n := cells.length
  let filts := cells.map (·.filt)
  let dimC : Int := (cells.map fun c => (c.verts.length : Int) - 1).foldl max (-1)
  let s0 : St := { p := p, dimMax := if dimMaxFlag then dimC + 1 else dimC, minLen := minLen,
                   parent := List.range n, rank := List.replicate n 0, keyOf := (List.range n).map some,
                   repr := [], cam := [], zero := [], alive := [], pairs := [], nextCol := 0 }
  if s0.dimMax ≤ 0 then [] else     -- `if (dim_max_ <= 0) return;`
  let s := (List.range n).foldl (processCell cells filts) s0
  let vertsKeys := (List.range n).filter fun i => (cells.getD i ⟨[], 0⟩).verts.length = 1
  let inf0 := vertsKeys.filter fun k => getD' s.parent k = k && (lookup s.zero k).isNone
  let all := s.pairs ++ inf0.map (·, none) ++ s.zero.map (fun kv => (kv.2, none)) ++ s.alive.map (·, none)
  all.map fun (b, d) =>
    let bc := cells.getD b ⟨[], 0⟩
    (bc.verts.length - 1, bc.filt, d.map fun q => (cells.getD q ⟨[], 0⟩).filt)

/-- minimal RP² with triangle i inserted (with its faces) at value i+1, as in p9.cpp -/
def rp2Tris : List (List Nat) :=
  [[0,1,2],[0,2,3],[0,3,4],[0,4,5],[0,1,5],[1,2,4],[2,3,5],[1,3,4],[2,4,5],[1,3,5]]

def subsets : List Nat → List (List Nat)
  | [] => [[]]
  | x :: xs => (subsets xs).map (x :: ·) ++ subsets xs

def rp2Cells : List Cell :=
  let withVal := (List.range rp2Tris.length).flatMap fun i =>
    ((subsets (rp2Tris.getD i [])).filter (· != [])).map fun f => (f, (i : Int) + 1)
  -- keep the minimum value per simplex
  let uniq := withVal.foldl (fun (acc : List (List Nat × Int)) (fv : List Nat × Int) =>
    match acc.find? (·.1 == fv.1) with
    | some (_, g) => if fv.2 < g then (acc.filter (·.1 != fv.1)) ++ [fv] else acc
    | none => acc ++ [fv]) []
  let arr := uniq.toArray.qsort fun a b => before (a.2, a.1.reverse) (b.2, b.1.reverse)
  arr.toList.map fun (f, v) => ⟨f, v⟩

def summary (l : List (Nat × Int × Option Int)) : List (Nat × Int × Option Int) :=
  l.filter fun (_, b, d) => d != some b      -- drop zero-length bars for readability

#eval summary (run 2 rp2Cells true (-1))
#eval summary (run 3 rp2Cells true (-1))
end CamProto
