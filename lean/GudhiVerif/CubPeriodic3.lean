import GudhiVerif.CubPeriodic2
/-! # C13 — boundary and coboundary are converse relations, periodic directions included -/
namespace CubBridge
open CubModel

theorem mem_pairOf (b : Bool) (cnt lo hi x : Nat) : x ∈ pairOf b cnt lo hi ↔ x = lo ∨ x = hi := by
  unfold pairOf
  cases b <;> by_cases h : cnt % 2 = 1 <;> simp [h] <;> tauto

theorem mem_fold_gen (sh : Shape) (b : Bool) (pos f : Nat) : ∀ (ds : List Nat) (acc : List Nat) (cnt : Nat),
    f ∈ (ds.foldl (stepGen sh b pos) (acc, cnt)).1 ↔
      f ∈ acc ∨ ∃ i ∈ ds, sh.digit pos i % 2 = 1 ∧ (f = pos - sh.mult i ∨ f = hiOf sh pos i) := by
  intro ds
  induction ds with
  | nil => intro acc cnt; simp
  | cons i rest ih =>
    intro acc cnt
    rw [List.foldl_cons, stepGen_eq]
    by_cases hx : sh.digit pos i % 2 = 1
    · rw [if_pos hx, ih]
      constructor
      · rintro (h | ⟨j, hj, hodd, hf⟩)
        · rw [List.mem_append, mem_pairOf] at h
          rcases h with h | h
          · exact Or.inl h
          · exact Or.inr ⟨i, by simp, hx, h⟩
        · exact Or.inr ⟨j, by simp [hj], hodd, hf⟩
      · rintro (h | ⟨j, hj, hodd, hf⟩)
        · exact Or.inl (List.mem_append_left _ h)
        · rcases List.mem_cons.mp hj with rfl | hj
          · exact Or.inl (List.mem_append_right _ ((mem_pairOf _ _ _ _ _).mpr hf))
          · exact Or.inr ⟨j, hj, hodd, hf⟩
    · rw [if_neg hx, ih]
      constructor
      · rintro (h | ⟨j, hj, hodd, hf⟩)
        · exact Or.inl h
        · exact Or.inr ⟨j, by simp [hj], hodd, hf⟩
      · rintro (h | ⟨j, hj, hodd, hf⟩)
        · exact Or.inl h
        · rcases List.mem_cons.mp hj with rfl | hj
          · exact absurd hodd hx
          · exact Or.inr ⟨j, hj, hodd, hf⟩

/-- the faces of a position, any shape, either class -/
theorem mem_boundary_gen (sh : Shape) (b : Bool) (pos f : Nat) :
    f ∈ sh.boundary b pos ↔
      ∃ i, i < sh.dims ∧ sh.digit pos i % 2 = 1 ∧ (f = pos - sh.mult i ∨ f = hiOf sh pos i) := by
  rw [boundary_def, mem_fold_gen]
  simp [mem_dirsDown]

/-- the cofaces listed for one direction -/
def coCond (sh : Shape) (pos i g : Nat) : Prop :=
  if sh.isPer i = true then
    (sh.digit pos i ≠ 0 ∧ (g = pos - sh.mult i ∨ g = pos + sh.mult i)) ∨
    (sh.digit pos i = 0 ∧ (g = pos + sh.mult i ∨ g = pos + (2 * sh.size i - 1) * sh.mult i))
  else
    (sh.digit pos i ≠ 0 ∧ g = pos - sh.mult i) ∨ (sh.digit pos i ≠ 2 * sh.size i ∧ g = pos + sh.mult i)

def stepCoGen (sh : Shape) (pos : Nat) : List Nat → Nat → List Nat :=
  fun (acc : List Nat) (i : Nat) =>
    let d := sh.digit pos i
    if d % 2 = 0 then
      let m := sh.mult i
      if sh.isPer i then
        (if d != 0 then acc ++ [pos - m, pos + m] else acc ++ [pos + m, pos + (2 * sh.size i - 1) * m])
      else
        acc ++ (if d != 0 then [pos - m] else []) ++ (if d != 2 * sh.size i then [pos + m] else [])
    else acc

theorem coboundary_def (sh : Shape) (pos : Nat) : sh.coboundary pos = sh.dirsDown.foldl (stepCoGen sh pos) [] := rfl

theorem mem_stepCoGen (sh : Shape) (pos g : Nat) (acc : List Nat) (i : Nat) :
    g ∈ stepCoGen sh pos acc i ↔ g ∈ acc ∨ (sh.digit pos i % 2 = 0 ∧ coCond sh pos i g) := by
  unfold stepCoGen coCond
  by_cases hev : sh.digit pos i % 2 = 0
  · by_cases hp : sh.isPer i = true
    · by_cases h0 : sh.digit pos i = 0
      · simp [hp, h0]
      · simp [hev, hp, h0]
    · have hp' : sh.isPer i = false := by simpa using hp
      by_cases h0 : sh.digit pos i = 0 <;> by_cases h2 : sh.digit pos i = 2 * sh.size i <;> simp [hev, hp', h0, h2]
  · simp [hev]

theorem mem_fold_coGen (sh : Shape) (pos g : Nat) : ∀ (ds : List Nat) (acc : List Nat),
    g ∈ ds.foldl (stepCoGen sh pos) acc ↔ g ∈ acc ∨ ∃ i ∈ ds, sh.digit pos i % 2 = 0 ∧ coCond sh pos i g := by
  intro ds
  induction ds with
  | nil => intro acc; simp
  | cons i rest ih =>
    intro acc
    rw [List.foldl_cons, ih, mem_stepCoGen]
    constructor
    · rintro ((h | h) | ⟨j, hj, hh⟩)
      · exact Or.inl h
      · exact Or.inr ⟨i, by simp, h⟩
      · exact Or.inr ⟨j, by simp [hj], hh⟩
    · rintro (h | ⟨j, hj, hh⟩)
      · exact Or.inl (Or.inl h)
      · rcases List.mem_cons.mp hj with rfl | hj
        · exact Or.inl (Or.inr hh)
        · exact Or.inr ⟨j, hj, hh⟩

/-- the cofaces of a position, any shape -/
theorem mem_coboundary_gen (sh : Shape) (pos g : Nat) :
    g ∈ sh.coboundary pos ↔ ∃ i, i < sh.dims ∧ sh.digit pos i % 2 = 0 ∧ coCond sh pos i g := by
  rw [coboundary_def, mem_fold_coGen]
  simp [mem_dirsDown]

theorem move_digit (sh : Shape) (hr : ∀ i, i < sh.dims → 0 < sh.radix i) (x : Nat) (hx : x < sh.total)
    (i : Nat) (hi : i < sh.dims) (v : Nat) (hv : v < sh.radix i) :
    ∃ y, y + sh.digit x i * sh.mult i = x + v * sh.mult i ∧ y < sh.total ∧ sh.digit y i = v := by
  obtain ⟨y, h1, h2, h3⟩ := digit_change sh hr x hx i hi v hv
  exact ⟨y, h1, h2, by simpa [upd] using h3 i hi⟩

/-- **boundary and coboundary are converse relations** for every shape with positive radices, every subset of periodic
    directions and both classes -/
theorem boundary_coboundary_all (sh : Shape) (hr : ∀ i, i < sh.dims → 0 < sh.radix i) (b : Bool) (pos f : Nat)
    (hpos : pos < sh.total) (hf : f < sh.total) : f ∈ sh.boundary b pos ↔ pos ∈ sh.coboundary f := by
  rw [mem_boundary_gen, mem_coboundary_gen]
  constructor
  · rintro ⟨i, hi, hodd, hcase⟩
    have hd : sh.digit pos i < sh.radix i := Nat.mod_lt _ (hr i hi)
    obtain ⟨d0, hd0⟩ : ∃ d0, sh.digit pos i = d0 + 1 := ⟨sh.digit pos i - 1, by omega⟩
    rcases hcase with rfl | hhi
    · -- lower face
      obtain ⟨y, hy, _, hdy⟩ := move_digit sh hr pos hpos i hi (sh.digit pos i - 1) (by omega)
      have hy1 : y + sh.mult i = pos := by
        rw [hd0] at hy; simp only [Nat.add_sub_cancel, Nat.add_mul, Nat.one_mul] at hy; omega
      have hy' : y = pos - sh.mult i := by omega
      rw [← hy']
      refine ⟨i, hi, by rw [hdy]; omega, ?_⟩
      unfold coCond
      rcases radix_cases sh i with ⟨hp, hrad⟩ | ⟨hp, hrad⟩
      · rw [if_pos hp, hdy]
        by_cases h0 : sh.digit pos i - 1 = 0
        · exact Or.inr ⟨h0, Or.inl hy1.symm⟩
        · exact Or.inl ⟨h0, Or.inr hy1.symm⟩
      · rw [if_neg (by simp [hp]), hdy]
        exact Or.inr ⟨by omega, hy1.symm⟩
    · -- upper face
      unfold hiOf at hhi
      rcases radix_cases sh i with ⟨hp, hrad⟩ | ⟨hp, hrad⟩
      · by_cases hl : sh.digit pos i = 2 * sh.size i - 1
        · have hb : (sh.isPer i && sh.digit pos i == 2 * sh.size i - 1) = true := by simp [hp, hl]
          rw [if_pos hb] at hhi
          obtain ⟨y, hy, _, hdy⟩ := move_digit sh hr pos hpos i hi 0 (hr i hi)
          have hy1 : y + (2 * sh.size i - 1) * sh.mult i = pos := by rw [hl] at hy; simpa using hy
          have hy' : y = f := by rw [hhi]; omega
          subst hy'
          refine ⟨i, hi, by rw [hdy], ?_⟩
          unfold coCond
          rw [if_pos hp, hdy]
          exact Or.inr ⟨rfl, Or.inr hy1.symm⟩
        · have hb : (sh.isPer i && sh.digit pos i == 2 * sh.size i - 1) = false := by simp [hl]
          rw [if_neg (by simp [hb])] at hhi
          obtain ⟨y, hy, _, hdy⟩ := move_digit sh hr pos hpos i hi (sh.digit pos i + 1) (by omega)
          have hy1 : y = pos + sh.mult i := by simp only [Nat.add_mul, Nat.one_mul] at hy; omega
          have hy' : y = f := by rw [hhi]; exact hy1
          subst hy'
          refine ⟨i, hi, by rw [hdy]; omega, ?_⟩
          unfold coCond
          rw [if_pos hp, hdy]
          exact Or.inl ⟨by omega, Or.inl (by omega)⟩
      · have hb : (sh.isPer i && sh.digit pos i == 2 * sh.size i - 1) = false := by simp [hp]
        rw [if_neg (by simp [hb])] at hhi
        obtain ⟨y, hy, _, hdy⟩ := move_digit sh hr pos hpos i hi (sh.digit pos i + 1) (by omega)
        have hy1 : y = pos + sh.mult i := by simp only [Nat.add_mul, Nat.one_mul] at hy; omega
        have hy' : y = f := by rw [hhi]; exact hy1
        subst hy'
        refine ⟨i, hi, by rw [hdy]; omega, ?_⟩
        unfold coCond
        rw [if_neg (by simp [hp]), hdy]
        exact Or.inl ⟨by omega, by omega⟩
  · rintro ⟨i, hi, hev, hco⟩
    have he : sh.digit f i < sh.radix i := Nat.mod_lt _ (hr i hi)
    unfold coCond at hco
    -- a helper: moving the digit of f down resp. up
    have down : sh.digit f i ≠ 0 → pos = f - sh.mult i →
        ∃ i, i < sh.dims ∧ sh.digit pos i % 2 = 1 ∧ (f = pos - sh.mult i ∨ f = hiOf sh pos i) := by
      intro h0 hp0
      obtain ⟨e0, he0⟩ : ∃ e0, sh.digit f i = e0 + 1 := ⟨sh.digit f i - 1, by omega⟩
      obtain ⟨y, hy, _, hdy⟩ := move_digit sh hr f hf i hi (sh.digit f i - 1) (by omega)
      have hy1 : y + sh.mult i = f := by
        rw [he0] at hy; simp only [Nat.add_sub_cancel, Nat.add_mul, Nat.one_mul] at hy; omega
      have hy' : y = pos := by omega
      subst hy'
      refine ⟨i, hi, by rw [hdy]; omega, Or.inr ?_⟩
      unfold hiOf
      have hb : (sh.isPer i && sh.digit y i == 2 * sh.size i - 1) = false := by
        rw [hdy]
        rcases radix_cases sh i with ⟨hp, hrad⟩ | ⟨hp, hrad⟩
        · have : ¬ sh.digit f i - 1 = 2 * sh.size i - 1 := by omega
          simp [this]
        · simp [hp]
      rw [if_neg (by simp [hb])]; omega
    have up : sh.digit f i + 1 < sh.radix i → pos = f + sh.mult i →
        ∃ i, i < sh.dims ∧ sh.digit pos i % 2 = 1 ∧ (f = pos - sh.mult i ∨ f = hiOf sh pos i) := by
      intro hlt hp0
      obtain ⟨y, hy, _, hdy⟩ := move_digit sh hr f hf i hi (sh.digit f i + 1) hlt
      have hy1 : y = f + sh.mult i := by simp only [Nat.add_mul, Nat.one_mul] at hy; omega
      have hy' : y = pos := by omega
      subst hy'
      exact ⟨i, hi, by rw [hdy]; omega, Or.inl (by omega)⟩
    rcases radix_cases sh i with ⟨hp, hrad⟩ | ⟨hp, hrad⟩
    · rw [if_pos hp] at hco
      rcases hco with ⟨h0, hp0 | hp0⟩ | ⟨h0, hp0 | hp0⟩
      · exact down h0 hp0
      · exact up (by omega) hp0
      · exact up (by omega) hp0
      · -- wrap-around: pos = f + (2s − 1)·m, the digit of f is 0
        clear down up
        obtain ⟨y, hy, _, hdy⟩ := move_digit sh hr f hf i hi (2 * sh.size i - 1) (by omega)
        have hy' : y = pos := by rw [h0] at hy; simp only [Nat.zero_mul, Nat.add_zero] at hy; omega
        subst hy'
        refine ⟨i, hi, by rw [hdy]; omega, Or.inr ?_⟩
        unfold hiOf
        have hb : (sh.isPer i && sh.digit y i == 2 * sh.size i - 1) = true := by simp [hp, hdy]
        rw [if_pos hb]; omega
    · rw [if_neg (by simp [hp])] at hco
      rcases hco with ⟨h0, hp0⟩ | ⟨h2, hp0⟩
      · exact down h0 hp0
      · exact up (by omega) hp0

end CubBridge
