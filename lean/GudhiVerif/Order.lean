/-! Prototype (C03): `reverse_lexicographic_order` on the decreasing vertex sequences delivered by
    `Simplex_vertex_iterator`, and `is_before_in_totally_ordered_filtration`: a strict total order in which a proper face
    with a value not larger comes first. Core Lean only. -/
namespace OrderProto
open List

/-- the C++ loop: skip equal heads, first difference decides, a proper prefix is smaller -/
def rlex : List Nat → List Nat → Bool
  | [], [] => false
  | [], _ :: _ => true
  | _ :: _, [] => false
  | a :: s, b :: t => if a = b then rlex s t else decide (a < b)

theorem rlex_irrefl (s : List Nat) : rlex s s = false := by
  induction s with
  | nil => rfl
  | cons a s ih => simp [rlex, ih]

theorem rlex_trans : ∀ (s t u : List Nat), rlex s t = true → rlex t u = true → rlex s u = true := by
  intro s
  induction s with
  | nil =>
    intro t u h1 h2
    cases t with
    | nil => simp [rlex] at h1
    | cons b t =>
      cases u with
      | nil => simp [rlex] at h2
      | cons c u => rfl
  | cons a s ih =>
    intro t u h1 h2
    cases t with
    | nil => simp [rlex] at h1
    | cons b t =>
      cases u with
      | nil => simp [rlex] at h2
      | cons c u =>
        simp only [rlex] at h1 h2 ⊢
        by_cases hab : a = b
        · subst hab
          simp only [if_true] at h1
          by_cases hac : a = c
          · subst hac
            simp only [if_true] at h2 ⊢
            exact ih t u h1 h2
          · simp only [hac, if_false] at h2 ⊢; exact h2
        · simp only [hab, if_false] at h1
          by_cases hbc : b = c
          · subst hbc; simp only [hab, if_false]; exact h1
          · simp only [hbc, if_false] at h2
            have h1' : a < b := by simpa using h1
            have h2' : b < c := by simpa using h2
            have hac : a ≠ c := by omega
            simp only [hac, if_false]
            simp; omega

theorem rlex_total : ∀ (s t : List Nat), s ≠ t → rlex s t = true ∨ rlex t s = true := by
  intro s
  induction s with
  | nil =>
    intro t h
    cases t with
    | nil => exact absurd rfl h
    | cons b t => left; rfl
  | cons a s ih =>
    intro t h
    cases t with
    | nil => right; rfl
    | cons b t =>
      simp only [rlex]
      by_cases hab : a = b
      · subst hab
        simp only [if_true]
        exact ih t (fun e => h (by rw [e]))
      · have hba : ¬ b = a := fun e => hab e.symm
        simp only [hab, hba, if_false]
        rcases Nat.lt_or_gt_of_ne hab with h1 | h1
        · left; simpa using h1
        · right; simpa using h1

/-- strictly decreasing with all entries below a bound -/
def DecBelow : Option Nat → List Nat → Prop
  | _, [] => True
  | ub, a :: s => (match ub with | none => True | some u => a < u) ∧ DecBelow (some a) s

theorem DecBelow.mem_lt {u : Nat} {s : List Nat} (h : DecBelow (some u) s) : ∀ z ∈ s, z < u := by
  induction s generalizing u with
  | nil => intro z hz; cases hz
  | cons a s ih =>
    intro z hz
    cases hz with
    | head => exact h.1
    | tail _ hz' => exact Nat.lt_trans (ih h.2 z hz') h.1

/-- **faces first**: a proper face (proper sub-sequence of the decreasing vertex sequence) is smaller -/
theorem rlex_of_proper_face : ∀ (τ σ : List Nat) (ub : Option Nat), DecBelow ub σ → τ <+ σ → τ ≠ σ → rlex τ σ = true := by
  intro τ σ
  induction σ generalizing τ with
  | nil => intro ub _ hs hne; exact absurd (List.sublist_nil.mp hs) hne
  | cons x σ ih =>
    intro ub hd hs hne
    cases τ with
    | nil => rfl
    | cons y τ' =>
      simp only [rlex]
      by_cases hyx : y = x
      · subst hyx
        simp only [if_true]
        have hs' : τ' <+ σ := by
          rcases List.sublist_cons_iff.mp hs with h1 | ⟨r, hr, h2⟩
          · -- y would occur in σ, impossible: all entries of σ are < y
            have : y ∈ σ := h1.subset List.mem_cons_self
            exact absurd (hd.2.mem_lt y this) (Nat.lt_irrefl _)
          · cases hr; exact h2
        exact ih τ' (some y) hd.2 hs' (fun e => hne (by rw [e]))
      · simp only [hyx, if_false]
        have hs' : (y :: τ') <+ σ := by
          rcases List.sublist_cons_iff.mp hs with h1 | ⟨r, hr, _⟩
          · exact h1
          · cases hr; exact absurd rfl hyx
        have : y ∈ σ := hs'.subset List.mem_cons_self
        have := hd.2.mem_lt y this
        simpa using this

/-- `is_before_in_totally_ordered_filtration` on (value, decreasing vertex sequence) -/
def before (a b : Int × List Nat) : Bool :=
  if a.1 = b.1 then rlex a.2 b.2 else decide (a.1 < b.1)

theorem before_irrefl (a : Int × List Nat) : before a a = false := by simp [before, rlex_irrefl]

theorem before_trans (a b c : Int × List Nat) (h1 : before a b = true) (h2 : before b c = true) :
    before a c = true := by
  obtain ⟨fa, sa⟩ := a
  obtain ⟨fb, sb⟩ := b
  obtain ⟨fc, sc⟩ := c
  simp only [before] at h1 h2 ⊢
  by_cases hab : fa = fb
  · subst hab
    simp only [if_true] at h1
    by_cases hbc : fa = fc
    · subst hbc
      simp only [if_true] at h2 ⊢
      exact rlex_trans _ _ _ h1 h2
    · simp only [hbc, if_false] at h2 ⊢
      exact h2
  · simp only [hab, if_false] at h1
    have h1' : fa < fb := by simpa using h1
    by_cases hbc : fb = fc
    · subst hbc
      simp only [hab, if_false]
      exact h1
    · simp only [hbc, if_false] at h2
      have h2' : fb < fc := by simpa using h2
      have hac : ¬ fa = fc := by omega
      simp only [hac, if_false]
      have : fa < fc := by omega
      simpa using this

theorem before_total (a b : Int × List Nat) (h : a ≠ b) : before a b = true ∨ before b a = true := by
  obtain ⟨fa, sa⟩ := a
  obtain ⟨fb, sb⟩ := b
  simp only [before]
  by_cases hab : fa = fb
  · subst hab
    simp only [if_true]
    apply rlex_total
    intro e
    exact h (by rw [e])
  · have hba : ¬ fb = fa := fun e => hab e.symm
    simp only [hab, hba, if_false]
    rcases Int.lt_or_gt_of_ne hab with h1 | h1
    · left; simpa using h1
    · right; simpa using h1

/-- faces first in the filtration order, for a monotone filtration -/
theorem before_of_face (f g : Int) (τ σ : List Nat) (hd : DecBelow none σ) (hs : τ <+ σ) (hne : τ ≠ σ) (hfg : f ≤ g) :
    before (f, τ) (g, σ) = true := by
  unfold before
  by_cases h : f = g
  · subst h; simp only [if_true]; exact rlex_of_proper_face τ σ none hd hs hne
  · simp only [h, if_false]; simp; omega

#print axioms before_trans
#print axioms before_of_face
end OrderProto

namespace OrderProto
/-- **any correct sort gives the same filtration order**: two permutations of one list of (value, simplex) pairs that
    are both sorted by `before` are equal — whatever sort routine, thread count or schedule produced them -/
theorem order_unique (l₁ l₂ : List (Int × List Nat)) (hp : l₁.Perm l₂)
    (h₁ : l₁.Pairwise fun a b => before a b = true) (h₂ : l₂.Pairwise fun a b => before a b = true) : l₁ = l₂ := by
  apply List.Perm.eq_of_pairwise _ h₁ h₂ hp
  intro a b _ _ hab hba
  have := before_trans a b a hab hba
  rw [before_irrefl] at this
  cases this

#print axioms order_unique
end OrderProto
