import GudhiVerif.ReduceP
import GudhiVerif.Step
import GudhiVerif.Pairing
import Mathlib.Data.ZMod.Basic
import Mathlib.FieldTheory.Finite.Basic

/-! Prototype: bridge from sparse Z_p columns (`List (row, coefficient)`) to `Matrix (Fin n) (Fin n) (ZMod p)`;
    the reference reduction over any prime field yields a certificate. -/
open Matrix AxpyProto ReducePProto

namespace BridgeP
variable (p : ℕ) [hpr : Fact p.Prime]

/-- dense view of a list of sparse columns -/
def toMatP (n : ℕ) (cols : List Col) : Matrix (Fin n) (Fin n) (ZMod p) :=
  fun i j => (coeff (cols.getD j.val []) i.val : ZMod p)

theorem powMod_cast (x n : ℕ) : ((powMod p x n : ℕ) : ZMod p) = (x : ZMod p) ^ n := by
  induction n with
  | zero => simp [powMod]
  | succ n ih => simp [powMod, ih, pow_succ]

theorem cancel_cast (x y : ℕ) : ((cancel p x y : ℕ) : ZMod p) = -((x : ZMod p) * (y : ZMod p) ^ (p - 2)) := by
  unfold cancel ReducePProto.inv
  rw [ZMod.natCast_mod, Nat.cast_sub (Nat.le_of_lt (Nat.mod_lt _ hpr.out.pos)), ZMod.natCast_mod]
  simp [powMod_cast]

theorem cancelOK : CancelOK p := by
  intro x y hy0 hyp _
  have hy : (y : ZMod p) ≠ 0 := by
    intro h
    have := (ZMod.natCast_eq_zero_iff y p).mp h
    exact absurd (Nat.le_of_dvd hy0 this) (by omega)
  have h2 : p - 2 + 1 = p - 1 := by have := hpr.out.two_le; omega
  have : ((x + cancel p x y * y : ℕ) : ZMod p) = 0 := by
    push_cast
    rw [cancel_cast]
    have : (y : ZMod p) ^ (p - 2) * y = 1 := by
      rw [← pow_succ, h2]; exact ZMod.pow_card_sub_one_eq_one hy
    linear_combination (-(x : ZMod p)) * this
  exact Nat.mod_eq_zero_of_dvd ((ZMod.natCast_eq_zero_iff _ p).mp this)

#print axioms cancelOK

/-- in-place `col j += c · col k` on the lists = right multiplication by the transvection `T_{k,j}(c)` -/
theorem toMatP_colop (n : ℕ) (cols : List Col) (hlen : cols.length = n) (hw : WF p n cols) (c : ℕ) (k j : Fin n) :
    toMatP p n (cols.set j.val (axpy p c (cols.getD j.val []) (cols.getD k.val [])))
      = toMatP p n cols * transvection k j (c : ZMod p) := by
  ext i m
  rw [colop_apply]
  unfold toMatP
  by_cases hm : m = j
  · subst hm
    simp only [if_true]
    rw [ReducePProto.getD_set_eq _ (by rw [hlen]; exact m.isLt)]
    have h1 := getD_wf hw m.val
    have h2 := getD_wf hw k.val
    rw [coeff_axpy p c _ _ h1.1 h2.1 (fun e he => (h1.2.1 e he).2), ZMod.natCast_mod]
    push_cast
    ring
  · simp only [hm, if_false]
    have : m.val ≠ j.val := fun h => hm (Fin.ext h)
    rw [ReducePProto.getD_set_ne _ this]

#print axioms toMatP_colop

theorem reduceAt_fact3 (n : ℕ) (D : Matrix (Fin n) (Fin n) (ZMod p)) (o : Owner) (j : Fin n)
    (ho : ∀ i k, lookup o i = some k → k < j.val) :
    ∀ (fuel : ℕ) (R V : List Col), R.length = n → V.length = n → WF p n R → WF p n V →
      Fact3 D (toMatP p n R) (toMatP p n V) →
      Fact3 D (toMatP p n (reduceAt p o j.val fuel R V).1) (toMatP p n (reduceAt p o j.val fuel R V).2) := by
  have hp := hpr.out.pos
  intro fuel
  induction fuel with
  | zero => intro R V _ _ _ _ hF; exact hF
  | succ fuel ih =>
    intro R V hR hV hwR hwV hF
    simp only [reduceAt]
    cases hl : low (R.getD j.val []) with
    | none => exact hF
    | some i =>
      simp only
      cases hk : lookup o i with
      | none => exact hF
      | some k =>
        simp only
        have hkj : k < j.val := ho i k hk
        have hkn : k < n := Nat.lt_trans hkj j.isLt
        let kf : Fin n := ⟨k, hkn⟩
        have hkjf : kf < j := hkj
        apply ih
        · simp [hR]
        · simp [hV]
        · exact wf_set hwR _ (wfc_axpy hp _ (getD_wf hwR _) (getD_wf hwR _))
        · exact wf_set hwV _ (wfc_axpy hp _ (getD_wf hwV _) (getD_wf hwV _))
        · have h1 := toMatP_colop p n R hR hwR (cancel p (lowCoef (R.getD j.val [])) (lowCoef (R.getD k []))) kf j
          have h2 := toMatP_colop p n V hV hwV (cancel p (lowCoef (R.getD j.val [])) (lowCoef (R.getD k []))) kf j
          simp only [kf] at h1 h2
          rw [h1, h2]
          exact hF.colop hkjf _

#print axioms reduceAt_fact3

/-- the lowest non-zero entry of the dense column is the last entry of the sparse one -/
theorem isLow_iff_low (n : ℕ) (cols : List Col) (hw : WF p n cols) (j i : Fin n) :
    IsLow (colv (toMatP p n cols) j) i ↔ low (cols.getD j.val []) = some i.val := by
  have hp := hpr.out.pos
  have hwj := getD_wf hw j.val
  have hnz : ∀ r : ℕ, (coeff (cols.getD j.val []) r : ZMod p) = 0 ↔ r ∉ rows (cols.getD j.val []) := by
    intro r
    rw [← coeff_eq_zero_iff _ hwj.2.1 r, ZMod.natCast_eq_zero_iff]
    constructor
    · intro hd
      by_contra h0
      exact absurd (Nat.le_of_dvd (Nat.pos_of_ne_zero h0) hd) (by have := coeff_lt hp hwj.2.1 r; omega)
    · intro h0; rw [h0]; exact dvd_zero _
  constructor
  · intro ⟨h1, h2⟩
    have hmem : i.val ∈ rows (cols.getD j.val []) := by
      by_contra hc
      exact h1 ((hnz i.val).mpr hc)
    cases hl : low (cols.getD j.val []) with
    | none => rw [low_none_iff.mp hl] at hmem; simp [rows] at hmem
    | some i' =>
      have hle := low_max hwj.1 hl i.val hmem
      have hmem' := low_mem hl
      have hi'n : i' < n := hwj.2.2 i' hmem'
      rcases Nat.lt_or_eq_of_le hle with hlt | heq
      · exfalso
        have h3 := h2 ⟨i', hi'n⟩ hlt
        exact ((hnz i').mp h3) hmem'
      · rw [heq]
  · intro hl
    refine ⟨?_, ?_⟩
    · show toMatP p n cols i j ≠ 0
      intro h0
      exact ((hnz i.val).mp h0) (low_mem hl)
    · intro k hk
      apply (hnz k.val).mpr
      intro hm
      have := low_max hwj.1 hl k.val hm
      have : i.val < k.val := hk
      omega

#print axioms isLow_iff_low

/-- invariant after the columns `< j` have been reduced -/
structure J (n : ℕ) (D : Matrix (Fin n) (Fin n) (ZMod p)) (j : ℕ) (s : S) : Prop where
  lenR : s.R.length = n
  lenV : s.V.length = n
  wR : WF p n s.R
  wV : WF p n s.V
  fact : Fact3 D (toMatP p n s.R) (toMatP p n s.V)
  own_sound : ∀ i k, lookup s.o i = some k → k < j ∧ low (s.R.getD k []) = some i
  own_complete : ∀ k, k < j → ∀ i, low (s.R.getD k []) = some i → lookup s.o i = some k

theorem J.step {n : ℕ} {D : Matrix (Fin n) (Fin n) (ZMod p)} {j : ℕ} {s : S} (h : J p n D j s) (hj : j < n) :
    J p n D (j + 1) (stepCol p n s j) := by
  have hp := hpr.out.pos
  have f3 := reduceAt_fact3 p n D s.o ⟨j, hj⟩ (fun i k hk => (h.own_sound i k hk).1) (n + 1) s.R s.V
    h.lenR h.lenV h.wR h.wV h.fact
  obtain ⟨w1, w2, l1, l2⟩ := reduceAt_wf (n := n) hp s.o j (n + 1) s.R s.V h.wR h.wV
  have hoth := reduceAt_other p s.o j (n + 1) s.R s.V
  have hex := reduceAt_exit (n := n) hp (cancelOK p) s.o j (n + 1) s.R s.V (by rw [h.lenR]; exact hj) h.wR
    (fun i k hk => ⟨by have := (h.own_sound i k hk).1; omega, (h.own_sound i k hk).2⟩)
    (by
      intro i hi
      have := (getD_wf h.wR j).2.2 i (low_mem hi)
      omega)
  unfold stepCol
  simp only
  refine ⟨l1.trans h.lenR, l2.trans h.lenV, w1, w2, f3, ?_, ?_⟩
  · intro i k hk
    cases hl : low ((reduceAt p s.o j (n + 1) s.R s.V).1.getD j []) with
    | none =>
      simp only [hl] at hk
      obtain ⟨h1, h2⟩ := h.own_sound i k hk
      refine ⟨by omega, ?_⟩
      rw [(hoth k (by omega)).1]; exact h2
    | some i0 =>
      simp only [hl, lookup] at hk
      split at hk
      · rename_i heq
        cases hk
        exact ⟨by omega, heq ▸ hl⟩
      · obtain ⟨h1, h2⟩ := h.own_sound i k hk
        refine ⟨by omega, ?_⟩
        rw [(hoth k (by omega)).1]; exact h2
  · intro k hk i hi
    rcases Nat.lt_or_ge k j with hlt | hge
    · rw [(hoth k (by omega)).1] at hi
      have hold := h.own_complete k hlt i hi
      cases hl : low ((reduceAt p s.o j (n + 1) s.R s.V).1.getD j []) with
      | none => simp only [hl]; exact hold
      | some i0 =>
        simp only [hl, lookup]
        split
        · rename_i heq
          have := hex i0 hl
          rw [heq, hold] at this
          cases this
        · exact hold
    · have hkj : k = j := by omega
      subst hkj
      simp only [hi, lookup, if_true]

#print axioms J.step

theorem toMatP_idCols (n : ℕ) : toMatP p n (idCols n) = 1 := by
  ext i j
  unfold toMatP idCols
  have : ((List.range n).map fun j => [(j, 1)]).getD j.val [] = [(j.val, 1)] := by
    simp [List.getD_eq_getElem?_getD, j.isLt]
  rw [this]
  by_cases h : i = j
  · subst h; simp [coeff]
  · have : j.val ≠ i.val := fun hh => h (Fin.ext hh.symm)
    simp [h, this, coeff]

def reduceUpTo (n : ℕ) (D : List Col) (k : ℕ) : S := (List.range k).foldl (stepCol p n) ⟨D, idCols n, []⟩

theorem reduceAll_eq (n : ℕ) (D : List Col) : reduceAll p n D = reduceUpTo p n D n := rfl

theorem J.init (n : ℕ) (D : List Col) (hlen : D.length = n) (hw : WF p n D) :
    J p n (toMatP p n D) 0 ⟨D, idCols n, []⟩ where
  lenR := hlen
  lenV := by simp [idCols]
  wR := hw
  wV := by
    intro c hc
    simp only [idCols, List.mem_map, List.mem_range] at hc
    obtain ⟨j, hj, rfl⟩ := hc
    refine ⟨trivial, ?_, ?_⟩
    · intro e he
      simp only [List.mem_singleton] at he
      subst he
      exact ⟨Nat.one_pos, hpr.out.one_lt⟩
    · intro z hz; simp [rows] at hz; omega
  fact := by rw [toMatP_idCols]; exact Fact3.init _
  own_sound := by intro i k h; simp [lookup] at h
  own_complete := by intro k hk; omega

theorem J.upTo (n : ℕ) (D : List Col) (hlen : D.length = n) (hw : WF p n D) :
    ∀ k, k ≤ n → J p n (toMatP p n D) k (reduceUpTo p n D k) := by
  intro k
  induction k with
  | zero => intro _; exact J.init p n D hlen hw
  | succ k ih =>
    intro hk
    have := (ih (by omega)).step p (by omega : k < n)
    unfold reduceUpTo at this ⊢
    rw [List.range_succ, List.foldl_append]
    exact this

/-- **the Z_p reference reduction produces a certificate**, for every prime `p` -/
theorem reduceAllP_cert (n : ℕ) (D : List Col) (hlen : D.length = n) (hw : WF p n D) :
    Cert (toMatP p n D) (toMatP p n (reduceAll p n D).R) (toMatP p n (reduceAll p n D).V) := by
  have hJ := J.upTo p n D hlen hw n (Nat.le_refl _)
  rw [reduceAll_eq]
  refine ⟨hJ.fact.factor, hJ.fact.upper, hJ.fact.diag, ?_⟩
  intro j k i h1 h2
  have e1 := (isLow_iff_low p n _ hJ.wR j i).mp h1
  have e2 := (isLow_iff_low p n _ hJ.wR k i).mp h2
  have a := hJ.own_complete j.val j.isLt i.val e1
  have b := hJ.own_complete k.val k.isLt i.val e2
  rw [a] at b
  exact Fin.ext (Option.some.inj b)

/-- any reduced factorisation over `ZMod p` of the same boundary matrix has the lows of the executable reference -/
theorem any_cert_agrees_with_referenceP (n : ℕ) (D : List Col) (hlen : D.length = n) (hw : WF p n D)
    (R' V' : Matrix (Fin n) (Fin n) (ZMod p)) (h' : Cert (toMatP p n D) R' V') (j i : Fin n) :
    IsLow (colv R' j) i ↔ low ((reduceAll p n D).R.getD j.val []) = some i.val := by
  have hJ := J.upTo p n D hlen hw n (Nat.le_refl _)
  have hc := reduceAllP_cert p n D hlen hw
  rw [reduceAll_eq] at hc ⊢
  exact (cert_unique h' hc j i).trans (isLow_iff_low p n _ hJ.wR j i)

#print axioms reduceAllP_cert
#print axioms any_cert_agrees_with_referenceP
end BridgeP
