import GudhiVerif.Reduce
import GudhiVerif.Step
import GudhiVerif.Pairing
import Mathlib.Data.ZMod.Basic

/-! Prototype: bridge from sparse Z2 columns (strictly sorted `List Nat`) to `Matrix (Fin n) (Fin n) (ZMod 2)`;
    an in-place column addition on the lists is right-multiplication by a transvection. -/
open Matrix ColProto ReduceProto

/-- dense view of a list of sparse columns -/
def toMat (n : ℕ) (cols : List (List ℕ)) : Matrix (Fin n) (Fin n) (ZMod 2) :=
  fun i j => if i.val ∈ cols.getD j.val [] then 1 else 0

theorem zmod2_ind_xor (a b : Prop) [Decidable a] [Decidable b] :
    ((if (a ∧ ¬ b) ∨ (¬ a ∧ b) then 1 else 0 : ZMod 2)) = (if a then 1 else 0) + (if b then 1 else 0) := by
  by_cases ha : a <;> by_cases hb : b <;> simp [ha, hb]
  · decide

theorem getD_set_ne {cols : List (List ℕ)} {j m : ℕ} (c : List ℕ) (h : m ≠ j) :
    (cols.set j c).getD m [] = cols.getD m [] := by
  simp [List.getD_eq_getElem?_getD, List.getElem?_set_ne (Ne.symm h)]

theorem getD_set_eq {cols : List (List ℕ)} {j : ℕ} (c : List ℕ) (h : j < cols.length) :
    (cols.set j c).getD j [] = c := by
  simp [List.getD_eq_getElem?_getD, List.getElem?_set_self h]

/-- in-place `col j ^= col k` on the lists = right multiplication by the transvection `T_{k,j}(1)` -/
theorem toMat_colop (n : ℕ) (cols : List (List ℕ)) (hlen : cols.length = n)
    (hs : ∀ c ∈ cols, StrictSorted c) (k j : Fin n) :
    toMat n (cols.set j.val (xorMerge (cols.getD j.val []) (cols.getD k.val [])))
      = toMat n cols * transvection k j (1 : ZMod 2) := by
  ext i m
  rw [colop_apply]
  unfold toMat
  by_cases hm : m = j
  · subst hm
    simp only [if_true]
    rw [getD_set_eq _ (by rw [hlen]; exact m.isLt)]
    have h1 := getD_sorted hs m.val
    have h2 := getD_sorted hs k.val
    have := mem_xorMerge (cols.getD m.val []) (cols.getD k.val []) h1 h2 i.val
    simp only [this]
    rw [zmod2_ind_xor]
    simp
  · simp only [hm, if_false]
    have : m.val ≠ j.val := fun h => hm (Fin.ext h)
    rw [getD_set_ne _ this]

#print axioms toMat_colop

namespace InPlace
open ColProto ReduceProto

/-- in-place inner loop of the standard reduction on column `j` (this is also `RU_matrix::_reduce_column` over Z2,
    with `V` in place of the stored factor) -/
def reduceAt (o : Owner) (j : ℕ) : ℕ → List Col → List Col → List Col × List Col
  | 0, R, V => (R, V)
  | fuel + 1, R, V =>
    match low (R.getD j []) with
    | none => (R, V)
    | some i =>
      match lookup o i with
      | none => (R, V)
      | some k =>
        reduceAt o j fuel (R.set j (xorMerge (R.getD j []) (R.getD k [])))
                          (V.set j (xorMerge (V.getD j []) (V.getD k [])))

theorem mem_set_sorted {cols : List Col} (hs : ∀ c ∈ cols, StrictSorted c) (j : ℕ) (c : Col) (hc : StrictSorted c) :
    ∀ c' ∈ cols.set j c, StrictSorted c' := by
  intro c' hc'
  rcases List.mem_or_eq_of_mem_set hc' with h | h
  · exact hs c' h
  · exact h ▸ hc

/-- matrix-level invariant is preserved by the whole inner loop -/
theorem reduceAt_fact3 (n : ℕ) (D : Matrix (Fin n) (Fin n) (ZMod 2)) (o : Owner) (j : Fin n)
    (ho : ∀ i k, lookup o i = some k → k < j.val) :
    ∀ (fuel : ℕ) (R V : List Col), R.length = n → V.length = n →
      (∀ c ∈ R, StrictSorted c) → (∀ c ∈ V, StrictSorted c) →
      Fact3 D (toMat n R) (toMat n V) →
      let res := reduceAt o j.val fuel R V
      res.1.length = n ∧ res.2.length = n ∧ (∀ c ∈ res.1, StrictSorted c) ∧ (∀ c ∈ res.2, StrictSorted c) ∧
        Fact3 D (toMat n res.1) (toMat n res.2) := by
  intro fuel
  induction fuel with
  | zero => intro R V hR hV hsR hsV hF; exact ⟨hR, hV, hsR, hsV, hF⟩
  | succ fuel ih =>
    intro R V hR hV hsR hsV hF
    simp only [reduceAt]
    cases hl : low (R.getD j.val []) with
    | none => exact ⟨hR, hV, hsR, hsV, hF⟩
    | some i =>
      simp only
      cases hk : lookup o i with
      | none => exact ⟨hR, hV, hsR, hsV, hF⟩
      | some k =>
        simp only
        have hkj : k < j.val := ho i k hk
        have hkn : k < n := Nat.lt_trans hkj j.isLt
        let kf : Fin n := ⟨k, hkn⟩
        have hkjf : kf < j := hkj
        apply ih
        · simp [hR]
        · simp [hV]
        · exact mem_set_sorted hsR _ _ (sorted_xorMerge _ _ (getD_sorted hsR _) (getD_sorted hsR _))
        · exact mem_set_sorted hsV _ _ (sorted_xorMerge _ _ (getD_sorted hsV _) (getD_sorted hsV _))
        · have h1 := toMat_colop n R hR hsR kf j
          have h2 := toMat_colop n V hV hsV kf j
          simp only [kf] at h1 h2
          rw [h1, h2]
          exact hF.colop hkjf 1

#print axioms reduceAt_fact3
end InPlace

namespace InPlace
open ColProto ReduceProto

/-- the inner loop touches only column `j` -/
theorem reduceAt_other (o : Owner) (j : ℕ) : ∀ (fuel : ℕ) (R V : List Col) (m : ℕ), m ≠ j →
    (reduceAt o j fuel R V).1.getD m [] = R.getD m [] ∧ (reduceAt o j fuel R V).2.getD m [] = V.getD m [] := by
  intro fuel
  induction fuel with
  | zero => intro R V m _; exact ⟨rfl, rfl⟩
  | succ fuel ih =>
    intro R V m hm
    simp only [reduceAt]
    cases hl : low (R.getD j []) with
    | none => exact ⟨rfl, rfl⟩
    | some i =>
      simp only
      cases hk : lookup o i with
      | none => exact ⟨rfl, rfl⟩
      | some k =>
        simp only
        obtain ⟨h1, h2⟩ := ih (R.set j (xorMerge (R.getD j []) (R.getD k [])))
          (V.set j (xorMerge (V.getD j []) (V.getD k []))) m hm
        rw [h1, h2, getD_set_ne _ hm, getD_set_ne _ hm]
        exact ⟨rfl, rfl⟩

/-- with enough fuel the loop exits on a free pivot -/
theorem reduceAt_exit (o : Owner) (j : ℕ)
    : ∀ (fuel : ℕ) (R V : List Col), j < R.length → (∀ c ∈ R, StrictSorted c) →
      (∀ i k, lookup o i = some k → k ≠ j ∧ low (R.getD k []) = some i) →
      (∀ i, low (R.getD j []) = some i → i < fuel) →
      ∀ i, low ((reduceAt o j fuel R V).1.getD j []) = some i → lookup o i = none := by
  intro fuel
  induction fuel with
  | zero =>
    intro R V _ _ _ hf i hi
    simp only [reduceAt] at hi
    exact absurd (hf i hi) (Nat.not_lt_zero _)
  | succ fuel ih =>
    intro R V hj hs hown hf i hi
    cases hl : low (R.getD j []) with
    | none =>
      have e : reduceAt o j (fuel + 1) R V = (R, V) := by simp only [reduceAt, hl]
      rw [e] at hi; simp only at hi; rw [hl] at hi; cases hi
    | some i0 =>
      cases hk : lookup o i0 with
      | none =>
        have e : reduceAt o j (fuel + 1) R V = (R, V) := by simp only [reduceAt, hl, hk]
        rw [e] at hi; simp only at hi; rw [hl] at hi; cases hi; exact hk
      | some k =>
        have e : reduceAt o j (fuel + 1) R V =
            reduceAt o j fuel (R.set j (xorMerge (R.getD j []) (R.getD k [])))
              (V.set j (xorMerge (V.getD j []) (V.getD k []))) := by simp only [reduceAt, hl, hk]
        rw [e] at hi
        obtain ⟨hkj, hlowk⟩ := hown i0 k hk
        have hsj := getD_sorted hs j
        have hsk := getD_sorted hs k
        refine ih _ _ (by simpa using hj)
          (mem_set_sorted hs _ _ (sorted_xorMerge _ _ hsj hsk)) ?_ ?_ i hi
        · intro i' k' hk'
          obtain ⟨h1, h2⟩ := hown i' k' hk'
          refine ⟨h1, ?_⟩
          rw [getD_set_ne _ h1]; exact h2
        · intro i' hi'
          rw [getD_set_eq _ hj] at hi'
          have := low_xorMerge_lt hsj hsk hl hlowk i' hi'
          have := hf i0 hl
          omega

/-- bridge: the lowest non-zero entry of a dense column is the last entry of the sparse one -/
theorem toMat_apply_mem {n : ℕ} {cols : List Col} {i j : Fin n} (h : i.val ∈ cols.getD j.val []) :
    toMat n cols i j = 1 := by unfold toMat; rw [if_pos h]

theorem toMat_apply_not_mem {n : ℕ} {cols : List Col} {i j : Fin n} (h : i.val ∉ cols.getD j.val []) :
    toMat n cols i j = 0 := by unfold toMat; rw [if_neg h]

theorem isLow_iff_low (n : ℕ) (cols : List Col) (hs : ∀ c ∈ cols, StrictSorted c)
    (hb : ∀ c ∈ cols, ∀ x ∈ c, x < n) (j i : Fin n) :
    IsLow (colv (toMat n cols) j) i ↔ low (cols.getD j.val []) = some i.val := by
  have hsj := getD_sorted hs j.val
  have hone : (1 : ZMod 2) ≠ 0 := by decide
  constructor
  · intro ⟨h1, h2⟩
    have hmem : i.val ∈ cols.getD j.val [] := by
      by_contra hc
      exact h1 (toMat_apply_not_mem hc)
    cases hl : low (cols.getD j.val []) with
    | none => rw [low_none_iff.mp hl] at hmem; cases hmem
    | some i' =>
      have hle := low_max hsj hl i.val hmem
      have hmem' := low_mem hl
      have hi'n : i' < n := by
        have hcol : cols.getD j.val [] ∈ cols ∨ cols.getD j.val [] = [] := by
          rw [List.getD_eq_getElem?_getD]
          cases h : cols[j.val]? with
          | none => right; rfl
          | some c => left; simpa using List.mem_of_getElem? h
        rcases hcol with h | h
        · exact hb _ h i' hmem'
        · rw [h] at hmem'; cases hmem'
      rcases Nat.lt_or_eq_of_le hle with hlt | heq
      · exfalso
        have h3 := h2 ⟨i', hi'n⟩ hlt
        have h4 : toMat n cols ⟨i', hi'n⟩ j = 1 := toMat_apply_mem hmem'
        exact hone (h4 ▸ h3)
      · rw [heq]
  · intro hl
    refine ⟨?_, ?_⟩
    · show toMat n cols i j ≠ 0
      rw [toMat_apply_mem (low_mem hl)]; exact hone
    · intro k hk
      have : k.val ∉ cols.getD j.val [] := by
        intro hm
        have := low_max hsj hl k.val hm
        have : i.val < k.val := hk
        omega
      exact toMat_apply_not_mem this

#print axioms reduceAt_exit
#print axioms isLow_iff_low
end InPlace

namespace InPlace
open ColProto ReduceProto

/-- entries stay below `n` -/
theorem reduceAt_bound (n : ℕ) (o : Owner) (j : ℕ) : ∀ (fuel : ℕ) (R V : List Col),
    (∀ c ∈ R, StrictSorted c) → (∀ c ∈ R, ∀ x ∈ c, x < n) → ∀ c ∈ (reduceAt o j fuel R V).1, ∀ x ∈ c, x < n := by
  intro fuel
  induction fuel with
  | zero => intro R V _ hb; exact hb
  | succ fuel ih =>
    intro R V hs hb
    simp only [reduceAt]
    cases hl : low (R.getD j []) with
    | none => exact hb
    | some i =>
      simp only
      cases hk : lookup o i with
      | none => exact hb
      | some k =>
        simp only
        have hgetb : ∀ m, ∀ x ∈ R.getD m [], x < n := by
          intro m x hx
          rw [List.getD_eq_getElem?_getD] at hx
          cases h : R[m]? with
          | none => rw [h] at hx; cases hx
          | some c => rw [h] at hx; exact hb c (List.mem_of_getElem? h) x hx
        apply ih
        · exact mem_set_sorted hs _ _ (sorted_xorMerge _ _ (getD_sorted hs _) (getD_sorted hs _))
        · intro c hc x hx
          rcases List.mem_or_eq_of_mem_set hc with h | h
          · exact hb c h x hx
          · rw [h, mem_xorMerge _ _ (getD_sorted hs _) (getD_sorted hs _)] at hx
            rcases hx with ⟨h1, _⟩ | ⟨_, h2⟩
            · exact hgetb j x h1
            · exact hgetb k x h2

structure S where
  R : List Col
  V : List Col
  o : Owner

def stepCol (n : ℕ) (s : S) (j : ℕ) : S :=
  let res := reduceAt s.o j (n + 1) s.R s.V
  { R := res.1, V := res.2,
    o := match low (res.1.getD j []) with | none => s.o | some i => (i, j) :: s.o }

/-- invariant after the columns `< j` have been reduced -/
structure J (n : ℕ) (D : Matrix (Fin n) (Fin n) (ZMod 2)) (j : ℕ) (s : S) : Prop where
  lenR : s.R.length = n
  lenV : s.V.length = n
  sR : ∀ c ∈ s.R, StrictSorted c
  sV : ∀ c ∈ s.V, StrictSorted c
  bR : ∀ c ∈ s.R, ∀ x ∈ c, x < n
  fact : Fact3 D (toMat n s.R) (toMat n s.V)
  own_sound : ∀ i k, lookup s.o i = some k → k < j ∧ low (s.R.getD k []) = some i
  own_complete : ∀ k, k < j → ∀ i, low (s.R.getD k []) = some i → lookup s.o i = some k

theorem J.step {n : ℕ} {D : Matrix (Fin n) (Fin n) (ZMod 2)} {j : ℕ} {s : S} (h : J n D j s) (hj : j < n) :
    J n D (j + 1) (stepCol n s j) := by
  have hfa := reduceAt_fact3 n D s.o ⟨j, hj⟩ (fun i k hk => (h.own_sound i k hk).1) (n + 1) s.R s.V
    h.lenR h.lenV h.sR h.sV h.fact
  simp only at hfa
  obtain ⟨l1, l2, s1, s2, f3⟩ := hfa
  have hb := reduceAt_bound n s.o j (n + 1) s.R s.V h.sR h.bR
  have hoth := reduceAt_other s.o j (n + 1) s.R s.V
  have hex := reduceAt_exit s.o j (n + 1) s.R s.V (by rw [h.lenR]; exact hj) h.sR
    (fun i k hk => ⟨by have := (h.own_sound i k hk).1; omega, (h.own_sound i k hk).2⟩)
    (by
      intro i hi
      have hm := low_mem hi
      have : i < n := by
        rw [List.getD_eq_getElem?_getD] at hm
        cases hh : s.R[j]? with
        | none => rw [hh] at hm; cases hm
        | some c => rw [hh] at hm; exact h.bR c (List.mem_of_getElem? hh) i hm
      omega)
  unfold stepCol
  simp only
  refine ⟨l1, l2, s1, s2, hb, f3, ?_, ?_⟩
  · intro i k hk
    cases hl : low ((reduceAt s.o j (n + 1) s.R s.V).1.getD j []) with
    | none =>
      simp only [hl] at hk
      obtain ⟨h1, h2⟩ := h.own_sound i k hk
      refine ⟨by omega, ?_⟩
      rw [(hoth k (by omega)).1]; exact h2
    | some i0 =>
      simp only [hl, lookup] at hk
      split at hk
      · rename_i heq
        cases hk
        exact ⟨by omega, heq ▸ hl⟩
      · obtain ⟨h1, h2⟩ := h.own_sound i k hk
        refine ⟨by omega, ?_⟩
        rw [(hoth k (by omega)).1]; exact h2
  · intro k hk i hi
    rcases Nat.lt_or_ge k j with hlt | hge
    · rw [(hoth k (by omega)).1] at hi
      have hold := h.own_complete k hlt i hi
      cases hl : low ((reduceAt s.o j (n + 1) s.R s.V).1.getD j []) with
      | none => simp only [hl]; exact hold
      | some i0 =>
        simp only [hl, lookup]
        split
        · rename_i heq
          have := hex i0 hl
          rw [heq, hold] at this
          cases this
        · exact hold
    · have hkj : k = j := by omega
      subst hkj
      simp only [hi, lookup, if_true]

#print axioms J.step
end InPlace

namespace InPlace
open ColProto ReduceProto

def idCols (n : ℕ) : List Col := (List.range n).map fun j => [j]

def reduceUpTo (n : ℕ) (D : List Col) (k : ℕ) : S := (List.range k).foldl (stepCol n) ⟨D, idCols n, []⟩

/-- the executable reference reduction (in-place form) -/
def reduceAll (n : ℕ) (D : List Col) : S := reduceUpTo n D n

theorem toMat_idCols (n : ℕ) : toMat n (idCols n) = 1 := by
  ext i j
  unfold toMat idCols
  have : ((List.range n).map fun j => [j]).getD j.val [] = [j.val] := by
    simp [List.getD_eq_getElem?_getD, j.isLt]
  rw [this]
  by_cases h : i = j
  · subst h; simp
  · have : i.val ≠ j.val := fun hh => h (Fin.ext hh)
    simp [h, this]

theorem J.init (n : ℕ) (D : List Col) (hlen : D.length = n) (hs : ∀ c ∈ D, StrictSorted c)
    (hb : ∀ c ∈ D, ∀ x ∈ c, x < n) : J n (toMat n D) 0 ⟨D, idCols n, []⟩ where
  lenR := hlen
  lenV := by simp [idCols]
  sR := hs
  sV := by
    intro c hc
    simp only [idCols, List.mem_map] at hc
    obtain ⟨j, _, rfl⟩ := hc
    trivial
  bR := hb
  fact := by rw [toMat_idCols]; exact Fact3.init _
  own_sound := by intro i k h; simp [lookup] at h
  own_complete := by intro k hk; omega

theorem J.upTo (n : ℕ) (D : List Col) (hlen : D.length = n) (hs : ∀ c ∈ D, StrictSorted c)
    (hb : ∀ c ∈ D, ∀ x ∈ c, x < n) : ∀ k, k ≤ n → J n (toMat n D) k (reduceUpTo n D k) := by
  intro k
  induction k with
  | zero => intro _; exact J.init n D hlen hs hb
  | succ k ih =>
    intro hk
    have := (ih (by omega)).step (by omega : k < n)
    unfold reduceUpTo at this ⊢
    rw [List.range_succ, List.foldl_append]
    exact this

/-- **the reference reduction produces a certificate** (`R = D·V`, `V` upper triangular with unit diagonal, `R` reduced),
    hence by `cert_unique` its pairing is *the* pairing of `D`. -/
theorem reduceAll_cert (n : ℕ) (D : List Col) (hlen : D.length = n) (hs : ∀ c ∈ D, StrictSorted c)
    (hb : ∀ c ∈ D, ∀ x ∈ c, x < n) :
    Cert (toMat n D) (toMat n (reduceAll n D).R) (toMat n (reduceAll n D).V) := by
  have hJ := J.upTo n D hlen hs hb n (Nat.le_refl _)
  refine ⟨hJ.fact.factor, hJ.fact.upper, hJ.fact.diag, ?_⟩
  intro j k i h1 h2
  have e1 := (isLow_iff_low n _ hJ.sR hJ.bR j i).mp h1
  have e2 := (isLow_iff_low n _ hJ.sR hJ.bR k i).mp h2
  have a := hJ.own_complete j.val j.isLt i.val e1
  have b := hJ.own_complete k.val k.isLt i.val e2
  rw [a] at b
  exact Fin.ext (Option.some.inj b)

#print axioms reduceAll_cert
end InPlace

namespace InPlace
open ColProto ReduceProto

/-- corollary: *any* reduced factorization of the same boundary matrix (RU, chain-derived, twist, …) has exactly the
    lows computed by the executable reference — the statement every flavour of C05 is reduced to. -/
theorem any_cert_agrees_with_reference (n : ℕ) (D : List Col) (hlen : D.length = n)
    (hs : ∀ c ∈ D, StrictSorted c) (hb : ∀ c ∈ D, ∀ x ∈ c, x < n)
    (R' V' : Matrix (Fin n) (Fin n) (ZMod 2)) (h' : Cert (toMat n D) R' V') (j i : Fin n) :
    IsLow (colv R' j) i ↔ low ((reduceAll n D).R.getD j.val []) = some i.val := by
  have hJ := J.upTo n D hlen hs hb n (Nat.le_refl _)
  exact (cert_unique h' (reduceAll_cert n D hlen hs hb) j i).trans
    (isLow_iff_low n (reduceAll n D).R hJ.sR hJ.bR j i)

#print axioms any_cert_agrees_with_reference
end InPlace
