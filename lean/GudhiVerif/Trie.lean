/-! Prototype: first-child/next-sibling encoding of the simplex tree, find / insert_simplex_raw. Core only. -/
namespace TrieProto

inductive Forest where
  | nil : Forest
  | cons (label : Nat) (filt : Int) (kids : Forest) (rest : Forest) : Forest
deriving Repr, DecidableEq

open Forest

/-- `find_simplex`: value stored for the (sorted) word `w` -/
def find : Forest → List Nat → Option Int
  | _, [] => none
  | nil, _ :: _ => none
  | cons l f _ r, [v] => if v = l then some f else find r [v]
  | cons l _ k r, v :: v2 :: vs => if v = l then find k (v2 :: vs) else find r (v :: v2 :: vs)

/-- a fresh path below a new node: what `insert_simplex_raw` creates when no prefix exists -/
def mkPath : List Nat → Int → Forest
  | [], _ => nil
  | v :: vs, f => cons v f (mkPath vs f) nil

/-- `insert_simplex_raw` -/
def insert : Forest → List Nat → Int → Forest
  | t, [], _ => t
  | nil, v :: vs, f => mkPath (v :: vs) f
  | cons l g k r, [v], f =>
    if v < l then cons v f nil (cons l g k r)
    else if v = l then cons l (if f < g then f else g) k r
    else cons l g k (insert r [v] f)
  | cons l g k r, v :: v2 :: vs, f =>
    if v < l then cons v f (mkPath (v2 :: vs) f) (cons l g k r)
    else if v = l then cons l g (insert k (v2 :: vs) f) r
    else cons l g k (insert r (v :: v2 :: vs) f)
termination_by t w _ => (w.length, t)
decreasing_by
  all_goals simp_wf
  · apply Prod.Lex.right; simp; omega
  · apply Prod.Lex.left; simp
  · apply Prod.Lex.right; simp; omega

theorem find_mkPath (w : List Nat) (f : Int) (hw : w ≠ []) : find (mkPath w f) w = some f := by
  induction w with
  | nil => exact absurd rfl hw
  | cons v vs ih =>
    cases vs with
    | nil => simp [mkPath, find]
    | cons v2 vs2 => simp only [mkPath, find, if_true]; exact ih (by simp)

theorem find_insert_same_new (t : Forest) (w : List Nat) (f : Int) (hw : w ≠ [])
    (hnew : find t w = none) : find (insert t w f) w = some f := by
  induction t, w, f using insert.induct with
  | case1 t f => exact absurd rfl hw
  | case2 v vs f => rw [insert]; exact find_mkPath _ _ hw
  | case3 l g k r v f hlt => simp [insert, hlt, find]
  | case4 l g k r f hlt => simp [find] at hnew
  | case5 l g k r v f hlt hne ih =>
    simp only [insert, hlt, hne, if_false, find]
    simp only [find, hne, if_false] at hnew
    exact ih hw hnew
  | case6 l g k r v v2 vs f hlt =>
    simp only [insert, hlt, if_true, find]
    exact find_mkPath _ _ (by simp)
  | case7 l g k r v2 vs f hlt ih =>
    simp only [insert, Nat.lt_irrefl, if_false, if_true, find]
    simp only [find, if_true] at hnew
    exact ih (by simp) hnew
  | case8 l g k r v v2 vs f hlt hne ih =>
    simp only [insert, hlt, hne, if_false, find]
    simp only [find, hne, if_false] at hnew
    exact ih hw hnew

#print axioms find_insert_same_new
end TrieProto
