/-! Prototype (C09): the heap column over Z_p — a multiset of (row, coefficient) entries with duplicates, the represented
    coefficient of a row being the sum of its entries mod p.  `_pop_pivot` (Z_p branch) pops a maximum, accumulates the
    following entries of the same row, and starts again when the sum vanishes.  Core Lean only. -/
namespace HeapPProto

abbrev Ent := Nat × Nat

/-- represented coefficient of row `i` -/
def coeff (p : Nat) : List Ent → Nat → Nat
  | [], _ => 0
  | (r, x) :: t, i => if r = i then (x + coeff p t i) % p else coeff p t i

/-- accumulate the leading run of entries of row `r` : returns (sum mod p, rest) -/
def takeRun (p r : Nat) : Nat → List Ent → Nat × List Ent
  | acc, [] => (acc, [])
  | acc, (s, y) :: t => if s = r then takeRun p r ((acc + y) % p) t else (acc, (s, y) :: t)

/-- `_pop_pivot`, Z_p branch (the list is sorted by decreasing row = heap extraction order) -/
def popPivot (p : Nat) : List Ent → Option Ent × List Ent
  | [] => (none, [])
  | (r, x) :: t =>
    let res := takeRun p r (x % p) t
    if res.1 = 0 then popPivot p res.2 else (some (r, res.1), res.2)
termination_by l => l.length
decreasing_by
  simp_wf
  have : ∀ (acc : Nat) (t : List Ent), (takeRun p r acc t).2.length ≤ t.length := by
    intro acc t
    induction t generalizing acc with
    | nil => simp [takeRun]
    | cons h t ih =>
      obtain ⟨s, y⟩ := h
      simp only [takeRun]
      split
      · exact Nat.le_trans (ih _) (Nat.le_succ _)
      · exact Nat.le_refl _
  exact Nat.lt_succ_of_le (this _ _)

def Desc : List Ent → Prop
  | [] => True
  | [_] => True
  | a :: b :: t => b.1 ≤ a.1 ∧ Desc (b :: t)

theorem Desc.tail {a : Ent} {t : List Ent} (h : Desc (a :: t)) : Desc t := by
  cases t with
  | nil => trivial
  | cons b t => exact h.2

theorem Desc.le_head {a : Ent} {t : List Ent} (h : Desc (a :: t)) : ∀ e ∈ t, e.1 ≤ a.1 := by
  induction t generalizing a with
  | nil => intro e he; cases he
  | cons b t ih =>
    intro e he
    rcases List.mem_cons.mp he with rfl | he'
    · exact h.1
    · exact Nat.le_trans (ih h.2 e he') h.1

theorem coeff_zero_of_gt (p : Nat) {l : List Ent} {a i : Nat} (h : ∀ e ∈ l, e.1 ≤ a) (hi : a < i) : coeff p l i = 0 := by
  induction l with
  | nil => rfl
  | cons e t ih =>
    obtain ⟨r, x⟩ := e
    have hr : r ≤ a := h (r, x) List.mem_cons_self
    simp only [coeff]
    rw [if_neg (by omega)]
    exact ih (fun e he => h e (List.mem_cons_of_mem _ he))

theorem coeff_lt (p : Nat) (hp : 0 < p) (l : List Ent) (i : Nat) : coeff p l i < p := by
  induction l with
  | nil => exact hp
  | cons e t ih =>
    obtain ⟨r, x⟩ := e
    simp only [coeff]; split
    · exact Nat.mod_lt _ hp
    · exact ih

/-- the run of row `r`: the accumulated sum is the represented coefficient, the rest keeps every other row and holds only
    smaller rows -/
theorem takeRun_spec (p r : Nat) (hp : 0 < p) : ∀ (t : List Ent) (acc : Nat), acc < p → Desc ((r, 0) :: t) →
    (takeRun p r acc t).1 = (acc + coeff p t r) % p ∧
    (∀ i, i ≠ r → coeff p (takeRun p r acc t).2 i = coeff p t i) ∧
    coeff p (takeRun p r acc t).2 r = 0 ∧
    Desc (takeRun p r acc t).2 ∧ (∀ e ∈ (takeRun p r acc t).2, e.1 < r) := by
  intro t
  induction t with
  | nil =>
    intro acc hacc _
    refine ⟨?_, ?_, ?_, ?_, ?_⟩
    · simp only [takeRun, coeff, Nat.add_zero]; exact (Nat.mod_eq_of_lt hacc).symm
    · intro i _; simp [takeRun]
    · simp [takeRun, coeff]
    · simp [takeRun, Desc]
    · intro e he; simp [takeRun] at he
  | cons h t ih =>
    obtain ⟨s, y⟩ := h
    intro acc hacc hd
    have hsr : s ≤ r := hd.1
    simp only [takeRun]
    by_cases hs : s = r
    · subst hs
      simp only [if_true]
      have hd' : Desc ((s, 0) :: t) := by
        cases t with
        | nil => trivial
        | cons b t' => exact ⟨hd.2.1, hd.2.2⟩
      obtain ⟨h1, h2, h3, h4, h5⟩ := ih ((acc + y) % p) (Nat.mod_lt _ hp) hd'
      refine ⟨?_, ?_, h3, h4, h5⟩
      · rw [h1]; simp only [coeff, if_true]
        rw [Nat.add_mod, Nat.mod_mod, ← Nat.add_mod, Nat.add_mod acc, Nat.mod_mod, ← Nat.add_mod]
        congr 1; omega
      · intro i hi
        rw [h2 i hi]; simp only [coeff]
        rw [if_neg (fun e => hi e.symm)]
    · simp only [hs, if_false]
      have hlt : s < r := by omega
      have hall : ∀ e ∈ (s, y) :: t, e.1 < r := by
        intro e he
        rcases List.mem_cons.mp he with rfl | he'
        · exact hlt
        · exact Nat.lt_of_le_of_lt (hd.tail.le_head e he') hlt
      have hz : coeff p ((s, y) :: t) r = 0 := coeff_zero_of_gt p (a := s) (fun e he => by
        rcases List.mem_cons.mp he with rfl | he'
        · exact Nat.le_refl _
        · exact hd.tail.le_head e he') hlt
      refine ⟨by rw [hz, Nat.add_zero]; exact (Nat.mod_eq_of_lt hacc).symm, fun _ _ => by trivial, hz, hd.tail, hall⟩

/-- **`_pop_pivot` over Z_p returns the largest row with a non-zero represented coefficient, with that coefficient** -/
theorem popPivot_spec (p : Nat) (hp : 0 < p) : ∀ (l : List Ent), Desc l →
    (match (popPivot p l).1 with
     | none => ∀ j, coeff p l j = 0
     | some (i, c) => c = coeff p l i ∧ c ≠ 0 ∧ ∀ j, i < j → coeff p l j = 0) ∧
    (∀ j, (match (popPivot p l).1 with | none => True | some (i, _) => j < i) →
        coeff p (popPivot p l).2 j = coeff p l j) := by
  intro l
  induction l using popPivot.induct p with
  | case1 => intro _; simp [popPivot, coeff]
  | case2 r x t res hz ih =>
    -- the run of row r cancels: continue below
    intro hd
    have hd0 : Desc ((r, 0) :: t) := by
      cases t with
      | nil => trivial
      | cons b t' => exact ⟨hd.1, hd.2⟩
    obtain ⟨h1, h2, h3, h4, h5⟩ := takeRun_spec p r hp t (x % p) (Nat.mod_lt _ hp) hd0
    have hres : (takeRun p r (x % p) t) = res := rfl
    rw [hres] at h1 h2 h3 h4 h5
    have hcr : coeff p ((r, x) :: t) r = 0 := by
      simp only [coeff, if_true]
      rw [← Nat.mod_add_mod, ← h1]; exact hz
    have hother : ∀ j, j ≠ r → coeff p ((r, x) :: t) j = coeff p res.2 j := by
      intro j hj; simp only [coeff]; rw [if_neg (fun e => hj e.symm), h2 j hj]
    have hbig : ∀ j, r < j → coeff p res.2 j = 0 := fun j hj =>
      coeff_zero_of_gt p (a := r) (fun e he => Nat.le_of_lt (h5 e he)) hj
    have := ih h4
    rw [popPivot]; simp only [hres, hz, if_true]
    obtain ⟨a1, a2⟩ := this
    constructor
    · cases hpp : (popPivot p res.2).1 with
      | none =>
        rw [hpp] at a1; simp only at a1 ⊢
        intro j
        by_cases hj : j = r
        · rw [hj]; exact hcr
        · rw [hother j hj]; exact a1 j
      | some ic =>
        obtain ⟨i, c⟩ := ic
        rw [hpp] at a1; simp only at a1 ⊢
        obtain ⟨b1, b2, b3⟩ := a1
        have hir : i ≠ r := by
          intro e; rw [e, h3] at b1; exact b2 b1
        refine ⟨by rw [hother i hir]; exact b1, b2, ?_⟩
        intro j hj
        by_cases hjr : j = r
        · rw [hjr]; exact hcr
        · rw [hother j hjr]; exact b3 j hj
    · intro j hj
      cases hpp : (popPivot p res.2).1 with
      | none =>
        rw [hpp] at a2 hj
        have := a2 j trivial
        by_cases hjr : j = r
        · rw [this, hjr, h3, hcr]
        · rw [this, hother j hjr]
      | some ic =>
        obtain ⟨i, c⟩ := ic
        rw [hpp] at a2 hj
        have := a2 j hj
        by_cases hjr : j = r
        · rw [this, hjr, h3, hcr]
        · rw [this, hother j hjr]
  | case3 r x t res hnz =>
    intro hd
    have hd0 : Desc ((r, 0) :: t) := by
      cases t with
      | nil => trivial
      | cons b t' => exact ⟨hd.1, hd.2⟩
    obtain ⟨h1, h2, h3, h4, h5⟩ := takeRun_spec p r hp t (x % p) (Nat.mod_lt _ hp) hd0
    have hres : (takeRun p r (x % p) t) = res := rfl
    rw [hres] at h1 h2 h3 h4 h5
    rw [popPivot]; simp only [hres, hnz, if_false]
    have hcr : coeff p ((r, x) :: t) r = res.1 := by
      simp only [coeff, if_true]; rw [← Nat.mod_add_mod, ← h1]
    refine ⟨⟨hcr.symm, hnz, ?_⟩, ?_⟩
    · intro j hj
      exact coeff_zero_of_gt p (a := r) (fun e he => by
        rcases List.mem_cons.mp he with rfl | he'
        · exact Nat.le_refl _
        · exact hd.le_head e he') hj
    · intro j hj
      simp only [coeff]
      rw [if_neg (by omega), h2 j (by omega)]

#eval popPivot 5 [(4,2),(4,3),(3,1),(3,1),(1,4)]   -- (some (3, 2), [(1, 4)])
#print axioms takeRun_spec
#print axioms popPivot_spec
end HeapPProto
