import GudhiVerif.CubOrder
/-! # C13 — the two value impositions of the executable cubical model are lower-star assignments

`Shape.valueTop` (minimum over the top cells containing the cell) and `Shape.valueVert` (maximum over the vertices of the
cell) never give a face a larger value than the cell, in a bitmap without periodic directions whose sides have at least one
top cell.  With `order_faces_first` this makes the filtration order faces-first for both input conventions. -/
namespace CubBridge
open CubModel

/-! ### minimum / maximum of a list -/

theorem foldl_min_le_init (l : List Int) : ∀ a, l.foldl min a ≤ a := by
  induction l with
  | nil => intro a; exact Int.le_refl _
  | cons x l ih => intro a; exact Int.le_trans (ih _) (Int.min_le_left _ _)

theorem foldl_min_le_mem (l : List Int) : ∀ a x, x ∈ l → l.foldl min a ≤ x := by
  induction l with
  | nil => intro a x h; simp at h
  | cons y l ih =>
    intro a x h
    rcases List.mem_cons.mp h with rfl | h
    · exact Int.le_trans (foldl_min_le_init l _) (Int.min_le_right _ _)
    · exact ih _ x h

theorem foldl_min_mem (l : List Int) : ∀ a, l.foldl min a = a ∨ l.foldl min a ∈ l := by
  induction l with
  | nil => intro a; exact Or.inl rfl
  | cons y l ih =>
    intro a
    rcases ih (min a y) with h | h
    · rw [List.foldl_cons, h]
      rcases Int.le_total a y with hay | hay
      · exact Or.inl (Int.min_eq_left hay)
      · exact Or.inr (by rw [Int.min_eq_right hay]; simp)
    · exact Or.inr (List.mem_cons_of_mem _ h)

theorem minList_le (l : List Int) (x : Int) (h : x ∈ l) : minList l ≤ x := foldl_min_le_mem l _ x h

theorem minList_mem (l : List Int) (h : l ≠ []) : minList l ∈ l := by
  cases l with
  | nil => exact absurd rfl h
  | cons a l =>
    rcases foldl_min_mem (a :: l) a with e | e
    · simp only [minList, List.headD_cons]; rw [e]; simp
    · exact e

theorem minList_anti (A B : List Int) (hB : B ≠ []) (hsub : ∀ x ∈ B, x ∈ A) : minList A ≤ minList B :=
  minList_le A _ (hsub _ (minList_mem B hB))

theorem foldl_max_ge_init (l : List Int) : ∀ a, a ≤ l.foldl max a := by
  induction l with
  | nil => intro a; exact Int.le_refl _
  | cons x l ih => intro a; exact Int.le_trans (Int.le_max_left _ _) (ih _)

theorem foldl_max_ge_mem (l : List Int) : ∀ a x, x ∈ l → x ≤ l.foldl max a := by
  induction l with
  | nil => intro a x h; simp at h
  | cons y l ih =>
    intro a x h
    rcases List.mem_cons.mp h with rfl | h
    · exact Int.le_trans (Int.le_max_right _ _) (foldl_max_ge_init l _)
    · exact ih _ x h

theorem foldl_max_mem (l : List Int) : ∀ a, l.foldl max a = a ∨ l.foldl max a ∈ l := by
  induction l with
  | nil => intro a; exact Or.inl rfl
  | cons y l ih =>
    intro a
    rcases ih (max a y) with h | h
    · rw [List.foldl_cons, h]
      rcases Int.le_total a y with hay | hay
      · exact Or.inr (by rw [Int.max_eq_right hay]; simp)
      · exact Or.inl (Int.max_eq_left hay)
    · exact Or.inr (List.mem_cons_of_mem _ h)

theorem le_maxList (l : List Int) (x : Int) (h : x ∈ l) : x ≤ maxList l := foldl_max_ge_mem l _ x h

theorem maxList_mem (l : List Int) (h : l ≠ []) : maxList l ∈ l := by
  cases l with
  | nil => exact absurd rfl h
  | cons a l =>
    rcases foldl_max_mem (a :: l) a with e | e
    · simp only [maxList, List.headD_cons]; rw [e]; simp
    · exact e

theorem maxList_mono (A B : List Int) (hA : A ≠ []) (hsub : ∀ x ∈ A, x ∈ B) : maxList A ≤ maxList B :=
  le_maxList B _ (hsub _ (maxList_mem A hA))

/-! ### products of digit lists -/

theorem cartesian_sub : ∀ (ls ls' : List (List Nat)), List.Forall₂ (fun a b => ∀ x ∈ a, x ∈ b) ls ls' →
    ∀ c ∈ cartesian ls, c ∈ cartesian ls' := by
  intro ls ls' h
  induction h with
  | nil => intro c hc; exact hc
  | cons hab _ ih =>
    intro c hc
    simp only [cartesian, List.mem_flatMap, List.mem_map] at hc ⊢
    obtain ⟨rest, hrest, x, hx, rfl⟩ := hc
    exact ⟨rest, ih rest hrest, x, hab x hx, rfl⟩

theorem cartesian_ne_nil : ∀ (ls : List (List Nat)), (∀ l ∈ ls, l ≠ []) → cartesian ls ≠ [] := by
  intro ls
  induction ls with
  | nil => intro _; simp [cartesian]
  | cons l ls ih =>
    intro h
    have hl : l ≠ [] := h l (by simp)
    have hls := ih (fun l' hl' => h l' (List.mem_cons_of_mem _ hl'))
    obtain ⟨x, hx⟩ := List.exists_mem_of_ne_nil l hl
    obtain ⟨r, hr⟩ := List.exists_mem_of_ne_nil _ hls
    intro e
    have : x :: r ∈ cartesian (l :: ls) := by
      simp only [cartesian, List.mem_flatMap, List.mem_map]
      exact ⟨r, hr, x, hx, rfl⟩
    rw [e] at this; simp at this

theorem forall₂_map_range (n : Nat) (F G : Nat → List Nat) (h : ∀ j, j < n → ∀ x ∈ F j, x ∈ G j) :
    List.Forall₂ (fun a b => ∀ x ∈ a, x ∈ b) ((List.range n).map F) ((List.range n).map G) := by
  rw [List.forall₂_map_left_iff, List.forall₂_map_right_iff]
  apply List.forall₂_same.mpr
  intro j hj
  exact h j (List.mem_range.mp hj)

/-! ### digits of a face -/

/-- a face differs from the cell in exactly one digit: an odd digit moved one step down or up -/
theorem face_digits (sh : Shape) (hper : ∀ i, sh.isPer i = false) (pos f : Nat) (hpos : pos < sh.total)
    (hf : f ∈ sh.boundary false pos) :
    ∃ i, i < sh.dims ∧ sh.digit pos i % 2 = 1 ∧ sh.digit pos i + 1 < sh.radix i ∧
      (sh.digit f i = sh.digit pos i - 1 ∨ sh.digit f i = sh.digit pos i + 1) ∧
      ∀ j, j < sh.dims → j ≠ i → sh.digit f j = sh.digit pos j := by
  have hr : ∀ i, i < sh.dims → 0 < sh.radix i := fun i _ => by rw [radix_plain sh hper]; omega
  rw [mem_boundary sh hper] at hf
  obtain ⟨i, hi, hodd, hcase⟩ := hf
  have hd : sh.digit pos i < sh.radix i := Nat.mod_lt _ (hr i hi)
  have hd1 : sh.digit pos i + 1 < sh.radix i := by rw [radix_plain sh hper] at hd ⊢; omega
  refine ⟨i, hi, hodd, hd1, ?_⟩
  rcases hcase with rfl | rfl
  · obtain ⟨y, hy, _, hdig⟩ := digit_change sh hr pos hpos i hi (sh.digit pos i - 1) (by omega)
    obtain ⟨d', hd'⟩ : ∃ d', sh.digit pos i = d' + 1 := ⟨sh.digit pos i - 1, by omega⟩
    have hy' : y = pos - sh.mult i := by
      rw [hd'] at hy; simp only [Nat.add_sub_cancel, Nat.add_mul, Nat.one_mul] at hy; omega
    rw [← hy']
    refine ⟨Or.inl (by simpa [upd] using hdig i hi), ?_⟩
    intro j hj hne
    simpa [upd, hne] using hdig j hj
  · obtain ⟨y, hy, _, hdig⟩ := digit_change sh hr pos hpos i hi (sh.digit pos i + 1) hd1
    have hy' : y = pos + sh.mult i := by
      simp only [Nat.add_mul, Nat.one_mul] at hy; omega
    rw [← hy']
    refine ⟨Or.inr (by simpa [upd] using hdig i hi), ?_⟩
    intro j hj hne
    simpa [upd, hne] using hdig j hj

/-! ### the two impositions are lower-star -/

/-- **minimum over the top cells**: a face never has a larger value than the cell -/
theorem valueTop_mono (sh : Shape) (hper : ∀ i, sh.isPer i = false) (hsz : ∀ i, i < sh.dims → 0 < sh.size i)
    (vals : List Int) (pos f : Nat) (hpos : pos < sh.total) (hf : f ∈ sh.boundary false pos) :
    sh.valueTop vals f ≤ sh.valueTop vals pos := by
  obtain ⟨i, hi, hodd, hd1, hfi, hfj⟩ := face_digits sh hper pos f hpos hf
  have hsub : ∀ j, j < sh.dims → ∀ x ∈ sh.topDigits pos j, x ∈ sh.topDigits f j := by
    intro j hj x hx
    by_cases e : j = i
    · subst e
      simp only [Shape.topDigits, hodd, if_true, List.mem_singleton] at hx
      subst hx
      rcases hfi with h | h
      · have he : sh.digit f j % 2 ≠ 1 := by omega
        have h1 : sh.digit f j + 1 < sh.radix j := by omega
        simp only [Shape.topDigits, hper, he, if_false, h1, if_true, Bool.false_eq_true]
        simp; omega
      · have he : sh.digit f j % 2 ≠ 1 := by omega
        have h0 : sh.digit f j ≠ 0 := by omega
        simp only [Shape.topDigits, hper, he, if_false, h0, Bool.false_eq_true]
        simp; omega
    · simpa [Shape.topDigits, hfj j hj e] using hx
  have hne : ∀ l ∈ (List.range sh.dims).map (sh.topDigits pos), l ≠ [] := by
    intro l hl
    simp only [List.mem_map, List.mem_range] at hl
    obtain ⟨j, hj, rfl⟩ := hl
    have hs := hsz j hj
    have hrad := radix_plain sh hper j
    by_cases ho : sh.digit pos j % 2 = 1
    · simp [Shape.topDigits, ho]
    · by_cases h0 : sh.digit pos j = 0
      · have : sh.digit pos j + 1 < sh.radix j := by omega
        simp [Shape.topDigits, hper, h0]
        omega
      · simp [Shape.topDigits, ho, hper, h0]
  simp only [Shape.valueTop]
  apply minList_anti
  · intro e
    exact cartesian_ne_nil _ hne (List.map_eq_nil_iff.mp e)
  · intro x hx
    simp only [List.mem_map] at hx ⊢
    obtain ⟨c, hc, rfl⟩ := hx
    exact ⟨c, cartesian_sub _ _ (forall₂_map_range _ _ _ hsub) c hc, rfl⟩

/-- **maximum over the vertices**: a face never has a larger value than the cell -/
theorem valueVert_mono (sh : Shape) (hper : ∀ i, sh.isPer i = false)
    (vals : List Int) (pos f : Nat) (hpos : pos < sh.total) (hf : f ∈ sh.boundary false pos) :
    sh.valueVert vals f ≤ sh.valueVert vals pos := by
  obtain ⟨i, hi, hodd, hd1, hfi, hfj⟩ := face_digits sh hper pos f hpos hf
  have hsub : ∀ j, j < sh.dims → ∀ x ∈ sh.vertDigits f j, x ∈ sh.vertDigits pos j := by
    intro j hj x hx
    by_cases e : j = i
    · subst e
      have hne1 : ¬ sh.digit pos j % 2 = 0 := by omega
      have hne2 : ¬ sh.digit pos j + 1 = sh.radix j := by omega
      rcases hfi with h | h
      · have he : sh.digit f j % 2 = 0 := by omega
        simp only [Shape.vertDigits, he, if_true, List.mem_singleton] at hx
        subst hx
        simp [Shape.vertDigits, hne1, h]
      · have he : sh.digit f j % 2 = 0 := by omega
        simp only [Shape.vertDigits, he, if_true, List.mem_singleton] at hx
        subst hx
        simp [Shape.vertDigits, hne1, hne2, h]
    · simpa [Shape.vertDigits, hfj j hj e] using hx
  have hne : ∀ l ∈ (List.range sh.dims).map (sh.vertDigits f), l ≠ [] := by
    intro l hl
    simp only [List.mem_map, List.mem_range] at hl
    obtain ⟨j, hj, rfl⟩ := hl
    by_cases ho : sh.digit f j % 2 = 0 <;> simp [Shape.vertDigits, ho]
  simp only [Shape.valueVert]
  apply maxList_mono
  · intro e
    exact cartesian_ne_nil _ hne (List.map_eq_nil_iff.mp e)
  · intro x hx
    simp only [List.mem_map] at hx ⊢
    obtain ⟨c, hc, rfl⟩ := hx
    exact ⟨c, cartesian_sub _ _ (forall₂_map_range _ _ _ hsub) c hc, rfl⟩

/-- **faces first, top-cell input** -/
theorem order_faces_first_top (sh : Shape) (hper : ∀ i, sh.isPer i = false) (hsz : ∀ i, i < sh.dims → 0 < sh.size i)
    (vals : List Int) (i j : Nat) (hi : i < (sh.order (sh.valueTop vals)).length) (hj : j < (sh.order (sh.valueTop vals)).length)
    (hb : (sh.order (sh.valueTop vals))[j] ∈ sh.boundary false (sh.order (sh.valueTop vals))[i]) : j < i :=
  order_faces_first sh hper _ (fun pos f hpos hf => valueTop_mono sh hper hsz vals pos f hpos hf) i j hi hj hb

/-- **faces first, vertex input** -/
theorem order_faces_first_vert (sh : Shape) (hper : ∀ i, sh.isPer i = false)
    (vals : List Int) (i j : Nat) (hi : i < (sh.order (sh.valueVert vals)).length) (hj : j < (sh.order (sh.valueVert vals)).length)
    (hb : (sh.order (sh.valueVert vals))[j] ∈ sh.boundary false (sh.order (sh.valueVert vals))[i]) : j < i :=
  order_faces_first sh hper _ (fun pos f hpos hf => valueVert_mono sh hper vals pos f hpos hf) i j hi hj hb

end CubBridge
