/-! Prototype (C18): the contribution of one grid-aligned interval `[B, E]` (in grid units) to the values stored by
    `Persistence_landscape_on_grid::set_up_values_of_landscapes`, as a summary of its two loops (ascending from `B+1` to
    `mid-1` with the running value starting at `dx`, descending from `mid` to `E` while the running value is positive).
    For `B+E` even and `E ≥ B+2` it is the tent `min(i−B, E−i)` at every interior grid point; for `B+E` odd it is one step
    too low after the midpoint (D25).  Core Lean only. -/
namespace GridProto

/-- value (in units of dx) pushed at grid point `i` for the interval `[B, E]`, `none` = nothing pushed -/
def pushed (B E i : Nat) : Option Nat :=
  let mid := (B + E) / 2
  let after := 1 + (mid - (B + 1))          -- running value when the ascending loop ends
  if B + 1 ≤ i ∧ i < mid then some (i - B)
  else if mid ≤ i ∧ i ≤ E then (if after > i - mid then some (after - (i - mid)) else none)
  else none

/-- the tent of the interval at grid point `i` -/
def tent (B E i : Nat) : Nat := if i ≤ B ∨ E ≤ i then 0 else min (i - B) (E - i)

/-- **even sum: exactly the tent** (zero values are not stored) -/
theorem pushed_even (B E i : Nat) (hE : B + 2 ≤ E) (heven : (B + E) % 2 = 0) :
    pushed B E i = if tent B E i = 0 then none else some (tent B E i) := by
  unfold pushed tent
  simp only
  have hmid : (B + E) / 2 * 2 = B + E := by omega
  generalize hm : (B + E) / 2 = mid at *
  by_cases h1 : B + 1 ≤ i ∧ i < mid
  · rw [if_pos h1]
    have : ¬ (i ≤ B ∨ E ≤ i) := by omega
    rw [if_neg this]
    have hmin : min (i - B) (E - i) = i - B := by omega
    rw [hmin, if_neg (by omega)]
  · rw [if_neg h1]
    by_cases h2 : mid ≤ i ∧ i ≤ E
    · rw [if_pos h2]
      by_cases h3 : i = E
      · subst h3
        have : ¬ (1 + (mid - (B + 1)) > i - mid) := by omega
        rw [if_neg this, if_pos (Or.inr (Nat.le_refl _))]; rfl
      · have hlt : 1 + (mid - (B + 1)) > i - mid := by omega
        rw [if_pos hlt]
        have : ¬ (i ≤ B ∨ E ≤ i) := by omega
        rw [if_neg this]
        have hmin : min (i - B) (E - i) = E - i := by omega
        rw [hmin, if_neg (by omega)]
        congr 1; omega
    · rw [if_neg h2]
      have : i ≤ B ∨ E ≤ i := by omega
      rw [if_pos this]; rfl

/-- D25 on its witnesses: the interval (0,3) loses its value at grid point 2, the interval (1,6) is one step too low at 4 and 5 -/
theorem d25_witness :
    pushed 0 3 2 = none ∧ tent 0 3 2 = 1 ∧ pushed 1 6 4 = some 1 ∧ tent 1 6 4 = 2 ∧ pushed 1 6 5 = none ∧ tent 1 6 5 = 1 := by
  decide

/-- and an interval of one grid step gets the value `dx` at its birth point -/
theorem d25_witness_short : pushed 0 1 0 = some 1 ∧ tent 0 1 0 = 0 := by decide

#print axioms pushed_even
#print axioms d25_witness
end GridProto
