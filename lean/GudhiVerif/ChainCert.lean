import GudhiVerif.Pairing

/-! Prototype: the chain-matrix invariants give a certificate.  `C` = compatible basis, column `j` has leading cell `j`
    (upper triangular, non-zero diagonal); every column is either sent to zero by the boundary, or (paired, in H)
    sent onto the column of its partner `g j`, and partners are distinct.  Then `R := D·C` is reduced, so by
    `cert_unique` the chain pairing `(g j, j)` is the pairing of `D`. -/
open Matrix

variable {n : ℕ} {F : Type*} [Field F]

theorem isLow_of_upper_col {C : Matrix (Fin n) (Fin n) F} (hU : C.BlockTriangular id) (hd : ∀ i, C i i ≠ 0)
    (g : Fin n) : IsLow (colv C g) g :=
  ⟨hd g, fun k hk => hU hk⟩

theorem chain_cert (D C : Matrix (Fin n) (Fin n) F)
    (hU : C.BlockTriangular id) (hd : ∀ i, C i i ≠ 0)
    (partner : Fin n → Option (Fin n))
    (hcyc : ∀ j, partner j = none → colv (D * C) j = 0)
    (hpair : ∀ j g, partner j = some g → colv (D * C) j = colv C g)
    (hinj : ∀ j k g, partner j = some g → partner k = some g → j = k) :
    Cert D (D * C) C ∧ ∀ j g, partner j = some g → IsLow (colv (D * C) j) g := by
  have hlow : ∀ j g, partner j = some g → IsLow (colv (D * C) j) g := by
    intro j g hj
    rw [hpair j g hj]
    exact isLow_of_upper_col hU hd g
  refine ⟨⟨rfl, hU, hd, ?_⟩, hlow⟩
  intro j k i hj hk
  -- a column with a low is non-zero, hence paired
  have nz : ∀ m, IsLow (colv (D * C) m) i → ∃ g, partner m = some g := by
    intro m hm
    cases hp : partner m with
    | none => exfalso; have := hcyc m hp; rw [this] at hm; exact hm.1 rfl
    | some g => exact ⟨g, rfl⟩
  obtain ⟨gj, hgj⟩ := nz j hj
  obtain ⟨gk, hgk⟩ := nz k hk
  have e1 : gj = i := IsLow.unique (hlow j gj hgj) hj
  have e2 : gk = i := IsLow.unique (hlow k gk hgk) hk
  rw [e1] at hgj
  rw [e2] at hgk
  exact hinj j k i hgj hgk

#print axioms chain_cert
