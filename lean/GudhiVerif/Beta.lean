/-! Prototype: rank invariant β of H0 of sublevel sets of a sequence, as a left fold, and the surgery lemmas
    R1 (monotone middle) and R2 (innermost pair) in arbitrary context. Core Lean only. -/
namespace BetaProto

structure St where
  inRun : Bool
  hasLow : Bool
  cnt : Nat
deriving DecidableEq, Repr

def stepβ (s t : Int) (σ : St) (x : Int) : St :=
  if x ≤ t then
    if σ.inRun then { σ with hasLow := σ.hasLow || decide (x ≤ s) }
    else { inRun := true, hasLow := decide (x ≤ s), cnt := σ.cnt }
  else
    if σ.inRun then { inRun := false, hasLow := false, cnt := σ.cnt + (if σ.hasLow then 1 else 0) }
    else σ

def finish (σ : St) : Nat := σ.cnt + (if σ.inRun && σ.hasLow then 1 else 0)

def β (xs : List Int) (s t : Int) : Nat :=
  finish (xs.foldl (stepβ s t) ⟨false, false, 0⟩)

theorem step_le {s t x : Int} (h : x ≤ t) (σ : St) :
    stepβ s t σ x = if σ.inRun then { σ with hasLow := σ.hasLow || decide (x ≤ s) }
                    else { inRun := true, hasLow := decide (x ≤ s), cnt := σ.cnt } := by
  simp [stepβ, h]

theorem step_gt {s t x : Int} (h : t < x) (σ : St) :
    stepβ s t σ x = if σ.inRun then { inRun := false, hasLow := false, cnt := σ.cnt + (if σ.hasLow then 1 else 0) }
                    else σ := by
  have : ¬ x ≤ t := by omega
  simp [stepβ, this]

/-- R1: a monotone middle element is irrelevant, from every incoming fold state -/
theorem R1_up (s t a b c : Int) (hst : s ≤ t) (hab : a ≤ b) (hbc : b ≤ c) (σ : St) :
    [a, b, c].foldl (stepβ s t) σ = [a, c].foldl (stepβ s t) σ := by
  obtain ⟨r, l, n⟩ := σ
  simp only [List.foldl]
  by_cases hc : c ≤ t
  · have hb : b ≤ t := by omega
    have ha : a ≤ t := by omega
    rw [step_le ha, step_le hb, step_le hc, step_le hc]
    by_cases h4 : a ≤ s <;> by_cases h5 : b ≤ s <;> by_cases h6 : c ≤ s <;> cases r <;> simp [h4, h5, h6] <;> omega
  · have hc' : t < c := by omega
    by_cases hb : b ≤ t
    · have ha : a ≤ t := by omega
      rw [step_le ha, step_le hb, step_gt hc', step_gt hc']
      by_cases h4 : a ≤ s <;> by_cases h5 : b ≤ s <;> cases r <;> simp [h4, h5] <;> omega
    · have hb' : t < b := by omega
      by_cases ha : a ≤ t
      · rw [step_le ha, step_gt hb', step_gt hc', step_gt hc']
        cases r <;> simp
      · have ha' : t < a := by omega
        rw [step_gt ha', step_gt hb', step_gt hc', step_gt hc']
        cases r <;> simp

/-- count adjustment: adding `k` to the counter commutes with the fold -/
def bump (k : Nat) (σ : St) : St := { σ with cnt := σ.cnt + k }

theorem step_bump (s t : Int) (k : Nat) (σ : St) (x : Int) :
    stepβ s t (bump k σ) x = bump k (stepβ s t σ x) := by
  obtain ⟨r, l, n⟩ := σ
  simp only [stepβ, bump]
  by_cases h1 : x ≤ t <;> cases r <;> cases l <;> simp [h1] <;> omega

theorem foldl_bump (s t : Int) (k : Nat) (xs : List Int) (σ : St) :
    xs.foldl (stepβ s t) (bump k σ) = bump k (xs.foldl (stepβ s t) σ) := by
  induction xs generalizing σ with
  | nil => rfl
  | cons x xs ih => simp only [List.foldl]; rw [step_bump, ih]

theorem finish_bump (k : Nat) (σ : St) : finish (bump k σ) = finish σ + k := by
  simp [finish, bump]; omega

/-- R2: innermost pair `a ≤ c < b ≤ d` — processing `a b c d` equals processing `a d` plus the indicator of the bar (c,b) -/
theorem R2 (s t a b c d : Int) (hst : s ≤ t) (hac : a ≤ c) (hcb : c < b) (hbd : b ≤ d) (σ : St) :
    [a, b, c, d].foldl (stepβ s t) σ
      = bump (if c ≤ s ∧ t < b then 1 else 0) ([a, d].foldl (stepβ s t) σ) := by
  obtain ⟨r, l, n⟩ := σ
  simp only [List.foldl]
  by_cases hd : d ≤ t
  · -- everything below t
    have hb : b ≤ t := by omega
    have hc : c ≤ t := by omega
    have ha : a ≤ t := by omega
    have hnb : ¬ (c ≤ s ∧ t < b) := by omega
    rw [step_le ha, step_le hb, step_le hc, step_le hd, step_le hd, if_neg hnb]
    by_cases h4 : a ≤ s <;> by_cases h5 : b ≤ s <;> by_cases h6 : c ≤ s <;> by_cases h8 : d ≤ s <;> cases r <;> simp [bump, h4, h5, h6, h8] <;> omega
  · have hd' : t < d := by omega
    by_cases hb : b ≤ t
    · have hc : c ≤ t := by omega
      have ha : a ≤ t := by omega
      have hnb : ¬ (c ≤ s ∧ t < b) := by omega
      rw [step_le ha, step_le hb, step_le hc, step_gt hd', step_gt hd', if_neg hnb]
      by_cases h4 : a ≤ s <;> by_cases h5 : b ≤ s <;> by_cases h6 : c ≤ s <;> by_cases h8 : d ≤ s <;> cases r <;> simp [bump, h4, h5, h6, h8] <;> omega
    · have hb' : t < b := by omega
      by_cases hc : c ≤ t
      · have ha : a ≤ t := by omega
        rw [step_le ha, step_gt hb', step_le hc, step_gt hd', step_gt hd']
        by_cases h4 : a ≤ s <;> by_cases h6 : c ≤ s <;> cases r <;> cases l <;> simp [bump, h4, h6, hb'] <;> omega
      · have hc' : t < c := by omega
        have hnb : ¬ (c ≤ s ∧ t < b) := by omega
        rw [if_neg hnb]
        by_cases ha : a ≤ t
        · rw [step_le ha, step_gt hb', step_gt hc', step_gt hd', step_gt hd']
          cases r <;> simp [bump]
        · have ha' : t < a := by omega
          rw [step_gt ha', step_gt hb', step_gt hc', step_gt hd', step_gt hd']
          cases r <;> simp [bump]

/-- R2 in context: the rank invariant of `pre ++ a b c d ++ post` is that of `pre ++ a d ++ post` plus the bar (c,b) -/
theorem β_R2 (pre post : List Int) (s t a b c d : Int) (hst : s ≤ t) (hac : a ≤ c) (hcb : c < b) (hbd : b ≤ d) :
    β (pre ++ [a, b, c, d] ++ post) s t = β (pre ++ [a, d] ++ post) s t + (if c ≤ s ∧ t < b then 1 else 0) := by
  unfold β
  rw [List.foldl_append, List.foldl_append, List.foldl_append, List.foldl_append, R2 s t a b c d hst hac hcb hbd,
    foldl_bump, finish_bump]

#print axioms β_R2
end BetaProto
