/-! Prototype: `_get_value(Signed e)` of the Z_p classes with C++ conversion semantics — the as-implemented version
    (`e % characteristic` converts `e` to unsigned) is wrong below −p (witness by `decide`), the repaired one
    (`e % (Signed)characteristic`, truncated remainder) is the residue for every `e`. Core Lean only. -/
namespace GetValueProto

def W : Nat := 4294967296

/-- C++ conversion int → unsigned int -/
def toU32 (e : Int) : Nat := (e % (W : Int)).toNat

/-- as implemented: `if (e < -(int)p) e = e % p /*unsigned arithmetic*/; if (e < 0) return e + p; return e < p ? e : e % p;` -/
def getValueImpl (p : Nat) (e : Int) : Nat :=
  let e1 : Int := if e < -(p : Int) then ((toU32 e % p : Nat) : Int) else e
  if e1 < 0 then (e1 + p).toNat else if e1 < p then e1.toNat else e1.toNat % p

/-- repaired: the modulus is cast to the signed type, `%` is C++ truncated remainder (`Int.tmod`) -/
def getValueFixed (p : Nat) (e : Int) : Nat :=
  let e1 : Int := if e < -(p : Int) then Int.tmod e p else e
  if e1 < 0 then (e1 + p).toNat else if e1 < p then e1.toNat else e1.toNat % p

/-- the defect D10, on the witness found with the real code: p = 5, e = −7 gives 4, the residue is 3 -/
theorem impl_violates : getValueImpl 5 (-7) ≠ ((-7 : Int) % 5).toNat := by decide

example : getValueImpl 5 (-7) = 4 := by decide
example : getValueFixed 5 (-7) = 3 := by decide

theorem fixed_spec (p : Nat) (hp : 0 < p) (e : Int) : (getValueFixed p e : Int) = e % (p : Int) := by
  unfold getValueFixed
  have hp' : (0 : Int) < p := by exact_mod_cast hp
  have hmod_nonneg := Int.emod_nonneg e (Int.ne_of_gt hp')
  have hmod_lt := Int.emod_lt_of_pos e hp'
  simp only
  split
  · -- e < -p : truncated remainder lies in (-p, 0]
    rename_i hlt
    have hneg : ¬ (0 ≤ e) := by omega
    have h2 := @Int.tmod_eq_emod e p
    have hlo := Int.lt_tmod_of_pos e hp'
    by_cases hd : (p : Int) ∣ e
    · have h3 : Int.tmod e p = e % p := by rw [h2]; simp [hd]
      have h4 : e % (p : Int) = 0 := Int.emod_eq_zero_of_dvd hd
      rw [h3, h4]
      simp [hp']
    · have h3 : Int.tmod e p = e % p - p := by
        rw [h2]; simp [hneg, hd]
      rw [h3]
      have : e % (p : Int) ≠ 0 := fun h => hd (Int.dvd_of_emod_eq_zero h)
      have hlt0 : e % (p : Int) - p < 0 := by omega
      simp only [hlt0, if_true]
      rw [Int.toNat_of_nonneg (by omega)]
      omega
  · rename_i hge
    split
    · rename_i hneg
      -- -p ≤ e < 0
      rw [Int.toNat_of_nonneg (by omega)]
      have : e % (p : Int) = e + p := by
        have h1 : (e + p) % (p : Int) = e % p := Int.add_emod_right e p
        rw [← h1]
        exact Int.emod_eq_of_lt (by omega) (by omega)
      omega
    · rename_i hnn
      split
      · rename_i hlt
        rw [Int.toNat_of_nonneg (by omega)]
        exact (Int.emod_eq_of_lt (by omega) hlt).symm
      · rename_i hge2
        have h0 : 0 ≤ e := by omega
        rw [Int.natCast_emod, Int.toNat_of_nonneg h0]

#print axioms fixed_spec
end GetValueProto
