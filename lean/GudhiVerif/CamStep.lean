import GudhiVerif.Pairing

/-! Prototype: the step lemma that closes the gap of C02.  If the live rows of the annotation matrix are cocycles of
    the complex built so far, each supported on cells not older than its own creator and non-zero there, and the live
    set agrees with the reference reduction up to time `j`, then the decision taken by persistent cohomology at cell
    `j` (creator iff the boundary annotation vanishes; otherwise kill the youngest live class with a non-zero
    coefficient) is the decision of the reference reduction: `R_j = 0`, resp. `low R_j`. -/
open Matrix Finset

variable {n : ℕ} {F : Type*} [Field F]

/-- boundary matrices are strictly upper triangular in filtration order -/
def StrictUpper (D : Matrix (Fin n) (Fin n) F) : Prop := ∀ i j, j ≤ i → D i j = 0

theorem cert_R_support {D R V : Matrix (Fin n) (Fin n) F} (h : Cert D R V) (hD : StrictUpper D)
    {i j : Fin n} (hij : j ≤ i) : R i j = 0 := by
  rw [h.factor, Matrix.mul_apply]
  apply Finset.sum_eq_zero
  intro m _
  by_cases hm : m ≤ i
  · simp [hD i m hm]
  · have : V m j = 0 := h.upper (lt_of_le_of_lt hij (not_le.mp hm))
    simp [this]

/-- evaluating a cochain that is a cocycle of the complex before `j` on the reduced column `j` -/
theorem eval_reduced_col {D R V : Matrix (Fin n) (Fin n) F} (h : Cert D R V) (z : Fin n → F) (j : Fin n)
    (hz : ∀ m, m < j → ∑ i, z i * D i m = 0) :
    ∑ i, z i * R i j = (∑ i, z i * D i j) * V j j := by
  have : ∑ i, z i * R i j = ∑ m, (∑ i, z i * D i m) * V m j := by
    rw [h.factor]
    simp only [Matrix.mul_apply, Finset.mul_sum, Finset.sum_mul]
    rw [Finset.sum_comm]
    apply Finset.sum_congr rfl; intro m _
    apply Finset.sum_congr rfl; intro i _
    ring
  rw [this]
  apply Finset.sum_eq_single j
  · intro m _ hm
    rcases lt_or_gt_of_ne hm with hlt | hgt
    · simp [hz m hlt]
    · have : V m j = 0 := h.upper hgt
      simp [this]
  · intro hj; exact absurd (Finset.mem_univ j) hj

/-- the lowest cell of a reduced column is a positive cell (its own reduced column is zero); uses `∂∂ = 0` -/
theorem low_is_positive {D R V : Matrix (Fin n) (Fin n) F} (h : Cert D R V) (hDD : D * D = 0)
    {j i : Fin n} (hl : IsLow (colv R j) i) : colv R i = 0 := by
  classical
  have hr : R i j ≠ 0 := hl.1
  -- replace column i of V by the cycle R_j / R_ij and column i of R by zero: still a certificate
  let V' : Matrix (Fin n) (Fin n) F := fun a b => if b = i then R a j / R i j else V a b
  let R' : Matrix (Fin n) (Fin n) F := fun a b => if b = i then 0 else R a b
  have hDR : ∀ a, ∑ m, D a m * R m j = 0 := by
    intro a
    have : (D * R) a j = 0 := by
      rw [h.factor, ← Matrix.mul_assoc, hDD, Matrix.zero_mul]; rfl
    simpa [Matrix.mul_apply] using this
  have hc : Cert D R' V' := by
    refine ⟨?_, ?_, ?_, ?_⟩
    · ext a b
      rw [Matrix.mul_apply]
      by_cases hb : b = i
      · have e1 : R' a b = 0 := by simp only [R', hb, if_true]
        have e2 : ∀ m, V' m b = R m j / R i j := by intro m; simp only [V', hb, if_true]
        rw [e1]; simp only [e2]
        have : ∑ m, D a m * (R m j / R i j) = (∑ m, D a m * R m j) / R i j := by
          rw [Finset.sum_div]; apply Finset.sum_congr rfl; intro m _; ring
        rw [this, hDR a, zero_div]
      · have e1 : R' a b = R a b := by simp only [R', hb, if_false]
        have e2 : ∀ m, V' m b = V m b := by intro m; simp only [V', hb, if_false]
        rw [e1]; simp only [e2]
        rw [h.factor, Matrix.mul_apply]
    · intro a b hab
      simp only [V']
      by_cases hb : b = i
      · simp only [hb, if_true]
        have : R a j = 0 := hl.2 a (by simpa [hb] using hab)
        simp [this]
      · simp only [hb, if_false]; exact h.upper hab
    · intro a
      simp only [V']
      by_cases ha : a = i
      · simp only [ha, if_true]; exact div_ne_zero hr hr
      · simp only [ha, if_false]; exact h.diag a
    · intro j1 j2 x h1 h2
      have hj1 : j1 ≠ i := by
        intro he; apply h1.1; simp [colv, R', he]
      have hj2 : j2 ≠ i := by
        intro he; apply h2.1; simp [colv, R', he]
      have e1 : colv R' j1 = colv R j1 := by funext a; simp [colv, R', hj1]
      have e2 : colv R' j2 = colv R j2 := by funext a; simp [colv, R', hj2]
      rw [e1] at h1; rw [e2] at h2
      exact h.reduced j1 j2 x h1 h2
  by_contra hne
  obtain ⟨x, hx⟩ := exists_isLow hne
  have := (cert_unique h hc i x).mp hx
  apply this.1
  simp [colv, R']

/-- **the cohomology step agrees with the reference reduction** -/
theorem cam_step {D R V : Matrix (Fin n) (Fin n) F} (h : Cert D R V) (hD : StrictUpper D) (hDD : D * D = 0)
    (j : Fin n) (live : Fin n → Prop) (z : Fin n → Fin n → F)
    -- (I1) live rows are cocycles of the complex before j, supported on cells ≥ their creator, non-zero there
    (hsupp : ∀ k, live k → ∀ m, m < k → z k m = 0)
    (hone : ∀ k, live k → z k k ≠ 0)
    (hcoc : ∀ k, live k → ∀ m, m < j → ∑ i, z k i * D i m = 0)
    -- the live set agrees with the reference so far
    (hlive : ∀ k, live k ↔ (k < j ∧ colv R k = 0 ∧ ∀ m, m < j → ¬ IsLow (colv R m) k)) :
    let a : Fin n → F := fun k => ∑ i, z k i * D i j
    (colv R j = 0 → ∀ k, live k → a k = 0) ∧
    (∀ i, IsLow (colv R j) i → live i ∧ a i ≠ 0 ∧ ∀ k, live k → i < k → a k = 0) := by
  intro a
  have hev : ∀ k, live k → ∑ i, z k i * R i j = a k * V j j := fun k hk => eval_reduced_col h (z k) j (hcoc k hk)
  constructor
  · intro hz k hk
    have h0 : ∑ i, z k i * R i j = 0 := by
      apply Finset.sum_eq_zero; intro i _
      have : R i j = 0 := congrFun hz i
      simp [this]
    rw [hev k hk] at h0
    exact (mul_eq_zero.mp h0).resolve_right (h.diag j)
  · intro i hi
    have hij : i < j := by
      by_contra hc
      exact hi.1 (cert_R_support h hD (not_lt.mp hc))
    have hli : live i := (hlive i).mpr ⟨hij, low_is_positive h hDD hi, fun m hm hlow =>
      absurd (h.reduced m j i hlow hi) (ne_of_lt hm)⟩
    refine ⟨hli, ?_, ?_⟩
    · have : ∑ m, z i m * R m j = z i i * R i j := by
        apply Finset.sum_eq_single i
        · intro m _ hm
          rcases lt_or_gt_of_ne hm with hlt | hgt
          · simp [hsupp i hli m hlt]
          · have : R m j = 0 := hi.2 m hgt
            simp [this]
        · intro hh; exact absurd (Finset.mem_univ i) hh
      rw [hev i hli] at this
      intro ha
      rw [ha, zero_mul] at this
      exact (mul_ne_zero (hone i hli) hi.1) this.symm
    · intro k hk hik
      have h0 : ∑ m, z k m * R m j = 0 := by
        apply Finset.sum_eq_zero; intro m _
        by_cases hm : m < k
        · simp [hsupp k hk m hm]
        · have : R m j = 0 := hi.2 m (lt_of_lt_of_le hik (not_lt.mp hm))
          simp [this]
      rw [hev k hk] at h0
      exact (mul_eq_zero.mp h0).resolve_right (h.diag j)

#print axioms low_is_positive
#print axioms cam_step
