/-! Prototype: Z2 sparse column (strictly increasing list) addition = symmetric difference. Core only. -/
namespace ColProto

/-- `_generic_add_to_column` for Z2 on ordered columns: merge, deleting equal entries -/
def xorMerge : List Nat → List Nat → List Nat
  | [], ys => ys
  | xs, [] => xs
  | x :: xs, y :: ys =>
    if x < y then x :: xorMerge xs (y :: ys)
    else if y < x then y :: xorMerge (x :: xs) ys
    else xorMerge xs ys
termination_by xs ys => xs.length + ys.length
decreasing_by all_goals simp_wf <;> omega

def StrictSorted : List Nat → Prop
  | [] => True
  | [_] => True
  | x :: y :: r => x < y ∧ StrictSorted (y :: r)

theorem StrictSorted.tail {x : Nat} {l : List Nat} (h : StrictSorted (x :: l)) : StrictSorted l := by
  cases l with
  | nil => trivial
  | cons y r => exact h.2

theorem StrictSorted.head_lt {x : Nat} {l : List Nat} (h : StrictSorted (x :: l)) : ∀ z ∈ l, x < z := by
  induction l generalizing x with
  | nil => intro z hz; cases hz
  | cons y r ih =>
    intro z hz
    cases hz with
    | head => exact h.1
    | tail _ hz' => exact Nat.lt_trans h.1 (ih h.2 z hz')

/-- dense view: entry `i` of the column -/
def entry (l : List Nat) (i : Nat) : Bool := l.contains i

theorem mem_xorMerge (xs ys : List Nat) (hx : StrictSorted xs) (hy : StrictSorted ys) (i : Nat) :
    i ∈ xorMerge xs ys ↔ (i ∈ xs ∧ i ∉ ys) ∨ (i ∉ xs ∧ i ∈ ys) := by
  induction xs, ys using xorMerge.induct with
  | case1 ys => simp [xorMerge]
  | case2 xs hne => simp [xorMerge]
  | case3 x xs y ys hlt ih =>
    rw [xorMerge]; simp only [hlt, if_true, List.mem_cons]
    rw [ih hx.tail hy]
    have h1 := hx.head_lt
    have h2 := hy.head_lt
    constructor
    · rintro (rfl | h)
      · left; refine ⟨Or.inl rfl, ?_⟩
        rintro (rfl | h); exact absurd hlt (Nat.lt_irrefl _); exact absurd (Nat.lt_trans hlt (h2 _ h)) (Nat.lt_irrefl _)
      · rcases h with ⟨ha, hb⟩ | ⟨ha, hb⟩
        · left; exact ⟨Or.inr ha, by simpa using hb⟩
        · right; refine ⟨?_, by simpa using hb⟩
          rintro (rfl | h)
          · rcases (by simpa using hb : i = y ∨ i ∈ ys) with rfl | h'
            exact absurd hlt (Nat.lt_irrefl _); exact absurd (Nat.lt_trans hlt (h2 _ h')) (Nat.lt_irrefl _)
          · exact ha h
    · rintro (⟨ha, hb⟩ | ⟨ha, hb⟩)
      · rcases ha with rfl | ha
        · left; rfl
        · right; left; exact ⟨ha, by simpa using hb⟩
      · right; right; exact ⟨fun h => ha (Or.inr h), by simpa using hb⟩
  | case4 x xs y ys hlt hgt ih =>
    rw [xorMerge]; simp only [hlt, hgt, if_false, if_true, List.mem_cons]
    rw [ih hx hy.tail]
    have h1 := hx.head_lt
    have h2 := hy.head_lt
    constructor
    · rintro (rfl | h)
      · right; refine ⟨?_, Or.inl rfl⟩
        rintro (rfl | h); exact absurd hgt (Nat.lt_irrefl _); exact absurd (Nat.lt_trans hgt (h1 _ h)) (Nat.lt_irrefl _)
      · rcases h with ⟨ha, hb⟩ | ⟨ha, hb⟩
        · left; refine ⟨by simpa using ha, ?_⟩
          rintro (rfl | h)
          · rcases (by simpa using ha : i = x ∨ i ∈ xs) with rfl | h'
            exact absurd hgt (Nat.lt_irrefl _); exact absurd (Nat.lt_trans hgt (h1 _ h')) (Nat.lt_irrefl _)
          · exact hb h
        · right; exact ⟨by simpa using ha, Or.inr hb⟩
    · rintro (⟨ha, hb⟩ | ⟨ha, hb⟩)
      · right; left; exact ⟨by simpa using ha, fun h => hb (Or.inr h)⟩
      · rcases hb with rfl | hb
        · left; rfl
        · right; right; exact ⟨by simpa using ha, hb⟩
  | case5 x xs y ys hlt hgt ih =>
    have hxy : x = y := by omega
    subst hxy
    rw [xorMerge]; simp only [Nat.lt_irrefl, if_false, List.mem_cons]
    rw [ih hx.tail hy.tail]
    have h1 := hx.head_lt
    have h2 := hy.head_lt
    constructor
    · rintro (⟨ha, hb⟩ | ⟨ha, hb⟩)
      · left; refine ⟨Or.inr ha, ?_⟩
        rintro (rfl | h); exact absurd (h1 _ ha) (Nat.lt_irrefl _); exact hb h
      · right; refine ⟨?_, Or.inr hb⟩
        rintro (rfl | h); exact absurd (h2 _ hb) (Nat.lt_irrefl _); exact ha h
    · rintro (⟨ha, hb⟩ | ⟨ha, hb⟩)
      · rcases ha with rfl | ha
        · exact absurd (Or.inl rfl) hb
        · left; exact ⟨ha, fun h => hb (Or.inr h)⟩
      · rcases hb with rfl | hb
        · exact absurd (Or.inl rfl) ha
        · right; exact ⟨fun h => ha (Or.inr h), hb⟩

#print axioms mem_xorMerge
end ColProto
