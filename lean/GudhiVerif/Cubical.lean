import Mathlib.Tactic.Ring
import GudhiVerif.Model.CubicalDefs
import Mathlib.Tactic.Linarith
/-! Prototype (C13): cubical boundary on counter vectors (highest direction first, as the C++ loop runs), with the sign
    carried by the position in the enumeration, and `∂∂ = 0`. Definitions are core-only; proofs use `ring`. -/
namespace CubicalProto

theorem coef_nil (g : Cell) : coef [] g = 0 := rfl
theorem coef_cons (p : Cell × Int) (ch : Chain) (g : Cell) :
    coef (p :: ch) g = (if p.1 = g then p.2 else 0) + coef ch g := by simp [coef]
theorem coef_append (a b : Chain) (g : Cell) : coef (a ++ b) g = coef a g + coef b g := by
  simp [coef, List.sum_append]

/-- prefixing every cell of a chain by `x` and multiplying by `ε` -/
def pre (x : Nat) (ε : Int) (ch : Chain) : Chain := ch.map fun p => (x :: p.1, ε * p.2)

theorem coef_pre_cons (x : Nat) (ε : Int) (ch : Chain) (y : Nat) (g : Cell) :
    coef (pre x ε ch) (y :: g) = if x = y then ε * coef ch g else 0 := by
  induction ch with
  | nil => simp [pre, coef]
  | cons p ch ih =>
    have : pre x ε (p :: ch) = (x :: p.1, ε * p.2) :: pre x ε ch := rfl
    rw [this, coef_cons, ih, coef_cons]
    by_cases hxy : x = y
    · subst hxy
      by_cases hp : p.1 = g
      · simp [hp, Int.mul_add]
      · simp [hp, Int.mul_add]
    · simp [hxy]

theorem coef_pre_nil (x : Nat) (ε : Int) (ch : Chain) : coef (pre x ε ch) [] = 0 := by
  induction ch with
  | nil => rfl
  | cons p ch ih =>
    have : pre x ε (p :: ch) = (x :: p.1, ε * p.2) :: pre x ε ch := rfl
    rw [this, coef_cons, ih]; simp

/-- the boundary operator extended linearly to chains -/
def bdChain (ch : Chain) : Chain := ch.flatMap fun p => (bd p.1).map fun q => (q.1, p.2 * q.2)

theorem bdChain_nil : bdChain [] = [] := rfl
theorem bdChain_cons (p : Cell × Int) (ch : Chain) :
    bdChain (p :: ch) = ((bd p.1).map fun q => (q.1, p.2 * q.2)) ++ bdChain ch := by simp [bdChain]
theorem bdChain_append (a b : Chain) : bdChain (a ++ b) = bdChain a ++ bdChain b := by simp [bdChain]

theorem bd_cons (x : Nat) (rest : Cell) :
    bd (x :: rest) = (if x % 2 = 1 then [((x - 1) :: rest, 1), ((x + 1) :: rest, -1)] else []) ++
      pre x (if x % 2 = 1 then -1 else 1) (bd rest) := by
  rw [bd]
  congr 1
  simp only [pre]
  apply List.map_congr_left
  intro p _
  by_cases h : x % 2 = 1 <;> simp [h]

#print axioms coef_pre_cons
end CubicalProto

namespace CubicalProto

theorem coef_map_scale (s : Int) (ch : Chain) (g : Cell) :
    coef (ch.map fun q => (q.1, s * q.2)) g = s * coef ch g := by
  induction ch with
  | nil => simp [coef]
  | cons p ch ih =>
    simp only [List.map_cons]
    rw [coef_cons, coef_cons, ih]
    by_cases hp : p.1 = g <;> simp [hp, Int.mul_add]

theorem coef_bdChain_cons (p : Cell × Int) (ch : Chain) (g : Cell) :
    coef (bdChain (p :: ch)) g = p.2 * coef (bd p.1) g + coef (bdChain ch) g := by
  rw [bdChain_cons, coef_append, coef_map_scale]

def δ (x : Nat) : Int := if x % 2 = 1 then -1 else 1

/-- coefficient of `y :: g` in `∂(x :: r)` -/
theorem coef_bd_cons (x : Nat) (r : Cell) (y : Nat) (g : Cell) :
    coef (bd (x :: r)) (y :: g) =
      (if x % 2 = 1 ∧ y = x - 1 ∧ r = g then 1 else 0) - (if x % 2 = 1 ∧ y = x + 1 ∧ r = g then 1 else 0)
        + (if x = y then δ x * coef (bd r) g else 0) := by
  rw [bd_cons, coef_append, coef_pre_cons]
  by_cases hx : x % 2 = 1
  · simp only [hx, if_true, true_and, δ]
    rw [coef_cons, coef_cons, coef_nil]
    have e1 : ((x - 1) :: r = y :: g) ↔ (y = x - 1 ∧ r = g) := by
      constructor
      · intro h; injection h with h1 h2; exact ⟨h1.symm, h2⟩
      · rintro ⟨rfl, rfl⟩; rfl
    have e2 : ((x + 1) :: r = y :: g) ↔ (y = x + 1 ∧ r = g) := by
      constructor
      · intro h; injection h with h1 h2; exact ⟨h1.symm, h2⟩
      · rintro ⟨rfl, rfl⟩; rfl
    simp only [e1, e2]
    by_cases h1 : y = x - 1 ∧ r = g <;> by_cases h2 : y = x + 1 ∧ r = g <;> simp [h1, h2] <;> omega
  · simp [hx, δ, coef_nil]

theorem coef_bd_nil (c : Cell) : coef (bd c) [] = 0 := by
  cases c with
  | nil => rfl
  | cons x r =>
    rw [bd_cons, coef_append, coef_pre_nil]
    by_cases hx : x % 2 = 1 <;> simp [hx, coef]

theorem coef_bdChain_nilcell (ch : Chain) : coef (bdChain ch) [] = 0 := by
  induction ch with
  | nil => rfl
  | cons p ch ih => rw [coef_bdChain_cons, ih, coef_bd_nil]; simp

def iL (x y : Nat) : Int := if x % 2 = 1 ∧ y = x - 1 then 1 else 0
def iR (x y : Nat) : Int := if x % 2 = 1 ∧ y = x + 1 then 1 else 0
def iE (x y : Nat) : Int := if x = y then 1 else 0
def eqI (r g : Cell) : Int := if r = g then 1 else 0

theorem coef_cons' (p : Cell × Int) (ch : Chain) (g : Cell) :
    coef (p :: ch) g = eqI p.1 g * p.2 + coef ch g := by
  rw [coef_cons]; unfold eqI; by_cases h : p.1 = g <;> simp [h]

theorem eqI_cons (a y : Nat) (r g : Cell) : eqI (a :: r) (y :: g) = iE a y * eqI r g := by
  unfold eqI iE
  by_cases h1 : a = y <;> by_cases h2 : r = g <;> simp [h1, h2]

theorem iL_odd {x : Nat} (hx : x % 2 = 1) (y : Nat) : iL x y = iE (x - 1) y := by
  unfold iL iE
  by_cases h : y = x - 1
  · simp [hx, h]
  · have : ¬ x - 1 = y := fun e => h e.symm
    simp [h, this]

theorem iR_odd {x : Nat} (hx : x % 2 = 1) (y : Nat) : iR x y = iE (x + 1) y := by
  unfold iR iE
  by_cases h : y = x + 1
  · simp [hx, h]
  · have : ¬ x + 1 = y := fun e => h e.symm
    simp [h, this]

theorem iL_even {x : Nat} (hx : ¬ x % 2 = 1) (y : Nat) : iL x y = 0 := by simp [iL, hx]
theorem iR_even {x : Nat} (hx : ¬ x % 2 = 1) (y : Nat) : iR x y = 0 := by simp [iR, hx]

theorem coef_bd_cons' (x : Nat) (r : Cell) (y : Nat) (g : Cell) :
    coef (bd (x :: r)) (y :: g) = (iL x y - iR x y) * eqI r g + iE x y * δ x * coef (bd r) g := by
  rw [bd_cons, coef_append, coef_pre_cons]
  have hpre : (if x = y then (if x % 2 = 1 then (-1 : Int) else 1) * coef (bd r) g else 0)
      = iE x y * δ x * coef (bd r) g := by
    unfold iE δ
    by_cases h : x = y <;> simp [h]
  rw [hpre]
  by_cases hx : x % 2 = 1
  · simp only [hx, if_true]
    rw [coef_cons', coef_cons', coef_nil, eqI_cons, eqI_cons, iL_odd hx, iR_odd hx]
    simp only
    ring
  · simp only [hx, if_false, coef_nil, iL_even hx, iR_even hx]
    ring

/-- boundary of a prefixed chain -/
theorem coef_bdChain_pre (x : Nat) (ε : Int) (ch : Chain) (y : Nat) (g : Cell) :
    coef (bdChain (pre x ε ch)) (y :: g) =
      (iL x y - iR x y) * ε * coef ch g + iE x y * ε * δ x * coef (bdChain ch) g := by
  induction ch with
  | nil => simp [pre, bdChain, coef]
  | cons p ch ih =>
    have : pre x ε (p :: ch) = (x :: p.1, ε * p.2) :: pre x ε ch := rfl
    rw [this, coef_bdChain_cons, ih, coef_bd_cons', coef_cons', coef_bdChain_cons]
    simp only
    ring

/-- interval part of `∂(x :: rest)` -/
theorem coef_bdChain_interval (x : Nat) (rest : Cell) (hx : x % 2 = 1) (y : Nat) (g : Cell) :
    coef (bdChain [((x - 1) :: rest, 1), ((x + 1) :: rest, -1)]) (y :: g) =
      (iL x y - iR x y) * coef (bd rest) g := by
  have hxm : ¬ (x - 1) % 2 = 1 := by omega
  have hxp : ¬ (x + 1) % 2 = 1 := by omega
  rw [coef_bdChain_cons, coef_bdChain_cons, bdChain_nil, coef_nil, coef_bd_cons', coef_bd_cons',
    iL_even hxm, iR_even hxm, iL_even hxp, iR_even hxp, iL_odd hx, iR_odd hx]
  have d1 : δ (x - 1) = 1 := by simp [δ, hxm]
  have d2 : δ (x + 1) = 1 := by simp [δ, hxp]
  rw [d1, d2]
  simp only
  ring

/-- **∂∂ = 0** for the cubical boundary with signs alternating along the enumeration -/
theorem bd_bd (c : Cell) : ∀ g, coef (bdChain (bd c)) g = 0 := by
  induction c with
  | nil => intro g; rfl
  | cons x rest ih =>
    intro g
    cases g with
    | nil => exact coef_bdChain_nilcell _
    | cons y g =>
      rw [bd_cons, bdChain_append, coef_append, coef_bdChain_pre, ih g]
      by_cases hx : x % 2 = 1
      · simp only [hx, if_true]
        rw [coef_bdChain_interval x rest hx]
        ring
      · simp only [hx, if_false, bdChain_nil, coef_nil, iL, iR, false_and]
        ring

#print axioms bd_bd
end CubicalProto

namespace CubicalProto

def sgn (m : Nat) : Int := if m % 2 = 0 then 1 else -1

def prefixAll (pfx : Cell) (ch : Chain) : Chain := ch.map fun p => (pfx ++ p.1, p.2)

theorem altSigns_append (k : Nat) (a b : List Cell) :
    altSigns k (a ++ b) = altSigns k a ++ altSigns (k + a.length) b := by
  induction a generalizing k with
  | nil => simp [altSigns]
  | cons c a ih =>
    simp only [List.cons_append, altSigns, List.length_cons]
    rw [ih]
    have : k + 1 + a.length = k + (a.length + 1) := by omega
    rw [this]

theorem coef_prefixAll_pre (pfx : Cell) (x : Nat) (ε : Int) (ch : Chain) (h : Cell) :
    coef (prefixAll pfx (pre x ε ch)) h = ε * coef (prefixAll (pfx ++ [x]) ch) h := by
  induction ch with
  | nil => simp [prefixAll, pre, coef]
  | cons p ch ih =>
    have e1 : prefixAll pfx (pre x ε (p :: ch)) = (pfx ++ x :: p.1, ε * p.2) :: prefixAll pfx (pre x ε ch) := rfl
    have e2 : prefixAll (pfx ++ [x]) (p :: ch) = (pfx ++ [x] ++ p.1, p.2) :: prefixAll (pfx ++ [x]) ch := rfl
    rw [e1, e2, coef_cons', coef_cons', ih]
    have : pfx ++ [x] ++ p.1 = pfx ++ x :: p.1 := by simp
    rw [this]
    simp only
    ring

/-- **the C++ enumeration with signs alternating along it is the Leibniz boundary** (as chains) -/
theorem enum_eq_bd (c : Cell) : ∀ (pfx : Cell) (m k : Nat), k % 2 = 0 → ∀ h,
    coef (altSigns k (bdEnum pfx m c)) h = sgn m * coef (prefixAll pfx (bd c)) h := by
  induction c with
  | nil => intro pfx m k _ h; simp [bdEnum, altSigns, bd, prefixAll, coef]
  | cons x rest ih =>
    intro pfx m k hk h
    rw [bdEnum, altSigns_append, coef_append, bd_cons]
    have hpa : prefixAll pfx ((if x % 2 = 1 then [((x - 1) :: rest, (1 : Int)), ((x + 1) :: rest, -1)] else []) ++
        pre x (if x % 2 = 1 then -1 else 1) (bd rest)) =
        prefixAll pfx (if x % 2 = 1 then [((x - 1) :: rest, (1 : Int)), ((x + 1) :: rest, -1)] else []) ++
        prefixAll pfx (pre x (if x % 2 = 1 then -1 else 1) (bd rest)) := by simp [prefixAll]
    rw [hpa, coef_append, coef_prefixAll_pre]
    by_cases hx : x % 2 = 1
    · simp only [hx, if_true]
      have hlen : ∀ (l : List Cell), l.length = 2 → (k + l.length) % 2 = 0 := by intro l hl; omega
      by_cases hm : m % 2 = 0
      · simp only [hm, if_true]
        rw [ih (pfx ++ [x]) (m + 1) _ (hlen _ rfl) h]
        have s1 : sgn m = 1 := by simp [sgn, hm]
        have s2 : sgn (m + 1) = -1 := by simp [sgn]; omega
        rw [s1, s2]
        simp only [altSigns, prefixAll, List.map_cons, List.map_nil]
        rw [coef_cons', coef_cons', coef_nil, coef_cons', coef_cons', coef_nil]
        have hk1 : ¬ (k + 1) % 2 = 0 := by omega
        simp only [hk, hk1, if_true, if_false]
        ring
      · simp only [hm, if_false]
        rw [ih (pfx ++ [x]) (m + 1) _ (hlen _ rfl) h]
        have s1 : sgn m = -1 := by simp [sgn, hm]
        have s2 : sgn (m + 1) = 1 := by simp [sgn]; omega
        rw [s1, s2]
        simp only [altSigns, prefixAll, List.map_cons, List.map_nil]
        rw [coef_cons', coef_cons', coef_nil, coef_cons', coef_cons', coef_nil]
        have hk1 : ¬ (k + 1) % 2 = 0 := by omega
        simp only [hk, hk1, if_true, if_false]
        ring
    · have hm0 : m + x % 2 = m := by omega
      simp only [hx, if_false, List.length_nil, Nat.add_zero, altSigns, coef_nil, prefixAll, List.map_nil, hm0]
      rw [ih (pfx ++ [x]) m k hk h]
      simp only [prefixAll]
      ring

#print axioms enum_eq_bd
end CubicalProto
