import GudhiVerif.Beta
/-! Prototype (C14, 1D): the remaining surgery lemmas — mirror images and the versions at the two ends. Core only. -/
namespace BetaProto

def σ0 : St := ⟨false, false, 0⟩

/-- R1 (decreasing): in `a ≥ b ≥ c` the middle is irrelevant -/
theorem R1_down (s t a b c : Int) (hab : b ≤ a) (hbc : c ≤ b) (σ : St) :
    [a, b, c].foldl (stepβ s t) σ = [a, c].foldl (stepβ s t) σ := by
  obtain ⟨r, l, n⟩ := σ
  simp only [List.foldl]
  by_cases ha : a ≤ t
  · have hb : b ≤ t := by omega
    have hc : c ≤ t := by omega
    rw [step_le ha, step_le hb, step_le hc, step_le hc]
    by_cases h4 : a ≤ s <;> by_cases h5 : b ≤ s <;> by_cases h6 : c ≤ s <;> cases r <;> simp [h4, h5, h6] <;> omega
  · have ha' : t < a := by omega
    by_cases hb : b ≤ t
    · have hc : c ≤ t := by omega
      rw [step_gt ha', step_le hb, step_le hc, step_le hc]
      by_cases h5 : b ≤ s <;> by_cases h6 : c ≤ s <;> cases r <;> simp [h5, h6] <;> omega
    · have hb' : t < b := by omega
      by_cases hc : c ≤ t
      · rw [step_gt ha', step_gt hb', step_le hc, step_le hc]
        cases r <;> simp
      · have hc' : t < c := by omega
        rw [step_gt ha', step_gt hb', step_gt hc', step_gt hc']
        cases r <;> simp

/-- R2 (mirror): `d ≥ b > c ≥ a` read as `… d, c, b, a …` with `a ≤ c < b ≤ d`: the inner pair (c,b) is a bar -/
theorem R2_mirror (s t a b c d : Int) (hst : s ≤ t) (hac : a ≤ c) (hcb : c < b) (hbd : b ≤ d) (σ : St) :
    [d, c, b, a].foldl (stepβ s t) σ
      = bump (if c ≤ s ∧ t < b then 1 else 0) ([d, a].foldl (stepβ s t) σ) := by
  obtain ⟨r, l, n⟩ := σ
  simp only [List.foldl]
  by_cases hd : d ≤ t
  · have hb : b ≤ t := by omega
    have hc : c ≤ t := by omega
    have ha : a ≤ t := by omega
    have hnb : ¬ (c ≤ s ∧ t < b) := by omega
    rw [step_le hd, step_le hc, step_le hb, step_le ha, step_le ha, if_neg hnb]
    by_cases h4 : a ≤ s <;> by_cases h5 : b ≤ s <;> by_cases h6 : c ≤ s <;> by_cases h8 : d ≤ s <;>
      cases r <;> simp [bump, h4, h5, h6, h8] <;> omega
  · have hd' : t < d := by omega
    by_cases hb : b ≤ t
    · have hc : c ≤ t := by omega
      have ha : a ≤ t := by omega
      have hnb : ¬ (c ≤ s ∧ t < b) := by omega
      rw [step_gt hd', step_le hc, step_le hb, step_le ha, step_le ha, if_neg hnb]
      by_cases h4 : a ≤ s <;> by_cases h5 : b ≤ s <;> by_cases h6 : c ≤ s <;> cases r <;> cases l <;>
        simp [bump, h4, h5, h6] <;> omega
    · have hb' : t < b := by omega
      by_cases hc : c ≤ t
      · have ha : a ≤ t := by omega
        rw [step_gt hd', step_le hc, step_gt hb', step_le ha, step_le ha]
        by_cases h4 : a ≤ s <;> by_cases h6 : c ≤ s <;> cases r <;> cases l <;> simp [bump, h4, h6, hb'] <;> omega
      · have hc' : t < c := by omega
        have hnb : ¬ (c ≤ s ∧ t < b) := by omega
        rw [if_neg hnb]
        by_cases ha : a ≤ t
        · rw [step_gt hd', step_gt hc', step_gt hb', step_le ha, step_le ha]
          cases r <;> simp [bump]
        · have ha' : t < a := by omega
          rw [step_gt hd', step_gt hc', step_gt hb', step_gt ha', step_gt ha']
          cases r <;> simp [bump]

#print axioms R1_down
#print axioms R2_mirror
end BetaProto

namespace BetaProto

/-- at the very beginning: a first element that is not smaller than its successor is irrelevant -/
theorem R0_start (s t a v : Int) (hva : v ≤ a) : [a, v].foldl (stepβ s t) σ0 = [v].foldl (stepβ s t) σ0 := by
  simp only [List.foldl, σ0]
  by_cases ha : a ≤ t
  · have hv : v ≤ t := by omega
    rw [step_le ha, step_le hv, step_le hv]
    by_cases h4 : a ≤ s <;> by_cases h5 : v ≤ s <;> simp [h4, h5] <;> omega
  · have ha' : t < a := by omega
    rw [step_gt ha']
    simp

/-- at the very beginning: `a, b, v` with `v ≤ a < b` — the bar (a,b) -/
theorem R2_start (s t a b v : Int) (hst : s ≤ t) (hva : v ≤ a) (hab : a < b) :
    [a, b, v].foldl (stepβ s t) σ0 = bump (if a ≤ s ∧ t < b then 1 else 0) ([v].foldl (stepβ s t) σ0) := by
  simp only [List.foldl, σ0]
  by_cases hb : b ≤ t
  · have ha : a ≤ t := by omega
    have hv : v ≤ t := by omega
    have hnb : ¬ (a ≤ s ∧ t < b) := by omega
    rw [step_le ha, step_le hb, step_le hv, step_le hv, if_neg hnb]
    by_cases h4 : a ≤ s <;> by_cases h5 : b ≤ s <;> by_cases h6 : v ≤ s <;> simp [bump, h4, h5, h6] <;> omega
  · have hb' : t < b := by omega
    by_cases ha : a ≤ t
    · have hv : v ≤ t := by omega
      rw [step_le ha, step_gt hb', step_le hv, step_le hv]
      by_cases h4 : a ≤ s <;> by_cases h6 : v ≤ s <;> simp [bump, h4, h6, hb'] <;> omega
    · have ha' : t < a := by omega
      have hnb : ¬ (a ≤ s ∧ t < b) := by omega
      rw [step_gt ha', step_gt hb', if_neg hnb]
      simp [bump]

/-- at the very end: a last element not smaller than its predecessor is irrelevant (`endup`) -/
theorem R0_end (s t a c : Int) (hac : a ≤ c) (σ : St) :
    finish ([a, c].foldl (stepβ s t) σ) = finish ([a].foldl (stepβ s t) σ) := by
  obtain ⟨r, l, n⟩ := σ
  simp only [List.foldl]
  by_cases hc : c ≤ t
  · have ha : a ≤ t := by omega
    rw [step_le ha, step_le hc]
    by_cases h4 : a ≤ s <;> by_cases h5 : c ≤ s <;> cases r <;> cases l <;> simp [finish, h4, h5] <;> omega
  · have hc' : t < c := by omega
    by_cases ha : a ≤ t
    · rw [step_le ha, step_gt hc']
      by_cases h4 : a ≤ s <;> cases r <;> cases l <;> simp [finish, h4]
    · have ha' : t < a := by omega
      rw [step_gt ha', step_gt hc']
      cases r <;> cases l <;> simp [finish]

/-- at the very end: `p, b, a` with `p ≤ a < b` — the bar (a,b) (`enddown`) -/
theorem R2_end (s t p b a : Int) (hst : s ≤ t) (hpa : p ≤ a) (hab : a < b) (σ : St) :
    finish ([p, b, a].foldl (stepβ s t) σ)
      = finish ([p].foldl (stepβ s t) σ) + (if a ≤ s ∧ t < b then 1 else 0) := by
  obtain ⟨r, l, n⟩ := σ
  simp only [List.foldl]
  by_cases hb : b ≤ t
  · have ha : a ≤ t := by omega
    have hp : p ≤ t := by omega
    have hnb : ¬ (a ≤ s ∧ t < b) := by omega
    rw [step_le hp, step_le hb, step_le ha, if_neg hnb]
    by_cases h4 : a ≤ s <;> by_cases h5 : b ≤ s <;> by_cases h6 : p ≤ s <;> cases r <;> cases l <;>
      simp [finish, h4, h5, h6] <;> omega
  · have hb' : t < b := by omega
    by_cases ha : a ≤ t
    · have hp : p ≤ t := by omega
      rw [step_le hp, step_gt hb', step_le ha]
      by_cases h4 : a ≤ s <;> by_cases h6 : p ≤ s <;> cases r <;> cases l <;> simp [finish, h4, h6, hb'] <;> omega
    · have ha' : t < a := by omega
      have hnb : ¬ (a ≤ s ∧ t < b) := by omega
      rw [if_neg hnb]
      by_cases hp : p ≤ t
      · rw [step_le hp, step_gt hb', step_gt ha']
        by_cases h6 : p ≤ s <;> cases r <;> cases l <;> simp [finish, h6]
      · have hp' : t < p := by omega
        rw [step_gt hp', step_gt hb', step_gt ha']
        cases r <;> cases l <;> simp [finish]

#print axioms R0_start
#print axioms R2_start
#print axioms R0_end
#print axioms R2_end
end BetaProto
