import Mathlib.Data.Matrix.Basic
import Mathlib.Order.Fin.Basic
import Mathlib.Tactic

/-! Prototype: a matrix whose non-zero columns have distinct lowest entries and whose non-zero rows have distinct
    leftmost entries pairs rows and columns the same way from both sides (homology / cohomology duality at
    matrix level). -/
variable {n : ℕ} {F : Type*} [Zero F]

def ColLow (M : Matrix (Fin n) (Fin n) F) (j i : Fin n) : Prop := M i j ≠ 0 ∧ ∀ k, i < k → M k j = 0
def RowLeft (M : Matrix (Fin n) (Fin n) F) (i j : Fin n) : Prop := M i j ≠ 0 ∧ ∀ k, k < j → M i k = 0

theorem exists_rowLeft (M : Matrix (Fin n) (Fin n) F) (i j : Fin n) (h : M i j ≠ 0) :
    ∃ j', j' ≤ j ∧ RowLeft M i j' := by
  classical
  have hne : (Finset.univ.filter fun k => M i k ≠ 0).Nonempty := ⟨j, by simp [h]⟩
  refine ⟨(Finset.univ.filter fun k => M i k ≠ 0).min' hne, ?_, ?_, ?_⟩
  · exact Finset.min'_le _ j (by simp [h])
  · have := Finset.min'_mem _ hne; simpa using this
  · intro k hk
    by_contra hc
    exact absurd (Finset.min'_le _ k (by simp [hc])) (not_le.mpr hk)

theorem exists_colLow (M : Matrix (Fin n) (Fin n) F) (i j : Fin n) (h : M i j ≠ 0) :
    ∃ i', i ≤ i' ∧ ColLow M j i' := by
  classical
  have hne : (Finset.univ.filter fun k => M k j ≠ 0).Nonempty := ⟨i, by simp [h]⟩
  refine ⟨(Finset.univ.filter fun k => M k j ≠ 0).max' hne, ?_, ?_, ?_⟩
  · exact Finset.le_max' _ i (by simp [h])
  · have := Finset.max'_mem _ hne; simpa using this
  · intro k hk
    by_contra hc
    exact absurd (Finset.le_max' _ k (by simp [hc])) (not_le.mpr hk)

theorem low_imp_left (M : Matrix (Fin n) (Fin n) F)
    (hc : ∀ j k i, ColLow M j i → ColLow M k i → j = k)
    (hr : ∀ i k j, RowLeft M i j → RowLeft M k j → i = k) :
    ∀ j i, ColLow M j i → RowLeft M i j := by
  have key : ∀ m : ℕ, ∀ j : Fin n, j.val = m → ∀ i, ColLow M j i → RowLeft M i j := by
    intro m
    induction m using Nat.strong_induction_on with
    | _ m ih =>
      intro j hj i hlow
      obtain ⟨j', hle, hleft⟩ := exists_rowLeft M i j hlow.1
      rcases lt_or_eq_of_le hle with hlt | heq
      · exfalso
        obtain ⟨i', hii', hlow'⟩ := exists_colLow M i j' hleft.1
        have hne : i ≠ i' := by
          rintro rfl
          exact absurd (hc j' j i hlow' hlow) (ne_of_lt hlt)
        have hleft' : RowLeft M i' j' := ih j'.val (hj ▸ hlt) j' rfl i' hlow'
        exact hne (hr i i' j' hleft hleft')
      · exact heq ▸ hleft
  exact fun j i => key j.val j rfl i

theorem left_imp_low (M : Matrix (Fin n) (Fin n) F)
    (hc : ∀ j k i, ColLow M j i → ColLow M k i → j = k)
    (hr : ∀ i k j, RowLeft M i j → RowLeft M k j → i = k) :
    ∀ i j, RowLeft M i j → ColLow M j i := by
  intro i j hleft
  obtain ⟨i', _, hlow'⟩ := exists_colLow M i j hleft.1
  have hleft' : RowLeft M i' j := low_imp_left M hc hr j i' hlow'
  exact (hr i i' j hleft hleft') ▸ hlow'

theorem rowcert_dual (M : Matrix (Fin n) (Fin n) F)
    (hc : ∀ j k i, ColLow M j i → ColLow M k i → j = k)
    (hr : ∀ i k j, RowLeft M i j → RowLeft M k j → i = k) (i j : Fin n) :
    ColLow M j i ↔ RowLeft M i j :=
  ⟨low_imp_left M hc hr j i, left_imp_low M hc hr i j⟩

#print axioms rowcert_dual
