import GudhiVerif.Mfnd2
/-! Prototype (C03): `make_filtration_non_decreasing` on the `Forest` model refines the fold of `Mfnd.lean`:
    `mfnd_spec`.  Core Lean only. -/
namespace Mfnd3Proto
open TrieProto TrieProto.Forest MfndProto Mfnd2Proto

/-- assignment of the value of an existing node (the callback writes through `Filtration_value&`) -/
def setVal : Forest → List Nat → Int → Forest
  | nil, _, _ => nil
  | cons l f k r, [], _ => cons l f k r
  | cons l f k r, [v], x => if v = l then cons l x k r else cons l f k (setVal r [v] x)
  | cons l f k r, v :: v2 :: vs, x =>
    if v = l then cons l f (setVal k (v2 :: vs) x) r else cons l f k (setVal r (v :: v2 :: vs) x)

theorem find_nil (q : List Nat) : find nil q = none := by cases q <;> rfl

theorem find_setVal (t : Forest) (w : List Nat) (x : Int) (q : List Nat) :
    find (setVal t w x) q = if q = w then (find t w).map (fun _ => x) else find t q := by
  induction t, w, x using setVal.induct generalizing q with
  | case1 w x => simp [setVal, find_nil]
  | case2 l f k r x =>
    rw [setVal]
    split
    · rename_i h; subst h; simp [find]
    · rfl
  | case3 f k r v x =>
    rw [setVal, if_pos rfl]
    cases q with
    | nil => simp [find]
    | cons a q' =>
      cases q' with
      | nil =>
        simp only [find]
        by_cases ha : a = v
        · subst ha; simp
        · have : ¬ [a] = [v] := by simpa using ha
          simp [ha, this]
      | cons b q'' =>
        have : ¬ (a :: b :: q'' = [v]) := by simp
        simp only [find, this, if_false]
  | case4 l f k r v x hvl ih =>
    rw [setVal, if_neg hvl]
    cases q with
    | nil => simp [find]
    | cons a q' =>
      cases q' with
      | nil =>
        simp only [find]
        by_cases ha : a = l
        · have : ¬ [a] = [v] := by simp; omega
          subst ha
          simp [this]
        · simp only [ha, if_false, hvl]
          rw [ih [a]]
      | cons b q'' =>
        simp only [find]
        by_cases ha : a = l
        · have : ¬ (a :: b :: q'' = [v]) := by simp
          simp [ha, this]
        · simp only [ha, if_false, hvl]
          rw [ih (a :: b :: q'')]
  | case5 f k r l v2 vs x ih =>
    rw [setVal, if_pos rfl]
    cases q with
    | nil => simp [find]
    | cons a q' =>
      cases q' with
      | nil =>
        have : ¬ ([a] = l :: v2 :: vs) := by simp
        simp only [find, this, if_false]
      | cons b q'' =>
        simp only [find]
        by_cases ha : a = l
        · subst ha
          simp only [if_true]
          rw [ih (b :: q'')]
          by_cases hb : b :: q'' = v2 :: vs
          · simp [hb]
          · have : ¬ (a :: b :: q'' = a :: v2 :: vs) := by simpa using hb
            simp [hb, this]
        · have : ¬ (a :: b :: q'' = l :: v2 :: vs) := by simp [ha]
          simp [ha, this]
  | case6 l f k r v v2 vs x hvl ih =>
    rw [setVal, if_neg hvl]
    cases q with
    | nil => simp [find]
    | cons a q' =>
      cases q' with
      | nil =>
        simp only [find]
        by_cases ha : a = l
        · have : ¬ ([a] = v :: v2 :: vs) := by simp
          simp [ha, this]
        · simp only [ha, if_false, hvl]
          rw [ih [a]]
      | cons b q'' =>
        simp only [find]
        by_cases ha : a = l
        · have : ¬ (a :: b :: q'' = v :: v2 :: vs) := by simp; intro h; omega
          subst ha
          rw [if_neg this]
          simp
        · simp only [ha, if_false, hvl]
          rw [ih (a :: b :: q'')]


/-- the traversal visits exactly the simplices of the tree -/
theorem mem_walk_iff (lb : Option Nat) (t : Forest) (hs : Sorted lb t) (w : List Nat) :
    w ∈ walk t ↔ (find t w).isSome = true := by
  induction t generalizing lb w with
  | nil => simp [walk, find_nil]
  | cons l f k r ihk ihr =>
    obtain ⟨h1, h2, h3⟩ := hs
    have hr := walk_incAbove (some l) r h3
    have hk := walk_incAbove (some l) k h2
    simp only [walk, List.mem_append, List.mem_cons, List.mem_map]
    cases w with
    | nil =>
      simp only [find, Option.isSome_none]
      constructor
      · intro h
        rcases h with h | h | ⟨s, _, h⟩
        · exact absurd rfl (hr [] h).2
        · cases h
        · cases h
      · intro h; cases h
    | cons v w' =>
      cases w' with
      | nil =>
        simp only [find]
        by_cases hv : v = l
        · subst hv; simp
        · simp only [hv, if_false]
          rw [← ihr (some l) h3 [v]]
          constructor
          · intro h
            rcases h with h | h | ⟨s, hs', h⟩
            · exact h
            · simp at h; exact absurd h hv
            · simp at h; exact absurd h.1.symm hv
          · intro h; exact Or.inl h
      | cons v2 vs =>
        simp only [find]
        by_cases hv : v = l
        · subst hv
          simp only [if_true]
          rw [← ihk (some v) h2 (v2 :: vs)]
          constructor
          · intro h
            rcases h with h | h | ⟨s, hs', h⟩
            · have := (hr _ h).1.1; simp at this
            · simp at h
            · simp at h; rw [← h]; exact hs'
          · intro h; exact Or.inr (Or.inr ⟨v2 :: vs, h, rfl⟩)
        · simp only [hv, if_false]
          rw [← ihr (some l) h3 (v :: v2 :: vs)]
          constructor
          · intro h
            rcases h with h | h | ⟨s, hs', h⟩
            · exact h
            · simp at h
            · simp at h; exact absurd h.1.symm hv
          · intro h; exact Or.inl h

def findD (t : Forest) (q : List Nat) : Int := (find t q).getD 0

/-- the callback of `make_filtration_non_decreasing` on the tree -/
def stepT (t : Forest) (w : List Nat) : Forest :=
  if w.length ≤ 1 then t else setVal t w (maxL (findD t w) ((facets w).map (findD t)))

/-- `make_filtration_non_decreasing` (the returned flag is `decide (result ≠ input)`) -/
def mfnd (t : Forest) : Forest := (walk t).foldl stepT t

theorem isSome_stepT (t : Forest) (w q : List Nat) : (find (stepT t w) q).isSome = (find t q).isSome := by
  unfold stepT; split
  · rfl
  · rw [find_setVal]; split
    · rename_i h; subst h; simp
    · rfl

theorem findD_stepT (t : Forest) (w : List Nat) (hw : (find t w).isSome = true) :
    findD (stepT t w) = step (findD t) w := by
  funext q
  unfold stepT step
  split
  · rfl
  · unfold findD
    rw [find_setVal]
    split
    · rename_i h; subst h
      obtain ⟨y, hy⟩ := Option.isSome_iff_exists.mp hw
      simp [hy]
    · rename_i h; simp only [h, if_false]

theorem fold_refines : ∀ (L : List (List Nat)) (t : Forest), (∀ w ∈ L, (find t w).isSome = true) →
    findD (L.foldl stepT t) = L.foldl step (findD t) ∧
    ∀ q, (find (L.foldl stepT t) q).isSome = (find t q).isSome := by
  intro L
  induction L with
  | nil => intro t _; exact ⟨rfl, fun _ => rfl⟩
  | cons w L ih =>
    intro t h
    have hw := h w List.mem_cons_self
    have h' : ∀ u ∈ L, (find (stepT t w) u).isSome = true := by
      intro u hu; rw [isSome_stepT]; exact h u (List.mem_cons_of_mem _ hu)
    obtain ⟨e1, e2⟩ := ih (stepT t w) h'
    simp only [List.foldl_cons]
    refine ⟨by rw [e1, findD_stepT t w hw], fun q => by rw [e2 q, isSome_stepT]⟩

/-- **`make_filtration_non_decreasing` assigns to every simplex of a (sorted, face-closed) tree the least monotone
    function above the input, and creates or removes nothing** -/
theorem mfnd_spec (t : Forest) (hs : Sorted none t)
    (hclosed : ∀ w, (find t w).isSome = true → 2 ≤ w.length → ∀ u ∈ facets w, (find t u).isSome = true) (w : List Nat) :
    find (mfnd t) w = (find t w).map (fun _ => final (findD t) w) := by
  have hmem := fun w => mem_walk_iff none t hs w
  obtain ⟨e1, e2⟩ := fold_refines (walk t) t (fun w hw => (hmem w).mp hw)
  have hfold := fold_spec (findD t) (walk t) (walk_nodup t hs) (walk_sorted none t hs) (walk_inc t hs)
    (fun w hw h2 u hu => (hmem u).mpr (hclosed w ((hmem w).mp hw) h2 u hu))
  unfold mfnd
  cases hfw : find t w with
  | none =>
    have := e2 w
    rw [hfw] at this
    simp only [Option.map_none]
    cases hq : find (List.foldl stepT t (walk t)) w with
    | none => rfl
    | some y => rw [hq] at this; cases this
  | some y =>
    have hsome : (find t w).isSome = true := by rw [hfw]; rfl
    have := e2 w
    rw [hfw] at this
    obtain ⟨z, hz⟩ := Option.isSome_iff_exists.mp this
    rw [hz]
    simp only [Option.map_some]
    have hval : findD (List.foldl stepT t (walk t)) w = final (findD t) w := by
      rw [e1]; exact hfold.1 w ((hmem w).mpr hsome)
    have hz' : findD (List.foldl stepT t (walk t)) w = z := by unfold findD; rw [hz]; rfl
    rw [← hz', hval]

/-- `assign_filtration` keeps the tree sorted (it touches values only) -/
theorem sorted_setVal (t : Forest) (w : List Nat) (x : Int) : ∀ lb, Sorted lb t → Sorted lb (setVal t w x) := by
  induction t, w, x using setVal.induct with
  | case1 w x => intro lb _; simp only [setVal]; trivial
  | case2 l f k r x => intro lb h; simp only [setVal]; exact h
  | case3 f k r v x => intro lb h; rw [setVal, if_pos rfl]; exact h
  | case4 l f k r v x hvl ih =>
    intro lb h; rw [setVal, if_neg hvl]; exact ⟨h.1, h.2.1, ih (some l) h.2.2⟩
  | case5 f k r l v2 vs x ih =>
    intro lb h; rw [setVal, if_pos rfl]; exact ⟨h.1, ih (some l) h.2.1, h.2.2⟩
  | case6 l f k r v v2 vs x hvl ih =>
    intro lb h; rw [setVal, if_neg hvl]; exact ⟨h.1, h.2.1, ih (some l) h.2.2⟩

#print axioms sorted_setVal
#print axioms find_setVal
#print axioms mem_walk_iff
#print axioms mfnd_spec
end Mfnd3Proto
